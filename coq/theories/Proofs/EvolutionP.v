(* C07 — proofs about Model/Evolution.v (insertion loop, initial phase, Iterative::run, generation count). *)
From VRP Require Import Base.Tac Model.Homes Proofs.HomesP Model.Evolution.
Local Open Scope nat_scope.

(* the evaluator only answers about jobs it was given, and those are taken from `required` *)
Definition eres_ok (r : eres) (s : hsol) : Prop :=
  match r with
  | ESuccess _ j => In j (h_required s)
  | EFailure (Some j) _ _ => In j (h_required s)
  | EFailure None _ _ => True
  end.
Definition ev_ok (ev : nat -> hsol -> eres) : Prop := forall i s, eres_ok (ev i s) s.

Definition Good (jobs : list Z) (s : hsol) : Prop := Inv jobs s /\ h_required s = [].

(* the quota stays true from its k-th poll on *)
Definition fires_by (q : quota) (k : nat) : Prop := forall n, k <= S n -> q n = true.

Lemma counting_fires_by k : fires_by (counting_quota (Some k)) k.
Proof. intros n H. unfold counting_quota. apply Nat.leb_le. exact H. Qed.

Lemma counting_never n : counting_quota None n = false.
Proof. reflexivity. Qed.

(* ------------------------------------------------------------------ lists *)
Lemma filter_len_le {A} (f : A -> bool) l : length (filter f l) <= length l.
Proof. induction l as [|a l IH]; cbn [filter length]; [lia|destruct (f a); cbn [length]; lia]. Qed.

Lemma zremove_length_lt j l : In j l -> length (zremove j l) < length l.
Proof.
  unfold zremove. induction l as [|a l IH]; cbn [In filter length]; intros H; [contradiction|].
  pose proof (filter_len_le (fun k => negb (k =? j)%Z) l) as Hle.
  destruct H as [->|H].
  - rewrite Z.eqb_refl. cbn [negb]. lia.
  - specialize (IH H). destruct (negb (a =? j)%Z); cbn [length]; lia.
Qed.

(* ------------------------------------------------------------------ one iteration of the insertion loop *)
Lemma iterate_polls r st : p_polls (iterate r st) = p_polls st.
Proof.
  destruct r as [k j|job a h]; cbn [iterate apply_success p_polls]; [reflexivity|].
  unfold apply_failure. destruct (h && (0 <? p_reg st)); reflexivity.
Qed.

Lemma iterate_ins r st : p_ins st <= p_ins (iterate r st) <= S (p_ins st).
Proof.
  destruct r as [k j|job a h]; cbn [iterate apply_success p_ins]; [lia|].
  unfold apply_failure. destruct (h && (0 <? p_reg st)); cbn [p_ins]; lia.
Qed.

Lemma iterate_inv jobs r st : Inv jobs (p_sol st) -> eres_ok r (p_sol st) -> Inv jobs (p_sol (iterate r st)).
Proof.
  intros HI Hok. destruct r as [k j|job a h]; cbn [iterate].
  - cbn [apply_success p_sol]. apply step_insert; assumption.
  - unfold apply_failure. destruct (h && (0 <? p_reg st)); cbn [p_sol].
    + apply step_push_empty. exact HI.
    + destruct job as [j|]; cbn [eres_ok] in Hok.
      * destruct (a || false); [apply step_finalize|]; apply step_fail; assumption.
      * destruct (a || true); [apply step_finalize|]; exact HI.
Qed.

Lemma iterate_measure r st :
  h_required (p_sol st) <> [] -> eres_ok r (p_sol st) -> measure (iterate r st) < measure st.
Proof.
  intros Hne Hok. unfold measure. destruct r as [k j|job a h]; cbn [iterate].
  - cbn [apply_success p_sol p_reg step h_required]. cbn [eres_ok] in Hok.
    pose proof (zremove_length_lt j _ Hok). destruct (length (h_routes (p_sol st)) <=? k); lia.
  - unfold apply_failure. destruct (h && (0 <? p_reg st)) eqn:Hh; cbn [p_sol p_reg].
    + apply andb_true_iff in Hh. destruct Hh as [_ Hh]. apply Nat.ltb_lt in Hh. cbn [step h_required]. lia.
    + assert (Hpos : 0 < length (h_required (p_sol st))).
      { destruct (h_required (p_sol st)); [congruence|cbn; lia]. }
      destruct job as [j|]; cbn [eres_ok] in Hok.
      * pose proof (zremove_length_lt j _ Hok). destruct (a || false); cbn [step h_required length]; lia.
      * destruct (a || true) eqn:E; [cbn [step h_required length]; lia|]. rewrite orb_true_r in E. discriminate.
Qed.

(* ------------------------------------------------------------------ the insertion loop *)
Section PLoop.
  Variable jobs : list Z.
  Variable ev : nat -> hsol -> eres.
  Variable q : quota.
  Hypothesis Hev : ev_ok ev.

  Lemma ploop_some : forall fuel i st,
      Inv jobs (p_sol st) -> measure st <= fuel ->
      exists st', ploop fuel ev q i st = Some st'
                  /\ Inv jobs (p_sol st')
                  /\ p_polls st <= p_polls st'
                  /\ (forall m, q m = true -> p_polls st <= m -> p_polls st' <= S m)
                  /\ p_ins st <= p_ins st'
                  /\ p_ins st' + p_polls st <= p_ins st + p_polls st'.
  Proof.
    induction fuel as [|f IH]; intros i st HI Hm; cbn [ploop];
      destruct (h_required (p_sol st)) as [|x req] eqn:Hreq.
    - exists st. split; [reflexivity|]. split; [exact HI|]. repeat split; intros; lia.
    - destruct (q (p_polls st)) eqn:Hq.
      + exists (poll st). cbn [poll p_sol p_polls p_ins]. split; [reflexivity|]. split; [exact HI|]. repeat split; intros; lia.
      + unfold measure in Hm. rewrite Hreq in Hm. cbn [length] in Hm. lia.
    - exists st. split; [reflexivity|]. split; [exact HI|]. repeat split; intros; lia.
    - destruct (q (p_polls st)) eqn:Hq.
      + exists (poll st). cbn [poll p_sol p_polls p_ins]. split; [reflexivity|]. split; [exact HI|]. repeat split; intros; lia.
      + set (st2 := iterate (ev i (p_sol st)) (poll st)).
        assert (Hne : h_required (p_sol (poll st)) <> []) by (cbn [poll p_sol]; rewrite Hreq; discriminate).
        assert (Hok : eres_ok (ev i (p_sol st)) (p_sol (poll st))) by (cbn [poll p_sol]; apply Hev).
        assert (HI2 : Inv jobs (p_sol st2)) by (apply iterate_inv; [exact HI|exact Hok]).
        assert (Hm2 : measure st2 <= f).
        { pose proof (iterate_measure _ _ Hne Hok) as H. fold st2 in H. unfold measure in H, Hm |- *. cbn [poll p_sol p_reg] in H. lia. }
        destruct (IH (S i) st2 HI2 Hm2) as (st' & E & HI' & Hp & Hstop & Hi1 & Hi2).
        assert (Hpolls2 : p_polls st2 = S (p_polls st)) by (unfold st2; rewrite iterate_polls; reflexivity).
        pose proof (iterate_ins (ev i (p_sol st)) (poll st)) as Hins. fold st2 in Hins. cbn [poll p_ins] in Hins.
        exists st'. split; [exact E|]. split; [exact HI'|]. split; [lia|]. split; [|split; lia].
        intros m Hqm Hle. apply Hstop; [exact Hqm|].
        assert (p_polls st <> m) by (intros Heq; rewrite Heq in Hq; congruence). lia.
  Qed.

  Lemma ploop_quota_first fuel i st :
    q (p_polls st) = true -> ploop fuel ev q i st = Some st \/ ploop fuel ev q i st = Some (poll st).
  Proof.
    intros Hq. destruct fuel; cbn [ploop]; destruct (h_required (p_sol st)); rewrite ?Hq; auto.
  Qed.

  Theorem process_total st :
    Inv jobs (p_sol st) ->
    exists st', process ev q st = Some st'
                /\ Inv jobs (p_sol st') /\ h_required (p_sol st') = []
                /\ p_polls st <= p_polls st'
                /\ (forall m, q m = true -> p_polls st <= m -> p_polls st' <= S m)
                /\ p_ins st <= p_ins st'
                /\ p_ins st' + p_polls st <= p_ins st + p_polls st'.
  Proof.
    intros HI. unfold process.
    assert (HI0 : Inv jobs (p_sol (prepare st))) by (cbn [prepare p_sol]; apply step_prepare; exact HI).
    destruct (ploop_some (measure (prepare st)) 0 (prepare st) HI0 (le_n _)) as (st1 & E & HI1 & Hp & Hstop & Hi1 & Hi2).
    rewrite E. exists (finalize st1). cbn [finalize p_sol p_polls p_ins prepare] in *.
    split; [reflexivity|]. split; [apply step_drop_empty; apply step_finalize; exact HI1|]. split; [reflexivity|]. auto.
  Qed.

  (* the quota is already true at the first poll: nothing is inserted, every pending job is reported unassigned *)
  Theorem process_quota_first st :
    q (p_polls st) = true ->
    exists st', process ev q st = Some st'
                /\ h_routes (p_sol st') = h_routes (step (p_sol st) HDropEmpty)
                /\ p_ins st' = p_ins st
                /\ p_polls st' <= S (p_polls st)
                /\ h_required (p_sol st') = []
                /\ (forall j, In j (h_unassigned (p_sol st')) <-> In j (h_unassigned (p_sol st)) \/ In j (h_required (p_sol st))).
  Proof.
    intros Hq. unfold process.
    assert (Hq0 : q (p_polls (prepare st)) = true) by exact Hq.
    destruct (ploop_quota_first (measure (prepare st)) 0 (prepare st) Hq0) as [E|E]; rewrite E;
      eexists; (split; [reflexivity|]); cbn [finalize prepare poll p_sol p_polls p_ins step h_routes h_required h_unassigned];
      (repeat split; [lia| |]); intros H; try (apply fold_insert_In in H; rewrite in_app_iff in H; tauto);
      apply fold_insert_In; rewrite in_app_iff; tauto.
  Qed.
End PLoop.

(* what reaches the writer after ANY interruption of the loop is an exact partition of the plan *)
Corollary process_partition jobs ev q st st' :
  ev_ok ev -> Inv jobs (p_sol st) -> process ev q st = Some st' ->
  forall j, In j jobs ->
    (count_occ Z.eq_dec (concat (h_routes (p_sol st'))) j = 1 /\ count_occ Z.eq_dec (reported_unassigned (p_sol st')) j = 0)
    \/ (count_occ Z.eq_dec (concat (h_routes (p_sol st'))) j = 0 /\ count_occ Z.eq_dec (reported_unassigned (p_sol st')) j = 1).
Proof.
  intros Hev HI E. destruct (process_total jobs ev q Hev st HI) as (st2 & E2 & HI2 & Hreq & _).
  rewrite E in E2. injection E2 as <-. exact (proj1 (reported_partition jobs _ HI2 Hreq)).
Qed.

(* ------------------------------------------------------------------ termination criteria *)
(* CompositeTermination = any: whatever other criteria are configured (before or after it in the list), the composite is
   terminated as soon as the generation limit is reached - further criteria can only stop the run EARLIER *)
Lemma is_termination_gen_limit ts l gen tm ot : forall tp,
    gen_limit ts = Some l -> l <= gen -> fst (is_termination ts gen tm ot tp) = true.
Proof.
  induction ts as [|t r IH]; intros tp Hl Hle; [discriminate|].
  destruct t as [l'| |i|l']; cbn [is_termination gen_limit] in *.
  - injection Hl as ->. apply Nat.leb_le in Hle. rewrite Hle. reflexivity.
  - destruct (tm tp); [reflexivity|]. apply IH; assumption.
  - destruct (ot i tp); [reflexivity|]. apply IH; assumption.
  - injection Hl as ->. apply Nat.leb_le in Hle. rewrite Hle. reflexivity.
Qed.

(* a user-supplied criterion on statistics.generation terminates the composite wherever it stands in the list *)
Lemma is_termination_user_limit ts l gen tm ot : forall tp,
    In (TUser l) ts -> l <= gen -> fst (is_termination ts gen tm ot tp) = true.
Proof.
  induction ts as [|t r IH]; intros tp Hin Hle; [contradiction|].
  destruct Hin as [->|Hin].
  - cbn [is_termination]. apply Nat.leb_le in Hle. rewrite Hle. reflexivity.
  - destruct t as [l'| |i|l']; cbn [is_termination].
    + destruct (l' <=? gen); [reflexivity|apply IH; assumption].
    + destruct (tm tp); [reflexivity|apply IH; assumption].
    + destruct (ot i tp); [reflexivity|apply IH; assumption].
    + destruct (l' <=? gen); [reflexivity|apply IH; assumption].
Qed.

(* the limit of the MaxGeneration criterion is the configured max_generations, whatever else is configured *)
Lemma gen_limit_terminations N mt cv tg : gen_limit (terminations (Some N) mt cv tg) = Some N.
Proof. reflexivity. Qed.

Lemma gen_limit_cfg cfg N : c_max_gen cfg = Some N -> gen_limit (cfg_terms cfg) = Some N.
Proof. intros H. unfold cfg_terms, terminations. rewrite H. destruct (c_max_time cfg); reflexivity. Qed.

(* nothing configured: EvolutionConfigBuilder::get_termination installs max-generations 3000 and max-time 300 s *)
Lemma gen_limit_default cfg :
  c_max_gen cfg = None -> c_max_time cfg = false -> c_min_cv cfg = None -> c_target cfg = false -> gen_limit (cfg_terms cfg) = Some 3000.
Proof. intros H1 H2 H3 H4. unfold cfg_terms, terminations. rewrite H1, H2, H3, H4. reflexivity. Qed.

(* the effective limit on statistics.generation: the configured maximum, lowered by a user-supplied criterion *)
Definition eff_limit (cfg : econfig) (N : nat) : nat :=
  match c_user_term cfg with Some l => Nat.min N l | None => N end.

Lemma eff_limit_le cfg N : eff_limit cfg N <= N.
Proof. unfold eff_limit. destruct (c_user_term cfg); lia. Qed.

Lemma eff_limit_pos cfg N : 1 <= N -> (forall l, c_user_term cfg = Some l -> 1 <= l) -> 1 <= eff_limit cfg N.
Proof. intros HN Hu. unfold eff_limit. destruct (c_user_term cfg) as [l|]; [specialize (Hu l eq_refl); lia|exact HN]. Qed.

Lemma min_leb a b g : (Nat.min a b <=? g) = (a <=? g) || (b <=? g).
Proof.
  destruct (a <=? g) eqn:Ea, (b <=? g) eqn:Eb; cbn [orb];
    rewrite ?Nat.leb_le, ?Nat.leb_gt in *; lia.
Qed.

Lemma is_termination_exact cfg N gen tm ot tp :
  c_max_gen cfg = Some N ->
  (forall t, tm t = false) -> (forall i t, ot i t = false) ->
  fst (is_termination (cfg_terms cfg) gen tm ot tp) = (eff_limit cfg N <=? gen).
Proof.
  intros Hc Htm Hot. unfold cfg_terms, terminations, eff_limit. rewrite Hc.
  destruct (c_user_term cfg) as [l|]; [rewrite min_leb|];
    destruct (c_max_time cfg), (c_min_cv cfg), (c_target cfg); cbn [app is_termination]; destruct (N <=? gen); cbn [orb fst];
    rewrite ?Htm, ?Hot; cbn [fst]; try reflexivity; destruct (l <=? gen); reflexivity.
Qed.

(* the checks before the first initial operator is run (slot = number of supplied individuals taken) do not stop the initial phase *)
Definition first_check_passes (cfg : econfig) (W : oracles) : Prop :=
  fst (is_termination (cfg_terms cfg) 0 (o_time W) (o_other W) 0) = false
  /\ est_exceeds (cfg_terms cfg) 0 (o_init_quota W (length (seeded cfg))) = false.

Lemma first_check_positive_limit cfg W N :
  c_max_gen cfg = Some N -> 1 <= eff_limit cfg N ->
  (forall t, t < 3 -> o_time W t = false /\ forall i, o_other W i t = false) ->
  (c_max_time cfg = true -> o_init_quota W (length (seeded cfg)) = false) ->
  first_check_passes cfg W.
Proof.
  intros Hg HN Hquiet Hiq. unfold first_check_passes, cfg_terms, terminations. rewrite Hg.
  destruct (Hquiet 0) as [Ht0 Ho0]; [lia|]. destruct (Hquiet 1) as [Ht1 Ho1]; [lia|]. destruct (Hquiet 2) as [Ht2 Ho2]; [lia|].
  pose proof (eff_limit_le cfg N) as HNle.
  assert (E1 : (N <=? 0) = false) by (apply Nat.leb_gt; lia).
  assert (E2 : (N =? 0) = false) by (apply Nat.eqb_neq; lia).
  assert (E3 : (N <? 20 * 0) = false) by (apply Nat.ltb_ge; lia).
  unfold eff_limit in HN.
  destruct (c_user_term cfg) as [l|];
    [assert (E4 : (l <=? 0) = false) by (apply Nat.leb_gt; lia)|];
    (destruct (c_max_time cfg) eqn:Emt; [rewrite (Hiq eq_refl)|]);
    destruct (c_min_cv cfg), (c_target cfg); cbn [app is_termination est_exceeds existsb];
    rewrite E1, E2, E3, ?E4, ?Ht0, ?Ht1, ?Ht2, ?Ho0, ?Ho1, ?Ho2; split; reflexivity.
Qed.

(* the counter of wall-clock / oracle criteria evaluations never goes back *)
Lemma is_termination_tp_mono ts gen tm ot : forall tp, tp <= snd (is_termination ts gen tm ot tp).
Proof.
  induction ts as [|t r IH]; intros tp; cbn [is_termination]; [cbn; lia|].
  destruct t as [l| |i|l].
  - destruct (l <=? gen); [cbn; lia|apply IH].
  - destruct (tm tp); [cbn; lia|]. specialize (IH (S tp)). lia.
  - destruct (ot i tp); [cbn; lia|]. specialize (IH (S tp)). lia.
  - destruct (l <=? gen); [cbn; lia|apply IH].
Qed.

(* only a time limit (and possibly min-cv / target proximity) is configured: MaxTime is the first criterion of the composite *)
Lemma cfg_terms_time_first cfg :
  c_max_gen cfg = None -> c_max_time cfg = true -> exists r, cfg_terms cfg = TMaxTime :: r.
Proof.
  intros Hg Ht. unfold cfg_terms, terminations. rewrite Hg, Ht.
  destruct (c_min_cv cfg), (c_target cfg); cbn [app]; eexists; reflexivity.
Qed.

(* ------------------------------------------------------------------ telemetry *)
Definition tele_wf (t : tele) : Prop :=
  t_metric_gens t = t_stat_gen t
  /\ ((t_next t = None /\ t_stat_gen t = 0) \/ t_next t = Some (S (t_stat_gen t))).

Lemma tele0_wf : tele_wf tele0.
Proof. split; [reflexivity|left; split; reflexivity]. Qed.

Lemma on_generation_wf T t b : tele_wf (on_generation T t b).
Proof. split; [reflexivity|right; reflexivity]. Qed.

Lemma on_generation_gens T t b : gens_run (on_generation T t b) = S (gens_run t).
Proof. unfold gens_run, on_generation. cbn [t_next]. destruct (t_next t); reflexivity. Qed.

Lemma on_generation_stat T t b : t_stat_gen (on_generation T t b) = gens_run t.
Proof. unfold gens_run, on_generation. cbn [t_stat_gen]. destruct (t_next t); reflexivity. Qed.

Lemma tele_wf_gens t : tele_wf t -> gens_run t = 0 /\ t_stat_gen t = 0 \/ gens_run t = S (t_stat_gen t).
Proof. intros [_ [[H1 H2]|H]]; unfold gens_run; [rewrite H1; left; split; [reflexivity|exact H2]|rewrite H; right; reflexivity]. Qed.

(* what metrics.generations reports is the INDEX of the last generation: one less than the number of generations run *)
Lemma tele_wf_metric t : tele_wf t -> t_metric_gens t = pred (gens_run t) /\ t_stat_gen t = pred (gens_run t).
Proof. intros Hwf. destruct (tele_wf_gens t Hwf) as [[H1 H2]|H1]; destruct Hwf as [Hm _]; rewrite H1; cbn [pred]; lia. Qed.

(* the generation numbers tracked in metrics.evolution: every T-th generation while the run goes on ... *)
Definition tracked (T n : nat) : list nat := filter (fun g => g mod T =? 0) (seq 0 n).
(* ... plus the last one at the end (Telemetry::on_result) when it is not a multiple of T *)
Definition reported (T n : nat) : list nat := tracked T n ++ (if pred n mod T =? 0 then [] else [pred n]).

Lemma tracked_S T n : tracked T (S n) = tracked T n ++ (if n mod T =? 0 then [n] else []).
Proof. unfold tracked. rewrite seq_S, filter_app. cbn [filter plus]. destruct (n mod T =? 0); reflexivity. Qed.

Lemma filter_all_true {A} (f : A -> bool) l : (forall x, In x l -> f x = true) -> filter f l = l.
Proof.
  induction l as [|a l IH]; intros H; cbn [filter]; [reflexivity|].
  rewrite (H a (or_introl eq_refl)), IH; [reflexivity|]. intros x Hx. apply H. right. exact Hx.
Qed.

Lemma tracked_one n : tracked 1 n = seq 0 n.
Proof. unfold tracked. apply filter_all_true. intros g _. rewrite Nat.mod_1_r. reflexivity. Qed.

Lemma reported_one n : reported 1 n = seq 0 n.
Proof. unfold reported. rewrite tracked_one, Nat.mod_1_r. cbn [Nat.eqb]. apply app_nil_r. Qed.

Lemma tracked_lt T n g : In g (tracked T n) -> g < n.
Proof. unfold tracked. intros H. apply filter_In in H. destruct H as [H _]. apply in_seq in H. lia. Qed.

Lemma on_generation_evolution T t :
  t_evolution t = tracked T (gens_run t) -> t_evolution (on_generation T t true) = tracked T (gens_run (on_generation T t true)).
Proof.
  intros H. rewrite on_generation_gens, tracked_S. unfold on_generation, gens_run in *. cbn [t_evolution andb].
  destruct (t_next t) as [g|]; rewrite H; destruct (_ mod T =? 0); rewrite ?app_nil_r; reflexivity.
Qed.

Lemma on_result_evolution T t :
  tele_wf t -> t_evolution t = tracked T (gens_run t) -> t_evolution (on_result T t) = reported T (gens_run t).
Proof.
  intros Hwf H. unfold on_result, reported. cbn [t_evolution]. rewrite (proj2 (tele_wf_metric t Hwf)), H.
  destruct (pred (gens_run t) mod T =? 0); [rewrite app_nil_r|]; reflexivity.
Qed.

Lemma on_result_gens T t : gens_run (on_result T t) = gens_run t /\ t_metric_gens (on_result T t) = t_metric_gens t
                           /\ t_stat_gen (on_result T t) = t_stat_gen t.
Proof. repeat split. Qed.

(* ------------------------------------------------------------------ Greedy population *)
Lemma greedy_best_from_spec {A} (fit : A -> nat) (d : A) : forall (r pre : list A) bi bf,
    bi < length pre -> fit (nth bi pre d) = bf -> (forall x, In x pre -> bf <= fit x) ->
    (forall i, i < bi -> bf < fit (nth i pre d)) ->
    let k := greedy_best_from fit r (length pre) bi bf in
    k < length (pre ++ r) /\ (forall x, In x (pre ++ r) -> fit (nth k (pre ++ r) d) <= fit x)
    /\ (forall i, i < k -> fit (nth k (pre ++ r) d) < fit (nth i (pre ++ r) d)).
Proof.
  induction r as [|x r IH]; intros pre bi bf Hbi Hfit Hmin Hfirst; cbn [greedy_best_from].
  - rewrite app_nil_r. cbv zeta. split; [exact Hbi|]. split; [intros y Hy; rewrite Hfit; apply Hmin; exact Hy|].
    intros i Hi. rewrite Hfit. apply Hfirst. exact Hi.
  - assert (Hsplit : pre ++ x :: r = (pre ++ [x]) ++ r) by (rewrite <- app_assoc; reflexivity).
    assert (Hlen : length (pre ++ [x]) = S (length pre)) by (rewrite app_length; cbn [length]; lia).
    rewrite Hsplit. destruct (bf <=? fit x) eqn:E.
    + apply Nat.leb_le in E. rewrite <- Hlen. apply IH.
      * rewrite Hlen. lia.
      * rewrite app_nth1 by exact Hbi. exact Hfit.
      * intros y Hy. apply in_app_or in Hy. destruct Hy as [Hy|[<-|[]]]; [apply Hmin; exact Hy|exact E].
      * intros i Hi. rewrite app_nth1 by lia. apply Hfirst. exact Hi.
    + apply Nat.leb_gt in E. rewrite <- Hlen. apply IH.
      * rewrite Hlen. lia.
      * rewrite app_nth2 by lia. rewrite Nat.sub_diag. reflexivity.
      * intros y Hy. apply in_app_or in Hy. destruct Hy as [Hy|[<-|[]]]; [specialize (Hmin y Hy); lia|lia].
      * intros i Hi. rewrite app_nth1 by exact Hi. specialize (Hmin (nth i pre d) (nth_In pre d Hi)). lia.
Qed.

(* Greedy::ranked().next() after the population received l: the FIRST individual of minimal fitness *)
Lemma greedy_best_spec {A} (fit : A -> nat) (d : A) (l : list A) :
  l <> [] ->
  greedy_best fit l < length l
  /\ (forall x, In x l -> fit (nth (greedy_best fit l) l d) <= fit x)
  /\ (forall i, i < greedy_best fit l -> fit (nth (greedy_best fit l) l d) < fit (nth i l d)).
Proof.
  destruct l as [|x r]; [congruence|intros _]. unfold greedy_best.
  apply (greedy_best_from_spec fit d r [x] 0 (fit x)); cbn [length nth].
  - lia.
  - reflexivity.
  - intros y [<-|[]]. lia.
  - intros i Hi. lia.
Qed.

(* Greedy::add_all never loses the best known individual: what it keeps afterwards is at least as good, and it is the old one
   or one of the individuals handed over; an EMPTY hand-over keeps it unchanged *)
Lemma greedy_add_all_keeps {A} (fit : A -> nat) : forall (xs : list A) (b : A) (imp : bool),
    exists b' imp', fold_left (fun acc x => let '(b1, i1) := greedy_add fit (fst acc) x in (b1, i1 || snd acc)) xs (Some b, imp)
                    = (Some b', imp')
                    /\ fit b' <= fit b /\ (b' = b \/ In b' xs) /\ (forall x, In x xs -> fit b' <= fit x).
Proof.
  induction xs as [|x xs IH]; intros b imp; cbn [fold_left].
  - exists b, imp. split; [reflexivity|]. split; [lia|]. split; [left; reflexivity|intros x []].
  - cbn [fst snd greedy_add]. destruct (fit b <=? fit x) eqn:E.
    + apply Nat.leb_le in E. destruct (IH b (false || imp)) as (b' & imp' & Ef & Hle & Hin & Hmin).
      exists b', imp'. split; [exact Ef|]. split; [exact Hle|]. split; [destruct Hin as [->|H]; [left; reflexivity|right; right; exact H]|].
      intros y [<-|Hy]; [lia|apply Hmin; exact Hy].
    + apply Nat.leb_gt in E. destruct (IH x (true || imp)) as (b' & imp' & Ef & Hle & Hin & Hmin).
      exists b', imp'. split; [exact Ef|]. split; [lia|]. split; [right; destruct Hin as [->|H]; [left; reflexivity|right; exact H]|].
      intros y [<-|Hy]; [exact Hle|apply Hmin; exact Hy].
Qed.

Lemma greedy_add_all_spec {A} (fit : A -> nat) (xs : list A) (b : A) :
  exists b' imp, greedy_add_all fit (Some b) xs = (Some b', imp)
                 /\ fit b' <= fit b /\ (b' = b \/ In b' xs) /\ (forall x, In x xs -> fit b' <= fit x).
Proof. unfold greedy_add_all. apply greedy_add_all_keeps. Qed.

Lemma greedy_add_all_nil {A} (fit : A -> nat) (best : option A) : greedy_add_all fit best [] = (best, false).
Proof. reflexivity. Qed.

(* ------------------------------------------------------------------ the calls on the pluggable pieces *)
Definition is_search (e : event) : bool := match e with EvSearch _ _ _ => true | _ => false end.
Definition is_addall (e : event) : bool := match e with EvAddAll _ => true | _ => false end.
Definition is_popgen (e : event) : bool := match e with EvPopGen _ => true | _ => false end.
Definition is_select (e : event) : bool := match e with EvSelect _ => true | _ => false end.
Definition count_ev (p : event -> bool) (l : list event) : nat := length (filter p l).
(* statistics.generation handed to population.on_generation, call by call *)
Definition popgen_stats (l : list event) : list nat := flat_map (fun e => match e with EvPopGen s => [s] | _ => [] end) l.

Lemma count_ev_app p l1 l2 : count_ev p (l1 ++ l2) = count_ev p l1 + count_ev p l2.
Proof. unfold count_ev. rewrite filter_app, app_length. reflexivity. Qed.

(* every iteration of Iterative::run that got past the test made exactly one select, one search_many, one add_all and one
   population.on_generation call, Telemetry::on_generation counted it, and population.on_generation saw 0, 1, 2, ... *)
Definition counted (st : estate) : Prop :=
  s_iters st = gens_run (s_tele st)
  /\ count_ev is_select (s_log st) = s_iters st
  /\ count_ev is_search (s_log st) = s_iters st
  /\ count_ev is_addall (s_log st) = s_iters st
  /\ count_ev is_popgen (s_log st) = s_iters st
  /\ popgen_stats (s_log st) = seq 0 (s_iters st).

Lemma counted0 : counted estate0.
Proof. repeat split. Qed.

Lemma counted_ext st st' l :
  counted st -> s_tele st' = s_tele st -> s_iters st' = s_iters st -> s_log st' = s_log st ++ l ->
  count_ev is_select l = 0 -> count_ev is_search l = 0 -> count_ev is_addall l = 0 -> count_ev is_popgen l = 0 -> popgen_stats l = [] ->
  counted st'.
Proof.
  intros (H1 & H2 & H3 & H4 & H5 & H6) Ht Hi Hl C1 C2 C3 C4 C5. unfold counted, popgen_stats in *.
  rewrite Ht, Hi, Hl, !count_ev_app, flat_map_app, C1, C2, C3, C4, C5, app_nil_r. repeat split; lia || assumption.
Qed.

Lemma popgen_stats_map_add (l : list hsol) : popgen_stats (map (fun _ => EvAdd) l) = [].
Proof. induction l as [|x l IH]; [reflexivity|exact IH]. Qed.

Lemma count_ev_map_add p (l : list hsol) : p EvAdd = false -> count_ev p (map (fun _ => EvAdd) l) = 0.
Proof. intros Hp. unfold count_ev. induction l as [|x l IH]; cbn [map filter]; [reflexivity|rewrite Hp; exact IH]. Qed.

Lemma seed_counted cfg st : counted st -> counted (seed cfg st).
Proof.
  intros H. apply (counted_ext st _ (map (fun _ => EvAdd) (seeded cfg)) H); try reflexivity;
    try (apply count_ev_map_add; reflexivity). apply popgen_stats_map_add.
Qed.

Lemma generation_counted_inv cfg W q st st' : generation cfg W q st = Some st' -> counted st -> counted st'.
Proof.
  unfold generation. intros E (H1 & H2 & H3 & H4 & H5 & H6).
  destruct (if o_inner W (s_iters st) then _ else _) as [[offs polls]|]; [|discriminate].
  injection E as <-. unfold counted, popgen_stats, gens_run in *. cbn [s_iters s_tele s_log on_generation t_next t_stat_gen].
  rewrite <- H1, !count_ev_app, !flat_map_app, H2, H3, H4, H5, H6, seq_S.
  destruct (o_exploit W (s_iters st)); cbn; rewrite app_nil_r; repeat split; lia.
Qed.

Lemma iloop_counted cfg W q : forall fuel st st', iloop fuel cfg W q st = Some st' -> counted st -> counted st'.
Proof.
  induction fuel as [|f IH]; intros st st' E Hc; cbn [iloop] in E;
    destruct (is_termination (cfg_terms cfg) (t_stat_gen (s_tele st)) (o_time W) (o_other W) (s_tpolls st)) as [term tp];
    destruct (term || q (s_polls st));
    try (injection E as <-; apply (counted_ext st _ [EvTerm (t_stat_gen (s_tele st)) term] Hc); reflexivity);
    try discriminate.
  match type of E with match generation cfg W q ?s with _ => _ end = _ => destruct (generation cfg W q s) as [st2|] eqn:Eg; [|discriminate] end.
  apply (IH st2 st' E). apply (generation_counted_inv _ _ _ _ _ Eg).
  apply (counted_ext st _ [EvTerm (t_stat_gen (s_tele st)) term] Hc); reflexivity.
Qed.

Lemma initial_counted cfg W q : forall n idx st st', initial n idx cfg W q st = Some st' -> counted st -> counted st'.
Proof.
  induction n as [|n IH]; intros idx st st' E Hc; cbn [initial] in E; [injection E as <-; exact Hc|].
  destruct (is_termination (cfg_terms cfg) (t_stat_gen (s_tele st)) (o_time W) (o_other W) (s_tpolls st)) as [term tp].
  destruct (initial_stops cfg (s_pop st) (est_exceeds (cfg_terms cfg) (t_stat_gen (s_tele st)) (o_init_quota W idx)) term).
  - injection E as <-. apply (counted_ext st _ [EvTerm (t_stat_gen (s_tele st)) term; EvEstimate (t_stat_gen (s_tele st))] Hc); reflexivity.
  - destruct (process _ q _) as [p|]; [|discriminate]. apply (IH _ _ _ E).
    apply (counted_ext st _ ([EvTerm (t_stat_gen (s_tele st)) term; EvEstimate (t_stat_gen (s_tele st))]
                               ++ [EvCreate (init_operator cfg W idx); EvAdd]) Hc); try reflexivity.
    cbn [s_log]. rewrite <- app_assoc. reflexivity.
Qed.

(* for EVERY oracle (no assumption at all): whenever the run reaches the end of Iterative::run, the number of loop iterations that
   got past the test = search_many calls = add_all calls = population.on_generation calls = Telemetry::on_generation calls *)
Theorem evolve_run_counted cfg W q st : evolve_run cfg W q = Some st -> counted st.
Proof.
  unfold evolve_run. intros E.
  destruct (initial _ _ cfg W q (seed cfg estate0)) as [st1|] eqn:E1; [|discriminate].
  destruct (iloop (loop_fuel cfg) cfg W q st1) as [st2|] eqn:E2; [|discriminate]. injection E as <-.
  change (counted st2). apply (iloop_counted _ _ _ _ _ _ E2). apply (initial_counted _ _ _ _ _ _ _ E1). apply seed_counted. exact counted0.
Qed.

(* ------------------------------------------------------------------ evolution *)
Definition oracles_ok (W : oracles) : Prop :=
  (forall idx op, ev_ok (o_init_ev W idx op)) /\ (forall g j, ev_ok (o_search_ev W g j)).

(* a user-supplied hyper-heuristic may hand over ANY list of offspring per generation - none, fewer, more, duplicates, copies of
   parents, solutions of its own - from search_many and from diversify_many, as long as each of them is a complete solution of the
   plan whenever the population and the offspring of the built-in search are *)
Definition hyper_ok (jobs : list Z) (W : oracles) : Prop :=
  (forall g pop offs, Forall (Good jobs) pop -> Forall (Good jobs) offs -> Forall (Good jobs) (o_hyper W g pop offs))
  /\ (forall g pop, Forall (Good jobs) pop -> Forall (Good jobs) (o_diverse W g pop)).

(* in particular every heuristic that only selects among the parents and the offspring of the built-in search: drops some or all,
   duplicates, reorders *)
Lemma hyper_selection_ok jobs W :
  (forall g pop offs s, In s (o_hyper W g pop offs) -> In s pop \/ In s offs) ->
  (forall g pop s, In s (o_diverse W g pop) -> In s pop) -> hyper_ok jobs W.
Proof.
  intros Hsel Hdiv. split.
  - intros g pop offs Hpop Hoffs. apply Forall_forall. intros s Hs.
    destruct (Hsel g pop offs s Hs) as [H|H]; [exact (proj1 (Forall_forall _ _) Hpop s H)|exact (proj1 (Forall_forall _ _) Hoffs s H)].
  - intros g pop Hpop. apply Forall_forall. intros s Hs. exact (proj1 (Forall_forall _ _) Hpop s (Hdiv g pop s Hs)).
Qed.

Lemma rop_guards ops : forall s, guards s (map rop_hop ops).
Proof. induction ops as [|o r IH]; intros s; cbn [map guards]; [exact I|split; [destruct o; exact I|apply IH]]. Qed.

Lemma firstn_in {A} (x : A) : forall n l, In x (firstn n l) -> In x l.
Proof.
  induction n as [|n IH]; intros l H; [destruct H|]. destruct l as [|a l]; [destruct H|].
  cbn [firstn] in H. destruct H as [->|H]; [left; reflexivity|right; apply IH; exact H].
Qed.

Lemma nonempty_app_l {A} (l1 l2 : list A) : l1 <> [] -> nonempty (l1 ++ l2) = true.
Proof. destruct l1; [congruence|reflexivity]. Qed.

Section Evolve.
  Variable cfg : econfig.
  Variable W : oracles.
  Variable q : quota.
  Hypothesis HW : oracles_ok W.
  Let jobs := c_jobs cfg.
  Let T := c_track cfg.
  Hypothesis HH : hyper_ok jobs W.

  Lemma process_good ev st : ev_ok ev -> Inv jobs (p_sol st) ->
    exists st', process ev q st = Some st' /\ Good jobs (p_sol st') /\ p_polls st <= p_polls st'.
  Proof.
    intros Hev HI. destruct (process_total jobs ev q Hev st HI) as (st' & E & HI' & Hreq & Hp & _).
    exists st'. split; [exact E|]. split; [split; assumption|exact Hp].
  Qed.

  Lemma offspring_some g pop : Forall (Good jobs) pop -> forall parents j polls,
      exists offs polls', offspring g j parents cfg W q pop polls = Some (offs, polls')
                          /\ Forall (Good jobs) offs /\ polls <= polls'.
  Proof.
    intros Hpop. induction parents as [|p r IH]; intros j polls; cbn [offspring].
    - exists [], (polls + o_skip W g j). split; [reflexivity|]. split; [constructor|lia].
    - destruct (nth_error pop p) as [s|] eqn:Hs; [|apply IH].
      assert (Hgood : Good jobs s) by (eapply Forall_forall; [exact Hpop|eapply nth_error_In; exact Hs]).
      assert (HIr : Inv jobs (run s (map rop_hop (o_ruin W g j s)))).
      { apply homes_reach; [exact (proj1 Hgood)|apply rop_guards]. }
      destruct (process_good (o_search_ev W g j) (mkP (run s (map rop_hop (o_ruin W g j s))) (c_reg cfg) (polls + o_skip W g j) 0)
                             (proj2 HW g j) HIr) as (pst & E & Hg & Hp).
      rewrite E. cbn [p_polls] in Hp.
      destruct (IH (S j) (p_polls pst)) as (rest & polls' & E2 & Hrest & Hp2). rewrite E2.
      exists (p_sol pst :: rest), polls'. split; [reflexivity|]. split; [constructor; assumption|lia].
  Qed.

  (* one iteration: whatever the heuristic handed over (`handed`, possibly nothing) is appended, Telemetry::on_generation is called *)
  Lemma generation_some st : Forall (Good jobs) (s_pop st) ->
    exists handed st', generation cfg W q st = Some st'
                       /\ s_pop st' = s_pop st ++ handed
                       /\ s_tele st' = on_generation T (s_tele st) (nonempty (s_pop st ++ handed))
                       /\ s_tpolls st' = s_tpolls st /\ s_iters st' = S (s_iters st)
                       /\ Forall (Good jobs) handed /\ s_polls st <= s_polls st'.
  Proof.
    intros Hpop. unfold generation.
    assert (Ho : exists offs polls,
               (if o_inner W (s_iters st) then offspring (s_iters st) 0 (o_parents W (s_iters st) (s_pop st)) cfg W q (s_pop st) (s_polls st)
                else Some ([], s_polls st + o_skip W (s_iters st) 0)) = Some (offs, polls)
               /\ Forall (Good jobs) offs /\ s_polls st <= polls).
    { destruct (o_inner W (s_iters st)).
      - apply offspring_some. exact Hpop.
      - exists [], (s_polls st + o_skip W (s_iters st) 0). split; [reflexivity|]. split; [constructor|lia]. }
    destruct Ho as (offs & polls & E & Hoffs & Hp). rewrite E.
    eexists _, _. split; [reflexivity|]. cbn [s_pop s_tele s_tpolls s_iters s_polls].
    split; [reflexivity|]. split; [reflexivity|]. split; [reflexivity|]. split; [reflexivity|]. split; [|exact Hp].
    apply Forall_app. split; [apply (proj1 HH); assumption|].
    destruct (o_exploit W (s_iters st)); [constructor|apply (proj2 HH); exact Hpop].
  Qed.

  (* EVERY iteration of Iterative::run is counted, whatever the heuristic handed over: the generation counter read by the
     termination criteria (statistics.generation) advances, and an empty hand-over leaves the population as it was *)
  Lemma generation_counted st : Forall (Good jobs) (s_pop st) ->
    exists st', generation cfg W q st = Some st'
                /\ gens_run (s_tele st') = S (gens_run (s_tele st))
                /\ t_stat_gen (s_tele st') = gens_run (s_tele st)
                /\ s_iters st' = S (s_iters st)
                /\ (exists handed, s_pop st' = s_pop st ++ handed)
                /\ ((forall offs, o_hyper W (s_iters st) (s_pop st) offs = []) ->
                    (o_exploit W (s_iters st) = true \/ o_diverse W (s_iters st) (s_pop st) = []) -> s_pop st' = s_pop st).
  Proof.
    intros Hpop. destruct (generation_some st Hpop) as (handed & st' & E & Hp & Ht & _ & Hi & _ & _).
    exists st'. split; [exact E|]. rewrite Ht. split; [apply on_generation_gens|]. split; [apply on_generation_stat|].
    split; [exact Hi|]. split; [exists handed; exact Hp|].
    intros Hnone Hdiv. unfold generation in E.
    destruct (if o_inner W (s_iters st) then _ else _) as [[offs polls]|]; [|discriminate].
    injection E as <-. cbn [s_pop]. rewrite Hnone.
    destruct Hdiv as [->| ->]; [|destruct (o_exploit W (s_iters st))]; cbn [app]; apply app_nil_r.
  Qed.

  Lemma initial_some : forall n idx st, Forall (Good jobs) (s_pop st) ->
      exists st1, initial n idx cfg W q st = Some st1
                  /\ Forall (Good jobs) (s_pop st1) /\ s_tele st1 = s_tele st /\ s_iters st1 = s_iters st
                  /\ (exists l, s_pop st1 = s_pop st ++ l /\ length l <= n) /\ s_polls st <= s_polls st1.
  Proof.
    induction n as [|n IH]; intros idx st Hpop; cbn [initial].
    - exists st. split; [reflexivity|]. split; [exact Hpop|]. split; [reflexivity|]. split; [reflexivity|].
      split; [exists []; rewrite app_nil_r; split; [reflexivity|cbn; lia]|lia].
    - destruct (is_termination (cfg_terms cfg) (t_stat_gen (s_tele st)) (o_time W) (o_other W) (s_tpolls st)) as [term tp].
      destruct (initial_stops cfg (s_pop st) (est_exceeds (cfg_terms cfg) (t_stat_gen (s_tele st)) (o_init_quota W idx)) term).
      + eexists. split; [reflexivity|]. cbn [s_pop s_tele s_iters s_polls]. split; [exact Hpop|]. split; [reflexivity|]. split; [reflexivity|].
        split; [exists []; rewrite app_nil_r; split; [reflexivity|cbn; lia]|lia].
      + destruct (process_good (o_init_ev W idx (init_operator cfg W idx)) (mkP (init jobs) (c_reg cfg) (s_polls st) 0)
                               (proj1 HW idx _) (homes_init jobs)) as (p & E & Hg & Hpl).
        fold jobs. rewrite E. cbn [p_polls] in Hpl.
        match goal with |- exists st1, initial n (S idx) cfg W q ?s = _ /\ _ =>
          destruct (IH (S idx) s) as (st1 & E1 & Hp1 & Ht1 & Hi1 & (l & Hl & Hlen) & Hpl1) end.
        { cbn [s_pop]. apply Forall_app. split; [exact Hpop|constructor; [exact Hg|constructor]]. }
        cbn [s_pop s_tele s_iters s_polls] in *.
        exists st1. split; [exact E1|]. split; [exact Hp1|]. split; [exact Ht1|]. split; [exact Hi1|]. split; [|lia].
        exists ([p_sol p] ++ l). rewrite Hl, <- app_assoc. split; [reflexivity|cbn [app length]; lia].
  Qed.

  (* the first free slot builds a solution: the population is still empty (the code as it is), or both stop tests answer false *)
  Lemma initial_first n idx st :
    (c_legacy_stop cfg = false /\ s_pop st = [])
    \/ (fst (is_termination (cfg_terms cfg) (t_stat_gen (s_tele st)) (o_time W) (o_other W) (s_tpolls st)) = false
        /\ est_exceeds (cfg_terms cfg) (t_stat_gen (s_tele st)) (o_init_quota W idx) = false) ->
    Forall (Good jobs) (s_pop st) ->
    exists st1, initial (S n) idx cfg W q st = Some st1
                /\ Forall (Good jobs) (s_pop st1) /\ s_tele st1 = s_tele st /\ s_iters st1 = s_iters st /\ s_pop st1 <> [].
  Proof.
    intros Hgo Hpop. cbn [initial].
    destruct (is_termination (cfg_terms cfg) (t_stat_gen (s_tele st)) (o_time W) (o_other W) (s_tpolls st)) as [term tp].
    assert (Estop : initial_stops cfg (s_pop st) (est_exceeds (cfg_terms cfg) (t_stat_gen (s_tele st)) (o_init_quota W idx)) term = false).
    { unfold initial_stops. destruct Hgo as [[Hl He]|[Ht He]].
      - rewrite Hl, He. reflexivity.
      - cbn [fst] in Ht. subst term. rewrite He. cbn [orb]. apply andb_false_r. }
    rewrite Estop.
    destruct (process_good (o_init_ev W idx (init_operator cfg W idx)) (mkP (init jobs) (c_reg cfg) (s_polls st) 0)
                           (proj1 HW idx _) (homes_init jobs)) as (p & E & Hg & _).
    fold jobs. rewrite E.
    match goal with |- exists st1, initial n (S idx) cfg W q ?s = _ /\ _ =>
      destruct (initial_some n (S idx) s) as (st1 & E1 & Hp1 & Ht1 & Hi1 & (l & Hl & _) & _) end.
    { cbn [s_pop]. apply Forall_app. split; [exact Hpop|constructor; [exact Hg|constructor]]. }
    exists st1. split; [exact E1|]. split; [exact Hp1|]. split; [exact Ht1|]. split; [exact Hi1|].
    rewrite Hl. cbn [s_pop]. destruct (s_pop st); discriminate.
  Qed.

  (* Iterative::run under a generation limit l: returns, keeps every individual good, never exceeds l + 1 generations,
     starts no generation once the quota has fired, keeps the population it started with (a prefix), and tracks every T-th
     generation when the population was not empty at the start *)
  Lemma iloop_some l k :
    gen_limit (cfg_terms cfg) = Some l ->
    forall fuel st,
      Forall (Good jobs) (s_pop st) -> tele_wf (s_tele st) -> gens_run (s_tele st) <= S l -> S l - gens_run (s_tele st) <= fuel ->
      exists st', iloop fuel cfg W q st = Some st'
                  /\ Forall (Good jobs) (s_pop st') /\ (exists e, s_pop st' = s_pop st ++ e)
                  /\ tele_wf (s_tele st') /\ gens_run (s_tele st') <= S l
                  /\ (fires_by q k -> gens_run (s_tele st) <= s_polls st -> gens_run (s_tele st') <= Nat.max (gens_run (s_tele st)) (pred k))
                  /\ (s_pop st <> [] -> t_evolution (s_tele st) = tracked T (gens_run (s_tele st))
                      -> t_evolution (s_tele st') = tracked T (gens_run (s_tele st'))).
  Proof.
    intros Hl. induction fuel as [|f IH]; intros st Hpop Hwf Hg Hfuel; cbn [iloop];
      destruct (is_termination (cfg_terms cfg) (t_stat_gen (s_tele st)) (o_time W) (o_other W) (s_tpolls st)) as [term tp] eqn:Eterm;
      destruct (term || q (s_polls st)) eqn:Estop.
    - eexists. split; [reflexivity|]. cbn [s_pop s_tele]. split; [exact Hpop|]. split; [exists []; rewrite app_nil_r; reflexivity|].
      split; [exact Hwf|]. split; [exact Hg|]. split; [intros; lia|auto].
    - exfalso. apply orb_false_iff in Estop. destruct Estop as [Et _]. subst term.
      pose proof (is_termination_gen_limit (cfg_terms cfg) l (t_stat_gen (s_tele st)) (o_time W) (o_other W) (s_tpolls st) Hl) as Hterm.
      rewrite Eterm in Hterm. cbn [fst] in Hterm.
      destruct (tele_wf_gens _ Hwf) as [[H1 H2]|H1].
      + assert (l = 0) by lia. subst l. rewrite H2 in Hterm. specialize (Hterm (le_n 0)). discriminate.
      + assert (l <= t_stat_gen (s_tele st)) by lia. specialize (Hterm H). discriminate.
    - eexists. split; [reflexivity|]. cbn [s_pop s_tele]. split; [exact Hpop|]. split; [exists []; rewrite app_nil_r; reflexivity|].
      split; [exact Hwf|]. split; [exact Hg|]. split; [intros; lia|auto].
    - apply orb_false_iff in Estop. destruct Estop as [Et Eq]. subst term.
      assert (Hlt : gens_run (s_tele st) <= l).
      { pose proof (is_termination_gen_limit (cfg_terms cfg) l (t_stat_gen (s_tele st)) (o_time W) (o_other W) (s_tpolls st) Hl) as Hterm.
        rewrite Eterm in Hterm. cbn [fst] in Hterm.
        destruct (tele_wf_gens _ Hwf) as [[H1 H2]|H1]; [lia|].
        destruct (le_lt_dec l (t_stat_gen (s_tele st))) as [Hle|Hgt]; [specialize (Hterm Hle); discriminate|lia]. }
      set (st1 := mkS (s_pop st) (s_tele st) (S (s_polls st)) tp (s_iters st) (s_log st ++ [EvTerm (t_stat_gen (s_tele st)) false])).
      destruct (generation_some st1 Hpop) as (handed & st2 & E & Hp2 & Ht2 & _ & _ & Hoffs & Hpl). rewrite E.
      cbn [s_pop s_tele s_polls st1] in Hp2, Ht2, Hpl.
      assert (Hpop2 : Forall (Good jobs) (s_pop st2)) by (rewrite Hp2; apply Forall_app; split; assumption).
      assert (Hg2 : gens_run (s_tele st2) = S (gens_run (s_tele st))) by (rewrite Ht2; apply on_generation_gens).
      destruct (IH st2 Hpop2) as (st' & E' & Hpop' & (e & He) & Hwf' & Hg' & Hq' & Hev').
      { rewrite Ht2. apply on_generation_wf. }
      { lia. }
      { lia. }
      exists st'. split; [exact E'|]. split; [exact Hpop'|].
      split; [exists (handed ++ e); rewrite He, Hp2, app_assoc; reflexivity|].
      split; [exact Hwf'|]. split; [exact Hg'|]. split.
      + intros Hk Hinv.
        assert (Hk2 : S (s_polls st) < k).
        { destruct (le_lt_dec k (S (s_polls st))) as [Hle|Hgt]; [|exact Hgt]. rewrite (Hk _ Hle) in Eq. discriminate. }
        assert (gens_run (s_tele st2) <= s_polls st2) by lia.
        specialize (Hq' Hk H). lia.
      + intros Hne Hlen. apply Hev'.
        * rewrite Hp2. destruct (s_pop st); [congruence|discriminate].
        * rewrite Ht2, (nonempty_app_l _ _ Hne). apply on_generation_evolution. exact Hlen.
  Qed.

  (* nothing but the limit on statistics.generation stops the loop: exactly L + 1 generations, L = the configured maximum,
     lowered by a user-supplied criterion on the statistics if there is one *)
  Lemma iloop_exact N :
    c_max_gen cfg = Some N -> 1 <= eff_limit cfg N -> (forall n, q n = false) -> (forall t, o_time W t = false) ->
    (forall i t, o_other W i t = false) ->
    forall fuel st,
      Forall (Good jobs) (s_pop st) -> tele_wf (s_tele st) -> gens_run (s_tele st) <= S (eff_limit cfg N)
      -> S (eff_limit cfg N) - gens_run (s_tele st) <= fuel ->
      exists st', iloop fuel cfg W q st = Some st' /\ gens_run (s_tele st') = S (eff_limit cfg N)
                  /\ t_metric_gens (s_tele st') = eff_limit cfg N
                  /\ (exists e, s_pop st' = s_pop st ++ e).
  Proof.
    intros Hc HN Hq Htm Hot. set (L := eff_limit cfg N) in *.
    induction fuel as [|f IH]; intros st Hpop Hwf Hg Hfuel; cbn [iloop];
      pose proof (is_termination_exact cfg N (t_stat_gen (s_tele st)) (o_time W) (o_other W) (s_tpolls st) Hc Htm Hot) as Hterm;
      fold L in Hterm;
      destruct (is_termination (cfg_terms cfg) (t_stat_gen (s_tele st)) (o_time W) (o_other W) (s_tpolls st)) as [term tp];
      cbn [fst] in Hterm; subst term; rewrite Hq, orb_false_r;
      destruct (L <=? t_stat_gen (s_tele st)) eqn:E.
    - apply Nat.leb_le in E. eexists. split; [reflexivity|]. cbn [s_tele].
      destruct (tele_wf_gens _ Hwf) as [[H1 H2]|H1]; [lia|]. destruct Hwf as [Hm _].
      split; [lia|]. split; [lia|]. exists []. cbn [s_pop]. rewrite app_nil_r. reflexivity.
    - apply Nat.leb_gt in E. exfalso. destruct (tele_wf_gens _ Hwf) as [[H1 H2]|H1]; lia.
    - apply Nat.leb_le in E. eexists. split; [reflexivity|]. cbn [s_tele].
      destruct (tele_wf_gens _ Hwf) as [[H1 H2]|H1]; [lia|]. destruct Hwf as [Hm _].
      split; [lia|]. split; [lia|]. exists []. cbn [s_pop]. rewrite app_nil_r. reflexivity.
    - apply Nat.leb_gt in E.
      match goal with |- exists st', match generation cfg W q ?s with _ => _ end = _ /\ _ => set (st1 := s) end.
      destruct (generation_some st1 Hpop) as (handed & st2 & Eg & Hp2 & Ht2 & _ & _ & Hoffs & _). rewrite Eg.
      cbn [s_pop s_tele st1] in Hp2, Ht2.
      destruct (IH st2) as (st' & E' & Hg' & Hm' & e & He).
      + rewrite Hp2. apply Forall_app; split; assumption.
      + rewrite Ht2. apply on_generation_wf.
      + rewrite Ht2, on_generation_gens. destruct (tele_wf_gens _ Hwf) as [[H1 H2]|H1]; lia.
      + rewrite Ht2, on_generation_gens. lia.
      + exists st'. split; [exact E'|]. split; [exact Hg'|]. split; [exact Hm'|].
        exists (handed ++ e). rewrite He, Hp2, app_assoc. reflexivity.
  Qed.

  (* Iterative::run under a time limit only: the clock answers true from its T0-th reading on; every test of the loop reads the
     clock, so the loop returns after at most T0 - (readings so far) generations, keeps every individual good and starts no
     generation once the quota has fired *)
  Lemma iloop_time r T0 k :
    cfg_terms cfg = TMaxTime :: r -> (forall t, T0 <= t -> o_time W t = true) ->
    forall fuel st,
      Forall (Good jobs) (s_pop st) -> S T0 - s_tpolls st <= fuel ->
      exists st', iloop fuel cfg W q st = Some st'
                  /\ Forall (Good jobs) (s_pop st') /\ (exists e, s_pop st' = s_pop st ++ e)
                  /\ gens_run (s_tele st') <= gens_run (s_tele st) + (T0 - s_tpolls st)
                  /\ (fires_by q k -> gens_run (s_tele st) <= s_polls st -> gens_run (s_tele st') <= Nat.max (gens_run (s_tele st)) (pred k)).
  Proof.
    intros Hts Hclock. induction fuel as [|f IH]; intros st Hpop Hfuel; cbn [iloop];
      pose proof (is_termination_tp_mono r (t_stat_gen (s_tele st)) (o_time W) (o_other W) (S (s_tpolls st))) as Hmono;
      destruct (is_termination (cfg_terms cfg) (t_stat_gen (s_tele st)) (o_time W) (o_other W) (s_tpolls st)) as [term tp] eqn:Eterm;
      rewrite Hts in Eterm; cbn [is_termination] in Eterm;
      destruct (o_time W (s_tpolls st)) eqn:Eclock.
    - injection Eterm as <- <-. cbn [orb]. eexists. split; [reflexivity|]. cbn [s_pop s_tele].
      split; [exact Hpop|]. split; [exists []; rewrite app_nil_r; reflexivity|]. split; [lia|intros; lia].
    - exfalso. rewrite Hclock in Eclock; [discriminate|lia].
    - injection Eterm as <- <-. cbn [orb]. eexists. split; [reflexivity|]. cbn [s_pop s_tele].
      split; [exact Hpop|]. split; [exists []; rewrite app_nil_r; reflexivity|]. split; [lia|intros; lia].
    - assert (Hlt : s_tpolls st < T0).
      { destruct (le_lt_dec T0 (s_tpolls st)) as [Hle|Hgt]; [rewrite (Hclock _ Hle) in Eclock; discriminate|exact Hgt]. }
      rewrite Eterm in Hmono. cbn [snd] in Hmono.
      destruct (term || q (s_polls st)) eqn:Estop.
      + eexists. split; [reflexivity|]. cbn [s_pop s_tele].
        split; [exact Hpop|]. split; [exists []; rewrite app_nil_r; reflexivity|]. split; [lia|intros; lia].
      + apply orb_false_iff in Estop. destruct Estop as [_ Eq].
        match goal with |- exists st', match generation cfg W q ?s with _ => _ end = _ /\ _ => set (st1 := s) end.
        destruct (generation_some st1 Hpop) as (handed & st2 & E & Hp2 & Ht2 & Htp2 & _ & Hoffs & Hpl). rewrite E.
        cbn [s_pop s_tele s_polls s_tpolls st1] in Hp2, Ht2, Htp2, Hpl.
        assert (Hpop2 : Forall (Good jobs) (s_pop st2)) by (rewrite Hp2; apply Forall_app; split; assumption).
        assert (Hg2 : gens_run (s_tele st2) = S (gens_run (s_tele st))) by (rewrite Ht2; apply on_generation_gens).
        destruct (IH st2 Hpop2) as (st' & E' & Hpop' & (e & He) & Hg' & Hq'); [rewrite Htp2; lia|].
        exists st'. split; [exact E'|]. split; [exact Hpop'|].
        split; [exists (handed ++ e); rewrite He, Hp2, app_assoc; reflexivity|]. split; [rewrite Htp2 in Hg'; lia|].
        intros Hk Hinv.
        assert (Hk2 : S (s_polls st) < k).
        { destruct (le_lt_dec k (S (s_polls st))) as [Hle|Hgt]; [|exact Hgt]. rewrite (Hk _ Hle) in Eq. discriminate. }
        assert (gens_run (s_tele st2) <= s_polls st2) by lia.
        specialize (Hq' Hk H). lia.
  Qed.

  Lemma pick_in (pop : list hsol) h t n : pop = h :: t -> In (nth n pop h) pop.
  Proof. intros ->. destruct (nth_in_or_default n (h :: t) h) as [H|H]; [exact H|rewrite H; left; reflexivity]. Qed.

  (* the population Iterative::run starts from is not empty: some supplied individual was taken, or the first check of the
     initial phase passes (then the first initial operator is run to completion) *)
  Definition starts_nonempty : Prop :=
    seeded cfg <> [] \/ (length (seeded cfg) < c_init_size cfg /\ (c_legacy_stop cfg = false \/ first_check_passes cfg W)).

  (* the code as it is: room for one initial solution is enough *)
  Lemma starts_nonempty_now : c_legacy_stop cfg = false -> 1 <= c_init_size cfg -> starts_nonempty.
  Proof.
    intros Hl Hsize. unfold starts_nonempty.
    assert (Hd : seeded cfg = [] \/ seeded cfg <> []) by (destruct (seeded cfg); [left; reflexivity|right; discriminate]).
    destruct Hd as [Es|Hne]; [right|left; exact Hne]. rewrite Es. cbn [length]. split; [lia|left; exact Hl].
  Qed.

  Lemma seeded_le : length (seeded cfg) <= c_init_size cfg.
  Proof. unfold seeded. rewrite firstn_length. lia. Qed.

  Lemma seeded_good : Forall (Good jobs) (c_individuals cfg) -> Forall (Good jobs) (seeded cfg).
  Proof.
    intros H. apply Forall_forall. intros s Hs. unfold seeded in Hs.
    exact (proj1 (Forall_forall _ _) H s (firstn_in _ _ _ Hs)).
  Qed.

  (* EvolutionSimulator::run before the strategy: at most initial.max_size individuals are handed to the population, no generation
     is counted, and the population is not empty under starts_nonempty *)
  Lemma before_loop :
    Forall (Good jobs) (c_individuals cfg) ->
    exists st1, initial (c_init_size cfg - length (seeded cfg)) (length (seeded cfg)) cfg W q (seed cfg estate0) = Some st1
                /\ Forall (Good jobs) (s_pop st1) /\ s_tele st1 = tele0 /\ s_iters st1 = 0
                /\ length (s_pop st1) <= c_init_size cfg
                /\ (exists l, s_pop st1 = seeded cfg ++ l)
                /\ (starts_nonempty -> s_pop st1 <> []).
  Proof.
    intros Hind. pose proof seeded_le as Hle. pose proof (seeded_good Hind) as Hsg.
    assert (Hp0 : Forall (Good jobs) (s_pop (seed cfg estate0))) by exact Hsg.
    destruct (initial_some (c_init_size cfg - length (seeded cfg)) (length (seeded cfg)) (seed cfg estate0) Hp0)
      as (st1 & E1 & Hp1 & Ht1 & Hi1 & (l & Hl & Hlen) & _).
    exists st1. split; [exact E1|]. split; [exact Hp1|]. split; [exact Ht1|]. split; [exact Hi1|].
    cbn [seed s_pop estate0 app] in Hl. split; [rewrite Hl, app_length; lia|]. split; [exists l; exact Hl|].
    intros [Hne|[Hlt Hgo]].
    - rewrite Hl. destruct (seeded cfg); [congruence|discriminate].
    - destruct (c_init_size cfg - length (seeded cfg)) as [|n] eqn:En; [lia|].
      assert (Hd : seeded cfg = [] \/ seeded cfg <> []) by (destruct (seeded cfg); [left; reflexivity|right; discriminate]).
      destruct Hd as [Es|Hne]; [|rewrite Hl; destruct (seeded cfg); [congruence|discriminate]].
      assert (Hgo' : (c_legacy_stop cfg = false /\ s_pop (seed cfg estate0) = [])
                     \/ (fst (is_termination (cfg_terms cfg) (t_stat_gen (s_tele (seed cfg estate0))) (o_time W) (o_other W)
                                             (s_tpolls (seed cfg estate0))) = false
                         /\ est_exceeds (cfg_terms cfg) (t_stat_gen (s_tele (seed cfg estate0))) (o_init_quota W (length (seeded cfg))) = false)).
      { destruct Hgo as [Hleg|[Hf1 Hf2]]; [left; split; [exact Hleg|unfold seed; rewrite Es; reflexivity]|right; split; [exact Hf1|exact Hf2]]. }
      destruct (initial_first n (length (seeded cfg)) (seed cfg estate0) Hgo' Hp0) as (st1' & E1' & _ & _ & _ & Hne).
      rewrite E1 in E1'. injection E1' as <-. exact Hne.
  Qed.

  Theorem evolve_returns N k :
    gen_limit (cfg_terms cfg) = Some N -> 1 <= c_init_ops cfg -> 1 <= T -> Forall (Good jobs) (c_individuals cfg) -> starts_nonempty ->
    exists best st, evolve cfg W q = EOk best st
                    /\ Good jobs best /\ In best (s_pop st) /\ Forall (Good jobs) (s_pop st)
                    /\ gens_run (s_tele st) <= S N /\ (fires_by q k -> gens_run (s_tele st) <= pred k)
                    /\ t_evolution (s_tele st) = reported T (gens_run (s_tele st))
                    /\ t_metric_gens (s_tele st) = pred (gens_run (s_tele st))
                    /\ counted st
                    /\ (exists e, s_pop st = seeded cfg ++ e).
  Proof.
    intros Hl Hops HT Hind Hstart. unfold evolve.
    assert (E0 : (c_init_ops cfg =? 0) = false) by (apply Nat.eqb_neq; lia). rewrite E0.
    assert (ET : (c_track cfg =? 0) = false) by (apply Nat.eqb_neq; fold T; lia). rewrite ET.
    destruct (before_loop Hind) as (st1 & E1 & Hp1 & Ht1 & Hi1 & _ & (l1 & Hl1) & Hne1). specialize (Hne1 Hstart).
    destruct (iloop_some N k Hl (S N) st1 Hp1) as (st2 & E2 & Hp2 & (e & He) & Hwf2 & Hg2 & Hq2 & Hev2).
    { rewrite Ht1. apply tele0_wf. }
    { rewrite Ht1. cbn. lia. }
    { rewrite Ht1. cbn. lia. }
    assert (Erun : evolve_run cfg W q = Some (strategy_result cfg st2)) by (unfold evolve_run, loop_fuel; rewrite E1, Hl, E2; reflexivity).
    rewrite Erun. unfold finish. cbn [strategy_result s_pop]. destruct (s_pop st2) as [|h t] eqn:Epop.
    - exfalso. rewrite He in Epop. destruct (s_pop st1); [congruence|discriminate].
    - eexists (nth (o_best W (h :: t)) (h :: t) h), _. split; [reflexivity|]. cbn [strategy_result s_pop s_tele]. rewrite ?Epop.
      assert (Hin : In (nth (o_best W (h :: t)) (h :: t) h) (h :: t)) by (eapply pick_in; reflexivity).
      change (gens_run (on_result (c_track cfg) (s_tele st2))) with (gens_run (s_tele st2)).
      change (t_metric_gens (on_result (c_track cfg) (s_tele st2))) with (t_metric_gens (s_tele st2)).
      split; [eapply Forall_forall; [exact Hp2|exact Hin]|]. split; [exact Hin|]. split; [exact Hp2|]. split; [exact Hg2|].
      rewrite Ht1 in Hq2, Hev2. cbn [tele0 gens_run t_next t_evolution] in Hq2, Hev2. split; [|split; [|split; [|split]]].
      + intros Hk. specialize (Hq2 Hk (Nat.le_0_l _)). lia.
      + apply on_result_evolution; [exact Hwf2|]. apply Hev2; [exact Hne1|reflexivity].
      + exact (proj1 (tele_wf_metric _ Hwf2)).
      + pose proof (evolve_run_counted cfg W q _ Erun) as Hcnt. exact Hcnt.
      + exists (l1 ++ e). rewrite He, Hl1, app_assoc. reflexivity.
  Qed.

  Theorem evolve_generations_exact N :
    c_max_gen cfg = Some N -> 1 <= eff_limit cfg N -> 1 <= c_init_ops cfg -> 1 <= T -> Forall (Good jobs) (c_individuals cfg) ->
    starts_nonempty ->
    (forall n, q n = false) -> (forall t, o_time W t = false) -> (forall i t, o_other W i t = false) ->
    exists best st, evolve cfg W q = EOk best st /\ gens_run (s_tele st) = S (eff_limit cfg N)
                    /\ t_metric_gens (s_tele st) = eff_limit cfg N /\ s_iters st = S (eff_limit cfg N).
  Proof.
    intros Hc HN Hops HT Hind Hstart Hq Htm Hot. unfold evolve.
    assert (E0 : (c_init_ops cfg =? 0) = false) by (apply Nat.eqb_neq; lia). rewrite E0.
    assert (ET : (c_track cfg =? 0) = false) by (apply Nat.eqb_neq; fold T; lia). rewrite ET.
    destruct (before_loop Hind) as (st1 & E1 & Hp1 & Ht1 & Hi1 & _ & _ & Hne1). specialize (Hne1 Hstart).
    pose proof (gen_limit_cfg cfg N Hc) as Hl.
    pose proof (eff_limit_le cfg N) as HLN.
    destruct (iloop_exact N Hc HN Hq Htm Hot (S N) st1 Hp1) as (st2 & E2 & Hg2 & Hm2 & e & He).
    { rewrite Ht1. apply tele0_wf. }
    { rewrite Ht1. cbn. lia. }
    { rewrite Ht1. cbn. lia. }
    assert (Erun : evolve_run cfg W q = Some (strategy_result cfg st2)) by (unfold evolve_run, loop_fuel; rewrite E1, Hl, E2; reflexivity).
    rewrite Erun. unfold finish. cbn [strategy_result s_pop]. destruct (s_pop st2) as [|h t] eqn:Epop.
    - exfalso. destruct (s_pop st1); [congruence|discriminate].
    - eexists _, _. split; [reflexivity|]. cbn [strategy_result s_tele s_iters]. split; [exact Hg2|]. split; [exact Hm2|].
      pose proof (proj1 (evolve_run_counted cfg W q _ Erun)) as Hi. cbn [strategy_result s_iters s_tele] in Hi. rewrite Hi. exact Hg2.
  Qed.
  (* the quota is reached before anything was constructed (it answers true at every poll): every initial operator returns a solution
     without a tour in which every job of the plan is reported unassigned *)
  Definition nothing_placed (s : hsol) : Prop := h_routes s = [] /\ forall j, In j jobs -> In j (h_unassigned s).

  Lemma initial_quota_all : (forall n, q n = true) ->
    forall n idx st st1, initial n idx cfg W q st = Some st1 -> Forall nothing_placed (s_pop st) -> Forall nothing_placed (s_pop st1).
  Proof.
    intros Hq. induction n as [|n IH]; intros idx st st1 E HP; cbn [initial] in E; [injection E as <-; exact HP|].
    destruct (is_termination (cfg_terms cfg) (t_stat_gen (s_tele st)) (o_time W) (o_other W) (s_tpolls st)) as [term tp].
    destruct (initial_stops cfg (s_pop st) (est_exceeds (cfg_terms cfg) (t_stat_gen (s_tele st)) (o_init_quota W idx)) term);
      [injection E as <-; exact HP|].
    destruct (process_quota_first (o_init_ev W idx (init_operator cfg W idx)) q (mkP (init (c_jobs cfg)) (c_reg cfg) (s_polls st) 0) (Hq _))
      as (p & Ep & Hr & _ & _ & _ & Hu).
    rewrite Ep in E. apply (IH _ _ _ E). cbn [s_pop]. apply Forall_app. split; [exact HP|]. constructor; [|constructor].
    split; [rewrite Hr; reflexivity|]. intros j Hj. apply Hu. right. exact Hj.
  Qed.

  Lemma iloop_quota_reached : (forall n, q n = true) ->
    forall fuel st, exists st', iloop fuel cfg W q st = Some st' /\ s_pop st' = s_pop st /\ s_tele st' = s_tele st /\ s_iters st' = s_iters st.
  Proof.
    intros Hq fuel st. destruct fuel; cbn [iloop];
      destruct (is_termination (cfg_terms cfg) (t_stat_gen (s_tele st)) (o_time W) (o_other W) (s_tpolls st)) as [term tp];
      rewrite Hq, orb_true_r; eexists; (split; [reflexivity|]); repeat split.
  Qed.

  Theorem evolve_quota_before_construction :
    1 <= c_init_ops cfg -> 1 <= T -> c_individuals cfg = [] -> starts_nonempty ->
    (forall n, q n = true) ->
    exists best st, evolve cfg W q = EOk best st /\ gens_run (s_tele st) = 0 /\ s_iters st = 0
                    /\ Good jobs best /\ nothing_placed best.
  Proof.
    intros Hops HT Hind Hstart Hq. unfold evolve.
    assert (E0 : (c_init_ops cfg =? 0) = false) by (apply Nat.eqb_neq; lia). rewrite E0.
    assert (ET : (c_track cfg =? 0) = false) by (apply Nat.eqb_neq; fold T; lia). rewrite ET.
    assert (Hs : seeded cfg = []) by (unfold seeded; rewrite Hind; destruct (c_init_size cfg); reflexivity).
    assert (Hgood : Forall (Good jobs) (c_individuals cfg)) by (rewrite Hind; constructor).
    destruct (before_loop Hgood) as (st1 & E1 & Hp1 & Ht1 & Hi1 & _ & _ & Hne1). specialize (Hne1 Hstart).
    assert (HP1 : Forall nothing_placed (s_pop st1)).
    { apply (initial_quota_all Hq _ _ _ _ E1). unfold seed. rewrite Hs. constructor. }
    destruct (iloop_quota_reached Hq (loop_fuel cfg) st1) as (st2 & E2 & Hp2 & Ht2 & Hi2).
    unfold evolve_run. rewrite E1, E2. unfold finish. cbn [strategy_result s_pop]. rewrite Hp2.
    destruct (s_pop st1) as [|h t] eqn:Epop; [congruence|].
    assert (Hin : In (nth (o_best W (h :: t)) (h :: t) h) (h :: t)) by (eapply pick_in; reflexivity).
    eexists _, _. split; [reflexivity|]. cbn [strategy_result s_tele s_iters].
    change (gens_run (on_result (c_track cfg) (s_tele st2))) with (gens_run (s_tele st2)).
    rewrite Ht2, Ht1, Hi2, Hi1. split; [reflexivity|]. split; [reflexivity|].
    split; [exact (proj1 (Forall_forall _ _) Hp1 _ Hin)|exact (proj1 (Forall_forall _ _) HP1 _ Hin)].
  Qed.

  (* only a time limit stops the run (no generation limit): for every fuel above the number of clock readings after which the
     limit is hit the run returns a valid solution, provided the population Iterative::run starts from is not empty *)
  Theorem evolve_time_returns T0 k :
    c_max_gen cfg = None -> c_user_term cfg = None -> c_max_time cfg = true ->
    1 <= c_init_ops cfg -> 1 <= T -> Forall (Good jobs) (c_individuals cfg) -> starts_nonempty ->
    (forall t, T0 <= t -> o_time W t = true) -> T0 < c_fuel cfg ->
    exists best st, evolve cfg W q = EOk best st
                    /\ Good jobs best /\ In best (s_pop st) /\ Forall (Good jobs) (s_pop st)
                    /\ gens_run (s_tele st) <= T0 /\ (fires_by q k -> gens_run (s_tele st) <= pred k)
                    /\ counted st.
  Proof.
    intros Hc Hu Ht Hops HT Hind Hstart Hclock Hfuel. unfold evolve.
    assert (E0 : (c_init_ops cfg =? 0) = false) by (apply Nat.eqb_neq; lia). rewrite E0.
    assert (ET : (c_track cfg =? 0) = false) by (apply Nat.eqb_neq; fold T; lia). rewrite ET.
    destruct (before_loop Hind) as (st1 & E1 & Hp1 & Ht1 & Hi1 & _ & _ & Hne1). specialize (Hne1 Hstart).
    destruct (cfg_terms_time_first cfg Hc Ht) as (r & Hts).
    assert (Hl : gen_limit (cfg_terms cfg) = None).
    { unfold cfg_terms, terminations. rewrite Hc, Ht, Hu. destruct (c_min_cv cfg), (c_target cfg); reflexivity. }
    destruct (iloop_time r T0 k Hts Hclock (c_fuel cfg) st1 Hp1) as (st2 & E2 & Hp2 & (e & He) & Hg2 & Hq2); [lia|].
    assert (Erun : evolve_run cfg W q = Some (strategy_result cfg st2)) by (unfold evolve_run, loop_fuel; rewrite E1, Hl, E2; reflexivity).
    rewrite Erun. unfold finish. cbn [strategy_result s_pop]. destruct (s_pop st2) as [|h t] eqn:Epop.
    - exfalso. rewrite He in Epop. destruct (s_pop st1); [congruence|discriminate].
    - eexists (nth (o_best W (h :: t)) (h :: t) h), _. split; [reflexivity|]. cbn [strategy_result s_pop s_tele]. rewrite ?Epop.
      assert (Hin : In (nth (o_best W (h :: t)) (h :: t) h) (h :: t)) by (eapply pick_in; reflexivity).
      change (gens_run (on_result (c_track cfg) (s_tele st2))) with (gens_run (s_tele st2)).
      rewrite Ht1 in Hg2, Hq2. cbn [tele0 gens_run t_next] in Hg2, Hq2.
      split; [eapply Forall_forall; [exact Hp2|exact Hin]|]. split; [exact Hin|]. split; [exact Hp2|]. split; [lia|]. split.
      + intros Hk. specialize (Hq2 Hk (Nat.le_0_l _)). lia.
      + exact (evolve_run_counted cfg W q _ Erun).
  Qed.
End Evolve.

(* ------------------------------------------------------------------ the documented errors *)
Theorem evolve_no_initial_operator cfg W q : c_init_ops cfg = 0 -> evolve cfg W q = EErr ErrNoInitialMethods.
Proof. intros H. unfold evolve. rewrite H. reflexivity. Qed.

Theorem evolve_zero_generations cfg W q :
  c_legacy_stop cfg = true ->
  c_max_gen cfg = Some 0 -> 1 <= c_init_ops cfg -> 1 <= c_track cfg -> seeded cfg = [] -> evolve cfg W q = EErr ErrNoSolution.
Proof.
  intros Hleg Hc Hops HT Hs. unfold evolve.
  assert (E0 : (c_init_ops cfg =? 0) = false) by (apply Nat.eqb_neq; lia). rewrite E0.
  assert (ET : (c_track cfg =? 0) = false) by (apply Nat.eqb_neq; lia). rewrite ET.
  assert (Hterm : forall tp, is_termination (cfg_terms cfg) 0 (o_time W) (o_other W) tp = (true, tp)).
  { intros tp. unfold cfg_terms, terminations. rewrite Hc. destruct (c_max_time cfg); reflexivity. }
  assert (Hinit : forall n idx st, s_tele st = tele0 -> exists st1, initial n idx cfg W q st = Some st1 /\ s_pop st1 = s_pop st /\ s_tele st1 = tele0).
  { intros n idx st Ht. destruct n; cbn [initial]; [exists st; repeat split; assumption|].
    rewrite Ht. change (t_stat_gen tele0) with 0. rewrite Hterm. cbv beta iota zeta. unfold initial_stops. rewrite Hleg, orb_true_r.
    cbn [orb andb].
    eexists. split; [reflexivity|]. split; reflexivity. }
  unfold evolve_run. destruct (Hinit (c_init_size cfg - length (seeded cfg)) (length (seeded cfg)) (seed cfg estate0) eq_refl)
    as (st1 & E1 & Hp1 & Ht1).
  rewrite E1. unfold loop_fuel. rewrite (gen_limit_cfg cfg 0 Hc). cbn [iloop]. rewrite Ht1.
  change (t_stat_gen tele0) with 0. rewrite Hterm. cbv beta iota zeta. cbn [orb]. unfold finish. cbn [strategy_result s_pop].
  rewrite Hp1. unfold seed. rewrite Hs. reflexivity.
Qed.

(* the code as it is (after the repair of C07-F2): max_generations = 0 still builds ONE initial solution (the stop tests of the
   initial phase wait for the first solution) and returns it without running a generation *)
Theorem evolve_zero_generations_now cfg W q :
  oracles_ok W -> c_legacy_stop cfg = false ->
  c_max_gen cfg = Some 0 -> 1 <= c_init_ops cfg -> 1 <= c_init_size cfg -> 1 <= c_track cfg ->
  Forall (Good (c_jobs cfg)) (c_individuals cfg) ->
  exists best st, evolve cfg W q = EOk best st /\ gens_run (s_tele st) = 0 /\ s_iters st = 0 /\ Good (c_jobs cfg) best.
Proof.
  intros HW Hleg Hc Hops Hsize HT Hind. unfold evolve.
  assert (E0 : (c_init_ops cfg =? 0) = false) by (apply Nat.eqb_neq; lia). rewrite E0.
  assert (ET : (c_track cfg =? 0) = false) by (apply Nat.eqb_neq; lia). rewrite ET.
  assert (Hterm : forall tp, is_termination (cfg_terms cfg) 0 (o_time W) (o_other W) tp = (true, tp)).
  { intros tp. unfold cfg_terms, terminations. rewrite Hc. destruct (c_max_time cfg); reflexivity. }
  destruct (before_loop cfg W q HW Hind) as (st1 & E1 & Hp1 & Ht1 & Hi1 & _ & _ & Hne1).
  specialize (Hne1 (starts_nonempty_now cfg W Hleg Hsize)).
  unfold evolve_run. rewrite E1. unfold loop_fuel. rewrite (gen_limit_cfg cfg 0 Hc). cbn [iloop]. rewrite Ht1.
  change (t_stat_gen tele0) with 0. rewrite Hterm. cbv beta iota zeta. cbn [orb]. unfold finish. cbn [strategy_result s_pop].
  destruct (s_pop st1) as [|h t] eqn:Epop; [congruence|].
  eexists _, _. split; [reflexivity|]. cbn [strategy_result s_tele s_iters]. split; [reflexivity|]. split; [exact Hi1|].
  assert (Hin : In (nth (o_best W (h :: t)) (h :: t) h) (h :: t)).
  { destruct (nth_in_or_default (o_best W (h :: t)) (h :: t) h) as [H|H]; [exact H|rewrite H; left; reflexivity]. }
  exact (proj1 (Forall_forall _ _) Hp1 _ Hin).
Qed.

(* track_population = 0: `generation % track_population` panics (telemetry.rs on_generation / on_result, mode OnlyMetrics) *)
Theorem evolve_track_zero_panics cfg W q : 1 <= c_init_ops cfg -> c_track cfg = 0 -> evolve cfg W q = EPanic.
Proof.
  intros Hops HT. unfold evolve.
  assert (E0 : (c_init_ops cfg =? 0) = false) by (apply Nat.eqb_neq; lia). rewrite E0, HT. reflexivity.
Qed.

(* "cannot find any solution" is returned exactly when the population is empty at the end of Iterative::run; the population only
   grows, so then no individual was supplied, no initial operator was run and every generation handed over nothing *)
Theorem evolve_no_solution_iff cfg W q :
  evolve cfg W q = EErr ErrNoSolution <->
  1 <= c_init_ops cfg /\ 1 <= c_track cfg /\ exists st, evolve_run cfg W q = Some st /\ s_pop st = [].
Proof.
  unfold evolve. destruct (c_init_ops cfg =? 0) eqn:E0; [apply Nat.eqb_eq in E0; split; [discriminate|lia]|].
  destruct (c_track cfg =? 0) eqn:ET; [apply Nat.eqb_eq in ET; split; [discriminate|lia]|].
  apply Nat.eqb_neq in E0, ET. destruct (evolve_run cfg W q) as [st|]; [|split; [discriminate|intros (_ & _ & st & H & _); discriminate]].
  unfold finish. split.
  - intros H. split; [lia|]. split; [lia|]. exists st. split; [reflexivity|]. destruct (s_pop st); [reflexivity|discriminate].
  - intros (_ & _ & st' & H & Hp). injection H as <-. rewrite Hp. reflexivity.
Qed.

Lemma generation_pop_prefix cfg W q st st' : generation cfg W q st = Some st' -> exists e, s_pop st' = s_pop st ++ e.
Proof.
  unfold generation. intros E. destruct (if o_inner W (s_iters st) then _ else _) as [[offs polls]|]; [|discriminate].
  injection E as <-. eexists. reflexivity.
Qed.

Lemma iloop_pop_prefix cfg W q : forall fuel st st', iloop fuel cfg W q st = Some st' -> exists e, s_pop st' = s_pop st ++ e.
Proof.
  induction fuel as [|f IH]; intros st st' E; cbn [iloop] in E;
    destruct (is_termination (cfg_terms cfg) (t_stat_gen (s_tele st)) (o_time W) (o_other W) (s_tpolls st)) as [term tp];
    destruct (term || q (s_polls st));
    try (injection E as <-; exists []; cbn [s_pop]; rewrite app_nil_r; reflexivity); try discriminate.
  match type of E with match generation cfg W q ?s with _ => _ end = _ => destruct (generation cfg W q s) as [st2|] eqn:Eg; [|discriminate] end.
  destruct (generation_pop_prefix _ _ _ _ _ Eg) as (e1 & H1). destruct (IH _ _ E) as (e2 & H2).
  exists (e1 ++ e2). rewrite H2, H1. cbn [s_pop]. rewrite app_assoc. reflexivity.
Qed.

Lemma initial_pop_prefix cfg W q : forall n idx st st', initial n idx cfg W q st = Some st' -> exists e, s_pop st' = s_pop st ++ e.
Proof.
  induction n as [|n IH]; intros idx st st' E; cbn [initial] in E; [injection E as <-; exists []; rewrite app_nil_r; reflexivity|].
  destruct (is_termination (cfg_terms cfg) (t_stat_gen (s_tele st)) (o_time W) (o_other W) (s_tpolls st)) as [term tp].
  destruct (initial_stops cfg (s_pop st) (est_exceeds (cfg_terms cfg) (t_stat_gen (s_tele st)) (o_init_quota W idx)) term).
  - injection E as <-. exists []. cbn [s_pop]. rewrite app_nil_r. reflexivity.
  - destruct (process _ q _) as [p|]; [|discriminate]. destruct (IH _ _ _ E) as (e & He).
    exists ([p_sol p] ++ e). rewrite He. cbn [s_pop]. rewrite <- app_assoc. reflexivity.
Qed.

(* nothing handed to the population is ever lost in the model: the supplied individuals are a prefix of the final population
   (for EVERY oracle; so a run that ends with "cannot find any solution" had no supplied individual) *)
Theorem evolve_run_keeps_seeded cfg W q st : evolve_run cfg W q = Some st -> exists e, s_pop st = seeded cfg ++ e.
Proof.
  unfold evolve_run. intros E. destruct (initial _ _ cfg W q (seed cfg estate0)) as [st1|] eqn:E1; [|discriminate].
  destruct (iloop (loop_fuel cfg) cfg W q st1) as [st2|] eqn:E2; [|discriminate]. injection E as <-.
  destruct (initial_pop_prefix _ _ _ _ _ _ _ E1) as (e1 & H1). destruct (iloop_pop_prefix _ _ _ _ _ _ E2) as (e2 & H2).
  exists (e1 ++ e2). cbn [strategy_result s_pop]. rewrite H2, H1. cbn [seed s_pop estate0 app]. rewrite app_assoc. reflexivity.
Qed.

(* ------------------------------------------------------------------ DecomposeSearch inner loop *)
Lemma decompose_inner_bounds q inner : forall repeat polls done,
    let r := decompose_inner repeat q polls inner done in
    done <= fst r <= done + repeat /\ (1 <= repeat -> S done <= fst r) /\ polls <= snd r.
Proof.
  induction repeat as [|r IH]; intros polls done; cbn [decompose_inner].
  - cbn [fst snd]. lia.
  - destruct (q (polls + inner done)); cbn [fst snd].
    + lia.
    + specialize (IH (S (polls + inner done)) (S done)). cbv zeta in IH. lia.
Qed.

Lemma decompose_inner_reached q inner repeat polls done :
  (forall n, q n = true) -> 1 <= repeat -> fst (decompose_inner repeat q polls inner done) = S done.
Proof. intros Hq Hr. destruct repeat; [lia|]. cbn [decompose_inner]. rewrite Hq. reflexivity. Qed.

(* ------------------------------------------------------------------ the quota of a nested search step *)
(* once the outer quota has run out, EVERY poll of the nested environment answers true, whatever its own time limit and clock *)
Lemma custom_poll_outer_fired limit time_up inner p k :
  fires_by inner k -> k <= S p -> fst (custom_poll (custom_quota limit true) time_up inner p) = true.
Proof.
  intros Hk Hle. destruct limit; cbn [custom_quota custom_poll composite_poll]; [destruct time_up|]; cbn [fst];
    try reflexivity; apply Hk; exact Hle.
Qed.

(* the composite answers true only when its clock is up or the outer quota says so; it polls the outer quota at most once and
   not at all when its own clock is up *)
Lemma custom_poll_sound c time_up inner p :
  let r := custom_poll c time_up inner p in
  (fst r = true -> time_up = true \/ inner p = true) /\ p <= snd r <= S p /\ (c = CComposite -> time_up = true -> snd r = p).
Proof.
  destruct c, time_up; cbn [custom_poll composite_poll fst snd]; repeat split; try lia; try discriminate; auto.
Qed.

(* without a quota on the outer environment the nested step never polls one *)
Lemma custom_poll_no_outer limit time_up inner p : snd (custom_poll (custom_quota limit false) time_up inner p) = p.
Proof. destruct limit; reflexivity. Qed.

(* ------------------------------------------------------------------ initial phase: which operator builds which slot *)
Lemma init_operator_in_order cfg W idx : idx < c_init_ops cfg -> init_operator cfg W idx = idx.
Proof. intros H. unfold init_operator. apply Nat.ltb_lt in H. rewrite H. reflexivity. Qed.

Lemma init_operator_weighted cfg W idx : c_init_ops cfg <= idx -> init_operator cfg W idx = o_weighted W idx.
Proof. intros H. unfold init_operator. apply Nat.ltb_ge in H. rewrite H. reflexivity. Qed.

