(* C11 (a) — document-level round-trip statements derived from the generated per-type lemmas. *)
From VRP Require Import Base.Tac Base.Json Model.SerdeSem Proofs.SerdeP Generated.ProblemCodec Generated.SolutionCodec.
Open Scope string_scope.

Lemma problem_roundtrip : forall p : Problem,
  exists q, dec_Problem (enc_Problem p) = Some q /\ enc_Problem q = enc_Problem p.
Proof. intros p. exists (norm_Problem p). split; [apply rtn_Problem|apply encn_Problem]. Qed.

Lemma problem_reserialise : forall p : Problem, run_problem (enc_Problem p) = Some (enc_Problem p).
Proof. intros p. unfold run_problem. rewrite rtn_Problem. cbn. rewrite encn_Problem. reflexivity. Qed.

Lemma problem_roundtrip_exact : forall p : Problem, norm_Problem p = p -> dec_Problem (enc_Problem p) = Some p.
Proof. intros p H. rewrite rtn_Problem, H. reflexivity. Qed.

Lemma matrix_roundtrip : forall m : Matrix, dec_Matrix (enc_Matrix m) = Some m.
Proof. exact rt_Matrix. Qed.
Lemma matrix_reserialise : forall m : Matrix, run_matrix (enc_Matrix m) = Some (enc_Matrix m).
Proof. intros m. unfold run_matrix. rewrite rt_Matrix. reflexivity. Qed.

Lemma solution_roundtrip : forall s : Solution, dec_Solution (enc_Solution s) = Some s.
Proof. exact rt_Solution. Qed.
Lemma solution_reserialise : forall s : Solution, run_solution (enc_Solution s) = Some (enc_Solution s).
Proof. intros s. unfold run_solution. rewrite rt_Solution. reflexivity. Qed.

(* the only value the problem reader does not give back literally: an empty offset list of an optional break *)
Lemma break_time_roundtrip_exact : forall t : VehicleOptionalBreakTime,
  t <> VehicleOptionalBreakTime_TimeOffset [] ->
  dec_VehicleOptionalBreakTime (enc_VehicleOptionalBreakTime t) = Some t.
Proof.
  intros t H. rewrite rtn_VehicleOptionalBreakTime.
  apply norm_VehicleOptionalBreakTime_fix in H. rewrite H. reflexivity.
Qed.
Lemma break_time_empty_offset_ambiguous :
  dec_VehicleOptionalBreakTime (enc_VehicleOptionalBreakTime (VehicleOptionalBreakTime_TimeOffset []))
  = Some (VehicleOptionalBreakTime_TimeWindow []).
Proof. reflexivity. Qed.
