(* Proofs about Model/KMedoids.v: whatever the distance function, the rayon chunking and the hash order are,
   create_kmedoids returns clusters in which every point is at least as close to its own medoid as to any other
   cluster's medoid, and the clusters are a partition (as multisets) of the points — for every k since repair ba4acde
   (the selection of medoids stops when no unused point is left; with k <= #distinct points it finds k medoids);
   the hierarchical variant never panics (repair 8db29ea); the executable checker decides the declarative contract. *)
From Coq Require Import Permutation.
From VRP Require Import Base.Tac Model.Lkh Model.KMedoids Proofs.LkhP Proofs.DbscanP.
Local Open Scope nat_scope.

Definition km_nearest (d : nat -> nat -> Z) (m : cmap) : Prop :=
  forall med c p med' c', In (med, c) m -> In p c -> In (med', c') m -> (d p med <= d p med')%Z.
Definition km_partition (data : list nat) (m : cmap) : Prop := Permutation (flat_map snd m) data.

  Lemma min_by_spec key : forall l best,
    let r := min_by key best l in
    (key r <= key best)%Z /\ (forall x, In x l -> (key r <= key x)%Z) /\ (r = best \/ In r l).
  Proof.
    induction l as [|x l IH]; intros best; cbn [min_by].
    - split; [lia|]. split; [intros x []|]. left. reflexivity.
    - destruct (key x <? key best)%Z eqn:E.
      + apply Z.ltb_lt in E. destruct (IH x) as [A [B C]]. split; [lia|]. split.
        * intros y [<- | Hy]; [exact A | auto].
        * right. destruct C as [-> | C]; [left; reflexivity | right; exact C].
      + apply Z.ltb_ge in E. destruct (IH best) as [A [B C]]. split; [exact A|]. split.
        * intros y [<- | Hy]; [lia | auto].
        * destruct C as [C | C]; [left; exact C | right; right; exact C].
  Qed.

  Lemma argmin_spec key l r : argmin key l = Some r -> In r l /\ forall x, In x l -> (key r <= key x)%Z.
  Proof.
    destruct l as [|x l]; cbn [argmin]; [discriminate|]. intros H. inversion H; subst r.
    destruct (min_by_spec key l x) as [A [B C]]. split.
    - destruct C as [-> | C]; [left; reflexivity | right; exact C].
    - intros y [<- | Hy]; [exact A | auto].
  Qed.


Section KMP.
  Variable d : nat -> nat -> Z.
  Variable chunks : list nat -> list (list nat).
  Variable ord : list nat -> list nat.

  Lemma argmin_some key l : l <> [] -> exists r, argmin key l = Some r.
  Proof. destruct l; [congruence|]. intros _. eexists. reflexivity. Qed.

  (* ---------------------------------------------------------------- assign *)
  Definition assigned_ok (M : list nat) (m : cmap) : Prop :=
    forall k c, In (k, c) m -> In k M /\ forall p, In p c -> nearest d p M = Some k.

  Lemma cm_push_ok M k p m : nearest d p M = Some k -> assigned_ok M m -> assigned_ok M (cm_push k p m).
  Proof.
    intros Hn. induction m as [|[k' c'] r IH]; intros Hm k0 c0 H0; cbn [cm_push] in H0.
    - destruct H0 as [H0 | []]. injection H0 as E1 E2. subst k0 c0. split.
      + apply argmin_spec in Hn. exact (proj1 Hn).
      + intros q [<- | []]. exact Hn.
    - destruct (k' =? k) eqn:E.
      + apply Nat.eqb_eq in E. subst k'. destruct H0 as [H0 | H0].
        * injection H0 as E1 E2. subst k0 c0. destruct (Hm k c' (or_introl eq_refl)) as [A B]. split; [exact A|].
          intros q Hq. apply in_app_or in Hq. destruct Hq as [Hq | [<- | []]]; auto.
        * apply Hm. right. exact H0.
      + destruct H0 as [H0 | H0]; [apply Hm; left; exact H0|].
        apply IH; [|exact H0]. intros k1 c1 H1. apply Hm. right. exact H1.
  Qed.

  Lemma cm_push_perm k p : forall m, Permutation (flat_map snd (cm_push k p m)) (p :: flat_map snd m).
  Proof.
    induction m as [|[k' c'] r IH]; cbn [cm_push]; [cbn; apply Permutation_refl|].
    destruct (k' =? k); cbn [flat_map snd].
    - rewrite <- app_assoc. cbn [app]. apply Permutation_sym. apply Permutation_middle.
    - eapply Permutation_trans; [apply Permutation_app_head; exact IH|].
      apply Permutation_sym. apply Permutation_middle.
  Qed.

  Lemma assign_fold_ok M : forall data m,
    assigned_ok M m ->
    assigned_ok M (fold_left (fun m p => match nearest d p M with Some k => cm_push k p m | None => m end) data m).
  Proof.
    induction data as [|p data IH]; intros m Hm; cbn [fold_left]; [exact Hm|].
    apply IH. destruct (nearest d p M) as [k|] eqn:E; [apply cm_push_ok; assumption | exact Hm].
  Qed.

  Lemma assign_fold_perm M : M <> [] -> forall data m,
    Permutation (flat_map snd (fold_left (fun m p => match nearest d p M with Some k => cm_push k p m | None => m end) data m))
                (flat_map snd m ++ data).
  Proof.
    intros HM. induction data as [|p data IH]; intros m; cbn [fold_left]; [rewrite app_nil_r; apply Permutation_refl|].
    destruct (argmin_some (fun m0 => d p m0) M HM) as [k Hk]. change (nearest d p M = Some k) in Hk. rewrite Hk.
    eapply Permutation_trans; [apply IH|].
    eapply Permutation_trans; [apply Permutation_app_tail; apply cm_push_perm|].
    cbn [app]. apply Permutation_middle.
  Qed.

  Theorem assign_nearest data M : km_nearest d (assign d data M).
  Proof.
    assert (H : assigned_ok M (assign d data M)) by (apply assign_fold_ok; intros k c []).
    intros med c p med' c' H1 Hp H2.
    destruct (H _ _ H1) as [_ B]. destruct (H _ _ H2) as [A' _].
    specialize (B p Hp). apply argmin_spec in B. apply (proj2 B). exact A'.
  Qed.

  Theorem assign_partition data M : M <> [] -> km_partition data (assign d data M).
  Proof. intros HM. unfold km_partition, assign. apply (assign_fold_perm M HM data []). Qed.

  Lemma assign_keys data M k c : In (k, c) (assign d data M) -> In k M /\ c <> [].
  Proof.
    assert (G : forall dl m, (forall k c, In (k, c) m -> In k M /\ c <> []) ->
                forall k c, In (k, c) (fold_left (fun m p => match nearest d p M with Some k => cm_push k p m | None => m end) dl m) ->
                In k M /\ c <> []).
    { clear k c. induction dl as [|p dl IH]; intros m Hm k c H; cbn [fold_left] in H; [auto|].
      revert H. apply IH. destruct (nearest d p M) as [k0|] eqn:E; [|exact Hm].
      apply argmin_spec in E. destruct E as [E _].
      clear IH. induction m as [|[k' c'] r IHm]; intros k1 c1 H1; cbn [cm_push] in H1.
      - destruct H1 as [H1 | []]. injection H1 as E1 E2. subst k1 c1. split; [exact E | discriminate].
      - destruct (k' =? k0) eqn:Ek.
        + destruct H1 as [H1 | H1]; [|apply Hm; right; exact H1]. injection H1 as E1 E2. subst k1 c1.
          split; [apply (Hm k' c'); left; reflexivity | destruct c'; discriminate].
        + destruct H1 as [H1 | H1]; [apply Hm; left; exact H1|].
          apply IHm; [|exact H1]. intros k2 c2 H2. apply Hm. right. exact H2. }
    apply G. intros k0 c0 [].
  Qed.

  (* ---------------------------------------------------------------- the iteration keeps the medoid vector non-empty *)
  Hypothesis ord_perm : forall l, Permutation (ord l) l.

  Lemma update_nonempty data M : data <> [] -> M <> [] -> update_medoids d ord (assign d data M) <> [].
  Proof.
    intros Hd HM Hu. unfold update_medoids in Hu.
    pose proof (ord_perm (flat_map (fun kc => match argmin (fun p => sumd_to d p (snd kc)) (snd kc) with Some x => [x] | None => [] end)
                                   (assign d data M))) as P.
    rewrite Hu in P. apply Permutation_nil in P.
    pose proof (assign_partition data M HM) as Q. unfold km_partition in Q.
    destruct (assign d data M) as [|[k c] r] eqn:Ea.
    - cbn in Q. apply Permutation_nil in Q. congruence.
    - assert (Hc : c <> []) by (apply (assign_keys data M k c); rewrite Ea; left; reflexivity).
      cbn [flat_map snd] in P. destruct (argmin_some (fun p => sumd_to d p c) c Hc) as [x Hx]. rewrite Hx in P. discriminate.
  Qed.

  Lemma iterate_nonempty data : data <> [] -> forall n M, M <> [] -> iterate d ord n data M <> [].
  Proof.
    intros Hd. induction n as [|n IH]; intros M HM; cbn [iterate]; [exact HM|].
    destruct (KMedoids.list_eqb (update_medoids d ord (assign d data M)) M); [exact HM|].
    apply IH. apply update_nonempty; assumption.
  Qed.

  Lemma more_medoids_nonempty : forall fuel k data M M', M <> [] -> more_medoids d chunks fuel k data M = Some M' -> M' <> [].
  Proof.
    induction fuel as [|f IH]; intros k data M M' HM H; cbn [more_medoids] in H; [inversion H; subst; exact HM|].
    destruct (length M <? k); [|inversion H; subst; exact HM].
    destruct (next_medoid d chunks data M) as [m|]; [|inversion H; subst; exact HM].
    eapply IH; [|exact H]. destruct M; discriminate.
  Qed.

  (* since repair ba4acde the selection of medoids never gives up *)
  Lemma more_medoids_total : forall fuel k data M, exists M', more_medoids d chunks fuel k data M = Some M'.
  Proof.
    induction fuel as [|f IH]; intros k data M; cbn [more_medoids]; [eexists; reflexivity|].
    destruct (length M <? k); [|eexists; reflexivity].
    destruct (next_medoid d chunks data M) as [m|]; [apply IH | eexists; reflexivity].
  Qed.

  Theorem create_kmedoids_nearest data k : km_nearest d (create_kmedoids d chunks ord data k).
  Proof.
    unfold create_kmedoids, calculate. destruct data as [|p0 data]; [intros ? ? ? ? ? []|].
    destruct (initialize_medoids d chunks k (p0 :: data)); [apply assign_nearest | intros ? ? ? ? ? []].
  Qed.

  Theorem create_kmedoids_partition data k : km_partition data (create_kmedoids d chunks ord data k).
  Proof.
    unfold create_kmedoids, calculate. destruct data as [|p0 data]; [apply perm_nil|].
    unfold initialize_medoids.
    destruct (argmin (fun a => sumd d a (p0 :: data)) (p0 :: data)) as [first|] eqn:Ea; [|cbn in Ea; discriminate].
    destruct (more_medoids_total k k (p0 :: data) [first]) as [M HM]. rewrite HM.
    apply assign_partition. apply iterate_nonempty; [discriminate|].
    eapply more_medoids_nonempty; [|exact HM]. discriminate.
  Qed.
End KMP.

(* ------------------------------------------------------------------ the executable checker *)
Lemma nearest_ok_iff d m : nearest_ok d m = true <-> km_nearest d m.
Proof.
  unfold nearest_ok, km_nearest. rewrite forallb_forall. split.
  - intros H med c p med' c' H1 Hp H2. specialize (H _ H1). cbn [fst snd] in H.
    rewrite forallb_forall in H. specialize (H p Hp). rewrite forallb_forall in H. specialize (H _ H2).
    cbn [fst] in H. apply Z.leb_le. exact H.
  - intros H [med c] H1. apply forallb_forall. intros p Hp. apply forallb_forall. intros [med' c'] H2.
    cbn [fst snd] in *. apply Z.leb_le. eapply H; eauto.
Qed.

Theorem check_kmedoids_iff dm data m :
  check_kmedoids dm data m = [] <-> km_partition data m /\ km_nearest (dmat dm) m.
Proof.
  unfold check_kmedoids, km_partition.
  destruct (permb (flat_map snd m) data) eqn:E1.
  - apply permb_iff in E1. destruct (nearest_ok (dmat dm) m) eqn:E2; cbn [app].
    + apply nearest_ok_iff in E2. tauto.
    + split; [discriminate|]. intros [_ H]. apply nearest_ok_iff in H. congruence.
  - split; [destruct (nearest_ok (dmat dm) m); discriminate|]. intros [H _]. apply permb_iff in H. congruence.
Qed.

(* ------------------------------------------------------------------ a fresh point is found while k <= #distinct points
   (no longer needed for the contract since repair ba4acde; kept: next_medoid only returns unused points of the data) *)
Section Init.
  Variable d : nat -> nat -> Z.
  Variable chunks : list nat -> list (list nat).
  Variable data : list nat.
  Hypothesis chunks_ok : concat (chunks data) = data.

  Lemma kmem_In x l : kmem x l = true <-> In x l.
  Proof.
    unfold kmem. rewrite existsb_exists. split.
    - intros [y [Hy He]]. apply Nat.eqb_eq in He. subst. exact Hy.
    - intros H. exists x. split; [exact H | apply Nat.eqb_refl].
  Qed.

  Definition fresh (M : list nat) (o : option (Z * nat)) : Prop :=
    match o with None => True | Some (_, x) => In x data /\ ~ In x M end.

  Lemma fold_nm_fresh M : forall ch acc, (forall x, In x ch -> In x data) -> fresh M acc ->
    fresh M (fold_left (nm_fold d M) ch acc).
  Proof.
    induction ch as [|x ch IH]; intros acc Hch Ha; cbn [fold_left]; [exact Ha|].
    apply IH; [intros y Hy; apply Hch; right; exact Hy|].
    unfold nm_fold. destruct (kmem x M) eqn:E; [exact Ha|]. cbn [fresh]. split; [apply Hch; left; reflexivity|].
    rewrite <- kmem_In. congruence.
  Qed.

  Lemma fold_nm_some M : forall ch acc, (acc <> None \/ exists x, In x ch /\ ~ In x M) ->
    fold_left (nm_fold d M) ch acc <> None.
  Proof.
    induction ch as [|x ch IH]; intros acc H; cbn [fold_left].
    - destruct H as [H | [x [[] _]]]. exact H.
    - apply IH. unfold nm_fold. destruct (kmem x M) eqn:E.
      + destruct H as [H | [y [[<- | Hy] Hn]]]; [left; exact H | | right; exists y; auto].
        exfalso. apply Hn. apply kmem_In. exact E.
      + left. discriminate.
  Qed.

  Lemma nm_reduce_fresh M l r : fresh M l -> fresh M r -> fresh M (nm_reduce l r).
  Proof.
    intros Hl Hr. unfold nm_reduce. destruct l as [[dl xl]|], r as [[dr xr]|]; try assumption.
    destruct (dl >? dr)%Z; assumption.
  Qed.

  Lemma nm_reduce_some l r : l <> None \/ r <> None -> nm_reduce l r <> None.
  Proof.
    unfold nm_reduce. destruct l as [[dl xl]|], r as [[dr xr]|]; intros [H | H]; try congruence;
      destruct (dl >? dr)%Z; discriminate.
  Qed.

  Lemma fold_reduce_fresh M : forall rs acc, (forall r, In r rs -> fresh M r) -> fresh M acc ->
    fresh M (fold_left nm_reduce rs acc).
  Proof.
    induction rs as [|r rs IH]; intros acc Hrs Ha; cbn [fold_left]; [exact Ha|].
    apply IH; [intros r' Hr'; apply Hrs; right; exact Hr'|]. apply nm_reduce_fresh; [exact Ha | apply Hrs; left; reflexivity].
  Qed.

  Lemma fold_reduce_some : forall rs acc, (acc <> None \/ exists r, In r rs /\ r <> None) ->
    fold_left nm_reduce rs acc <> None.
  Proof.
    induction rs as [|r rs IH]; intros acc H; cbn [fold_left].
    - destruct H as [H | [r [[] _]]]. exact H.
    - apply IH. destruct H as [H | [r' [[<- | Hr'] Hn]]].
      + left. apply nm_reduce_some. left. exact H.
      + left. apply nm_reduce_some. right. exact Hn.
      + right. exists r'. auto.
  Qed.

  Lemma next_medoid_some M : (exists p, In p data /\ ~ In p M) ->
    exists m, next_medoid d chunks data M = Some m /\ In m data /\ ~ In m M.
  Proof.
    intros [p [Hp Hn]]. unfold next_medoid.
    set (rs := map (fun ch => fold_left (nm_fold d M) ch None) (chunks data)).
    assert (Hfresh : fresh M (fold_left nm_reduce rs None)).
    { apply fold_reduce_fresh; [|exact I]. intros r Hr. unfold rs in Hr. apply in_map_iff in Hr.
      destruct Hr as [ch [<- Hch]]. apply fold_nm_fresh; [|exact I].
      intros x Hx. rewrite <- chunks_ok. apply in_concat. exists ch. auto. }
    assert (Hsome : fold_left nm_reduce rs None <> None).
    { apply fold_reduce_some. right. rewrite <- chunks_ok in Hp. apply in_concat in Hp. destruct Hp as [ch [Hch Hpc]].
      exists (fold_left (nm_fold d M) ch None). split; [unfold rs; apply (in_map (fun ch0 => fold_left (nm_fold d M) ch0 None)); exact Hch|].
      apply fold_nm_some. right. exists p. auto. }
    destruct (fold_left nm_reduce rs None) as [[dd x]|]; [|congruence].
    exists x. cbn [option_map snd]. split; [reflexivity | exact Hfresh].
  Qed.

  Lemma exists_unused M : NoDup M -> length M < length (nodup Nat.eq_dec data) -> exists p, In p data /\ ~ In p M.
  Proof.
    intros ND Hlt. destruct (existsb (fun p => negb (kmem p M)) data) eqn:E.
    - apply existsb_exists in E. destruct E as [p [Hp Hk]]. exists p. split; [exact Hp|].
      apply negb_true_iff in Hk. rewrite <- kmem_In. congruence.
    - exfalso. assert (Hall : incl (nodup Nat.eq_dec data) M).
      { intros x Hx. apply nodup_In in Hx. destruct (kmem x M) eqn:Ek; [apply kmem_In; exact Ek|].
        assert (Hc : existsb (fun p => negb (kmem p M)) data = true).
        { apply existsb_exists. exists x. split; [exact Hx | rewrite Ek; reflexivity]. }
        congruence. }
      pose proof (NoDup_incl_length (NoDup_nodup Nat.eq_dec data) Hall). lia.
  Qed.

  Lemma more_medoids_some k : k <= length (nodup Nat.eq_dec data) ->
    forall fuel M, NoDup M -> incl M data -> exists M', more_medoids d chunks fuel k data M = Some M'.
  Proof.
    intros Hk. induction fuel as [|f IH]; intros M ND Hincl; cbn [more_medoids]; [eexists; reflexivity|].
    destruct (length M <? k) eqn:E; [|eexists; reflexivity]. apply Nat.ltb_lt in E.
    destruct (next_medoid_some M) as [m [Hm [Hin Hnew]]]; [apply exists_unused; [exact ND | lia]|].
    rewrite Hm. apply IH.
    - apply NoDup_app_intro; [exact ND | constructor; [intros [] | constructor] |].
      intros x Hx [<- | []]. exact (Hnew Hx).
    - intros x Hx. apply in_app_or in Hx. destruct Hx as [Hx | [<- | []]]; auto.
  Qed.

  Theorem initialize_medoids_some k : data <> [] -> k <= length (nodup Nat.eq_dec data) ->
    exists M, initialize_medoids d chunks k data = Some M.
  Proof.
    intros Hd Hk. unfold initialize_medoids.
    destruct (argmin_some (fun a => sumd d a data) data Hd) as [first Hf]. rewrite Hf.
    apply argmin_spec in Hf. destruct Hf as [Hf _].
    apply more_medoids_some; [exact Hk | constructor; [intros [] | constructor] |].
    intros x [<- | []]. exact Hf.
  Qed.
End Init.

(* the full k-medoids contract (no hypothesis on k, on the chunking or on the data since repair ba4acde) *)
Theorem create_kmedoids_contract d chunks ord data k :
  (forall l, Permutation (ord l) l) ->
  km_partition data (create_kmedoids d chunks ord data k) /\ km_nearest d (create_kmedoids d chunks ord data k).
Proof.
  intros Hord. split; [apply create_kmedoids_partition; exact Hord | apply create_kmedoids_nearest].
Qed.

Lemma halves_concat l : concat (halves l) = l.
Proof.
  unfold halves. destruct l as [|a [|b r]]; [reflexivity | reflexivity |].
  cbn [concat]. rewrite app_nil_r. apply firstn_skipn.
Qed.

(* ------------------------------------------------------------------ the two repaired findings: witnesses about the pre-fix
   functions (for every distance / hash order), and what the repaired functions do on the same inputs *)
Lemma kmedoids_k_exceeds_prefix d ord p :
  create_kmedoids_prefix d halves ord [p] 2 = [] /\ ~ Permutation (flat_map snd (create_kmedoids_prefix d halves ord [p] 2)) [p].
Proof.
  assert (E : create_kmedoids_prefix d halves ord [p] 2 = []).
  { assert (N : next_medoid d halves [p] [p] = None).
    { unfold next_medoid, nm_fold, kmem. cbn [halves map fold_left existsb]. rewrite Nat.eqb_refl. reflexivity. }
    unfold create_kmedoids_prefix.
    cbn [argmin min_by more_medoids_prefix length Nat.ltb Nat.leb]. rewrite N. reflexivity. }
  split; [exact E|]. rewrite E. cbn. intros H. apply Permutation_nil in H. discriminate.
Qed.

Lemma hkmedoids_single_point_prefix_panics d chunks ord p n :
  create_hierarchical_kmedoids_prefix d chunks ord [p] (S n) = HPanic.
Proof. reflexivity. Qed.

(* repaired: a single point gives the empty hierarchy, like every input without a cluster of more than two points *)
Lemma hkmedoids_single_point d chunks ord p n : create_hierarchical_kmedoids d chunks ord [p] n = HOk [].
Proof. destruct n; reflexivity. Qed.

(* repaired: expect("should be set") is unreachable — every cluster handed to a tier has a medoid or at least one point *)
Section NoPanic.
  Variable d : nat -> nat -> Z.
  Variable chunks : list nat -> list (list nat).
  Variable ord : list nat -> list nat.

  Definition named (e : option nat * list nat) : Prop := fst e <> None.
  Definition good (e : option nat * list nat) : Prop := fst e <> None \/ snd e <> [].

  Lemma tier_step_ok : forall cur tier next, Forall good cur -> Forall named next ->
    exists tier' next', tier_step d chunks ord cur tier next = Some (tier', next') /\ Forall named next'.
  Proof.
    induction cur as [|[medoid cdata] r IH]; intros tier next Hc Hn; cbn [tier_step].
    - exists tier, next. split; [reflexivity | exact Hn].
    - inversion Hc as [|e l Hg Hr]; subst. destruct (length cdata <? 2).
      + assert (exists m, match medoid with Some m => Some m | None => hd_error cdata end = Some m) as [m Hm].
        { destruct medoid as [m|]; [exists m; reflexivity|]. destruct Hg as [Hg | Hg]; [cbn in Hg; congruence|].
          cbn [snd] in Hg. destruct cdata as [|x cd]; [congruence|]. exists x. reflexivity. }
        rewrite Hm. apply IH; [exact Hr|]. apply Forall_app. split; [exact Hn|].
        constructor; [|constructor]. unfold named. cbn [fst]. discriminate.
      + apply IH; [exact Hr|]. apply Forall_app. split; [exact Hn|].
        apply Forall_forall. intros e He. apply in_map_iff in He. destruct He as [kc [<- _]].
        unfold named. cbn [fst]. discriminate.
  Qed.

  Lemma htiers_no_panic : forall n cur acc, Forall good cur -> htiers d chunks ord n cur acc <> HPanic.
  Proof.
    induction n as [|n IH]; intros cur acc Hc; cbn [htiers]; [discriminate|].
    destruct (tier_step_ok cur [] [] Hc (Forall_nil _)) as [tier [next [E Hn]]]. rewrite E.
    destruct tier as [|kc tier]; [discriminate|].
    destruct (existsb _ _); [|discriminate].
    apply IH. eapply Forall_impl; [|exact Hn]. intros e He. left. exact He.
  Qed.

  Theorem hkmedoids_no_panic data tiers : create_hierarchical_kmedoids d chunks ord data tiers <> HPanic.
  Proof.
    unfold create_hierarchical_kmedoids. destruct data as [|p0 data]; [discriminate|].
    apply htiers_no_panic. constructor; [|constructor]. right. cbn [snd]. discriminate.
  Qed.
End NoPanic.
