From VRP Require Import Base.Tac Model.KMedoids.
