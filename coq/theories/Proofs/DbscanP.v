(* Proofs about Model/Dbscan.v : the DBSCAN contract for every neighbourhood table, min_points and point list;
   totality of the fuel; the executable checker is equivalent to the declarative contract. *)
From VRP Require Import Base.Tac Model.Dbscan.
Local Open Scope nat_scope.

(* ------------------------------------------------------------------ declarative contract *)
Definition core (tbl : list (list nat)) (minp p : nat) : Prop := minp <= length (nbrs tbl p).

(* density-reachability from p: chains through core points *)
Inductive dreach (tbl : list (list nat)) (minp p : nat) : nat -> Prop :=
| dr_refl : dreach tbl minp p p
| dr_step : forall c q, dreach tbl minp p c -> core tbl minp c -> In q (nbrs tbl c) -> dreach tbl minp p q.

(* `rest` is grown from `before`: each next element is a neighbour of a core point that precedes it *)
Inductive grown (tbl : list (list nat)) (minp : nat) : list nat -> list nat -> Prop :=
| grown_nil : forall b, grown tbl minp b []
| grown_cons : forall b q r c, In c b -> core tbl minp c -> In q (nbrs tbl c) ->
                               grown tbl minp (b ++ [q]) r -> grown tbl minp b (q :: r).

Definition cluster_ok (tbl : list (list nat)) (minp : nat) (c : list nat) : Prop :=
  exists p r, c = p :: r /\ core tbl minp p /\ grown tbl minp [p] r.

Definition dbscan_contract (tbl : list (list nat)) (minp : nat) (pts : list nat) (cs : list (list nat)) : Prop :=
  NoDup (concat cs)
  /\ Forall (cluster_ok tbl minp) cs
  /\ (forall p, In p pts -> core tbl minp p -> exists c, In c cs /\ In p c).

(* ------------------------------------------------------------------ small facts *)
Lemma mem_In x l : mem x l = true <-> In x l.
Proof.
  unfold mem. rewrite existsb_exists. split.
  - intros [y [Hy He]]. apply Nat.eqb_eq in He. subst. exact Hy.
  - intros H. exists x. split; [exact H | apply Nat.eqb_refl].
Qed.

Lemma mem_false x l : mem x l = false <-> ~ In x l.
Proof. rewrite <- mem_In. destruct (mem x l); split; congruence. Qed.

Lemma is_core_iff tbl minp p : is_core tbl minp p = true <-> core tbl minp p.
Proof. unfold is_core, core. apply Nat.leb_le. Qed.

Lemma nodupb_iff l : nodupb l = true <-> NoDup l.
Proof.
  induction l as [|x r IH]; cbn [nodupb].
  - split; [constructor | reflexivity].
  - rewrite andb_true_iff, negb_true_iff, mem_false, IH. split.
    + intros [A B]. constructor; assumption.
    + intros H. inversion H; subst. split; assumption.
Qed.

Lemma NoDup_app_intro (a b : list nat) :
  NoDup a -> NoDup b -> (forall x, In x a -> In x b -> False) -> NoDup (a ++ b).
Proof.
  induction a as [|x a IH]; intros Ha Hb Hd; cbn [app]; [exact Hb|].
  inversion Ha; subst. constructor.
  - intros Hin. apply in_app_or in Hin. destruct Hin as [Hin | Hin]; [auto|]. apply (Hd x); [left; reflexivity | exact Hin].
  - apply IH; [assumption | exact Hb |]. intros y Hy. apply Hd. right. exact Hy.
Qed.

(* ------------------------------------------------------------------ grown : snoc, reachability, checker *)
Lemma grown_snoc tbl minp b r q :
  grown tbl minp b r -> (exists c, In c (b ++ r) /\ core tbl minp c /\ In q (nbrs tbl c)) ->
  grown tbl minp b (r ++ [q]).
Proof.
  intros G. induction G as [b | b q0 r c Hc Hcore Hq G IH]; intros [c' [Hin [Hc' Hq']]].
  - rewrite app_nil_r in Hin. cbn. eapply grown_cons; eauto. constructor.
  - cbn. eapply grown_cons; eauto. apply IH. exists c'. split; [|auto].
    rewrite <- app_assoc. exact Hin.
Qed.

Lemma grown_dreach tbl minp p b r :
  grown tbl minp b r -> (forall x, In x b -> dreach tbl minp p x) -> forall x, In x r -> dreach tbl minp p x.
Proof.
  intros G. induction G as [b | b q r c Hc Hcore Hq G IH]; intros Hb x Hx.
  - destruct Hx.
  - assert (Hq' : dreach tbl minp p q) by (eapply dr_step; eauto).
    destruct Hx as [<- | Hx]; [exact Hq'|].
    apply IH; [|exact Hx]. intros y Hy. apply in_app_or in Hy. destruct Hy as [Hy | [<- | []]]; auto.
Qed.

Lemma cluster_ok_dreach tbl minp c :
  cluster_ok tbl minp c ->
  exists p, hd_error c = Some p /\ core tbl minp p /\ forall q, In q c -> dreach tbl minp p q.
Proof.
  intros [p [r [-> [Hc G]]]]. exists p. split; [reflexivity|]. split; [exact Hc|].
  intros q [<- | Hq]; [constructor|].
  eapply grown_dreach; eauto. intros x [<- | []]. constructor.
Qed.

Lemma grown_b_iff tbl minp r : forall b, grown_b tbl minp b r = true <-> grown tbl minp b r.
Proof.
  induction r as [|q r IH]; intros b; cbn [grown_b].
  - split; [constructor | reflexivity].
  - rewrite andb_true_iff, IH, existsb_exists. split.
    + intros [[c [Hc Hb]] G]. apply andb_true_iff in Hb. destruct Hb as [H1 H2].
      apply is_core_iff in H1. apply mem_In in H2. eapply grown_cons; eauto.
    + intros G. inversion G; subst. split; [|assumption].
      exists c. split; [assumption|]. apply andb_true_iff. split; [apply is_core_iff | apply mem_In]; assumption.
Qed.

Lemma cluster_ok_b_iff tbl minp c : cluster_ok_b tbl minp c = true <-> cluster_ok tbl minp c.
Proof.
  destruct c as [|p r]; cbn [cluster_ok_b].
  - split; [discriminate | intros [p [r [H _]]]; discriminate].
  - rewrite andb_true_iff, is_core_iff, grown_b_iff. split.
    + intros [A B]. exists p, r. auto.
    + intros [p' [r' [E [A B]]]]. inversion E; subst. auto.
Qed.

Theorem check_dbscan_iff tbl minp pts cs :
  check_dbscan tbl minp pts cs = true <-> dbscan_contract tbl minp pts cs.
Proof.
  unfold check_dbscan, dbscan_contract.
  rewrite !andb_true_iff, nodupb_iff, !forallb_forall, Forall_forall.
  split.
  - intros [[A B] C]. split; [exact A|]. split.
    + intros c Hc. apply cluster_ok_b_iff. auto.
    + intros p Hp Hcore. specialize (C p Hp). apply orb_true_iff in C. destruct C as [C | C].
      * apply negb_true_iff in C. apply is_core_iff in Hcore. congruence.
      * apply existsb_exists in C. destruct C as [c [Hc Hm]]. exists c. split; [exact Hc | apply mem_In; exact Hm].
  - intros [A [B C]]. split; [split; [exact A|]|].
    + intros c Hc. apply cluster_ok_b_iff. auto.
    + intros p Hp. destruct (is_core tbl minp p) eqn:E; [|reflexivity]. cbn.
      apply is_core_iff in E. destruct (C p Hp E) as [c [Hc Hm]].
      apply existsb_exists. exists c. split; [exact Hc | apply mem_In; exact Hm].
Qed.

(* ------------------------------------------------------------------ the work-list loop *)
Definition has_parent tbl minp (cluster : list nat) (w : nat) : Prop :=
  exists c, In c cluster /\ core tbl minp c /\ In w (nbrs tbl c).

Lemma has_parent_app tbl minp cl ext w : has_parent tbl minp cl w -> has_parent tbl minp (cl ++ ext) w.
Proof. intros [c [A B]]. exists c. split; [apply in_or_app; auto | exact B]. Qed.

Lemma grow_spec tbl minp p : forall fuel work seen clustered noise cr c cl',
  grow fuel tbl minp work seen clustered noise (p :: cr) = Some (c, cl') ->
  grown tbl minp [p] cr ->
  (forall w, In w work -> has_parent tbl minp (p :: cr) w) ->
  exists ext, c = p :: cr ++ ext /\ grown tbl minp [p] (cr ++ ext) /\ NoDup ext
              /\ (forall x, In x ext -> ~ In x clustered)
              /\ (forall x, In x cl' <-> In x clustered \/ In x ext).
Proof.
  induction fuel as [|f IH]; intros work seen clustered noise cr c cl' H G W; cbn [grow] in H; [discriminate|].
  destruct work as [|q rest].
  - inversion H; subst. exists []. rewrite app_nil_r. split; [reflexivity|]. split; [exact G|].
    split; [constructor|]. split; [intros x []|]. intros x. split; [auto | intros [A | []]; exact A].
  - set (other := nbrs tbl q) in *.
    set (expand := negb (mem q clustered || mem q noise) && (minp <=? length other)) in *.
    assert (W' : forall ext w,
               In w (if expand then rest ++ filter (fun x => negb (mem x seen)) other else rest) ->
               (expand = true -> In q ((p :: cr) ++ ext)) ->
               has_parent tbl minp ((p :: cr) ++ ext) w).
    { intros ext w Hw Hq. destruct expand eqn:E.
      - apply in_app_or in Hw. destruct Hw as [Hw | Hw].
        + apply has_parent_app. apply W. right. exact Hw.
        + apply filter_In in Hw. destruct Hw as [Hw _].
          exists q. split; [apply Hq; reflexivity|]. split; [|exact Hw].
          unfold expand in E. apply andb_true_iff in E. destruct E as [_ E]. apply Nat.leb_le in E. exact E.
      - apply has_parent_app. apply W. right. exact Hw. }
    destruct (mem q clustered) eqn:Ecl.
    + (* already clustered: nothing pushed; expand is false *)
      assert (Eex : expand = false) by (unfold expand; try rewrite Ecl; reflexivity).
      rewrite Eex in *.
      eapply IH in H; [exact H | exact G |].
      intros w Hw. specialize (W' [] w Hw). rewrite app_nil_r in W'. apply W'. discriminate.
    + change (p :: cr ++ [q]) with (p :: (cr ++ [q])) in H.
      eapply IH in H.
      * destruct H as [ext [Hc [Hg [Hnd [Hfresh Hcl]]]]].
        exists (q :: ext). rewrite <- app_assoc in Hc, Hg. cbn [app] in Hc, Hg.
        split; [exact Hc|]. split; [exact Hg|].
        assert (Hq : ~ In q clustered) by (apply mem_false; exact Ecl).
        split.
        { constructor; [|exact Hnd]. intros Hin. apply (Hfresh q Hin). left. reflexivity. }
        split.
        { intros x [<- | Hx]; [exact Hq|]. intros Hc'. apply (Hfresh x Hx). right. exact Hc'. }
        intros x. rewrite Hcl. cbn [In]. tauto.
      * apply grown_snoc; [exact G|]. cbn [app]. apply (W q). left. reflexivity.
      * intros w Hw. change (p :: cr ++ [q]) with ((p :: cr) ++ [q]). apply (W' [q] w Hw).
        intros _. apply in_or_app. right. left. reflexivity.
Qed.

(* ------------------------------------------------------------------ the outer loop *)
Lemma outer_spec tbl minp : forall fuel pts clustered noise acc cs,
  outer fuel tbl minp pts clustered noise acc = Some cs ->
  NoDup (concat (rev acc)) ->
  (forall x, In x clustered <-> In x (concat (rev acc))) ->
  (forall x, In x noise -> ~ core tbl minp x) ->
  Forall (cluster_ok tbl minp) acc ->
  NoDup (concat cs) /\ Forall (cluster_ok tbl minp) cs
  /\ (forall x, In x (concat (rev acc)) -> In x (concat cs))
  /\ (forall p, In p pts -> core tbl minp p -> In p (concat cs)).
Proof.
  intros fuel pts. induction pts as [|p ps IH]; intros clustered noise acc cs H ND CL NZ OK; cbn [outer] in H.
  - inversion H; subst. split; [exact ND|]. split; [apply Forall_rev; exact OK|]. split; [auto|]. intros p [].
  - destruct (mem p clustered || mem p noise) eqn:Et.
    + destruct (IH _ _ _ _ H ND CL NZ OK) as [A [B [C D]]]. split; [exact A|]. split; [exact B|]. split; [exact C|].
      intros x [<- | Hx] Hcore; [|auto].
      apply orb_true_iff in Et. destruct Et as [Et | Et]; apply mem_In in Et.
      * apply C. apply CL. exact Et.
      * exfalso. exact (NZ _ Et Hcore).
    + apply orb_false_iff in Et. destruct Et as [Ecl Enz].
      destruct (length (nbrs tbl p) <? minp) eqn:El.
      * apply Nat.ltb_lt in El.
        assert (NZ' : forall x, In x (p :: noise) -> ~ core tbl minp x).
        { intros x [<- | Hx]; [unfold core; lia | auto]. }
        destruct (IH _ _ _ _ H ND CL NZ' OK) as [A [B [C D]]]. split; [exact A|]. split; [exact B|]. split; [exact C|].
        intros x [<- | Hx] Hcore; [unfold core in Hcore; lia | auto].
      * apply Nat.ltb_ge in El.
        destruct (grow fuel tbl minp (nbrs tbl p) (nbrs tbl p) (p :: clustered) noise [p]) as [[c cl']|] eqn:Eg; [|discriminate].
        apply (grow_spec tbl minp p) in Eg; [| constructor |].
        2:{ intros w Hw. exists p. split; [left; reflexivity|]. split; [exact El | exact Hw]. }
        destruct Eg as [ext [Hc [Hg [Hnd [Hfresh Hcl]]]]]. cbn [app] in Hc, Hg.
        assert (Hp : ~ In p clustered) by (apply mem_false; exact Ecl).
        assert (Econcat : concat (rev (c :: acc)) = concat (rev acc) ++ c).
        { cbn [rev]. rewrite concat_app. cbn [concat]. rewrite app_nil_r. reflexivity. }
        assert (ND' : NoDup (concat (rev (c :: acc)))).
        { rewrite Econcat, Hc. apply NoDup_app_intro.
          - exact ND.
          - constructor; [|exact Hnd]. intros Hin. apply (Hfresh p Hin). left. reflexivity.
          - intros x Hx [<- | Hx'].
            + apply Hp. apply CL. exact Hx.
            + apply (Hfresh x Hx'). right. apply CL. exact Hx. }
        assert (CL' : forall x, In x cl' <-> In x (concat (rev (c :: acc)))).
        { intros x. rewrite Econcat, Hc, Hcl, in_app_iff. cbn [In]. rewrite <- CL. tauto. }
        assert (OK' : Forall (cluster_ok tbl minp) (c :: acc)).
        { constructor; [|exact OK]. exists p, ext. auto. }
        destruct (IH _ _ _ _ H ND' CL' NZ OK') as [A [B [C D]]]. split; [exact A|]. split; [exact B|].
        split.
        { intros x Hx. apply C. rewrite Econcat. apply in_or_app. left. exact Hx. }
        intros x [<- | Hx] Hcore; [|auto].
        apply C. rewrite Econcat, Hc. apply in_or_app. right. left. reflexivity.
Qed.

(* ------------------------------------------------------------------ the fuel is always enough *)
Definition typedb (clustered noise : list nat) (x : nat) : bool := mem x clustered || mem x noise.
Definition pot (tbl : list (list nat)) (clustered noise l : list nat) : nat :=
  list_sum (map (fun q => if typedb clustered noise q then 0 else length (nbrs tbl q)) l).

Lemma list_sum_cons a l : list_sum (a :: l) = a + list_sum l.
Proof. reflexivity. Qed.

Lemma pot_cons_le tbl q clustered noise l : pot tbl (q :: clustered) noise l <= pot tbl clustered noise l.
Proof.
  unfold pot. induction l as [|x l IH]; cbn [map]; rewrite ?list_sum_cons; [lia|].
  unfold typedb at 1 3. cbn [mem existsb]. fold (mem x clustered).
  destruct (x =? q); destruct (mem x clustered); destruct (mem x noise); cbn [orb]; lia.
Qed.

Lemma pot_cons_drop tbl q clustered noise l :
  NoDup l -> In q l -> typedb clustered noise q = false ->
  pot tbl (q :: clustered) noise l + length (nbrs tbl q) <= pot tbl clustered noise l.
Proof.
  intros ND Hin Ht. induction l as [|x l IH]; [destruct Hin|].
  inversion ND; subst. destruct Hin as [-> | Hin].
  - pose proof (pot_cons_le tbl q clustered noise l) as Hle.
    unfold pot in *. cbn [map]; rewrite ?list_sum_cons. rewrite Ht.
    unfold typedb at 1. cbn [mem existsb]. rewrite Nat.eqb_refl. cbn [orb]. lia.
  - specialize (IH H2 Hin). unfold pot in *. cbn [map]; rewrite ?list_sum_cons.
    unfold typedb at 1 3. cbn [mem existsb]. fold (mem x clustered).
    destruct (x =? q); destruct (mem x clustered); destruct (mem x noise); cbn [orb]; lia.
Qed.

Lemma filter_len {A} (f : A -> bool) l : length (filter f l) <= length l.
Proof. induction l as [|x l IH]; cbn; [lia|]. destruct (f x); cbn; lia. Qed.

Lemma grow_total tbl minp : forall fuel work seen clustered noise cluster,
  length work + pot tbl clustered noise (seq 0 (length tbl)) < fuel ->
  grow fuel tbl minp work seen clustered noise cluster <> None.
Proof.
  induction fuel as [|f IH]; intros work seen clustered noise cluster Hlt; [lia|].
  cbn [grow]. destruct work as [|q rest]; [discriminate|]. cbn [length] in Hlt.
  pose proof (pot_cons_le tbl q clustered noise (seq 0 (length tbl))) as Hle.
  destruct (mem q clustered) eqn:Ecl.
  - cbn [orb negb andb]. apply IH. lia.
  - cbn [orb]. destruct (mem q noise) eqn:Enz; cbn [negb andb].
    + apply IH. lia.
    + destruct (minp <=? length (nbrs tbl q)) eqn:Ec.
      * apply IH. rewrite app_length.
        pose proof (filter_len (fun x => negb (mem x seen)) (nbrs tbl q)) as Hf.
        destruct (Nat.lt_ge_cases q (length tbl)) as [Hq | Hq].
        -- assert (Hd := pot_cons_drop tbl q clustered noise (seq 0 (length tbl)) (seq_NoDup _ _)).
           assert (Hin : In q (seq 0 (length tbl))) by (apply in_seq; lia).
           assert (Ht : typedb clustered noise q = false) by (unfold typedb; rewrite Ecl, Enz; reflexivity).
           specialize (Hd Hin Ht). lia.
        -- assert (E0 : nbrs tbl q = []) by (unfold nbrs; apply nth_overflow; exact Hq).
           rewrite E0 in *. cbn [length] in *. lia.
      * apply IH. lia.
Qed.

Lemma sum_rows tbl : list_sum (map (fun q => length (nbrs tbl q)) (seq 0 (length tbl))) = length (concat tbl).
Proof.
  induction tbl as [|r tbl IH]; [reflexivity|].
  cbn [length]. rewrite <- cons_seq, <- seq_shift. cbn [map concat]; rewrite !list_sum_cons. rewrite map_map, app_length.
  unfold nbrs at 1. cbn [nth]. f_equal. exact IH.
Qed.

Lemma pot_le_total tbl clustered noise : pot tbl clustered noise (seq 0 (length tbl)) <= length (concat tbl).
Proof.
  rewrite <- sum_rows. unfold pot. induction (seq 0 (length tbl)) as [|x l IH]; cbn [map]; rewrite ?list_sum_cons; [lia|].
  destruct (typedb clustered noise x); lia.
Qed.

Lemma nbrs_le_total tbl : forall p, length (nbrs tbl p) <= length (concat tbl).
Proof.
  unfold nbrs. induction tbl as [|r tbl IH]; intros [|p]; cbn [nth concat length]; try lia.
  - rewrite app_length. lia.
  - rewrite app_length. specialize (IH p). lia.
Qed.

Lemma outer_total tbl minp : forall pts clustered noise acc,
  outer (dbscan_fuel tbl) tbl minp pts clustered noise acc <> None.
Proof.
  induction pts as [|p ps IH]; intros clustered noise acc; cbn [outer]; [discriminate|].
  destruct (mem p clustered || mem p noise); [apply IH|].
  destruct (length (nbrs tbl p) <? minp); [apply IH|].
  destruct (grow (dbscan_fuel tbl) tbl minp (nbrs tbl p) (nbrs tbl p) (p :: clustered) noise [p]) as [[c cl']|] eqn:Eg.
  - apply IH.
  - exfalso. revert Eg. apply grow_total. unfold dbscan_fuel.
    pose proof (pot_le_total tbl (p :: clustered) noise). pose proof (nbrs_le_total tbl p). lia.
Qed.

(* ------------------------------------------------------------------ main results *)
Theorem create_clusters_total tbl minp pts : exists cs, create_clusters tbl minp pts = Some cs.
Proof.
  unfold create_clusters. destruct (outer (dbscan_fuel tbl) tbl minp pts [] [] []) as [cs|] eqn:E.
  - exists cs. reflexivity.
  - exfalso. exact (outer_total tbl minp pts [] [] [] E).
Qed.

Theorem create_clusters_contract tbl minp pts cs :
  create_clusters tbl minp pts = Some cs -> dbscan_contract tbl minp pts cs.
Proof.
  unfold create_clusters. intros H.
  apply outer_spec in H.
  - destruct H as [A [B [_ D]]]. split; [exact A|]. split; [exact B|].
    intros p Hp Hc. specialize (D p Hp Hc). apply in_concat in D. destruct D as [c [Hc1 Hc2]]. exists c. auto.
  - constructor.
  - intros x. cbn. tauto.
  - intros x [].
  - constructor.
Qed.

(* the contract in the words of the property *)
Theorem dbscan_contract_spec tbl minp pts cs :
  dbscan_contract tbl minp pts cs ->
  NoDup (concat cs)
  /\ (forall c, In c cs -> exists p, hd_error c = Some p /\ core tbl minp p /\ forall q, In q c -> dreach tbl minp p q)
  /\ (forall p, In p pts -> core tbl minp p -> exists c, In c cs /\ In p c).
Proof.
  intros [A [B C]]. split; [exact A|]. split; [|exact C].
  intros c Hc. apply cluster_ok_dreach. rewrite Forall_forall in B. auto.
Qed.

Theorem check_dbscan_model tbl minp pts cs :
  create_clusters tbl minp pts = Some cs -> check_dbscan tbl minp pts cs = true.
Proof. intros H. apply check_dbscan_iff. apply create_clusters_contract. exact H. Qed.

(* pairwise disjointness, stated on two positions *)
Lemma NoDup_concat_disjoint (cs : list (list nat)) :
  NoDup (concat cs) -> forall i j a b x, i <> j -> nth_error cs i = Some a -> nth_error cs j = Some b ->
  In x a -> In x b -> False.
Proof.
  induction cs as [|c cs IH]; intros ND i j a b x Hij Ha Hb Hxa Hxb.
  - destruct i; discriminate.
  - cbn [concat] in ND.
    assert (NDr : NoDup (concat cs)).
    { clear -ND. induction c as [|y c IHc]; [exact ND|]. inversion ND; subst. auto. }
    assert (Hd : forall y, In y c -> In y (concat cs) -> False).
    { clear -ND. induction c as [|z c IHc]; intros y Hy Hy'; [destruct Hy|].
      inversion ND; subst. destruct Hy as [<- | Hy].
      - apply H1. apply in_or_app. right. exact Hy'.
      - eapply IHc; eauto. }
    destruct i as [|i], j as [|j]; cbn [nth_error] in Ha, Hb.
    + congruence.
    + inversion Ha; subst. apply (Hd x Hxa). apply in_concat. exists b. split; [eapply nth_error_In; eauto | exact Hxb].
    + inversion Hb; subst. apply (Hd x Hxb). apply in_concat. exists a. split; [eapply nth_error_In; eauto | exact Hxa].
    + eapply (IH NDr i j); eauto.
Qed.
