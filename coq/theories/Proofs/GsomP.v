(* Lemmas about Model/Gsom.v (property C19). *)
From VRP Require Import Base.Tac Model.Gsom.

(* ---------- storage ---------- *)
Lemma st_add_cap cap l x : (length (st_add cap l x) <= cap)%nat.
Proof. unfold st_add. rewrite firstn_length. lia. Qed.

(* ---------- contraction arithmetic (Rust truncating division) ---------- *)
Lemma shift_inj d mn mx x y : d = 3 \/ d = 4 -> Z.rem x d <> 0 -> Z.rem y d <> 0 ->
  shift x mn mx d = shift y mn mx d -> x = y.
Proof.
  Ltac Zify.zify_post_hook ::= Z.quot_rem_to_equations.
  unfold shift, get_offset. intros Hd.
  assert (Hb: (Z.abs mx <=? Z.abs mn) = negb (Z.abs mn <? Z.abs mx)) by lia.
  rewrite Hb. generalize (Z.abs mn <? Z.abs mx). intros b Hx Hy.
  destruct Hd; subst d; destruct b; cbn [negb];
  destruct (Z.ltb_spec 0 x), (Z.ltb_spec 0 y), (Z.ltb_spec x 0), (Z.ltb_spec y 0); try lia.
Qed.
Ltac Zify.zify_post_hook ::= Z.div_mod_to_equations.

(* ---------- res / fold ---------- *)
Lemma fold_bind_panic {A B} (f : A -> B -> res A) l c :
  fold_left (fun acc o => bind acc (fun m => f m o)) l (Panic c) = Panic c.
Proof. induction l; cbn; auto. Qed.

Lemma fold_bind_inv {A B} (f : A -> B -> res A) (P : A -> Prop) l :
  (forall m o m', In o l -> P m -> f m o = Ok m' -> P m') ->
  forall a a', P a -> fold_left (fun acc o => bind acc (fun m => f m o)) l (Ok a) = Ok a' -> P a'.
Proof.
  induction l as [|o l IH]; cbn; intros Hstep a a' Pa H.
  - inversion H; subst; auto.
  - destruct (f a o) eqn:E.
    + apply (IH (fun m o m' Hin => Hstep m o m' (or_intror Hin)) a0 a'); [eapply Hstep; eauto | exact H].
    + rewrite fold_bind_panic in H. discriminate.
Qed.

(* ---------- coordinates, association list ---------- *)
Lemma coord_eqb_eq a b : coord_eqb a b = true <-> a = b.
Proof. destruct a, b; unfold coord_eqb; cbn. rewrite andb_true_iff, !Z.eqb_eq. split; [intros []|intros [=]]; subst; auto. Qed.
Lemma coord_eqb_refl a : coord_eqb a a = true.
Proof. apply coord_eqb_eq; auto. Qed.
Lemma coord_eqb_neq a b : coord_eqb a b = false <-> a <> b.
Proof. rewrite <- coord_eqb_eq. destruct (coord_eqb a b); split; congruence. Qed.

Definition keys (l : nmap) : list coord := map fst l.

Lemma lookup_Some_In c nd l : lookup c l = Some nd -> In (c, nd) l.
Proof.
  induction l as [|[k v] t IH]; cbn; [discriminate|].
  destruct (coord_eqb k c) eqn:E; intros H.
  - apply coord_eqb_eq in E. inversion H; subst; auto.
  - auto.
Qed.
Lemma lookup_None_notin c l : lookup c l = None -> ~ In c (keys l).
Proof.
  induction l as [|[k v] t IH]; cbn; auto.
  destruct (coord_eqb k c) eqn:E; [discriminate|]. apply coord_eqb_neq in E. intros H [?|?]; [congruence|]. apply IH; auto.
Qed.
Lemma lookup_notin_None c l : ~ In c (keys l) -> lookup c l = None.
Proof.
  induction l as [|[k v] t IH]; cbn; auto. intros H.
  destruct (coord_eqb k c) eqn:E; [apply coord_eqb_eq in E; tauto|]. apply IH; tauto.
Qed.
Lemma In_lookup c nd l : NoDup (keys l) -> In (c, nd) l -> lookup c l = Some nd.
Proof.
  induction l as [|[k v] t IH]; cbn; [tauto|]. intros ND [H|H].
  - inversion H; subst. rewrite coord_eqb_refl. auto.
  - inversion ND; subst. destruct (coord_eqb k c) eqn:E.
    + apply coord_eqb_eq in E; subst. exfalso. apply H2. change c with (fst (c, nd)). apply in_map; auto.
    + auto.
Qed.

Lemma keys_modify c f l : keys (modify c f l) = keys l.
Proof. unfold keys, modify. rewrite map_map. apply map_ext. intros [k v]; cbn. destruct (coord_eqb k c); auto. Qed.
Lemma length_modify c f l : length (modify c f l) = length l.
Proof. unfold modify. apply map_length. Qed.

Lemma In_remove kv c l : In kv (remove c l) <-> In kv l /\ fst kv <> c.
Proof. unfold remove. rewrite filter_In, negb_true_iff, coord_eqb_neq. tauto. Qed.
Lemma keys_remove_incl c l k : In k (keys (remove c l)) -> In k (keys l) /\ k <> c.
Proof. unfold keys. rewrite !in_map_iff. intros [kv [<- H]]. apply In_remove in H. split; [exists kv|]; tauto. Qed.
Lemma NoDup_keys_remove c l : NoDup (keys l) -> NoDup (keys (remove c l)).
Proof.
  induction l as [|[k v] t IH]; cbn; auto. intros ND. inversion ND; subst.
  destruct (coord_eqb k c); cbn; auto. constructor; auto. intros H. apply keys_remove_incl in H. tauto.
Qed.
Lemma remove_notin c l : ~ In c (keys l) -> remove c l = l.
Proof.
  induction l as [|[k v] t IH]; cbn; auto. intros H.
  destruct (coord_eqb k c) eqn:E; cbn. { apply coord_eqb_eq in E. tauto. } f_equal. apply IH. tauto.
Qed.
Lemma length_remove_le c l : (length (remove c l) <= length l)%nat.
Proof. unfold remove. induction l as [|a t IH]; cbn; [lia|]. destruct (negb (coord_eqb (fst a) c)); cbn; lia. Qed.
Lemma length_remove_ge c l : NoDup (keys l) -> (length l <= S (length (remove c l)))%nat.
Proof.
  induction l as [|[k v] t IH]; cbn; [lia|]. intros ND. inversion ND; subst.
  destruct (coord_eqb k c) eqn:E; cbn.
  - apply coord_eqb_eq in E; subst. fold (remove c t). rewrite remove_notin; auto.
  - fold (remove c t). specialize (IH H2). lia.
Qed.
Lemma length_remove_in c l : NoDup (keys l) -> In c (keys l) -> length l = S (length (remove c l)).
Proof.
  induction l as [|[k v] t IH]; cbn; [tauto|]. intros ND H. inversion ND; subst.
  destruct (coord_eqb k c) eqn:E; cbn.
  - apply coord_eqb_eq in E; subst. fold (remove c t). rewrite remove_notin; auto.
  - fold (remove c t). apply coord_eqb_neq in E. destruct H; [congruence|]. rewrite (IH H3 H); auto.
Qed.

Lemma NoDup_keys_insert c nd l : NoDup (keys l) -> NoDup (keys (insert c nd l)).
Proof.
  intros ND. unfold insert. cbn. constructor; [|apply NoDup_keys_remove; auto].
  intros H. apply keys_remove_incl in H. tauto.
Qed.
Lemma length_insert_ge c nd l : NoDup (keys l) -> (length l <= length (insert c nd l))%nat.
Proof. intros ND. unfold insert; cbn. apply length_remove_ge; auto. Qed.
Lemma keys_insert_incl c nd l k : In k (keys l) -> In k (keys (insert c nd l)).
Proof.
  intros H. unfold insert; cbn. destruct (coord_eqb k c) eqn:E.
  - apply coord_eqb_eq in E; auto.
  - right. apply coord_eqb_neq in E. unfold keys in *. apply in_map_iff in H as [kv [<- H]].
    apply in_map. apply In_remove. auto.
Qed.

(* ---------- the invariant ---------- *)
Definition node_ok (d cap : nat) (kv : coord * node) : Prop :=
  n_c (snd kv) = fst kv /\ n_dim (snd kv) = d /\ n_cap (snd kv) = cap /\ (length (n_st (snd kv)) <= cap)%nat.
Definition WFm (d cap : nat) (l : nmap) : Prop := NoDup (keys l) /\ Forall (node_ok d cap) l.
(* well-formed network: unique keys, key = node.coordinate, weights of the network dimension, storage within capacity *)
Definition WF (n : net) : Prop := WFm (dim n) (fcap n) (nodes n).

Definition keeps (f : node -> node) : Prop :=
  forall nd, n_c (f nd) = n_c nd /\ n_dim (f nd) = n_dim nd /\ n_cap (f nd) = n_cap nd /\
             ((length (n_st nd) <= n_cap nd)%nat -> (length (n_st (f nd)) <= n_cap nd)%nat).
Lemma keeps_hit : keeps hit. Proof. intros nd; cbn; auto. Qed.
Lemma keeps_clear : keeps clear. Proof. intros nd; cbn. repeat split; auto. lia. Qed.
Lemma keeps_store x : keeps (store x). Proof. intros nd; cbn. repeat split; auto. intros _. apply st_add_cap. Qed.

Lemma WFm_modify d cap c f l : keeps f -> WFm d cap l -> WFm d cap (modify c f l).
Proof.
  intros K [ND F]. split; [rewrite keys_modify; auto|].
  unfold modify. apply Forall_map. eapply Forall_impl; [|exact F].
  intros [k v] (A & B & C & D); cbn in *. destruct (coord_eqb k c); unfold node_ok; cbn; [|repeat split; auto].
  destruct (K v) as (A' & B' & C' & D'). repeat split; try congruence. rewrite <- C. apply D'. lia.
Qed.
Lemma WFm_map_vals d cap f l : keeps f -> WFm d cap l -> WFm d cap (map (fun kv => (fst kv, f (snd kv))) l).
Proof.
  intros K [ND F]. split.
  - unfold keys. rewrite map_map. cbn. exact ND.
  - apply Forall_map. eapply Forall_impl; [|exact F]. intros [k v] (A & B & C & D); unfold node_ok; cbn in *.
    destruct (K v) as (A' & B' & C' & D'). repeat split; try congruence. rewrite <- C. apply D'. lia.
Qed.
Lemma WFm_remove d cap c l : WFm d cap l -> WFm d cap (remove c l).
Proof.
  intros [ND F]. split; [apply NoDup_keys_remove; auto|].
  apply Forall_forall. intros kv H. apply In_remove in H. rewrite Forall_forall in F. apply F; tauto.
Qed.
Lemma WFm_insert d cap c nd l : node_ok d cap (c, nd) -> WFm d cap l -> WFm d cap (insert c nd l).
Proof.
  intros OK W. split; [apply NoDup_keys_insert; apply W|].
  unfold insert. constructor; auto. apply (WFm_remove d cap c l W).
Qed.
Lemma WFm_lookup d cap c nd l : WFm d cap l -> lookup c l = Some nd -> node_ok d cap (c, nd).
Proof. intros [_ F] H. apply lookup_Some_In in H. rewrite Forall_forall in F. apply F; auto. Qed.

(* lookup by coordinate finds exactly the node filed under it *)
Lemma find_exact d cap l c nd : WFm d cap l -> (lookup c l = Some nd <-> In (c, nd) l).
Proof. intros [ND _]. split; [apply lookup_Some_In|apply In_lookup; auto]. Qed.

(* ---------- growth and update ---------- *)
(* n' extends n: same dimension and factory capacity, no key lost, not smaller *)
Definition ext (n n' : net) : Prop :=
  dim n' = dim n /\ fcap n' = fcap n /\ (forall k, In k (keys (nodes n)) -> In k (keys (nodes n'))) /\ (size n <= size n')%nat.
Lemma ext_refl n : ext n n.
Proof. repeat split; auto. Qed.
Lemma ext_trans a b c : ext a b -> ext b c -> ext a c.
Proof. intros (A1 & A2 & A3 & A4) (B1 & B2 & B3 & B4). repeat split; try congruence; auto. lia. Qed.

Lemma grow_dims n c news : WF n -> grow_nodes n c = Ok news -> Forall (fun cw => snd cw = dim n) news.
Proof.
  intros W. unfold grow_nodes. destruct (lookup c (nodes n)) as [nd|] eqn:L; [|discriminate].
  intros H; inversion H; subst; clear H. apply Forall_map. apply Forall_forall. intros o _. cbn.
  pose proof (WFm_lookup _ _ _ _ _ W L) as (_ & Dnd & _). cbn in Dnd.
  set (P := fun o : option node => forall m, o = Some m -> n_dim m = dim n).
  assert (PL : forall q, P (lookup q (nodes n))).
  { intros q m Hm. apply (WFm_lookup _ _ _ _ _ W) in Hm. apply Hm. }
  assert (PO : forall a b, P a -> P b -> P (orelse a b)).
  { intros a b Pa Pb. destruct a; cbn; auto. }
  match goal with |- match ?w with _ => _ end = _ => assert (Pw : P w) end.
  { destruct (Z.abs (fst o) =? 1); repeat apply PO; apply PL. }
  match goal with |- match ?w with _ => _ end = _ => destruct w as [m|] end; auto.
  rewrite (Pw m eq_refl), Dnd. apply Nat.min_id.
Qed.

Lemma with_nodes_nodes n l : nodes (with_nodes n l) = l. Proof. reflexivity. Qed.

Lemma update_spec n bmu e x is_new n' : WF n -> update n bmu e x is_new = Ok n' ->
  WF n' /\ ext n n' /\ (is_new = false -> keys (nodes n') = keys (nodes n)).
Proof.
  intros W. unfold update.
  destruct (lookup bmu (nodes n)) as [nd0|] eqn:L0; [|discriminate].
  set (n1 := with_nodes n (if is_new then modify bmu hit (nodes n) else nodes n)).
  assert (W1 : WF n1). { unfold WF, n1; cbn. destruct is_new; auto. apply WFm_modify; auto. apply keeps_hit. }
  assert (E1 : ext n n1 /\ keys (nodes n1) = keys (nodes n)).
  { unfold ext, n1, size; cbn. destruct is_new; rewrite ?keys_modify, ?length_modify; repeat split; auto. }
  destruct E1 as [E1 K1].
  destruct (lookup bmu (nodes n1)) as [nd|] eqn:L1; [|discriminate].
  match goal with |- bind ?b _ = _ -> _ => destruct b as [n2|] eqn:B; [|discriminate] end.
  cbn [bind]. destruct (lookup bmu (nodes n2)) as [nd2|] eqn:L2; [|discriminate].
  intros H; inversion H; subst n'; clear H.
  assert (S2 : WF n2 /\ ext n1 n2 /\ (is_new = false -> n2 = n1)).
  { destruct (e && (is_boundary (nodes n1) nd && is_new)) eqn:G.
    - apply andb_true_iff in G as [_ G]. apply andb_true_iff in G as [_ G]. subst is_new.
      destruct (grow_nodes n1 bmu) as [news|] eqn:GN; [|discriminate]. cbn [bind] in B.
      pose proof (grow_dims _ _ _ W1 GN) as DN. rewrite Forall_forall in DN.
      assert (R : WF n2 /\ ext n1 n2); [|split; [apply R|split; [apply R|discriminate]]].
      revert B. apply (fold_bind_inv _ (fun m => WF m /\ ext n1 m)); [|split; auto using ext_refl].
      intros m cw m' Hin [Wm Em]. destruct (adjust_ok _ _ _ _); [|discriminate]. cbn [bind].
      intros H; inversion H; subst m'; clear H. destruct Em as (D1 & D2 & D3 & D4). split.
      + unfold WF; cbn. apply WFm_insert; auto. unfold node_ok; cbn. repeat split; auto; try lia. rewrite D1. apply DN; auto.
      + unfold ext, size; cbn [dim fcap nodes with_nodes]. repeat split; auto.
        * intros k Hk. apply (keys_insert_incl (fst cw) (new_node m (fst cw) (snd cw))); auto.
        * pose proof (length_insert_ge (fst cw) (new_node m (fst cw) (snd cw)) (nodes m) (proj1 Wm)). unfold size in D4. lia.
    - destruct e.
      + inversion B; subst. auto using ext_refl.
      + destruct (adjust_ok _ _ _ _); [|discriminate]. inversion B; subst. auto using ext_refl. }
  destruct S2 as (W2 & E2 & Q2). split; [|split].
  - unfold WF; cbn. apply WFm_modify; auto. apply keeps_store.
  - apply (ext_trans _ n1); auto. apply (ext_trans _ n2); auto.
    unfold ext, size; cbn. rewrite keys_modify, length_modify. repeat split; auto.
  - intros F. cbn. rewrite keys_modify. rewrite (Q2 F). exact K1.
Qed.

Definition step_ok (n n' : net) (samek : bool) : Prop :=
  WF n' /\ ext n n' /\ (samek = true -> keys (nodes n') = keys (nodes n)).
Lemma step_ok_trans a b c s : step_ok a b s -> step_ok b c s -> step_ok a c s.
Proof. intros (A1 & A2 & A3) (B1 & B2 & B3). split; [auto|split]. { eapply ext_trans; eauto. } intros S. rewrite B3, A3; auto. Qed.
Lemma step_ok_refl n s : WF n -> step_ok n n s.
Proof. intros W. split; [auto|split]; auto using ext_refl. Qed.

Lemma train_spec n data is_new n' : WF n -> train_on_data n data is_new = Ok n' -> step_ok n n' (negb is_new).
Proof.
  intros W. unfold train_on_data.
  apply (fold_bind_inv _ (fun m => step_ok n m (negb is_new))); [|apply step_ok_refl; auto].
  intros m o m' _ S U. destruct S as (Wm & Em & Km).
  apply update_spec in U as (W' & E' & K'); auto. split; [auto|split]. { eapply ext_trans; eauto. }
  intros S. rewrite K', Km; auto. destruct is_new; auto; discriminate.
Qed.

Lemma store_batch_spec n data n' : WF n -> store_batch n data = Ok n' -> step_ok n n' false.
Proof. intros W. unfold store_batch. match goal with |- (if ?b then _ else _) = _ -> _ => destruct b end; [|discriminate]. apply train_spec; auto. Qed.

Lemma drain_all_spec n : WF n -> WF (with_nodes n (snd (drain_all (nodes n)))) /\ keys (snd (drain_all (nodes n))) = keys (nodes n)
  /\ length (snd (drain_all (nodes n))) = size n.
Proof.
  intros W. cbn. split; [|split].
  - unfold WF; cbn. apply WFm_map_vals; auto. apply keeps_clear.
  - unfold keys. rewrite map_map. reflexivity.
  - apply map_length.
Qed.

Lemma retrain_round_spec n g os n' : WF n -> retrain_round n g os = Ok n' -> step_ok n n' (negb g).
Proof.
  intros W. unfold retrain_round. destruct (drain_all (nodes n)) as [pool l'] eqn:D.
  destruct (resolve pool os) as [sv|]; [|discriminate]. destruct (survivors_ok pool sv); [|discriminate].
  intros T. pose proof (drain_all_spec n W) as (W1 & K1 & L1). rewrite D in *; cbn [snd] in *.
  apply train_spec in T as (W' & E' & K'); auto. split; [auto|split].
  - eapply ext_trans; [|exact E']. unfold ext, size; cbn [dim fcap nodes with_nodes]. rewrite K1, L1. repeat split; auto.
  - intros S. rewrite (K' S). exact K1.
Qed.

Lemma retrain_spec n g rounds n' : WF n -> retrain n g rounds = Ok n' -> step_ok n n' (negb g).
Proof.
  intros W. unfold retrain.
  apply (fold_bind_inv _ (fun m => step_ok n m (negb g))); [|apply step_ok_refl; auto].
  intros m o m' _ S U. eapply step_ok_trans; eauto. apply (retrain_round_spec _ _ o); auto. apply S.
Qed.

Lemma smooth_spec n rounds n' : WF n -> smooth n rounds = Ok n' -> step_ok n n' true.
Proof. apply retrain_spec. Qed.

(* ---------- contraction ---------- *)
Lemma keys_remove_iff c l k : In k (keys (remove c l)) <-> In k (keys l) /\ k <> c.
Proof.
  split; [apply keys_remove_incl|]. intros [H N]. unfold keys in *. apply in_map_iff in H as [kv [<- H]].
  apply in_map. apply In_remove. auto.
Qed.

Lemma remove_all_spec d cap removed : forall st st',
  WFm d cap (snd st) -> NoDup removed -> (forall c, In c removed -> In c (keys (snd st))) ->
  fold_left (fun acc c => bind acc (fun st => match lookup c (snd st) with
                                              | None => Panic 6
                                              | Some nd => Ok (fst st ++ n_st nd, remove c (snd st))
                                              end)) removed (Ok st) = Ok st' ->
  WFm d cap (snd st') /\ (length (snd st') + length removed = length (snd st))%nat /\
  (forall k, In k (keys (snd st')) <-> In k (keys (snd st)) /\ ~ In k removed).
Proof.
  induction removed as [|c t IH]; intros st st' W ND IN; cbn [fold_left bind].
  - intros H; inversion H; subst. split; [auto|]. split; [cbn; lia|]. intros k. cbn. tauto.
  - destruct (lookup c (snd st)) as [nd|] eqn:L; [|rewrite fold_bind_panic; discriminate].
    intros H. inversion ND; subst. apply IH in H; cbn [snd] in *; auto.
    + destruct H as (W' & LEN & KS). split; auto. split.
      * rewrite (length_remove_in c (snd st)); [cbn; lia|apply W|apply IN; cbn; auto].
      * intros k. rewrite KS, keys_remove_iff. cbn. split; [intros [[A B] C]|intros [A C]]; repeat split; auto; try tauto.
        intros [E|E]; [congruence|tauto].
    + apply WFm_remove; auto.
    + intros k Hk. apply keys_remove_iff. split; [apply IN; cbn; auto|]. intros E; subst. tauto.
Qed.

Definition remap_entry (f : coord -> coord) (kv : coord * node) : coord * node := (f (fst kv), move (f (fst kv)) (snd kv)).

Lemma remap_wf d cap f l : forall acc, WFm d cap acc -> Forall (node_ok d cap) l ->
  WFm d cap (fold_left (fun acc kv => let nd := move (f (fst kv)) (snd kv) in insert (n_c nd) nd acc) l acc).
Proof.
  induction l as [|[k v] t IH]; intros acc W F; cbn [fold_left]; auto.
  inversion F; subst. apply IH; auto. cbn. apply WFm_insert; auto.
  destruct H1 as (A & B & C & D). cbn in *. repeat split; auto.
Qed.

Lemma remap_fresh f l : forall acc, NoDup (map f (keys l)) -> (forall k, In k (keys l) -> ~ In (f k) (keys acc)) ->
  fold_left (fun acc kv => let nd := move (f (fst kv)) (snd kv) in insert (n_c nd) nd acc) l acc = rev (map (remap_entry f) l) ++ acc.
Proof.
  induction l as [|[k v] t IH]; intros acc ND FR; cbn [fold_left]; auto.
  cbn in ND. inversion ND; subst. cbn [n_c move fst snd]. unfold insert. rewrite remove_notin by (apply FR; cbn; auto).
  rewrite IH; auto.
  - cbn [map rev]. rewrite <- app_assoc. reflexivity.
  - intros k' Hk'. cbn. intros [E|E].
    + apply H1. rewrite E. apply in_map. exact Hk'.
    + revert E. apply FR. cbn; auto.
Qed.

Lemma NoDup_map_inj_on {A B} (f : A -> B) l : NoDup l -> (forall a b, In a l -> In b l -> f a = f b -> a = b) -> NoDup (map f l).
Proof.
  induction l as [|x t IH]; cbn; intros ND INJ; [constructor|]. inversion ND; subst. constructor.
  - intros H. apply in_map_iff in H as [y [E Hy]]. assert (y = x) by (apply INJ; auto). subst. tauto.
  - apply IH; auto.
Qed.

Lemma decims_34 sh xd yd : decims sh 3 4 = (xd, yd) -> (xd = 3 \/ xd = 4) /\ (yd = 3 \/ yd = 4).
Proof.
  destruct sh as [[x0 x1] [y0 y1]]. unfold decims.
  destruct (y1 - y0 <? x1 - x0); [|destruct (x1 - x0 <? y1 - y0)]; intros [= <- <-]; auto.
Qed.

Lemma remap_coord_inj sh xd yd a b : (xd = 3 \/ xd = 4) -> (yd = 3 \/ yd = 4) ->
  decimated xd yd a = false -> decimated xd yd b = false -> remap_coord sh xd yd a = remap_coord sh xd yd b -> a = b.
Proof.
  intros Hx Hy Da Db. unfold decimated in *. apply orb_false_iff in Da as [Da1 Da2]. apply orb_false_iff in Db as [Db1 Db2].
  apply Z.eqb_neq in Da1, Da2, Db1, Db2. unfold remap_coord. intros [= E1 E2].
  apply shift_inj in E1; auto. apply shift_inj in E2; auto. destruct a, b; cbn in *; congruence.
Qed.

Lemma node_coords_keys d cap l : WFm d cap l -> map (fun kv => n_c (snd kv)) l = keys l.
Proof. intros [_ F]. unfold keys. apply map_ext_in. intros kv H. rewrite Forall_forall in F. apply (F kv H). Qed.

(* what Network::compact does to a well-formed network *)
Definition cdec (n : net) : Z * Z := decims (shape (nodes n)) 3 4.
Definition kept (n : net) (c : coord) : bool := negb (decimated (fst (cdec n)) (snd (cdec n)) c).
Definition cmap (n : net) (c : coord) : coord := remap_coord (shape (nodes n)) (fst (cdec n)) (snd (cdec n)) c.

Lemma compact_spec n os n' : WF n -> compact n os = Ok n' ->
  WF n' /\ dim n' = dim n /\ fcap n' = fcap n /\
  (n' = n \/
   ((4 <= size n')%nat /\
    (size n' + length (filter (fun c => negb (kept n c)) (keys (nodes n))) = size n)%nat /\
    (forall c', In c' (keys (nodes n')) <-> exists c, In c (keys (nodes n)) /\ kept n c = true /\ c' = cmap n c))).
Proof.
  intros W. unfold compact, contract_graph, kept, cmap, cdec.
  set (sh := shape (nodes n)). destruct (decims sh 3 4) as [xd yd] eqn:DE. cbn [fst snd].
  apply decims_34 in DE as [Hx Hy].
  rewrite (node_coords_keys _ _ _ W).
  set (removed := filter (decimated xd yd) (keys (nodes n))).
  assert (RM : filter (fun c => negb (negb (decimated xd yd c))) (keys (nodes n)) = removed).
  { unfold removed. apply filter_ext. intros c. apply negb_involutive. }
  rewrite RM.
  destruct (size n - length removed <? 4)%nat eqn:G.
  { destruct os; [|discriminate]. intros [= <-]. auto. }
  apply Nat.ltb_ge in G.
  unfold remove_all. destruct (fold_left _ removed (Ok ([], nodes n))) as [st|] eqn:RA; [|discriminate]. cbn [bind].
  apply (remove_all_spec (dim n) (fcap n)) in RA; cbn [snd]; auto.
  2:{ unfold removed. apply NoDup_filter. apply W. }
  2:{ intros c Hc. unfold removed in Hc. apply filter_In in Hc. tauto. }
  destruct RA as (W1 & LEN & KS). cbn [snd] in LEN, KS.
  destruct (resolve (fst st) os) as [sv|]; [|discriminate]. destruct (perm_ok (fst st) sv); [|discriminate].
  intros T.
  assert (NK : forall k, In k (keys (snd st)) -> decimated xd yd k = false).
  { intros k Hk. apply KS in Hk as [A B]. destruct (decimated xd yd k) eqn:D; auto. exfalso. apply B. unfold removed. apply filter_In. auto. }
  assert (NDf : NoDup (map (remap_coord sh xd yd) (keys (snd st)))).
  { apply NoDup_map_inj_on; [apply W1|]. intros a b Ha Hb. apply remap_coord_inj; auto. }
  assert (RE : remap (remap_coord sh xd yd) (snd st) = rev (map (remap_entry (remap_coord sh xd yd)) (snd st)) ++ []).
  { unfold remap. apply remap_fresh; auto. }
  rewrite app_nil_r in RE.
  assert (W2 : WFm (dim n) (fcap n) (remap (remap_coord sh xd yd) (snd st))).
  { unfold remap. apply remap_wf; [split; constructor|apply W1]. }
  apply train_spec in T; [|exact W2]. destruct T as (W' & (E1 & E2 & E3 & E4) & K'). cbn [negb] in K'. specialize (K' eq_refl).
  cbn [dim fcap nodes with_nodes] in *.
  split; [exact W'|]. split; [exact E1|]. split; [exact E2|]. right.
  assert (SZ : size n' = length (snd st)).
  { unfold size. rewrite <- (map_length fst (nodes n')). fold (keys (nodes n')). rewrite K'. unfold keys. rewrite map_length, RE, rev_length, map_length. reflexivity. }
  unfold size in *. split; [lia|]. split; [lia|].
  intros c'. rewrite K', RE. unfold keys at 1. rewrite map_rev, <- in_rev, map_map. cbn [remap_entry fst].
  rewrite in_map_iff. split.
  - intros [kv [<- Hkv]]. exists (fst kv). assert (Hk : In (fst kv) (keys (snd st))) by (apply in_map; auto).
    split; [apply KS in Hk; tauto|]. split; auto. rewrite (NK _ Hk). reflexivity.
  - intros [c [Hc [Kc ->]]]. apply negb_true_iff in Kc.
    assert (Hk : In c (keys (snd st))).
    { apply KS. split; auto. unfold removed. rewrite filter_In. intros [_ D]. congruence. }
    unfold keys in Hk. apply in_map_iff in Hk as [kv [<- Hkv]]. exists kv. auto.
Qed.

(* ---------- Network::new ---------- *)
Lemma sample_size_ge4 len : (4 <= sample_size len)%nat.
Proof. unfold sample_size. lia. Qed.
Lemma grid_size_pos k : (1 <= k)%nat -> grid_size k <> 0%nat.
Proof.
  intros K. unfold grid_size. destruct (Nat.sqrt k * Nat.sqrt k =? k)%nat eqn:E; [|discriminate].
  apply Nat.eqb_eq in E. destruct (Nat.sqrt k); cbn in E; lia.
Qed.
Lemma grid_coord_inj g i j : g <> 0%nat -> grid_coord g i = grid_coord g j -> i = j.
Proof.
  intros G. unfold grid_coord. intros [= A B]. apply Nat2Z.inj in A, B.
  rewrite (Nat.div_mod i g G), (Nat.div_mod j g G). congruence.
Qed.

Lemma initial_nodes_wf len d : WFm d len (initial_nodes len d) /\ length (initial_nodes len d) = sample_size len.
Proof.
  unfold initial_nodes. set (s := sample_size len). set (g := grid_size s).
  assert (G : g <> 0%nat). { apply grid_size_pos. pose proof (sample_size_ge4 len). fold s in H. lia. }
  split; [split|].
  - unfold keys. rewrite map_map. cbn [fst]. apply NoDup_map_inj_on; [apply seq_NoDup|].
    intros a b _ _. apply grid_coord_inj; auto.
  - apply Forall_map. apply Forall_forall. intros i _. unfold node_ok; cbn. repeat split; auto. lia.
  - rewrite map_length, seq_length. reflexivity.
Qed.

Lemma resize_all_wf d cap k l : WFm d cap l -> WFm d k (map (fun kv => (fst kv, resize k (snd kv))) l).
Proof.
  intros [ND F]. split.
  - unfold keys. rewrite map_map. exact ND.
  - apply Forall_map. eapply Forall_impl; [|exact F]. intros [c v] (A & B & C & D). unfold node_ok; cbn in *.
    repeat split; auto. rewrite firstn_length. lia.
Qed.

Lemma network_new_spec cfg data assign rounds n : network_new cfg data assign rounds = Created n ->
  WF n /\ (4 <= size n)%nat /\ fcap n = node_size cfg /\ dim n = length (it_w (hd (mkI 0 0 0 []) data)).
Proof.
  unfold network_new. destruct data as [|x0 rest]; [discriminate|].
  set (data := x0 :: rest). set (d := length (it_w x0)). set (len := length data).
  destruct (negb (forallb _ data)); [discriminate|].
  destruct (len <? sample_size len)%nat; [discriminate|].
  destruct (negb (zl_eqb _ _)); [discriminate|].
  destruct (resolve data assign) as [asg|]; [|discriminate].
  match goal with |- match ?f with _ => _ end = _ -> _ => destruct f as [l1|] eqn:A; [|discriminate] end.
  destruct (negb _); [discriminate|].
  destruct (retrain _ true rounds) as [n2|] eqn:R; [|discriminate].
  intros [= <-].
  pose proof (initial_nodes_wf len d) as [W0 L0].
  assert (P1 : WFm d len l1 /\ length l1 = sample_size len).
  { revert A. apply (fold_bind_inv _ (fun l => WFm d len l /\ length l = sample_size len)); [|cbn; auto].
    intros l o l' _ [Wl Ll]. destruct (lookup _ l); [|discriminate]. intros [= <-]. split.
    - apply WFm_modify; auto. apply keeps_store.
    - rewrite length_modify. auto. }
  destruct P1 as [W1 L1].
  apply retrain_spec in R; [|exact W1]. destruct R as (W2 & (E1 & E2 & _ & E4) & _).
  cbn [dim fcap nodes with_nodes] in *. unfold size in *; cbn [nodes with_nodes] in *.
  split; [|split; [|split]].
  - unfold WF; cbn. apply (resize_all_wf _ (fcap n2)). exact W2.
  - cbn. rewrite map_length. pose proof (sample_size_ge4 len). lia.
  - reflexivity.
  - cbn. exact E1.
Qed.

(* ---------- histories ---------- *)
Definition good (n : net) : Prop := WF n /\ (4 <= size n)%nat.
Lemma step_good n o n' : good n -> step n o = Ok n' -> good n' /\ dim n' = dim n /\ fcap n' = fcap n.
Proof.
  intros [W S]. destruct o; cbn [step]; intros H.
  - apply store_batch_spec in H as (W' & (A & B & _ & D) & _); auto. repeat split; auto; try apply W'. lia.
  - apply smooth_spec in H as (W' & (A & B & _ & D) & _); auto. repeat split; auto; try apply W'. lia.
  - apply compact_spec in H as (W' & A & B & [->|(D & _)]); auto; repeat split; auto; apply W'.
Qed.
Lemma run_good n ops n' : good n -> run n ops = Ok n' -> good n' /\ dim n' = dim n /\ fcap n' = fcap n.
Proof.
  intros G. unfold run. apply (fold_bind_inv _ (fun m => good m /\ dim m = dim n /\ fcap m = fcap n)); auto.
  intros m o m' _ (Gm & A & B) H. apply step_good in H as (G' & A' & B'); auto. repeat split; try apply G'; congruence.
Qed.

(* ---------- Rosomaxa phases and elite ---------- *)
Definition ro_inv (s : rosomaxa) : Prop := (length (ro_elite s) <= r_elite (ro_cfg s))%nat.
Lemma elite_add_all_cap dd cap l xs : (length l <= cap)%nat -> (length (elite_add_all dd cap l xs) <= cap)%nat.
Proof. intros H. unfold elite_add_all. destruct xs; auto. rewrite firstn_length. lia. Qed.
Lemma rstep_forward dd s o s' : rstep dd s o = Ok s' ->
  (phase_rank (ro_phase s) <= phase_rank (ro_phase s'))%nat /\ ro_cfg s' = ro_cfg s /\ (ro_inv s -> ro_inv s').
Proof.
  destruct o as [xs|t er]; cbn [rstep].
  - intros [= <-]. unfold ro_add_all, ro_inv; cbn. repeat split; auto.
    + destruct (ro_phase s); cbn; lia.
    + apply elite_add_all_cap.
  - unfold ro_on_generation. destruct (ro_phase s) eqn:P.
    + destruct (er <? t); [intros [= <-]; cbn; repeat split; auto; lia|].
      destruct (r_initial (ro_cfg s) <=? known)%nat; [|intros [= <-]; rewrite P; cbn; auto].
      destruct (known <? sample_size known)%nat; [discriminate|]. intros [= <-]; cbn; repeat split; auto; lia.
    + destruct (t <? er); intros [= <-]; [rewrite P|]; cbn; auto.
    + intros [= <-]. rewrite P. auto.
Qed.
Lemma rrun_forward dd s ops s' : rrun dd s ops = Ok s' ->
  (phase_rank (ro_phase s) <= phase_rank (ro_phase s'))%nat /\ ro_cfg s' = ro_cfg s /\ (ro_inv s -> ro_inv s').
Proof.
  unfold rrun. apply (fold_bind_inv _ (fun m => (phase_rank (ro_phase s) <= phase_rank (ro_phase m))%nat /\ ro_cfg m = ro_cfg s /\ (ro_inv s -> ro_inv m))); auto.
  intros m o m' _ (A & B & C) H. apply rstep_forward in H as (A' & B' & C'). repeat split; auto; try lia; congruence.
Qed.
Lemma rrun_app dd s a b : rrun dd s (a ++ b) = bind (rrun dd s a) (fun m => rrun dd m b).
Proof.
  unfold rrun. rewrite fold_left_app. destruct (fold_left _ a (Ok s)); cbn; auto. apply fold_bind_panic.
Qed.

(* ---------- decidable well-formedness of concrete maps (for witnesses) ---------- *)
Lemma nodupb_NoDup (l : list coord) : nodupb coord_eqb l = true -> NoDup l.
Proof.
  induction l as [|x t IH]; cbn; [constructor|]. rewrite andb_true_iff, negb_true_iff. intros [A B]. constructor; auto.
  intros H. assert (existsb (coord_eqb x) t = true); [|congruence]. apply existsb_exists. exists x. split; auto. apply coord_eqb_refl.
Qed.
Definition node_okb (d cap : nat) (kv : coord * node) : bool :=
  coord_eqb (n_c (snd kv)) (fst kv) && (n_dim (snd kv) =? d)%nat && (n_cap (snd kv) =? cap)%nat && (length (n_st (snd kv)) <=? cap)%nat.
Definition wfb (n : net) : bool := nodupb coord_eqb (keys (nodes n)) && forallb (node_okb (dim n) (fcap n)) (nodes n).
Lemma wfb_WF n : wfb n = true -> WF n.
Proof.
  unfold wfb, WF, WFm. rewrite andb_true_iff, forallb_forall, Forall_forall. intros [A B]. split; [apply nodupb_NoDup; auto|].
  intros kv H. specialize (B kv H). unfold node_okb in B. rewrite !andb_true_iff, coord_eqb_eq, !Nat.eqb_eq, Nat.leb_le in B.
  unfold node_ok. tauto.
Qed.

(* ---------- statements in terms of the specification predicate `wellformed` ---------- *)
Lemma WF_wellformed n : WF n <-> wellformed n.
Proof.
  unfold WF, WFm, wellformed, keys. split; intros [ND F]; split; auto.
  - intros c nd H. rewrite Forall_forall in F. destruct (F _ H) as (A & B & C & D). cbn in *. repeat split; auto. lia.
  - apply Forall_forall. intros [c nd] H. destruct (F _ _ H) as (A & B & C & D). unfold node_ok; cbn. repeat split; auto. lia.
Qed.

Lemma wf_step n o n' : wellformed n -> step n o = Ok n' -> wellformed n' /\ dim n' = dim n /\ fcap n' = fcap n.
Proof.
  rewrite <- !WF_wellformed. intros W H. destruct o; cbn [step] in H.
  - apply store_batch_spec in H as (W' & (A & B & _) & _); auto.
  - apply smooth_spec in H as (W' & (A & B & _) & _); auto.
  - apply compact_spec in H as (W' & A & B & _); auto.
Qed.

Lemma wf_history cfg data assign rounds n ops n' :
  network_new cfg data assign rounds = Created n -> run n ops = Ok n' ->
  wellformed n' /\ (4 <= size n')%nat /\ fcap n' = node_size cfg /\ dim n' = length (it_w (hd (mkI 0 0 0 []) data)).
Proof.
  intros N R. apply network_new_spec in N as (W & S & C & D).
  apply run_good in R as ((W' & S') & A & B); [|split; auto]. rewrite <- WF_wellformed. repeat split; auto; try apply W'; congruence.
Qed.

Lemma wf_lookup n c nd : wellformed n ->
  (lookup c (nodes n) = Some nd <-> In (c, nd) (nodes n)) /\ (lookup c (nodes n) = Some nd -> n_c nd = c).
Proof.
  intros W. pose proof W as W0. apply WF_wellformed in W. split; [apply (find_exact _ _ _ _ _ W)|].
  intros H. apply lookup_Some_In in H. apply (proj2 W0) in H. tauto.
Qed.

Lemma wf_lookup_absent n c : lookup c (nodes n) = None <-> ~ In c (map fst (nodes n)).
Proof. split; [apply lookup_None_notin|apply lookup_notin_None]. Qed.

Lemma wf_store n data n' : wellformed n -> store_batch n data = Ok n' ->
  (forall c, In c (map fst (nodes n)) -> In c (map fst (nodes n'))) /\ (size n <= size n')%nat.
Proof. rewrite <- WF_wellformed. intros W H. apply store_batch_spec in H as (_ & (_ & _ & A & B) & _); auto. Qed.

Lemma wf_smooth n rounds n' : wellformed n -> smooth n rounds = Ok n' -> map fst (nodes n') = map fst (nodes n).
Proof. rewrite <- WF_wellformed. intros W H. apply smooth_spec in H as (_ & _ & K); auto. Qed.

Lemma wf_compact n os n' : wellformed n -> compact n os = Ok n' ->
  wellformed n' /\ (size n' <= size n)%nat /\ ((4 <= size n')%nat \/ n' = n) /\
  (n' = n \/
   ((size n' + length (filter (fun c => negb (compact_keeps n c)) (map fst (nodes n))) = size n)%nat /\
    (forall c', In c' (map fst (nodes n')) <-> exists c, In c (map fst (nodes n)) /\ compact_keeps n c = true /\ c' = compact_map n c))).
Proof.
  rewrite <- !WF_wellformed. intros W H. apply compact_spec in H as (W' & _ & _ & [->|(A & B & C)]); auto.
  split; auto. fold (keys (nodes n)) in *. unfold kept, cdec in B. unfold compact_keeps, compact_decims.
    split; [lia|]. split; [auto|]. right. split; [exact B|exact C].
Qed.

Lemma wf_compact_injective n a b : compact_keeps n a = true -> compact_keeps n b = true -> compact_map n a = compact_map n b -> a = b.
Proof.
  unfold compact_keeps, compact_map, compact_decims. destruct (decims (shape (nodes n)) 3 4) as [xd yd] eqn:DE.
  apply decims_34 in DE as [Hx Hy]. cbn [fst snd]. rewrite !negb_true_iff. intros A B. apply remap_coord_inj; auto.
Qed.

Lemma ro_history dd c ops1 ops2 s1 s2 :
  rrun dd (ro_new c) ops1 = Ok s1 -> rrun dd (ro_new c) (ops1 ++ ops2) = Ok s2 ->
  (phase_rank (ro_phase s1) <= phase_rank (ro_phase s2))%nat /\
  (length (ro_elite s1) <= r_elite c)%nat /\ (length (ro_elite s2) <= r_elite c)%nat.
Proof.
  intros H1 H2. rewrite rrun_app, H1 in H2. cbn [bind] in H2.
  apply rrun_forward in H1 as (_ & C1 & I1). apply rrun_forward in H2 as (P2 & C2 & I2).
  assert (I0 : ro_inv (ro_new c)) by (unfold ro_inv; cbn; lia).
  specialize (I1 I0). specialize (I2 I1). unfold ro_inv in *. rewrite C2, C1 in I2. rewrite C1 in I1. cbn in *. auto.
Qed.

(* witnesses *)
Definition grid5 : net := mkNet (map (fun c => (c, mkN c 1 0 2 [])) (list_prod (range 2) (range 2))) 1 2.
Lemma compact_witness : exists n n', wellformed n /\ compact n [] = Ok n' /\ (size n' < size n)%nat /\ size n' = 16%nat.
Proof.
  exists grid5. eexists. split; [apply WF_wellformed, wfb_WF; vm_compute; reflexivity|].
  split; [vm_compute; reflexivity|]. vm_compute. split; [lia|reflexivity].
Qed.
Definition w_data := [mkI 0 0 0 [0; 0]; mkI 1 1 1 [10; -10]; mkI 2 2 2 [20; -20]; mkI 3 3 3 [30; -30]].
Definition w_round : list oobs := [(0, (0, 0), false); (1, (1, 0), false); (2, (0, 1), false); (3, (1, 1), false)].
Lemma history_witness : exists n n',
  network_new (mkCfg 2) w_data w_round (repeat w_round 8) = Created n /\
  run n [OStore [(mkI 9 0 9 [5; 5], (0, 0), true)]; OCompact []] = Ok n' /\ size n = 4%nat /\ size n' = 6%nat.
Proof. eexists. eexists. split; [vm_compute; reflexivity|]. split; [vm_compute; reflexivity|]. vm_compute. auto. Qed.
Lemma phase_witness : exists s, rrun dedupf (ro_new (mkR 4 2 900)) [RAdd w_data; RGen 10 900; RGen 950 900] = Ok s /\ ro_phase s = PExploitation.
Proof. eexists. split; vm_compute; reflexivity. Qed.

(* the exact value of a neighbour's accumulated error exceeds f64::MAX after 1800 error distributions (df = 0.5, start 1/1024) *)
Lemma error_overflow_witness : exists k, let e := distribute_times k (1, 1024) 8 1 in f64_max_bound * snd e < fst e.
Proof. exists 1800%nat. vm_compute. reflexivity. Qed.

(* the code as it is (commit 7897eb0): variance and standard deviation of an empty slice are 0, the route-derived weights of a
   solution without routes are finite (all zero); the guard changes nothing on non-empty slices *)
Lemma empty_statistics_zero :
  f_variance [] = f_zero /\ f_stdev [] = f_zero /\
  forallb f_finite (f_route_less_features f_variance f_stdev) = true /\
  forallb f_is_zero (f_route_less_features f_variance f_stdev) = true /\
  (forall x l, f_variance (x :: l) = f_variance_prefix (x :: l)) /\ (forall x l, f_stdev (x :: l) = f_stdev_prefix (x :: l)).
Proof. repeat split; try (vm_compute; reflexivity); intros; reflexivity. Qed.

(* the pre-fix function: variance and standard deviation of an empty slice are NaN (0/0), so two of the route-derived weights of a
   solution without routes are not finite; on non-empty finite samples it is not NaN *)
Lemma empty_statistics_nan_prefix :
  PrimFloat.is_nan (f_variance_prefix []) = true /\ PrimFloat.is_nan (f_stdev_prefix []) = true /\
  forallb f_finite (f_route_less_features f_variance_prefix f_stdev_prefix) = false /\
  PrimFloat.is_nan (f_variance_prefix f_sample3) = false /\ PrimFloat.is_nan (f_stdev_prefix f_sample1) = false.
Proof. vm_compute. auto. Qed.
