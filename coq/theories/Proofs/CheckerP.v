(* Lemmas for C12, structural part: the model of the bundled checker (Model/Checker.v) against the reference semantics
   (Spec/Valid.v, Spec/Relations.v) and the breach operators (Spec/Mutations.v), rule group by rule group. *)
From VRP Require Import Base.Tac Model.Core Spec.Feasible Spec.Intervals Spec.Valid Proofs.ValidP Proofs.IntervalsP Spec.Relations
  Proofs.RelationsP Spec.Mutations Proofs.MutationsP Model.Checker.

(* ------------------------------------------------------------------ generic facts *)
Lemma try_each_ok {A} (f : A -> kres unit) l : try_each f l = KOk tt <-> forall x, In x l -> f x = KOk tt.
Proof.
  induction l as [|y r IH]; cbn [try_each].
  - split; [intros _ x []|reflexivity].
  - destruct (f y) as [[]|e] eqn:Hy.
    + rewrite IH. split; [intros H x [<-|Hx]; auto|intros H x Hx; apply H; right; exact Hx].
    + split; [discriminate|]. intros H. specialize (H y (or_introl eq_refl)). congruence.
Qed.

Lemma of_kres_ok x : of_kres x = ROk <-> x = KOk tt.
Proof. destruct x as [[]|e]; cbn; split; congruence. Qed.

Lemma combine_results_ok l : combine_results l = COk <-> forall r, In r l -> r = ROk.
Proof.
  induction l as [|r rest IH]; cbn [combine_results].
  - split; [intros _ r []|reflexivity].
  - destruct r as [|c|t].
    + rewrite IH. split; [intros H r [<-|Hr]; auto|intros H r Hr; apply H; right; exact Hr].
    + split; [destruct (combine_results rest); discriminate|]. intros H. specialize (H _ (or_introl eq_refl)). discriminate.
    + split; [discriminate|]. intros H. specialize (H _ (or_introl eq_refl)). discriminate.
Qed.

Lemma find_index_spec {A} (f : A -> bool) l : forall i, find_index f l = Some i -> find f l = nth_error l i.
Proof.
  induction l as [|x r IH]; intros i; cbn [find_index find]; [discriminate|].
  destruct (f x); [intros H; injection H as <-; reflexivity|].
  destruct (find_index f r) as [j|]; [|discriminate]. intros H. injection H as <-. cbn [nth_error]. apply IH. reflexivity.
Qed.

Lemma find_index_lt {A} (f : A -> bool) l : forall i, find_index f l = Some i -> (i < length l)%nat.
Proof.
  induction l as [|x r IH]; intros i; cbn [find_index length]; [discriminate|].
  destruct (f x); [intros H; injection H as <-; lia|].
  destruct (find_index f r) as [j|]; [|discriminate]. intros H. injection H as <-. specialize (IH j eq_refl). lia.
Qed.

(* `find` with a stronger predicate returns the same element when the element found by the weaker one satisfies it *)
Lemma find_stronger {A} (p q : A -> bool) l v :
  (forall x, p x = true -> q x = true) -> find q l = Some v -> p v = true -> find p l = Some v.
Proof.
  intros Hpq. induction l as [|x r IH]; cbn [find]; [discriminate|].
  destruct (q x) eqn:Hq.
  - intros H Hp. injection H as ->. rewrite Hp. reflexivity.
  - intros H Hp. destruct (p x) eqn:Hpx; [rewrite (Hpq x Hpx) in Hq; discriminate|]. apply IH; assumption.
Qed.

(* ------------------------------------------------------------------ the context fragment *)
Lemma tour_ctx_spec P t : tour_ctx_ok P t = true ->
  exists vt sh, get_vehicle P (to_vehicle t) = KOk vt /\ get_vehicle_shift P t = KOk sh /\ shift_of P t = Some (vt, sh)
                /\ vt_id vt = to_type t /\ to_stops t <> [].
Proof.
  unfold tour_ctx_ok. destruct (find (fun vt => zmem (to_vehicle t) (vt_vehicles vt)) (pr_fleet P)) as [vt|] eqn:Hf; [|discriminate].
  intros H. apply andb_true_iff in H. destruct H as [Hid Hsh]. apply Z.eqb_eq in Hid.
  unfold shift_index_by_time in Hsh. destruct (to_stops t) as [|f rest] eqn:Hst; [discriminate|].
  destruct (find_index _ (vt_shifts vt)) as [i|] eqn:Hi; [|discriminate]. apply Nat.eqb_eq in Hsh. subst i.
  pose proof (find_index_spec _ _ _ Hi) as Hfind. pose proof (find_index_lt _ _ _ Hi) as Hlt.
  destruct (nth_error (vt_shifts vt) (to_shift t)) as [sh|] eqn:Hn; [|apply nth_error_None in Hn; lia].
  exists vt, sh. split; [unfold get_vehicle; rewrite Hf; reflexivity|]. split.
  - unfold get_vehicle_shift. rewrite Hst. unfold get_vehicle. rewrite Hf. cbn [kbind]. rewrite Hfind. reflexivity.
  - split; [|split; [exact Hid|discriminate]].
    unfold shift_of, vtype_of.
    assert (Hv : find (fun vt0 => (vt_id vt0 =? to_type t) && zmem (to_vehicle t) (vt_vehicles vt0)
                                    && (to_shift t <? length (vt_shifts vt0))%nat) (pr_fleet P) = Some vt).
    { apply (find_stronger _ (fun vt0 => zmem (to_vehicle t) (vt_vehicles vt0))).
      - intros x Hx. apply andb_true_iff in Hx. destruct Hx as [Hx _]. apply andb_true_iff in Hx. tauto.
      - exact Hf.
      - rewrite Hid, Z.eqb_refl. apply find_some in Hf. destruct Hf as [_ Hz]. rewrite Hz. cbn [andb].
        apply Nat.ltb_lt. exact Hlt. }
    rewrite Hv, Hn. reflexivity.
Qed.

Lemma ctx_frag_tour P S k t : ctx_frag P S = true -> nth_error (sl_tours S) k = Some t -> tour_ctx_ok P t = true.
Proof. unfold ctx_frag. rewrite forallb_forall. intros H Hk. apply H. eapply nth_error_In. exact Hk. Qed.

Lemma rebuild_shift P t r : rebuild P t = Some r -> shift_of P t = Some (rb_vt r, rb_shift r).
Proof.
  unfold rebuild. destruct (shift_of P t) as [[vt sh]|]; [|discriminate]. cbv zeta.
  destruct (split_tour _ (flat_tour t)) as [[[d js] e]|]; [|discriminate].
  destruct (match_all P _ js) as [ms|]; [|discriminate]. intros H. injection H as <-. reflexivity.
Qed.

Lemma rebuild_has_end P t r : rebuild P t = Some r ->
  (match sh_end (rb_shift r) with Some _ => true | None => false end) = rb_has_end r.
Proof.
  unfold rebuild. destruct (shift_of P t) as [[vt sh]|]; [|discriminate]. cbv zeta.
  destruct (split_tour _ (flat_tour t)) as [[[d js] e]|] eqn:Hsp; [|discriminate].
  destruct (match_all P _ js) as [ms|]; [|discriminate]. intros H. injection H as <-. cbn [rb_shift]. unfold rb_has_end. cbn [rb_arr].
  unfold split_tour in Hsp. destruct (flat_tour t) as [|d0 l]; [discriminate|].
  destruct (negb (fa_kind d0 =? 10)); [discriminate|].
  destruct (sh_end sh).
  - destruct (rev l) as [|e0 jr]; [discriminate|]. destruct (_ && _); [|discriminate]. injection Hsp as <- <- <-. reflexivity.
  - destruct (forallb _ l); [|discriminate]. injection Hsp as <- <- <-. reflexivity.
Qed.

(* number of flattened activities = number of activities of the stops *)
Lemma flat_acts_length s k : forall l arr, length (flat_acts s k arr l) = length l.
Proof.
  induction l as [|a r IH]; intros arr; cbn [flat_acts length]; [reflexivity|].
  destruct (match sa_time a with Some t => t | None => (ss_arr s, ss_dep s) end) as [b e]. cbn [length]. rewrite IH. reflexivity.
Qed.
Lemma flat_tour_length t : length (flat_tour t) = count_activities t.
Proof.
  unfold flat_tour, count_activities, mapi. generalize 0. induction (to_stops t) as [|st r IH]; intros k; cbn [mapi_from concat flat_map]; [reflexivity|].
  rewrite !app_length, IH. unfold flat_stop. rewrite flat_acts_length. reflexivity.
Qed.

Lemma rebuild_count P t r : rebuild P t = Some r ->
  count_activities t = (1 + length (rb_jobs r) + (if rb_has_end r then 1 else 0))%nat.
Proof.
  intros Hr. destruct (rebuild_spec _ _ _ Hr) as (H1 & _). rewrite <- flat_tour_length, H1. unfold rb_facts, rb_has_end.
  cbn [length]. rewrite app_length, map_length. destruct (rb_arr r); cbn [length]; lia.
Qed.

(* ================================================================== (a) limits.rs *)
(* the limit clauses of the reference (FMaxDistance / FMaxDuration / FTourSize of feasible_viol) as booleans *)
Lemma in_ifn {A} (b : bool) (v w : A) : In v (if b then [] else [w]) <-> b = false /\ w = v.
Proof. destruct b; cbn [In]; split; [intros []|intros [H _]; discriminate H|intros [H|[]]; auto|intros [_ H]; auto]. Qed.

Lemma feasible_viol_limits P k t r : rebuild P t = Some r ->
  (In (FMaxDistance k) (feasible_viol P k t) <-> le_opt (tour_legs (pdist P) (rb_acts r)) (vt_maxdist (rb_vt r)) = false)
  /\ (In (FMaxDuration k) (feasible_viol P k t) <-> le_opt (replay_duration (pdur P) (rb_acts r)) (vt_maxdur (rb_vt r)) = false)
  /\ (In (FTourSize k) (feasible_viol P k t) <-> le_opt (Z.of_nat (length (rb_jobs r))) (vt_toursize (rb_vt r)) = false).
Proof.
  intros Hr. unfold feasible_viol. rewrite Hr. cbv zeta.
  assert (Hsk : forall v, In v (flat_map (fun am : fact * (pjob * ptask * pplace * (Z * Z)) =>
                     let '(job, _, _, _) := snd am in if skills_ok (rb_vt r) job then [] else [FSkills k (pj_id job)]) (rb_jobs r)) ->
                   exists j, v = FSkills k j).
  { intros v Hin. apply in_flat_map in Hin. destruct Hin as ([a [[[job tk] p] w]] & _ & Hin). cbn [snd] in Hin.
    destruct (skills_ok (rb_vt r) job); [destruct Hin|]. destruct Hin as [<-|[]]. eexists. reflexivity. }
  assert (Hend : forall v, In v (match rb_arr r with
                                 | Some e => match sh_end (rb_shift r) with
                                             | Some (l, _) => if fa_loc e =? l then [] else [FEndLocation k]
                                             | None => []
                                             end
                                 | None => []
                                 end) -> v = FEndLocation k).
  { intros v. destruct (rb_arr r) as [e|]; [|intros []]. destruct (sh_end (rb_shift r)) as [[l ?]|]; [|intros []].
    rewrite in_ifn. intros [_ H]. auto. }
  rewrite !in_app_iff, !in_ifn.
  repeat split.
  all: try (intros H; decompose [or and] H; clear H; try discriminate; try assumption;
            match goal with
            | H : In _ (flat_map _ _) |- _ => apply Hsk in H; destruct H as [j H]; discriminate H
            | H : In _ _ |- _ => apply Hend in H; discriminate H
            end).
  all: intros H; rewrite H; tauto.
Qed.

Lemma limits_tour_ok P t vt sh : get_vehicle P (to_vehicle t) = KOk vt -> get_vehicle_shift P t = KOk sh ->
  (shift_limits_tour P t = KOk tt <->
     le_opt (st_dist (to_stat t)) (vt_maxdist vt) = true /\ le_opt (st_dur (to_stat t)) (vt_maxdur vt) = true
     /\ le_opt (Z.of_nat (count_activities t - (match sh_end sh with Some _ => 2 | None => 1 end))) (vt_toursize vt) = true).
Proof.
  intros Hv Hs. unfold shift_limits_tour. rewrite Hv. cbn [kbind]. unfold gt_opt, le_opt.
  destruct (vt_maxdist vt) as [md|]; destruct (vt_maxdur vt) as [mu|]; destruct (vt_toursize vt) as [ts|];
    rewrite ?Hs; cbn [kbind];
    repeat match goal with |- context [if ?b then _ else _] => destruct b eqn:? end;
    split; intros H; try discriminate H; try reflexivity; try (destruct H as (H1 & H2 & H3)); try lia; repeat split; lia.
Qed.

Lemma checker_limits_sound P S : ctx_frag P S = true -> check_limits P S = COk ->
  forall k t r, nth_error (sl_tours S) k = Some t -> rebuild P t = Some r ->
    st_dist (to_stat t) = tour_legs (pdist P) (rb_acts r) -> st_dur (to_stat t) = replay_duration (pdur P) (rb_acts r) ->
    ~ In (FMaxDistance (Z.of_nat k)) (feasible_viol P (Z.of_nat k) t)
    /\ ~ In (FMaxDuration (Z.of_nat k)) (feasible_viol P (Z.of_nat k) t)
    /\ ~ In (FTourSize (Z.of_nat k)) (feasible_viol P (Z.of_nat k) t).
Proof.
  intros Hctx Hok k t r Hk Hr Hd Hu. unfold check_limits in Hok. rewrite combine_results_ok in Hok.
  assert (H1 : try_each (shift_limits_tour P) (sl_tours S) = KOk tt).
  { apply of_kres_ok. apply Hok. left. reflexivity. }
  rewrite try_each_ok in H1. specialize (H1 t (nth_error_In _ _ Hk)).
  destruct (tour_ctx_spec P t (ctx_frag_tour _ _ _ _ Hctx Hk)) as (vt & sh & Hv & Hs & Hso & _).
  rewrite (rebuild_shift _ _ _ Hr) in Hso. injection Hso as <- <-.
  apply (limits_tour_ok P t _ _ Hv Hs) in H1. destruct H1 as (L1 & L2 & L3).
  destruct (feasible_viol_limits P (Z.of_nat k) t r Hr) as (F1 & F2 & F3). rewrite F1, F2, F3, <- Hd, <- Hu, L1, L2.
  rewrite (rebuild_count _ _ _ Hr), <- (rebuild_has_end _ _ _ Hr) in L3.
  replace (length (rb_jobs r)) with (1 + length (rb_jobs r) + (if match sh_end (rb_shift r) with Some _ => true | None => false end then 1 else 0)
                                     - match sh_end (rb_shift r) with Some _ => 2 | None => 1 end)%nat
    by (destruct (sh_end (rb_shift r)); lia).
  rewrite L3. repeat split; discriminate.
Qed.

Lemma checker_limits_complete P S : ctx_frag P S = true ->
  (forall k t, nth_error (sl_tours S) k = Some t -> exists r, rebuild P t = Some r
     /\ st_dist (to_stat t) = tour_legs (pdist P) (rb_acts r) /\ st_dur (to_stat t) = replay_duration (pdur P) (rb_acts r)
     /\ ~ In (FMaxDistance (Z.of_nat k)) (feasible_viol P (Z.of_nat k) t)
     /\ ~ In (FMaxDuration (Z.of_nat k)) (feasible_viol P (Z.of_nat k) t)
     /\ ~ In (FTourSize (Z.of_nat k)) (feasible_viol P (Z.of_nat k) t)
     /\ stops_in_shift (rb_shift r) t) ->
  check_limits P S = COk.
Proof.
  intros Hctx Hall. unfold check_limits. apply combine_results_ok. intros x Hx.
  assert (Htour : forall t, In t (sl_tours S) ->
            shift_limits_tour P t = KOk tt /\ shift_time_tour P t = KOk tt /\ recharge_limits_tour P t = KOk tt).
  { intros t Hin. apply In_nth_error in Hin. destruct Hin as [k Hk].
    destruct (Hall k t Hk) as (r & Hr & Hd & Hu & N1 & N2 & N3 & Hin).
    destruct (tour_ctx_spec P t (ctx_frag_tour _ _ _ _ Hctx Hk)) as (vt & sh & Hv & Hs & Hso & _ & Hne).
    rewrite (rebuild_shift _ _ _ Hr) in Hso. injection Hso as <- <-.
    destruct (feasible_viol_limits P (Z.of_nat k) t r Hr) as (F1 & F2 & F3).
    rewrite F1 in N1. rewrite F2 in N2. rewrite F3 in N3.
    apply not_false_is_true in N1. apply not_false_is_true in N2. apply not_false_is_true in N3.
    split; [|split].
    - apply (limits_tour_ok P t _ _ Hv Hs). rewrite Hd, Hu, N1, N2. split; [reflexivity|split; [reflexivity|]].
      rewrite (rebuild_count _ _ _ Hr), <- (rebuild_has_end _ _ _ Hr).
      replace (1 + length (rb_jobs r) + (if match sh_end (rb_shift r) with Some _ => true | None => false end then 1 else 0)
               - match sh_end (rb_shift r) with Some _ => 2 | None => 1 end)%nat with (length (rb_jobs r))
        by (destruct (sh_end (rb_shift r)); lia).
      exact N3.
    - unfold shift_time_tour. rewrite Hv. cbn [kbind]. unfold stops_in_shift in Hin. destruct (to_stops t) as [|f rest] eqn:Hst; [destruct Hin|].
      destruct Hin as [I1 I2].
      assert (Hex : existsb (fun sh0 => (sh_earliest sh0 <=? ss_dep f) && (ss_arr (last (f :: rest) f) <=? shift_end_time sh0))
                            (vt_shifts (rb_vt r)) = true).
      { apply existsb_exists. exists (rb_shift r). split.
        - pose proof (rebuild_shift _ _ _ Hr) as Hso. unfold shift_of in Hso. destruct (vtype_of P t) as [vt0|]; [|discriminate].
          destruct (nth_error (vt_shifts vt0) (to_shift t)) as [sh0|] eqn:Hn; [|discriminate]. injection Hso as <- <-.
          eapply nth_error_In. exact Hn.
        - apply andb_true_iff. split; apply Z.leb_le; assumption. }
      rewrite Hex. reflexivity.
    - unfold recharge_limits_tour. rewrite Hs. cbn [kbind]. destruct (1 <? length (to_stops t))%nat; reflexivity. }
  destruct Hx as [<-|[<-|[<-|[]]]]; apply of_kres_ok, try_each_ok; intros t Hin; apply (Htour t Hin).
Qed.

(* ---- limit breaches (Mutations.MLimitDistance / MLimitDuration / MLimitSize) are rejected by the model of check_limits *)
Lemma find_upd_type (p : pvtype -> bool) tid g fleet :
  (forall v, p (g v) = p v) ->
  find p (map (fun v => if vt_id v =? tid then g v else v) fleet)
  = match find p fleet with Some v => Some (if vt_id v =? tid then g v else v) | None => None end.
Proof.
  intros Hg. induction fleet as [|v r IH]; cbn [map find]; [reflexivity|].
  destruct (vt_id v =? tid) eqn:Hid.
  - rewrite Hg. destruct (p v); [rewrite Hid; reflexivity|exact IH].
  - destruct (p v); [rewrite Hid; reflexivity|exact IH].
Qed.

Lemma get_vehicle_upd P tid g v vt : (forall x, vt_vehicles (g x) = vt_vehicles x) ->
  get_vehicle P v = KOk vt -> get_vehicle (upd_type tid g P) v = KOk (if vt_id vt =? tid then g vt else vt).
Proof.
  intros Hg. unfold get_vehicle, upd_type. cbn [pr_fleet].
  rewrite (find_upd_type (fun vt0 => zmem v (vt_vehicles vt0))) by (intros x; rewrite Hg; reflexivity).
  destruct (find _ (pr_fleet P)) as [v0|]; [|discriminate]. intros H. injection H as ->. reflexivity.
Qed.

Lemma get_vehicle_shift_upd P tid g t vt sh : (forall x, vt_vehicles (g x) = vt_vehicles x) -> (forall x, vt_shifts (g x) = vt_shifts x) ->
  get_vehicle P (to_vehicle t) = KOk vt -> get_vehicle_shift P t = KOk sh -> get_vehicle_shift (upd_type tid g P) t = KOk sh.
Proof.
  intros Hg Hs Hv. unfold get_vehicle_shift. destruct (to_stops t) as [|f rest]; [discriminate|].
  rewrite (get_vehicle_upd P tid g _ vt Hg Hv), Hv. cbn [kbind]. destruct (vt_id vt =? tid); [rewrite Hs|]; auto.
Qed.

Lemma check_limits_first P S t : check_limits P S = COk -> In t (sl_tours S) -> shift_limits_tour P t = KOk tt.
Proof.
  unfold check_limits. rewrite combine_results_ok. intros H Hin.
  assert (H1 : try_each (shift_limits_tour P) (sl_tours S) = KOk tt) by (apply of_kres_ok, H; left; reflexivity).
  rewrite try_each_ok in H1. apply H1. exact Hin.
Qed.

Lemma checker_breach_limit_distance P S k t : ctx_frag P S = true -> tour_at S k = Some t ->
  check_limits (mutP (MLimitDistance k) P S) (mutS (MLimitDistance k) S) <> COk.
Proof.
  intros Hctx Hk Hok. cbn [mutP mutS] in Hok. rewrite Hk in Hok. unfold tour_at in Hk.
  pose proof (check_limits_first _ _ t Hok (nth_error_In _ _ Hk)) as H1.
  destruct (tour_ctx_spec P t (ctx_frag_tour _ _ _ _ Hctx Hk)) as (vt & sh & Hv & Hs & _ & Hid & _).
  unfold shift_limits_tour in H1.
  rewrite (get_vehicle_upd P (to_type t) (set_maxdist (st_dist (to_stat t) - 1)) _ vt (fun x => eq_refl) Hv) in H1.
  rewrite Hid, Z.eqb_refl in H1. cbn [kbind set_maxdist vt_maxdist gt_opt] in H1.
  replace (st_dist (to_stat t) - 1 <? st_dist (to_stat t)) with true in H1 by (symmetry; apply Z.ltb_lt; lia). discriminate H1.
Qed.

Lemma checker_breach_limit_duration P S k t : ctx_frag P S = true -> tour_at S k = Some t ->
  check_limits (mutP (MLimitDuration k) P S) (mutS (MLimitDuration k) S) <> COk.
Proof.
  intros Hctx Hk Hok. cbn [mutP mutS] in Hok. rewrite Hk in Hok. unfold tour_at in Hk.
  pose proof (check_limits_first _ _ t Hok (nth_error_In _ _ Hk)) as H1.
  destruct (tour_ctx_spec P t (ctx_frag_tour _ _ _ _ Hctx Hk)) as (vt & sh & Hv & Hs & _ & Hid & _).
  unfold shift_limits_tour in H1.
  rewrite (get_vehicle_upd P (to_type t) (set_maxdur (st_dur (to_stat t) - 1)) _ vt (fun x => eq_refl) Hv) in H1.
  rewrite Hid, Z.eqb_refl in H1. cbn [kbind set_maxdur vt_maxdur vt_maxdist gt_opt] in H1.
  destruct (gt_opt (st_dist (to_stat t)) (vt_maxdist vt)); [discriminate H1|].
  replace (st_dur (to_stat t) - 1 <? st_dur (to_stat t)) with true in H1 by (symmetry; apply Z.ltb_lt; lia). discriminate H1.
Qed.

Lemma checker_breach_limit_size P S k t r : ctx_frag P S = true -> tour_at S k = Some t -> rebuild P t = Some r ->
  check_limits (mutP (MLimitSize k) P S) (mutS (MLimitSize k) S) <> COk.
Proof.
  intros Hctx Hk Hr Hok. cbn [mutP mutS] in Hok. rewrite Hk in Hok. unfold tour_at in Hk.
  pose proof (check_limits_first _ _ t Hok (nth_error_In _ _ Hk)) as H1.
  destruct (tour_ctx_spec P t (ctx_frag_tour _ _ _ _ Hctx Hk)) as (vt & sh & Hv & Hs & Hso & Hid & _).
  rewrite (rebuild_shift _ _ _ Hr) in Hso. injection Hso as <- <-.
  unfold shift_limits_tour in H1.
  rewrite (get_vehicle_upd P (to_type t) (set_toursize (Z.of_nat (length (job_acts t)) - 1)) _ _ (fun x => eq_refl) Hv) in H1.
  rewrite Hid, Z.eqb_refl in H1. cbn [kbind set_toursize vt_toursize vt_maxdur vt_maxdist] in H1.
  destruct (gt_opt (st_dist (to_stat t)) (vt_maxdist (rb_vt r))); [discriminate H1|].
  destruct (gt_opt (st_dur (to_stat t)) (vt_maxdur (rb_vt r))); [discriminate H1|].
  rewrite (get_vehicle_shift_upd P (to_type t) (set_toursize (Z.of_nat (length (job_acts t)) - 1)) t _ _ (fun x => eq_refl) (fun x => eq_refl) Hv Hs) in H1. cbn [kbind] in H1.
  rewrite (rebuild_count _ _ _ Hr), <- (rebuild_has_end _ _ _ Hr) in H1.
  pose proof (filter_len_le (fun a => is_job_kind (fa_kind a)) (map fst (rb_jobs r))) as Hle.
  rewrite <- (rebuild_job_acts _ _ _ Hr), map_length in Hle.
  match type of H1 with (if ?b then _ else _) = _ => replace b with true in H1; [discriminate H1|] end.
  symmetry. apply Z.ltb_lt. destruct (sh_end (rb_shift r)); lia.
Qed.

(* ================================================================== (c) routing.rs *)
Lemma diag_zero_lengths P : diag_zero P = true ->
  0 < pr_n P /\ length (pr_dur P) = Z.to_nat (pr_n P * pr_n P) /\ length (pr_dist P) = Z.to_nat (pr_n P * pr_n P).
Proof.
  unfold diag_zero. rewrite !andb_true_iff. intros [[[[H1 _] H2] H3] _].
  apply Z.ltb_lt in H1. apply Nat.eqb_eq in H2. apply Nat.eqb_eq in H3. auto.
Qed.

Lemma matrix_data_ok P a b : diag_zero P = true -> loc_known P a = true -> loc_known P b = true ->
  matrix_data P a b = KOk (pmat (pr_n P) (pr_dist P) a b, pmat (pr_n P) (pr_dur P) a b).
Proof.
  intros Hd Ha Hb. destruct (diag_zero_lengths P Hd) as (Hn & L1 & L2).
  unfold matrix_data. rewrite Ha, Hb. cbn [negb orb]. unfold loc_known in Ha, Hb.
  apply andb_true_iff in Ha. apply andb_true_iff in Hb. destruct Ha as [A1 A2]. destruct Hb as [B1 B2].
  apply Z.leb_le in A1. apply Z.leb_le in B1. apply Z.ltb_lt in A2. apply Z.ltb_lt in B2.
  assert (Hi : (Z.to_nat (a * pr_n P + b) < Z.to_nat (pr_n P * pr_n P))%nat) by (apply Z2Nat.inj_lt; nia).
  unfold pmat.
  destruct (nth_error (pr_dist P) (Z.to_nat (a * pr_n P + b))) as [d|] eqn:E1; [|apply nth_error_None in E1; lia].
  destruct (nth_error (pr_dur P) (Z.to_nat (a * pr_n P + b))) as [u|] eqn:E2; [|apply nth_error_None in E2; lia].
  rewrite (nth_error_nth _ _ 0 E1), (nth_error_nth _ _ 0 E2). reflexivity.
Qed.

Lemma absgt1_false x : absgt1 x = false <-> Z.abs x <= 1.
Proof. unfold absgt1. rewrite Z.ltb_ge. reflexivity. Qed.

Lemma routing_legs_spec P skip : diag_zero P = true -> forall l a x st',
  forallb (fun st => loc_known P (ss_loc st)) (a :: l) = true ->
  (routing_legs P skip (ss_dep a, x) (combine (a :: l) l) = KOk st' <->
   (forall i u v, nth_error (a :: l) i = Some u -> nth_error l i = Some v ->
      Z.abs (ss_dep u + pmat (pr_n P) (pr_dur P) (ss_loc u) (ss_loc v) - ss_arr v) <= 1
      /\ (skip = false ->
          Z.abs ((match i with O => x | S _ => ss_dist u end) + pmat (pr_n P) (pr_dist P) (ss_loc u) (ss_loc v) - ss_dist v) <= 1))
   /\ st' = (ss_dep (last l a), match l with [] => x | _ => ss_dist (last l a) end)).
Proof.
  intros Hd. induction l as [|b l IH]; intros a x st' Hk.
  - cbn [combine routing_legs last]. split.
    + intros H. injection H as <-. split; [intros i u v _ Hv; destruct i; discriminate Hv|reflexivity].
    + intros [_ ->]. reflexivity.
  - cbn [forallb] in Hk. apply andb_true_iff in Hk. destruct Hk as [Ka Kb]. pose proof Kb as Kb'.
    cbn [forallb] in Kb. apply andb_true_iff in Kb. destruct Kb as [Kb _].
    change (combine (a :: b :: l) (b :: l)) with ((a, b) :: combine (b :: l) l). cbn [routing_legs].
    rewrite (matrix_data_ok P _ _ Hd Ka Kb). cbn [kbind fst snd].
    assert (Hlast : last (b :: l) a = last l b) by (clear; revert b; induction l as [|c l IH]; intros b; [reflexivity|cbn [last] in *; destruct l; [reflexivity|apply IH]]).
    assert (Hd2 : match l with [] => ss_dist b | _ :: _ => ss_dist (last l b) end = ss_dist (last l b)) by (destruct l; reflexivity).
    destruct (absgt1 (ss_dep a + pmat (pr_n P) (pr_dur P) (ss_loc a) (ss_loc b) - ss_arr b)) eqn:E1.
    { split; [discriminate|]. intros [H _]. destruct (H 0%nat a b eq_refl eq_refl) as [H1 _]. apply absgt1_false in H1. congruence. }
    destruct (negb skip && absgt1 (x + pmat (pr_n P) (pr_dist P) (ss_loc a) (ss_loc b) - ss_dist b)) eqn:E2.
    { split; [discriminate|]. intros [H _]. destruct (H 0%nat a b eq_refl eq_refl) as [_ H2].
      apply andb_true_iff in E2. destruct E2 as [Es E2]. apply negb_true_iff in Es. specialize (H2 Es). apply absgt1_false in H2. congruence. }
    rewrite (IH b (ss_dist b) st' Kb'), Hlast, Hd2. apply absgt1_false in E1.
    split.
    + intros [H ->]. split; [|reflexivity]. intros i u v Hu Hv. destruct i as [|j].
      * injection Hu as <-. injection Hv as <-. split; [exact E1|]. intros Hs. rewrite Hs in E2. cbn [negb andb] in E2.
        apply absgt1_false. exact E2.
      * cbn [nth_error] in Hu, Hv. destruct (H j u v Hu Hv) as [H1 H2]. split; [exact H1|]. intros Hs. specialize (H2 Hs).
        destruct j; [|exact H2]. injection Hu as <-. exact H2.
    + intros [H ->]. split; [|reflexivity]. intros j u v Hu Hv. destruct (H (S j) u v Hu Hv) as [H1 H2]. split; [exact H1|].
      intros Hs. specialize (H2 Hs). destruct j; [|exact H2]. injection Hu as <-. exact H2.
Qed.

Lemma routing_tour_spec P skip t : diag_zero P = true -> forallb (fun st => loc_known P (ss_loc st)) (to_stops t) = true ->
  (routing_tour P skip t = KOk tt <-> (exists vt, get_vehicle P (to_vehicle t) = KOk vt) /\ RoutingTour 1 P skip t).
Proof.
  intros Hd Hk. unfold routing_tour, RoutingTour.
  destruct (get_vehicle P (to_vehicle t)) as [vt|e]; cbn [kbind].
  2:{ split; [discriminate|]. intros [[vt H] _]. discriminate H. }
  destruct (to_stops t) as [|f rest] eqn:Hst.
  { split; [discriminate|]. intros [_ (f & rest & H & _)]. discriminate H. }
  unfold tour_offset.
  destruct (ss_acts f) as [|a acts] eqn:Ha.
  { split; [discriminate|]. intros [_ (f' & rest' & H & Hne & _)]. injection H as <- <-. rewrite Ha in Hne. contradiction. }
  cbn [tl].
  destruct (routing_legs P skip (ss_dep f, 0) (combine (f :: rest) rest)) as [st|e] eqn:Hl; cbn [kbind].
  - apply (routing_legs_spec P skip Hd rest f 0 st Hk) in Hl. destruct Hl as [Hlegs ->]. cbn [fst snd].
    split.
    + intros H. split; [exists vt; reflexivity|]. exists f, rest. split; [reflexivity|]. split; [rewrite Ha; discriminate|].
      split; [intros i u v Hu Hv; apply (Hlegs i u v Hu Hv)|].
      destruct (negb skip && absgt1 _) eqn:E1; [discriminate|].
      destruct (absgt1 (ss_dep (last rest f) - _ - _)) eqn:E2; [discriminate|]. apply absgt1_false in E2.
      split; [|rewrite Ha; exact E2]. intros Hs. rewrite Hs in E1. cbn [negb andb] in E1. apply absgt1_false in E1. exact E1.
    + intros [_ (f' & rest' & H & _ & _ & H1 & H2)]. injection H as <- <-. rewrite Ha in H2.
      destruct (negb skip && absgt1 _) eqn:E1.
      { apply andb_true_iff in E1. destruct E1 as [Es E1]. apply negb_true_iff in Es. specialize (H1 Es). apply absgt1_false in H1. congruence. }
      apply absgt1_false in H2. rewrite H2. reflexivity.
  - split; [discriminate|]. intros [_ (f' & rest' & H & _ & Hlegs & H1 & H2)]. injection H as <- <-.
    assert (Hex : exists st, routing_legs P skip (ss_dep f, 0) (combine (f :: rest) rest) = KOk st).
    { eexists. apply (routing_legs_spec P skip Hd rest f 0 _ Hk). split; [|reflexivity]. intros i u v Hu Hv. apply (Hlegs i u v Hu Hv). }
    destruct Hex as [st Hex]. congruence.
Qed.

Lemma locs_known_tour P S t : locs_known P S = true -> In t (sl_tours S) ->
  forallb (fun st => loc_known P (ss_loc st)) (to_stops t) = true.
Proof.
  unfold locs_known, all_stops. rewrite !forallb_forall. intros H Hin st Hst. apply H. apply in_flat_map. exists t. auto.
Qed.

(* check_routing accepts exactly the documents that satisfy the stop-level rule with tolerance 1 *)
Lemma checker_routing_iff P S : diag_zero P = true -> locs_known P S = true ->
  (check_routing P S = COk <-> RoutingRule 1 P S).
Proof.
  intros Hd Hk. unfold check_routing, RoutingRule, check_routing_rules. rewrite combine_results_ok.
  split.
  - intros H. assert (H1 := H _ (or_introl eq_refl)). apply of_kres_ok in H1.
    destruct (try_each (routing_tour P (skip_distance_check S)) (sl_tours S)) as [[]|e] eqn:Ht; [|discriminate H1].
    cbn [kbind] in H1. rewrite try_each_ok in Ht. split.
    + intros t Hin. apply (routing_tour_spec P _ t Hd (locs_known_tour _ _ _ Hk Hin)). apply Ht. exact Hin.
    + unfold solution_statistic in H1. fold (stat_sum S) in H1.
      destruct (st_dur (stat_sum S) =? st_dur (sl_stat S)) eqn:E1; [|discriminate H1].
      destruct (st_dist (stat_sum S) =? st_dist (sl_stat S)) eqn:E2; [|discriminate H1].
      apply Z.eqb_eq in E1. apply Z.eqb_eq in E2. auto.
  - intros (Ht & E1 & E2) r [<-|[]]. apply of_kres_ok.
    assert (Hall : try_each (routing_tour P (skip_distance_check S)) (sl_tours S) = KOk tt).
    { apply try_each_ok. intros t Hin. apply (routing_tour_spec P _ t Hd (locs_known_tour _ _ _ Hk Hin)). apply Ht. exact Hin. }
    rewrite Hall. cbn [kbind]. unfold solution_statistic. fold (stat_sum S). rewrite E1, E2, !Z.eqb_refl. reflexivity.
Qed.

(* ------------------------------------------------------------------ stops with a single activity: the flattened tour *)
Definition sfact (k : Z) (st : sstop) (a : sact) : fact :=
  mkFAct (sa_job a) (sa_kind a) (act_loc st a) (ss_arr st) (fst (act_time st a)) (snd (act_time st a)) (sa_tag a) k.

Lemma flat_stop_single k st a : ss_acts st = [a] -> flat_stop k st = [sfact k st a].
Proof.
  intros H. unfold flat_stop, sfact, act_loc, act_time. rewrite H. cbn [flat_acts].
  destruct (sa_time a) as [[b e]|]; reflexivity.
Qed.

Definition single_stops (l : list sstop) : bool := forallb (fun st => (length (ss_acts st) =? 1)%nat) l.

Lemma single_stop_act st : (length (ss_acts st) =? 1)%nat = true -> exists a, ss_acts st = [a].
Proof. destruct (ss_acts st) as [|a [|b r]]; cbn; try discriminate. intros _. exists a. reflexivity. Qed.

Lemma flat_single_from l : single_stops l = true -> forall k s st, nth_error l s = Some st ->
  exists a, ss_acts st = [a] /\ nth_error (concat (mapi_from k flat_stop l)) s = Some (sfact (k + Z.of_nat s) st a)
            /\ length (concat (mapi_from k flat_stop l)) = length l.
Proof.
  induction l as [|x r IH]; intros Hs k s st Hn; [destruct s; discriminate|].
  cbn [single_stops forallb] in Hs. apply andb_true_iff in Hs. destruct Hs as [Hx Hr].
  destruct (single_stop_act x Hx) as [ax Hax]. cbn [mapi_from concat]. rewrite (flat_stop_single k x ax Hax). cbn [app length].
  destruct s as [|s]; cbn [nth_error] in *.
  - injection Hn as <-. exists ax. split; [exact Hax|]. split; [rewrite Z.add_0_r; reflexivity|].
    destruct r as [|y r']; [reflexivity|]. destruct (IH Hr (k + 1) 0%nat y eq_refl) as (_ & _ & _ & Hl). rewrite Hl. reflexivity.
  - destruct (IH Hr (k + 1) s st Hn) as (a & Ha & Hnth & Hl). exists a. split; [exact Ha|]. split; [|rewrite Hl; reflexivity].
    rewrite Hnth. f_equal. f_equal. lia.
Qed.

Lemma flat_single t : single_stops (to_stops t) = true -> forall s st, nth_error (to_stops t) s = Some st ->
  exists a, ss_acts st = [a] /\ nth_error (flat_tour t) s = Some (sfact (Z.of_nat s) st a).
Proof.
  intros Hs s st Hn. destruct (flat_single_from _ Hs 0 s st Hn) as (a & Ha & Hnth & _). exists a. split; [exact Ha|exact Hnth].
Qed.
Lemma flat_single_length t : single_stops (to_stops t) = true -> length (flat_tour t) = length (to_stops t).
Proof.
  intros Hs. destruct (to_stops t) as [|x r] eqn:E.
  - unfold flat_tour, mapi. rewrite E. reflexivity.
  - destruct (flat_single_from _ Hs 0 0%nat x eq_refl) as (_ & _ & _ & Hl). unfold flat_tour, mapi. rewrite E. exact Hl.
Qed.

Lemma last_index_some s : forall facts k acc i, 0 <= k -> last_index_of_stop s facts k acc = Some i ->
  acc = Some i \/ (k <= i /\ exists f, nth_error facts (Z.to_nat (i - k)) = Some f /\ fa_stop f = s).
Proof.
  induction facts as [|f r IH]; intros k acc i Hk; cbn [last_index_of_stop]; [intros ->; left; reflexivity|].
  intros H. apply IH in H; [|lia]. destruct H as [H|(Hle & f' & Hn & Hf)].
  - destruct (fa_stop f =? s) eqn:E; [|left; exact H]. injection H as <-. right. split; [lia|]. exists f.
    rewrite Z.sub_diag. split; [reflexivity|apply Z.eqb_eq; exact E].
  - right. split; [lia|]. exists f'. split; [|exact Hf]. replace (Z.to_nat (i - k)) with (S (Z.to_nat (i - (k + 1)))) by lia. exact Hn.
Qed.

(* ------------------------------------------------------------------ the rebuilt activities are aligned with the flattened ones *)
Lemma rebuild_align P t r : rebuild P t = Some r ->
  map a_loc (rb_acts r) = map fa_loc (rb_facts r) /\ map a_dep (rb_acts r) = map fa_end (rb_facts r).
Proof.
  intros Hr. pose proof (rebuild_has_end _ _ _ Hr) as He. revert Hr He. unfold rebuild.
  destruct (shift_of P t) as [[vt sh]|]; [|discriminate]. cbv zeta.
  destruct (split_tour _ (flat_tour t)) as [[[d js] e]|]; [|discriminate].
  destruct (match_all P _ js) as [ms|]; [|discriminate]. intros H. injection H as <-. unfold rb_facts, rb_has_end. cbn [rb_acts rb_dep rb_jobs rb_arr rb_shift].
  intros He.
  assert (Hm : forall f : act -> Z, forall g : fact -> Z, (forall a m, f (act_of_match a m) = g a) ->
             map f (map (fun am => act_of_match (fst am) (snd am)) ms) = map g (map fst ms)).
  { intros f g Hfg. rewrite !map_map. apply map_ext. intros [a m]. apply Hfg. }
  assert (Hloc : forall a m, a_loc (act_of_match a m) = fa_loc a) by (intros a [[[job tk] p] w]; reflexivity).
  assert (Hdep : forall a m, a_dep (act_of_match a m) = fa_end a) by (intros a [[[job tk] p] w]; reflexivity).
  cbn [map]. rewrite !map_app, (Hm a_loc fa_loc Hloc), (Hm a_dep fa_end Hdep).
  destruct e as [x|]; destruct (sh_end sh) as [[l latest]|]; try discriminate He; cbn [map a_loc a_dep]; split; reflexivity.
Qed.

Lemma map_nth_error_eq {A B C} (f : A -> C) (g : B -> C) la lb : map f la = map g lb ->
  forall i b, nth_error lb i = Some b -> exists a, nth_error la i = Some a /\ f a = g b.
Proof.
  revert lb. induction la as [|x r IH]; intros [|y s] H i b Hn; try discriminate H; [destruct i; discriminate Hn|].
  cbn [map] in H. injection H as H1 H2. destruct i as [|i]; cbn [nth_error] in *.
  - injection Hn as <-. exists x. auto.
  - apply (IH s H2 i b Hn).
Qed.

(* ------------------------------------------------------------------ the replay, step by step *)
Lemma replay_from_step dur : forall l loc dep i a b x, nth_error l i = Some a -> nth_error l (S i) = Some b ->
  nth_error (replay_from dur loc dep l) i = Some x ->
  exists y, nth_error (replay_from dur loc dep l) (S i) = Some y /\ fst y = snd x + dur (a_loc a) (a_loc b).
Proof.
  induction l as [|c r IH]; intros loc dep i a b x Ha Hb Hx; [destruct i; discriminate|].
  cbn [replay_from] in *. destruct i as [|i]; cbn [nth_error] in *.
  - injection Ha as <-. injection Hx as <-. destruct r as [|b' r']; [discriminate|]. cbn [nth_error] in Hb. injection Hb as <-.
    cbn [replay_from nth_error]. eexists. split; [reflexivity|]. reflexivity.
  - apply (IH _ _ i a b x Ha Hb Hx).
Qed.

Lemma replay_step dur acts i a b x : nth_error acts i = Some a -> nth_error acts (S i) = Some b ->
  nth_error (replay dur acts) i = Some x ->
  exists y, nth_error (replay dur acts) (S i) = Some y /\ fst y = snd x + dur (a_loc a) (a_loc b).
Proof.
  destruct acts as [|s r]; [destruct i; discriminate|]. cbn [replay]. destruct i as [|i]; cbn [nth_error].
  - intros Ha Hb Hx. injection Ha as <-. injection Hx as <-. destruct r as [|b' r']; [discriminate|]. injection Hb as <-.
    cbn [replay_from nth_error]. eexists. split; reflexivity.
  - intros Ha Hb Hx. apply (replay_from_step dur r _ _ i a b x Ha Hb Hx).
Qed.

Lemma replay_from_length dur : forall l loc dep, length (replay_from dur loc dep l) = length l.
Proof. induction l as [|a r IH]; intros loc dep; cbn [replay_from length]; [reflexivity|rewrite IH; reflexivity]. Qed.
Lemma replay_length dur acts : length (replay dur acts) = length acts.
Proof. destruct acts as [|s r]; [reflexivity|]. cbn [replay length]. rewrite replay_from_length. reflexivity. Qed.

Lemma cum_from_step m : forall l loc acc i a b x, nth_error l i = Some a -> nth_error l (S i) = Some b ->
  nth_error (cum_from m loc acc l) i = Some x ->
  nth_error (cum_from m loc acc l) (S i) = Some (x + m (a_loc a) (a_loc b)).
Proof.
  induction l as [|c r IH]; intros loc acc i a b x Ha Hb Hx; [destruct i; discriminate|].
  cbn [cum_from] in *. destruct i as [|i]; cbn [nth_error] in *.
  - injection Ha as <-. injection Hx as <-. destruct r as [|b' r']; [discriminate|]. cbn [nth_error] in Hb. injection Hb as <-.
    reflexivity.
  - apply (IH _ _ i a b x Ha Hb Hx).
Qed.
Lemma cumdist_step m acts i a b x : nth_error acts i = Some a -> nth_error acts (S i) = Some b ->
  nth_error (replay_cumdist m acts) i = Some x -> nth_error (replay_cumdist m acts) (S i) = Some (x + m (a_loc a) (a_loc b)).
Proof.
  destruct acts as [|s r]; [destruct i; discriminate|]. cbn [replay_cumdist]. destruct i as [|i]; cbn [nth_error].
  - intros Ha Hb Hx. injection Ha as <-. injection Hx as <-. destruct r as [|b' r']; [discriminate|]. injection Hb as <-.
    cbn [cum_from nth_error]. reflexivity.
  - intros Ha Hb Hx. apply (cum_from_step m r _ _ i a b x Ha Hb Hx).
Qed.
Lemma cum_from_length m : forall l loc acc, length (cum_from m loc acc l) = length l.
Proof. induction l as [|a r IH]; intros loc acc; cbn [cum_from length]; [reflexivity|rewrite IH; reflexivity]. Qed.
Lemma cumdist_length m acts : length (replay_cumdist m acts) = length acts.
Proof. destruct acts as [|s r]; [reflexivity|]. cbn [replay_cumdist length]. rewrite cum_from_length. reflexivity. Qed.

Lemma cum_from_last m : forall l loc acc d,
  last (cum_from m loc acc l) d = match l with [] => d | _ :: _ => acc + legs_sum m loc l end.
Proof.
  induction l as [|a r IH]; intros loc acc d; [reflexivity|]. cbn [cum_from legs_sum].
  destruct r as [|b r'].
  - cbn [cum_from last legs_sum]. lia.
  - remember (acc + m loc (a_loc a)) as acc' eqn:Ea.
    assert (H : last (acc' :: cum_from m (a_loc a) acc' (b :: r')) d = last (cum_from m (a_loc a) acc' (b :: r')) d)
      by (cbn [cum_from last]; reflexivity).
    rewrite H, (IH (a_loc a) acc' d). subst acc'. cbn [legs_sum]. lia.
Qed.

(* act_checks / stop_checks, per index *)
Lemma act_checks_nil k facts rep : act_checks k facts rep = [] -> forall i f x,
  nth_error facts i = Some f -> nth_error rep i = Some x -> (i = 0%nat \/ fa_arr f = fst x) /\ fa_end f = snd x.
Proof.
  unfold act_checks. intros H i f x Hf Hx.
  assert (Hc : nth_error (combine facts rep) i = Some (f, x)).
  { clear H. revert rep i Hf Hx. induction facts as [|f0 fr IH]; intros [|x0 xr] i Hf Hx; try (destruct i; discriminate).
    destruct i as [|i]; cbn [nth_error combine] in *; [congruence|apply IH; assumption]. }
  pose proof (concat_mapi_nil _ _ _ _ H Hc) as H1. cbv beta in H1. destruct x as [arr dep]. cbn [fst snd].
  apply app_nil_iff in H1. destruct H1 as [H1 H2]. rewrite if_nil_iff in H1, H2. apply Z.eqb_eq in H2.
  split; [|exact H2]. apply orb_true_iff in H1. destruct H1 as [H1|H1]; [left; apply Z.eqb_eq in H1; lia|right; apply Z.eqb_eq; exact H1].
Qed.

Lemma stop_checks_loc k t facts rep loads cum s st :
  stop_checks k t facts rep loads cum = [] -> nth_error (to_stops t) s = Some st ->
  forall a, In a (ss_acts st) -> act_loc st a = ss_loc st.
Proof.
  unfold stop_checks. intros H Hs a Ha. pose proof (concat_mapi_nil _ _ _ _ H Hs) as H1. cbv beta in H1.
  apply app_nil_iff in H1. destruct H1 as [H1 _]. rewrite if_nil_iff, forallb_forall in H1. specialize (H1 a Ha).
  unfold act_loc. destruct (sa_loc a) as [l|]; [apply Z.eqb_eq; exact H1|reflexivity].
Qed.

Lemma nth_error_last {A} (l : list A) d : l <> [] -> nth_error l (length l - 1) = Some (last l d).
Proof.
  induction l as [|x r IH]; [contradiction|]. intros _. destruct r as [|y r']; [reflexivity|].
  cbn [length]. replace (S (S (length r')) - 1)%nat with (S (length (y :: r') - 1)) by (cbn [length]; lia).
  cbn [nth_error]. rewrite IH by discriminate. reflexivity.
Qed.

Lemma nth_error_split2 {A} (l : list A) : forall i x y, nth_error l i = Some x -> nth_error l (S i) = Some y ->
  exists l1 l2, l = l1 ++ x :: y :: l2.
Proof.
  induction l as [|z r IH]; intros i x y Hx Hy; [destruct i; discriminate|].
  destruct i as [|i]; cbn [nth_error] in *.
  - injection Hx as <-. destruct r as [|y' r']; [discriminate|]. injection Hy as <-. exists [], r'. reflexivity.
  - destruct (IH i x y Hx Hy) as (l1 & l2 & ->). exists (z :: l1), l2. reflexivity.
Qed.

(* what validity says about one stop of a tour whose stops hold one activity each *)
Definition stop_info (P : pproblem) (t : stour) (r : rebuilt) (s : nat) (st : sstop) : Prop :=
  exists (a : sact) (ac : act) (x : Z * Z),
    ss_acts st = [a]
    /\ nth_error (rb_facts r) s = Some (sfact (Z.of_nat s) st a)
    /\ nth_error (rb_acts r) s = Some ac
    /\ a_loc ac = ss_loc st
    /\ a_dep ac = snd (act_time st a)
    /\ nth_error (replay (pdur P) (rb_acts r)) s = Some x
    /\ snd x = ss_dep st /\ snd (act_time st a) = ss_dep st
    /\ (s <> 0%nat -> fst x = ss_arr st)
    /\ nth_error (replay_cumdist (pdist P) (rb_acts r)) s = Some (ss_dist st).

Lemma valid_stop_info P S k t : valid_b P S = [] -> nth_error (sl_tours S) k = Some t -> single_stops (to_stops t) = true ->
  exists r, rebuild P t = Some r /\ length (rb_acts r) = length (to_stops t)
            /\ forall s st, nth_error (to_stops t) s = Some st -> stop_info P t r s st.
Proof.
  intros HV Hk Hs. destruct (valid_tour _ _ _ _ HV Hk) as [_ HR].
  destruct (replay_tour_nil _ _ _ HR) as [r [Hr [Hact [Hstop _]]]]. exists r. split; [exact Hr|].
  destruct (rebuild_spec _ _ _ Hr) as (Hflat & _). destruct (rebuild_align _ _ _ Hr) as [Aloc Adep].
  assert (Hlen : length (rb_acts r) = length (to_stops t)).
  { rewrite <- (flat_single_length t Hs), Hflat, <- (map_length a_loc), Aloc, map_length. reflexivity. }
  split; [exact Hlen|]. intros s st Hst.
  destruct (flat_single t Hs s st Hst) as (a & Ha & Hf). rewrite Hflat in Hf.
  destruct (map_nth_error_eq a_loc fa_loc _ _ Aloc s _ Hf) as (ac & Hac & Hl).
  destruct (map_nth_error_eq a_dep fa_end _ _ Adep s _ Hf) as (ac' & Hac' & Hd). rewrite Hac in Hac'. injection Hac' as <-.
  cbn [sfact fa_loc fa_end] in Hl, Hd.
  assert (Hx : exists x, nth_error (replay (pdur P) (rb_acts r)) s = Some x).
  { destruct (nth_error (replay (pdur P) (rb_acts r)) s) as [x|] eqn:E; [exists x; reflexivity|].
    apply nth_error_None in E. rewrite replay_length in E.
    assert (s < length (rb_acts r))%nat by (apply nth_error_Some; congruence). lia. }
  destruct Hx as [x Hx].
  destruct (act_checks_nil _ _ _ Hact s _ x Hf Hx) as [Harr Hend]. cbn [sfact fa_arr fa_end] in Harr, Hend.
  destruct (stop_checks_at _ _ _ _ _ _ s st Hstop Hst) as [i [Hi [Hdep [_ Hdist]]]].
  assert (Hieq : i = Z.of_nat s).
  { apply last_index_some in Hi; [|lia]. destruct Hi as [Hi|(Hle & f & Hn & Hfs)]; [discriminate|].
    rewrite Z.sub_0_r in Hn.
    assert (Hj : (Z.to_nat i < length (to_stops t))%nat).
    { rewrite <- (flat_single_length t Hs), Hflat. apply nth_error_Some. congruence. }
    destruct (nth_error (to_stops t) (Z.to_nat i)) as [st'|] eqn:Est; [|apply nth_error_None in Est; lia].
    destruct (flat_single t Hs _ st' Est) as (a' & _ & Hf'). rewrite Hflat, Hn in Hf'. injection Hf' as ->.
    cbn [sfact fa_stop] in Hfs. lia. }
  subst i. unfold nth_z in Hdep, Hdist. rewrite Nat2Z.id in Hdep, Hdist.
  rewrite (nth_error_nth _ _ _ Hx) in Hdep.
  assert (Hc : nth_error (replay_cumdist (pdist P) (rb_acts r)) s = Some (ss_dist st)).
  { destruct (nth_error (replay_cumdist (pdist P) (rb_acts r)) s) as [c|] eqn:E.
    - rewrite (nth_error_nth _ _ _ E) in Hdist. rewrite Hdist. reflexivity.
    - apply nth_error_None in E. rewrite cumdist_length in E.
      assert (s < length (rb_acts r))%nat by (apply nth_error_Some; congruence). lia. }
  assert (Hloc : act_loc st a = ss_loc st).
  { apply (stop_checks_loc _ _ _ _ _ _ s st Hstop Hst). rewrite Ha. left. reflexivity. }
  exists a, ac, x. split; [exact Ha|]. split; [exact Hf|]. split; [exact Hac|]. split; [rewrite Hl; exact Hloc|].
  split; [exact Hd|]. split; [exact Hx|]. split; [symmetry; exact Hdep|]. split; [rewrite Hend, Hdep; reflexivity|].
  split; [|exact Hc]. intros Hne. destruct Harr as [Harr|Harr]; [contradiction|]. symmetry. exact Harr.
Qed.

Lemma single_act_stops_tour S t : single_act_stops S = true -> In t (sl_tours S) -> single_stops (to_stops t) = true.
Proof.
  unfold single_act_stops, all_stops, single_stops. rewrite !forallb_forall. intros H Hin st Hst. apply H.
  apply in_flat_map. exists t. auto.
Qed.

Lemma shift_of_vehicle P t vt sh : shift_of P t = Some (vt, sh) -> exists vt', get_vehicle P (to_vehicle t) = KOk vt'.
Proof.
  unfold shift_of, vtype_of. destruct (find _ (pr_fleet P)) as [v|] eqn:Hf; [|discriminate]. intros _.
  apply find_some in Hf. destruct Hf as [Hin Hp]. apply andb_true_iff in Hp. destruct Hp as [Hp _].
  apply andb_true_iff in Hp. destruct Hp as [_ Hz]. unfold get_vehicle.
  destruct (find (fun vt0 => zmem (to_vehicle t) (vt_vehicles vt0)) (pr_fleet P)) as [v'|] eqn:Hf'; [eexists; reflexivity|].
  pose proof (find_none _ _ Hf' v Hin) as Hn. cbv beta in Hn. congruence.
Qed.

Lemma valid_reachable P S t : valid_b P S = [] -> In t (sl_tours S) -> Reachable P t.
Proof.
  intros HV Hin. apply valid_b_nil in HV. destruct HV as (_ & _ & _ & _ & HX & _).
  unfold xfeasible_viols in HX. rewrite !app_nil_iff in HX. destruct HX as (_ & _ & HR & _).
  rewrite reach_viols_nil in HR. apply HR. exact Hin.
Qed.

Lemma abs_le0 x : Z.abs x <= 0 <-> x = 0.
Proof. lia. Qed.

(* a document that the reference semantics accepts satisfies the stop-level routing rule EXACTLY (every stop holds one activity) *)
Lemma valid_routing_tour P S k t skip : valid_b P S = [] -> nth_error (sl_tours S) k = Some t ->
  single_stops (to_stops t) = true ->
  (exists vt, get_vehicle P (to_vehicle t) = KOk vt) /\ RoutingTour 0 P skip t.
Proof.
  intros HV Hk Hs. destruct (valid_stop_info P S k t HV Hk Hs) as (r & Hr & Hlen & Hinfo).
  destruct (limit_setup _ _ _ _ HV Hk) as (r' & Hr' & Hdist & Hdur & _). rewrite Hr in Hr'. injection Hr' as <-.
  pose proof (valid_reachable P S t HV (nth_error_In _ _ Hk)) as Hreach.
  destruct (rebuild_spec _ _ _ Hr) as (Hflat & _).
  split; [apply (shift_of_vehicle P t _ _ (rebuild_shift _ _ _ Hr))|].
  assert (Hne : to_stops t <> []).
  { intros E. pose proof (flat_single_length t Hs) as Hl. rewrite E, Hflat in Hl. unfold rb_facts in Hl. cbn [length] in Hl. lia. }
  destruct (to_stops t) as [|f rest] eqn:Hst; [contradiction|].
  exists f, rest. split; [exact Hst|]. rewrite Hst.
  destruct (Hinfo 0%nat f eq_refl) as (a0 & ac0 & x0 & Ha0 & Hf0 & Hn0 & Hl0 & Hd0 & Hx0 & He0 & He0' & _ & Hc0).
  split; [rewrite Ha0; discriminate|].
  assert (Hlegs : RoutingLegs 0 P skip (f :: rest)).
  { intros i a b Hia Hib.
    destruct (Hinfo i a Hia) as (sa & aa & xa & Hsa & Hfa & Hna & Hla & Hda & Hxa & Hea & _ & _ & Hca).
    destruct (Hinfo (Datatypes.S i) b Hib) as (sb & ab & xb & Hsb & Hfb & Hnb & Hlb & Hdb & Hxb & Heb & _ & Harb & Hcb).
    destruct (replay_step (pdur P) _ i aa ab xa Hna Hnb Hxa) as (y & Hy & Hfy). rewrite Hxb in Hy. injection Hy as <-.
    pose proof (cumdist_step (pdist P) _ i aa ab _ Hna Hnb Hca) as Hcs. rewrite Hcb in Hcs. injection Hcs as Hcs.
    destruct (nth_error_split2 _ i _ _ Hfa Hfb) as (l1 & l2 & Hsplit). rewrite <- Hflat in Hsplit.
    pose proof (Hreach _ _ _ _ Hsplit) as Hp. cbn [sfact fa_loc] in Hp.
    assert (La : act_loc a sa = ss_loc a).
    { pose proof (map_nth_error_eq a_loc fa_loc _ _ (proj1 (rebuild_align _ _ _ Hr)) i _ Hfa) as (aa' & Haa' & E).
      rewrite Hna in Haa'. injection Haa' as <-. cbn [sfact fa_loc] in E. congruence. }
    assert (Lb : act_loc b sb = ss_loc b).
    { pose proof (map_nth_error_eq a_loc fa_loc _ _ (proj1 (rebuild_align _ _ _ Hr)) (Datatypes.S i) _ Hfb) as (ab' & Hab' & E).
      rewrite Hnb in Hab'. injection Hab' as <-. cbn [sfact fa_loc] in E. congruence. }
    rewrite La, Lb in Hp.
    assert (Hpd : forall m, pmat_e P m (ss_loc a) (ss_loc b) = pmat (pr_n P) m (ss_loc a) (ss_loc b)).
    { intros m. unfold pmat_e. destruct (0 <? perr P (ss_loc a) (ss_loc b)) eqn:E; [apply Z.ltb_lt in E; lia|reflexivity]. }
    rewrite Hla, Hlb in Hfy, Hcs. unfold pdur in Hfy. unfold pdist in Hcs. rewrite Hpd in Hfy, Hcs.
    pose proof (Harb (Nat.neq_succ_0 i)) as Hab.
    split; [apply abs_le0; lia|]. intros _. apply abs_le0.
    destruct i as [|i]; [|lia].
    (* the first stop: its cumulative distance is 0 *)
    cbn [nth_error] in Hia. injection Hia as <-.
    assert (H0 : nth_error (replay_cumdist (pdist P) (rb_acts r)) 0 = Some 0).
    { destruct (rb_acts r) as [|s0 r0]; [discriminate Hn0|reflexivity]. }
    rewrite H0 in Hca. injection Hca as Hca. lia. }
  split; [exact Hlegs|].
  (* the last stop *)
  pose proof (nth_error_last (f :: rest) f Hne) as Hlast.
  assert (Hlf : last (f :: rest) f = last rest f) by (destruct rest; reflexivity).
  rewrite Hlf in Hlast.
  destruct (Hinfo _ _ Hlast)
    as (sl & al & xl & Hsl & Hfl & Hnl & Hll & Hdl & Hxl & Hel & _ & _ & Hcl).
  assert (Hacts : rb_acts r <> []) by (destruct (rb_acts r); [discriminate Hn0|discriminate]).
  assert (Hlen' : length (rb_acts r) = length (f :: rest)) by exact Hlen.
  split.
  - intros _. apply abs_le0. rewrite Hdist.
    pose proof (nth_error_last (replay_cumdist (pdist P) (rb_acts r)) 0) as Hlc.
    rewrite cumdist_length, Hlen' in Hlc. rewrite Hcl in Hlc.
    assert (Hcne : replay_cumdist (pdist P) (rb_acts r) <> []) by (destruct (rb_acts r); [contradiction|discriminate]).
    specialize (Hlc Hcne). injection Hlc as Hlc.
    destruct (rb_acts r) as [|s0 r0] eqn:Eacts; [contradiction|]. cbn [replay_cumdist tour_legs] in *.
    destruct rest as [|b rest'].
    + cbn [length] in Hlen'. destruct r0; [|discriminate Hlen']. cbn [legs_sum]. lia.
    + destruct r0 as [|a1 r1]; [discriminate Hlen'|].
      assert (Hl2 : last (0 :: cum_from (pdist P) (a_loc s0) 0 (a1 :: r1)) 0 = last (cum_from (pdist P) (a_loc s0) 0 (a1 :: r1)) 0)
        by (cbn [cum_from last]; reflexivity).
      rewrite Hl2, cum_from_last in Hlc. rewrite Hlc. lia.
  - apply abs_le0. rewrite Hdur.
    pose proof (nth_error_last (replay (pdur P) (rb_acts r)) (0, 0)) as Hlr.
    rewrite replay_length, Hlen' in Hlr. rewrite Hxl in Hlr.
    assert (Hrne : replay (pdur P) (rb_acts r) <> []) by (destruct (rb_acts r); [contradiction|discriminate]).
    specialize (Hlr Hrne). injection Hlr as Hlr.
    unfold replay_duration. destruct (rb_acts r) as [|s0 r0] eqn:Eacts; [contradiction|].
    rewrite <- Hlr. cbn [nth_error] in Hn0. injection Hn0 as <-.
    unfold tour_offset. rewrite Ha0. rewrite Hd0. unfold act_time. destruct (sa_time a0) as [[b e]|]; cbn [snd]; lia.
Qed.

Lemma valid_routing_rule P S : valid_b P S = [] -> single_act_stops S = true -> RoutingRule 0 P S.
Proof.
  intros HV Hs. split.
  - intros t Hin. destruct (In_nth_error _ _ Hin) as [k Hk].
    apply (valid_routing_tour P S k t _ HV Hk (single_act_stops_tour S t Hs Hin)).
  - pose proof HV as HV'. apply valid_b_nil in HV'. destruct HV' as (_ & _ & _ & HR & _).
    unfold replay_viol in HR. apply app_nil_iff in HR. destruct HR as [_ HT]. apply total_checks_eq in HT.
    unfold stat_sum, stat_fields in *. injection HT as _ H1 H2 _ _ _ _. auto.
Qed.

Lemma routing_rule_weaken P S : RoutingRule 0 P S -> RoutingRule 1 P S.
Proof.
  intros (Ht & E1 & E2). split; [|auto]. intros t Hin. destruct (Ht t Hin) as [Hv (f & rest & Hst & Hne & Hl & H1 & H2)].
  split; [exact Hv|]. exists f, rest. split; [exact Hst|]. split; [exact Hne|]. split.
  - intros i a b Ha Hb. destruct (Hl i a b Ha Hb) as [L1 L2]. split; [lia|]. intros Hs. specialize (L2 Hs). lia.
  - split; [intros Hs; specialize (H1 Hs); lia|lia].
Qed.

(* valid documents are not rejected by the routing rules *)
Lemma checker_routing_complete P S : valid_b P S = [] -> single_act_stops S = true -> locs_known P S = true ->
  check_routing P S = COk.
Proof.
  intros HV Hs Hk. apply checker_routing_iff; [|exact Hk|apply routing_rule_weaken, valid_routing_rule; assumption].
  apply valid_b_nil in HV. destruct HV as (HP & _). unfold precond_viol in HP. rewrite !app_nil_iff in HP.
  destruct HP as (_ & _ & HP). destruct (diag_zero P); [reflexivity|discriminate HP].
Qed.

(* ---- routing breaches *)
Lemma check_routing_ok P S : check_routing P S = COk <->
  try_each (routing_tour P (skip_distance_check S)) (sl_tours S) = KOk tt
  /\ st_dur (stat_sum S) = st_dur (sl_stat S) /\ st_dist (stat_sum S) = st_dist (sl_stat S).
Proof.
  unfold check_routing, check_routing_rules. rewrite combine_results_ok. split.
  - intros H. assert (H1 := H _ (or_introl eq_refl)). apply of_kres_ok in H1.
    destruct (try_each _ (sl_tours S)) as [[]|e]; [|discriminate H1]. cbn [kbind] in H1. split; [reflexivity|].
    unfold solution_statistic in H1. fold (stat_sum S) in H1.
    destruct (st_dur (stat_sum S) =? st_dur (sl_stat S)) eqn:E1; [|discriminate H1].
    destruct (st_dist (stat_sum S) =? st_dist (sl_stat S)) eqn:E2; [|discriminate H1].
    apply Z.eqb_eq in E1. apply Z.eqb_eq in E2. auto.
  - intros (Ht & E1 & E2) r [<-|[]]. apply of_kres_ok. rewrite Ht. cbn [kbind]. unfold solution_statistic. fold (stat_sum S).
    rewrite E1, E2, !Z.eqb_refl. reflexivity.
Qed.

Lemma checker_breach_stat_total P S f d : check_routing P S = COk -> d <> 0 -> (f = 1 \/ f = 2)%nat ->
  check_routing P (mutS (MStatTotal f d) S) <> COk.
Proof.
  intros H Hd Hf H'. apply check_routing_ok in H. apply check_routing_ok in H'. destruct H as (_ & E1 & E2). destruct H' as (_ & E1' & E2').
  cbn [mutS] in E1', E2'. unfold stat_sum in *. cbn [sl_tours sl_stat] in E1', E2'.
  destruct (sl_stat S) as [c0 c1 c2 c3 c4 c5 c6]. destruct Hf as [-> | ->]; cbn [add_stat st_dur st_dist] in *; lia.
Qed.

Lemma fold_stat_add_fields l : forall acc,
  st_dist (fold_left stat_add l acc) = st_dist acc + sumz (map st_dist l)
  /\ st_dur (fold_left stat_add l acc) = st_dur acc + sumz (map st_dur l).
Proof.
  induction l as [|x r IH]; intros acc; cbn [fold_left map sumz fold_right]; [lia|].
  destruct (IH (stat_add acc x)) as [H1 H2]. rewrite H1, H2. unfold sumz. cbn [stat_add st_dist st_dur]. lia.
Qed.

Lemma sumz_upd_nth {A} (g : A -> Z) (h : A -> A) : forall l k x, nth_error l k = Some x ->
  sumz (map g (upd_nth k h l)) = sumz (map g l) + (g (h x) - g x).
Proof.
  induction l as [|y r IH]; intros k x Hk; [destruct k; discriminate|].
  destruct k as [|k]; cbn [nth_error upd_nth map] in *; unfold sumz in *; cbn [fold_right].
  - injection Hk as <-. lia.
  - rewrite (IH k x Hk). lia.
Qed.

Lemma checker_breach_stat_tour P S k f d t : check_routing P S = COk -> d <> 0 -> (f = 1 \/ f = 2)%nat -> tour_at S k = Some t ->
  check_routing P (mutS (MStatTour k f d) S) <> COk.
Proof.
  intros H Hd Hf Hk H'. apply check_routing_ok in H. apply check_routing_ok in H'. destruct H as (_ & E1 & E2). destruct H' as (_ & E1' & E2').
  cbn [mutS] in E1', E2'. unfold stat_sum in *. cbn [set_tours sl_tours sl_stat] in E1', E2'. unfold tour_at in Hk.
  destruct (fold_stat_add_fields (map to_stat (sl_tours S)) stat0) as [F1 F2].
  destruct (fold_stat_add_fields (map to_stat (upd_nth k (set_tstat (add_stat f d)) (sl_tours S))) stat0) as [F1' F2'].
  rewrite map_map in F1, F2, F1', F2'.
  rewrite (sumz_upd_nth (fun x => st_dist (to_stat x)) _ _ k t Hk) in F1'.
  rewrite (sumz_upd_nth (fun x => st_dur (to_stat x)) _ _ k t Hk) in F2'.
  cbn [set_tstat to_stat] in F1', F2'. destruct (to_stat t) as [c0 c1 c2 c3 c4 c5 c6].
  destruct Hf as [-> | ->]; cbn [add_stat st_dur st_dist] in *; lia.
Qed.

(* a stop's arrival / cumulative distance moved by at least 2 (the tolerance is 1) in a document the reference accepts *)
Lemma locs_known_upd P S k s g : (forall st, ss_loc (g st) = ss_loc st) -> locs_known P S = true -> locs_known P (upd_stop k s g S) = true.
Proof.
  intros Hg. unfold locs_known, all_stops, upd_stop. cbn [set_tours sl_tours]. rewrite !forallb_forall. intros H st Hin.
  apply in_flat_map in Hin. destruct Hin as (t' & Ht' & Hst).
  assert (Hgen : forall (l : list stour) k t', In t' (upd_nth k (set_stops (upd_nth s g)) l) ->
                   In t' l \/ exists t0, In t0 l /\ t' = set_stops (upd_nth s g) t0).
  { induction l as [|y r IH]; intros [|k0] t0 Hin; cbn [upd_nth In] in *; try tauto.
    - destruct Hin as [<-|Hin]; [right; exists y; auto|left; auto].
    - destruct Hin as [<-|Hin]; [left; auto|]. destruct (IH _ _ Hin) as [H1|(t1 & H1 & H2)]; [left; auto|right; exists t1; auto]. }
  destruct (Hgen _ _ _ Ht') as [Hin|(t0 & Hin & ->)].
  - apply H. apply in_flat_map. exists t'. auto.
  - cbn [set_stops to_stops] in Hst.
    assert (Hg2 : forall (l : list sstop) s0 x, In x (upd_nth s0 g l) -> In x l \/ exists y, In y l /\ x = g y).
    { induction l as [|y r IH]; intros [|s0] x Hx; cbn [upd_nth In] in *; try tauto.
      - destruct Hx as [<-|Hx]; [right; exists y; auto|left; auto].
      - destruct Hx as [<-|Hx]; [left; auto|]. destruct (IH _ _ Hx) as [H1|(y1 & H1 & H2)]; [left; auto|right; exists y1; auto]. }
    destruct (Hg2 _ _ _ Hst) as [Hx|(y & Hy & ->)].
    + apply H. apply in_flat_map. exists t0. auto.
    + rewrite Hg. apply H. apply in_flat_map. exists t0. auto.
Qed.

Lemma valid_diag_zero P S : valid_b P S = [] -> diag_zero P = true.
Proof.
  intros HV. apply valid_b_nil in HV. destruct HV as (HP & _). unfold precond_viol in HP. rewrite !app_nil_iff in HP.
  destruct HP as (_ & _ & HP). destruct (diag_zero P); [reflexivity|discriminate HP].
Qed.

Lemma nth_error_upd_nth_neq' {A} (f : A -> A) l n m : n <> m -> nth_error (upd_nth n f l) m = nth_error l m.
Proof. apply nth_error_upd_nth_neq. Qed.

Lemma checker_breach_arrival P S k s d t a b : valid_b P S = [] -> single_act_stops S = true -> locs_known P S = true ->
  tour_at S k = Some t -> nth_error (to_stops t) s = Some a -> nth_error (to_stops t) (Datatypes.S s) = Some b -> 2 <= Z.abs d ->
  check_routing P (mutS (MArrival k (Datatypes.S s) d) S) <> COk.
Proof.
  intros HV Hs Hk Ht Ha Hb Hd H'. unfold tour_at in Ht.
  pose proof (valid_routing_rule P S HV Hs) as (Hex & _).
  destruct (Hex t (nth_error_In _ _ Ht)) as [_ (f & rest & Hst & _ & Hl & _)].
  destruct (Hl s a b Ha Hb) as [E _].
  cbn [mutS] in H'.
  apply (checker_routing_iff P _ (valid_diag_zero P S HV) (locs_known_upd P S k _ (add_arr d) (fun st => eq_refl) Hk)) in H'.
  destruct H' as (Hex' & _).
  assert (Hin' : In (set_stops (upd_nth (Datatypes.S s) (add_arr d)) t) (sl_tours (upd_stop k (Datatypes.S s) (add_arr d) S))).
  { cbn [upd_stop set_tours sl_tours]. eapply nth_error_In. apply nth_error_upd_nth_eq. exact Ht. }
  destruct (Hex' _ Hin') as [_ (f' & rest' & _ & _ & Hl' & _)]. cbn [set_stops to_stops] in Hl'.
  assert (Ha' : nth_error (upd_nth (Datatypes.S s) (add_arr d) (to_stops t)) s = Some a)
    by (rewrite nth_error_upd_nth_neq by lia; exact Ha).
  pose proof (nth_error_upd_nth_eq (add_arr d) _ _ _ Hb) as Hb'.
  destruct (Hl' s a (add_arr d b) Ha' Hb') as [E' _]. cbn [add_arr ss_arr ss_loc] in E'. lia.
Qed.

Lemma checker_breach_distance P S k s d t a b : valid_b P S = [] -> single_act_stops S = true -> locs_known P S = true ->
  tour_at S k = Some t -> nth_error (to_stops t) s = Some a -> nth_error (to_stops t) (Datatypes.S s) = Some b -> 2 <= Z.abs d ->
  skip_distance_check (mutS (MDistance k (Datatypes.S s) d) S) = false ->
  check_routing P (mutS (MDistance k (Datatypes.S s) d) S) <> COk.
Proof.
  intros HV Hs Hk Ht Ha Hb Hd Hskip H'. unfold tour_at in Ht.
  pose proof (valid_routing_rule P S HV Hs) as (Hex & _).
  destruct (Hex t (nth_error_In _ _ Ht)) as [_ (f & rest & Hst & _ & Hl & _)].
  destruct (Hl s a b Ha Hb) as [_ E].
  assert (E0 : (match s with O => 0 | S _ => ss_dist a end) + pmat (pr_n P) (pr_dist P) (ss_loc a) (ss_loc b) - ss_dist b = 0).
  { (* exactness does not depend on the skip flag *)
    destruct (valid_routing_tour P S k t false HV Ht (single_act_stops_tour S t Hs (nth_error_In _ _ Ht))) as [_ (f0 & r0 & _ & _ & Hl0 & _)].
    destruct (Hl0 s a b Ha Hb) as [_ E0]. specialize (E0 eq_refl). lia. }
  cbn [mutS] in H', Hskip.
  apply (checker_routing_iff P _ (valid_diag_zero P S HV) (locs_known_upd P S k _ (add_dist d) (fun st => eq_refl) Hk)) in H'.
  destruct H' as (Hex' & _).
  assert (Hin' : In (set_stops (upd_nth (Datatypes.S s) (add_dist d)) t) (sl_tours (upd_stop k (Datatypes.S s) (add_dist d) S))).
  { cbn [upd_stop set_tours sl_tours]. eapply nth_error_In. apply nth_error_upd_nth_eq. exact Ht. }
  destruct (Hex' _ Hin') as [_ (f' & rest' & _ & _ & Hl' & _)]. cbn [set_stops to_stops] in Hl'.
  assert (Ha' : nth_error (upd_nth (Datatypes.S s) (add_dist d) (to_stops t)) s = Some a)
    by (rewrite nth_error_upd_nth_neq by lia; exact Ha).
  pose proof (nth_error_upd_nth_eq (add_dist d) _ _ _ Hb) as Hb'.
  destruct (Hl' s a (add_dist d b) Ha' Hb') as [_ E']. specialize (E' Hskip). cbn [add_dist ss_dist ss_loc] in E'. lia.
Qed.

(* ================================================================== (b) capacity.rs *)
(* ---- a tour without reload STOPS and with at least one leg is one load interval *)

Lemma ivl_bounds_single : forall (xs : list (sstop * sstop)) k acc,
  forallb (fun ft => negb (is_reload_stop (snd ft))) xs = true -> xs <> [] ->
  ivl_bounds (combine (seq k (length xs)) xs) (k + length xs - 1) acc
  = Some (acc ++ [(match rev acc with item :: _ => (snd item + 2)%nat | [] => 0%nat end, (k + length xs - 1)%nat)]).
Proof.
  induction xs as [|[from to] r IH]; intros k acc Hnr Hne; [contradiction|].
  cbn [forallb snd] in Hnr. apply andb_true_iff in Hnr. destruct Hnr as [Hto Hr]. apply negb_true_iff in Hto.
  cbn [length seq combine ivl_bounds]. rewrite Hto. cbn [orb].
  destruct r as [|x r'].
  - cbn [length]. replace (k + 1 - 1)%nat with k by lia. rewrite Nat.eqb_refl. cbn [combine seq ivl_bounds]. reflexivity.
  - assert (Hk : (k =? k + S (length (x :: r')) - 1)%nat = false) by (apply Nat.eqb_neq; cbn [length]; lia).
    rewrite Hk. replace (k + S (length (x :: r')) - 1)%nat with (S k + length (x :: r') - 1)%nat by lia.
    apply IH; [exact Hr|discriminate].
Qed.

Lemma combine_tl_length {A} (l : list A) : length (combine l (tl l)) = (length l - 1)%nat.
Proof. rewrite combine_length. destruct l; cbn [tl length]; lia. Qed.

Lemma get_intervals_single t : no_reload_stop t = true -> (2 <= length (to_stops t))%nat ->
  get_intervals t = Some [legs_of (to_stops t)].
Proof.
  intros Hnr Hlen. unfold get_intervals, legs_of, enum, leg. cbv zeta.
  set (xs := combine (to_stops t) (tl (to_stops t))).
  assert (Hxl : length xs = (length (to_stops t) - 1)%nat) by apply combine_tl_length.
  assert (Hxs : xs <> []) by (intros E; rewrite E in Hxl; cbn [length] in Hxl; lia).
  assert (Hto : forallb (fun ft => negb (is_reload_stop (snd ft))) xs = true).
  { apply forallb_forall. intros [a b] Hin. cbn [snd]. unfold no_reload_stop in Hnr. rewrite forallb_forall in Hnr. apply Hnr.
    apply in_combine_r in Hin. destruct (to_stops t); [destruct Hin|right; exact Hin]. }
  assert (Hl : length (combine (seq 0 (length xs)) xs) = length xs) by (rewrite combine_length, seq_length; apply Nat.min_id).
  rewrite Hl.
  pose proof (ivl_bounds_single xs 0 [] Hto Hxs) as Hb. cbn [rev app] in Hb. rewrite Nat.add_0_l in Hb. rewrite Hb.
  cbn [ivl_slices]. destruct (length xs - 1 <? 0)%nat eqn:E; [apply Nat.ltb_lt in E; lia|].
  cbn [skipn]. rewrite Nat.sub_0_r. replace (length xs - 1 + 1)%nat with (length (combine (seq 0 (length xs)) xs)) by lia.
  rewrite firstn_all. reflexivity.
Qed.

Lemma load_assignment_ok P : forall tours, load_assignment P tours = ROk ->
  forall t, In t tours -> exists vt ivs, get_vehicle P (to_vehicle t) = KOk vt /\ get_intervals t = Some ivs
                                         /\ load_intervals P t (capacity_of vt) [] ivs = KOk tt.
Proof.
  induction tours as [|x r IH]; intros H t Hin; [destruct Hin|]. cbn [load_assignment] in H.
  destruct (get_vehicle P (to_vehicle x)) as [vt|e] eqn:Hv; [|discriminate H].
  destruct (get_intervals x) as [ivs|] eqn:Hi; [|discriminate H].
  destruct (load_intervals P x (capacity_of vt) [] ivs) as [[]|e] eqn:Hl; [|discriminate H].
  destruct Hin as [<-|Hin]; [exists vt, ivs; auto|apply IH; assumption].
Qed.

Lemma check_vehicle_load_ok P S : check_vehicle_load P S = COk -> load_assignment P (sl_tours S) = ROk.
Proof. unfold check_vehicle_load. rewrite combine_results_ok. intros H. apply H. left. reflexivity. Qed.

(* what an accepted interval says, leg by leg *)
Lemma interval_legs_sound P t cap ep : forall legs acc e, interval_legs P t cap ep acc legs = KOk e ->
  (match legs with (idx, (from, _)) :: _ => veq (stop_load t idx from) acc = true | [] => True end)
  /\ forall j idx from to, nth_error legs j = Some (idx, (from, to)) ->
       vfit cap (stop_load t idx from) = true /\ vfit cap (stop_load t (Datatypes.S idx) to) = true
       /\ exists ch, stop_change P t to ep [] (ss_acts to) = KOk ch
                     /\ veq (stop_load t (Datatypes.S idx) to) (vadd (stop_load t idx from) ch) = true.
Proof.
  induction legs as [|[idx [from to]] r IH]; intros acc e H.
  - split; [exact I|]. intros j idx from to Hj. destruct j; discriminate Hj.
  - cbn [interval_legs] in H.
    destruct (negb (vfit cap (stop_load t idx from)) || negb (vfit cap (stop_load t (Datatypes.S idx) to))) eqn:Hfit; [discriminate H|].
    apply orb_false_iff in Hfit. destruct Hfit as [F1 F2]. apply negb_false_iff in F1. apply negb_false_iff in F2.
    destruct (stop_change P t to ep [] (ss_acts to)) as [ch|e0] eqn:Hch; [|discriminate H]. cbn [kbind] in H.
    destruct (veq (stop_load t idx from) acc && veq (stop_load t (Datatypes.S idx) to) (vadd (stop_load t idx from) ch)) eqn:Hv; [|discriminate H].
    apply andb_true_iff in Hv. destruct Hv as [V1 V2]. destruct (IH _ _ H) as [_ IH2].
    split; [exact V1|]. intros j idx' from' to' Hj. destruct j as [|j]; cbn [nth_error] in Hj.
    + injection Hj as <- <- <-. split; [exact F1|]. split; [exact F2|]. exists ch. auto.
    + apply (IH2 j _ _ _ Hj).
Qed.

Lemma legs_of_nth (stops : list sstop) j a b : nth_error stops j = Some a -> nth_error stops (Datatypes.S j) = Some b ->
  nth_error (legs_of stops) j = Some (j, (a, b)).
Proof.
  intros Ha Hb. unfold legs_of, enum, leg.
  assert (Hc : nth_error (combine stops (tl stops)) j = Some (a, b)).
  { clear -Ha Hb. revert j Ha Hb. induction stops as [|x r IH]; intros j Ha Hb; [destruct j; discriminate|].
    destruct j as [|j]; cbn [nth_error tl] in *.
    - injection Ha as <-. destruct r as [|y r']; [discriminate|]. injection Hb as <-. reflexivity.
    - destruct r as [|y r']; [destruct j; discriminate|]. cbn [combine nth_error]. apply (IH j Ha Hb). }
  assert (Hgen : forall (A : Type) (l : list A) k j x, nth_error l j = Some x -> nth_error (combine (seq k (length l)) l) j = Some ((k + j)%nat, x)).
  { intros A l. induction l as [|y r IH]; intros k j0 x Hx; [destruct j0; discriminate|].
    destruct j0 as [|j0]; cbn [nth_error length seq combine] in *.
    - injection Hx as <-. rewrite Nat.add_0_r. reflexivity.
    - rewrite (IH (Datatypes.S k) j0 x Hx). f_equal. f_equal. lia. }
  rewrite (Hgen _ _ 0%nat j _ Hc). reflexivity.
Qed.

Lemma vfit_head c cap y l : vfit (c :: cap) (y :: l) = true -> y <= c.
Proof. unfold vfit. cbn [vall2]. intros H. apply andb_true_iff in H. destruct H as [H _]. apply Z.leb_le. exact H. Qed.

(* load above capacity (Mutations.MCapacity): the capacity of the tour's vehicle type just below the load reported at a stop *)
Lemma checker_breach_capacity P S k s t st : ctx_frag P S = true -> tour_at S k = Some t -> nth_error (to_stops t) s = Some st ->
  no_reload_stop t = true -> (2 <= length (to_stops t))%nat ->
  check_vehicle_load (mutP (MCapacity k s) P S) (mutS (MCapacity k s) S) <> COk.
Proof.
  intros Hctx Hk Hs Hnr Hlen Hok. cbn [mutP mutS] in Hok. unfold stop_at in Hok. rewrite Hk, Hs in Hok. unfold tour_at in Hk.
  apply check_vehicle_load_ok in Hok.
  destruct (load_assignment_ok _ _ Hok t (nth_error_In _ _ Hk)) as (vt' & ivs & Hv' & Hi & Hl).
  destruct (tour_ctx_spec P t (ctx_frag_tour _ _ _ _ Hctx Hk)) as (vt & sh & Hv & _ & _ & Hid & _).
  rewrite (get_vehicle_upd P (to_type t) (set_cap (ss_load st - 1)) _ vt (fun x => eq_refl) Hv) in Hv'.
  rewrite Hid, Z.eqb_refl in Hv'. injection Hv' as <-.
  rewrite (get_intervals_single t Hnr Hlen) in Hi. injection Hi as <-. cbn [load_intervals] in Hl.
  destruct (interval_totals _ t ([], []) _) as [se|e]; [|discriminate Hl]. cbn [kbind] in Hl.
  destruct (interval_legs _ t _ (snd se) (fst se) (legs_of (to_stops t))) as [ec|e] eqn:Hlegs; [|discriminate Hl].
  destruct (interval_legs_sound _ _ _ _ _ _ _ Hlegs) as [_ Hall].
  unfold capacity_of in Hall. cbn [set_cap vt_cap vt_xcap] in Hall.
  destruct s as [|s'].
  - destruct (nth_error (to_stops t) 1) as [b|] eqn:Hb; [|apply nth_error_None in Hb; lia].
    destruct (Hall 0%nat _ _ _ (legs_of_nth _ 0 st b Hs Hb)) as (F1 & _). apply vfit_head in F1. lia.
  - destruct (nth_error (to_stops t) s') as [a|] eqn:Ha.
    2:{ apply nth_error_None in Ha. assert (Datatypes.S s' < length (to_stops t))%nat by (apply nth_error_Some; congruence). lia. }
    destruct (Hall s' _ _ _ (legs_of_nth _ s' a st Ha Hs)) as (_ & F2 & _). apply vfit_head in F2. lia.
Qed.

(* ---- the activity type the checker attributes does not depend on the reported loads *)
Lemma last_map {A B} (g : A -> B) l d : g (last l d) = last (map g l) (g d).
Proof. induction l as [|x r IH]; [reflexivity|]. cbn [map last]. destruct r; [reflexivity|exact IH]. Qed.

Lemma get_vehicle_shift_ext P t t' : to_vehicle t' = to_vehicle t -> map ss_arr (to_stops t') = map ss_arr (to_stops t) ->
  get_vehicle_shift P t' = get_vehicle_shift P t.
Proof.
  intros Hv Hm. unfold get_vehicle_shift. rewrite Hv.
  destruct (to_stops t') as [|f' r']; destruct (to_stops t) as [|f r]; try discriminate Hm; [reflexivity|].
  rewrite (last_map ss_arr (f' :: r') f'), (last_map ss_arr (f :: r) f), Hm. cbn [map] in Hm. injection Hm as -> _. reflexivity.
Qed.

Lemma break_tw_ext t t' b : first_stop_departure t' = first_stop_departure t -> break_tw t' b = break_tw t b.
Proof. unfold break_tw. intros ->. reflexivity. Qed.

Definition same_stop (st' st : sstop) : Prop :=
  ss_loc st' = ss_loc st /\ ss_arr st' = ss_arr st /\ ss_dep st' = ss_dep st /\ ss_acts st' = ss_acts st.

Lemma get_activity_type_ext P t t' st st' a :
  to_vehicle t' = to_vehicle t -> map ss_arr (to_stops t') = map ss_arr (to_stops t) ->
  first_stop_departure t' = first_stop_departure t -> same_stop st' st ->
  get_activity_type P t' st' a = get_activity_type P t st a.
Proof.
  intros Hv Hm Hd (E1 & E2 & E3 & _). unfold get_activity_type. rewrite (get_vehicle_shift_ext P t t' Hv Hm).
  destruct (get_vehicle_shift P t) as [sh|e]; [|reflexivity]. cbn [kbind].
  unfold act_time, act_loc. rewrite E1, E2, E3.
  assert (Hb : forall b, break_tw t' b = break_tw t b) by (intros b; apply break_tw_ext; exact Hd).
  repeat match goal with |- context [if ?c then _ else _] => destruct c; [reflexivity|] end.
  destruct (sa_kind a =? 12).
  - assert (Hf : forall l, find (fun b => match break_tw t' b with Some w => tw_intersects w (match sa_time a with Some t0 => t0 | None => (ss_arr st, ss_dep st) end) | None => false end) l
                         = find (fun b => match break_tw t b with Some w => tw_intersects w (match sa_time a with Some t0 => t0 | None => (ss_arr st, ss_dep st) end) | None => false end) l).
    { induction l as [|b r IH]; [reflexivity|]. cbn [find]. rewrite Hb, IH. reflexivity. }
    rewrite Hf. reflexivity.
  - reflexivity.
Qed.

Section LoadExt.
Variables (P : pproblem) (t t' : stour).
Hypothesis Hv : to_vehicle t' = to_vehicle t.
Hypothesis Hm : map ss_arr (to_stops t') = map ss_arr (to_stops t).
Hypothesis Hd : first_stop_departure t' = first_stop_departure t.

Lemma interval_totals_ext : forall l l' acc, Forall2 (fun x' x => same_stop (fst x') (fst x) /\ snd x' = snd x) l' l ->
  interval_totals P t' acc l' = interval_totals P t acc l.
Proof.
  intros l l' acc H. revert acc. induction H as [|[st' a'] [st a] r' r [Hs Ha] _ IH]; intros acc; [reflexivity|].
  cbn [fst snd] in Hs, Ha. subst a'. cbn [interval_totals]. rewrite (get_activity_type_ext P t t' st st' a Hv Hm Hd Hs).
  destruct (get_activity_type P t st a) as [ty|e]; [|reflexivity]. cbn [kbind].
  destruct (get_demand a ty) as [[dt dd]|e]; [|reflexivity]. cbn [kbind]. apply IH.
Qed.

Lemma stop_change_ext to to' ep : same_stop to' to -> forall l acc, stop_change P t' to' ep acc l = stop_change P t to ep acc l.
Proof.
  intros Hs. induction l as [|a r IH]; intros acc; [reflexivity|]. cbn [stop_change].
  rewrite (get_activity_type_ext P t t' to to' a Hv Hm Hd Hs).
  destruct (get_activity_type P t to a) as [ty|e]; [|reflexivity]. cbn [kbind].
  destruct (if (sa_kind a =? 11) || (sa_kind a =? 13) then KOk (DStaticDelivery, ep) else get_demand a ty) as [[dt dd]|e]; [|reflexivity].
  cbn [kbind]. apply IH.
Qed.
End LoadExt.

Lemma same_stop_add_load d st : same_stop (add_load d st) st.
Proof. repeat split. Qed.
Lemma same_stop_refl st : same_stop st st.
Proof. repeat split. Qed.

Lemma upd_nth_map_eq {A B} (g : A -> B) (h : A -> A) : (forall x, g (h x) = g x) -> forall l s, map g (upd_nth s h l) = map g l.
Proof.
  intros Hg. induction l as [|x r IH]; intros s; destruct s; cbn [upd_nth map]; try reflexivity.
  - rewrite Hg. reflexivity.
  - rewrite IH. reflexivity.
Qed.

Lemma upd_nth_length {A} (h : A -> A) : forall l s, length (upd_nth s h l) = length l.
Proof. induction l as [|x r IH]; intros s; destruct s; cbn [upd_nth length]; try reflexivity. rewrite IH. reflexivity. Qed.

Lemma veq_shift x d xs v : veq (x :: xs) v = true -> veq ((x + d) :: xs) v = true -> d = 0.
Proof.
  unfold veq. destruct v as [|y v']; cbn [vall2]; intros H1 H2; apply andb_true_iff in H1; apply andb_true_iff in H2;
    destruct H1 as [H1 _]; destruct H2 as [H2 _]; apply Z.eqb_eq in H1; apply Z.eqb_eq in H2; lia.
Qed.

Lemma map_snd_combine_tl {A} (l : list A) : map snd (combine l (tl l)) = tl l.
Proof.
  induction l as [|a r IH]; [reflexivity|]. destruct r as [|b r']; [reflexivity|].
  change (combine (a :: b :: r') (tl (a :: b :: r'))) with ((a, b) :: combine (b :: r') (tl (b :: r'))).
  cbn [map snd tl]. f_equal. exact IH.
Qed.
Lemma map_enum_snd {A B} (g : A -> B) (xs : list A) : forall k, map (fun l => g (snd l)) (combine (seq k (length xs)) xs) = map g xs.
Proof. induction xs as [|x r IH]; intros k; [reflexivity|]. cbn [length seq combine map snd]. rewrite IH. reflexivity. Qed.
Lemma interval_stops_legs (stops : list sstop) : (2 <= length stops)%nat -> interval_stops (legs_of stops) = stops.
Proof.
  intros H2. destruct stops as [|a [|b r]]; cbn [length] in H2; try lia. unfold legs_of, enum, leg.
  change (combine (a :: b :: r) (tl (a :: b :: r))) with ((a, b) :: combine (b :: r) (tl (b :: r))).
  set (xs := combine (b :: r) (tl (b :: r))).
  change (length ((a, b) :: xs)) with (S (length xs)).
  change (seq 0 (S (length xs))) with (0%nat :: seq 1 (length xs)).
  change (combine (0%nat :: seq 1 (length xs)) ((a, b) :: xs)) with ((0%nat, (a, b)) :: combine (seq 1 (length xs)) xs).
  unfold interval_stops. f_equal.
  change (map (fun l : nat * (sstop * sstop) => snd (snd l)) ((0%nat, (a, b)) :: combine (seq 1 (length xs)) xs))
    with (b :: map (fun l : nat * (sstop * sstop) => snd (snd l)) (combine (seq 1 (length xs)) xs)).
  f_equal. rewrite (map_enum_snd snd). apply (map_snd_combine_tl (b :: r)).
Qed.

Lemma pairs_same y' y l : same_stop y' y ->
  Forall2 (fun x' x : sstop * sact => same_stop (fst x') (fst x) /\ snd x' = snd x) (map (fun a => (y', a)) l) (map (fun a => (y, a)) l).
Proof. intros Hy. induction l as [|a l IH]; [constructor|]. cbn [map]. constructor; [|exact IH]. cbn [fst snd]. auto. Qed.

Lemma sacts_upd_same d : forall l s,
  Forall2 (fun x' x : sstop * sact => same_stop (fst x') (fst x) /\ snd x' = snd x)
          (flat_map (fun st0 => map (fun a => (st0, a)) (ss_acts st0)) (upd_nth s (add_load d) l))
          (flat_map (fun st0 => map (fun a => (st0, a)) (ss_acts st0)) l).
Proof.
  induction l as [|y r IH]; intros s; [destruct s; constructor|].
  destruct s as [|s]; cbn [upd_nth flat_map].
  - apply Forall2_app; [apply (pairs_same (add_load d y) y (ss_acts y)), same_stop_add_load|].
    clear. induction r as [|z r IH]; [constructor|]. cbn [flat_map]. apply Forall2_app; [apply pairs_same, same_stop_refl|exact IH].
  - apply Forall2_app; [apply pairs_same, same_stop_refl|apply IH].
Qed.

(* misreported load (Mutations.MLoad): a document whose loads the rule accepts is rejected once one reported load is changed *)
Lemma checker_breach_load P S k s d t st : check_vehicle_load P S = COk -> d <> 0 ->
  tour_at S k = Some t -> nth_error (to_stops t) s = Some st -> no_reload_stop t = true -> (2 <= length (to_stops t))%nat ->
  check_vehicle_load P (mutS (MLoad k s d) S) <> COk.
Proof.
  intros Hok Hd Hk Hs Hnr Hlen Hok'. unfold tour_at in Hk. cbn [mutS] in Hok'.
  apply check_vehicle_load_ok in Hok. apply check_vehicle_load_ok in Hok'.
  remember (set_stops (upd_nth s (add_load d)) t) as t' eqn:Et'.
  assert (Hin' : In t' (sl_tours (upd_stop k s (add_load d) S))).
  { rewrite Et'. cbn [upd_stop set_tours sl_tours]. eapply nth_error_In. apply nth_error_upd_nth_eq. exact Hk. }
  destruct (load_assignment_ok _ _ Hok t (nth_error_In _ _ Hk)) as (vt & ivs & Hv & Hi & Hl).
  destruct (load_assignment_ok _ _ Hok' t' Hin') as (vt' & ivs' & Hv' & Hi' & Hl').
  assert (Ext1 : to_vehicle t' = to_vehicle t) by (rewrite Et'; reflexivity).
  rewrite Ext1, Hv in Hv'. injection Hv' as <-.
  assert (Hstops' : to_stops t' = upd_nth s (add_load d) (to_stops t)) by (rewrite Et'; reflexivity).
  assert (Hacts : map ss_acts (to_stops t') = map ss_acts (to_stops t)) by (rewrite Hstops'; apply upd_nth_map_eq; reflexivity).
  assert (Hnr' : no_reload_stop t' = true).
  { unfold no_reload_stop in *. rewrite forallb_forall in *. intros x Hx. rewrite Hstops' in Hx.
    assert (Hg : forall (l : list sstop) s0 x, In x (upd_nth s0 (add_load d) l) -> exists y, In y l /\ ss_acts x = ss_acts y).
    { induction l as [|y r IH]; intros [|s0] x0 Hx0; cbn [upd_nth In] in *; try tauto.
      - destruct Hx0 as [<-|Hx0]; [exists y; auto|exists x0; auto].
      - destruct Hx0 as [<-|Hx0]; [exists y; auto|]. destruct (IH _ _ Hx0) as (y0 & H1 & H2). exists y0. auto. }
    destruct (Hg _ _ _ Hx) as (y & Hy & Ey). unfold is_reload_stop. rewrite Ey. apply (Hnr y Hy). }
  assert (Hlen' : (2 <= length (to_stops t'))%nat) by (rewrite Hstops', upd_nth_length; exact Hlen).
  rewrite (get_intervals_single t Hnr Hlen) in Hi. injection Hi as <-.
  rewrite (get_intervals_single t' Hnr' Hlen') in Hi'. injection Hi' as <-.
  cbn [load_intervals] in Hl, Hl'.
  assert (Ext2 : map ss_arr (to_stops t') = map ss_arr (to_stops t)) by (rewrite Hstops'; apply upd_nth_map_eq; reflexivity).
  assert (Ext3 : first_stop_departure t' = first_stop_departure t).
  { unfold first_stop_departure. rewrite Hstops'. destruct (to_stops t) as [|f r]; [destruct s; reflexivity|]. destruct s; reflexivity. }
  (* the stops of the single interval: all stops *)
  assert (Hist : forall stops : list sstop, (2 <= length stops)%nat -> interval_stops (legs_of stops) = stops).
  { intros stops H2. apply interval_stops_legs. exact H2. }
  rewrite (Hist _ Hlen) in Hl. rewrite (Hist _ Hlen') in Hl'.
  assert (HF : Forall2 (fun x' x => same_stop (fst x') (fst x) /\ snd x' = snd x)
                       (flat_map (fun st0 => map (fun a => (st0, a)) (ss_acts st0)) (to_stops t'))
                       (flat_map (fun st0 => map (fun a => (st0, a)) (ss_acts st0)) (to_stops t))).
  { rewrite Hstops'. apply sacts_upd_same. }
  rewrite (interval_totals_ext P t t' Ext1 Ext2 Ext3 _ _ ([], []) HF) in Hl'.
  destruct (interval_totals P t ([], []) _) as [se|e]; [|discriminate Hl]. cbn [kbind] in Hl, Hl'.
  destruct (interval_legs P t (capacity_of vt) (snd se) (fst se) (legs_of (to_stops t))) as [ec|e] eqn:Hlegs; [|discriminate Hl].
  destruct (interval_legs P t' (capacity_of vt) (snd se) (fst se) (legs_of (to_stops t'))) as [ec'|e] eqn:Hlegs'; [|discriminate Hl'].
  destruct (interval_legs_sound _ _ _ _ _ _ _ Hlegs) as [Hfirst Hall].
  destruct (interval_legs_sound _ _ _ _ _ _ _ Hlegs') as [Hfirst' Hall'].
  assert (Hxl : forall i x, stop_load t' i x = ss_load x :: map (fun xs => nth i xs 0) (to_xload t)) by (intros; rewrite Et'; reflexivity).
  destruct s as [|j].
  - destruct (nth_error (to_stops t) 1) as [b|] eqn:Hb; [|apply nth_error_None in Hb; lia].
    pose proof (legs_of_nth _ 0 st b Hs Hb) as L.
    assert (Hs' : nth_error (to_stops t') 0 = Some (add_load d st)) by (rewrite Hstops'; apply nth_error_upd_nth_eq; exact Hs).
    assert (Hb' : nth_error (to_stops t') 1 = Some b) by (rewrite Hstops', nth_error_upd_nth_neq by lia; exact Hb).
    pose proof (legs_of_nth _ 0 _ b Hs' Hb') as L'.
    destruct (legs_of (to_stops t)) as [|[i0 [f0 t0]] lr]; [discriminate L|]. cbn [nth_error] in L. injection L as -> -> ->.
    destruct (legs_of (to_stops t')) as [|[i0 [f0 t0]] lr']; [discriminate L'|]. cbn [nth_error] in L'. injection L' as -> -> ->.
    rewrite Hxl in Hfirst'. unfold stop_load in Hfirst. cbn [add_load ss_load] in Hfirst'.
    apply Hd. exact (veq_shift _ _ _ _ Hfirst Hfirst').
  - destruct (nth_error (to_stops t) j) as [a|] eqn:Ha.
    2:{ apply nth_error_None in Ha. assert (Datatypes.S j < length (to_stops t))%nat by (apply nth_error_Some; congruence). lia. }
    assert (Ha' : nth_error (to_stops t') j = Some a) by (rewrite Hstops', nth_error_upd_nth_neq by lia; exact Ha).
    assert (Hs' : nth_error (to_stops t') (Datatypes.S j) = Some (add_load d st)) by (rewrite Hstops'; apply nth_error_upd_nth_eq; exact Hs).
    destruct (Hall j _ _ _ (legs_of_nth _ j a st Ha Hs)) as (_ & _ & ch & Hch & V).
    destruct (Hall' j _ _ _ (legs_of_nth _ j a _ Ha' Hs')) as (_ & _ & ch' & Hch' & V').
    rewrite (stop_change_ext P t t' Ext1 Ext2 Ext3 st (add_load d st) (snd se) (same_stop_add_load d st)) in Hch'.
    cbn [add_load ss_acts] in Hch'. rewrite Hch in Hch'. injection Hch' as <-.
    rewrite !Hxl in V'. unfold stop_load in V. cbn [add_load ss_load] in V'.
    apply Hd. exact (veq_shift _ _ _ _ V V').
Qed.

(* ================================================================== (d) assignment.rs *)
Definition infos (used : list jasg) : list (Z * (Z * nat)) := map (fun u => (ja_job u, ja_tour u)) used.

Lemma asg_add_infos j ti k i : forall used used', asg_add j ti k i used = Some used' ->
  In (j, ti) (infos used') /\ incl (infos used) (infos used')
  /\ (NoDup (map fst (infos used)) -> NoDup (map fst (infos used')))
  /\ (forall x, In x (map fst (infos used')) -> x = j \/ In x (map fst (infos used))).
Proof.
  induction used as [|u r IH]; intros used' H; cbn [asg_add] in H.
  - injection H as <-. cbn [infos map ja_job ja_tour]. split; [left; reflexivity|]. split; [intros x []|].
    split; [intros _; constructor; [intros []|constructor]|]. intros x [<-|[]]. left. reflexivity.
  - destruct (ja_job u =? j) eqn:Ej.
    + destruct ((fst (ja_tour u) =? fst ti) && (snd (ja_tour u) =? snd ti)%nat) eqn:Et; [|discriminate H]. injection H as <-.
      apply Z.eqb_eq in Ej. apply andb_true_iff in Et. destruct Et as [E1 E2]. apply Z.eqb_eq in E1. apply Nat.eqb_eq in E2.
      assert (Hti : ja_tour u = ti) by (destruct (ja_tour u), ti; cbn [fst snd] in *; congruence).
      cbn [infos map ja_job ja_tour]. rewrite Hti, <- Ej.
      split; [left; reflexivity|]. split; [intros x Hx; exact Hx|]. split; [intros Hn; exact Hn|].
      intros x Hx. right. exact Hx.
    + destruct (asg_add j ti k i r) as [r'|] eqn:Hr; [|discriminate H]. injection H as <-.
      destruct (IH r' eq_refl) as (I1 & I2 & I3 & I4). cbn [infos map]. fold (infos r). fold (infos r').
      split; [right; exact I1|]. split; [intros x [<-|Hx]; [left; reflexivity|right; apply I2; exact Hx]|]. split.
      * cbn [map fst]. intros Hn. inversion Hn as [|? ? Hnot Hn']. subst. constructor; [|apply I3; exact Hn'].
        intros Hin. destruct (I4 _ Hin) as [E|Hin']; [apply Z.eqb_neq in Ej; congruence|contradiction].
      * cbn [map fst]. intros x [<-|Hx]; [right; left; reflexivity|]. destruct (I4 x Hx) as [E|Hin]; [left; exact E|right; right; exact Hin].
Qed.

Lemma asg_acts_infos ti : forall l used used', asg_acts ti l used = Some used' ->
  (forall i a, In (i, a) l -> In (sa_job a, ti) (infos used')) /\ incl (infos used) (infos used')
  /\ (NoDup (map fst (infos used)) -> NoDup (map fst (infos used'))).
Proof.
  induction l as [|[i a] r IH]; intros used used' H; cbn [asg_acts] in H.
  - injection H as <-. split; [intros i a []|]. split; [intros x Hx; exact Hx|auto].
  - destruct (asg_add (sa_job a) ti (sa_kind a) i used) as [u1|] eqn:Ha; [|discriminate H].
    destruct (asg_add_infos _ _ _ _ _ _ Ha) as (A1 & A2 & A3 & _). destruct (IH _ _ H) as (B1 & B2 & B3).
    split; [|split; [intros x Hx; apply B2, A2; exact Hx|intros Hn; apply B3, A3; exact Hn]].
    intros i0 a0 [E|Hin]; [injection E as <- <-; apply B2; exact A1|apply (B1 i0 a0 Hin)].
Qed.

Lemma asg_tours_infos : forall l used used', asg_tours l used = Some used' ->
  (forall t i a, In t l -> In (i, a) (job_sacts t) -> In (sa_job a, (to_vehicle t, to_shift t)) (infos used'))
  /\ incl (infos used) (infos used') /\ (NoDup (map fst (infos used)) -> NoDup (map fst (infos used'))).
Proof.
  induction l as [|t r IH]; intros used used' H; cbn [asg_tours] in H.
  - injection H as <-. split; [intros t i a []|]. split; [intros x Hx; exact Hx|auto].
  - destruct (asg_acts (to_vehicle t, to_shift t) (job_sacts t) used) as [u1|] eqn:Ha; [|discriminate H].
    destruct (asg_acts_infos _ _ _ _ Ha) as (A1 & A2 & A3). destruct (IH _ _ H) as (B1 & B2 & B3).
    split; [|split; [intros x Hx; apply B2, A2; exact Hx|intros Hn; apply B3, A3; exact Hn]].
    intros t0 i a [<-|Hin] Hia; [apply B2, (A1 i a Hia)|apply (B1 t0 i a Hin Hia)].
Qed.

Lemma nodup_fst_fun {A B} (l : list (A * B)) a b b' : NoDup (map fst l) -> In (a, b) l -> In (a, b') l -> b = b'.
Proof.
  induction l as [|[x y] r IH]; intros Hn H1 H2; [destruct H1|]. cbn [map fst] in Hn. inversion Hn as [|? ? Hnot Hn']. subst.
  destruct H1 as [E1|H1]; destruct H2 as [E2|H2].
  - congruence.
  - injection E1 as -> ->. exfalso. apply Hnot. apply in_map_iff. exists (a, b'). auto.
  - injection E2 as -> ->. exfalso. apply Hnot. apply in_map_iff. exists (a, b). auto.
  - apply IH; assumption.
Qed.

(* every job activity of a tour is indexed by job_sacts *)
Lemma job_sacts_in t a : In a (flat_map ss_acts (to_stops t)) -> is_job_kind (sa_kind a) = true -> exists i, In (i, a) (job_sacts t).
Proof.
  intros Hin Hk. unfold job_sacts, enum. apply In_nth_error in Hin. destruct Hin as [i Hi]. exists i.
  apply filter_In. split; [|exact Hk].
  assert (Hgen : forall (A : Type) (l : list A) k j x, nth_error l j = Some x -> In ((k + j)%nat, x) (combine (seq k (length l)) l)).
  { intros A l. induction l as [|y r IH]; intros k j x Hx; [destruct j; discriminate|].
    destruct j as [|j]; cbn [nth_error length seq combine] in *.
    - injection Hx as <-. left. rewrite Nat.add_0_r. reflexivity.
    - right. replace (k + Datatypes.S j)%nat with (Datatypes.S k + j)%nat by lia. apply IH. exact Hx. }
  apply (Hgen _ _ 0%nat i a Hi).
Qed.

Lemma check_assignment_parts P S : check_assignment P S = COk ->
  check_vehicles P S = KOk tt /\ check_jobs_presence P S = ROk /\ check_groups P S = KOk tt.
Proof.
  unfold check_assignment. rewrite combine_results_ok. intros H.
  split; [apply of_kres_ok, H; left; reflexivity|]. split; [apply H; right; left; reflexivity|].
  apply of_kres_ok, H. right. right. left. reflexivity.
Qed.

(* what an accepted check_jobs_presence says *)
Lemma jobs_presence_ok P S : check_jobs_presence P S = ROk ->
  exists used, asg_tours (sl_tours S) [] = Some used
    /\ (forall u, In u used -> used_job_error P u = [])
    /\ NoDup (map fst (sl_unassigned S))
    /\ (forall j, In j (map fst (sl_unassigned S)) -> unassigned_error P used j = [])
    /\ (length (sl_unassigned S) + length used = length (pr_jobs P))%nat.
Proof.
  unfold check_jobs_presence. destruct (asg_tours (sl_tours S) []) as [used|]; [|discriminate]. intros H. exists used.
  split; [reflexivity|].
  destruct (flat_map (used_job_error P) used) as [|e r] eqn:Hu; [|discriminate H].
  split; [intros u Hin; apply (proj1 (flat_map_nil_iff _ _) Hu u Hin)|].
  destruct (negb (length (nodup Z.eq_dec (map fst (sl_unassigned S))) =? length (map fst (sl_unassigned S)))%nat) eqn:Hl; [discriminate H|].
  apply negb_false_iff, Nat.eqb_eq in Hl.
  assert (Hnd : NoDup (map fst (sl_unassigned S))).
  { clear -Hl. remember (map fst (sl_unassigned S)) as l. clear Heql. revert Hl. induction l as [|x r IH]; intros Hl; [constructor|].
    cbn [nodup] in Hl. destruct (in_dec Z.eq_dec x r) as [Hin|Hnin].
    - exfalso.
      assert (Hle : (length (nodup Z.eq_dec r) <= length r)%nat).
      { clear. induction r as [|y r IH]; [cbn; lia|]. cbn [nodup]. destruct (in_dec Z.eq_dec y r); cbn [length]; lia. }
      cbn [length] in Hl. lia.
    - cbn [length] in Hl. constructor; [exact Hnin|apply IH; lia]. }
  split; [exact Hnd|].
  rewrite (nodup_fixed_point Z.eq_dec Hnd) in H.
  destruct (flat_map (unassigned_error P used) (map fst (sl_unassigned S))) as [|e r] eqn:Hun; [|discriminate H].
  split; [intros j Hin; apply (proj1 (flat_map_nil_iff _ _) Hun j Hin)|].
  destruct (negb (length (map fst (sl_unassigned S)) + length used =? length (pr_jobs P))%nat) eqn:Hc; [discriminate H|].
  apply negb_false_iff, Nat.eqb_eq in Hc. rewrite map_length in Hc. exact Hc.
Qed.

Lemma vehicles_from_ok P : forall l used, vehicles_from P used l = KOk tt ->
  (forall t, In t l -> In (to_vehicle t) (all_vehicles P) /\ ~ In (shift_key t) used) /\ NoDup (map shift_key l).
Proof.
  induction l as [|t r IH]; intros used H; cbn [vehicles_from] in H.
  - split; [intros t []|constructor].
  - destruct (negb (zmem (to_vehicle t) (all_vehicles P))) eqn:Hz; [discriminate H|].
    destruct (existsb _ used) eqn:He; [discriminate H|].
    apply negb_false_iff, zmem_In in Hz.
    assert (Hnot : ~ In (shift_key t) used).
    { intros Hin. rewrite existsb_false_iff in He. specialize (He _ Hin). unfold shift_key in He. cbn [fst snd] in He.
      rewrite Z.eqb_refl, Nat.eqb_refl in He. discriminate He. }
    destruct (IH _ H) as [I1 I2]. split.
    + intros t0 [<-|Hin]; [split; assumption|]. destruct (I1 t0 Hin) as [J1 J2]. split; [exact J1|]. intros Hu. apply J2. right. exact Hu.
    + cbn [map]. constructor; [|exact I2]. intros Hin. apply in_map_iff in Hin. destruct Hin as (t0 & Hk & Hin).
      destruct (I1 t0 Hin) as [_ J2]. apply J2. left. unfold shift_key in *. congruence.
Qed.

Lemma infos_used used j ti : In (j, ti) (infos used) -> existsb (fun u => ja_job u =? j) used = true.
Proof.
  unfold infos. intros H. apply in_map_iff in H. destruct H as (u & E & Hin). injection E as E1 _.
  apply existsb_exists. exists u. split; [exact Hin|apply Z.eqb_eq; exact E1].
Qed.

Lemma find_job_none P j : zmem j (job_ids P) = false -> find_job P j = None.
Proof.
  intros H. unfold find_job. destruct (find (fun job => pj_id job =? j) (pr_jobs P)) as [job|] eqn:Hf; [|reflexivity].
  apply find_some in Hf. destruct Hf as [Hin E]. apply Z.eqb_eq in E.
  assert (Hz : zmem j (job_ids P) = true) by (apply zmem_In; unfold job_ids; apply in_map_iff; exists job; auto). congruence.
Qed.

(* ---- breaches of the job bookkeeping, rejected by the model of check_assignment *)
Lemma checker_breach_unknown_un P S j : zmem j (job_ids P) = false -> check_assignment P (mutS (MUnknownUn j) S) <> COk.
Proof.
  intros Hz Hok. apply check_assignment_parts in Hok. destruct Hok as (_ & Hp & _).
  destruct (jobs_presence_ok _ _ Hp) as (used & _ & _ & _ & Hun & _). cbn [mutS set_unassigned sl_unassigned] in Hun.
  assert (Hin : In j (map fst (sl_unassigned S ++ [(j, 1%nat)]))) by (rewrite map_app; apply in_or_app; right; left; reflexivity).
  specialize (Hun j Hin). unfold unassigned_error in Hun. rewrite Hz in Hun. discriminate Hun.
Qed.

Lemma checker_breach_dup_un P S i : (i < length (sl_unassigned S))%nat -> check_assignment P (mutS (MDupUn i) S) <> COk.
Proof.
  intros Hi Hok. apply check_assignment_parts in Hok. destruct Hok as (_ & Hp & _).
  destruct (jobs_presence_ok _ _ Hp) as (used & _ & _ & Hnd & _). cbn [mutS set_unassigned sl_unassigned] in Hnd. unfold dup_nth in Hnd.
  destruct (nth_error (sl_unassigned S) i) as [x|] eqn:Hx; [|apply nth_error_None in Hx; lia].
  rewrite map_app in Hnd. cbn [map] in Hnd. apply NoDup_remove_2 in Hnd. apply Hnd. rewrite app_nil_r.
  apply in_map. eapply nth_error_In. exact Hx.
Qed.

Lemma del_nth_length {A} (l : list A) : forall i, (i < length l)%nat -> length (del_nth i l) = (length l - 1)%nat.
Proof. induction l as [|x r IH]; intros i Hi; [cbn in Hi; lia|]. destruct i; cbn [del_nth length] in *; [lia|]. rewrite IH by lia. lia. Qed.

Lemma checker_breach_drop_un P S i : check_assignment P S = COk -> (i < length (sl_unassigned S))%nat ->
  check_assignment P (mutS (MDropUn i) S) <> COk.
Proof.
  intros Hok Hi Hok'. apply check_assignment_parts in Hok. apply check_assignment_parts in Hok'.
  destruct Hok as (_ & Hp & _). destruct Hok' as (_ & Hp' & _).
  destruct (jobs_presence_ok _ _ Hp) as (used & Hu & _ & _ & _ & Hc).
  destruct (jobs_presence_ok _ _ Hp') as (used' & Hu' & _ & _ & _ & Hc').
  cbn [mutS set_unassigned sl_unassigned sl_tours] in Hu', Hc'. rewrite Hu in Hu'. injection Hu' as <-.
  rewrite (del_nth_length _ _ Hi) in Hc'. lia.
Qed.

Lemma act_in_job_sacts S k s a x t : nth_error (sl_tours S) k = Some t -> act_at S k s a = Some x -> is_job_act x = true ->
  exists i, In (i, x) (job_sacts t).
Proof.
  intros Hk Ha Hj. unfold act_at, stop_at, tour_at in Ha. rewrite Hk in Ha.
  destruct (nth_error (to_stops t) s) as [st|] eqn:Hs; [|discriminate Ha].
  apply job_sacts_in; [|exact Hj]. apply in_flat_map. exists st. split; [eapply nth_error_In; exact Hs|eapply nth_error_In; exact Ha].
Qed.

Lemma checker_breach_both P S k s a x : act_at S k s a = Some x -> is_job_act x = true ->
  check_assignment P (mutS (MBoth k s a) S) <> COk.
Proof.
  intros Ha Hj Hok. cbn [mutS] in Hok. rewrite Ha in Hok. apply check_assignment_parts in Hok. destruct Hok as (_ & Hp & _).
  destruct (jobs_presence_ok _ _ Hp) as (used & Hu & _ & _ & Hun & _). cbn [set_unassigned sl_unassigned sl_tours] in Hu, Hun.
  assert (Hk : exists t, nth_error (sl_tours S) k = Some t).
  { unfold act_at, stop_at, tour_at in Ha. destruct (nth_error (sl_tours S) k) as [t|]; [exists t; reflexivity|discriminate Ha]. }
  destruct Hk as [t Hk]. destruct (act_in_job_sacts S k s a x t Hk Ha Hj) as [i Hi].
  destruct (asg_tours_infos _ _ _ Hu) as (A & _ & _).
  pose proof (A t i x (nth_error_In _ _ Hk) Hi) as Hin. apply infos_used in Hin.
  assert (Hj' : In (sa_job x) (map fst (sl_unassigned S ++ [(sa_job x, 1%nat)]))) by (rewrite map_app; apply in_or_app; right; left; reflexivity).
  specialize (Hun _ Hj'). unfold unassigned_error in Hun. rewrite Hin in Hun. destruct (negb (zmem (sa_job x) (job_ids P))); discriminate Hun.
Qed.

Lemma checker_breach_unknown_act P S k s a j x : zmem j (job_ids P) = false -> act_at S k s a = Some x -> is_job_act x = true ->
  check_assignment P (mutS (MUnknownAct k s a j) S) <> COk.
Proof.
  intros Hz Ha Hj Hok. cbn [mutS] in Hok. apply check_assignment_parts in Hok. destruct Hok as (_ & Hp & _).
  destruct (jobs_presence_ok _ _ Hp) as (used & Hu & Herr & _).
  unfold act_at, stop_at, tour_at in Ha. destruct (nth_error (sl_tours S) k) as [t|] eqn:Hk; [|discriminate Ha].
  destruct (nth_error (to_stops t) s) as [st|] eqn:Hs; [|discriminate Ha].
  set (t' := set_stops (upd_nth s (set_acts (upd_nth a (set_job j)))) t).
  assert (Hk' : nth_error (sl_tours (upd_stop k s (set_acts (upd_nth a (set_job j))) S)) k = Some t').
  { cbn [upd_stop set_tours sl_tours]. apply nth_error_upd_nth_eq. exact Hk. }
  assert (Hx' : In (set_job j x) (flat_map ss_acts (to_stops t'))).
  { apply in_flat_map. exists (set_acts (upd_nth a (set_job j)) st). split.
    - unfold t'. cbn [set_stops to_stops]. eapply nth_error_In. apply nth_error_upd_nth_eq. exact Hs.
    - cbn [set_acts ss_acts]. eapply nth_error_In. apply nth_error_upd_nth_eq. exact Ha. }
  destruct (job_sacts_in t' _ Hx' Hj) as [i Hi].
  destruct (asg_tours_infos _ _ _ Hu) as (A & _ & _).
  pose proof (A t' i _ (nth_error_In _ _ Hk') Hi) as Hin. cbn [set_job sa_job] in Hin.
  unfold infos in Hin. apply in_map_iff in Hin. destruct Hin as (u & E & Hin). injection E as E1 _.
  specialize (Herr u Hin). unfold used_job_error in Herr. rewrite E1, (find_job_none P j Hz) in Herr. discriminate Herr.
Qed.

(* a job in two tours: the tours of the breached document are driven by different vehicle shifts (check_vehicles) or the
   bookkeeping finds the job under two tour infos (check_jobs_presence) *)
Lemma two_tours_rejected P S k k2 t t2 x y : k <> k2 -> nth_error (sl_tours S) k = Some t -> nth_error (sl_tours S) k2 = Some t2 ->
  In x (flat_map ss_acts (to_stops t)) -> In y (flat_map ss_acts (to_stops t2)) -> is_job_act x = true -> is_job_act y = true ->
  sa_job x = sa_job y -> check_assignment P S <> COk.
Proof.
  intros Hne Hk Hk2 Hx Hy Jx Jy Hj Hok. apply check_assignment_parts in Hok. destruct Hok as (Hv & Hp & _).
  destruct (jobs_presence_ok _ _ Hp) as (used & Hu & _).
  destruct (asg_tours_infos _ _ _ Hu) as (A & _ & Hn). specialize (Hn (NoDup_nil _)).
  destruct (job_sacts_in t x Hx Jx) as [i Hi]. destruct (job_sacts_in t2 y Hy Jy) as [i2 Hi2].
  pose proof (A t i x (nth_error_In _ _ Hk) Hi) as H1. pose proof (A t2 i2 y (nth_error_In _ _ Hk2) Hi2) as H2. rewrite Hj in H1.
  pose proof (nodup_fst_fun _ _ _ _ Hn H1 H2) as Heq.
  unfold check_vehicles in Hv. destruct (vehicles_from_ok P _ _ Hv) as [_ Hnd].
  assert (Hkk : k = k2).
  { apply (proj1 (NoDup_nth_error (map shift_key (sl_tours S))) Hnd).
    - rewrite map_length. apply nth_error_Some. congruence.
    - rewrite !nth_error_map, Hk, Hk2. cbn [option_map]. unfold shift_key. f_equal. exact Heq. }
  contradiction.
Qed.

Lemma has_job_act_in st : has_job_act st = true -> exists x, In x (ss_acts st) /\ is_job_act x = true.
Proof. unfold has_job_act. intros H. apply existsb_exists in H. exact H. Qed.

Lemma in_ins_nth_stop {A} (y : A) : forall l n x, In x l -> In x (ins_nth n y l).
Proof.
  induction l as [|z r IH]; intros n x Hin; [destruct Hin|]. destruct n; cbn [ins_nth]; [right; exact Hin|].
  destruct Hin as [<-|Hin]; [left; reflexivity|right; apply IH; exact Hin].
Qed.

Lemma checker_breach_job_in_two_tours P S k s k2 st : k <> k2 -> stop_at S k s = Some st -> has_job_act st = true ->
  tour_at S k2 <> None -> check_assignment P (mutS (MCopyStop k s k2) S) <> COk.
Proof.
  intros Hne Hs Hj Hk2. cbn [mutS]. rewrite Hs. unfold stop_at, tour_at in *.
  destruct (nth_error (sl_tours S) k) as [t|] eqn:Hk; [|discriminate Hs].
  destruct (nth_error (sl_tours S) k2) as [t2|] eqn:Hk2'; [|contradiction].
  destruct (has_job_act_in st Hj) as (x & Hx & Jx).
  apply (two_tours_rejected P _ k k2 t (set_stops (ins_nth 1 st) t2) x x Hne).
  - cbn [set_tours sl_tours]. rewrite nth_error_upd_nth_neq by auto. exact Hk.
  - cbn [set_tours sl_tours]. apply nth_error_upd_nth_eq. exact Hk2'.
  - apply in_flat_map. exists st. split; [eapply nth_error_In; exact Hs|exact Hx].
  - apply in_flat_map. exists st. split; [cbn [set_stops to_stops]; apply In_ins_nth|exact Hx].
  - exact Jx.
  - exact Jx.
  - reflexivity.
Qed.

(* the flattened activities carry the job id and kind of the reported ones *)
Lemma flat_acts_ids s k : forall l arr, map (fun f => (fa_job f, fa_kind f)) (flat_acts s k arr l) = map (fun a => (sa_job a, sa_kind a)) l.
Proof.
  induction l as [|a r IH]; intros arr; cbn [flat_acts map]; [reflexivity|].
  destruct (match sa_time a with Some t => t | None => (ss_arr s, ss_dep s) end) as [b e]. cbn [map fa_job fa_kind]. rewrite IH. reflexivity.
Qed.
Lemma flat_tour_ids t : map (fun f => (fa_job f, fa_kind f)) (flat_tour t) = map (fun a => (sa_job a, sa_kind a)) (flat_map ss_acts (to_stops t)).
Proof.
  unfold flat_tour, mapi. generalize 0. induction (to_stops t) as [|st r IH]; intros k; cbn [mapi_from concat flat_map]; [reflexivity|].
  rewrite !map_app, IH. unfold flat_stop. rewrite flat_acts_ids. reflexivity.
Qed.

Lemma job_act_sact t f : In f (job_acts t) -> exists a, In a (flat_map ss_acts (to_stops t)) /\ is_job_act a = true /\ sa_job a = fa_job f.
Proof.
  unfold job_acts. intros H. apply filter_In in H. destruct H as [Hin Hk].
  assert (H1 : In (fa_job f, fa_kind f) (map (fun f => (fa_job f, fa_kind f)) (flat_tour t))) by (apply in_map_iff; exists f; auto).
  rewrite flat_tour_ids in H1. apply in_map_iff in H1. destruct H1 as (a & E & Ha). injection E as E1 E2.
  exists a. split; [exact Ha|]. split; [unfold is_job_act; rewrite E2; exact Hk|exact E1].
Qed.

Lemma acts_of_sact j t : acts_of j t <> [] -> exists a, In a (flat_map ss_acts (to_stops t)) /\ is_job_act a = true /\ sa_job a = j.
Proof.
  unfold acts_of. intros H. destruct (filter _ (job_acts t)) as [|f r] eqn:Hf; [contradiction|].
  assert (Hin : In f (filter (fun a => fa_job a =? j) (job_acts t))) by (rewrite Hf; left; reflexivity).
  apply filter_In in Hin. destruct Hin as [Hin E]. apply Z.eqb_eq in E.
  destruct (job_act_sact t f Hin) as (a & H1 & H2 & H3). exists a. split; [exact H1|]. split; [exact H2|congruence].
Qed.

(* SOUND (partial: the clauses of Valid.Accounted the rule actually establishes; it does NOT establish that every task of a
   job is served exactly once - its own TODO - nor that the tour names an existing type / shift) *)
Lemma checker_assignment_sound P S : check_assignment P S = COk ->
  NoDup (map shift_key (sl_tours S))
  /\ (forall u, In u (sl_unassigned S) -> In (fst u) (job_ids P))
  /\ (forall t a, In t (sl_tours S) -> In a (job_acts t) -> In (fa_job a) (job_ids P))
  /\ NoDup (map fst (sl_unassigned S))
  /\ (forall u t, In u (sl_unassigned S) -> In t (sl_tours S) -> acts_of (fst u) t = [])
  /\ (forall j k1 k2 t1 t2, nth_error (sl_tours S) k1 = Some t1 -> nth_error (sl_tours S) k2 = Some t2 ->
        acts_of j t1 <> [] -> acts_of j t2 <> [] -> k1 = k2).
Proof.
  intros Hok. pose proof Hok as Hok0. apply check_assignment_parts in Hok. destruct Hok as (Hv & Hp & _).
  destruct (jobs_presence_ok _ _ Hp) as (used & Hu & Herr & Hnd & Hun & _).
  destruct (asg_tours_infos _ _ _ Hu) as (A & _ & _).
  unfold check_vehicles in Hv. destruct (vehicles_from_ok P _ _ Hv) as [_ Hkeys].
  split; [exact Hkeys|]. split.
  { intros u Hin. specialize (Hun (fst u) (in_map fst _ _ Hin)). unfold unassigned_error in Hun.
    destruct (zmem (fst u) (job_ids P)) eqn:Hz; [apply zmem_In; exact Hz|discriminate Hun]. }
  split.
  { intros t f Hin Hf. destruct (job_act_sact t f Hf) as (a & Ha & Ja & E). destruct (job_sacts_in t a Ha Ja) as [i Hi].
    pose proof (A t i a Hin Hi) as H1. unfold infos in H1. apply in_map_iff in H1. destruct H1 as (u & Eu & Hinu). injection Eu as E1 _.
    specialize (Herr u Hinu). unfold used_job_error in Herr. destruct (find_job P (ja_job u)) as [job|] eqn:Hfj; [|discriminate Herr].
    unfold find_job in Hfj. apply find_some in Hfj. destruct Hfj as [Hjin Eid]. apply Z.eqb_eq in Eid.
    rewrite <- E, <- E1, <- Eid. unfold job_ids. apply in_map. exact Hjin. }
  split; [exact Hnd|]. split.
  { intros u t Hinu Hint. destruct (acts_of (fst u) t) as [|f r] eqn:Hacts; [reflexivity|]. exfalso.
    assert (Hne : acts_of (fst u) t <> []) by (rewrite Hacts; discriminate).
    destruct (acts_of_sact _ _ Hne) as (a & Ha & Ja & E). destruct (job_sacts_in t a Ha Ja) as [i Hi].
    pose proof (A t i a Hint Hi) as H1. rewrite E in H1. apply infos_used in H1.
    specialize (Hun (fst u) (in_map fst _ _ Hinu)). unfold unassigned_error in Hun. rewrite H1 in Hun.
    destruct (negb (zmem (fst u) (job_ids P))); discriminate Hun. }
  intros j k1 k2 t1 t2 H1 H2 N1 N2. destruct (Nat.eq_dec k1 k2) as [E|Hne]; [exact E|exfalso].
  destruct (acts_of_sact _ _ N1) as (a1 & Ha1 & J1 & E1). destruct (acts_of_sact _ _ N2) as (a2 & Ha2 & J2 & E2).
  apply (two_tours_rejected P S k1 k2 t1 t2 a1 a2 Hne H1 H2 Ha1 Ha2 J1 J2); [congruence|exact Hok0].
Qed.

(* ------------------------------------------------------------------ one capacity dimension: the vectors are scalars *)
Definition v1 (l : list Z) : Prop := (length l <= 1)%nat.
Definition vz (l : list Z) : Z := hd 0 l.

Lemma v1_cases l : v1 l -> l = [] \/ l = [vz l].
Proof. unfold v1, vz. destruct l as [|x [|y r]]; cbn [length hd]; intros H; [left|right|lia]; reflexivity. Qed.
Lemma vadd_v1 a b : v1 a -> v1 b -> v1 (vadd a b) /\ vz (vadd a b) = vz a + vz b.
Proof.
  intros Ha Hb. destruct (v1_cases a Ha) as [-> | ->]; destruct (v1_cases b Hb) as [-> | ->]; cbn [vadd v1 vz hd length]; unfold v1; cbn [length]; split; lia.
Qed.
Lemma vsub_v1 a b : v1 a -> v1 b -> v1 (vsub a b) /\ vz (vsub a b) = vz a - vz b.
Proof.
  intros Ha Hb. unfold vsub.
  assert (Hn : v1 (map Z.opp b) /\ vz (map Z.opp b) = - vz b).
  { destruct (v1_cases b Hb) as [-> | ->]; cbn [map vz hd]; unfold v1; cbn [length]; split; lia. }
  destruct Hn as [N1 N2]. destruct (vadd_v1 a (map Z.opp b) Ha N1) as [V1 V2]. split; [exact V1|]. rewrite V2, N2. lia.
Qed.
Lemma veq_v1 a b : v1 a -> v1 b -> veq a b = (vz a =? vz b).
Proof.
  intros Ha Hb. destruct (v1_cases a Ha) as [-> | ->]; destruct (v1_cases b Hb) as [-> | ->]; unfold veq; cbn [vall2 forallb vz hd];
    rewrite ?andb_true_r; try reflexivity.
Qed.
Lemma vfit_v1 c l : v1 l -> vfit [c] l = (vz l <=? c).
Proof.
  intros Hl. destruct (v1_cases l Hl) as [-> | ->]; unfold vfit; cbn [vall2 forallb vz hd]; rewrite ?andb_true_r; reflexivity.
Qed.
Lemma v1_nil : v1 []. Proof. unfold v1. cbn. lia. Qed.
Lemma v1_one x : v1 [x]. Proof. unfold v1. cbn. lia. Qed.

(* ------------------------------------------------------------------ the demand the checker attributes to an activity *)
Definition dem_of (dt : dtype) (q : Z) : demand :=
  match dt with
  | DStaticPickup => mkDemand q 0 0 0
  | DDynamicPickup => mkDemand 0 q 0 0
  | DStaticDelivery => mkDemand 0 0 q 0
  | DDynamicDelivery => mkDemand 0 0 0 q
  | DStaticPickupDelivery => mkDemand q 0 q 0
  | DNone => dzero
  end.

Lemma enum_nth {A} (l : list A) : forall k j x, nth_error l j = Some x -> nth_error (combine (seq k (length l)) l) j = Some ((k + j)%nat, x).
Proof.
  induction l as [|y r IH]; intros k j x Hx; [destruct j; discriminate|].
  destruct j as [|j]; cbn [nth_error length seq combine] in *.
  - injection Hx as <-. rewrite Nat.add_0_r. reflexivity.
  - rewrite (IH (Datatypes.S k) j x Hx). f_equal. f_equal. lia.
Qed.

(* in a job with one task, or with one pickup and one delivery, the first task of a kind is THE task of that kind *)
Lemma simple_first_of_kind job tk k : simple_job job = true -> In tk (pj_tasks job) -> tk_kind tk = k ->
  exists i, filter (fun it => tk_kind (snd it) =? k) (itasks job) = (i, tk) :: (match filter (fun it => tk_kind (snd it) =? k) (itasks job) with _ :: r => r | [] => [] end).
Proof.
  unfold simple_job, count_kind, itasks, enum. destruct (pj_tasks job) as [|x [|y [|z r]]]; cbn [length]; intros Hs Hin Hk.
  - destruct Hin.
  - destruct Hin as [<-|[]]. cbn [seq combine filter snd]. rewrite Hk, Z.eqb_refl. exists 0%nat. reflexivity.
  - cbn [Nat.ltb Nat.leb orb Nat.eqb andb] in Hs. cbn [filter] in Hs.
    destruct Hin as [<-|[<-|[]]]; cbn [seq combine filter snd]; rewrite ?Hk, ?Z.eqb_refl.
    + exists 0%nat. reflexivity.
    + destruct (tk_kind x =? k) eqn:Ex; [|exists 1%nat; reflexivity].
      (* both tasks have the kind k: impossible with one pickup and one delivery *)
      apply Z.eqb_eq in Ex. exfalso. rewrite Ex, Hk in Hs.
      destruct (k =? 0) eqn:E0; destruct (k =? 1) eqn:E1; cbn [length Nat.eqb andb] in Hs; try discriminate Hs.
  - exfalso. cbn in Hs. discriminate Hs.
Qed.

Lemma job_kind_cases k : is_job_kind k = true -> k = 0 \/ k = 1 \/ k = 2 \/ k = 3.
Proof. unfold is_job_kind. intros H. apply andb_true_iff in H. destruct H as [H1 H2]. apply Z.leb_le in H1. apply Z.leb_le in H2. lia. Qed.

Lemma act_demand_job P t st a sh job tk : get_vehicle_shift P t = KOk sh -> is_job_kind (sa_kind a) = true ->
  find_job P (sa_job a) = Some job -> simple_job job = true -> pj_xdem job = [] -> In tk (pj_tasks job) -> tk_kind tk = sa_kind a ->
  get_activity_type P t st a = KOk (AJob job)
  /\ exists dt, get_demand a (AJob job) = KOk (dt, [tk_demand tk]) /\ dem_of dt (tk_demand tk) = demand_of job tk.
Proof.
  intros Hsh Hk Hf Hs Hx Hin Hkind. split.
  - unfold get_activity_type. rewrite Hsh. cbn [kbind].
    destruct (job_kind_cases _ Hk) as [E|[E|[E|E]]]; rewrite E in *; cbn [Z.eqb orb]; rewrite Hf; reflexivity.
  - unfold get_demand, visit_job_task. fold (simple_job job). rewrite Hs.
    destruct (simple_first_of_kind job tk (sa_kind a) Hs Hin Hkind) as [i Hi]. rewrite Hi. cbn [kbind fst snd].
    unfold task_demand. rewrite Hx. cbn [map].
    unfold demand_of. rewrite Hkind.
    destruct (job_kind_cases _ Hk) as [E|[E|[E|E]]]; rewrite E; cbn [Z.eqb]; destruct (pj_static job); cbn [negb];
      eexists; (split; [reflexivity|reflexivity]).
Qed.

Lemma act_demand_terminal P t st a sh : get_vehicle_shift P t = KOk sh -> (sa_kind a = 10 \/ sa_kind a = 11) ->
  get_activity_type P t st a = KOk ATerminal /\ get_demand a ATerminal = KOk (DNone, []).
Proof.
  intros Hsh Hk. split.
  - unfold get_activity_type. rewrite Hsh. cbn [kbind]. destruct Hk as [-> | ->]; reflexivity.
  - unfold get_demand. cbn [kbind]. destruct Hk as [-> | ->]; reflexivity.
Qed.

(* ------------------------------------------------------------------ the demand the reference attributes to a rebuilt activity *)
Lemma match_act_job P sh f job tk p w : match_act P sh f = Some (job, tk, p, w) ->
  job_for P sh f = Some job /\ In tk (pj_tasks job) /\ tk_kind tk = fa_kind f.
Proof.
  unfold match_act. destruct (job_for P sh f) as [job0|]; [|discriminate].
  assert (Hc : forall c, In c (candidates job0 f) -> In (fst (fst c)) (pj_tasks job0) /\ tk_kind (fst (fst c)) = fa_kind f).
  { intros [[tk0 p0] w0] Hc. unfold candidates in Hc. apply in_flat_map in Hc. destruct Hc as (tk1 & Htk & Hc).
    destruct (tk_kind tk1 =? fa_kind f) eqn:Ek; [|destruct Hc]. apply in_flat_map in Hc. destruct Hc as (p1 & _ & Hc).
    destruct (place_fits f p1); [|destruct Hc]. apply in_map_iff in Hc. destruct Hc as (w1 & E & _). injection E as <- _ _.
    cbn [fst]. split; [exact Htk|apply Z.eqb_eq; exact Ek]. }
  destruct (find (fun c => win_open f (snd c)) (candidates job0 f)) as [[[tk0 p0] w0]|] eqn:Hfd.
  - intros H. injection H as E1 E2 E3 E4. subst. apply find_some in Hfd. destruct Hfd as [Hin _]. destruct (Hc _ Hin) as [C1 C2]. auto.
  - destruct (candidates job0 f) as [|[[tk0 p0] w0] r] eqn:Hcs; [discriminate|]. intros H. injection H as E1 E2 E3 E4. subst.
    destruct (Hc (tk, p, w) (or_introl eq_refl)) as [C1 C2]. auto.
Qed.

Lemma match_all_in P sh : forall l ms, match_all P sh l = Some ms -> forall a m, In (a, m) ms -> match_act P sh a = Some m.
Proof.
  induction l as [|x r IH]; intros ms H a m Hin; cbn [match_all] in H.
  - injection H as <-. destruct Hin.
  - destruct (match_act P sh x) as [m0|] eqn:Hm; [|discriminate]. destruct (match_all P sh r) as [ms'|] eqn:Hr; [|discriminate].
    injection H as <-. destruct Hin as [E|Hin]; [injection E as <- <-; exact Hm|apply (IH ms' eq_refl a m Hin)].
Qed.

(* per flattened activity: its rebuilt activity carries the demand of a task of the activity's kind of the plan job it names; the
   departure, the arrival (and reloads / breaks) carry none *)
Definition DemRel (P : pproblem) (f : fact) (A : act) : Prop :=
  ((a_job A = fa_job f /\ is_mid_kind (fa_kind f) = true) \/ a_job A = -1)
  /\ (is_job_kind (fa_kind f) = true ->
      exists job tk, find_job P (fa_job f) = Some job /\ In tk (pj_tasks job) /\ tk_kind tk = fa_kind f /\ a_dem A = demand_of job tk)
  /\ (fa_kind f = 10 \/ fa_kind f = 11 -> a_dem A = dzero).

Lemma rebuild_demands P t r : rebuild P t = Some r -> Forall2 (DemRel P) (rb_facts r) (rb_acts r).
Proof.
  intros Hr. pose proof (rebuild_has_end _ _ _ Hr) as He. destruct (rebuild_spec _ _ _ Hr) as (_ & Kd & Kj & Ke). revert Hr He Kd Kj Ke. unfold rebuild.
  destruct (shift_of P t) as [[vt sh]|]; [|discriminate]. cbv zeta.
  destruct (split_tour _ (flat_tour t)) as [[[d js] e]|]; [|discriminate].
  destruct (match_all P _ js) as [ms|] eqn:Hm; [|discriminate]. intros H. injection H as <-. unfold rb_facts, rb_has_end.
  cbn [rb_acts rb_dep rb_jobs rb_arr rb_shift]. intros He Kd Kj Ke.
  constructor.
  - unfold DemRel. cbn [a_job a_dem]. rewrite Kd. change (is_job_kind 10) with false. split; [right; reflexivity|]. split; [discriminate|reflexivity].
  - apply Forall2_app.
    + pose proof (match_all_in _ _ _ _ Hm) as Hall. clear -Hall Kj. induction ms as [|[a m] r IH]; [constructor|]. cbn [map fst snd] in *.
      cbn [forallb] in Kj. apply andb_true_iff in Kj. destruct Kj as [Ka Kr].
      constructor; [|apply IH; [exact Kr|intros a0 m0 Hin; apply Hall; right; exact Hin]].
      specialize (Hall a m (or_introl eq_refl)). destruct m as [[[job tk] p] w]. destruct (match_act_job _ _ _ _ _ _ _ Hall) as (J1 & J2 & J3).
      unfold DemRel. cbn [act_of_match a_job a_dem]. split; [left; split; [reflexivity|exact Ka]|]. split.
      * intros Hk. unfold job_for in J1.
        assert (N13 : (fa_kind a =? 13) = false) by (destruct (job_kind_cases _ Hk) as [E|[E|[E|E]]]; rewrite E; reflexivity).
        assert (N12 : (fa_kind a =? 12) = false) by (destruct (job_kind_cases _ Hk) as [E|[E|[E|E]]]; rewrite E; reflexivity).
        rewrite N13, N12 in J1. exists job, tk. auto.
      * intros Hk. unfold job_for in J1. unfold demand_of. rewrite J3.
        destruct Hk as [-> | ->]; reflexivity.
    + destruct e as [x|]; destruct (sh_end sh) as [[l latest]|]; try discriminate He; constructor; [|constructor].
      unfold DemRel. cbn [a_job a_dem]. rewrite (Ke x eq_refl). change (is_job_kind 11) with false.
      split; [right; reflexivity|]. split; [discriminate|reflexivity].
Qed.

(* ------------------------------------------------------------------ the replayed loads, step by step *)
Lemma loads_from_length : forall acts l, length (loads_from l acts) = length acts.
Proof. induction acts as [|a r IH]; intros l; cbn [loads_from length]; [reflexivity|]. cbv zeta. cbn [length]. rewrite IH. reflexivity. Qed.

Lemma loads_from_nth0 l a r : nth 0 (loads_from l (a :: r)) 0 = l + d_change (a_dem a).
Proof. reflexivity. Qed.

Lemma loads_from_step : forall acts l j b, nth_error acts (Datatypes.S j) = Some b ->
  nth (Datatypes.S j) (loads_from l acts) 0 = nth j (loads_from l acts) 0 + d_change (a_dem b).
Proof.
  induction acts as [|a r IH]; intros l j b Hb; [discriminate|]. cbn [loads_from]. cbv zeta. cbn [nth_error] in Hb.
  destruct j as [|j].
  - destruct r as [|b' r']; [discriminate|]. cbn [nth_error] in Hb. injection Hb as <-. reflexivity.
  - cbn [nth]. apply IH. exact Hb.
Qed.

Lemma loads_from_sim cap : forall acts l, sim_load cap l acts = true -> forall j, (j < length acts)%nat -> nth j (loads_from l acts) 0 <= cap.
Proof.
  induction acts as [|a r IH]; intros l H j Hj; [cbn in Hj; lia|]. cbn [sim_load] in H. cbv zeta in H. apply andb_true_iff in H.
  destruct H as [H1 H2]. apply Z.leb_le in H1. cbn [loads_from]. cbv zeta. destruct j as [|j]; [exact H1|]. cbn [nth]. apply IH; [exact H2|cbn [length] in Hj; lia].
Qed.

Lemma loads_from_last : forall acts l, acts <> [] -> nth (length acts - 1) (loads_from l acts) 0 = load_after l acts.
Proof.
  induction acts as [|a r IH]; intros l Hne; [contradiction|]. cbn [loads_from load_after length]. cbv zeta.
  destruct r as [|b r']; [reflexivity|]. replace (Datatypes.S (length (b :: r')) - 1)%nat with (Datatypes.S (length (b :: r') - 1)) by (cbn [length]; lia).
  cbn [nth]. apply IH. discriminate.
Qed.

Definition tot (g : demand -> Z) (acts : list act) : Z := fold_right (fun a acc => g (a_dem a) + acc) 0 acts.
Lemma load_after_tot : forall acts l, load_after l acts = l + tot d_ps acts + tot d_pd acts - tot d_ds acts - tot d_dd acts.
Proof.
  induction acts as [|a r IH]; intros l; cbn [load_after tot fold_right]; [lia|]. rewrite IH. unfold tot, d_change. lia.
Qed.
Lemma tot_ds acts : tot d_ds acts = total_static_delivery acts. Proof. reflexivity. Qed.
Lemma tot_ps acts : tot d_ps acts = total_static_pickup acts. Proof. reflexivity. Qed.

Lemma nth_removelast_app {A} (l : list A) (x d : A) j : (j < length l - 1)%nat -> nth j (removelast l ++ [x]) d = nth j l d.
Proof.
  revert j. induction l as [|y r IH]; intros j Hj; [cbn in Hj; lia|]. destruct r as [|z r']; [cbn in Hj; lia|].
  change (removelast (y :: z :: r')) with (y :: removelast (z :: r')). cbn [app]. destruct j as [|j]; [reflexivity|].
  cbn [nth]. apply IH. cbn [length] in *. lia.
Qed.
Lemma nth_removelast_last {A} (l : list A) (x d : A) : l <> [] -> nth (length l - 1) (removelast l ++ [x]) d = x.
Proof.
  induction l as [|y r IH]; intros Hne; [contradiction|]. destruct r as [|z r']; [reflexivity|].
  change (removelast (y :: z :: r')) with (y :: removelast (z :: r')). cbn [app].
  replace (length (y :: z :: r') - 1)%nat with (Datatypes.S (length (z :: r') - 1)) by (cbn [length]; lia). cbn [nth]. apply IH. discriminate.
Qed.

Lemma forall2_nth {A B} (R : A -> B -> Prop) la lb : Forall2 R la lb -> forall i a, nth_error la i = Some a -> exists b, nth_error lb i = Some b /\ R a b.
Proof.
  induction 1 as [|x y l l' Hxy _ IH]; intros i a Hi; [destruct i; discriminate|]. destruct i as [|i]; cbn [nth_error] in *.
  - injection Hi as <-. exists y. auto.
  - apply IH. exact Hi.
Qed.

(* ------------------------------------------------------------------ the model of the load rule on a tour that is one interval *)
Definition mdem (P : pproblem) (t : stour) (sa : sstop * sact) : demand :=
  match get_activity_type P t (fst sa) (snd sa) with
  | KOk ty => match get_demand (snd sa) ty with KOk (dt, d) => dem_of dt (vz d) | KErr _ => dzero end
  | KErr _ => dzero
  end.
Definition mok (P : pproblem) (t : stour) (sa : sstop * sact) : Prop :=
  exists ty dt d, get_activity_type P t (fst sa) (snd sa) = KOk ty /\ get_demand (snd sa) ty = KOk (dt, d) /\ v1 d.

Lemma interval_totals_spec P t : forall l acc, (forall sa, In sa l -> mok P t sa) -> v1 (fst acc) -> v1 (snd acc) ->
  exists sd ep, interval_totals P t acc l = KOk (sd, ep) /\ v1 sd /\ v1 ep
    /\ vz sd = vz (fst acc) + sumz (map (fun sa => d_ds (mdem P t sa)) l)
    /\ vz ep = vz (snd acc) + sumz (map (fun sa => d_ps (mdem P t sa)) l).
Proof.
  induction l as [|[st a] r IH]; intros [a1 a2] Hok V1 V2; cbn [fst snd] in *.
  - exists a1, a2. cbn [interval_totals map sumz fold_right]. repeat split; auto; lia.
  - destruct (Hok (st, a) (or_introl eq_refl)) as (ty & dt & d & Hty & Hd & Vd). cbn [fst snd] in Hty, Hd.
    cbn [interval_totals]. rewrite Hty. cbn [kbind]. rewrite Hd. cbn [kbind].
    assert (Hm : mdem P t (st, a) = dem_of dt (vz d)) by (unfold mdem; cbn [fst snd]; rewrite Hty, Hd; reflexivity).
    assert (Hr : forall sa, In sa r -> mok P t sa) by (intros sa Hin; apply Hok; right; exact Hin).
    cbn [map sumz fold_right]. fold (sumz (map (fun sa => d_ds (mdem P t sa)) r)). fold (sumz (map (fun sa => d_ps (mdem P t sa)) r)).
    rewrite Hm.
    destruct (vadd_v1 a1 d V1 Vd) as [W1 Z1]. destruct (vadd_v1 a2 d V2 Vd) as [W2 Z2].
    destruct dt; cbn [dem_of d_ds d_ps dzero].
    + destruct (IH (a1, a2) Hr V1 V2) as (sd & ep & E & U1 & U2 & Y1 & Y2). exists sd, ep. cbn [fst snd] in *. repeat split; auto; lia.
    + destruct (IH (a1, vadd a2 d) Hr V1 W2) as (sd & ep & E & U1 & U2 & Y1 & Y2). exists sd, ep. cbn [fst snd] in *. repeat split; auto; lia.
    + destruct (IH (vadd a1 d, a2) Hr W1 V2) as (sd & ep & E & U1 & U2 & Y1 & Y2). exists sd, ep. cbn [fst snd] in *. repeat split; auto; lia.
    + destruct (IH (vadd a1 d, vadd a2 d) Hr W1 W2) as (sd & ep & E & U1 & U2 & Y1 & Y2). exists sd, ep. cbn [fst snd] in *. repeat split; auto; lia.
    + destruct (IH (a1, a2) Hr V1 V2) as (sd & ep & E & U1 & U2 & Y1 & Y2). exists sd, ep. cbn [fst snd] in *. repeat split; auto; lia.
    + destruct (IH (a1, a2) Hr V1 V2) as (sd & ep & E & U1 & U2 & Y1 & Y2). exists sd, ep. cbn [fst snd] in *. repeat split; auto; lia.
Qed.

Lemma stop_change_single P t b a ep : ss_acts b = [a] -> mok P t (b, a) -> v1 ep ->
  exists ch, stop_change P t b ep [] (ss_acts b) = KOk ch /\ v1 ch
    /\ vz ch = (if (sa_kind a =? 11) || (sa_kind a =? 13) then - vz ep else d_change (mdem P t (b, a))).
Proof.
  intros Ha (ty & dt & d & Hty & Hd & Vd) Ve. cbn [fst snd] in Hty, Hd. rewrite Ha. cbn [stop_change]. rewrite Hty. cbn [kbind].
  destruct ((sa_kind a =? 11) || (sa_kind a =? 13)) eqn:Ek; cbn [kbind].
  - destruct (vsub_v1 [] ep v1_nil Ve) as [W HZ]. exists (vsub [] ep). split; [reflexivity|]. split; [exact W|]. rewrite HZ. cbn [vz hd]. lia.
  - rewrite Hd. cbn [kbind].
    assert (Hm : mdem P t (b, a) = dem_of dt (vz d)) by (unfold mdem; cbn [fst snd]; rewrite Hty, Hd; reflexivity). rewrite Hm.
    destruct (vadd_v1 [] d v1_nil Vd) as [W1 Z1]. destruct (vsub_v1 [] d v1_nil Vd) as [W2 Z2].
    destruct dt; cbn [dem_of d_change d_ps d_pd d_ds d_dd dzero]; eexists; (split; [reflexivity|]); (split; [first [exact W1|exact W2|exact v1_nil]|]);
      rewrite ?Z1, ?Z2; cbn [vz hd]; unfold d_change, dzero; cbn [d_ps d_pd d_ds d_dd]; lia.
Qed.

Lemma veq_refl x : veq x x = true.
Proof. unfold veq. induction x as [|y r IH]; cbn [vall2 forallb]; [reflexivity|]. rewrite Z.eqb_refl, IH. reflexivity. Qed.

Definition legs_from (k : nat) (stops : list sstop) : list leg :=
  combine (seq k (length (combine stops (tl stops)))) (combine stops (tl stops)).

Lemma legs_run P t cap ep : forall stops k acc a0, hd_error stops = Some a0 -> veq (stop_load t k a0) acc = true ->
  (forall j a b, nth_error stops j = Some a -> nth_error stops (Datatypes.S j) = Some b ->
     vfit cap (stop_load t (k + j) a) = true /\ vfit cap (stop_load t (Datatypes.S (k + j)) b) = true
     /\ exists ch, stop_change P t b ep [] (ss_acts b) = KOk ch /\ veq (stop_load t (Datatypes.S (k + j)) b) (vadd (stop_load t (k + j) a) ch) = true) ->
  exists e, interval_legs P t cap ep acc (legs_from k stops) = KOk e.
Proof.
  induction stops as [|a rest IH]; intros k acc a0 Hh Hv Hall; [discriminate Hh|]. cbn [hd_error] in Hh. injection Hh as <-.
  destruct rest as [|b r].
  - unfold legs_from. cbn [tl combine length seq interval_legs]. exists acc. reflexivity.
  - unfold legs_from. change (combine (a :: b :: r) (tl (a :: b :: r))) with ((a, b) :: combine (b :: r) (tl (b :: r))).
    cbn [length seq combine interval_legs].
    destruct (Hall 0%nat a b eq_refl eq_refl) as (F1 & F2 & ch & Hch & V). rewrite Nat.add_0_r in F1, F2, V.
    rewrite F1, F2. cbn [negb orb]. rewrite Hch. cbn [kbind]. rewrite Hv, V. cbn [andb].
    apply (IH (Datatypes.S k) _ b eq_refl (veq_refl _)).
    intros j a' b' Ha' Hb'. replace (Datatypes.S k + j)%nat with (k + Datatypes.S j)%nat by lia. apply (Hall (Datatypes.S j) a' b' Ha' Hb').
Qed.

Lemma tour_sacts_single_from : forall l, single_stops l = true -> forall s st, nth_error l s = Some st ->
  exists a, ss_acts st = [a]
    /\ nth_error (flat_map (fun st0 => map (fun a0 => (st0, a0)) (ss_acts st0)) l) s = Some (st, a)
    /\ length (flat_map (fun st0 => map (fun a0 => (st0, a0)) (ss_acts st0)) l) = length l.
Proof.
  induction l as [|x r IH]; intros Hs s st Hn; [destruct s; discriminate|].
  cbn [single_stops forallb] in Hs. apply andb_true_iff in Hs. destruct Hs as [Hx Hr].
  destruct (single_stop_act x Hx) as [ax Hax]. cbn [flat_map]. rewrite Hax. cbn [map app length].
  assert (Hlen : length (flat_map (fun st0 => map (fun a0 => (st0, a0)) (ss_acts st0)) r) = length r).
  { clear -Hr. induction r as [|y r IH]; [reflexivity|]. cbn [single_stops forallb] in Hr. apply andb_true_iff in Hr. destruct Hr as [Hy Hr].
    destruct (single_stop_act y Hy) as [ay Hay]. cbn [flat_map]. rewrite Hay. cbn [map app length]. rewrite (IH Hr). reflexivity. }
  destruct s as [|s]; cbn [nth_error] in *.
  - injection Hn as <-. exists ax. rewrite Hlen. auto.
  - destruct (IH Hr s st Hn) as (a & Ha & Hnth & _). exists a. rewrite Hlen. auto.
Qed.

Lemma list_eq_nth_error {A} (l1 l2 : list A) : length l1 = length l2 ->
  (forall i x, nth_error l1 i = Some x -> nth_error l2 i = Some x) -> l1 = l2.
Proof.
  revert l2. induction l1 as [|x r IH]; intros [|y s] Hl H; cbn [length] in Hl; try lia; [reflexivity|].
  pose proof (H 0%nat x eq_refl) as H0. cbn [nth_error] in H0. injection H0 as <-. f_equal.
  apply IH; [lia|]. intros i z Hz. apply (H (Datatypes.S i) z Hz).
Qed.

Lemma rb_facts_arrival P t r i f : rebuild P t = Some r -> nth_error (rb_facts r) i = Some f -> fa_kind f = 11 -> i <> 0%nat ->
  rb_has_end r = true /\ i = (length (rb_facts r) - 1)%nat.
Proof.
  intros Hr Hi Hk Hne. destruct (rebuild_spec _ _ _ Hr) as (_ & _ & Kj & _). unfold rb_facts, rb_has_end in *.
  destruct i as [|i]; [contradiction|]. cbn [nth_error] in Hi. cbn [length]. rewrite app_length, map_length.
  destruct (Nat.lt_ge_cases i (length (rb_jobs r))) as [Hlt|Hge].
  - exfalso. rewrite nth_error_app1 in Hi by (rewrite map_length; exact Hlt). apply nth_error_In in Hi.
    rewrite forallb_forall in Kj. specialize (Kj f Hi). rewrite Hk in Kj. discriminate Kj.
  - rewrite nth_error_app2 in Hi by (rewrite map_length; exact Hge). rewrite map_length in Hi.
    destruct (rb_arr r) as [e|]; [|destruct (i - length (rb_jobs r))%nat; discriminate Hi].
    split; [reflexivity|]. cbn [length]. destruct (i - length (rb_jobs r))%nat as [|m] eqn:Em; [lia|destruct m; discriminate Hi].
Qed.

Lemma rebuild_veh_cap P t r : rebuild P t = Some r -> v_cap (rb_veh r) = vt_cap (rb_vt r).
Proof.
  unfold rebuild. destruct (shift_of P t) as [[vt sh]|]; [|discriminate]. cbv zeta.
  destruct (split_tour _ (flat_tour t)) as [[[d js] e]|]; [|discriminate].
  destruct (match_all P _ js) as [ms|]; [|discriminate]. intros H. injection H as <-. reflexivity.
Qed.

(* the load the reference replays at a stop (every stop holds one activity) *)
Lemma valid_stop_load P S k t : valid_b P S = [] -> nth_error (sl_tours S) k = Some t -> single_stops (to_stops t) = true ->
  forall r, rebuild P t = Some r ->
  forall s st, nth_error (to_stops t) s = Some st -> ss_load st = nth s (replay_loads_x (rb_has_end r) (rb_acts r)) 0.
Proof.
  intros HV Hk Hs r Hr s st Hst. destruct (valid_tour _ _ _ _ HV Hk) as [_ HR].
  destruct (replay_tour_nil _ _ _ HR) as [r' [Hr' [_ [Hstop _]]]]. rewrite Hr in Hr'. injection Hr' as <-.
  destruct (rebuild_spec _ _ _ Hr) as (Hflat & _).
  destruct (stop_checks_at _ _ _ _ _ _ s st Hstop Hst) as [i [Hi [_ [Hload _]]]].
  assert (Hieq : i = Z.of_nat s).
  { apply last_index_some in Hi; [|lia]. destruct Hi as [Hi|(Hle & f & Hn & Hfs)]; [discriminate|].
    rewrite Z.sub_0_r in Hn.
    assert (Hj : (Z.to_nat i < length (to_stops t))%nat).
    { rewrite <- (flat_single_length t Hs), Hflat. apply nth_error_Some. congruence. }
    destruct (nth_error (to_stops t) (Z.to_nat i)) as [st'|] eqn:Est; [|apply nth_error_None in Est; lia].
    destruct (flat_single t Hs _ st' Est) as (a' & _ & Hf'). rewrite Hflat, Hn in Hf'. injection Hf' as ->.
    cbn [sfact fa_stop] in Hfs. lia. }
  subst i. unfold nth_z in Hload. rewrite Nat2Z.id in Hload. exact Hload.
Qed.

Lemma tot_sumz g acts : tot g acts = sumz (map g (map a_dem acts)).
Proof. unfold tot, sumz. induction acts as [|a r IH]; cbn [map fold_right]; [reflexivity|]. rewrite IH. reflexivity. Qed.

Definition plain_tour (t : stour) : bool :=
  forallb (fun a => is_job_kind (sa_kind a) || (sa_kind a =? 10) || (sa_kind a =? 11)) (flat_map ss_acts (to_stops t)).

(* what validity and the fragment give for every stop of a tour: the model's demand bookkeeping succeeds and attributes the demand of
   the rebuilt activity *)
Definition StopDem (P : pproblem) (t : stour) (r : rebuilt) (s : nat) (st : sstop) : Prop :=
  exists a A, ss_acts st = [a] /\ nth_error (rb_acts r) s = Some A /\ mok P t (st, a) /\ mdem P t (st, a) = a_dem A
    /\ a_job A <> RELOAD_JOB /\ sa_kind a <> 13
    /\ (sa_kind a = 11 -> s <> 0%nat -> rb_has_end r = true /\ s = (length (to_stops t) - 1)%nat)
    /\ (s = 0%nat -> a_dem A = dzero)
    /\ (sa_kind a = 11 -> a_dem A = dzero).

Lemma valid_stop_dem P S k t r : valid_b P S = [] -> nth_error (sl_tours S) k = Some t -> rebuild P t = Some r ->
  tour_ctx_ok P t = true -> single_stops (to_stops t) = true -> plain_tour t = true ->
  simple_jobs P = true -> one_dim P S = true -> pos_job_ids P = true ->
  (forall s st, nth_error (to_stops t) s = Some st -> stop_info P t r s st) ->
  forall s st, nth_error (to_stops t) s = Some st -> StopDem P t r s st.
Proof.
  intros HV Hk Hr Hctx Hs Hplain Hsimple Hdim Hpos Hinfo s st Hst.
  destruct (Hinfo s st Hst) as (a & ac & x & Ha & Hf & Hn & _).
  destruct (tour_ctx_spec P t Hctx) as (vt & sh & Hv & Hsh & _).
  destruct (forall2_nth _ _ _ (rebuild_demands P t r Hr) s _ Hf) as (A & HA & HJ & HD1 & HD2). rewrite Hn in HA. injection HA as <-.
  cbn [sfact fa_kind fa_job] in HJ, HD1, HD2.
  destruct (rebuild_spec _ _ _ Hr) as (Hflat & Kd & _).
  assert (Hin : In a (flat_map ss_acts (to_stops t))).
  { apply in_flat_map. exists st. split; [eapply nth_error_In; exact Hst|rewrite Ha; left; reflexivity]. }
  unfold plain_tour in Hplain. rewrite forallb_forall in Hplain. specialize (Hplain a Hin).
  assert (H13 : sa_kind a <> 13).
  { intros E. rewrite E in Hplain. discriminate Hplain. }
  assert (Hpos11 : sa_kind a = 11 -> s <> 0%nat -> rb_has_end r = true /\ s = (length (to_stops t) - 1)%nat).
  { intros E Hne. destruct (rb_facts_arrival P t r s _ Hr Hf E Hne) as [E1 E2]. split; [exact E1|].
    rewrite E2, <- Hflat, (flat_single_length t Hs). reflexivity. }
  assert (H0 : s = 0%nat -> a_dem ac = dzero).
  { intros ->. unfold rb_facts in Hf. cbn [nth_error] in Hf. injection Hf as Hf. apply HD2. left.
    assert (Hk10 : fa_kind (rb_dep r) = 10) by exact Kd. rewrite Hf in Hk10. exact Hk10. }
  exists a, ac. split; [exact Ha|]. split; [exact Hn|].
  destruct (is_job_kind (sa_kind a)) eqn:Ejk.
  - destruct (HD1 eq_refl) as (job & tk & Hfj & Htk & Hkind & Hdemand).
    assert (Hjob : In job (pr_jobs P) /\ pj_id job = sa_job a).
    { unfold find_job in Hfj. apply find_some in Hfj. destruct Hfj as [H1 H2]. apply Z.eqb_eq in H2. auto. }
    destruct Hjob as [Hjin Hjid].
    assert (Hsj : simple_job job = true) by (unfold simple_jobs in Hsimple; rewrite forallb_forall in Hsimple; apply Hsimple; exact Hjin).
    assert (Hxd : pj_xdem job = []).
    { unfold one_dim in Hdim. apply andb_true_iff in Hdim. destruct Hdim as [Hdim _]. apply andb_true_iff in Hdim. destruct Hdim as [_ Hj].
      rewrite forallb_forall in Hj. specialize (Hj job Hjin). destruct (pj_xdem job); [reflexivity|discriminate Hj]. }
    destruct (act_demand_job P t st a sh job tk Hsh Ejk Hfj Hsj Hxd Htk Hkind) as (Hty & dt & Hgd & Hdo).
    assert (Hmok : mok P t (st, a)) by (exists (AJob job), dt, [tk_demand tk]; cbn [fst snd]; split; [exact Hty|split; [exact Hgd|apply v1_one]]).
    assert (Hmd : mdem P t (st, a) = a_dem ac) by (unfold mdem; cbn [fst snd]; rewrite Hty, Hgd; cbn [vz hd]; rewrite Hdo, Hdemand; reflexivity).
    split; [exact Hmok|]. split; [exact Hmd|]. split.
    + destruct HJ as [[HJ _]|HJ]; rewrite HJ; [|discriminate]. rewrite <- Hjid.
      unfold pos_job_ids in Hpos. rewrite forallb_forall in Hpos. specialize (Hpos job Hjin). apply Z.ltb_lt in Hpos. unfold RELOAD_JOB. lia.
    + split; [exact H13|]. split; [exact Hpos11|]. split; [exact H0|]. intros E. rewrite E in Ejk. discriminate Ejk.
  - cbn [orb] in Hplain. apply orb_true_iff in Hplain.
    assert (Hkk : sa_kind a = 10 \/ sa_kind a = 11) by (destruct Hplain as [E|E]; apply Z.eqb_eq in E; auto).
    destruct (act_demand_terminal P t st a sh Hsh Hkk) as [Hty Hgd].
    assert (Hmok : mok P t (st, a)) by (exists ATerminal, DNone, []; cbn [fst snd]; split; [exact Hty|split; [exact Hgd|apply v1_nil]]).
    assert (Hmd : mdem P t (st, a) = a_dem ac) by (unfold mdem; cbn [fst snd]; rewrite Hty, Hgd; cbn [dem_of]; symmetry; apply HD2; exact Hkk).
    split; [exact Hmok|]. split; [exact Hmd|]. split.
    + destruct HJ as [[_ HJ]|HJ]; [|rewrite HJ; discriminate]. destruct Hkk as [E|E]; rewrite E in HJ; discriminate HJ.
    + split; [exact H13|]. split; [exact Hpos11|]. split; [exact H0|]. intros _. apply HD2. exact Hkk.
Qed.

Lemma legs_from_0 stops : legs_from 0 stops = legs_of stops.
Proof. reflexivity. Qed.

Lemma act_dyn_mdem P t sa : mok P t sa -> act_dyn P t sa = d_pd (mdem P t sa) - d_dd (mdem P t sa).
Proof.
  intros (ty & dt & d & Hty & Hd & _). unfold act_dyn, mdem. rewrite Hty, Hd.
  destruct dt; cbn [dem_of d_pd d_dd dzero]; unfold vz; lia.
Qed.

Lemma load_tour_complete P S k t :
  valid_b P S = [] -> nth_error (sl_tours S) k = Some t -> tour_ctx_ok P t = true -> single_stops (to_stops t) = true ->
  (2 <= length (to_stops t))%nat -> plain_tour t = true -> simple_jobs P = true -> one_dim P S = true -> caps_nonneg P = true ->
  pos_job_ids P = true -> sumz (map (act_dyn P t) (tour_sacts t)) = 0 ->
  exists vt, get_vehicle P (to_vehicle t) = KOk vt /\ get_intervals t = Some [legs_of (to_stops t)]
    /\ load_intervals P t (capacity_of vt) [] [legs_of (to_stops t)] = KOk tt.
Proof.
  intros HV Hk Hctx Hs Hlen Hplain Hsimple Hdim Hcaps Hpos Hbal.
  destruct (valid_stop_info P S k t HV Hk Hs) as (r & Hr & Hlacts & Hinfo).
  pose proof (valid_stop_load P S k t HV Hk Hs r Hr) as Hload.
  pose proof (valid_stop_dem P S k t r HV Hk Hr Hctx Hs Hplain Hsimple Hdim Hpos Hinfo) as Hsd.
  destruct (tour_ctx_spec P t Hctx) as (vt & sh & Hv & Hsh & Hso & _ & _).
  rewrite (rebuild_shift _ _ _ Hr) in Hso. injection Hso as Evt Esh.
  exists vt. split; [exact Hv|].
  (* the activities of the tour, one per stop *)
  assert (Hts : forall i st, nth_error (to_stops t) i = Some st ->
            exists a, ss_acts st = [a] /\ nth_error (tour_sacts t) i = Some (st, a)).
  { intros i st Hi. destruct (tour_sacts_single_from _ Hs i st Hi) as (a & Ha & Hn & _). exists a. auto. }
  assert (Htl : length (tour_sacts t) = length (to_stops t)).
  { destruct (to_stops t) as [|x rest] eqn:E; [cbn in Hlen; lia|]. unfold tour_sacts. rewrite E.
    destruct (tour_sacts_single_from _ Hs 0%nat x eq_refl) as (_ & _ & _ & Hl). exact Hl. }
  assert (Hmap : map (mdem P t) (tour_sacts t) = map a_dem (rb_acts r)).
  { apply list_eq_nth_error; [rewrite !map_length; congruence|]. intros i x Hi. rewrite nth_error_map in Hi.
    destruct (nth_error (tour_sacts t) i) as [[st a]|] eqn:Ei; [|discriminate Hi]. cbn [option_map] in Hi. injection Hi as <-.
    assert (Hlt : (i < length (to_stops t))%nat) by (rewrite <- Htl; apply nth_error_Some; congruence).
    destruct (nth_error (to_stops t) i) as [st'|] eqn:Est; [|apply nth_error_None in Est; lia].
    destruct (Hts i st' Est) as (a' & Ha' & Hn'). rewrite Ei in Hn'. injection Hn' as <- <-.
    destruct (Hsd i st Est) as (a2 & A & Ha2 & HA & _ & Hmd & _). rewrite Ha' in Ha2. injection Ha2 as <-.
    rewrite nth_error_map, HA. cbn [option_map]. rewrite Hmd. reflexivity. }
  assert (Hmok : forall sa, In sa (tour_sacts t) -> mok P t sa).
  { intros [st a] Hin. apply In_nth_error in Hin. destruct Hin as [i Ei].
    assert (Hlt : (i < length (to_stops t))%nat) by (rewrite <- Htl; apply nth_error_Some; congruence).
    destruct (nth_error (to_stops t) i) as [st'|] eqn:Est; [|apply nth_error_None in Est; lia].
    destruct (Hts i st' Est) as (a' & Ha' & Hn'). rewrite Ei in Hn'. injection Hn' as <- <-.
    destruct (Hsd i st Est) as (a2 & A & Ha2 & _ & Hm & _). rewrite Ha' in Ha2. injection Ha2 as <-. exact Hm. }
  (* no reload among the rebuilt activities: one interval on the reference side too *)
  assert (Hnr : no_reload (rb_acts r) = true).
  { unfold no_reload. apply forallb_forall. intros A Hin. apply In_nth_error in Hin. destruct Hin as [i Ei].
    assert (Hlt : (i < length (to_stops t))%nat) by (rewrite <- Hlacts; apply nth_error_Some; congruence).
    destruct (nth_error (to_stops t) i) as [st|] eqn:Est; [|apply nth_error_None in Est; lia].
    destruct (Hsd i st Est) as (a & A' & _ & HA & _ & _ & Hj & _). rewrite Ei in HA. injection HA as <-.
    unfold is_reload. apply negb_true_iff. apply Z.eqb_neq. exact Hj. }
  assert (Hnrs : no_reload_stop t = true).
  { unfold no_reload_stop. apply forallb_forall. intros st Hin. apply In_nth_error in Hin. destruct Hin as [i Est].
    destruct (Hsd i st Est) as (a & A & Ha & _ & _ & _ & _ & H13 & _). unfold is_reload_stop. rewrite Ha.
    apply negb_true_iff. apply Z.eqb_neq. exact H13. }
  split; [apply get_intervals_single; assumption|].
  (* the capacity of the reference *)
  destruct (valid_tour _ _ _ _ HV Hk) as [HF _]. destruct (feasible_viol_nil _ _ _ _ Hr HF) as (Hfx & _).
  unfold feasible_x in Hfx. apply andb_true_iff in Hfx. destruct Hfx as [_ Hfx]. rewrite (ivl_load_feasible_single _ _ Hnr) in Hfx.
  rewrite (rebuild_veh_cap _ _ _ Hr), Evt in Hfx. unfold load_feasible in Hfx. apply andb_true_iff in Hfx. destruct Hfx as [Hl0 Hsim].
  apply Z.leb_le in Hl0.
  assert (Hvin : In vt (pr_fleet P)).
  { unfold get_vehicle in Hv. destruct (find _ (pr_fleet P)) as [v|] eqn:Ef; [|discriminate Hv]. injection Hv as <-. apply find_some in Ef. tauto. }
  assert (Hcap0 : 0 <= vt_cap vt).
  { unfold caps_nonneg in Hcaps. rewrite forallb_forall in Hcaps. apply Z.leb_le. apply Hcaps. exact Hvin. }
  assert (Hcapv : capacity_of vt = [vt_cap vt]).
  { unfold capacity_of. unfold one_dim in Hdim. apply andb_true_iff in Hdim. destruct Hdim as [Hdim _]. apply andb_true_iff in Hdim.
    destruct Hdim as [Hx _]. rewrite forallb_forall in Hx. specialize (Hx vt Hvin). destruct (vt_xcap vt); [reflexivity|discriminate Hx]. }
  assert (Hxl : to_xload t = []).
  { unfold one_dim in Hdim. apply andb_true_iff in Hdim. destruct Hdim as [_ Hx]. rewrite forallb_forall in Hx.
    specialize (Hx t (nth_error_In _ _ Hk)). destruct (to_xload t); [reflexivity|discriminate Hx]. }
  assert (Hsl : forall i st, stop_load t i st = [ss_load st]) by (intros; unfold stop_load; rewrite Hxl; reflexivity).
  rewrite Hcapv. cbn [load_intervals]. rewrite (interval_stops_legs _ Hlen). fold (tour_sacts t).
  destruct (interval_totals_spec P t (tour_sacts t) ([], []) Hmok v1_nil v1_nil) as (sd & ep & Htot & Vsd & Vep & Zsd & Zep).
  rewrite Htot. cbn [kbind fst snd]. cbn [fst snd vz hd] in Zsd, Zep.
  (* the sums are those of the rebuilt tour *)
  assert (Hsum : forall g, sumz (map (fun sa => g (mdem P t sa)) (tour_sacts t)) = tot g (rb_acts r)).
  { intros g. rewrite tot_sumz, <- Hmap, map_map. reflexivity. }
  rewrite Hsum in Zsd, Zep. rewrite tot_ds in Zsd. rewrite tot_ps in Zep.
  assert (Hbal' : tot d_pd (rb_acts r) - tot d_dd (rb_acts r) = 0).
  { rewrite <- !Hsum. rewrite <- Hbal. clear -Hmok. induction (tour_sacts t) as [|sa l IH]; [reflexivity|].
    cbn [map sumz fold_right]. fold (sumz (map (fun sa => d_pd (mdem P t sa)) l)). fold (sumz (map (fun sa => d_dd (mdem P t sa)) l)).
    fold (sumz (map (act_dyn P t) l)). rewrite (act_dyn_mdem P t sa (Hmok sa (or_introl eq_refl))).
    assert (IH' := IH (fun x Hx => Hmok x (or_intror Hx))). lia. }
  set (l0 := total_static_delivery (rb_acts r)) in *.
  set (ls := loads_from l0 (rb_acts r)).
  assert (HL : replay_loads_x (rb_has_end r) (rb_acts r) = if rb_has_end r then removelast ls ++ [0] else ls).
  { rewrite (replay_loads_x_single _ _ Hnr). reflexivity. }
  assert (Hlsl : length ls = length (to_stops t)) by (unfold ls; rewrite loads_from_length; exact Hlacts).
  (* the reported load of a stop that is not the arrival stop is the running load *)
  assert (Hrun : forall i st, nth_error (to_stops t) i = Some st -> (rb_has_end r = true -> (i < length (to_stops t) - 1)%nat) ->
            ss_load st = nth i ls 0).
  { intros i st Hi Hne. rewrite (Hload i st Hi), HL. destruct (rb_has_end r); [|reflexivity].
    apply nth_removelast_app. rewrite Hlsl. apply Hne. reflexivity. }
  assert (Harrv : forall i st, nth_error (to_stops t) i = Some st -> rb_has_end r = true -> i = (length (to_stops t) - 1)%nat -> ss_load st = 0).
  { intros i st Hi He ->. rewrite (Hload _ st Hi), HL, He. rewrite <- Hlsl. apply nth_removelast_last.
    intros E. rewrite E in Hlsl. cbn [length] in Hlsl. lia. }
  assert (Hle : forall i st, nth_error (to_stops t) i = Some st -> ss_load st <= vt_cap vt).
  { intros i st Hi. assert (Hlt : (i < length (to_stops t))%nat) by (apply nth_error_Some; congruence).
    destruct (rb_has_end r) eqn:He.
    - destruct (Nat.eq_dec i (length (to_stops t) - 1)) as [E|Hne]; [rewrite (Harrv i st Hi eq_refl E); exact Hcap0|].
      rewrite (Hrun i st Hi) by (intros _; lia). apply (loads_from_sim _ _ _ Hsim). lia.
    - rewrite (Hrun i st Hi) by discriminate. apply (loads_from_sim _ _ _ Hsim). lia. }
  destruct (to_stops t) as [|s0 rest] eqn:Est0; [cbn in Hlen; lia|].
  destruct (legs_run P t [vt_cap vt] ep (s0 :: rest) 0 sd s0 eq_refl) as [e He].
  - (* the first stop carries the static deliveries of the tour *)
    rewrite Hsl, (veq_v1 _ _ (v1_one _) Vsd). cbn [vz hd]. apply Z.eqb_eq. rewrite Zsd.
    destruct (Hsd 0%nat s0 eq_refl) as (a & A & _ & HA & _ & _ & _ & _ & _ & Hz & _).
    rewrite (Hrun 0%nat s0 eq_refl) by (intros _; cbn [length] in *; lia).
    unfold ls. destruct (rb_acts r) as [|A0 racts] eqn:Eacts; [discriminate HA|]. cbn [nth_error] in HA. injection HA as ->.
    rewrite loads_from_nth0, (Hz eq_refl). unfold d_change, dzero. cbn [d_ps d_pd d_ds d_dd]. lia.
  - intros j a b Ha Hb. rewrite Nat.add_0_l, !Hsl, !(vfit_v1 _ _ (v1_one _)). cbn [vz hd].
    split; [apply Z.leb_le; apply (Hle j a Ha)|]. split; [apply Z.leb_le; apply (Hle (Datatypes.S j) b Hb)|].
    destruct (Hsd (Datatypes.S j) b Hb) as (ab & B & Hab & HB & Hmokb & Hmdb & _ & H13 & H11 & _ & Hd11).
    destruct (stop_change_single P t b ab ep Hab Hmokb Vep) as (ch & Hch & Vch & Zch).
    exists ch. split; [exact Hch|]. destruct (vadd_v1 [ss_load a] ch (v1_one _) Vch) as [Vs Zs].
    rewrite (veq_v1 _ _ (v1_one _) Vs), Zs, Zch. cbn [vz hd]. apply Z.eqb_eq.
    assert (Hj : (j < length (s0 :: rest) - 1)%nat).
    { assert (Datatypes.S j < length (s0 :: rest))%nat by (apply nth_error_Some; congruence). lia. }
    rewrite (Hrun j a Ha) by (intros _; exact Hj).
    assert (H13b : (sa_kind ab =? 13) = false) by (apply Z.eqb_neq; exact H13). rewrite H13b, orb_false_r.
    destruct (sa_kind ab =? 11) eqn:E11.
    + (* the arrival: everything picked up in the tour is unloaded, nothing else is left *)
      apply Z.eqb_eq in E11. destruct (H11 E11 (Nat.neq_succ_0 j)) as [Hend Hlast]. rewrite Est0 in Hlast.
      rewrite (Harrv _ b Hb Hend Hlast).
      assert (Hstep := loads_from_step (rb_acts r) l0 j B HB). fold ls in Hstep. rewrite (Hd11 E11) in Hstep.
      assert (Hla : nth (Datatypes.S j) ls 0 = load_after l0 (rb_acts r)).
      { unfold ls. rewrite <- (loads_from_last (rb_acts r) l0) by (intros E; rewrite E in HB; discriminate HB).
        f_equal. rewrite Hlacts. exact Hlast. }
      rewrite Hla, load_after_tot, tot_ds, tot_ps in Hstep. unfold d_change, dzero in Hstep. cbn [d_ps d_pd d_ds d_dd] in Hstep.
      fold l0 in Hstep. lia.
    + assert (Hne : rb_has_end r = true -> (Datatypes.S j < length (s0 :: rest) - 1)%nat).
      { intros Hend. assert (Hlt : (Datatypes.S j < length (s0 :: rest))%nat) by (apply nth_error_Some; congruence).
        destruct (Nat.eq_dec (Datatypes.S j) (length (s0 :: rest) - 1)) as [E|Hn]; [|lia]. exfalso.
        (* the last stop of a tour with an end holds the arrival *)
        destruct (Hinfo _ _ Hb) as (sb & acb & xb & Hsb & Hfb & _). rewrite Hab in Hsb. injection Hsb as <-.
        destruct (rebuild_spec _ _ _ Hr) as (Hflat & _ & _ & Ke). unfold rb_has_end in Hend. destruct (rb_arr r) as [x|] eqn:Earr; [|discriminate Hend].
        assert (Hlf : nth_error (rb_facts r) (length (rb_facts r) - 1) = Some x).
        { unfold rb_facts. rewrite Earr. cbn [length]. rewrite app_length, map_length. cbn [length].
          replace (Datatypes.S (length (rb_jobs r) + 1) - 1)%nat with (Datatypes.S (length (rb_jobs r))) by lia. cbn [nth_error].
          rewrite nth_error_app2 by (rewrite map_length; lia). rewrite map_length, Nat.sub_diag. reflexivity. }
        assert (Hfl : length (rb_facts r) = length (s0 :: rest)) by (rewrite <- Hflat, (flat_single_length t), Est0; [reflexivity|rewrite Est0; exact Hs]).
        rewrite Hfl, <- E, Hfb in Hlf. injection Hlf as Hlf. pose proof (Ke x eq_refl) as K11. rewrite <- Hlf in K11. cbn [sfact fa_kind] in K11.
        rewrite K11 in E11. discriminate E11. }
      rewrite (Hrun _ b Hb Hne). assert (Hstep := loads_from_step (rb_acts r) l0 j B HB). fold ls in Hstep. rewrite Hstep, Hmdb. reflexivity.
  - rewrite legs_from_0 in He. rewrite He. reflexivity.
Qed.

Lemma load_assignment_all P : forall tours,
  (forall t, In t tours -> exists vt ivs, get_vehicle P (to_vehicle t) = KOk vt /\ get_intervals t = Some ivs
                                          /\ load_intervals P t (capacity_of vt) [] ivs = KOk tt) ->
  load_assignment P tours = ROk.
Proof.
  induction tours as [|t r IH]; intros H; [reflexivity|]. cbn [load_assignment].
  destruct (H t (or_introl eq_refl)) as (vt & ivs & Hv & Hi & Hl). rewrite Hv, Hi, Hl. apply IH. intros t0 Hin. apply H. right. exact Hin.
Qed.

(* COMPLETE: a document the reference accepts is not rejected by the load rule - inside the fragment *)
Lemma checker_capacity_complete P S : valid_b P S = [] ->
  ctx_frag P S = true -> single_act_stops S = true -> two_stops S = true -> plain_acts S = true -> simple_jobs P = true ->
  one_dim P S = true -> caps_nonneg P = true -> pos_job_ids P = true -> dyn_balanced P S = true ->
  check_vehicle_load P S = COk.
Proof.
  intros HV Hctx Hsingle Htwo Hplain Hsimple Hdim Hcaps Hpos Hbal.
  assert (Htour : forall t, In t (sl_tours S) -> exists vt, get_vehicle P (to_vehicle t) = KOk vt
            /\ get_intervals t = Some [legs_of (to_stops t)] /\ load_intervals P t (capacity_of vt) [] [legs_of (to_stops t)] = KOk tt).
  { intros t Hin. destruct (In_nth_error _ _ Hin) as [k Hk].
    apply (load_tour_complete P S k t HV Hk (ctx_frag_tour _ _ _ _ Hctx Hk) (single_act_stops_tour S t Hsingle Hin)); try assumption.
    - unfold two_stops in Htwo. rewrite forallb_forall in Htwo. apply Nat.leb_le. apply Htwo. exact Hin.
    - unfold plain_tour. unfold plain_acts, all_sacts, all_stops in Hplain. rewrite forallb_forall in *. intros a Ha. apply Hplain.
      apply in_flat_map in Ha. destruct Ha as (st & Hst & Ha). apply in_flat_map. exists st. split; [|exact Ha].
      apply in_flat_map. exists t. auto.
    - unfold dyn_balanced in Hbal. rewrite forallb_forall in Hbal. apply Z.eqb_eq. apply Hbal. exact Hin. }
  unfold check_vehicle_load. apply combine_results_ok. intros x [<-|[<-|[]]].
  - apply load_assignment_all. intros t Hin. destruct (Htour t Hin) as (vt & H1 & H2 & H3). exists vt, [legs_of (to_stops t)]. auto.
  - unfold resource_consumption. replace (forallb _ (sl_tours S)) with true; [reflexivity|]. symmetry. apply forallb_forall.
    intros t Hin. destruct (Htour t Hin) as (vt & _ & H2 & _). rewrite H2. reflexivity.
Qed.

(* and then the misreported load is rejected by the model of the real rule: composition with checker_breach_load *)
Lemma checker_breach_load_valid P S k s d t st : valid_b P S = [] ->
  ctx_frag P S = true -> single_act_stops S = true -> two_stops S = true -> plain_acts S = true -> simple_jobs P = true ->
  one_dim P S = true -> caps_nonneg P = true -> pos_job_ids P = true -> dyn_balanced P S = true ->
  d <> 0 -> tour_at S k = Some t -> nth_error (to_stops t) s = Some st ->
  check_vehicle_load P (mutS (MLoad k s d) S) <> COk.
Proof.
  intros HV Hctx Hsingle Htwo Hplain Hsimple Hdim Hcaps Hpos Hbal Hd Hk Hs.
  pose proof (checker_capacity_complete P S HV Hctx Hsingle Htwo Hplain Hsimple Hdim Hcaps Hpos Hbal) as Hok.
  assert (Hin : In t (sl_tours S)) by (eapply nth_error_In; exact Hk).
  apply (checker_breach_load P S k s d t st Hok Hd Hk Hs).
  - unfold no_reload_stop. apply forallb_forall. intros x Hx. unfold is_reload_stop.
    destruct (ss_acts x) as [|a l] eqn:Ea; [reflexivity|]. apply negb_true_iff. apply Z.eqb_neq. intros E.
    unfold plain_acts, all_sacts, all_stops in Hplain. rewrite forallb_forall in Hplain.
    assert (Ha : In a (flat_map ss_acts (flat_map to_stops (sl_tours S)))).
    { apply in_flat_map. exists x. split; [apply in_flat_map; exists t; auto|rewrite Ea; left; reflexivity]. }
    specialize (Hplain a Ha). rewrite E in Hplain. discriminate Hplain.
  - unfold two_stops in Htwo. rewrite forallb_forall in Htwo. apply Nat.leb_le. apply Htwo. exact Hin.
Qed.

Lemma rebuild_stop_dem P S t r : rebuild P t = Some r ->
  tour_ctx_ok P t = true -> single_stops (to_stops t) = true -> plain_tour t = true ->
  simple_jobs P = true -> one_dim P S = true -> pos_job_ids P = true ->
  forall s st, nth_error (to_stops t) s = Some st -> StopDem P t r s st.
Proof.
  intros Hr Hctx Hs Hplain Hsimple Hdim Hpos s st Hst.
  destruct (flat_single t Hs s st Hst) as (a & Ha & Hf). rewrite (proj1 (rebuild_spec _ _ _ Hr)) in Hf.
  destruct (forall2_nth _ _ _ (rebuild_demands P t r Hr) s _ Hf) as (ac & Hn & _).
  destruct (tour_ctx_spec P t Hctx) as (vt & sh & Hv & Hsh & _).
  destruct (forall2_nth _ _ _ (rebuild_demands P t r Hr) s _ Hf) as (A & HA & HJ & HD1 & HD2). rewrite Hn in HA. injection HA as <-.
  cbn [sfact fa_kind fa_job] in HJ, HD1, HD2.
  destruct (rebuild_spec _ _ _ Hr) as (Hflat & Kd & _).
  assert (Hin : In a (flat_map ss_acts (to_stops t))).
  { apply in_flat_map. exists st. split; [eapply nth_error_In; exact Hst|rewrite Ha; left; reflexivity]. }
  unfold plain_tour in Hplain. rewrite forallb_forall in Hplain. specialize (Hplain a Hin).
  assert (H13 : sa_kind a <> 13).
  { intros E. rewrite E in Hplain. discriminate Hplain. }
  assert (Hpos11 : sa_kind a = 11 -> s <> 0%nat -> rb_has_end r = true /\ s = (length (to_stops t) - 1)%nat).
  { intros E Hne. destruct (rb_facts_arrival P t r s _ Hr Hf E Hne) as [E1 E2]. split; [exact E1|].
    rewrite E2, <- Hflat, (flat_single_length t Hs). reflexivity. }
  assert (H0 : s = 0%nat -> a_dem ac = dzero).
  { intros ->. unfold rb_facts in Hf. cbn [nth_error] in Hf. injection Hf as Hf. apply HD2. left.
    assert (Hk10 : fa_kind (rb_dep r) = 10) by exact Kd. rewrite Hf in Hk10. exact Hk10. }
  exists a, ac. split; [exact Ha|]. split; [exact Hn|].
  destruct (is_job_kind (sa_kind a)) eqn:Ejk.
  - destruct (HD1 eq_refl) as (job & tk & Hfj & Htk & Hkind & Hdemand).
    assert (Hjob : In job (pr_jobs P) /\ pj_id job = sa_job a).
    { unfold find_job in Hfj. apply find_some in Hfj. destruct Hfj as [H1 H2]. apply Z.eqb_eq in H2. auto. }
    destruct Hjob as [Hjin Hjid].
    assert (Hsj : simple_job job = true) by (unfold simple_jobs in Hsimple; rewrite forallb_forall in Hsimple; apply Hsimple; exact Hjin).
    assert (Hxd : pj_xdem job = []).
    { unfold one_dim in Hdim. apply andb_true_iff in Hdim. destruct Hdim as [Hdim _]. apply andb_true_iff in Hdim. destruct Hdim as [_ Hj].
      rewrite forallb_forall in Hj. specialize (Hj job Hjin). destruct (pj_xdem job); [reflexivity|discriminate Hj]. }
    destruct (act_demand_job P t st a sh job tk Hsh Ejk Hfj Hsj Hxd Htk Hkind) as (Hty & dt & Hgd & Hdo).
    assert (Hmok : mok P t (st, a)) by (exists (AJob job), dt, [tk_demand tk]; cbn [fst snd]; split; [exact Hty|split; [exact Hgd|apply v1_one]]).
    assert (Hmd : mdem P t (st, a) = a_dem ac) by (unfold mdem; cbn [fst snd]; rewrite Hty, Hgd; cbn [vz hd]; rewrite Hdo, Hdemand; reflexivity).
    split; [exact Hmok|]. split; [exact Hmd|]. split.
    + destruct HJ as [[HJ _]|HJ]; rewrite HJ; [|discriminate]. rewrite <- Hjid.
      unfold pos_job_ids in Hpos. rewrite forallb_forall in Hpos. specialize (Hpos job Hjin). apply Z.ltb_lt in Hpos. unfold RELOAD_JOB. lia.
    + split; [exact H13|]. split; [exact Hpos11|]. split; [exact H0|]. intros E. rewrite E in Ejk. discriminate Ejk.
  - cbn [orb] in Hplain. apply orb_true_iff in Hplain.
    assert (Hkk : sa_kind a = 10 \/ sa_kind a = 11) by (destruct Hplain as [E|E]; apply Z.eqb_eq in E; auto).
    destruct (act_demand_terminal P t st a sh Hsh Hkk) as [Hty Hgd].
    assert (Hmok : mok P t (st, a)) by (exists ATerminal, DNone, []; cbn [fst snd]; split; [exact Hty|split; [exact Hgd|apply v1_nil]]).
    assert (Hmd : mdem P t (st, a) = a_dem ac) by (unfold mdem; cbn [fst snd]; rewrite Hty, Hgd; cbn [dem_of]; symmetry; apply HD2; exact Hkk).
    split; [exact Hmok|]. split; [exact Hmd|]. split.
    + destruct HJ as [[_ HJ]|HJ]; [|rewrite HJ; discriminate]. destruct Hkk as [E|E]; rewrite E in HJ; discriminate HJ.
    + split; [exact H13|]. split; [exact Hpos11|]. split; [exact H0|]. intros _. apply HD2. exact Hkk.
Qed.

Lemma loads_from_sim_conv cap : forall acts l, (forall j, (j < length acts)%nat -> nth j (loads_from l acts) 0 <= cap) -> sim_load cap l acts = true.
Proof.
  induction acts as [|a r IH]; intros l H; [reflexivity|]. cbn [sim_load]. cbv zeta. apply andb_true_iff. split.
  - apply Z.leb_le. specialize (H 0%nat). cbn [loads_from length nth] in H. cbv zeta in H. cbn [nth] in H. apply H. lia.
  - apply IH. intros j Hj. specialize (H (Datatypes.S j)). cbn [loads_from length nth] in H. cbv zeta in H. cbn [nth] in H. apply H. lia.
Qed.

Lemma Forall2_length' {A B} (R : A -> B -> Prop) la lb : Forall2 R la lb -> length la = length lb.
Proof. induction 1; cbn [length]; congruence. Qed.

(* SOUND: where the model of the load rule accepts a tour of the fragment, the two load clauses of the reference hold for it:
   the capacity per interval (FCapacity) and the load reported at every stop (RLoad) *)
Lemma load_tour_sound P S k t r :
  nth_error (sl_tours S) k = Some t -> rebuild P t = Some r -> tour_ctx_ok P t = true -> single_stops (to_stops t) = true ->
  (2 <= length (to_stops t))%nat -> plain_tour t = true -> simple_jobs P = true -> one_dim P S = true ->
  pos_job_ids P = true -> sumz (map (act_dyn P t) (tour_sacts t)) = 0 ->
  forall vt, get_vehicle P (to_vehicle t) = KOk vt -> load_intervals P t (capacity_of vt) [] [legs_of (to_stops t)] = KOk tt ->
  ivl_load_feasible (v_cap (rb_veh r)) (rb_acts r) = true
  /\ forall s st, nth_error (to_stops t) s = Some st -> ss_load st = nth s (replay_loads_x (rb_has_end r) (rb_acts r)) 0.
Proof.
  intros Hk Hr Hctx Hs Hlen Hplain Hsimple Hdim Hpos Hbal vt Hv Hl.
  pose proof (rebuild_stop_dem P S t r Hr Hctx Hs Hplain Hsimple Hdim Hpos) as Hsd.
  destruct (tour_ctx_spec P t Hctx) as (vt' & sh & Hv' & Hsh & Hso & _ & _). rewrite Hv in Hv'. injection Hv' as <-.
  rewrite (rebuild_shift _ _ _ Hr) in Hso. injection Hso as Evt Esh.
  destruct (rebuild_spec _ _ _ Hr) as (Hflat & _ & _ & Ke).
  assert (Hlacts : length (rb_acts r) = length (to_stops t)).
  { rewrite <- (Forall2_length' _ _ _ (rebuild_demands P t r Hr)), <- Hflat. apply flat_single_length. exact Hs. }
  assert (Hts : forall i st, nth_error (to_stops t) i = Some st ->
            exists a, ss_acts st = [a] /\ nth_error (tour_sacts t) i = Some (st, a)).
  { intros i st Hi. destruct (tour_sacts_single_from _ Hs i st Hi) as (a & Ha & Hn & _). exists a. auto. }
  assert (Htl : length (tour_sacts t) = length (to_stops t)).
  { destruct (to_stops t) as [|x rest] eqn:E; [cbn in Hlen; lia|]. unfold tour_sacts. rewrite E.
    destruct (tour_sacts_single_from _ Hs 0%nat x eq_refl) as (_ & _ & _ & Hl'). exact Hl'. }
  assert (Hmap : map (mdem P t) (tour_sacts t) = map a_dem (rb_acts r)).
  { apply list_eq_nth_error; [rewrite !map_length; congruence|]. intros i x Hi. rewrite nth_error_map in Hi.
    destruct (nth_error (tour_sacts t) i) as [[st a]|] eqn:Ei; [|discriminate Hi]. cbn [option_map] in Hi. injection Hi as <-.
    assert (Hlt : (i < length (to_stops t))%nat) by (rewrite <- Htl; apply nth_error_Some; congruence).
    destruct (nth_error (to_stops t) i) as [st'|] eqn:Est; [|apply nth_error_None in Est; lia].
    destruct (Hts i st' Est) as (a' & Ha' & Hn'). rewrite Ei in Hn'. injection Hn' as <- <-.
    destruct (Hsd i st Est) as (a2 & A & Ha2 & HA & _ & Hmd & _). rewrite Ha' in Ha2. injection Ha2 as <-.
    rewrite nth_error_map, HA. cbn [option_map]. rewrite Hmd. reflexivity. }
  assert (Hmok : forall sa, In sa (tour_sacts t) -> mok P t sa).
  { intros [st a] Hin. apply In_nth_error in Hin. destruct Hin as [i Ei].
    assert (Hlt : (i < length (to_stops t))%nat) by (rewrite <- Htl; apply nth_error_Some; congruence).
    destruct (nth_error (to_stops t) i) as [st'|] eqn:Est; [|apply nth_error_None in Est; lia].
    destruct (Hts i st' Est) as (a' & Ha' & Hn'). rewrite Ei in Hn'. injection Hn' as <- <-.
    destruct (Hsd i st Est) as (a2 & A & Ha2 & _ & Hm & _). rewrite Ha' in Ha2. injection Ha2 as <-. exact Hm. }
  assert (Hnr : no_reload (rb_acts r) = true).
  { unfold no_reload. apply forallb_forall. intros A Hin. apply In_nth_error in Hin. destruct Hin as [i Ei].
    assert (Hlt : (i < length (to_stops t))%nat) by (rewrite <- Hlacts; apply nth_error_Some; congruence).
    destruct (nth_error (to_stops t) i) as [st|] eqn:Est; [|apply nth_error_None in Est; lia].
    destruct (Hsd i st Est) as (a & A' & _ & HA & _ & _ & Hj & _). rewrite Ei in HA. injection HA as <-.
    unfold is_reload. apply negb_true_iff. apply Z.eqb_neq. exact Hj. }
  assert (Hvin : In vt (pr_fleet P)).
  { unfold get_vehicle in Hv. destruct (find _ (pr_fleet P)) as [v|] eqn:Ef; [|discriminate Hv]. injection Hv as <-. apply find_some in Ef. tauto. }
  assert (Hcapv : capacity_of vt = [vt_cap vt]).
  { unfold capacity_of. unfold one_dim in Hdim. apply andb_true_iff in Hdim. destruct Hdim as [Hdim _]. apply andb_true_iff in Hdim.
    destruct Hdim as [Hx _]. rewrite forallb_forall in Hx. specialize (Hx vt Hvin). destruct (vt_xcap vt); [reflexivity|discriminate Hx]. }
  assert (Hxl : to_xload t = []).
  { unfold one_dim in Hdim. apply andb_true_iff in Hdim. destruct Hdim as [_ Hx]. rewrite forallb_forall in Hx.
    specialize (Hx t (nth_error_In _ _ Hk)). destruct (to_xload t); [reflexivity|discriminate Hx]. }
  assert (Hsl : forall i st, stop_load t i st = [ss_load st]) by (intros; unfold stop_load; rewrite Hxl; reflexivity).
  rewrite Hcapv in Hl. cbn [load_intervals] in Hl. rewrite (interval_stops_legs _ Hlen) in Hl. fold (tour_sacts t) in Hl.
  destruct (interval_totals_spec P t (tour_sacts t) ([], []) Hmok v1_nil v1_nil) as (sd & ep & Htot & Vsd & Vep & Zsd & Zep).
  rewrite Htot in Hl. cbn [kbind fst snd] in Hl. cbn [fst snd vz hd] in Zsd, Zep.
  assert (Hsum : forall g, sumz (map (fun sa => g (mdem P t sa)) (tour_sacts t)) = tot g (rb_acts r)).
  { intros g. rewrite tot_sumz, <- Hmap, map_map. reflexivity. }
  rewrite Hsum in Zsd, Zep. rewrite tot_ds in Zsd. rewrite tot_ps in Zep.
  assert (Hbal' : tot d_pd (rb_acts r) - tot d_dd (rb_acts r) = 0).
  { rewrite <- !Hsum. rewrite <- Hbal. clear -Hmok. induction (tour_sacts t) as [|sa l IH]; [reflexivity|].
    cbn [map sumz fold_right]. fold (sumz (map (fun sa => d_pd (mdem P t sa)) l)). fold (sumz (map (fun sa => d_dd (mdem P t sa)) l)).
    fold (sumz (map (act_dyn P t) l)). rewrite (act_dyn_mdem P t sa (Hmok sa (or_introl eq_refl))).
    assert (IH' := IH (fun x Hx => Hmok x (or_intror Hx))). lia. }
  destruct (interval_legs P t [vt_cap vt] ep sd (legs_of (to_stops t))) as [ec|e] eqn:Hlegs; [|discriminate Hl].
  destruct (interval_legs_sound _ _ _ _ _ _ _ Hlegs) as [Hfirst Hall].
  set (l0 := total_static_delivery (rb_acts r)) in *.
  set (ls := loads_from l0 (rb_acts r)).
  assert (HL : replay_loads_x (rb_has_end r) (rb_acts r) = if rb_has_end r then removelast ls ++ [0] else ls).
  { rewrite (replay_loads_x_single _ _ Hnr). reflexivity. }
  assert (Hlsl : length ls = length (to_stops t)) by (unfold ls; rewrite loads_from_length; exact Hlacts).
  (* what an accepted leg says in scalars *)
  assert (Hleg : forall j a b, nth_error (to_stops t) j = Some a -> nth_error (to_stops t) (Datatypes.S j) = Some b ->
            ss_load a <= vt_cap vt /\ ss_load b <= vt_cap vt
            /\ exists ab B, ss_acts b = [ab] /\ nth_error (rb_acts r) (Datatypes.S j) = Some B /\ mdem P t (b, ab) = a_dem B
               /\ (sa_kind ab = 11 -> rb_has_end r = true /\ Datatypes.S j = (length (to_stops t) - 1)%nat /\ a_dem B = dzero)
               /\ ss_load b = ss_load a + (if sa_kind ab =? 11 then - vz ep else d_change (a_dem B))).
  { intros j a b Ha Hb. destruct (Hall j _ _ _ (legs_of_nth _ j a b Ha Hb)) as (F1 & F2 & ch & Hch & V).
    rewrite (Hsl j a) in F1, V. rewrite (Hsl (Datatypes.S j) b) in F2, V. rewrite (vfit_v1 _ _ (v1_one _)) in F1. rewrite (vfit_v1 _ _ (v1_one _)) in F2. cbn [vz hd] in F1, F2. apply Z.leb_le in F1. apply Z.leb_le in F2.
    split; [exact F1|]. split; [exact F2|].
    destruct (Hsd (Datatypes.S j) b Hb) as (ab & B & Hab & HB & Hmokb & Hmdb & _ & H13 & H11 & _ & Hd11).
    destruct (stop_change_single P t b ab ep Hab Hmokb Vep) as (ch' & Hch' & Vch & Zch). rewrite Hch in Hch'. injection Hch' as <-.
    destruct (vadd_v1 [ss_load a] ch (v1_one _) Vch) as [Vs Zs]. rewrite (veq_v1 _ _ (v1_one _) Vs), Zs, Zch in V. cbn [vz hd] in V.
    apply Z.eqb_eq in V. assert (H13b : (sa_kind ab =? 13) = false) by (apply Z.eqb_neq; exact H13). rewrite H13b, orb_false_r, Hmdb in V.
    exists ab, B. split; [exact Hab|]. split; [exact HB|]. split; [exact Hmdb|]. split; [|exact V].
    intros E. destruct (H11 E (Nat.neq_succ_0 j)) as [E1 E2]. auto. }
  (* the last stop of a tour with an end holds the arrival *)
  assert (Hlastk : rb_has_end r = true -> forall b ab, nth_error (to_stops t) (length (to_stops t) - 1) = Some b -> ss_acts b = [ab] -> sa_kind ab = 11).
  { intros Hend b ab Hb Hab. destruct (flat_single t Hs _ b Hb) as (a' & Ha' & Hf). rewrite Hab in Ha'. injection Ha' as <-.
    unfold rb_has_end in Hend. destruct (rb_arr r) as [x|] eqn:Earr; [|discriminate Hend].
    assert (Hlf : nth_error (rb_facts r) (length (rb_facts r) - 1) = Some x).
    { unfold rb_facts. rewrite Earr. cbn [length]. rewrite app_length, map_length. cbn [length].
      replace (Datatypes.S (length (rb_jobs r) + 1) - 1)%nat with (Datatypes.S (length (rb_jobs r))) by lia. cbn [nth_error].
      rewrite nth_error_app2 by (rewrite map_length; lia). rewrite map_length, Nat.sub_diag. reflexivity. }
    assert (Hfl : length (rb_facts r) = length (to_stops t)) by (rewrite <- Hflat; apply flat_single_length; exact Hs).
    rewrite Hfl, <- Hflat, Hf in Hlf. injection Hlf as Hlf. pose proof (Ke x eq_refl) as K11. rewrite <- Hlf in K11. exact K11. }
  (* the running load at every stop that is not the arrival stop *)
  assert (Hrun : forall i st, nth_error (to_stops t) i = Some st -> (rb_has_end r = true -> (i < length (to_stops t) - 1)%nat) ->
            ss_load st = nth i ls 0).
  { induction i as [|i IH]; intros st Hi Hne.
    - destruct (legs_of (to_stops t)) as [|[i0 [f0 t0]] lr] eqn:Elegs.
      { destruct (nth_error (to_stops t) 1) as [b|] eqn:Hb; [|apply nth_error_None in Hb; lia].
        pose proof (legs_of_nth _ 0 st b Hi Hb) as L. rewrite Elegs in L. discriminate L. }
      destruct (nth_error (to_stops t) 1) as [b|] eqn:Hb; [|apply nth_error_None in Hb; lia].
      pose proof (legs_of_nth _ 0 st b Hi Hb) as L. rewrite Elegs in L. cbn [nth_error] in L. injection L as -> -> ->.
      rewrite Hsl, (veq_v1 _ _ (v1_one _) Vsd) in Hfirst. cbn [vz hd] in Hfirst. apply Z.eqb_eq in Hfirst. rewrite Hfirst, Zsd.
      destruct (Hsd 0%nat st Hi) as (a & A & _ & HA & _ & _ & _ & _ & _ & Hz & _).
      unfold ls. destruct (rb_acts r) as [|A0 racts] eqn:Eacts; [discriminate HA|]. cbn [nth_error] in HA. injection HA as ->.
      rewrite loads_from_nth0, (Hz eq_refl). unfold d_change, dzero. cbn [d_ps d_pd d_ds d_dd]. lia.
    - destruct (nth_error (to_stops t) i) as [a|] eqn:Ha.
      2:{ apply nth_error_None in Ha. assert (Datatypes.S i < length (to_stops t))%nat by (apply nth_error_Some; congruence). lia. }
      destruct (Hleg i a st Ha Hi) as (_ & _ & ab & B & Hab & HB & _ & H11 & Eq).
      assert (Hi' : rb_has_end r = true -> (i < length (to_stops t) - 1)%nat) by (intros E; specialize (Hne E); lia).
      rewrite (IH a eq_refl Hi') in Eq.
      destruct (sa_kind ab =? 11) eqn:E11.
      + apply Z.eqb_eq in E11. destruct (H11 E11) as (E1 & E2 & _). specialize (Hne E1). lia.
      + rewrite Eq. symmetry. apply (loads_from_step (rb_acts r) l0 i B HB). }
  assert (Harrv : rb_has_end r = true -> forall st, nth_error (to_stops t) (length (to_stops t) - 1) = Some st -> ss_load st = 0).
  { intros Hend st Hi.
    pose proof Hi as Hi0. destruct (length (to_stops t) - 1)%nat as [|j] eqn:En; [lia|].
    destruct (nth_error (to_stops t) j) as [a|] eqn:Ha.
    2:{ apply nth_error_None in Ha. lia. }
    destruct (Hleg j a st Ha Hi) as (_ & _ & ab & B & Hab & HB & _ & H11 & Eq).
    assert (E11 : sa_kind ab = 11) by (apply (Hlastk Hend st ab); [first [exact Hi|rewrite En; exact Hi]|exact Hab]).
    destruct (H11 E11) as (_ & _ & HdB). rewrite E11, Z.eqb_refl in Eq.
    rewrite (Hrun j a Ha) in Eq by (intros _; lia).
    assert (Hstep := loads_from_step (rb_acts r) l0 j B HB). fold ls in Hstep. rewrite HdB in Hstep.
    assert (Hla : nth (Datatypes.S j) ls 0 = load_after l0 (rb_acts r)).
    { unfold ls. rewrite <- (loads_from_last (rb_acts r) l0) by (intros E; rewrite E in HB; discriminate HB).
      f_equal. rewrite Hlacts. lia. }
    rewrite Hla, load_after_tot, tot_ds, tot_ps in Hstep. unfold d_change, dzero in Hstep. cbn [d_ps d_pd d_ds d_dd] in Hstep.
    fold l0 in Hstep. lia. }
  split.
  - (* the capacity clause *)
    rewrite (ivl_load_feasible_single _ _ Hnr), (rebuild_veh_cap _ _ _ Hr), Evt. unfold load_feasible. fold l0.
    assert (Hcapall : forall i st, nth_error (to_stops t) i = Some st -> ss_load st <= vt_cap vt).
    { intros i st Hi. destruct i as [|i].
      - destruct (nth_error (to_stops t) 1) as [b|] eqn:Hb; [|apply nth_error_None in Hb; lia]. destruct (Hleg 0%nat st b Hi Hb) as (F & _). exact F.
      - destruct (nth_error (to_stops t) i) as [a|] eqn:Ha.
        2:{ apply nth_error_None in Ha. assert (Datatypes.S i < length (to_stops t))%nat by (apply nth_error_Some; congruence). lia. }
        destruct (Hleg i a st Ha Hi) as (_ & F & _). exact F. }
    apply andb_true_iff. split.
    + apply Z.leb_le. destruct (nth_error (to_stops t) 0) as [s0|] eqn:H0; [|apply nth_error_None in H0; lia].
      pose proof (Hrun 0%nat s0 H0) as E. rewrite <- (Z.add_0_r l0).
      destruct (Hsd 0%nat s0 H0) as (a & A & _ & HA & _ & _ & _ & _ & _ & Hz & _).
      assert (E0 : nth 0 ls 0 = l0).
      { unfold ls. destruct (rb_acts r) as [|A0 racts] eqn:Eacts; [discriminate HA|]. cbn [nth_error] in HA. injection HA as ->.
        rewrite loads_from_nth0, (Hz eq_refl). unfold d_change, dzero. cbn [d_ps d_pd d_ds d_dd]. lia. }
      rewrite Z.add_0_r, <- E0, <- E by (intros _; lia). apply (Hcapall 0%nat s0 H0).
    + apply loads_from_sim_conv. fold ls. intros j Hj. rewrite Hlacts in Hj.
      destruct (nth_error (to_stops t) j) as [st|] eqn:Hst; [|apply nth_error_None in Hst; lia].
      destruct (rb_has_end r) eqn:Hend.
      * destruct (Nat.eq_dec j (length (to_stops t) - 1)) as [E|Hne].
        { (* the arrival: the load on board when arriving is the load of the stop before *)
          destruct j as [|j']; [lia|].
          destruct (nth_error (to_stops t) j') as [a|] eqn:Ha; [|apply nth_error_None in Ha; lia].
          destruct (Hleg j' a st Ha Hst) as (_ & _ & ab & B & Hab & HB & _ & H11 & _).
          assert (E11 : sa_kind ab = 11) by (apply (Hlastk eq_refl st ab); [rewrite <- E; exact Hst|exact Hab]).
          destruct (H11 E11) as (_ & _ & HdB).
          assert (Hstep := loads_from_step (rb_acts r) l0 j' B HB). fold ls in Hstep. rewrite HdB in Hstep.
          unfold d_change, dzero in Hstep. cbn [d_ps d_pd d_ds d_dd] in Hstep.
          pose proof (Hrun j' a Ha) as Er. pose proof (Hcapall j' a Ha) as Ec. rewrite Hstep. rewrite Er in Ec by (intros _; lia). lia. }
        rewrite <- (Hrun j st Hst) by (intros _; lia). apply (Hcapall j st Hst).
      * rewrite <- (Hrun j st Hst) by discriminate. apply (Hcapall j st Hst).
  - (* the load reported at every stop *)
    intros s st Hst. rewrite HL. assert (Hlt : (s < length (to_stops t))%nat) by (apply nth_error_Some; congruence).
    destruct (rb_has_end r) eqn:Hend.
    + destruct (Nat.eq_dec s (length (to_stops t) - 1)) as [E|Hne].
      * subst s. rewrite (Harrv eq_refl st Hst). rewrite <- Hlsl. symmetry. apply nth_removelast_last.
        intros E. rewrite E in Hlsl. cbn [length] in Hlsl. lia.
      * rewrite nth_removelast_app by (rewrite Hlsl; lia). apply (Hrun s st Hst). intros _. lia.
    + apply (Hrun s st Hst). discriminate.
Qed.

Lemma feasible_viol_capacity P k t r : rebuild P t = Some r ->
  (In (FCapacity k) (feasible_viol P k t) <-> ivl_load_feasible (v_cap (rb_veh r)) (rb_acts r) = false).
Proof.
  intros Hr. unfold feasible_viol. rewrite Hr. cbv zeta.
  assert (Hsk : forall v, In v (flat_map (fun am : fact * (pjob * ptask * pplace * (Z * Z)) =>
                     let '(job, _, _, _) := snd am in if skills_ok (rb_vt r) job then [] else [FSkills k (pj_id job)]) (rb_jobs r)) ->
                   exists j, v = FSkills k j).
  { intros v Hin. apply in_flat_map in Hin. destruct Hin as ([a [[[job tk] p] w]] & _ & Hin). cbn [snd] in Hin.
    destruct (skills_ok (rb_vt r) job); [destruct Hin|]. destruct Hin as [<-|[]]. eexists. reflexivity. }
  assert (Hend : forall v, In v (match rb_arr r with
                                 | Some e => match sh_end (rb_shift r) with
                                             | Some (l, _) => if fa_loc e =? l then [] else [FEndLocation k]
                                             | None => []
                                             end
                                 | None => []
                                 end) -> v = FEndLocation k).
  { intros v. destruct (rb_arr r) as [e|]; [|intros []]. destruct (sh_end (rb_shift r)) as [[l ?]|]; [|intros []].
    rewrite in_ifn. intros [_ H]. auto. }
  rewrite !in_app_iff, !in_ifn. split.
  - intros H. decompose [or and] H; clear H; try discriminate; try assumption;
      match goal with
      | H : In _ (flat_map _ _) |- _ => apply Hsk in H; destruct H as [j H]; discriminate H
      | H : In _ _ |- _ => apply Hend in H; discriminate H
      end.
  - intros H. rewrite H. tauto.
Qed.

(* SOUND: where the model of check_vehicle_load accepts, the reference reports no capacity violation and replays the load reported
   at every stop - for every tour of the fragment that the reference can rebuild *)
Lemma checker_capacity_sound P S : check_vehicle_load P S = COk ->
  ctx_frag P S = true -> single_act_stops S = true -> two_stops S = true -> plain_acts S = true -> simple_jobs P = true ->
  one_dim P S = true -> pos_job_ids P = true -> dyn_balanced P S = true ->
  forall k t r, nth_error (sl_tours S) k = Some t -> rebuild P t = Some r ->
    ~ In (FCapacity (Z.of_nat k)) (feasible_viol P (Z.of_nat k) t)
    /\ forall s st, nth_error (to_stops t) s = Some st -> ss_load st = nth s (replay_loads_x (rb_has_end r) (rb_acts r)) 0.
Proof.
  intros Hok Hctx Hsingle Htwo Hplain Hsimple Hdim Hpos Hbal k t r Hk Hr.
  assert (Hin : In t (sl_tours S)) by (eapply nth_error_In; exact Hk).
  apply check_vehicle_load_ok in Hok. destruct (load_assignment_ok _ _ Hok t Hin) as (vt & ivs & Hv & Hi & Hl).
  assert (Hlen : (2 <= length (to_stops t))%nat) by (unfold two_stops in Htwo; rewrite forallb_forall in Htwo; apply Nat.leb_le, Htwo; exact Hin).
  assert (Hpt : plain_tour t = true).
  { unfold plain_tour. unfold plain_acts, all_sacts, all_stops in Hplain. rewrite forallb_forall in *. intros a Ha. apply Hplain.
    apply in_flat_map in Ha. destruct Ha as (st & Hst & Ha). apply in_flat_map. exists st. split; [|exact Ha].
    apply in_flat_map. exists t. auto. }
  assert (Hnrs : no_reload_stop t = true).
  { unfold no_reload_stop. apply forallb_forall. intros x Hx. unfold is_reload_stop.
    destruct (ss_acts x) as [|a l] eqn:Ea; [reflexivity|]. apply negb_true_iff. apply Z.eqb_neq. intros E.
    unfold plain_tour in Hpt. rewrite forallb_forall in Hpt.
    assert (Ha : In a (flat_map ss_acts (to_stops t))) by (apply in_flat_map; exists x; split; [exact Hx|rewrite Ea; left; reflexivity]).
    specialize (Hpt a Ha). rewrite E in Hpt. discriminate Hpt. }
  rewrite (get_intervals_single t Hnrs Hlen) in Hi. injection Hi as <-.
  assert (Hb : sumz (map (act_dyn P t) (tour_sacts t)) = 0) by (unfold dyn_balanced in Hbal; rewrite forallb_forall in Hbal; apply Z.eqb_eq, Hbal; exact Hin).
  destruct (load_tour_sound P S k t r Hk Hr (ctx_frag_tour _ _ _ _ Hctx Hk) (single_act_stops_tour S t Hsingle Hin) Hlen Hpt Hsimple Hdim Hpos Hb vt Hv Hl) as [Hc Hld].
  split; [|exact Hld]. rewrite (feasible_viol_capacity P (Z.of_nat k) t r Hr), Hc. discriminate.
Qed.

(* ================================================================== (e) relations.rs: the `any` rule *)
Lemma mid_ids_sact t j : In j (mid_ids t) -> exists a, In a (flat_map ss_acts (to_stops t)) /\ sa_job a = j /\ is_mid_kind (sa_kind a) = true.
Proof.
  unfold mid_ids. intros H. apply in_map_iff in H. destruct H as (f & E & Hf). apply filter_In in Hf. destruct Hf as [Hin Hk].
  assert (H1 : In (fa_job f, fa_kind f) (map (fun f => (fa_job f, fa_kind f)) (flat_tour t))) by (apply in_map_iff; exists f; auto).
  rewrite flat_tour_ids in H1. apply in_map_iff in H1. destruct H1 as (a & Ea & Ha). injection Ea as E1 E2.
  exists a. split; [exact Ha|]. split; [congruence|rewrite E2; exact Hk].
Qed.

Lemma sact_mid_ids t a : In a (flat_map ss_acts (to_stops t)) -> is_mid_kind (sa_kind a) = true -> In (sa_job a) (mid_ids t).
Proof.
  intros Ha Hk. assert (H1 : In (sa_job a, sa_kind a) (map (fun a => (sa_job a, sa_kind a)) (flat_map ss_acts (to_stops t)))) by (apply in_map_iff; exists a; auto).
  rewrite <- flat_tour_ids in H1. apply in_map_iff in H1. destruct H1 as (f & E & Hf). injection E as E1 E2.
  unfold mid_ids. apply in_map_iff. exists f. split; [exact E1|]. apply filter_In. split; [exact Hf|rewrite E2; exact Hk].
Qed.

Lemma rel_frag_spec r S : rel_frag r S = true ->
  (forall j, In j (rl_jobs r) -> is_reserved j = false)
  /\ (forall o, In o (sl_tours S) -> to_vehicle o = rl_vehicle r -> is_rel_tour r o = true)
  /\ exists t, find (fun t => (to_vehicle t =? rl_vehicle r) && (to_shift t =? rl_shift r)%nat) (sl_tours S) = Some t
               /\ to_vehicle t = rl_vehicle r.
Proof.
  unfold rel_frag. rewrite !andb_true_iff. intros [[H1 H2] H3]. split; [|split].
  - intros j Hj. apply negb_true_iff in H1. rewrite existsb_false_iff in H1. apply H1. exact Hj.
  - intros o Ho Ev. rewrite forallb_forall in H2. specialize (H2 o Ho). unfold is_rel_tour. rewrite Ev, Z.eqb_refl in *. cbn [negb orb andb] in *. exact H2.
  - apply existsb_exists in H3. destruct H3 as (t0 & Hin & Ht0). unfold is_rel_tour in Ht0.
    destruct (find (fun t => (to_vehicle t =? rl_vehicle r) && (to_shift t =? rl_shift r)%nat) (sl_tours S)) as [t|] eqn:Hf.
    + exists t. split; [reflexivity|]. apply find_some in Hf. destruct Hf as [_ Hf]. apply andb_true_iff in Hf. destruct Hf as [Hf _]. apply Z.eqb_eq. exact Hf.
    + pose proof (find_none _ _ Hf t0 Hin) as Hn. cbv beta in Hn. congruence.
Qed.

Lemma in_all_sacts S t a : In t (sl_tours S) -> In a (flat_map ss_acts (to_stops t)) -> In a (all_sacts S).
Proof.
  intros Ht Ha. unfold all_sacts, all_stops. apply in_flat_map in Ha. destruct Ha as (st & Hst & Ha). apply in_flat_map. exists st.
  split; [apply in_flat_map; exists t; auto|exact Ha].
Qed.

Lemma zmem_nodup j l : zmem j (nodup Z.eq_dec l) = zmem j l.
Proof.
  destruct (zmem j l) eqn:E.
  - apply zmem_In. apply nodup_In. apply zmem_In. exact E.
  - destruct (zmem j (nodup Z.eq_dec l)) eqn:E'; [|reflexivity]. apply zmem_In, nodup_In, zmem_In in E'. congruence.
Qed.

Lemma rel_ids_in r j : In j (rel_ids r) -> In j (rl_jobs r).
Proof. unfold rel_ids. intros H. apply filter_In in H. tauto. Qed.

(* SOUND: the real `any` rule accepts => no tour of another vehicle shift serves a job of the relation (Relations.rel_vehicle_ok) *)
Lemma checker_relation_any_sound P S r : rl_type r = 0 -> rel_frag r S = true -> kind_ids_ok S = true ->
  relation_rule P S r = KOk tt -> rel_vehicle_ok r S = true.
Proof.
  intros Hty Hfr Hids Hok. destruct (rel_frag_spec r S Hfr) as (Hres & Hveh & t & Hfind & Htv).
  unfold relation_rule in Hok. rewrite Hfind in Hok.
  destruct (relation_count P (nodup Z.eq_dec (rl_jobs r))) as [n|e]; [|discriminate Hok]. cbn [kbind] in Hok.
  destruct (negb (n =? length (rl_jobs r))%nat); [discriminate Hok|]. rewrite Hty in Hok. cbn [Z.eqb] in Hok.
  destruct (existsb _ (sl_tours S)) eqn:Hex; [discriminate Hok|]. rewrite existsb_false_iff in Hex.
  unfold rel_vehicle_ok. rewrite Hty. cbn [Z.eqb orb]. rewrite andb_true_r. apply forallb_forall. intros o Ho.
  destruct (is_rel_tour r o) eqn:Hrt; [reflexivity|]. cbn [orb]. apply negb_true_iff. apply existsb_false_iff. intros j Hj.
  unfold serves. destruct (zmem j (mid_ids o)) eqn:Hz; [|reflexivity]. exfalso. apply zmem_In in Hz.
  destruct (mid_ids_sact o j Hz) as (a & Ha & Eja & Hmid).
  specialize (Hex o Ho). apply andb_false_iff in Hex. destruct Hex as [Hex|Hex].
  - apply negb_false_iff, Z.eqb_eq in Hex. rewrite Htv in Hex. rewrite (Hveh o Ho Hex) in Hrt. discriminate Hrt.
  - rewrite existsb_false_iff in Hex.
    assert (Hjr : In j (rl_jobs r)) by (apply rel_ids_in; exact Hj).
    pose proof (Hres j Hjr) as Hnr.
    (* the activity is a job activity: a break / reload would carry a reserved id *)
    unfold kind_ids_ok in Hids. rewrite forallb_forall in Hids. specialize (Hids a (in_all_sacts S o a Ho Ha)).
    apply andb_true_iff in Hids. destruct Hids as [I12 I13].
    assert (Hrel : act_rel_id a = j).
    { unfold act_rel_id. unfold is_mid_kind, is_job_kind in Hmid.
      destruct (sa_kind a =? 10) eqn:K10; [apply Z.eqb_eq in K10; rewrite K10 in Hmid; discriminate Hmid|].
      destruct (sa_kind a =? 11) eqn:K11; [apply Z.eqb_eq in K11; rewrite K11 in Hmid; discriminate Hmid|].
      destruct (sa_kind a =? 12) eqn:K12.
      { cbn [negb orb] in I12. apply Z.eqb_eq in I12. rewrite Eja in I12. subst j. discriminate Hnr. }
      destruct (sa_kind a =? 13) eqn:K13.
      { cbn [negb orb] in I13. apply Z.eqb_eq in I13. rewrite Eja in I13. subst j. discriminate Hnr. }
      exact Eja. }
    assert (Hin : In (act_rel_id a) (activity_ids o)) by (unfold activity_ids; apply in_map; exact Ha).
    specialize (Hex _ Hin). rewrite Hrel, zmem_nodup in Hex. apply zmem_In in Hjr. congruence.
Qed.

(* COMPLETE: ... and conversely, for a relation whose ids are plan jobs listed once per task *)
Lemma checker_relation_any_complete P S r : rl_type r = 0 -> rel_frag r S = true -> regular_kinds S = true ->
  relation_count P (nodup Z.eq_dec (rl_jobs r)) = KOk (length (rl_jobs r)) ->
  rel_vehicle_ok r S = true -> relation_rule P S r = KOk tt.
Proof.
  intros Hty Hfr Hreg Hcnt Hok. destruct (rel_frag_spec r S Hfr) as (Hres & Hveh & t & Hfind & Htv).
  unfold relation_rule. rewrite Hfind, Hcnt. cbn [kbind]. rewrite Nat.eqb_refl. cbn [negb]. rewrite Hty. cbn [Z.eqb].
  unfold rel_vehicle_ok in Hok. apply andb_true_iff in Hok. destruct Hok as [Hok _]. rewrite forallb_forall in Hok.
  replace (existsb _ (sl_tours S)) with false; [reflexivity|]. symmetry. apply existsb_false_iff. intros o Ho.
  destruct (negb (to_vehicle o =? to_vehicle t)) eqn:Hv; [|reflexivity]. cbn [andb]. apply existsb_false_iff. intros x Hx.
  rewrite zmem_nodup. destruct (zmem x (rl_jobs r)) eqn:Hz; [|reflexivity]. exfalso. apply zmem_In in Hz.
  specialize (Hok o Ho). apply orb_true_iff in Hok. destruct Hok as [Hrt|Hns].
  - unfold is_rel_tour in Hrt. apply andb_true_iff in Hrt. destruct Hrt as [Hrt _]. apply Z.eqb_eq in Hrt.
    apply negb_true_iff, Z.eqb_neq in Hv. congruence.
  - apply negb_true_iff in Hns. rewrite existsb_false_iff in Hns.
    pose proof (Hres x Hz) as Hnr.
    assert (Hxr : In x (rel_ids r)).
    { unfold rel_ids. apply filter_In. split; [exact Hz|]. unfold is_reserved in Hnr. apply orb_false_iff in Hnr. destruct Hnr as [Hnr _].
      apply orb_false_iff in Hnr. destruct Hnr as [Hnr _]. rewrite Hnr. reflexivity. }
    specialize (Hns x Hxr). unfold serves in Hns.
    unfold activity_ids in Hx. apply in_map_iff in Hx. destruct Hx as (a & Ea & Ha).
    unfold regular_kinds in Hreg. rewrite forallb_forall in Hreg. specialize (Hreg a (in_all_sacts S o a Ho Ha)). apply negb_true_iff in Hreg.
    unfold extra_kind in Hreg. apply negb_false_iff in Hreg.
    unfold act_rel_id in Ea. unfold is_reserved in Hnr.
    destruct (sa_kind a =? 10) eqn:K10; [subst x; discriminate Hnr|].
    destruct (sa_kind a =? 11) eqn:K11; [subst x; discriminate Hnr|].
    destruct (sa_kind a =? 12) eqn:K12; [subst x; discriminate Hnr|].
    destruct (sa_kind a =? 13) eqn:K13; [subst x; discriminate Hnr|].
    rewrite !orb_false_r in Hreg.
    assert (Hmid : is_mid_kind (sa_kind a) = true) by (unfold is_mid_kind; rewrite Hreg; reflexivity).
    pose proof (sact_mid_ids o a Ha Hmid) as Hin. rewrite Ea in Hin. apply zmem_In in Hin. congruence.
Qed.

Lemma check_relations_ok rels P S r : check_relations rels P S = COk -> In r rels -> relation_rule P S r = KOk tt.
Proof.
  unfold check_relations. rewrite combine_results_ok. intros H Hin.
  assert (H1 : try_each (relation_rule P S) rels = KOk tt) by (apply of_kres_ok, H; left; reflexivity).
  rewrite try_each_ok in H1. apply H1. exact Hin.
Qed.

(* broken relation: a stop that serves a job of an `any` relation moves into the tour of ANOTHER VEHICLE - rejected by the model of
   the real rule (by this relation's rule or by an earlier one) *)
Lemma checker_breach_relation_any P S rels r k s k2 t t2 st x : In r rels -> rl_type r = 0 -> k <> k2 ->
  nth_error (sl_tours S) k = Some t -> nth_error (sl_tours S) k2 = Some t2 -> is_rel_tour r t = true ->
  to_vehicle t2 <> rl_vehicle r -> nth_error (to_stops t) s = Some st -> In x (ss_acts st) -> is_job_act x = true ->
  In (sa_job x) (rl_jobs r) -> check_relations rels P (mutS (MRelTour k s k2) S) <> COk.
Proof.
  intros Hr Hty Hne Hk Hk2 Hrt Hv2 Hs Hx Hjx Hin Hok.
  pose proof (check_relations_ok _ _ _ r Hok Hr) as H1. cbn [mutS] in H1. unfold stop_at, tour_at in H1. rewrite Hk, Hs in H1.
  set (S' := set_tours (fun l => upd_nth k2 (set_stops (ins_nth 1 st)) (upd_nth k (set_stops (del_nth s)) l)) S) in *.
  set (tk := set_stops (del_nth s) t). set (t2' := set_stops (ins_nth 1 st) t2).
  assert (Hk' : nth_error (sl_tours S') k = Some tk).
  { unfold S'. cbn [set_tours sl_tours]. rewrite nth_error_upd_nth_neq by auto. apply nth_error_upd_nth_eq. exact Hk. }
  assert (Hk2' : nth_error (sl_tours S') k2 = Some t2').
  { unfold S'. cbn [set_tours sl_tours]. apply nth_error_upd_nth_eq. rewrite nth_error_upd_nth_neq by auto. exact Hk2. }
  unfold relation_rule in H1.
  destruct (find (fun t0 => (to_vehicle t0 =? rl_vehicle r) && (to_shift t0 =? rl_shift r)%nat) (sl_tours S')) as [tf|] eqn:Hf.
  2:{ pose proof (find_none _ _ Hf tk (nth_error_In _ _ Hk')) as Hn. cbv beta in Hn. unfold tk in Hn. cbn [set_stops to_vehicle to_shift] in Hn.
      unfold is_rel_tour in Hrt. congruence. }
  apply find_some in Hf. destruct Hf as [_ Hf]. apply andb_true_iff in Hf. destruct Hf as [Hfv _]. apply Z.eqb_eq in Hfv.
  destruct (relation_count P (nodup Z.eq_dec (rl_jobs r))) as [n|e]; [|discriminate H1]. cbn [kbind] in H1.
  destruct (negb (n =? length (rl_jobs r))%nat); [discriminate H1|]. rewrite Hty in H1. cbn [Z.eqb] in H1.
  destruct (existsb _ (sl_tours S')) eqn:Hex; [discriminate H1|]. rewrite existsb_false_iff in Hex.
  specialize (Hex t2' (nth_error_In _ _ Hk2')).
  assert (Hvne : negb (to_vehicle t2' =? to_vehicle tf) = true).
  { apply negb_true_iff, Z.eqb_neq. unfold t2'. cbn [set_stops to_vehicle]. rewrite Hfv. exact Hv2. }
  rewrite Hvne in Hex. cbn [andb] in Hex. rewrite existsb_false_iff in Hex.
  assert (Hid : In (act_rel_id x) (activity_ids t2')).
  { unfold activity_ids. apply in_map. apply in_flat_map. exists st. split; [unfold t2'; cbn [set_stops to_stops]; apply In_ins_nth|exact Hx]. }
  specialize (Hex _ Hid). rewrite zmem_nodup in Hex.
  assert (Hrel : act_rel_id x = sa_job x).
  { unfold act_rel_id. unfold is_job_act in Hjx. destruct (job_kind_cases _ Hjx) as [E|[E|[E|E]]]; rewrite E; reflexivity. }
  rewrite Hrel in Hex. apply zmem_In in Hin. congruence.
Qed.

(* ================================================================== concrete documents: non-vacuity and the recorded findings *)
Definition XMAT : list Z := [0; 10; 20; 10; 0; 10; 20; 10; 0].     (* three locations on a line, 10 apart *)
(* two vehicles of one type (closed shift, capacity 10, fixed 7, distance price 1, time price 2); job 1 delivery at 1, job 2 pickup
   at 2, job 3 unassigned; tour A serves job 1, tour B job 2; every stop holds one activity *)
Definition x2_P : pproblem :=
  mkPProblem [mkPJob 1 [mkPTask 1 [mkPPlace 1 5 [(0, 100)] None] 1] true [] [] [] None None [] [];
              mkPJob 2 [mkPTask 0 [mkPPlace 2 0 [(0, 100)] None] 1] true [] [] [] None None [] [];
              mkPJob 3 [mkPTask 1 [mkPPlace 1 5 [(0, 100)] None] 1] true [] [] [] None None [] []]
             [mkPVType 1 [1; 2] [mkPShift 0 0 INF (Some (0, 1000)) [] []] 10 7 1 2 [] None None None []]
             3 XMAT XMAT [].
Definition x2_tA : stour :=
  mkSTour 1 1 0 [mkSStop 0 0 0 1 0 [mkSAct (-1) 10 None None None];
                 mkSStop 1 10 15 0 10 [mkSAct 1 1 None None None];
                 mkSStop 0 25 25 0 20 [mkSAct (-1) 11 None None None]] (mkSStat 77 20 25 20 5 0 0) [].
Definition x2_tB : stour :=
  mkSTour 2 1 0 [mkSStop 0 0 0 0 0 [mkSAct (-1) 10 None None None];
                 mkSStop 2 20 20 1 20 [mkSAct 2 0 None None None];
                 mkSStop 0 40 40 0 40 [mkSAct (-1) 11 None None None]] (mkSStat 127 40 40 40 0 0 0) [].
Definition x2_S : ssolution := mkSSolution (mkSStat 204 60 65 60 5 0 0) [x2_tA; x2_tB] [(3, 1%nat)].
(* relations that hold on it: strict with both anchors for tour A, sequence for tour B *)
Definition x2_rels : list prel := [mkPRel 2 1 0 [REL_DEPARTURE; 1; REL_ARRIVAL]; mkPRel 1 2 0 [2]].

Lemma x2_nonvacuous :
  valid_r x2_rels x2_P x2_S = [] /\ length (sl_tours x2_S) = 2%nat
  /\ ctx_frag x2_P x2_S = true /\ single_act_stops x2_S = true /\ two_stops x2_S = true /\ no_reloads x2_S = true
  /\ simple_jobs x2_P = true /\ one_dim x2_P x2_S = true /\ locs_known x2_P x2_S = true
  /\ plain_acts x2_S = true /\ caps_nonneg x2_P = true /\ pos_job_ids x2_P = true /\ dyn_balanced x2_P x2_S = true
  /\ run_rules_t x2_rels x2_P x2_S = (COk, COk, ROk, COk, COk, COk).
Proof. vm_compute. repeat split. Qed.

(* C12-F1: cost and times.* of a statistic are never read; C12-F2: nor is the distance of the first stop; the documented
   tolerance: an arrival off by one second passes *)
Lemma x2_routing_refuted :
  valid_b x2_P x2_S = []
  /\ check_routing x2_P (mutS (MStatTour 0 0 2) x2_S) = COk /\ valid_b x2_P (mutS (MStatTour 0 0 2) x2_S) <> []
  /\ check_routing x2_P (mutS (MStatTotal 3 1) x2_S) = COk /\ valid_b x2_P (mutS (MStatTotal 3 1) x2_S) <> []
  /\ check_routing x2_P (mutS (MDistance 0 0 2) x2_S) = COk /\ valid_b x2_P (mutS (MDistance 0 0 2) x2_S) <> []
  /\ check_routing x2_P (mutS (MArrival 0 1 1) x2_S) = COk /\ valid_b x2_P (mutS (MArrival 0 1 1) x2_S) <> [].
Proof. vm_compute. repeat split; discriminate. Qed.

(* NEW (C12-F19): skip_distance_check - when every stop of the solution reports distance 0 no distance is compared at all, so the
   breach that zeroes the only non-zero stop distance is accepted (open-ended tour with one job stop; the tour statistic still says 10) *)
Definition x3_P : pproblem :=
  mkPProblem [mkPJob 1 [mkPTask 1 [mkPPlace 1 5 [(0, 100)] None] 1] true [] [] [] None None [] []]
             [mkPVType 1 [1] [mkPShift 0 0 INF None [] []] 10 7 1 2 [] None None None []] 3 XMAT XMAT [].
Definition x3_S : ssolution :=
  mkSSolution (mkSStat 47 10 15 10 5 0 0)
    [mkSTour 1 1 0 [mkSStop 0 0 0 1 0 [mkSAct (-1) 10 None None None]; mkSStop 1 10 15 0 10 [mkSAct 1 1 None None None]]
             (mkSStat 47 10 15 10 5 0 0) []] [].
Lemma x3_skip_distance_refuted :
  valid_b x3_P x3_S = [] /\ single_act_stops x3_S = true /\ applicable_b (MDistance 0 1 (-10)) x3_P x3_S = true
  /\ skip_distance_check (mutS (MDistance 0 1 (-10)) x3_S) = true
  /\ check_routing x3_P (mutS (MDistance 0 1 (-10)) x3_S) = COk /\ valid_b x3_P (mutS (MDistance 0 1 (-10)) x3_S) = [RDistance 0 1].
Proof. vm_compute. repeat split. Qed.

(* C12-F3: a tour of one stop (open end, the job at the start location) has no leg: neither load nor capacity is looked at *)
Definition x4_P : pproblem :=
  mkPProblem [mkPJob 1 [mkPTask 1 [mkPPlace 0 5 [(0, 100)] None] 1] true [] [] [] None None [] []]
             [mkPVType 1 [1] [mkPShift 0 0 INF None [] []] 10 7 1 2 [] None None None []] 3 XMAT XMAT [].
Definition x4_S : ssolution :=
  mkSSolution (mkSStat 17 0 5 0 5 0 0)
    [mkSTour 1 1 0 [mkSStop 0 0 5 0 0 [mkSAct (-1) 10 None (Some (0, 0)) None; mkSAct 1 1 (Some 0) (Some (0, 5)) None]]
             (mkSStat 17 0 5 0 5 0 0) []] [].
Lemma x4_single_stop_refuted :
  valid_b x4_P x4_S = [] /\ two_stops x4_S = false
  /\ check_vehicle_load x4_P (mutS (MLoad 0 0 1) x4_S) = COk /\ valid_b x4_P (mutS (MLoad 0 0 1) x4_S) = [RLoad 0 0].
Proof. vm_compute. repeat split. Qed.

(* C12-F4: a job served at the start location (merged into the departure stop): the valid document is rejected *)
Definition x5_P : pproblem :=
  mkPProblem [mkPJob 1 [mkPTask 1 [mkPPlace 0 5 [(0, 100)] None] 1] true [] [] [] None None [] [];
              mkPJob 2 [mkPTask 1 [mkPPlace 1 5 [(0, 100)] None] 1] true [] [] [] None None [] []]
             [mkPVType 1 [1] [mkPShift 0 0 INF (Some (0, 1000)) [] []] 10 7 1 2 [] None None None []] 3 XMAT XMAT [].
Definition x5_S : ssolution :=
  mkSSolution (mkSStat 87 20 30 20 10 0 0)
    [mkSTour 1 1 0 [mkSStop 0 0 5 1 0 [mkSAct (-1) 10 None (Some (0, 0)) None; mkSAct 1 1 (Some 0) (Some (0, 5)) None];
                    mkSStop 1 15 20 0 10 [mkSAct 2 1 None None None];
                    mkSStop 0 30 30 0 20 [mkSAct (-1) 11 None None None]]
             (mkSStat 87 20 30 20 10 0 0) []] [].
Lemma x5_departure_stop_refuted :
  valid_b x5_P x5_S = [] /\ single_act_stops x5_S = false /\ check_vehicle_load x5_P x5_S = CErr [[ELoadMismatch]].
Proof. vm_compute. repeat split. Qed.

(* NEW (C12-F20): get_vehicle_shift finds the shift BY TIME.  One vehicle with two shifts that overlap in time (shift 0 open-ended
   from 0, shift 1 closed from 10), tourSize 1: the tour of shift 1 (departure, job 1, arrival) is counted with the open-ended
   shift 0 (one terminal activity subtracted instead of two) - the document the solver returned for this problem, rejected *)
Definition x11_P : pproblem :=
  mkPProblem [mkPJob 1 [mkPTask 1 [mkPPlace 1 5 [(NEGT, INF)] None] 1] true [] [] [] None None [] [];
              mkPJob 2 [mkPTask 1 [mkPPlace 2 5 [(NEGT, INF)] None] 1] true [] [] [] None None [] []]
             [mkPVType 1 [1] [mkPShift 0 0 INF None [] []; mkPShift 0 10 INF (Some (0, 1000)) [] []] 10 7 1 2 [] None None (Some 1) []]
             3 XMAT XMAT [].
Definition x11_S : ssolution :=
  mkSSolution (mkSStat 154 40 50 40 10 0 0)
    [mkSTour 1 1 0 [mkSStop 0 0 0 1 0 [mkSAct (-1) 10 None None None]; mkSStop 2 20 25 0 20 [mkSAct 2 1 None None None]]
             (mkSStat 77 20 25 20 5 0 0) [];
     mkSTour 1 1 1 [mkSStop 0 10 10 1 0 [mkSAct (-1) 10 None None None]; mkSStop 1 20 25 0 10 [mkSAct 1 1 None None None];
                    mkSStop 0 35 35 0 20 [mkSAct (-1) 11 None None None]] (mkSStat 77 20 25 20 5 0 0) []] [].
Lemma x11_shift_by_time_refuted :
  valid_b x11_P x11_S = [] /\ ctx_frag x11_P x11_S = false /\ check_limits x11_P x11_S = CErr [[ETourSize]].
Proof. vm_compute. repeat split. Qed.

(* reloads: capacity 1, two deliveries, one reload place at location 1 *)
Definition x6_P : pproblem :=
  mkPProblem [mkPJob 1 [mkPTask 1 [mkPPlace 1 5 [(0, 100)] None] 1] true [] [] [] None None [] [];
              mkPJob 2 [mkPTask 1 [mkPPlace 2 0 [(0, 100)] None] 1] true [] [] [] None None [] []]
             [mkPVType 1 [1] [mkPShift 0 0 INF (Some (0, 1000)) [mkPPlace 1 0 [(NEGT, INF)] None] []] 1 7 1 2 [] None None None []]
             3 XMAT XMAT [].
(* C12-F8: the reload merged into the stop of the job served before it (not the first activity of its stop) *)
Definition x6_S : ssolution :=
  mkSSolution (mkSStat 137 40 45 40 5 0 0)
    [mkSTour 1 1 0 [mkSStop 0 0 0 1 0 [mkSAct (-1) 10 None None None];
                    mkSStop 1 10 15 1 10 [mkSAct 1 1 (Some 1) (Some (10, 15)) None; mkSAct RELOAD_JOB 13 (Some 1) (Some (15, 15)) None];
                    mkSStop 2 25 25 0 20 [mkSAct 2 1 None None None];
                    mkSStop 0 45 45 0 40 [mkSAct (-1) 11 None None None]]
             (mkSStat 137 40 45 40 5 0 0) []] [].
(* C12-F11: the reload stop also serves the job at the reload location *)
Definition x7_S : ssolution :=
  mkSSolution (mkSStat 137 40 45 40 5 0 0)
    [mkSTour 1 1 0 [mkSStop 0 0 0 1 0 [mkSAct (-1) 10 None None None];
                    mkSStop 2 20 20 0 20 [mkSAct 2 1 None None None];
                    mkSStop 1 30 35 0 30 [mkSAct RELOAD_JOB 13 (Some 1) (Some (30, 30)) None; mkSAct 1 1 (Some 1) (Some (30, 35)) None];
                    mkSStop 0 45 45 0 40 [mkSAct (-1) 11 None None None]]
             (mkSStat 137 40 45 40 5 0 0) []] [].
(* C12-F9: a reload stop right after the departure stop *)
Definition x6_S9 : ssolution :=
  mkSSolution (mkSStat 127 40 40 40 0 0 0)
    [mkSTour 1 1 0 [mkSStop 0 0 0 1 0 [mkSAct (-1) 10 None None None];
                    mkSStop 1 10 10 1 10 [mkSAct RELOAD_JOB 13 None None None];
                    mkSStop 2 20 20 0 20 [mkSAct 2 1 None None None];
                    mkSStop 0 40 40 0 40 [mkSAct (-1) 11 None None None]]
             (mkSStat 127 40 40 40 0 0 0) []] [(1, 1%nat)].
Lemma x6_reload_refuted :
  valid_b x6_P x6_S = [] /\ check_vehicle_load x6_P x6_S = CErr [[ELoadMismatch]]
  /\ valid_b x6_P x7_S = [] /\ check_vehicle_load x6_P x7_S = CErr [[ELoadMismatch]]
  /\ single_act_stops x6_S = false /\ single_act_stops x7_S = false /\ no_reloads x6_S = false
  /\ check_vehicle_load x6_P x6_S9 = CPanic PSubOverflow /\ single_act_stops x6_S9 = true /\ no_reloads x6_S9 = false.
Proof. vm_compute. repeat split. Qed.

(* C12-F17: an `any` relation that lists `departure` is rejected as soon as another vehicle has a tour *)
Definition x2_rels17 : list prel := [mkPRel 0 1 0 [REL_DEPARTURE; 1]].
(* C12-F18: a broken `any` relation is not noticed when the job went to another SHIFT of the relation's vehicle *)
Definition x8_P : pproblem :=
  mkPProblem [mkPJob 1 [mkPTask 1 [mkPPlace 1 5 [(0, 1000)] None] 1] true [] [] [] None None [] [];
              mkPJob 2 [mkPTask 0 [mkPPlace 2 0 [(0, 1000)] None] 1] true [] [] [] None None [] []]
             [mkPVType 1 [1] [mkPShift 0 0 INF (Some (0, 100)) [] []; mkPShift 0 200 INF (Some (0, 1000)) [] []] 10 7 1 2 [] None None None []]
             3 XMAT XMAT [].
Definition x8_S : ssolution :=
  mkSSolution (mkSStat 204 60 65 60 5 0 0)
    [mkSTour 1 1 0 [mkSStop 0 0 0 1 0 [mkSAct (-1) 10 None None None];
                    mkSStop 1 10 15 0 10 [mkSAct 1 1 None None None];
                    mkSStop 0 25 25 0 20 [mkSAct (-1) 11 None None None]] (mkSStat 77 20 25 20 5 0 0) [];
     mkSTour 1 1 1 [mkSStop 0 200 200 0 0 [mkSAct (-1) 10 None None None];
                    mkSStop 2 220 220 1 20 [mkSAct 2 0 None None None];
                    mkSStop 0 240 240 0 40 [mkSAct (-1) 11 None None None]] (mkSStat 127 40 40 40 0 0 0) []] [].
Definition x8_rels : list prel := [mkPRel 0 1 0 [1; 2]].
(* the `any` rule inside its fragment: the relation "job 1 on vehicle 1" holds on the two-tour document and is accepted *)
Definition x2_rel_any : prel := mkPRel 0 1 0 [1].
Lemma x2_rel_any_nonvacuous :
  rel_frag x2_rel_any x2_S = true /\ kind_ids_ok x2_S = true /\ regular_kinds x2_S = true
  /\ relation_count x2_P (nodup Z.eq_dec (rl_jobs x2_rel_any)) = KOk (length (rl_jobs x2_rel_any))
  /\ rel_vehicle_ok x2_rel_any x2_S = true /\ relation_rule x2_P x2_S x2_rel_any = KOk tt.
Proof. vm_compute. repeat split. Qed.

Lemma x_relations_refuted :
  valid_r x2_rels17 x2_P x2_S = [] /\ check_relations x2_rels17 x2_P x2_S = CErr [[ERelAny]]
  /\ valid_b x8_P x8_S = [] /\ rel_viols x8_rels x8_S = [FRelVehicle 0] /\ check_relations x8_rels x8_P x8_S = COk.
Proof. vm_compute. repeat split. Qed.

(* breaks (first part of check_break_assignment).  C12-F14: a break followed by another activity in its stop is counted twice;
   C12-F10: a break is attributed to the FIRST break of the shift whose interval intersects its time *)
Definition x9_P : pproblem :=
  mkPProblem [mkPJob 1 [mkPTask 1 [mkPPlace 1 5 [(0, 100)] None] 1] true [] [] [] None None [] [];
              mkPJob 2 [mkPTask 0 [mkPPlace 1 0 [(0, 100)] None] 1] true [] [] [] None None [] []]
             [mkPVType 1 [1] [mkPShift 0 0 INF (Some (0, 1000)) [] [mkPBreak [mkPPlace NOLOC 5 [(10, 50)] None] true]]
                       10 7 1 2 [] None None None []]
             3 XMAT XMAT [].
Definition x9_S : ssolution :=
  mkSSolution (mkSStat 87 20 30 20 5 0 5)
    [mkSTour 1 1 0 [mkSStop 0 0 0 1 0 [mkSAct (-1) 10 None None None];
                    mkSStop 1 10 20 1 10 [mkSAct 1 1 (Some 1) (Some (10, 15)) None; mkSAct BREAK_JOB 12 (Some 1) (Some (15, 20)) None;
                                          mkSAct 2 0 (Some 1) (Some (20, 20)) None];
                    mkSStop 0 30 30 0 20 [mkSAct (-1) 11 None None None]] (mkSStat 87 20 30 20 5 0 5) []]
    [].
Definition x10_P : pproblem :=
  mkPProblem [mkPJob 1 [mkPTask 1 [mkPPlace 1 5 [(0, 100)] None] 1] true [] [] [] None None [] []]
             [mkPVType 1 [1] [mkPShift 0 0 INF (Some (0, 1000)) []
                                 [mkPBreak [mkPPlace 0 5 [(10, 50)] None] true; mkPBreak [mkPPlace 2 5 [(20, 60)] None] false]]
                       10 7 1 2 [] None None None []]
             3 XMAT XMAT [].
Definition x10_S : ssolution :=
  mkSSolution (mkSStat 147 40 50 40 5 0 5)
    [mkSTour 1 1 0 [mkSStop 0 0 0 1 0 [mkSAct (-1) 10 None None None];
                    mkSStop 1 10 15 0 10 [mkSAct 1 1 None None None];
                    mkSStop 2 25 30 0 20 [mkSAct BREAK_JOB 12 None None None];
                    mkSStop 0 50 50 0 40 [mkSAct (-1) 11 None None None]] (mkSStat 147 40 50 40 5 0 5) []]
    [].
Lemma x_breaks_refuted :
  valid_b x9_P x9_S = [] /\ breaks_front x9_P (sl_tours x9_S) = RErr [EBreakMatched]
  /\ valid_b x10_P x10_S = [] /\ breaks_front x10_P (sl_tours x10_S) = RErr [EBreakLocation].
Proof. vm_compute. repeat split. Qed.

(* ---- the witnesses, packaged as the Properties file states them *)
Lemma checker_nonvacuous : exists rels P S,
  valid_r rels P S = [] /\ length (sl_tours S) = 2%nat /\ rels <> []
  /\ ctx_frag P S = true /\ single_act_stops S = true /\ two_stops S = true /\ no_reloads S = true
  /\ simple_jobs P = true /\ one_dim P S = true /\ locs_known P S = true
  /\ plain_acts S = true /\ caps_nonneg P = true /\ pos_job_ids P = true /\ dyn_balanced P S = true
  /\ run_rules_t rels P S = (COk, COk, ROk, COk, COk, COk).
Proof. exists x2_rels, x2_P, x2_S. destruct x2_nonvacuous as (H1 & H2 & H3). split; [exact H1|]. split; [exact H2|]. split; [discriminate|exact H3]. Qed.

Lemma checker_routing_refuted : exists P S,
  valid_b P S = []
  /\ check_routing P (mutS (MStatTour 0 0 2) S) = COk /\ valid_b P (mutS (MStatTour 0 0 2) S) <> []
  /\ check_routing P (mutS (MStatTotal 3 1) S) = COk /\ valid_b P (mutS (MStatTotal 3 1) S) <> []
  /\ check_routing P (mutS (MDistance 0 0 2) S) = COk /\ valid_b P (mutS (MDistance 0 0 2) S) <> []
  /\ check_routing P (mutS (MArrival 0 1 1) S) = COk /\ valid_b P (mutS (MArrival 0 1 1) S) <> [].
Proof. exists x2_P, x2_S. exact x2_routing_refuted. Qed.

Lemma checker_skip_distance_refuted : exists P S,
  valid_b P S = [] /\ single_act_stops S = true /\ applicable_b (MDistance 0 1 (-10)) P S = true
  /\ skip_distance_check (mutS (MDistance 0 1 (-10)) S) = true
  /\ check_routing P (mutS (MDistance 0 1 (-10)) S) = COk /\ valid_b P (mutS (MDistance 0 1 (-10)) S) = [RDistance 0 1].
Proof. exists x3_P, x3_S. exact x3_skip_distance_refuted. Qed.

Lemma checker_capacity_refuted :
  (exists P S, valid_b P S = [] /\ two_stops S = false
     /\ check_vehicle_load P (mutS (MLoad 0 0 1) S) = COk /\ valid_b P (mutS (MLoad 0 0 1) S) = [RLoad 0 0])
  /\ (exists P S, valid_b P S = [] /\ single_act_stops S = false /\ check_vehicle_load P S = CErr [[ELoadMismatch]]).
Proof. split; [exists x4_P, x4_S; exact x4_single_stop_refuted|exists x5_P, x5_S; exact x5_departure_stop_refuted]. Qed.

Lemma checker_reload_refuted : exists P S8 S11 S9,
  valid_b P S8 = [] /\ check_vehicle_load P S8 = CErr [[ELoadMismatch]]
  /\ valid_b P S11 = [] /\ check_vehicle_load P S11 = CErr [[ELoadMismatch]]
  /\ single_act_stops S8 = false /\ single_act_stops S11 = false /\ no_reloads S8 = false
  /\ check_vehicle_load P S9 = CPanic PSubOverflow /\ single_act_stops S9 = true /\ no_reloads S9 = false.
Proof. exists x6_P, x6_S, x7_S, x6_S9. exact x6_reload_refuted. Qed.

Lemma checker_relations_refuted :
  (exists rels P S, valid_r rels P S = [] /\ check_relations rels P S = CErr [[ERelAny]])
  /\ (exists rels P S, valid_b P S = [] /\ rel_viols rels S = [FRelVehicle 0] /\ check_relations rels P S = COk).
Proof.
  destruct x_relations_refuted as (H1 & H2 & H3 & H4 & H5).
  split; [exists x2_rels17, x2_P, x2_S; auto|exists x8_rels, x8_P, x8_S; auto].
Qed.

Lemma checker_breaks_refuted :
  (exists P S, valid_b P S = [] /\ breaks_front P (sl_tours S) = RErr [EBreakMatched])
  /\ (exists P S, valid_b P S = [] /\ breaks_front P (sl_tours S) = RErr [EBreakLocation]).
Proof.
  destruct x_breaks_refuted as (H1 & H2 & H3 & H4). split; [exists x9_P, x9_S; auto|exists x10_P, x10_S; auto].
Qed.

Lemma checker_relation_any_nonvacuous : exists P S r,
  rl_type r = 0 /\ rel_frag r S = true /\ kind_ids_ok S = true /\ regular_kinds S = true
  /\ relation_count P (nodup Z.eq_dec (rl_jobs r)) = KOk (length (rl_jobs r))
  /\ rel_vehicle_ok r S = true /\ relation_rule P S r = KOk tt.
Proof. exists x2_P, x2_S, x2_rel_any. split; [reflexivity|exact x2_rel_any_nonvacuous]. Qed.

Lemma checker_shift_by_time_refuted : exists P S,
  valid_b P S = [] /\ ctx_frag P S = false /\ check_limits P S = CErr [[ETourSize]].
Proof. exists x11_P, x11_S. exact x11_shift_by_time_refuted. Qed.
