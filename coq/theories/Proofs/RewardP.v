(* C18 — lemmas about reward estimation and index selection (Model/Reward.v). *)
From Coq Require Import QArith Qabs Qminmax Lqa.
From VRP Require Import Base.Tac Base.TotalCmp Model.Reward.
Open Scope Q_scope.

Lemma qnat_nonneg n : 0 <= qnat n.
Proof. unfold qnat. change 0 with (inject_Z 0). rewrite <- Zle_Qle. lia. Qed.

Lemma qnat_le n m : (n <= m)%nat -> qnat n <= qnat m.
Proof. intros H. unfold qnat. rewrite <- Zle_Qle. lia. Qed.

Lemma first_diff_spec : forall fa fb i k, first_diff fa fb i = Some k ->
  (i <= k)%nat /\ (k - i < length fa)%nat /\ (k - i < length fb)%nat /\ ~ nth (k - i) fa 0 == nth (k - i) fb 0.
Proof.
  induction fa as [|a fa IH]; intros fb i k H; cbn [first_diff] in H; [discriminate|].
  destruct fb as [|b fb]; [discriminate|].
  destruct (Qeq_bool a b) eqn:E.
  - apply IH in H. destruct H as (H1 & H2 & H3 & H4).
    replace (k - i)%nat with (S (k - S i)) by lia. cbn [length nth].
    repeat split; try lia. exact H4.
  - injection H as <-. replace (i - i)%nat with 0%nat by lia. cbn [length nth].
    repeat split; try lia. apply Qeq_bool_neq. exact E.
Qed.

Lemma qabs_zero a : Qabs a <= 0 -> a == 0.
Proof.
  intros H. pose proof (Qle_Qabs a) as H1. pose proof (Qle_Qabs (- a)) as H2.
  rewrite Qabs_opp in H2. lra.
Qed.

Lemma relmax_pos a b : ~ a == b -> 0 < Qmax (Qabs a) (Qabs b).
Proof.
  intros H. destruct (Qlt_le_dec 0 (Qmax (Qabs a) (Qabs b))) as [L|L]; [exact L|exfalso].
  pose proof (Q.le_max_l (Qabs a) (Qabs b)). pose proof (Q.le_max_r (Qabs a) (Qabs b)).
  apply H. rewrite (qabs_zero a), (qabs_zero b); [reflexivity | lra | lra].
Qed.

Lemma rel_value_bounds a b : ~ a == b -> 0 <= rel_value a b <= 2.
Proof.
  intros H. pose proof (relmax_pos a b H) as HM. unfold rel_value.
  pose proof (Q.le_max_l (Qabs a) (Qabs b)). pose proof (Q.le_max_r (Qabs a) (Qabs b)).
  pose proof (Qabs_nonneg (a - b)).
  pose proof (Qabs_triangle a (- b)) as T. rewrite Qabs_opp in T.
  split.
  - apply Qle_shift_div_l; [exact HM | lra].
  - apply Qle_shift_div_r; [exact HM |]. unfold Qminus. lra.
Qed.

Lemma rel_value_bounds_nonneg a b : ~ a == b -> 0 <= a -> 0 <= b -> 0 <= rel_value a b <= 1.
Proof.
  intros H Ha Hb. pose proof (relmax_pos a b H) as HM. unfold rel_value in *.
  pose proof (Q.le_max_l (Qabs a) (Qabs b)) as L1. pose proof (Q.le_max_r (Qabs a) (Qabs b)) as L2.
  rewrite (Qabs_pos a Ha) in *. rewrite (Qabs_pos b Hb) in *.
  pose proof (Qabs_nonneg (a - b)).
  split.
  - apply Qle_shift_div_l; [exact HM | lra].
  - apply Qle_shift_div_r; [exact HM |]. apply Qabs_case; intros; lra.
Qed.

Lemma prod_bounds v c a n : 0 <= v <= c -> 0 <= a <= n -> 0 <= v * a <= c * n.
Proof. intros [H1 H2] [H3 H4]. split; nra. Qed.

Lemma rel_dist_bounds_gen c ord fa fb :
  0 <= c ->
  (forall a b, ~ a == b -> In a fa -> In b fb -> 0 <= rel_value a b <= c) ->
  - (c * qnat (length fa)) <= rel_dist ord fa fb <= c * qnat (length fa).
Proof.
  intros Hc Hv. pose proof (qnat_nonneg (length fa)) as HN.
  assert (Z0 : - (c * qnat (length fa)) <= 0 <= c * qnat (length fa)) by (split; nra).
  unfold rel_dist.
  destruct ord; try exact Z0;
  (destruct (first_diff fa fb 0) as [idx|] eqn:E; [|exact Z0]);
  apply first_diff_spec in E; destruct E as (_ & E2 & E3 & E4);
  rewrite Nat.sub_0_r in *;
  (assert (Hval : 0 <= rel_value (nth idx fa 0) (nth idx fb 0) <= c)
     by (apply Hv; [exact E4 | apply nth_In; exact E2 | apply nth_In; exact E3]));
  (assert (Hamp : 0 <= qnat (length fa - idx) <= qnat (length fa))
     by (split; [apply qnat_nonneg | apply qnat_le; lia]));
  pose proof (prod_bounds _ _ _ _ Hval Hamp) as [P1 P2];
  set (v := rel_value _ _) in *; set (a := qnat (length fa - idx)) in *; split; nra.
Qed.

Lemma rel_dist_bounds ord fa fb :
  - (2 * qnat (length fa)) <= rel_dist ord fa fb <= 2 * qnat (length fa).
Proof.
  apply rel_dist_bounds_gen; [lra|]. intros a b H _ _. apply rel_value_bounds, H.
Qed.

Lemma rel_dist_bounds_nonneg ord fa fb :
  Forall (Qle 0) fa -> Forall (Qle 0) fb ->
  - (1 * qnat (length fa)) <= rel_dist ord fa fb <= 1 * qnat (length fa).
Proof.
  intros Fa Fb. apply rel_dist_bounds_gen; [lra|]. intros a b H Ia Ib.
  rewrite Forall_forall in Fa, Fb. apply rel_value_bounds_nonneg; auto.
Qed.

Lemma c005_range : 0 < c005 /\ c005 <= 1.
Proof. split; [reflexivity | discriminate]. Qed.

(* the shape of the reward given bounds on the two distances *)
Lemma reward_from_dist best o1 o2 fnew finit B :
  0 <= B ->
  (forall ord fb, (best = Some fb \/ fb = finit) -> rel_dist ord fnew fb <= B) ->
  0 <= distance_reward best o1 o2 fnew finit <= 3 * (B + 1).
Proof.
  intros HB H. unfold distance_reward.
  destruct best as [fbest|]; [|split; lra].
  pose proof (H o1 finit (or_intror eq_refl)) as H1.
  pose proof (H o2 fbest (or_introl eq_refl)) as H2.
  set (di := rel_dist o1 fnew finit) in *. set (db := rel_dist o2 fnew fbest) in *.
  destruct c005_range as [C1 C2].
  destruct (di ?= 0) eqn:E1; try (split; lra);
  apply Qgt_alt in E1;
  destruct (db ?= 0) eqn:E2; try (apply Qgt_alt in E2; split; lra);
  split; nra.
Qed.

Lemma distance_reward_bounds best o1 o2 fnew finit :
  0 <= distance_reward best o1 o2 fnew finit <= 3 * (2 * qnat (length fnew) + 1).
Proof.
  apply reward_from_dist.
  - pose proof (qnat_nonneg (length fnew)). lra.
  - intros ord fb _. apply rel_dist_bounds.
Qed.

Lemma distance_reward_bounds_nonneg best o1 o2 fnew finit :
  Forall (Qle 0) fnew -> Forall (Qle 0) finit -> (forall fb, best = Some fb -> Forall (Qle 0) fb) ->
  0 <= distance_reward best o1 o2 fnew finit <= 3 * (qnat (length fnew) + 1).
Proof.
  intros Fn Fi Fb.
  pose proof (reward_from_dist best o1 o2 fnew finit (1 * qnat (length fnew))) as R.
  assert (HB : 0 <= 1 * qnat (length fnew)) by (pose proof (qnat_nonneg (length fnew)); lra).
  specialize (R HB).
  assert (HR : forall ord fb, best = Some fb \/ fb = finit -> rel_dist ord fnew fb <= 1 * qnat (length fnew)).
  { intros ord fb [Hb| ->]; apply rel_dist_bounds_nonneg; auto. }
  specialize (R HR). lra.
Qed.

Lemma distance_reward_single_objective best o1 o2 a finit :
  0 <= a -> Forall (Qle 0) finit -> (forall fb, best = Some fb -> Forall (Qle 0) fb) ->
  0 <= distance_reward best o1 o2 [a] finit <= 6.
Proof.
  intros Ha Fi Fb.
  pose proof (distance_reward_bounds_nonneg best o1 o2 [a] finit (Forall_cons _ Ha (Forall_nil _)) Fi Fb) as H.
  cbn [length] in H. assert (E : 3 * (qnat 1 + 1) == 6) by reflexivity. rewrite E in H. exact H.
Qed.

Lemma perf_multiplier_bounds ratio median duration imp :
  1 / 2 < perf_multiplier ratio median duration imp <= 3.
Proof.
  unfold perf_multiplier.
  repeat match goal with |- context [if ?c then _ else _] => destruct c end;
  split; solve [reflexivity | discriminate].
Qed.

Lemma step_reward_bounds best finit fnew ratio median duration :
  0 <= step_reward best finit fnew ratio median duration <= 9 * (2 * qnat (length fnew) + 1).
Proof.
  unfold step_reward.
  set (o_nb := match best with Some fb => lex_q fnew fb | None => Lt end).
  set (inb := match o_nb with Lt => true | _ => false end).
  pose proof (distance_reward_bounds best (lex_q fnew finit) o_nb fnew finit) as [D1 D2].
  pose proof (perf_multiplier_bounds ratio median duration inb) as [M1 M2].
  assert (M : 0 <= perf_multiplier ratio median duration inb <= 3) by (split; [apply Qlt_le_weak; eapply Qlt_trans; [|exact M1]; reflexivity | exact M2]).
  pose proof (prod_bounds _ _ _ _ (conj D1 D2) M) as [P1 P2].
  split; lra.
Qed.

(* witnesses: the documented range [0, 6] of estimate_distance_reward does not hold *)
Lemma reward_above_6_three_objectives :
  distance_reward (Some [1; 1; 1]) Lt Lt [0; 1; 1] [1; 1; 1] == 12.
Proof. reflexivity. Qed.

Lemma reward_above_6_opposite_sign :
  distance_reward (Some [1]) Lt Lt [-(1)] [1] == 9.
Proof. reflexivity. Qed.

(* ---------- random_argmax ---------- *)
Open Scope Z_scope.

Lemma argmax_go_spec : forall vals o count ci cv i pre,
  length pre = i -> (ci < i)%nat -> nth ci (pre ++ vals) 0 = cv -> (forall x, In x pre -> x <= cv) ->
  (argmax_go o count (ci, cv) i vals < length (pre ++ vals))%nat /\
  forall x, In x (pre ++ vals) -> x <= nth (argmax_go o count (ci, cv) i vals) (pre ++ vals) 0.
Proof.
  induction vals as [|s rest IH]; intros o count ci cv i pre Hl Hc Hn Hm.
  - cbn [argmax_go fst]. rewrite app_nil_r in *. split; [lia|]. intros x Hx. rewrite Hn. auto.
  - assert (Hs : nth i (pre ++ s :: rest) 0 = s) by (subst i; apply nth_middle).
    assert (Heq : pre ++ s :: rest = (pre ++ [s]) ++ rest) by (rewrite <- app_assoc; reflexivity).
    assert (Hl' : length (pre ++ [s]) = S i) by (rewrite app_length; cbn; lia).
    assert (Hnew : forall count' o', s >= cv ->
              (argmax_go o' count' (i, s) (S i) rest < length (pre ++ s :: rest))%nat /\
              forall x, In x (pre ++ s :: rest) -> x <= nth (argmax_go o' count' (i, s) (S i) rest) (pre ++ s :: rest) 0).
    { intros count' o' Hge. rewrite Heq. apply IH; auto.
      - rewrite <- Heq. exact Hs.
      - intros x Hx. apply in_app_or in Hx. destruct Hx as [Hx|[<-|[]]]; [apply Hm in Hx|]; lia. }
    assert (Hkeep : forall count' o', s <= cv ->
              (argmax_go o' count' (ci, cv) (S i) rest < length (pre ++ s :: rest))%nat /\
              forall x, In x (pre ++ s :: rest) -> x <= nth (argmax_go o' count' (ci, cv) (S i) rest) (pre ++ s :: rest) 0).
    { intros count' o' Hle. rewrite Heq. apply IH; auto.
      - rewrite <- Heq. exact Hn.
      - intros x Hx. apply in_app_or in Hx. destruct Hx as [Hx|[<-|[]]]; [apply Hm in Hx|]; lia. }
    cbn [argmax_go snd].
    destruct (Z.compare cv s) eqn:E.
    + apply Z.compare_eq in E. destruct o as [|[|] o']; [apply Hkeep | apply Hnew | apply Hkeep]; lia.
    + rewrite Z.compare_lt_iff in E. apply Hnew. lia.
    + rewrite Z.compare_gt_iff in E. apply Hkeep. lia.
Qed.

Lemma random_argmax_spec o keys : keys <> [] ->
  exists i, random_argmax o keys = Some i /\ (i < length keys)%nat /\ forall x, In x keys -> x <= nth i keys 0.
Proof.
  destruct keys as [|k rest]; [congruence|]. intros _.
  eexists. split; [reflexivity|].
  apply (argmax_go_spec rest o 0%nat 0%nat k 1%nat [k]); auto.
  intros x [<-|[]]. lia.
Qed.

Lemma random_argmax_none o keys : random_argmax o keys = None <-> keys = [].
Proof. destruct keys; cbn; split; congruence. Qed.

(* ---------- weighted ---------- *)
Lemma weighted_go_range : forall es ws cur i, (fst cur < i)%nat -> (weighted_go cur i es ws < i + length ws)%nat.
Proof.
  induction es as [|e es IH]; intros ws cur i H.
  - cbn. lia.
  - destruct ws as [|w ws]; cbn [weighted_go length]; [lia|].
    destruct (olt (wkey e w) (snd cur)).
    + specialize (IH ws (i, wkey e w) (S i)). cbn [fst] in IH. lia.
    + specialize (IH ws cur (S i)). lia.
Qed.

Lemma weighted_spec es ws : ws <> [] -> length es = length ws ->
  exists i, weighted es ws = Some i /\ (i < length ws)%nat.
Proof.
  intros Hne Hl. destruct ws as [|w ws]; [congruence|]. destruct es as [|e es]; [discriminate|].
  eexists. split; [reflexivity|].
  pose proof (weighted_go_range es ws (0%nat, wkey e w) 1%nat). cbn [fst length] in *. lia.
Qed.
