(* C18 — lemmas about the exact-arithmetic slot machine (Model/SlotQ.v). *)
From Coq Require Import QArith Qabs Qminmax Lqa.
From VRP Require Import Base.Tac Model.SlotQ.
Open Scope Q_scope.

Lemma qn_nonneg n : 0 <= qn n.
Proof. unfold qn. change 0 with (inject_Z 0). rewrite <- Zle_Qle. lia. Qed.

Lemma qn_S n : qn (S n) == qn n + 1.
Proof. unfold qn. rewrite Nat2Z.inj_succ, <- Z.add_1_r, inject_Z_plus. reflexivity. Qed.

Lemma qn_pos n : 0 < qn (S n).
Proof. rewrite qn_S. pose proof (qn_nonneg n). lra. Qed.

Lemma sq_nonneg x : 0 <= sq x.
Proof. unfold sq. nra. Qed.

Lemma qsuml_app l r : qsuml (l ++ [r]) == qsuml l + r.
Proof. induction l as [|x l IH]; cbn [qsuml app]; [lra | rewrite IH; lra]. Qed.

Lemma slot_run_snoc prior rs r : slot_run prior (rs ++ [r]) = slot_update (slot_run prior rs) r.
Proof. unfold slot_run. rewrite fold_left_app. reflexivity. Qed.

(* the state invariant *)
Definition slot_inv (s : slot) (seen : list Q) : Prop :=
  s_n s = length seen /\
  s_alpha s == 1 + qn (s_n s) / 2 /\
  10 <= s_beta s /\
  s_v s == s_beta s / (s_alpha s + 1) /\
  qn (s_n s) * s_mu s == qsuml seen.

Lemma slot_new_inv prior : slot_inv (slot_new prior) [].
Proof.
  unfold slot_inv, slot_new; cbn [s_n s_alpha s_beta s_v s_mu length qsuml qn].
  refine (conj _ (conj _ (conj _ (conj _ _)))); try reflexivity; try lra.
Qed.

Lemma beta_step s r : s_beta s <= s_beta (slot_update s r).
Proof.
  unfold slot_update; cbn [s_beta].
  pose proof (qn_nonneg (s_n s)) as Hn.
  pose proof (sq_nonneg (r - s_mu s)) as Hs.
  assert (Hf : 0 <= 1 * qn (s_n s) / (qn (s_n s) + 1)).
  { apply Qle_shift_div_l; lra. }
  assert (Hp : 0 <= 1 * qn (s_n s) / (qn (s_n s) + 1) * sq (r - s_mu s)) by (apply Qmult_le_0_compat; assumption).
  assert (Hh : 0 <= 1 * qn (s_n s) / (qn (s_n s) + 1) * sq (r - s_mu s) / 2) by (apply Qle_shift_div_l; lra).
  lra.
Qed.

Lemma slot_update_inv s seen r : slot_inv s seen -> slot_inv (slot_update s r) (seen ++ [r]).
Proof.
  intros (Hn & Ha & Hb & Hv & Hm).
  pose proof (beta_step s r) as Hstep.
  unfold slot_inv. unfold slot_update in *; cbn [s_n s_alpha s_beta s_v s_mu] in *.
  refine (conj _ (conj _ (conj _ (conj _ _)))).
  - rewrite app_length, Hn. cbn. lia.
  - rewrite qn_S, Ha. field.
  - lra.
  - reflexivity.
  - rewrite qsuml_app, <- Hm.
    pose proof (qn_pos (s_n s)) as Hp. rewrite qn_S in *.
    field. lra.
Qed.

Lemma slot_run_inv prior rs : slot_inv (slot_run prior rs) rs.
Proof.
  induction rs as [|r rs IH] using rev_ind.
  - apply slot_new_inv.
  - rewrite slot_run_snoc. apply slot_update_inv, IH.
Qed.

Lemma count_ok prior rs : s_n (slot_run prior rs) = length rs.
Proof. apply slot_run_inv. Qed.

Lemma alpha_closed prior rs : s_alpha (slot_run prior rs) == 1 + qn (length rs) / 2.
Proof. destruct (slot_run_inv prior rs) as (Hn & Ha & _). rewrite Ha, Hn. reflexivity. Qed.

Lemma alpha_pos prior rs : 0 < s_alpha (slot_run prior rs).
Proof.
  rewrite alpha_closed. pose proof (qn_nonneg (length rs)).
  assert (0 <= qn (length rs) / 2) by (apply Qle_shift_div_l; lra). lra.
Qed.

Lemma beta_ge_10 prior rs : 10 <= s_beta (slot_run prior rs).
Proof. apply slot_run_inv. Qed.

Lemma beta_monotone prior rs r : s_beta (slot_run prior rs) <= s_beta (slot_run prior (rs ++ [r])).
Proof. rewrite slot_run_snoc. apply beta_step. Qed.

Lemma variance_nonneg prior rs : 0 <= s_v (slot_run prior rs).
Proof.
  destruct (slot_run_inv prior rs) as (_ & _ & Hb & Hv & _).
  rewrite Hv. pose proof (alpha_pos prior rs). apply Qle_shift_div_l; lra.
Qed.

Lemma mean_is_average prior rs : qn (length rs) * s_mu (slot_run prior rs) == qsuml rs.
Proof. destruct (slot_run_inv prior rs) as (Hn & _ & _ & _ & Hm). rewrite <- Hn. exact Hm. Qed.

Lemma qsuml_bounds l lo hi : (forall r, In r l -> lo <= r <= hi) -> qn (length l) * lo <= qsuml l <= qn (length l) * hi.
Proof.
  induction l as [|x l IH]; intros H.
  - cbn [length qsuml]. change (qn 0) with 0. lra.
  - cbn [length qsuml]. rewrite qn_S.
    destruct (H x (or_introl eq_refl)) as [H1 H2].
    destruct IH as [I1 I2]. { intros r Hr. apply H. right. exact Hr. }
    split; lra.
Qed.

Lemma mean_in_hull prior rs lo hi :
  rs <> [] -> (forall r, In r rs -> lo <= r <= hi) -> lo <= s_mu (slot_run prior rs) <= hi.
Proof.
  intros Hne H.
  pose proof (mean_is_average prior rs) as Hm.
  destruct (qsuml_bounds rs lo hi H) as [B1 B2].
  assert (Hp : 0 < qn (length rs)). { destruct rs; [congruence | apply qn_pos]. }
  rewrite <- Hm in B1, B2.
  split; nra.
Qed.

(* sampler arguments *)
Lemma c0001_pos : 0 < c0001.
Proof. reflexivity. Qed.

Lemma sample_args_valid prior rs g : 0 <= g ->
  let q := sample_args (slot_run prior rs) g in
  0 < g_shape q /\ 0 < g_scale q /\ 0 < n_variance q.
Proof.
  intros Hg. cbn zeta. unfold sample_args; cbn [g_shape g_scale n_variance].
  split; [apply alpha_pos|].
  pose proof (beta_ge_10 prior rs) as Hb.
  split.
  - apply Qlt_shift_div_l; lra.
  - assert (Hp : 0 < sample_precision (slot_run prior rs) g).
    { unfold sample_precision.
      destruct (Qeq_bool g 0) eqn:E; cbn [orb]; [apply c0001_pos|].
      destruct (Nat.eqb _ 0); [apply c0001_pos|].
      apply Qeq_bool_neq in E. destruct (Qlt_le_dec 0 g) as [H|H]; [exact H|].
      exfalso. apply E. lra. }
    apply Qlt_shift_div_l; lra.
Qed.

(* the guard is exactly `g == 0 || n == 0` *)
Lemma sample_precision_spec s g :
  sample_precision s g = if Qeq_bool g 0 || Nat.eqb (s_n s) 0 then c0001 else g.
Proof. reflexivity. Qed.
