(* C04 proofs, part 1: removing a whole job from a feasible tour keeps it feasible
   - for the time windows under the triangle inequality on durations (and non-negative service times),
   - for the capacity when the job's own demand never goes negative along the tour (pickup before its delivery). *)
From VRP Require Import Base.Tac Model.Core Spec.Feasible Model.Eval Spec.Inv Model.Context
  Proofs.CoreTimeP Proofs.CoreCapP Proofs.CoreEvalP Proofs.CoreMultiP.

(* the triangle inequality over a set L of locations (the locations of the problem) *)
Definition triangle_on (L : Z -> Prop) (dur : Z -> Z -> Z) : Prop :=
  forall a b c, L a -> L b -> L c -> dur a c <= dur a b + dur b c.
Definition triangle (dur : Z -> Z -> Z) : Prop := triangle_on (fun _ => True) dur.

Definition drop_job (j : Z) (t : list act) : list act := filter (fun a => negb (a_job a =? j)) t.

(* ---------------- time ---------------- *)
Section Time.
Variable L : Z -> Prop.
Variable dur : Z -> Z -> Z.
Hypothesis Htri : triangle_on L dur.

(* the walk over the shortened tour is never behind the walk over the original one *)
Lemma sim_time_drop : forall j t loc dep loc' dep',
  L loc -> Forall (fun a => L (a_loc a)) t ->
  Forall (fun a => a_job a = j -> 0 <= a_svc a) t ->
  (forall m, L m -> dep' + dur loc' m <= dep + dur loc m) ->
  sim_time dur loc dep t = true ->
  sim_time dur loc' dep' (drop_job j t) = true.
Proof.
  intros j t; induction t as [|a r IH]; intros loc dep loc' dep' Hl Hlocs Hsvc Hdom Hs; [reflexivity|].
  cbn [sim_time] in Hs. apply andb_true_iff in Hs as [Ha Hr].
  inversion Hsvc as [|? ? Hsa Hsr]; subst. inversion Hlocs as [|? ? Hla Hlr]; subst.
  cbn [drop_job filter]. destruct (a_job a =? j) eqn:Ej; cbn [negb].
  - (* a is dropped *)
    apply (IH (a_loc a) (Z.max (dep + dur loc (a_loc a)) (a_tws a) + a_svc a)); [exact Hla|exact Hlr|exact Hsr| |exact Hr].
    intros m Hm. specialize (Hdom m Hm). pose proof (Htri loc (a_loc a) m Hl Hla Hm).
    specialize (Hsa (proj1 (Z.eqb_eq _ _) Ej)). lia.
  - (* a is kept *)
    cbn [sim_time]. apply andb_true_iff; split.
    + specialize (Hdom (a_loc a) Hla). lia.
    + apply (IH (a_loc a) (Z.max (dep + dur loc (a_loc a)) (a_tws a) + a_svc a)); [exact Hla|exact Hlr|exact Hsr| |exact Hr].
      intros m Hm. specialize (Hdom (a_loc a) Hla). lia.
Qed.

Lemma time_feasible_drop : forall j s r,
  a_job s <> j ->
  Forall (fun a => L (a_loc a)) (s :: r) ->
  Forall (fun a => a_job a = j -> 0 <= a_svc a) r ->
  time_feasible dur (s :: r) = true ->
  time_feasible dur (drop_job j (s :: r)) = true.
Proof.
  intros j s r Hs Hlocs Hsvc Hf. cbn [drop_job filter]. destruct (a_job s =? j) eqn:E; [apply Z.eqb_eq in E; congruence|].
  inversion Hlocs; subst.
  cbn [negb time_feasible] in *. apply (sim_time_drop j r (a_loc s) (a_dep s)); auto. intros; lia.
Qed.
End Time.

(* ---------------- load ---------------- *)
(* along the tour, what the job has picked up so far is never less than what it has delivered so far (dynamic part),
   and its static amounts are non-negative: `o` is the running balance *)
Fixpoint balanced (j : Z) (o : Z) (t : list act) : Prop :=
  match t with
  | [] => True
  | a :: r => if a_job a =? j
              then 0 <= d_ds (a_dem a) /\ 0 <= o + d_ps (a_dem a) + d_pd (a_dem a) - d_dd (a_dem a)
                   /\ balanced j (o + d_ps (a_dem a) + d_pd (a_dem a) - d_dd (a_dem a)) r
              else balanced j o r
  end.

Definition job_static_delivery (j : Z) (t : list act) : Z :=
  fold_right (fun a acc => (if a_job a =? j then d_ds (a_dem a) else 0) + acc) 0 t.

Lemma job_static_delivery_nonneg : forall j t o, balanced j o t -> 0 <= job_static_delivery j t.
Proof.
  intros j t; induction t as [|a r IH]; intros o Hb; cbn [job_static_delivery fold_right]; [lia|].
  cbn [balanced] in Hb. destruct (a_job a =? j).
  - destruct Hb as (H1 & _ & H3). specialize (IH _ H3). unfold job_static_delivery in IH. lia.
  - specialize (IH _ Hb). unfold job_static_delivery in IH. lia.
Qed.

Lemma tsd_drop : forall j t, total_static_delivery (drop_job j t) = total_static_delivery t - job_static_delivery j t.
Proof.
  intros j t; induction t as [|a r IH]; [reflexivity|].
  cbn [drop_job filter job_static_delivery fold_right total_static_delivery].
  unfold total_static_delivery, job_static_delivery, drop_job in *.
  destruct (a_job a =? j); cbn [negb fold_right]; lia.
Qed.

Lemma sim_load_drop : forall j cap t l o,
  balanced j o t -> 0 <= o ->
  sim_load cap l t = true ->
  sim_load cap (l - job_static_delivery j t - o) (drop_job j t) = true.
Proof.
  intros j cap t; induction t as [|a r IH]; intros l o Hb Ho Hs; [reflexivity|].
  cbn [sim_load] in Hs. apply andb_true_iff in Hs as [Ha Hr].
  cbn [balanced] in Hb. cbn [drop_job filter job_static_delivery fold_right].
  destruct (a_job a =? j) eqn:Ej; cbn [negb].
  - destruct Hb as (H1 & H2 & H3).
    specialize (IH (l + d_change (a_dem a)) _ H3 H2 Hr).
    unfold job_static_delivery, drop_job in *. unfold d_change in *.
    replace (l - (d_ds (a_dem a) + fold_right (fun a0 acc => (if a_job a0 =? j then d_ds (a_dem a0) else 0) + acc) 0 r) - o)
      with (l + (d_ps (a_dem a) + d_pd (a_dem a) - d_ds (a_dem a) - d_dd (a_dem a))
            - fold_right (fun a0 acc => (if a_job a0 =? j then d_ds (a_dem a0) else 0) + acc) 0 r
            - (o + d_ps (a_dem a) + d_pd (a_dem a) - d_dd (a_dem a))) by lia.
    exact IH.
  - cbn [sim_load]. pose proof (job_static_delivery_nonneg j r o Hb) as Hn.
    specialize (IH (l + d_change (a_dem a)) o Hb Ho Hr).
    unfold job_static_delivery, drop_job in *.
    apply andb_true_iff; split; [lia|].
    replace (l - (0 + fold_right (fun a0 acc => (if a_job a0 =? j then d_ds (a_dem a0) else 0) + acc) 0 r) - o + d_change (a_dem a))
      with (l + d_change (a_dem a) - fold_right (fun a0 acc => (if a_job a0 =? j then d_ds (a_dem a0) else 0) + acc) 0 r - o) by lia.
    exact IH.
Qed.

Lemma load_feasible_drop : forall j cap t,
  balanced j 0 t -> load_feasible cap t = true -> load_feasible cap (drop_job j t) = true.
Proof.
  intros j cap t Hb Hf. unfold load_feasible in *. apply andb_true_iff in Hf as [H0 Hs].
  pose proof (job_static_delivery_nonneg j t 0 Hb) as Hn.
  rewrite tsd_drop. apply andb_true_iff; split; [lia|].
  pose proof (sim_load_drop j cap t _ 0 Hb (Z.le_refl 0) Hs) as H. rewrite Z.sub_0_r in H. exact H.
Qed.

(* ---------------- both ---------------- *)
Theorem removal_feasible_on : forall L dur v j s r,
  triangle_on L dur ->
  a_job s <> j ->
  Forall (fun a => L (a_loc a)) (s :: r) ->
  Forall (fun a => a_job a = j -> 0 <= a_svc a) r ->
  balanced j 0 (s :: r) ->
  feasible dur v (s :: r) = true ->
  feasible dur v (drop_job j (s :: r)) = true.
Proof.
  intros L dur v j s r Ht Hs Hl Hsvc Hb Hf. unfold feasible in *. apply andb_true_iff in Hf as [H1 H2].
  apply andb_true_iff; split.
  - apply (time_feasible_drop L); assumption.
  - apply load_feasible_drop; assumption.
Qed.

Theorem removal_feasible_metric : forall dur v j s r,
  triangle dur ->
  a_job s <> j ->
  Forall (fun a => a_job a = j -> 0 <= a_svc a) r ->
  balanced j 0 (s :: r) ->
  feasible dur v (s :: r) = true ->
  feasible dur v (drop_job j (s :: r)) = true.
Proof.
  intros dur v j s r Ht Hs Hsvc Hb Hf. apply (removal_feasible_on (fun _ => True)); try assumption.
  apply Forall_forall. intros; exact I.
Qed.

(* the locations of a problem *)
Definition loc_of (P : pworld) (x : Z) : Prop := 0 <= x < pw_n P.
Definition metric (P : pworld) : Prop := triangle_on (loc_of P) (pdur P).

Lemma balanced_b_iff : forall j t o, balanced_b j o t = true <-> balanced j o t.
Proof.
  intros j t; induction t as [|a r IH]; intros o; cbn [balanced_b balanced]; [tauto|].
  destruct (a_job a =? j); [|apply IH].
  cbv zeta. rewrite !andb_true_iff, IH, !Z.leb_le. tauto.
Qed.

(* ================= part 2: the executable checker decides the invariant ================= *)
Lemma memz_In : forall j l, memz j l = true <-> In j l.
Proof.
  intros j l. unfold memz. rewrite existsb_exists. split.
  - intros (x & Hx & E). apply Z.eqb_eq in E. subst. exact Hx.
  - intros H. exists j. split; [exact H|apply Z.eqb_refl].
Qed.
Lemma memz_false : forall j l, memz j l = false <-> ~ In j l.
Proof. intros j l. pose proof (memz_In j l) as H. destruct (memz j l); split; intros; try congruence; intuition congruence. Qed.
Lemma nodupb_NoDup : forall l, nodupb l = true <-> NoDup l.
Proof.
  induction l as [|x l IH]; cbn [nodupb].
  - split; [intros; constructor|reflexivity].
  - rewrite andb_true_iff, negb_true_iff, memz_false, IH. split.
    + intros [H1 H2]. constructor; assumption.
    + intros H. inversion H; subst. split; assumption.
Qed.
Lemma app_nil_iff : forall A (a b : list A), a ++ b = [] <-> a = [] /\ b = [].
Proof. intros A a b. split; [apply app_eq_nil|intros [-> ->]; reflexivity]. Qed.
Lemma flag_nil : forall b v, flag b v = [] <-> b = true.
Proof. intros [] v; cbn; split; congruence. Qed.
Lemma flat_map_nil : forall A B (f : A -> list B) l, flat_map f l = [] <-> forall x, In x l -> f x = [].
Proof.
  intros A B f l; induction l as [|x l IH]; cbn [flat_map].
  - split; [intros _ x []|reflexivity].
  - rewrite app_nil_iff, IH. split.
    + intros [H1 H2] y [<-|Hy]; [exact H1|apply H2; exact Hy].
    + intros H. split; [apply H; left; reflexivity|intros y Hy; apply H; right; exact Hy].
Qed.
Lemma report_nil : forall A (ok : A -> bool) v l, report ok v l = [] <-> forall x, In x l -> ok x = true.
Proof.
  intros A ok v l. unfold report. rewrite flat_map_nil. split; intros H x Hx; specialize (H x Hx).
  - destruct (ok x); [reflexivity|discriminate].
  - rewrite H. reflexivity.
Qed.

Lemma avail_ok_iff : forall d a, avail_ok d a = true <-> (In a (d_avail d) <-> ~ In a (used d)).
Proof.
  intros d a. unfold avail_ok. rewrite Bool.eqb_true_iff.
  pose proof (memz_In a (d_avail d)) as A. pose proof (memz_In a (used d)) as B.
  destruct (memz a (d_avail d)), (memz a (used d)); cbn; intuition congruence.
Qed.

Lemma route_viol_nil : forall P r, route_viol P r = [] <-> RouteOK0 P r.
Proof.
  intros P r. unfold route_viol, RouteOK0. destruct (find_vs P (r_actor r)) as [vs|] eqn:E.
  - unfold route0_viol. rewrite !app_nil_iff, !flag_nil, report_nil, andb_true_iff. split.
    + intros ((H1 & H1') & H2 & H3 & H4 & H5 & H6). exists vs. split; [reflexivity|]. split; [exact H1|]. split; [exact H1'|].
      split; [unfold feasible; rewrite H2, H3; reflexivity|]. split; [exact H4|]. split; [exact H5|exact H6].
    + intros (vs' & Evs & H1 & H1' & H2 & H3 & H4 & H5). inversion Evs; subst vs'.
      unfold feasible in H2. apply andb_true_iff in H2 as [H2a H2b]. repeat split; assumption.
  - split; [discriminate|intros (vs & Evs & _); discriminate].
Qed.

Theorem inv0_viol_nil : forall P d, inv0_viol P d = [] <-> Inv0 P d.
Proof.
  intros P d. unfold inv0_viol.
  rewrite !app_nil_iff, !report_nil, !flag_nil, flat_map_nil, !andb_true_iff, !nodupb_NoDup, forallb_forall.
  split.
  - intros (H1 & H2 & ((H3a & H3b) & H3c) & (H4a & H4b) & H5 & H6 & H7 & H8). constructor.
    + intros s Hs. apply Nat.eqb_eq. apply H1. exact Hs.
    + exact H2.
    + auto.
    + auto.
    + intros v Hv. apply avail_ok_iff. apply H5. apply in_map. exact Hv.
    + intros r Hr. apply route_viol_nil. apply H6. exact Hr.
    + exact H7.
    + exact H8.
  - intros [H1 H2 (H3a & H3b & H3c) (H4a & H4b) H5 H6 H7 H8].
    split; [intros s Hs; apply Nat.eqb_eq; apply H1; exact Hs|].
    split; [exact H2|]. split; [auto|]. split; [auto|].
    split; [intros a Ha; apply in_map_iff in Ha as (v & <- & Hv); apply avail_ok_iff; apply H5; exact Hv|].
    split; [intros r Hr; apply route_viol_nil; apply H6; exact Hr|]. split; [exact H7|exact H8].
Qed.

Theorem inv_b_nil : forall P d, inv_b P d = [] <-> Inv P d.
Proof.
  intros P d. unfold inv_b, Inv. rewrite app_nil_iff, inv0_viol_nil. unfold empty_viol, NoEmptyRoutes. rewrite report_nil.
  split; intros [H1 H2]; (split; [exact H1|]); intros r Hr; specialize (H2 r Hr); unfold nonempty in *;
    destruct (job_ids r); congruence.
Qed.

Theorem inv0_b_spec : forall P d, inv0_b P d = true <-> Inv0 P d.
Proof. intros P d. unfold inv0_b. rewrite <- inv0_viol_nil. destruct (inv0_viol P d); split; congruence. Qed.

Lemma route_ok_spec : forall P r, route_ok P r = true <-> RouteOK0 P r.
Proof. intros P r. unfold route_ok. rewrite <- route_viol_nil. destruct (route_viol P r); split; congruence. Qed.

(* ================= part 3: the primitives keep the invariant ================= *)
(* ---------------- lists ---------------- *)
Lemma map_fst_filter : forall (p : act -> bool) (l : list ract),
  map fst (filter (fun x => p (fst x)) l) = filter p (map fst l).
Proof. induction l as [|x l IH]; cbn; [reflexivity|]. destruct (p (fst x)); cbn; rewrite IH; reflexivity. Qed.

Lemma map_filter_job : forall j (t : list act),
  map a_job (filter (fun a => negb (a_job a =? j)) t) = removez j (map a_job t).
Proof. induction t as [|a t IH]; cbn; [reflexivity|]. destruct (a_job a =? j); cbn; rewrite IH; reflexivity. Qed.

Lemma filter_comm : forall A (p q : A -> bool) l, filter p (filter q l) = filter q (filter p l).
Proof.
  induction l as [|a l IH]; cbn; [reflexivity|].
  destruct (p a) eqn:Ep, (q a) eqn:Eq; cbn; rewrite ?Ep, ?Eq, IH; reflexivity.
Qed.

Lemma filter_filter_sub : forall A (p q : A -> bool) l,
  (forall x, p x = true -> q x = true) -> filter p (filter q l) = filter p l.
Proof.
  intros A p q l H; induction l as [|a l IH]; cbn; [reflexivity|].
  destruct (q a) eqn:Eq; cbn.
  - destruct (p a); rewrite IH; reflexivity.
  - destruct (p a) eqn:Ep; [rewrite (H a Ep) in Eq; discriminate|exact IH].
Qed.

Lemma filter_rev : forall A (p : A -> bool) l, filter p (rev l) = rev (filter p l).
Proof.
  induction l as [|a l IH]; cbn; [reflexivity|]. rewrite filter_app, IH. cbn.
  destruct (p a); cbn; [reflexivity|rewrite app_nil_r; reflexivity].
Qed.

Lemma forallb_filter : forall A (p q : A -> bool) l, forallb p l = true -> forallb p (filter q l) = true.
Proof.
  intros A p q l H. rewrite forallb_forall in *. intros x Hx. apply filter_In in Hx as [Hx _]. apply H. exact Hx.
Qed.

Lemma In_removez : forall k j l, In k (removez j l) <-> In k l /\ k <> j.
Proof. intros. unfold removez. rewrite filter_In, negb_true_iff, Z.eqb_neq. tauto. Qed.

Lemma b2n_memz_ext : forall k l1 l2, (In k l1 <-> In k l2) -> b2n (memz k l1) = b2n (memz k l2).
Proof.
  intros k l1 l2 H. destruct (memz k l1) eqn:E1, (memz k l2) eqn:E2; try reflexivity; exfalso.
  - apply memz_In in E1. apply H in E1. apply memz_In in E1. congruence.
  - apply memz_In in E2. apply H in E2. apply memz_In in E2. congruence.
Qed.

Lemma b2n_memz_In : forall k l, In k l -> b2n (memz k l) = 1%nat.
Proof. intros k l H. apply memz_In in H. rewrite H. reflexivity. Qed.
Lemma b2n_memz_notin : forall k l, ~ In k l -> b2n (memz k l) = 0%nat.
Proof. intros k l H. apply memz_false in H. rewrite H. reflexivity. Qed.

(* ---------------- one tour ---------------- *)
Lemma tour_of_remove : forall a j acts, tour_of (mkRoute a (remove_job_acts j acts)) = drop_job j (map fst acts).
Proof.
  intros. unfold tour_of, remove_job_acts, drop_job. cbn [r_acts].
  apply (map_fst_filter (fun x => negb (a_job x =? j))).
Qed.

Lemma job_ids_remove : forall a j r, job_ids (mkRoute a (remove_job_acts j (r_acts r))) = removez j (job_ids r).
Proof.
  intros. unfold job_ids. rewrite tour_of_remove. unfold drop_job. fold (tour_of r).
  rewrite map_filter_job. unfold removez. apply filter_comm.
Qed.

Lemma job_ids_nonneg : forall r j, In j (job_ids r) -> 0 <= j.
Proof. intros r j H. unfold job_ids in H. apply filter_In in H as [_ H]. lia. Qed.

Lemma serves_In : forall r j, serves r j = true <-> In j (job_ids r).
Proof. intros. apply memz_In. Qed.

Lemma shape_drop : forall vs j t, 0 <= j -> shape_ok vs t = true -> shape_ok vs (drop_job j t) = true.
Proof.
  intros vs j t Hj H. destruct t as [|s r]; [discriminate|]. cbn [shape_ok] in H.
  apply andb_true_iff in H as [Hs Hr].
  assert (Es : a_job s =? j = false).
  { unfold is_start in Hs. repeat (apply andb_true_iff in Hs as [Hs ?]). apply Z.eqb_eq in Hs. apply Z.eqb_neq. lia. }
  unfold drop_job. cbn [filter]. rewrite Es. cbn [negb shape_ok]. rewrite Hs. cbn [andb].
  destruct (vs_end vs) as [e|].
  - rewrite <- filter_rev. revert Hr. destruct (rev r) as [|l m]; intros Hr; [discriminate|].
    apply andb_true_iff in Hr as [Hl Hm]. cbn [filter].
    assert (El : a_job l =? j = false).
    { unfold is_end in Hl. repeat (apply andb_true_iff in Hl as [Hl ?]). apply Z.eqb_eq in Hl. apply Z.eqb_neq. lia. }
    rewrite El. cbn [negb]. rewrite Hl. cbn [andb]. unfold all_jobs in *. apply forallb_filter. exact Hm.
  - unfold all_jobs in *. apply forallb_filter. exact Hr.
Qed.

Lemma balanced_b_drop : forall k j t o, k <> j -> balanced_b k o (drop_job j t) = balanced_b k o t.
Proof.
  intros k j t; induction t as [|a r IH]; intros o Hk; [reflexivity|].
  unfold drop_job. cbn [filter]. fold (drop_job j r).
  destruct (a_job a =? j) eqn:Ej; cbn [negb balanced_b].
  - apply Z.eqb_eq in Ej. destruct (a_job a =? k) eqn:Ek; [apply Z.eqb_eq in Ek; congruence|]. apply IH. exact Hk.
  - destruct (a_job a =? k); [cbv zeta; rewrite IH by exact Hk; reflexivity|apply IH; exact Hk].
Qed.

Definition alleq (l : list Z) : bool := match l with [] => true | c :: r => forallb (Z.eqb c) r end.
Lemma alleq_spec : forall l, alleq l = true <-> forall x y, In x l -> In y l -> x = y.
Proof.
  intros [|c r]; cbn [alleq].
  - split; [intros _ x y []|reflexivity].
  - rewrite forallb_forall. split.
    + intros H x y Hx Hy.
      assert (E : forall z, In z (c :: r) -> z = c).
      { intros z [<-|Hz]; [reflexivity|]. symmetry. apply Z.eqb_eq. apply H. exact Hz. }
      rewrite (E x Hx), (E y Hy). reflexivity.
    + intros H x Hx. apply Z.eqb_eq. apply H; [left; reflexivity|right; exact Hx].
Qed.
Lemma alleq_incl : forall l l', alleq l = true -> incl l' l -> alleq l' = true.
Proof. intros l l' H Hi. rewrite alleq_spec in *. intros x y Hx Hy. apply H; apply Hi; assumption. Qed.

Lemma compat_ok_alleq : forall P r, compat_ok P r = alleq (compats P r).
Proof. reflexivity. Qed.

Lemma compats_incl : forall P r r', incl (job_ids r') (job_ids r) -> incl (compats P r') (compats P r).
Proof.
  intros P r r' H c Hc. unfold compats in *. apply filter_In in Hc as [Hc Hn]. apply filter_In. split; [|exact Hn].
  apply in_map_iff in Hc as (j & <- & Hj). apply in_map. apply H. exact Hj.
Qed.

Lemma subs_of_remove : forall a j r k, k <> j -> subs_of (mkRoute a (remove_job_acts j (r_acts r))) k = subs_of r k.
Proof.
  intros a j r k Hk. unfold subs_of, remove_job_acts. cbn [r_acts]. f_equal.
  apply filter_filter_sub. intros x Hx. apply Z.eqb_eq in Hx. apply negb_true_iff. apply Z.eqb_neq. lia.
Qed.

(* removing a job keeps a tour acceptable - time windows under the triangle inequality *)
Lemma routeok_remove : forall P r j,
  metric P -> RouteOK0 P r -> In j (job_ids r) ->
  RouteOK0 P (mkRoute (r_actor r) (remove_job_acts j (r_acts r))).
Proof.
  intros P r j Htri (vs & Evs & Hsh & Hlo & Hf & Hm & Hd & Hc) Hj.
  pose proof (job_ids_nonneg r j Hj) as Hj0.
  exists vs. cbn [r_actor]. split; [exact Evs|].
  assert (Ein : forall k, In k (job_ids (mkRoute (r_actor r) (remove_job_acts j (r_acts r)))) -> In k (job_ids r) /\ k <> j).
  { intros k Hk. rewrite job_ids_remove in Hk. apply In_removez. exact Hk. }
  unfold demand_ok in Hd. apply andb_true_iff in Hd as [Hbal Hsvc]. rewrite forallb_forall in Hbal.
  rewrite tour_of_remove. fold (tour_of r).
  split; [apply shape_drop; assumption|].
  split; [unfold locs_ok in *; apply forallb_filter; exact Hlo|].
  split.
  - revert Hsh Hlo Hf Hsvc Hbal. destruct (tour_of r) as [|s rest]; intros Hsh Hlo Hf Hsvc Hbal; [cbn in Hsh; discriminate|].
    apply (removal_feasible_on (loc_of P)); try assumption.
    + cbn [shape_ok] in Hsh. apply andb_true_iff in Hsh as [Hs _]. unfold is_start in Hs.
      repeat (apply andb_true_iff in Hs as [Hs ?]). apply Z.eqb_eq in Hs. lia.
    + unfold locs_ok in Hlo. rewrite forallb_forall in Hlo. apply Forall_forall. intros x Hx. specialize (Hlo x Hx).
      unfold loc_of. lia.
    + cbn [forallb] in Hsvc. apply andb_true_iff in Hsvc as [_ Hsvc]. rewrite forallb_forall in Hsvc.
      apply Forall_forall. intros a Ha _. specialize (Hsvc a Ha). lia.
    + apply balanced_b_iff. apply Hbal. exact Hj.
  - split; [|split].
    + intros k Hk. destruct (Ein k Hk) as [Hk1 Hk2]. unfold multi_ok in *. specialize (Hm k Hk1).
      destruct (find_job P k); [|discriminate]. rewrite subs_of_remove by exact Hk2. exact Hm.
    + unfold demand_ok. rewrite tour_of_remove. fold (tour_of r). apply andb_true_iff. split.
      * apply forallb_forall. intros k Hk. destruct (Ein k Hk) as [Hk1 Hk2].
        rewrite balanced_b_drop by exact Hk2. apply Hbal. exact Hk1.
      * apply forallb_filter. exact Hsvc.
    + rewrite compat_ok_alleq in *. apply (alleq_incl (compats P r)); [exact Hc|].
      apply compats_incl. intros k Hk. apply Ein. exact Hk.
Qed.

(* ---------------- the tours of a solution ---------------- *)
Lemma find_route_In : forall d a r, find_route d a = Some r -> In r (d_routes d) /\ r_actor r = a.
Proof. intros d a r H. unfold find_route in H. apply find_some in H as [H1 H2]. apply Z.eqb_eq in H2. auto. Qed.

Lemma find_route_none : forall d a, find_route d a = None -> ~ In a (used d).
Proof.
  intros d a H Hin. unfold used in Hin. apply in_map_iff in Hin as (x & Ex & Hx).
  unfold find_route in H. apply (find_none _ _ H) in Hx. rewrite Ex, Z.eqb_refl in Hx. discriminate.
Qed.

Lemma replace_used : forall rs r', map r_actor (replace_route rs r') = map r_actor rs.
Proof.
  intros rs r'. unfold replace_route. rewrite map_map. apply map_ext. intros x.
  destruct (r_actor x =? r_actor r') eqn:E; [apply Z.eqb_eq in E; rewrite E|]; reflexivity.
Qed.

Lemma replace_In : forall rs r' x, In x (replace_route rs r') -> x = r' \/ (In x rs /\ r_actor x <> r_actor r').
Proof.
  intros rs r' x H. unfold replace_route in H. apply in_map_iff in H as (y & E & Hy).
  destruct (r_actor y =? r_actor r') eqn:Ea.
  - left. symmetry. exact E.
  - right. subst x. split; [exact Hy|apply Z.eqb_neq; exact Ea].
Qed.

Lemma replace_In_other : forall rs r' x, In x rs -> r_actor x <> r_actor r' -> In x (replace_route rs r').
Proof.
  intros rs r' x H Hn. unfold replace_route. apply in_map_iff. exists x. split; [|exact H].
  apply Z.eqb_neq in Hn. rewrite Hn. reflexivity.
Qed.

Lemma replace_In_new : forall rs r r', In r rs -> r_actor r = r_actor r' -> In r' (replace_route rs r').
Proof.
  intros rs r r' H E. unfold replace_route. apply in_map_iff. exists r. split; [|exact H]. rewrite E, Z.eqb_refl. reflexivity.
Qed.

Lemma actor_unique : forall rs x y, NoDup (map r_actor rs) -> In x rs -> In y rs -> r_actor x = r_actor y -> x = y.
Proof.
  induction rs as [|z rs IH]; intros x y Hnd Hx Hy E; [destruct Hx|].
  cbn in Hnd. inversion Hnd as [|? ? Hni Hnd']; subst.
  destruct Hx as [->|Hx], Hy as [->|Hy]; [reflexivity| | |apply IH; assumption].
  - exfalso. apply Hni. rewrite E. apply in_map. exact Hy.
  - exfalso. apply Hni. rewrite <- E. apply in_map. exact Hx.
Qed.

Lemma replace_id : forall rs r', ~ In (r_actor r') (map r_actor rs) -> replace_route rs r' = rs.
Proof.
  intros rs r' H. unfold replace_route. rewrite <- (map_id rs) at 2. apply map_ext_in. intros x Hx.
  destruct (r_actor x =? r_actor r') eqn:E; [|reflexivity].
  apply Z.eqb_eq in E. exfalso. apply H. rewrite <- E. apply in_map. exact Hx.
Qed.

Lemma replace_count : forall (q : rdump -> bool) rs r r',
  NoDup (map r_actor rs) -> In r rs -> r_actor r' = r_actor r ->
  (length (filter q (replace_route rs r')) + b2n (q r) = length (filter q rs) + b2n (q r'))%nat.
Proof.
  intros q rs r r'; induction rs as [|x rs IH]; intros Hnd Hin Ha; [destruct Hin|].
  cbn [map] in Hnd. inversion Hnd as [|? ? Hni Hnd']; subst.
  unfold replace_route. cbn [map filter]. fold (replace_route rs r').
  destruct Hin as [->|Hin].
  - rewrite Ha, Z.eqb_refl. rewrite replace_id by (rewrite Ha; exact Hni).
    destruct (q r), (q r'); cbn; lia.
  - destruct (r_actor x =? r_actor r') eqn:E.
    + apply Z.eqb_eq in E. exfalso. apply Hni. rewrite E, Ha. apply in_map. exact Hin.
    + specialize (IH Hnd' Hin Ha). destruct (q x); cbn [length]; lia.
Qed.

Lemma filter_all_false : forall A (q : A -> bool) l, (forall x, In x l -> q x = false) -> filter q l = [].
Proof.
  intros A q l; induction l as [|a l IH]; cbn; intros H; [reflexivity|].
  rewrite (H a (or_introl eq_refl)). apply IH. intros x Hx. apply H. right. exact Hx.
Qed.

Lemma count_single : forall (q : rdump -> bool) rs r,
  NoDup (map r_actor rs) -> In r rs -> (forall x, In x rs -> r_actor x <> r_actor r -> q x = false) ->
  length (filter q rs) = b2n (q r).
Proof.
  intros q rs r; induction rs as [|x rs IH]; intros Hnd Hin Hq; [destruct Hin|].
  cbn [map] in Hnd. inversion Hnd as [|? ? Hni Hnd']; subst. cbn [filter].
  destruct Hin as [->|Hin].
  - assert (E : filter q rs = []).
    { apply filter_all_false. intros y Hy. apply Hq; [right; exact Hy|].
      intros E. apply Hni. rewrite <- E. apply in_map. exact Hy. }
    rewrite E. destruct (q r); reflexivity.
  - assert (Ex : q x = false).
    { apply Hq; [left; reflexivity|]. intros E. apply Hni. rewrite E. apply in_map. exact Hin. }
    rewrite Ex. apply IH; [exact Hnd'|exact Hin|]. intros z Hz Hne. apply Hq; [right; exact Hz|exact Hne].
Qed.

Lemma mentioned_iff : forall d j, In j (mentioned d) <->
  (exists x, In x (d_routes d) /\ In j (job_ids x)) \/ In j (d_required d) \/ In j (d_ignored d)
  \/ In j (d_unassigned d) \/ In j (d_locked d).
Proof. intros. unfold mentioned. rewrite !in_app_iff, in_flat_map. tauto. Qed.

Lemma NoDup_snoc : forall (l : list Z) x, NoDup l -> ~ In x l -> NoDup (l ++ [x]).
Proof.
  induction l as [|a l IH]; intros x Hnd Hx; cbn.
  - constructor; [intros []|constructor].
  - inversion Hnd; subst. constructor.
    + rewrite in_app_iff. cbn. intros [H|[H|[]]]; [contradiction|]. apply Hx. left. symmetry. exact H.
    + apply IH; [assumption|]. intros H. apply Hx. right. exact H.
Qed.

Lemma filter_length_pos : forall A (q : A -> bool) l x, In x l -> q x = true -> (1 <= length (filter q l))%nat.
Proof.
  intros A q l; induction l as [|a l IH]; intros x Hx Hq; [destruct Hx|]. cbn [filter].
  destruct Hx as [->|Hx]; [rewrite Hq; cbn; lia|].
  destruct (q a); cbn [length]; [lia|]. apply (IH x); assumption.
Qed.

Lemma known_job : forall P j, known P j = true -> exists s, In s (pw_jobs P) /\ j_id s = j.
Proof.
  intros P j H. unfold known in H. destruct (find_job P j) as [s|] eqn:Es; [|discriminate].
  unfold find_job in Es. apply find_some in Es as [Hs Eid]. apply Z.eqb_eq in Eid. exists s. auto.
Qed.

(* a job served by a tour is known and in no pending list *)
Lemma served_facts : forall P d r j, Inv0 P d -> In r (d_routes d) -> In j (job_ids r) ->
  known P j = true /\ ~ In j (d_required d) /\ ~ In j (d_unassigned d) /\ ~ In j (d_ignored d).
Proof.
  intros P d r j H Hr Hj.
  assert (Hk : known P j = true). { apply (inv_known P d H). apply mentioned_iff. left. exists r. auto. }
  split; [exact Hk|]. destruct (known_job P j Hk) as (s & Hs & Eid).
  pose proof (inv_homes P d H s Hs) as Hh. rewrite Eid in Hh. unfold homes in Hh.
  pose proof (filter_length_pos _ (fun r => serves r j) (d_routes d) r Hr (proj2 (serves_In r j) Hj)) as Hp.
  repeat split; intros Hc; apply memz_In in Hc; rewrite Hc in Hh; cbn [b2n] in Hh; lia.
Qed.

(* a pending job is known, in exactly one of required / unassigned, and served by no tour *)
Lemma pending_facts : forall P d j, Inv0 P d -> In j (d_required d) \/ In j (d_unassigned d) ->
  known P j = true /\ (b2n (memz j (d_unassigned d)) + b2n (memz j (d_required d)) = 1)%nat /\
  forall r, In r (d_routes d) -> ~ In j (job_ids r).
Proof.
  intros P d j H Hp.
  assert (Hk : known P j = true). { apply (inv_known P d H). apply mentioned_iff. tauto. }
  split; [exact Hk|]. destruct (known_job P j Hk) as (s & Hs & Eid).
  pose proof (inv_homes P d H s Hs) as Hh. rewrite Eid in Hh. unfold homes in Hh.
  assert (Hge : (1 <= b2n (memz j (d_unassigned d)) + b2n (memz j (d_required d)))%nat).
  { destruct Hp as [Hp|Hp]; apply memz_In in Hp; rewrite Hp; cbn [b2n]; lia. }
  split; [lia|]. intros r Hr Hj.
  pose proof (filter_length_pos _ (fun r => serves r j) (d_routes d) r Hr (proj2 (serves_In r j) Hj)) as Hpos. lia.
Qed.

(* the tour of actor a is replaced by r'; job j0 is the only job whose home may change *)
Lemma Inv0_replace : forall P d a r r' j0 req' una',
  Inv0 P d ->
  find_route d a = Some r -> r_actor r' = a -> RouteOK0 P r' ->
  (forall k, k <> j0 -> (In k (job_ids r') <-> In k (job_ids r))) ->
  (forall k, k <> j0 -> (In k req' <-> In k (d_required d))) ->
  (forall k, k <> j0 -> (In k una' <-> In k (d_unassigned d))) ->
  NoDup req' -> NoDup una' ->
  (b2n (serves r' j0) + b2n (memz j0 una') + b2n (memz j0 req') =
   b2n (serves r j0) + b2n (memz j0 (d_unassigned d)) + b2n (memz j0 (d_required d)))%nat ->
  (In j0 (job_ids r') \/ In j0 req' \/ In j0 una' -> known P j0 = true) ->
  (forall l, In l (pw_locks P) ->
     filter (fun j => memz j (l_jobs l)) (job_ids r') = filter (fun j => memz j (l_jobs l)) (job_ids r)) ->
  (forall g, In g (groups_of P) -> has_group P g r' = true ->
     has_group P g r = true \/ forall x, In x (d_routes d) -> r_actor x <> a -> has_group P g x = false) ->
  Inv0 P (mkDump (replace_route (d_routes d) r') req' (d_ignored d) una' (d_locked d) (d_avail d)).
Proof.
  intros P d a r r' j0 req' una' H Ef Ea Hok Hjobs Hreq Huna Hndr Hndu Hacc Hkn Hlk Hgr.
  destruct (find_route_In _ _ _ Ef) as [Hin Era].
  pose proof (proj1 (inv_actors P d H)) as Hnd. unfold used in Hnd.
  assert (Eact : r_actor r' = r_actor r) by congruence.
  constructor; cbn [d_routes d_required d_ignored d_unassigned d_locked d_avail].
  - (* homes *)
    intros s Hs. pose proof (inv_homes P d H s Hs) as Hh. unfold homes in *.
    cbn [d_routes d_required d_ignored d_unassigned].
    pose proof (replace_count (fun x => serves x (j_id s)) (d_routes d) r r' Hnd Hin Eact) as C. cbn beta in C.
    destruct (Z.eq_dec (j_id s) j0) as [E|E].
    + rewrite E in *. lia.
    + assert (E1 : b2n (serves r' (j_id s)) = b2n (serves r (j_id s))).
      { unfold serves. apply b2n_memz_ext. apply Hjobs. exact E. }
      rewrite (b2n_memz_ext (j_id s) una' (d_unassigned d) (Huna _ E)).
      rewrite (b2n_memz_ext (j_id s) req' (d_required d) (Hreq _ E)). lia.
  - (* known *)
    intros j Hj. apply mentioned_iff in Hj. cbn [d_routes d_required d_ignored d_unassigned d_locked] in Hj.
    destruct (Z.eq_dec j j0) as [->|E].
    + destruct Hj as [(x & Hx & Hjx)|[Hj|[Hj|[Hj|Hj]]]].
      * apply replace_In in Hx as [->|[Hx _]]; [apply Hkn; tauto|].
        apply (inv_known P d H). apply mentioned_iff. left. exists x. auto.
      * apply Hkn. tauto.
      * apply (inv_known P d H). apply mentioned_iff. tauto.
      * apply Hkn. tauto.
      * apply (inv_known P d H). apply mentioned_iff. tauto.
    + apply (inv_known P d H). apply mentioned_iff.
      destruct Hj as [(x & Hx & Hjx)|[Hj|[Hj|[Hj|Hj]]]].
      * left. apply replace_In in Hx as [->|[Hx _]]; [exists r; split; [exact Hin|apply Hjobs; assumption]|exists x; auto].
      * right; left. apply Hreq; assumption.
      * tauto.
      * right; right; right; left. apply Huna; assumption.
      * tauto.
  - destruct (inv_pending P d H) as (_ & Hi & _). auto.
  - unfold used. cbn [d_routes]. rewrite replace_used. exact (inv_actors P d H).
  - unfold used. cbn [d_routes]. rewrite replace_used. exact (inv_registry P d H).
  - intros x Hx. apply replace_In in Hx as [->|[Hx _]]; [exact Hok|apply (inv_routes P d H); exact Hx].
  - (* groups *)
    intros g Hg. pose proof (inv_groups P d H g Hg) as Hgo. unfold group_ok in *. cbn [d_routes].
    apply Nat.leb_le in Hgo. apply Nat.leb_le.
    pose proof (replace_count (has_group P g) (d_routes d) r r' Hnd Hin Eact) as C.
    destruct (has_group P g r') eqn:Eg'; cbn [b2n] in C; [|lia].
    destruct (Hgr g Hg Eg') as [Eg|Hoth].
    + rewrite Eg in C. cbn [b2n] in C. lia.
    + rewrite (count_single (has_group P g) (d_routes d) r Hnd Hin) in C.
      * destruct (has_group P g r); cbn [b2n] in C; lia.
      * intros x Hx Hne. apply Hoth; [exact Hx|congruence].
  - (* locks *)
    intros l Hl. pose proof (inv_locks P d H l Hl) as Hlo. unfold lock_ok in *. cbn [d_routes d_locked].
    apply andb_true_iff in Hlo as [Hl1 Hl2]. apply andb_true_iff. split; [exact Hl1|].
    apply existsb_exists in Hl2 as (x & Hx & Hxx). apply existsb_exists.
    destruct (Z.eq_dec (r_actor x) a) as [Exa|Exa].
    + assert (x = r) as -> by (apply (actor_unique (d_routes d)); [exact Hnd|exact Hx|exact Hin|congruence]).
      exists r'. split; [apply (replace_In_new _ r); [exact Hin|congruence]|].
      rewrite (Hlk l Hl). rewrite Ea, <- Era. exact Hxx.
    + exists x. split; [apply replace_In_other; [exact Hx|congruence]|exact Hxx].
Qed.

(* ---------------- PRemove ---------------- *)
Lemma lock_jobs_locked : forall P d l j, Inv0 P d -> In l (pw_locks P) -> In j (l_jobs l) -> In j (d_locked d).
Proof.
  intros P d l j H Hl Hj. pose proof (inv_locks P d H l Hl) as Hlo. unfold lock_ok in Hlo.
  apply andb_true_iff in Hlo as [Hl1 _]. rewrite forallb_forall in Hl1. apply memz_In. apply Hl1. exact Hj.
Qed.

Lemma has_group_incl : forall P g r r', incl (job_ids r') (job_ids r) -> has_group P g r' = true -> has_group P g r = true.
Proof.
  intros P g r r' Hi H. unfold has_group in *. apply existsb_exists in H as (j & Hj & E). apply existsb_exists.
  exists j. split; [apply Hi; exact Hj|exact E].
Qed.

Lemma inv0_remove : forall P d a j tu d',
  metric P -> Inv0 P d -> step P (PRemove a j tu) d = Some d' -> Inv0 P d'.
Proof.
  intros P d a j tu d' Htri H Hs. cbn [step] in Hs.
  destruct (find_route d a) as [r|] eqn:Ef; [|discriminate].
  destruct (serves r j && negb (memz j (d_locked d))) eqn:Eg; [|discriminate].
  inversion Hs; subst d'; clear Hs.
  apply andb_true_iff in Eg as [Es El]. apply serves_In in Es. apply negb_true_iff in El. apply memz_false in El.
  destruct (find_route_In _ _ _ Ef) as [Hin Era].
  destruct (served_facts P d r j H Hin Es) as (Hk & Hnr & Hnu & Hni).
  destruct (inv_pending P d H) as (Hndr & _ & Hndu).
  set (r' := mkRoute a (remove_job_acts j (r_acts r))).
  assert (Hids : job_ids r' = removez j (job_ids r)) by apply job_ids_remove.
  assert (Hok : RouteOK0 P r').
  { unfold r'. rewrite <- Era. apply routeok_remove; [exact Htri|apply (inv_routes P d H); exact Hin|exact Es]. }
  assert (Hs' : serves r' j = false).
  { apply memz_false. rewrite Hids. intros Hc. apply In_removez in Hc. tauto. }
  assert (Hs0 : serves r j = true) by (apply serves_In; exact Es).
  apply (Inv0_replace P d a r r' j); try assumption; try reflexivity.
  - intros k Hkj. rewrite Hids, In_removez. tauto.
  - intros k Hkj. destruct tu; [tauto|]. rewrite in_app_iff. cbn. intuition congruence.
  - intros k Hkj. destruct tu; [|tauto]. rewrite in_app_iff. cbn. intuition congruence.
  - destruct tu; [exact Hndr|apply NoDup_snoc; assumption].
  - destruct tu; [apply NoDup_snoc; assumption|exact Hndu].
  - rewrite Hs', Hs0. rewrite (b2n_memz_notin j _ Hnu), (b2n_memz_notin j _ Hnr).
    destruct tu.
    + rewrite (b2n_memz_In j (d_unassigned d ++ [j])) by (apply in_app_iff; right; left; reflexivity).
      rewrite (b2n_memz_notin j _ Hnr). reflexivity.
    + rewrite (b2n_memz_In j (d_required d ++ [j])) by (apply in_app_iff; right; left; reflexivity).
      rewrite (b2n_memz_notin j _ Hnu). reflexivity.
  - intros _. exact Hk.
  - intros l Hl. rewrite Hids. unfold removez. apply filter_filter_sub. intros x Hx.
    apply memz_In in Hx. apply negb_true_iff. apply Z.eqb_neq. intros ->.
    apply El. apply (lock_jobs_locked P d l); assumption.
  - intros g Hg Hg'. left. apply (has_group_incl P g r r'); [|exact Hg'].
    intros k Hkk. rewrite Hids in Hkk. apply In_removez in Hkk. tauto.
Qed.

(* ---------------- pending lists only: PFail, PFinalize ---------------- *)
Lemma Inv0_pending : forall P d req' una',
  Inv0 P d -> NoDup req' -> NoDup una' ->
  (forall s, In s (pw_jobs P) ->
     (b2n (memz (j_id s) una') + b2n (memz (j_id s) req') =
      b2n (memz (j_id s) (d_unassigned d)) + b2n (memz (j_id s) (d_required d)))%nat) ->
  (forall k, In k req' \/ In k una' -> In k (d_required d) \/ In k (d_unassigned d)) ->
  Inv0 P (mkDump (d_routes d) req' (d_ignored d) una' (d_locked d) (d_avail d)).
Proof.
  intros P d req' una' H Hr Hu Hsum Hsub.
  constructor; cbn [d_routes d_required d_ignored d_unassigned d_locked d_avail].
  - intros s Hs. pose proof (inv_homes P d H s Hs) as Hh. unfold homes in *.
    cbn [d_routes d_required d_ignored d_unassigned]. specialize (Hsum s Hs). lia.
  - intros j Hj. apply (inv_known P d H). apply mentioned_iff. apply mentioned_iff in Hj.
    cbn [d_routes d_required d_ignored d_unassigned d_locked] in Hj.
    destruct Hj as [Hj|[Hj|[Hj|[Hj|Hj]]]]; try tauto.
    + destruct (Hsub j (or_introl Hj)); tauto.
    + destruct (Hsub j (or_intror Hj)); tauto.
  - destruct (inv_pending P d H) as (_ & Hi & _). auto.
  - exact (inv_actors P d H).
  - exact (inv_registry P d H).
  - exact (inv_routes P d H).
  - exact (inv_groups P d H).
  - exact (inv_locks P d H).
Qed.

Lemma NoDup_filter' : forall (p : Z -> bool) l, NoDup l -> NoDup (filter p l).
Proof.
  intros p l H; induction H as [|x l Hx Hnd IH]; cbn; [constructor|].
  destruct (p x); [constructor; [|exact IH]|exact IH]. intros Hc. apply filter_In in Hc. tauto.
Qed.

Lemma NoDup_app' : forall (l1 l2 : list Z), NoDup l1 -> NoDup l2 -> (forall x, In x l1 -> ~ In x l2) -> NoDup (l1 ++ l2).
Proof.
  induction l1 as [|a l1 IH]; intros l2 H1 H2 Hd; cbn; [exact H2|].
  inversion H1; subst. constructor.
  - rewrite in_app_iff. intros [Hc|Hc]; [contradiction|]. apply (Hd a); [left; reflexivity|exact Hc].
  - apply IH; [assumption|assumption|]. intros x Hx. apply Hd. right. exact Hx.
Qed.

Lemma homes_exclusive : forall P d s, Inv0 P d -> In s (pw_jobs P) ->
  (b2n (memz (j_id s) (d_unassigned d)) + b2n (memz (j_id s) (d_required d)) <= 1)%nat.
Proof. intros P d s H Hs. pose proof (inv_homes P d H s Hs) as Hh. unfold homes in Hh. lia. Qed.

Lemma inv0_fail : forall P d j d', Inv0 P d -> step P (PFail j) d = Some d' -> Inv0 P d'.
Proof.
  intros P d j d' H Hs. cbn [step] in Hs.
  destruct (memz j (d_required d) && negb (memz j (d_unassigned d))) eqn:Eg; [|discriminate].
  inversion Hs; subst d'; clear Hs. apply andb_true_iff in Eg as [Er Eu].
  apply memz_In in Er. apply negb_true_iff in Eu. apply memz_false in Eu.
  destruct (inv_pending P d H) as (Hndr & _ & Hndu).
  apply Inv0_pending; [exact H|apply NoDup_filter'; exact Hndr|apply NoDup_snoc; assumption| |].
  - intros s Hs. destruct (Z.eq_dec (j_id s) j) as [E|E].
    + rewrite E. rewrite (b2n_memz_In j (d_unassigned d ++ [j])) by (apply in_app_iff; right; left; reflexivity).
      rewrite (b2n_memz_notin j (removez j (d_required d))) by (intros Hc; apply In_removez in Hc; tauto).
      rewrite (b2n_memz_notin j _ Eu), (b2n_memz_In j _ Er). reflexivity.
    + rewrite (b2n_memz_ext (j_id s) (d_unassigned d ++ [j]) (d_unassigned d))
        by (rewrite in_app_iff; cbn; intuition congruence).
      rewrite (b2n_memz_ext (j_id s) (removez j (d_required d)) (d_required d))
        by (rewrite In_removez; tauto).
      reflexivity.
  - intros k [Hk|Hk]; [apply In_removez in Hk; tauto|]. apply in_app_iff in Hk as [Hk|[<-|[]]]; tauto.
Qed.

Lemma inv0_finalize : forall P d d', Inv0 P d -> step P PFinalize d = Some d' -> Inv0 P d'.
Proof.
  intros P d d' H Hs. cbn [step] in Hs. inversion Hs; subst d'; clear Hs.
  destruct (inv_pending P d H) as (Hndr & _ & Hndu).
  apply Inv0_pending; [exact H|constructor| | |].
  - apply NoDup_app'; [exact Hndu|apply NoDup_filter'; exact Hndr|].
    intros x Hx Hc. apply filter_In in Hc as [_ Hc]. apply negb_true_iff in Hc. apply memz_false in Hc. contradiction.
  - intros s Hs. pose proof (homes_exclusive P d s H Hs) as Hex. change (b2n (memz (j_id s) [])) with 0%nat.
    destruct (memz (j_id s) (d_unassigned d)) eqn:Eu.
    + rewrite (b2n_memz_In (j_id s) (d_unassigned d ++ _)) by (apply in_app_iff; left; apply memz_In; exact Eu).
      cbn [b2n] in *. lia.
    + destruct (memz (j_id s) (d_required d)) eqn:Er.
      * rewrite (b2n_memz_In (j_id s) (d_unassigned d ++ _)); [reflexivity|].
        apply in_app_iff. right. apply filter_In. split; [apply memz_In; exact Er|rewrite Eu; reflexivity].
      * rewrite (b2n_memz_notin (j_id s) (d_unassigned d ++ _)); [reflexivity|].
        rewrite in_app_iff. intros [Hc|Hc]; [apply memz_In in Hc; congruence|].
        apply filter_In in Hc as [Hc _]. apply memz_In in Hc. congruence.
  - intros k [[]|Hk]. apply in_app_iff in Hk as [Hk|Hk]; [tauto|]. apply filter_In in Hk. tauto.
Qed.

(* ---------------- PDeparture ---------------- *)
Lemma job_ids_departure : forall a acts dep, job_ids (mkRoute a (set_departure acts dep)) = job_ids (mkRoute a acts).
Proof. intros a [|[s k] rest] dep; reflexivity. Qed.

Lemma inv0_departure : forall P d a dep d', Inv0 P d -> step P (PDeparture a dep) d = Some d' -> Inv0 P d'.
Proof.
  intros P d a dep d' H Hs. cbn [step] in Hs.
  destruct (find_route d a) as [r|] eqn:Ef; [|discriminate].
  destruct (route_ok P (mkRoute a (set_departure (r_acts r) dep))) eqn:Eok; [|discriminate].
  inversion Hs; subst d'; clear Hs. apply route_ok_spec in Eok.
  destruct (inv_pending P d H) as (Hndr & _ & Hndu).
  assert (Hids : job_ids (mkRoute a (set_departure (r_acts r) dep)) = job_ids r).
  { rewrite job_ids_departure. reflexivity. }
  apply (Inv0_replace P d a r _ 0); try assumption; try reflexivity; try tauto.
  - intros k _. rewrite Hids. tauto.
  - unfold serves. rewrite Hids. reflexivity.
  - intros Hc. apply (inv_known P d H). apply mentioned_iff. rewrite Hids in Hc.
    destruct (find_route_In _ _ _ Ef) as [Hin _]. destruct Hc as [Hc|[Hc|Hc]]; [left; exists r; auto|tauto|tauto].
  - intros l _. rewrite Hids. reflexivity.
  - intros g _ Hg. left. unfold has_group in *. rewrite Hids in Hg. exact Hg.
Qed.

(* ---------------- PDropEmpty ---------------- *)
Definition locks_nonempty (P : pworld) : Prop := forall l, In l (pw_locks P) -> l_jobs l <> [].

Lemma serves_nonempty : forall r k, serves r k = true -> nonempty r = true.
Proof. intros r k H. apply serves_In in H. unfold nonempty. destruct (job_ids r); [destruct H|reflexivity]. Qed.
Lemma has_group_nonempty : forall P g r, has_group P g r = true -> nonempty r = true.
Proof.
  intros P g r H. unfold has_group in H. apply existsb_exists in H as (j & Hj & _).
  unfold nonempty. destruct (job_ids r); [destruct Hj|reflexivity].
Qed.

Lemma NoDup_map_filter : forall (p : rdump -> bool) rs, NoDup (map r_actor rs) -> NoDup (map r_actor (filter p rs)).
Proof.
  intros p rs; induction rs as [|x rs IH]; cbn; intros H; [constructor|]. inversion H as [|? ? Hni Hnd]; subst.
  destruct (p x); cbn; [constructor; [|apply IH; exact Hnd]|apply IH; exact Hnd].
  intros Hc. apply Hni. apply in_map_iff in Hc as (y & Ey & Hy). apply filter_In in Hy as [Hy _].
  rewrite <- Ey. apply in_map. exact Hy.
Qed.

Lemma inv0_dropempty : forall P d d', locks_nonempty P -> Inv0 P d -> step P PDropEmpty d = Some d' -> Inv0 P d'.
Proof.
  intros P d d' Hlne H Hs. cbn [step] in Hs. inversion Hs; subst d'; clear Hs.
  pose proof (proj1 (inv_actors P d H)) as Hnd. unfold used in Hnd.
  constructor; cbn [d_routes d_required d_ignored d_unassigned d_locked d_avail].
  - intros s Hs. pose proof (inv_homes P d H s Hs) as Hh. unfold homes in *.
    cbn [d_routes d_required d_ignored d_unassigned].
    rewrite (filter_filter_sub _ (fun r => serves r (j_id s)) nonempty); [exact Hh|].
    intros x Hx. apply (serves_nonempty x (j_id s)). exact Hx.
  - intros j Hj. apply (inv_known P d H). apply mentioned_iff. apply mentioned_iff in Hj.
    cbn [d_routes d_required d_ignored d_unassigned d_locked] in Hj.
    destruct Hj as [(x & Hx & Hjx)|Hj]; [|tauto]. left. exists x. apply filter_In in Hx. tauto.
  - exact (inv_pending P d H).
  - unfold used. cbn [d_routes d_avail]. split; [apply NoDup_map_filter; exact Hnd|].
    intros a Ha. apply (proj2 (inv_actors P d H)). rewrite !in_app_iff in *. unfold used.
    destruct Ha as [Ha|[Ha|Ha]]; [left|left|right; exact Ha];
      apply in_map_iff in Ha as (x & <- & Hx); apply filter_In in Hx as [Hx _]; apply in_map; exact Hx.
  - intros v Hv. pose proof (inv_registry P d H v Hv) as Hr. unfold used in *. cbn [d_routes d_avail].
    rewrite in_app_iff. split.
    + intros [Hd|Ha] Hc.
      * apply in_map_iff in Hd as (x & Ex & Hx). apply in_map_iff in Hc as (y & Ey & Hy).
        apply filter_In in Hx as [Hx Hxe]. apply filter_In in Hy as [Hy Hye].
        assert (x = y) by (apply (actor_unique (d_routes d)); [exact Hnd|exact Hx|exact Hy|congruence]).
        subst y. rewrite Hye in Hxe. discriminate.
      * apply Hr in Ha. apply Ha. apply in_map_iff in Hc as (y & Ey & Hy). apply filter_In in Hy as [Hy _].
        rewrite <- Ey. apply in_map. exact Hy.
    + intros Hn. destruct (in_dec Z.eq_dec (vs_id v) (map r_actor (d_routes d))) as [Hi|Hi].
      * left. apply in_map_iff in Hi as (x & Ex & Hx). apply in_map_iff. exists x. split; [exact Ex|].
        apply filter_In. split; [exact Hx|]. destruct (nonempty x) eqn:En; [|reflexivity].
        exfalso. apply Hn. apply in_map_iff. exists x. split; [exact Ex|apply filter_In; auto].
      * right. apply Hr. exact Hi.
  - intros x Hx. apply filter_In in Hx as [Hx _]. apply (inv_routes P d H). exact Hx.
  - intros g Hg. pose proof (inv_groups P d H g Hg) as Hgo. unfold group_ok in *. cbn [d_routes].
    rewrite (filter_filter_sub _ (has_group P g) nonempty); [exact Hgo|]. apply has_group_nonempty.
  - intros l Hl. pose proof (inv_locks P d H l Hl) as Hlo. unfold lock_ok in *. cbn [d_routes d_locked].
    apply andb_true_iff in Hlo as [Hl1 Hl2]. apply andb_true_iff. split; [exact Hl1|].
    apply existsb_exists in Hl2 as (x & Hx & Hxx). apply existsb_exists. exists x. split; [|exact Hxx].
    apply filter_In. split; [exact Hx|]. apply andb_true_iff in Hxx as [_ Hxx]. unfold list_eqb in Hxx.
    destruct (list_eq_dec Z.eq_dec _ _) as [E|E]; [|discriminate].
    unfold nonempty. destruct (job_ids x) eqn:Ej; [|reflexivity]. cbn in E. exfalso. apply (Hlne l Hl). symmetry. exact E.
Qed.

(* ---------------- PInsert ---------------- *)
Lemma In_insert_steps : forall steps acts x, In x (insert_steps acts steps) <-> In x acts \/ In x (map snd steps).
Proof.
  induction steps as [|[idx a] steps IH]; intros acts x; cbn [insert_steps map]; [cbn; tauto|].
  rewrite IH, in_app_iff. cbn [In snd].
  pose proof (firstn_skipn (S idx) acts) as E. rewrite <- E at 3. rewrite in_app_iff. tauto.
Qed.

Lemma In_job_ids : forall r k, In k (job_ids r) <-> 0 <= k /\ exists x, In x (r_acts r) /\ a_job (fst x) = k.
Proof.
  intros r k. unfold job_ids, tour_of. rewrite filter_In, map_map, in_map_iff. split.
  - intros [(x & E & Hx) Hk]. split; [lia|exists x; auto].
  - intros [Hk (x & Hx & E)]. split; [exists x; auto|lia].
Qed.

(* inserting activities whose job fails p does not change the p-part of the job sequence *)
Lemma filter_jobs_insert : forall (p : Z -> bool) a steps acts,
  (forall s, In s steps -> p (a_job (fst (snd s))) = false) ->
  filter p (job_ids (mkRoute a (insert_steps acts steps))) = filter p (job_ids (mkRoute a acts)).
Proof.
  intros p a steps; induction steps as [|[idx x] steps IH]; intros acts Hp; cbn [insert_steps]; [reflexivity|].
  rewrite IH by (intros s Hs; apply Hp; right; exact Hs).
  unfold job_ids, tour_of. cbn [r_acts].
  rewrite <- (firstn_skipn (S idx) acts) at 3.
  rewrite !map_app, !filter_app. cbn [map filter]. f_equal.
  specialize (Hp (idx, x) (or_introl eq_refl)). cbn [snd] in Hp.
  destruct (0 <=? a_job (fst x)); cbn [filter]; [rewrite Hp|]; reflexivity.
Qed.

Lemma lock_jobs_served : forall P d l j, Inv0 P d -> In l (pw_locks P) -> In j (l_jobs l) ->
  exists r, In r (d_routes d) /\ In j (job_ids r).
Proof.
  intros P d l j H Hl Hj. pose proof (inv_locks P d H l Hl) as Hlo. unfold lock_ok in Hlo.
  apply andb_true_iff in Hlo as [_ Hl2]. apply existsb_exists in Hl2 as (x & Hx & Hxx).
  apply andb_true_iff in Hxx as [_ Hxx]. unfold list_eqb in Hxx.
  destruct (list_eq_dec Z.eq_dec _ _) as [E|E]; [|discriminate].
  exists x. split; [exact Hx|]. rewrite <- E in Hj. apply filter_In in Hj. tauto.
Qed.

Lemma groups_of_nonzero : forall P g, In g (groups_of P) -> g <> 0.
Proof. intros P g H. unfold groups_of in H. apply filter_In in H as [_ H]. apply negb_true_iff in H. apply Z.eqb_neq. exact H. Qed.

Lemma inv0_insert : forall P d a j steps d', Inv0 P d -> step P (PInsert a j steps) d = Some d' -> Inv0 P d'.
Proof.
  intros P d a j steps d' H Hs. cbn [step] in Hs.
  destruct ((memz j (d_required d) || memz j (d_unassigned d)) && forallb (fun s => a_job (fst (snd s)) =? j) steps
            && group_free P d a j) eqn:Eg; [|discriminate].
  apply andb_true_iff in Eg as [Eg Egf]. apply andb_true_iff in Eg as [Epend Esteps].
  assert (Hpend : In j (d_required d) \/ In j (d_unassigned d)).
  { apply orb_true_iff in Epend as [E|E]; apply memz_In in E; tauto. }
  destruct (pending_facts P d j H Hpend) as (Hk & Hone & Hnot).
  rewrite forallb_forall in Esteps.
  destruct (inv_pending P d H) as (Hndr & _ & Hndu).
  assert (Hnl : forall l, In l (pw_locks P) -> ~ In j (l_jobs l)).
  { intros l Hl Hc. destruct (lock_jobs_served P d l j H Hl Hc) as (x & Hx & Hjx). exact (Hnot x Hx Hjx). }
  assert (Hnr : ~ In j (removez j (d_required d))) by (intros Hc; apply In_removez in Hc; tauto).
  assert (Hnu : ~ In j (removez j (d_unassigned d))) by (intros Hc; apply In_removez in Hc; tauto).
  assert (Hjobs : forall acts k, k <> j ->
            (In k (job_ids (mkRoute a (insert_steps acts steps))) <-> In k (job_ids (mkRoute a acts)))).
  { intros acts k Hkj. rewrite !In_job_ids. cbn [r_acts]. split; intros [Hk0 (x & Hx & E)]; (split; [exact Hk0|]).
    - apply In_insert_steps in Hx as [Hx|Hx]; [exists x; auto|].
      apply in_map_iff in Hx as (s & <- & Hst). specialize (Esteps s Hst). cbv beta in Esteps. apply Z.eqb_eq in Esteps.
      exfalso. apply Hkj. rewrite <- E. exact Esteps.
    - exists x. split; [apply In_insert_steps; left; exact Hx|exact E]. }
  assert (Hlocks : forall acts l, In l (pw_locks P) ->
            filter (fun k => memz k (l_jobs l)) (job_ids (mkRoute a (insert_steps acts steps))) =
            filter (fun k => memz k (l_jobs l)) (job_ids (mkRoute a acts))).
  { intros acts l Hl. apply filter_jobs_insert. intros s Hst. specialize (Esteps s Hst). apply Z.eqb_eq in Esteps.
    rewrite Esteps. apply memz_false. apply Hnl. exact Hl. }
  assert (Hgrp : forall acts g, In g (groups_of P) -> has_group P g (mkRoute a (insert_steps acts steps)) = true ->
            has_group P g (mkRoute a acts) = true \/ forall x, In x (d_routes d) -> r_actor x <> a -> has_group P g x = false).
  { intros acts g Hg Hg'. unfold has_group in Hg'. apply existsb_exists in Hg' as (k & Hkk & Ek).
    destruct (Z.eq_dec k j) as [->|Hkj].
    - right. intros x Hx Hxa. unfold group_free in Egf. apply Z.eqb_eq in Ek. rewrite Ek in Egf.
      apply orb_true_iff in Egf as [E0|E0]; [apply Z.eqb_eq in E0; exfalso; apply (groups_of_nonzero P g Hg); exact E0|].
      apply negb_true_iff in E0. destruct (has_group P g x) eqn:Ex; [|reflexivity].
      assert (existsb (has_group P g) (others d a) = true); [|congruence].
      apply existsb_exists. exists x. split; [|exact Ex]. unfold others. apply filter_In. split; [exact Hx|].
      apply negb_true_iff. apply Z.eqb_neq. exact Hxa.
    - left. unfold has_group. apply existsb_exists. exists k. split; [apply Hjobs; assumption|exact Ek]. }
  destruct (find_route d a) as [r|] eqn:Ef.
  - (* the tour exists *)
    destruct (route_ok P (mkRoute a (insert_steps (r_acts r) steps)) && serves (mkRoute a (insert_steps (r_acts r) steps)) j) eqn:Eok;
      [|discriminate].
    inversion Hs; subst d'; clear Hs. apply andb_true_iff in Eok as [Eok Eserves]. apply route_ok_spec in Eok.
    destruct (find_route_In _ _ _ Ef) as [Hin Era].
    apply (Inv0_replace P d a r _ j); try assumption; try reflexivity.
    + intros k Hkj. apply Hjobs. exact Hkj.
    + intros k Hkj. rewrite In_removez. tauto.
    + intros k Hkj. rewrite In_removez. tauto.
    + apply NoDup_filter'. exact Hndr.
    + apply NoDup_filter'. exact Hndu.
    + rewrite Eserves. rewrite (b2n_memz_notin j _ Hnr), (b2n_memz_notin j _ Hnu).
      assert (Es0 : serves r j = false) by (apply memz_false; apply Hnot; exact Hin). rewrite Es0. cbn [b2n]. lia.
    + intros _. exact Hk.
    + intros l Hl. apply (Hlocks (r_acts r) l Hl).
    + intros g Hg Hg'. apply (Hgrp (r_acts r) g Hg Hg').
  - (* a new tour for an available actor *)
    destruct (find_vs P a) as [vs|] eqn:Evs; [|discriminate].
    set (r' := mkRoute a (insert_steps (r_acts (new_route vs)) steps)) in *.
    destruct (memz a (d_avail d) && route_ok P r' && serves r' j) eqn:Eok; [|discriminate].
    inversion Hs; subst d'; clear Hs. apply andb_true_iff in Eok as [Eok Eserves]. apply andb_true_iff in Eok as [Eav Eok].
    apply route_ok_spec in Eok. apply memz_In in Eav.
    pose proof (find_route_none d a Ef) as Hna.
    assert (Honly : forall k, In k (job_ids r') -> k = j).
    { intros k Hkk. destruct (Z.eq_dec k j) as [|Hkj]; [assumption|]. exfalso.
      apply (Hjobs (r_acts (new_route vs)) k Hkj) in Hkk. apply In_job_ids in Hkk as [Hk0 (x & Hx & E)].
      unfold new_route in Hx. cbn [r_acts] in Hx. destruct (vs_end vs); cbn in Hx;
        repeat (destruct Hx as [Hx|Hx]; [subst x; cbn in E; lia|]); destruct Hx. }
    constructor; cbn [d_routes d_required d_ignored d_unassigned d_locked d_avail].
    + intros s Hs. pose proof (inv_homes P d H s Hs) as Hh. unfold homes in *.
      cbn [d_routes d_required d_ignored d_unassigned]. rewrite filter_app, app_length. cbn [filter].
      destruct (Z.eq_dec (j_id s) j) as [E|E].
      * rewrite E in *. rewrite Eserves. cbn [length]. rewrite (b2n_memz_notin j _ Hnr), (b2n_memz_notin j _ Hnu).
        assert (Ez : filter (fun r => serves r j) (d_routes d) = []).
        { apply filter_all_false. intros x Hx. apply memz_false. apply Hnot. exact Hx. }
        rewrite Ez in *. cbn [length] in *. lia.
      * assert (Es : serves r' (j_id s) = false).
        { apply memz_false. intros Hc. apply Honly in Hc. contradiction. }
        rewrite Es. cbn [length].
        rewrite (b2n_memz_ext (j_id s) (removez j (d_unassigned d)) (d_unassigned d)) by (rewrite In_removez; tauto).
        rewrite (b2n_memz_ext (j_id s) (removez j (d_required d)) (d_required d)) by (rewrite In_removez; tauto). lia.
    + intros k Hkk. apply mentioned_iff in Hkk. cbn [d_routes d_required d_ignored d_unassigned d_locked] in Hkk.
      destruct Hkk as [(x & Hx & Hjx)|[Hkk|[Hkk|[Hkk|Hkk]]]].
      * apply in_app_iff in Hx as [Hx|[<-|[]]]; [|rewrite (Honly k Hjx); exact Hk].
        apply (inv_known P d H). apply mentioned_iff. left. exists x. auto.
      * apply In_removez in Hkk. apply (inv_known P d H). apply mentioned_iff. tauto.
      * apply (inv_known P d H). apply mentioned_iff. tauto.
      * apply In_removez in Hkk. apply (inv_known P d H). apply mentioned_iff. tauto.
      * apply (inv_known P d H). apply mentioned_iff. tauto.
    + destruct (inv_pending P d H) as (_ & Hi & _). split; [apply NoDup_filter'; exact Hndr|].
      split; [exact Hi|apply NoDup_filter'; exact Hndu].
    + destruct (inv_actors P d H) as [Hnd Hkn]. unfold used in *. cbn [d_routes d_avail]. rewrite map_app. cbn [map r_actor].
      split; [apply NoDup_snoc; assumption|].
      intros b Hb. rewrite !in_app_iff in Hb. cbn [In] in Hb.
      destruct Hb as [[Hb|[<-|[]]]|Hb].
      * apply Hkn. apply in_app_iff. left. exact Hb.
      * unfold actor_known, r'. cbn [r_actor]. rewrite Evs. reflexivity.
      * apply In_removez in Hb. apply Hkn. apply in_app_iff. right. tauto.
    + intros v Hv. pose proof (inv_registry P d H v Hv) as Hr. unfold used in *. cbn [d_routes d_avail].
      rewrite map_app, in_app_iff, In_removez. unfold r'. cbn [map r_actor In].
      destruct (Z.eq_dec (vs_id v) a) as [E|E]; [rewrite E in *; tauto|]. intuition congruence.
    + intros x Hx. apply in_app_iff in Hx as [Hx|[<-|[]]]; [apply (inv_routes P d H); exact Hx|exact Eok].
    + intros g Hg. pose proof (inv_groups P d H g Hg) as Hgo. unfold group_ok in *. cbn [d_routes].
      apply Nat.leb_le in Hgo. apply Nat.leb_le. rewrite filter_app, app_length. cbn [filter].
      destruct (has_group P g r') eqn:Eg'; cbn [length]; [|lia].
      destruct (Hgrp (r_acts (new_route vs)) g Hg Eg') as [Hc|Hnone].
      * exfalso. unfold has_group in Hc. apply existsb_exists in Hc as (k & Hkk & _).
        apply In_job_ids in Hkk as [Hk0 (x & Hx & E)]. unfold new_route in Hx. cbn [r_acts] in Hx.
        destruct (vs_end vs); cbn in Hx; repeat (destruct Hx as [Hx|Hx]; [subst x; cbn in E; lia|]); destruct Hx.
      * rewrite (filter_all_false _ (has_group P g) (d_routes d)); [cbn; lia|].
        intros x Hx. apply Hnone; [exact Hx|]. intros E. apply Hna. unfold used. rewrite <- E. apply in_map. exact Hx.
    + intros l Hl. pose proof (inv_locks P d H l Hl) as Hlo. unfold lock_ok in *. cbn [d_routes d_locked].
      apply andb_true_iff in Hlo as [Hl1 Hl2]. apply andb_true_iff. split; [exact Hl1|].
      rewrite existsb_app. rewrite Hl2. reflexivity.
Qed.

(* ================= part 4: every primitive, every history ================= *)
Theorem inv0_step : forall P p d d',
  metric P -> locks_nonempty P -> Inv0 P d -> step P p d = Some d' -> Inv0 P d'.
Proof.
  intros P p d d' Ht Hl H Hs. destruct p.
  - eapply inv0_remove; eauto.
  - eapply inv0_dropempty; eauto.
  - eapply inv0_insert; eauto.
  - eapply inv0_fail; eauto.
  - eapply inv0_finalize; eauto.
  - eapply inv0_departure; eauto.
Qed.

Theorem inv0_history : forall P w d d',
  metric P -> locks_nonempty P -> Inv0 P d -> run P w d = Some d' -> Inv0 P d'.
Proof.
  intros P w; induction w as [|p w IH]; intros d d' Ht Hl H Hr; cbn [run] in Hr.
  - inversion Hr; subst; exact H.
  - destruct (step P p d) as [d1|] eqn:Es; [|discriminate].
    apply (IH d1 d'); auto. apply (inv0_step P p d d1); auto.
Qed.

(* "no tour without jobs": established by remove_empty_routes, kept by everything that does not remove jobs *)
Lemma noempty_dropempty : forall P d d', step P PDropEmpty d = Some d' -> NoEmptyRoutes d'.
Proof.
  intros P d d' H. cbn [step] in H. inversion H; subst d'. intros r Hr. cbn [d_routes] in Hr.
  apply filter_In in Hr as [_ Hr]. unfold nonempty in Hr. destruct (job_ids r); [discriminate|intros E; discriminate].
Qed.

Lemma In_not_nil : forall (l : list Z) x, In x l -> l <> [].
Proof. intros l x H E. rewrite E in H. destruct H. Qed.

Lemma noempty_step : forall P p d d',
  keeps_tours_served p = true -> NoEmptyRoutes d -> step P p d = Some d' -> NoEmptyRoutes d'.
Proof.
  intros P p d d' Hk Hne Hs. destruct p as [a j tu| |a j steps|j| |a dep]; try discriminate; cbn [step] in Hs.
  - inversion Hs; subst d'. intros r Hr. cbn [d_routes] in Hr. apply filter_In in Hr as [Hr _]. apply Hne. exact Hr.
  - match type of Hs with (if ?c then _ else _) = _ => destruct c; [|discriminate] end.
    destruct (find_route d a) as [r|] eqn:Ef.
    + match type of Hs with (if ?c then _ else _) = _ => destruct c eqn:Eok; [|discriminate] end.
      inversion Hs; subst d'. apply andb_true_iff in Eok as [_ Es]. apply serves_In in Es.
      intros x Hx. cbn [d_routes] in Hx. apply replace_In in Hx as [->|[Hx _]]; [|apply Hne; exact Hx].
      apply (In_not_nil _ j). exact Es.
    + destruct (find_vs P a) as [vs|]; [|discriminate].
      match type of Hs with (if ?c then _ else _) = _ => destruct c eqn:Eok; [|discriminate] end.
      inversion Hs; subst d'. apply andb_true_iff in Eok as [_ Es]. apply serves_In in Es.
      intros x Hx. cbn [d_routes] in Hx. apply in_app_iff in Hx as [Hx|[<-|[]]]; [apply Hne; exact Hx|].
      apply (In_not_nil _ j). exact Es.
  - match type of Hs with (if ?c then _ else _) = _ => destruct c; [|discriminate] end.
    inversion Hs; subst d'. exact Hne.
  - inversion Hs; subst d'. exact Hne.
  - destruct (find_route d a) as [r|] eqn:Ef; [|discriminate].
    match type of Hs with (if ?c then _ else _) = _ => destruct c; [|discriminate] end.
    inversion Hs; subst d'. destruct (find_route_In _ _ _ Ef) as [Hin _].
    intros x Hx. cbn [d_routes] in Hx. apply replace_In in Hx as [->|[Hx _]]; [|apply Hne; exact Hx].
    rewrite job_ids_departure. apply (Hne r Hin).
Qed.

Lemma run_app : forall P w1 w2 d,
  run P (w1 ++ w2) d = match run P w1 d with Some d1 => run P w2 d1 | None => None end.
Proof.
  intros P w1; induction w1 as [|p w1 IH]; intros w2 d; cbn [app run]; [reflexivity|].
  destruct (step P p d); [apply IH|reflexivity].
Qed.

Lemma noempty_run : forall P w d d',
  forallb keeps_tours_served w = true -> NoEmptyRoutes d -> run P w d = Some d' -> NoEmptyRoutes d'.
Proof.
  intros P w; induction w as [|p w IH]; intros d d' Hk Hne Hr; cbn [run] in Hr.
  - inversion Hr; subst; exact Hne.
  - cbn [forallb] in Hk. apply andb_true_iff in Hk as [Hp Hw].
    destruct (step P p d) as [d1|] eqn:Es; [|discriminate].
    apply (IH d1 d' Hw); [|exact Hr]. apply (noempty_step P p d d1); assumption.
Qed.

(* an operator: any primitives, then restore (remove_empty_routes), then primitives that do not remove jobs *)
Definition op_word := (list prim * list prim)%type.
Definition word_of (o : op_word) : list prim := fst o ++ PDropEmpty :: snd o.
Definition op_ok (o : op_word) : bool := forallb keeps_tours_served (snd o).
Fixpoint run_ops (P : pworld) (os : list op_word) (d : dump) : option dump :=
  match os with
  | [] => Some d
  | o :: r => match run P (word_of o) d with Some d1 => run_ops P r d1 | None => None end
  end.

Theorem inv_operator : forall P o d d',
  metric P -> locks_nonempty P -> Inv0 P d -> op_ok o = true ->
  run P (word_of o) d = Some d' -> Inv P d'.
Proof.
  intros P [w1 w2] d d' Ht Hl H Hok Hr. split; [apply (inv0_history P _ d d' Ht Hl H Hr)|].
  unfold word_of in Hr. cbn [fst snd] in Hr. rewrite run_app in Hr.
  destruct (run P w1 d) as [d1|]; [|discriminate]. cbn [run] in Hr.
  destruct (step P PDropEmpty d1) as [d2|] eqn:Es; [|discriminate].
  apply (noempty_run P w2 d2 d'); [exact Hok|apply (noempty_dropempty P d1); exact Es|exact Hr].
Qed.

Theorem inv_history : forall P os d d',
  metric P -> locks_nonempty P -> Inv P d -> forallb op_ok os = true ->
  run_ops P os d = Some d' -> Inv P d'.
Proof.
  intros P os; induction os as [|o os IH]; intros d d' Ht Hl H Hok Hr; cbn [run_ops] in Hr.
  - inversion Hr; subst; exact H.
  - cbn [forallb] in Hok. apply andb_true_iff in Hok as [Ho Hos].
    destruct (run P (word_of o) d) as [d1|] eqn:Er; [|discriminate].
    apply (IH d1 d' Ht Hl); [|exact Hos|exact Hr].
    apply (inv_operator P o d d1); auto. destruct H as [H0 _]. exact H0.
Qed.

(* ================= part 5: merge of decomposed parts (DecomposeSearch::merge_best) ================= *)
Theorem inv0_merge : forall P a b,
  (forall s, In s (pw_jobs P) -> (homes a (j_id s) + homes b (j_id s) = 1)%nat) ->
  (forall j, In j (mentioned a) \/ In j (mentioned b) -> known P j = true) ->
  NoDup (d_required a ++ d_required b) -> NoDup (d_ignored a ++ d_ignored b) -> NoDup (d_unassigned a ++ d_unassigned b) ->
  NoDup (used a ++ used b) -> (forall x, In x (used a ++ used b) -> actor_known P x = true) ->
  (forall r, In r (d_routes a ++ d_routes b) -> RouteOK0 P r) ->
  (forall g, In g (groups_of P) ->
     (length (filter (has_group P g) (d_routes a)) + length (filter (has_group P g) (d_routes b)) <= 1)%nat) ->
  (forall l, In l (pw_locks P) -> lock_ok a l = true \/ lock_ok b l = true) ->
  Inv0 P (merge P a b).
Proof.
  intros P a b Hh Hk Hr Hi Hu Hnd Hak Hro Hg Hl.
  constructor; unfold merge; cbn [d_routes d_required d_ignored d_unassigned d_locked d_avail].
  - intros s Hs. specialize (Hh s Hs). unfold homes in *. cbn [d_routes d_required d_ignored d_unassigned].
    rewrite filter_app, app_length.
    assert (Eb : forall k l1 l2, NoDup (l1 ++ l2) -> b2n (memz k (l1 ++ l2)) = (b2n (memz k l1) + b2n (memz k l2))%nat).
    { intros k l1 l2 Hn. destruct (memz k l1) eqn:E1, (memz k l2) eqn:E2; cbn [b2n].
      - exfalso. apply memz_In in E1. apply memz_In in E2. clear -Hn E1 E2.
        induction l1 as [|x l1 IH]; [destruct E1|]. cbn in Hn. inversion Hn; subst.
        destruct E1 as [->|E1]; [apply H1; apply in_app_iff; right; exact E2|apply IH; assumption].
      - apply b2n_memz_In. apply in_app_iff. left. apply memz_In. exact E1.
      - apply b2n_memz_In. apply in_app_iff. right. apply memz_In. exact E2.
      - apply b2n_memz_notin. rewrite in_app_iff. intros [Hc|Hc]; apply memz_In in Hc; congruence. }
    rewrite (Eb _ _ _ Hr), (Eb _ _ _ Hi), (Eb _ _ _ Hu). lia.
  - intros j Hj. apply Hk. apply mentioned_iff in Hj. cbn [d_routes d_required d_ignored d_unassigned d_locked] in Hj.
    rewrite !mentioned_iff. rewrite !in_app_iff in Hj.
    destruct Hj as [(x & Hx & Hjx)|Hj]; [apply in_app_iff in Hx as [Hx|Hx]; [left|right]; left; exists x; auto|tauto].
  - auto.
  - unfold used. cbn [d_routes d_avail]. rewrite map_app. split; [exact Hnd|].
    intros x Hx. apply in_app_iff in Hx as [Hx|Hx]; [apply Hak; exact Hx|].
    apply filter_In in Hx as [Hx _]. apply in_map_iff in Hx as (v & <- & Hv). unfold actor_known.
    destruct (find_vs P (vs_id v)) eqn:E; [reflexivity|]. unfold find_vs in E.
    apply (find_none _ _ E) in Hv. rewrite Z.eqb_refl in Hv. discriminate.
  - intros v Hv. unfold used. cbn [d_routes d_avail]. rewrite map_app, filter_In, negb_true_iff, memz_false. split.
    + tauto.
    + intros Hn. split; [apply in_map; exact Hv|exact Hn].
  - exact Hro.
  - intros g Hgr. unfold group_ok. cbn [d_routes]. rewrite filter_app, app_length. apply Nat.leb_le. apply Hg. exact Hgr.
  - intros l Hll. unfold lock_ok. cbn [d_routes d_locked]. destruct (Hl l Hll) as [Hlo|Hlo]; unfold lock_ok in Hlo;
      apply andb_true_iff in Hlo as [H1 H2]; apply andb_true_iff; (split;
        [rewrite forallb_forall in *; intros x Hx; specialize (H1 x Hx); apply memz_In; apply memz_In in H1; apply in_app_iff; tauto
        |rewrite existsb_app, H2; auto using orb_true_r]).
Qed.
