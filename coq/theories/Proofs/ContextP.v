(* C04 proofs, part 1: removing a whole job from a feasible tour keeps it feasible
   - for the time windows under the triangle inequality on durations (and non-negative service times),
   - for the capacity when the job's own demand never goes negative along the tour (pickup before its delivery). *)
From VRP Require Import Base.Tac Model.Core Spec.Feasible Model.Eval Spec.Inv Model.Context
  Proofs.CoreTimeP Proofs.CoreCapP Proofs.CoreEvalP Proofs.CoreMultiP.

Definition triangle (dur : Z -> Z -> Z) : Prop := forall a b c, dur a c <= dur a b + dur b c.

Definition drop_job (j : Z) (t : list act) : list act := filter (fun a => negb (a_job a =? j)) t.

(* ---------------- time ---------------- *)
Section Time.
Variable dur : Z -> Z -> Z.
Hypothesis Htri : triangle dur.

(* the walk over the shortened tour is never behind the walk over the original one *)
Lemma sim_time_drop : forall j t loc dep loc' dep',
  Forall (fun a => a_job a = j -> 0 <= a_svc a) t ->
  (forall m, dep' + dur loc' m <= dep + dur loc m) ->
  sim_time dur loc dep t = true ->
  sim_time dur loc' dep' (drop_job j t) = true.
Proof.
  intros j t; induction t as [|a r IH]; intros loc dep loc' dep' Hsvc Hdom Hs; [reflexivity|].
  cbn [sim_time] in Hs. apply andb_true_iff in Hs as [Ha Hr].
  inversion Hsvc as [|? ? Hsa Hsr]; subst.
  cbn [drop_job filter]. destruct (a_job a =? j) eqn:Ej; cbn [negb].
  - (* a is dropped *)
    apply (IH (a_loc a) (Z.max (dep + dur loc (a_loc a)) (a_tws a) + a_svc a)); [exact Hsr| |exact Hr].
    intros m. specialize (Hdom m). pose proof (Htri loc (a_loc a) m). specialize (Hsa (proj1 (Z.eqb_eq _ _) Ej)). lia.
  - (* a is kept *)
    cbn [sim_time]. apply andb_true_iff; split.
    + specialize (Hdom (a_loc a)). lia.
    + apply (IH (a_loc a) (Z.max (dep + dur loc (a_loc a)) (a_tws a) + a_svc a)); [exact Hsr| |exact Hr].
      intros m. specialize (Hdom (a_loc a)). lia.
Qed.

Lemma time_feasible_drop : forall j s r,
  a_job s <> j ->
  Forall (fun a => a_job a = j -> 0 <= a_svc a) r ->
  time_feasible dur (s :: r) = true ->
  time_feasible dur (drop_job j (s :: r)) = true.
Proof.
  intros j s r Hs Hsvc Hf. cbn [drop_job filter]. destruct (a_job s =? j) eqn:E; [apply Z.eqb_eq in E; congruence|].
  cbn [negb time_feasible] in *. apply (sim_time_drop j r (a_loc s) (a_dep s)); auto. intros; lia.
Qed.
End Time.

(* ---------------- load ---------------- *)
(* along the tour, what the job has picked up so far is never less than what it has delivered so far (dynamic part),
   and its static amounts are non-negative: `o` is the running balance *)
Fixpoint balanced (j : Z) (o : Z) (t : list act) : Prop :=
  match t with
  | [] => True
  | a :: r => if a_job a =? j
              then 0 <= d_ds (a_dem a) /\ 0 <= o + d_ps (a_dem a) + d_pd (a_dem a) - d_dd (a_dem a)
                   /\ balanced j (o + d_ps (a_dem a) + d_pd (a_dem a) - d_dd (a_dem a)) r
              else balanced j o r
  end.

Definition job_static_delivery (j : Z) (t : list act) : Z :=
  fold_right (fun a acc => (if a_job a =? j then d_ds (a_dem a) else 0) + acc) 0 t.

Lemma job_static_delivery_nonneg : forall j t o, balanced j o t -> 0 <= job_static_delivery j t.
Proof.
  intros j t; induction t as [|a r IH]; intros o Hb; cbn [job_static_delivery fold_right]; [lia|].
  cbn [balanced] in Hb. destruct (a_job a =? j).
  - destruct Hb as (H1 & _ & H3). specialize (IH _ H3). unfold job_static_delivery in IH. lia.
  - specialize (IH _ Hb). unfold job_static_delivery in IH. lia.
Qed.

Lemma tsd_drop : forall j t, total_static_delivery (drop_job j t) = total_static_delivery t - job_static_delivery j t.
Proof.
  intros j t; induction t as [|a r IH]; [reflexivity|].
  cbn [drop_job filter job_static_delivery fold_right total_static_delivery].
  unfold total_static_delivery, job_static_delivery, drop_job in *.
  destruct (a_job a =? j); cbn [negb fold_right]; lia.
Qed.

Lemma sim_load_drop : forall j cap t l o,
  balanced j o t -> 0 <= o ->
  sim_load cap l t = true ->
  sim_load cap (l - job_static_delivery j t - o) (drop_job j t) = true.
Proof.
  intros j cap t; induction t as [|a r IH]; intros l o Hb Ho Hs; [reflexivity|].
  cbn [sim_load] in Hs. apply andb_true_iff in Hs as [Ha Hr].
  cbn [balanced] in Hb. cbn [drop_job filter job_static_delivery fold_right].
  destruct (a_job a =? j) eqn:Ej; cbn [negb].
  - destruct Hb as (H1 & H2 & H3).
    specialize (IH (l + d_change (a_dem a)) _ H3 H2 Hr).
    unfold job_static_delivery, drop_job in *. unfold d_change in *.
    replace (l - (d_ds (a_dem a) + fold_right (fun a0 acc => (if a_job a0 =? j then d_ds (a_dem a0) else 0) + acc) 0 r) - o)
      with (l + (d_ps (a_dem a) + d_pd (a_dem a) - d_ds (a_dem a) - d_dd (a_dem a))
            - fold_right (fun a0 acc => (if a_job a0 =? j then d_ds (a_dem a0) else 0) + acc) 0 r
            - (o + d_ps (a_dem a) + d_pd (a_dem a) - d_dd (a_dem a))) by lia.
    exact IH.
  - cbn [sim_load]. pose proof (job_static_delivery_nonneg j r o Hb) as Hn.
    specialize (IH (l + d_change (a_dem a)) o Hb Ho Hr).
    unfold job_static_delivery, drop_job in *.
    apply andb_true_iff; split; [lia|].
    replace (l - (0 + fold_right (fun a0 acc => (if a_job a0 =? j then d_ds (a_dem a0) else 0) + acc) 0 r) - o + d_change (a_dem a))
      with (l + d_change (a_dem a) - fold_right (fun a0 acc => (if a_job a0 =? j then d_ds (a_dem a0) else 0) + acc) 0 r - o) by lia.
    exact IH.
Qed.

Lemma load_feasible_drop : forall j cap t,
  balanced j 0 t -> load_feasible cap t = true -> load_feasible cap (drop_job j t) = true.
Proof.
  intros j cap t Hb Hf. unfold load_feasible in *. apply andb_true_iff in Hf as [H0 Hs].
  pose proof (job_static_delivery_nonneg j t 0 Hb) as Hn.
  rewrite tsd_drop. apply andb_true_iff; split; [lia|].
  pose proof (sim_load_drop j cap t _ 0 Hb (Z.le_refl 0) Hs) as H. rewrite Z.sub_0_r in H. exact H.
Qed.

(* ---------------- both ---------------- *)
Theorem removal_feasible_metric : forall dur v j s r,
  triangle dur ->
  a_job s <> j ->
  Forall (fun a => a_job a = j -> 0 <= a_svc a) r ->
  balanced j 0 (s :: r) ->
  feasible dur v (s :: r) = true ->
  feasible dur v (drop_job j (s :: r)) = true.
Proof.
  intros dur v j s r Ht Hs Hsvc Hb Hf. unfold feasible in *. apply andb_true_iff in Hf as [H1 H2].
  apply andb_true_iff; split.
  - apply time_feasible_drop; assumption.
  - apply load_feasible_drop; assumption.
Qed.
