(* C14 — proofs about Model/TourReg.v: tour well-formedness as a history invariant, refinement to
   "list of job activities between fixed ends", characterisation of legs(), registry = finite set of free actors. *)
From VRP Require Import Base.Tac Model.TourReg.
#[local] Open Scope nat_scope.

(* ================================================================== sets, maps *)
Lemma set_mem_In x s : set_mem x s = true <-> In x s.
Proof.
  unfold set_mem. rewrite existsb_exists. split.
  - intros [y [H E]]. apply Nat.eqb_eq in E. subst; auto.
  - intros H; exists x; split; auto. apply Nat.eqb_refl.
Qed.
Lemma set_mem_false x s : set_mem x s = false <-> ~ In x s.
Proof. rewrite <- set_mem_In. destruct (set_mem x s); split; congruence. Qed.
Lemma set_add_In x y s : In y (set_add x s) <-> y = x \/ In y s.
Proof.
  unfold set_add. destruct (set_mem x s) eqn:E.
  - apply set_mem_In in E. split; [auto|]. intros [->|]; auto.
  - simpl. split; intros [H|H]; auto.
Qed.
Lemma set_add_NoDup x s : NoDup s -> NoDup (set_add x s).
Proof.
  unfold set_add. destruct (set_mem x s) eqn:E; auto. intros. constructor; auto.
  intros H1. apply set_mem_In in H1. congruence.
Qed.
Lemma set_remove_In x y s : In y (set_remove x s) <-> In y s /\ y <> x.
Proof. unfold set_remove. rewrite filter_In, negb_true_iff, Nat.eqb_neq. tauto. Qed.
Lemma set_remove_NoDup x s : NoDup s -> NoDup (set_remove x s).
Proof. apply NoDup_filter. Qed.

Lemma filter_len_le {A} (f : A -> bool) l : length (filter f l) <= length l.
Proof. induction l; simpl; auto. destruct (f a); simpl; lia. Qed.
Lemma filter_split_length {A} (f : A -> bool) l :
  length (filter f l) + length (filter (fun x => negb (f x)) l) = length l.
Proof. induction l; simpl; auto. destruct (f a); simpl; lia. Qed.

(* ================================================================== tour *)
Definition hasjob (a : act) : bool := match a_job a with Some _ => true | None => false end.
Definition nojob (a : act) : bool := negb (hasjob a).
Definition ends (c : bool) : list act := if c then [end_act] else [].

(* the depots are exactly the activities without a job, in order: start first, then the end of a closed tour *)
Definition depots_ok (t : tour) : Prop := filter nojob (t_acts t) = start_act :: ends (t_closed t).
(* jobs() is a set and equals the set of jobs of the activities *)
Definition jobs_ok (t : tour) : Prop :=
  NoDup (t_jobs t) /\ forall j, In j (t_jobs t) <-> exists a, In a (t_acts t) /\ a_job a = Some j.
(* start first, end last, only job activities in between *)
Definition ends_in_place (t : tour) : Prop :=
  exists mid, t_acts t = start_act :: mid ++ ends (t_closed t) /\ Forall (fun a => hasjob a = true) mid.

Definition WFweak (t : tour) : Prop := depots_ok t /\ jobs_ok t.
Definition WFTour (t : tour) : Prop := ends_in_place t /\ jobs_ok t.

(* the index guard Tour::insert_at does not check (all in-repo callers satisfy it: leg index + 1) *)
Definition in_guard (t : tour) (o : top) : Prop :=
  match o with
  | TInsertAt _ i => 1 <= i <= total t - (if t_closed t then 1 else 0)
  | _ => True
  end.
Fixpoint guarded (t : tour) (ops : list top) : Prop :=
  match ops with
  | [] => True
  | o :: r => in_guard t o /\ match tstep t o with Some (t', _) => guarded t' r | None => True end
  end.

(* ---- list facts *)
Lemma insert_nth_cons {A} i (a x : A) l : insert_nth (S i) a (x :: l) = x :: insert_nth i a l.
Proof. reflexivity. Qed.
Lemma insert_nth_app {A} i (a : A) l e : i <= length l -> insert_nth i a (l ++ e) = insert_nth i a l ++ e.
Proof.
  intros H. unfold insert_nth. rewrite firstn_app, skipn_app.
  replace (i - length l) with 0 by lia. simpl. rewrite app_nil_r, <- app_assoc. reflexivity.
Qed.
Lemma insert_nth_end {A} (a : A) l : insert_nth (length l) a l = l ++ [a].
Proof. unfold insert_nth. rewrite firstn_all, skipn_all. reflexivity. Qed.
Lemma insert_nth_In {A} i (a x : A) l : In x (insert_nth i a l) <-> x = a \/ In x l.
Proof.
  unfold insert_nth. rewrite <- (firstn_skipn i l) at 3. rewrite !in_app_iff. simpl. intuition.
Qed.
Lemma insert_nth_length {A} i (a : A) l : length (insert_nth i a l) = S (length l).
Proof.
  unfold insert_nth. rewrite app_length. simpl. rewrite <- (firstn_skipn i l) at 3. rewrite app_length. lia.
Qed.
Lemma filter_insert_nth {A} (f : A -> bool) i a l : f a = false -> filter f (insert_nth i a l) = filter f l.
Proof.
  intros H. unfold insert_nth. rewrite filter_app. simpl. rewrite H, <- filter_app, firstn_skipn. reflexivity.
Qed.

Lemma has_same_job_iff a j : has_same_job a j = true <-> a_job a = Some j.
Proof.
  unfold has_same_job. destruct (a_job a); [|split; congruence].
  rewrite Nat.eqb_eq. split; congruence.
Qed.
Lemma nojob_not_same a j : nojob a = true -> has_same_job a j = false.
Proof. unfold nojob, hasjob, has_same_job. destruct (a_job a); simpl; congruence. Qed.
Lemma filter_nojob_remove j l :
  filter nojob (filter (fun a => negb (has_same_job a j)) l) = filter nojob l.
Proof.
  induction l as [|a l IH]; simpl; auto.
  destruct (has_same_job a j) eqn:E; simpl.
  - destruct (nojob a) eqn:N; auto. rewrite (nojob_not_same _ j N) in E. discriminate.
  - rewrite IH. reflexivity.
Qed.

(* ---- the observable step on tours, unfolded *)
Lemma tstep_insert_at t a i t' r :
  tstep t (TInsertAt a i) = Some (t', r) ->
  exists j, a_job a = Some j /\ i <= length (t_acts t) /\ t_acts t <> [] /\ r = 0 /\
            t' = mkTour (insert_nth i a (t_acts t)) (set_add j (t_jobs t)) (t_closed t).
Proof.
  cbn [tstep]. unfold insert_at. destruct (a_job a) as [j|]; [|discriminate].
  destruct (t_acts t) eqn:E; [discriminate|].
  destruct (Nat.leb i (length (a0 :: l))) eqn:L; [|discriminate].
  intros H; inversion H; subst. exists j. apply Nat.leb_le in L. repeat split; auto. discriminate.
Qed.
Lemma tstep_insert_last t a : tstep t (TInsertLast a) = tstep t (TInsertAt a (job_activity_count t + 1)).
Proof. reflexivity. Qed.
Lemma tstep_remove_at t i t' r :
  tstep t (TRemoveAt i) = Some (t', r) ->
  exists a, nth_error (t_acts t) i = Some a /\ a_job a = Some r /\ t' = fst (remove t r).
Proof.
  cbn [tstep]. unfold remove_activity_at. destruct (nth_error (t_acts t) i) as [a|]; [|discriminate].
  destruct (a_job a) as [j|] eqn:E; [|discriminate]. intros H; inversion H; subst. exists a; auto.
Qed.

(* ---- jobs_ok and depots_ok are preserved by EVERY step (no index guard needed) *)
Lemma jobs_ok_insert t a i j :
  jobs_ok t -> a_job a = Some j ->
  jobs_ok (mkTour (insert_nth i a (t_acts t)) (set_add j (t_jobs t)) (t_closed t)).
Proof.
  intros [ND H] Ej. split; cbn.
  - apply set_add_NoDup; auto.
  - intros x. rewrite set_add_In, H. split.
    + intros [->|[b [Hb Eb]]]; [exists a | exists b]; rewrite insert_nth_In; auto.
    + intros [b [Hb Eb]]. apply insert_nth_In in Hb. destruct Hb as [->|Hb].
      * left; congruence.
      * right; exists b; auto.
Qed.
Lemma jobs_ok_remove t j : jobs_ok t -> jobs_ok (fst (remove t j)).
Proof.
  intros [ND H]. split; cbn.
  - apply set_remove_NoDup; auto.
  - intros x. rewrite set_remove_In, H. split.
    + intros [[b [Hb Eb]] N]. exists b. split; auto. apply filter_In. split; auto.
      apply negb_true_iff. destruct (has_same_job b j) eqn:S; auto.
      apply has_same_job_iff in S. congruence.
    + intros [b [Hb Eb]]. apply filter_In in Hb. destruct Hb as [Hb S]. split; [exists b; auto|].
      intros ->. apply negb_true_iff in S. apply has_same_job_iff in Eb. congruence.
Qed.
Lemma jobs_ok_step t o t' r : jobs_ok t -> tstep t o = Some (t', r) -> jobs_ok t'.
Proof.
  intros J H. destruct o as [a i|a|j|i].
  - apply tstep_insert_at in H. destruct H as [j [Ej [_ [_ [_ ->]]]]]. apply jobs_ok_insert; auto.
  - rewrite tstep_insert_last in H. apply tstep_insert_at in H.
    destruct H as [j [Ej [_ [_ [_ ->]]]]]. apply jobs_ok_insert; auto.
  - cbn in H. inversion H; subst. apply (jobs_ok_remove t j J).
  - apply tstep_remove_at in H. destruct H as [a [_ [_ ->]]]. apply jobs_ok_remove; auto.
Qed.

Lemma closed_step t o t' r : tstep t o = Some (t', r) -> t_closed t' = t_closed t.
Proof.
  intros H. destruct o as [a i|a|j|i].
  - apply tstep_insert_at in H. destruct H as [j [_ [_ [_ [_ ->]]]]]. reflexivity.
  - rewrite tstep_insert_last in H. apply tstep_insert_at in H. destruct H as [j [_ [_ [_ [_ ->]]]]]. reflexivity.
  - cbn in H. inversion H; reflexivity.
  - apply tstep_remove_at in H. destruct H as [a [_ [_ ->]]]. reflexivity.
Qed.

Lemma depots_ok_step t o t' r : depots_ok t -> tstep t o = Some (t', r) -> depots_ok t'.
Proof.
  unfold depots_ok. intros D H. rewrite (closed_step _ _ _ _ H). destruct o as [a i|a|j|i].
  - apply tstep_insert_at in H. destruct H as [j [Ej [_ [_ [_ ->]]]]]. cbn.
    rewrite filter_insert_nth; auto. unfold nojob, hasjob. rewrite Ej. reflexivity.
  - rewrite tstep_insert_last in H. apply tstep_insert_at in H. destruct H as [j [Ej [_ [_ [_ ->]]]]]. cbn.
    rewrite filter_insert_nth; auto. unfold nojob, hasjob. rewrite Ej. reflexivity.
  - cbn in H. inversion H; subst. cbn. rewrite filter_nojob_remove. auto.
  - apply tstep_remove_at in H. destruct H as [a [_ [_ ->]]]. cbn. rewrite filter_nojob_remove. auto.
Qed.

Lemma wfweak_step t o t' r : WFweak t -> tstep t o = Some (t', r) -> WFweak t'.
Proof. intros [D J] H. split; [eapply depots_ok_step|eapply jobs_ok_step]; eauto. Qed.

Lemma wfweak_new c : WFweak (tour_new c).
Proof.
  split.
  - destruct c; reflexivity.
  - split; [constructor|]. intros j. split; [intros []|].
    intros [a [Ha Ej]]. destruct c; cbn in Ha; repeat (destruct Ha as [Ha|Ha]; [subst; discriminate|]); contradiction.
Qed.

Theorem wfweak_history : forall c ops t, trun (tour_new c) ops = Some t -> WFweak t /\ t_closed t = c.
Proof.
  intros c ops. assert (G : forall t0 t, WFweak t0 -> trun t0 ops = Some t -> WFweak t /\ t_closed t = t_closed t0).
  { induction ops as [|o ops IH]; intros t0 t W H; cbn in H.
    - inversion H; subst; auto.
    - destruct (tstep t0 o) as [[t1 r]|] eqn:S; [|discriminate].
      destruct (IH t1 t (wfweak_step _ _ _ _ W S) H) as [W' C]. split; auto.
      rewrite C. eapply closed_step; eauto. }
  intros t H. destruct (G _ _ (wfweak_new c) H) as [W C]. split; auto.
Qed.

(* ---- counts under the weak invariant *)
Lemma wfweak_counts t : WFweak t ->
  total t = job_activity_count t + 1 + (if t_closed t then 1 else 0) /\
  job_activity_count t = length (filter hasjob (t_acts t)) /\
  job_count t <= job_activity_count t /\
  (has_jobs t = true <-> job_activity_count t <> 0).
Proof.
  intros [D [ND J]]. unfold depots_ok in D.
  pose proof (filter_split_length hasjob (t_acts t)) as L.
  change (fun x => negb (hasjob x)) with nojob in L. rewrite D in L.
  assert (E : length (start_act :: ends (t_closed t)) = 1 + (if t_closed t then 1 else 0)) by (destruct (t_closed t); reflexivity).
  rewrite E in L.
  assert (JC : job_activity_count t = length (filter hasjob (t_acts t))).
  { unfold job_activity_count. destruct (t_acts t) eqn:A; [simpl in L; lia|]. rewrite <- A in *. destruct (t_closed t); lia. }
  assert (LE : job_count t <= length (filter hasjob (t_acts t))).
  { unfold job_count.
    set (jid := fun a => match a_job a with Some j => j | None => 0 end).
    rewrite <- (map_length jid (filter hasjob (t_acts t))). apply NoDup_incl_length; auto.
    intros j Hj. apply J in Hj. destruct Hj as [a [Ha Ea]]. apply in_map_iff. exists a. split.
    - unfold jid. rewrite Ea. reflexivity.
    - apply filter_In. split; auto. unfold hasjob. rewrite Ea. reflexivity. }
  unfold total. repeat split; try lia.
  - unfold has_jobs. rewrite negb_true_iff, Nat.eqb_neq. intros N. rewrite JC. intros Z.
    destruct (t_jobs t) as [|j js] eqn:Ej; [auto|].
    assert (Hj : In j (t_jobs t)) by (rewrite Ej; left; auto). apply J in Hj. destruct Hj as [a [Ha Ea]].
    assert (In a (filter hasjob (t_acts t))) by (apply filter_In; split; auto; unfold hasjob; rewrite Ea; auto).
    destruct (filter hasjob (t_acts t)); [auto|discriminate].
  - unfold has_jobs. rewrite negb_true_iff, Nat.eqb_neq. intros N Z. apply N. rewrite JC.
    destruct (filter hasjob (t_acts t)) as [|a l] eqn:F; auto.
    assert (Ha : In a (filter hasjob (t_acts t))) by (rewrite F; left; auto).
    apply filter_In in Ha. destruct Ha as [Ha Hj]. unfold hasjob in Hj. destruct (a_job a) as [j|] eqn:Ea; [|discriminate].
    assert (In j (t_jobs t)) by (apply J; exists a; auto). destruct (t_jobs t); [contradiction|discriminate].
Qed.

(* ---- legs() *)
Lemma windows2_length l : length (windows2 l) = length l - 1.
Proof.
  induction l as [|a l IH]; auto. destruct l as [|b l]; auto.
  change (windows2 (a :: b :: l)) with ([a; b] :: windows2 (b :: l)). simpl length in *. lia.
Qed.
Lemma windows2_nth l : forall k, k + 1 < length l -> nth_error (windows2 l) k = Some (firstn 2 (skipn k l)).
Proof.
  induction l as [|a l IH]; intros k H; [simpl in H; lia|].
  destruct l as [|b l]; [simpl in H; lia|].
  change (windows2 (a :: b :: l)) with ([a; b] :: windows2 (b :: l)).
  destruct k as [|k]; [reflexivity|]. cbn [nth_error skipn]. apply IH. simpl length in *. lia.
Qed.
Lemma zip_idx_length {A} (l : list A) : forall i, length (zip_idx i l) = length l.
Proof. induction l; intros; simpl; auto. Qed.
Lemma zip_idx_nth {A} (l : list A) : forall i k, nth_error (zip_idx i l) k = option_map (fun x => (x, i + k)) (nth_error l k).
Proof.
  induction l as [|x l IH]; intros i k; destruct k; simpl; auto.
  - rewrite Nat.add_0_r. reflexivity.
  - rewrite IH. replace (S i + k) with (i + S k) by lia. reflexivity.
Qed.

Definition legs_count (t : tour) : nat := total t - (if t_closed t then 1 else 0).

Lemma legs_spec t :
  t_acts t <> [] -> (t_closed t = true -> 2 <= total t) ->
  length (legs t) = legs_count t /\
  forall i, i < legs_count t -> nth_error (legs t) i = Some (firstn 2 (skipn i (t_acts t)), i).
Proof.
  unfold legs, legs_count, total. intros NE C2.
  destruct (t_acts t) as [|a l] eqn:A; [congruence|]. clear NE.
  destruct l as [|b l].
  - (* a single activity *) simpl length. cbn [Nat.eqb Nat.sub Nat.ltb Nat.leb andb].
    destruct (t_closed t); [specialize (C2 eq_refl); simpl in C2; lia|]. cbn. split; auto.
    intros i Hi. assert (i = 0) by lia. subst. reflexivity.
  - set (acts := a :: b :: l) in *. assert (L2 : 2 <= length acts) by (simpl; lia).
    replace (Nat.eqb (length acts) 1) with false by (symmetry; apply Nat.eqb_neq; lia).
    replace (Nat.ltb 0 (length acts - 1)) with true by (symmetry; apply Nat.ltb_lt; lia).
    destruct (t_closed t); cbn [negb andb].
    + rewrite zip_idx_length, windows2_length. split; auto. intros i Hi.
      rewrite zip_idx_nth, windows2_nth by lia. reflexivity.
    + rewrite app_length, zip_idx_length, windows2_length. simpl length. split; [lia|].
      intros i Hi. destruct (Nat.eq_dec i (length acts - 1)) as [->|N].
      * rewrite nth_error_app2; rewrite zip_idx_length, windows2_length; auto.
        rewrite Nat.sub_diag. cbn [nth_error]. f_equal. f_equal.
        symmetry. apply firstn_all2. rewrite skipn_length. lia.
      * rewrite nth_error_app1 by (rewrite zip_idx_length, windows2_length; lia).
        rewrite zip_idx_nth, windows2_nth by lia. reflexivity.
Qed.

Lemma wfweak_nonempty t : WFweak t -> t_acts t <> [] /\ (t_closed t = true -> 2 <= total t).
Proof.
  intros [D _]. unfold depots_ok in D. pose proof (filter_len_le nojob (t_acts t)) as L. rewrite D in L.
  split.
  - intros E. rewrite E in L. simpl in L. lia.
  - intros C. rewrite C in L. simpl in L. unfold total. lia.
Qed.

(* ---- ends in place: needs the index guard *)
Lemma wftour_weak t : WFTour t -> WFweak t.
Proof.
  intros [[mid [A F]] J]. split; auto. unfold depots_ok. rewrite A. cbn [filter].
  change (nojob start_act) with true. cbn. f_equal. rewrite filter_app.
  assert (filter nojob mid = []) as ->.
  { clear A. induction F as [|a l Ha F IH]; auto. simpl. unfold nojob. rewrite Ha. simpl. auto. }
  destruct (t_closed t); reflexivity.
Qed.

Lemma ends_length c : length (ends c) = if c then 1 else 0.
Proof. destruct c; reflexivity. Qed.

Lemma filter_ends j c : filter (fun a => negb (has_same_job a j)) (ends c) = ends c.
Proof. destruct c; reflexivity. Qed.

Lemma ends_in_place_step t o t' r :
  ends_in_place t -> in_guard t o -> tstep t o = Some (t', r) -> ends_in_place t'.
Proof.
  intros [mid [A F]] G H. unfold ends_in_place. rewrite (closed_step _ _ _ _ H).
  assert (INS : forall a i j, a_job a = Some j -> 1 <= i <= length mid + 1 ->
     exists mid', insert_nth i a (start_act :: mid ++ ends (t_closed t)) = start_act :: mid' ++ ends (t_closed t) /\
                  Forall (fun a => hasjob a = true) mid').
  { intros a i j Ej Hi. destruct i as [|i]; [lia|]. exists (insert_nth i a mid). split.
    - rewrite insert_nth_cons, insert_nth_app by lia. reflexivity.
    - apply Forall_forall. intros x Hx. apply insert_nth_In in Hx. destruct Hx as [->|Hx].
      + unfold hasjob. rewrite Ej. reflexivity.
      + rewrite Forall_forall in F. auto. }
  assert (REM : forall j, exists mid',
     filter (fun a => negb (has_same_job a j)) (start_act :: mid ++ ends (t_closed t)) = start_act :: mid' ++ ends (t_closed t) /\
     Forall (fun a => hasjob a = true) mid').
  { intros j. exists (filter (fun a => negb (has_same_job a j)) mid). split.
    - cbn [filter]. change (has_same_job start_act j) with false. cbn [negb]. rewrite filter_app, filter_ends. reflexivity.
    - apply Forall_forall. intros x Hx. apply filter_In in Hx. rewrite Forall_forall in F. apply F. tauto. }
  assert (TL : total t = length mid + 1 + (if t_closed t then 1 else 0)).
  { unfold total. rewrite A. simpl. rewrite app_length, ends_length. lia. }
  destruct o as [a i|a|j|i].
  - apply tstep_insert_at in H. destruct H as [j [Ej [_ [_ [_ ->]]]]]. cbn [t_acts]. rewrite A.
    cbn [in_guard] in G. apply (INS a i j Ej). destruct (t_closed t); lia.
  - rewrite tstep_insert_last in H. apply tstep_insert_at in H. destruct H as [j [Ej [_ [_ [_ ->]]]]]. cbn [t_acts]. rewrite A.
    apply (INS a _ j Ej). unfold job_activity_count. rewrite A. unfold total in TL. rewrite A in TL.
    destruct (t_closed t); lia.
  - cbn in H. inversion H; subst. cbn [t_acts]. rewrite A. apply REM.
  - apply tstep_remove_at in H. destruct H as [a [_ [_ ->]]]. cbn [t_acts remove fst]. rewrite A. apply REM.
Qed.

Lemma wftour_step t o t' r : WFTour t -> in_guard t o -> tstep t o = Some (t', r) -> WFTour t'.
Proof. intros [E J] G H. split; [eapply ends_in_place_step|eapply jobs_ok_step]; eauto. Qed.

Lemma wftour_new c : WFTour (tour_new c).
Proof.
  split; [|apply wfweak_new]. exists []. split; auto.
Qed.

Theorem wftour_history : forall c ops t,
  guarded (tour_new c) ops -> trun (tour_new c) ops = Some t -> WFTour t /\ t_closed t = c.
Proof.
  intros c ops t G H. split; [|eapply wfweak_history; eauto].
  revert G H. generalize (wftour_new c). generalize (tour_new c).
  induction ops as [|o ops IH]; intros t0 W G H; cbn in H.
  - inversion H; subst; auto.
  - destruct G as [G0 G]. destruct (tstep t0 o) as [[t1 r]|] eqn:S; [|discriminate].
    apply (IH t1); auto. eapply wftour_step; eauto.
Qed.

(* histories without insert_at (insert_last, remove, remove_activity_at only) are always guarded *)
Definition no_insert_at (o : top) : bool := match o with TInsertAt _ _ => false | _ => true end.
Lemma guarded_no_insert_at ops : forall t, forallb no_insert_at ops = true -> guarded t ops.
Proof.
  induction ops as [|o ops IH]; intros t H; cbn; auto. cbn in H. apply andb_true_iff in H. destruct H as [H0 H].
  split.
  - destruct o; cbn; auto. discriminate.
  - destruct (tstep t o) as [[t' r]|]; auto.
Qed.

(* ---- refinement: the tour IS the list of job activities between the fixed ends *)
Definition abs (t : tour) : list act :=
  let l := tl (t_acts t) in if t_closed t then removelast l else l.

Lemma abs_shape t mid : t_acts t = start_act :: mid ++ ends (t_closed t) -> abs t = mid.
Proof.
  intros A. unfold abs. rewrite A. cbn [tl]. destruct (t_closed t); cbn [ends].
  - apply removelast_last.
  - apply app_nil_r.
Qed.

Definition same_job_out (j : nat) (mid : list act) := filter (fun a => negb (has_same_job a j)) mid.

Definition spec_step (mid : list act) (o : top) : option (list act * nat) :=
  match o with
  | TInsertAt a i =>
      if hasjob a && Nat.leb 1 i && Nat.leb i (length mid + 1) then Some (insert_nth (i - 1) a mid, 0) else None
  | TInsertLast a => if hasjob a then Some (mid ++ [a], 0) else None
  | TRemove j => Some (same_job_out j mid, if existsb (fun a => has_same_job a j) mid then 1 else 0)
  | TRemoveAt i =>
      match i with
      | 0 => None
      | S i' => match nth_error mid i' with
                | Some a => match a_job a with Some j => Some (same_job_out j mid, j) | None => None end
                | None => None
                end
      end
  end.

Definition abs_res (x : option (tour * nat)) : option (list act * nat) :=
  match x with Some (t', r) => Some (abs t', r) | None => None end.

Lemma remove_abs t mid j :
  t_acts t = start_act :: mid ++ ends (t_closed t) -> abs (fst (remove t j)) = same_job_out j mid.
Proof.
  intros A. apply abs_shape. cbn [remove fst t_acts t_closed]. rewrite A. cbn [filter].
  change (has_same_job start_act j) with false. cbn [negb]. rewrite filter_app, filter_ends. reflexivity.
Qed.

Lemma insert_abs t mid a i j :
  t_acts t = start_act :: mid ++ ends (t_closed t) -> i <= length mid ->
  abs (mkTour (insert_nth (S i) a (t_acts t)) (set_add j (t_jobs t)) (t_closed t)) = insert_nth i a mid.
Proof.
  intros A Hi. apply abs_shape. cbn [t_acts t_closed]. rewrite A, insert_nth_cons, insert_nth_app by lia. reflexivity.
Qed.

Lemma mem_jobs_exists t mid j :
  t_acts t = start_act :: mid ++ ends (t_closed t) -> jobs_ok t ->
  set_mem j (t_jobs t) = existsb (fun a => has_same_job a j) mid.
Proof.
  intros A [_ J]. apply eq_true_iff_eq. rewrite set_mem_In, J, existsb_exists. split.
  - intros [a [Ha Ea]]. rewrite A in Ha. cbn in Ha. destruct Ha as [<-|Ha]; [discriminate|].
    apply in_app_iff in Ha. destruct Ha as [Ha|Ha].
    + exists a. split; auto. apply has_same_job_iff; auto.
    + destruct (t_closed t); cbn in Ha; intuition; subst; discriminate.
  - intros [a [Ha Sa]]. exists a. split; [|apply has_same_job_iff; auto]. rewrite A. right. apply in_app_iff; auto.
Qed.

Theorem tour_refines t o : WFTour t -> in_guard t o -> abs_res (tstep t o) = spec_step (abs t) o.
Proof.
  intros [[mid [A F]] J] G. rewrite (abs_shape t mid A).
  assert (LEN : length (t_acts t) = length mid + 1 + (if t_closed t then 1 else 0)).
  { rewrite A. simpl. rewrite app_length, ends_length. lia. }
  assert (NE : t_acts t <> []) by (rewrite A; discriminate).
  assert (INS : forall a i, 1 <= i <= length mid + 1 ->
     abs_res (tstep t (TInsertAt a i)) = if hasjob a then Some (insert_nth (i - 1) a mid, 0) else None).
  { intros a i Hi. cbn [tstep]. unfold insert_at, hasjob. destruct (a_job a) as [j|]; [|reflexivity].
    destruct (t_acts t) eqn:E; [congruence|]. rewrite <- E.
    replace (Nat.leb i (length (t_acts t))) with true by (symmetry; apply Nat.leb_le; lia).
    destruct i as [|i]; [lia|]. cbn [abs_res]. rewrite (insert_abs t mid) by (auto; lia).
    replace (S i - 1) with i by lia. reflexivity. }
  destruct o as [a i|a|j|i]; cbn [spec_step].
  - cbn [in_guard] in G. unfold total in G.
    assert (Hi : 1 <= i <= length mid + 1) by (destruct (t_closed t); lia).
    rewrite (INS a i Hi).
    replace (Nat.leb 1 i) with true by (symmetry; apply Nat.leb_le; lia).
    replace (Nat.leb i (length mid + 1)) with true by (symmetry; apply Nat.leb_le; lia).
    rewrite !andb_true_r. reflexivity.
  - rewrite tstep_insert_last.
    assert (JC : job_activity_count t + 1 = length mid + 1).
    { unfold job_activity_count. destruct (t_acts t) eqn:E; [congruence|]. rewrite <- E. destruct (t_closed t); lia. }
    rewrite JC, INS by lia. replace (length mid + 1 - 1) with (length mid) by lia. rewrite insert_nth_end. reflexivity.
  - cbn [tstep]. unfold remove at 1. cbn [abs_res].
    change (mkTour (filter (fun a => negb (has_same_job a j)) (t_acts t)) (set_remove j (t_jobs t)) (t_closed t)) with (fst (remove t j)).
    rewrite (remove_abs t mid j A), (mem_jobs_exists t mid j A J). reflexivity.
  - cbn [tstep]. unfold remove_activity_at. rewrite A. destruct i as [|i]; [reflexivity|]. cbn [nth_error].
    destruct (Nat.lt_ge_cases i (length mid)) as [Hi|Hi].
    + rewrite nth_error_app1 by auto. destruct (nth_error mid i) as [a|] eqn:E; [|reflexivity].
      destruct (a_job a) as [j|]; [|reflexivity]. cbn [abs_res]. rewrite <- A, (remove_abs t mid j A). reflexivity.
    + rewrite nth_error_app2 by auto. replace (nth_error mid i) with (@None act) by (symmetry; apply nth_error_None; auto).
      destruct (t_closed t); cbn [ends].
      * destruct (i - length mid) as [|k]; [reflexivity|]. destruct k; reflexivity.
      * destruct (i - length mid); reflexivity.
Qed.

(* the concrete representation is determined by the abstract value *)
Lemma wftour_repr t : WFTour t ->
  t_acts t = start_act :: abs t ++ ends (t_closed t) /\ Forall (fun a => hasjob a = true) (abs t) /\
  NoDup (t_jobs t) /\ (forall j, In j (t_jobs t) <-> exists a, In a (abs t) /\ a_job a = Some j).
Proof.
  intros [[mid [A F]] J]. rewrite (abs_shape t mid A). repeat split; auto; try apply J.
  - intros Hj. apply set_mem_In in Hj. rewrite (mem_jobs_exists t mid j A J) in Hj. apply existsb_exists in Hj.
    destruct Hj as [a [Ha Sa]]. exists a. split; auto. apply has_same_job_iff; auto.
  - intros [a [Ha Ea]]. apply set_mem_In. rewrite (mem_jobs_exists t mid j A J). apply existsb_exists.
    exists a. split; auto. apply has_same_job_iff; auto.
Qed.

(* the unguarded statement is false for the code as written *)
Lemma ends_unguarded_refuted :
  exists ops t, trun (tour_new true) ops = Some t /\ hd_error (t_acts t) <> Some start_act.
Proof.
  exists [TInsertAt (mkAct (Some 0) 2) 0]. eexists. split; [reflexivity|]. cbn. discriminate.
Qed.
Lemma end_unguarded_refuted :
  exists ops t, trun (tour_new true) ops = Some t /\ last (t_acts t) start_act <> end_act.
Proof.
  exists [TInsertAt (mkAct (Some 0) 2) 2]. eexists. split; [reflexivity|]. cbn. discriminate.
Qed.
