(* C14 — proofs about Model/TourReg.v: tour well-formedness as a history invariant, refinement to
   "list of job activities between fixed ends", characterisation of legs(), registry = finite set of free actors. *)
From VRP Require Import Base.Tac Model.TourReg.
#[local] Open Scope nat_scope.

(* ================================================================== sets, maps *)
Lemma set_mem_In x s : set_mem x s = true <-> In x s.
Proof.
  unfold set_mem. rewrite existsb_exists. split.
  - intros [y [H E]]. apply Nat.eqb_eq in E. subst; auto.
  - intros H; exists x; split; auto. apply Nat.eqb_refl.
Qed.
Lemma set_mem_false x s : set_mem x s = false <-> ~ In x s.
Proof. rewrite <- set_mem_In. destruct (set_mem x s); split; congruence. Qed.
Lemma set_add_In x y s : In y (set_add x s) <-> y = x \/ In y s.
Proof.
  unfold set_add. destruct (set_mem x s) eqn:E.
  - apply set_mem_In in E. split; [auto|]. intros [->|]; auto.
  - simpl. split; intros [H|H]; auto.
Qed.
Lemma set_add_NoDup x s : NoDup s -> NoDup (set_add x s).
Proof.
  unfold set_add. destruct (set_mem x s) eqn:E; auto. intros. constructor; auto.
  intros H1. apply set_mem_In in H1. congruence.
Qed.
Lemma set_remove_In x y s : In y (set_remove x s) <-> In y s /\ y <> x.
Proof. unfold set_remove. rewrite filter_In, negb_true_iff, Nat.eqb_neq. tauto. Qed.
Lemma set_remove_NoDup x s : NoDup s -> NoDup (set_remove x s).
Proof. apply NoDup_filter. Qed.

Lemma filter_len_le {A} (f : A -> bool) l : length (filter f l) <= length l.
Proof. induction l; simpl; auto. destruct (f a); simpl; lia. Qed.
Lemma filter_split_length {A} (f : A -> bool) l :
  length (filter f l) + length (filter (fun x => negb (f x)) l) = length l.
Proof. induction l; simpl; auto. destruct (f a); simpl; lia. Qed.

(* ================================================================== tour *)
Definition hasjob (a : act) : bool := match a_job a with Some _ => true | None => false end.
Definition nojob (a : act) : bool := negb (hasjob a).
Definition ends (c : bool) : list act := if c then [end_act] else [].

(* the depots are exactly the activities without a job, in order: start first, then the end of a closed tour *)
Definition depots_ok (t : tour) : Prop := filter nojob (t_acts t) = start_act :: ends (t_closed t).
(* jobs() is a set and equals the set of jobs of the activities *)
Definition jobs_ok (t : tour) : Prop :=
  NoDup (t_jobs t) /\ forall j, In j (t_jobs t) <-> exists a, In a (t_acts t) /\ a_job a = Some j.
(* start first, end last, only job activities in between *)
Definition ends_in_place (t : tour) : Prop :=
  exists mid, t_acts t = start_act :: mid ++ ends (t_closed t) /\ Forall (fun a => hasjob a = true) mid.

Definition WFweak (t : tour) : Prop := depots_ok t /\ jobs_ok t.
Definition WFTour (t : tour) : Prop := ends_in_place t /\ jobs_ok t.

(* the index guard Tour::insert_at does not check (all in-repo callers satisfy it: leg index + 1) *)
Definition in_guard (t : tour) (o : top) : Prop :=
  match o with
  | TInsertAt _ i => 1 <= i <= total t - (if t_closed t then 1 else 0)
  | _ => True
  end.
Fixpoint guarded (t : tour) (ops : list top) : Prop :=
  match ops with
  | [] => True
  | o :: r => in_guard t o /\ match tstep t o with Some (t', _) => guarded t' r | None => True end
  end.

(* ---- list facts *)
Lemma match_nonempty {A B} (l : list A) (x y : B) : l <> [] -> match l with [] => x | _ :: _ => y end = y.
Proof. destruct l; congruence. Qed.
Lemma insert_nth_cons {A} i (a x : A) l : insert_nth (S i) a (x :: l) = x :: insert_nth i a l.
Proof. reflexivity. Qed.
Lemma insert_nth_app {A} i (a : A) l e : i <= length l -> insert_nth i a (l ++ e) = insert_nth i a l ++ e.
Proof.
  intros H. unfold insert_nth. rewrite firstn_app, skipn_app.
  replace (i - length l) with 0 by lia. simpl. rewrite app_nil_r, <- app_assoc. reflexivity.
Qed.
Lemma insert_nth_end {A} (a : A) l : insert_nth (length l) a l = l ++ [a].
Proof. unfold insert_nth. rewrite firstn_all, skipn_all. reflexivity. Qed.
Lemma insert_nth_In {A} i (a x : A) l : In x (insert_nth i a l) <-> x = a \/ In x l.
Proof.
  unfold insert_nth. rewrite <- (firstn_skipn i l) at 3. rewrite !in_app_iff. simpl. intuition.
Qed.
Lemma insert_nth_length {A} i (a : A) l : length (insert_nth i a l) = S (length l).
Proof.
  unfold insert_nth. rewrite app_length. simpl. rewrite <- (firstn_skipn i l) at 3. rewrite app_length. lia.
Qed.
Lemma filter_insert_nth {A} (f : A -> bool) i a l : f a = false -> filter f (insert_nth i a l) = filter f l.
Proof.
  intros H. unfold insert_nth. rewrite filter_app. simpl. rewrite H, <- filter_app, firstn_skipn. reflexivity.
Qed.

Lemma has_same_job_iff a j : has_same_job a j = true <-> a_job a = Some j.
Proof.
  unfold has_same_job. destruct (a_job a); [|split; congruence].
  rewrite Nat.eqb_eq. split; congruence.
Qed.
Lemma nojob_not_same a j : nojob a = true -> has_same_job a j = false.
Proof. unfold nojob, hasjob, has_same_job. destruct (a_job a); simpl; congruence. Qed.
Lemma filter_nojob_remove j l :
  filter nojob (filter (fun a => negb (has_same_job a j)) l) = filter nojob l.
Proof.
  induction l as [|a l IH]; simpl; auto.
  destruct (has_same_job a j) eqn:E; simpl.
  - destruct (nojob a) eqn:N; auto. rewrite (nojob_not_same _ j N) in E. discriminate.
  - rewrite IH. reflexivity.
Qed.

(* ---- the observable step on tours, unfolded *)
Lemma tstep_insert_at t a i t' r :
  tstep t (TInsertAt a i) = Some (t', r) ->
  exists j, a_job a = Some j /\ i <= length (t_acts t) /\ t_acts t <> [] /\ r = 0 /\
            t' = mkTour (insert_nth i a (t_acts t)) (set_add j (t_jobs t)) (t_closed t).
Proof.
  cbn [tstep]. unfold insert_at. destruct (a_job a) as [j|]; [|discriminate].
  destruct (t_acts t) eqn:E; [discriminate|].
  destruct (Nat.leb i (length (a0 :: l))) eqn:L; [|discriminate].
  intros H; inversion H; subst. exists j. apply Nat.leb_le in L. repeat split; auto. discriminate.
Qed.
Lemma tstep_insert_last t a : tstep t (TInsertLast a) = tstep t (TInsertAt a (job_activity_count t + 1)).
Proof. reflexivity. Qed.
Lemma tstep_remove_at t i t' r :
  tstep t (TRemoveAt i) = Some (t', r) ->
  exists a, nth_error (t_acts t) i = Some a /\ a_job a = Some r /\ t' = fst (remove t r).
Proof.
  cbn [tstep]. unfold remove_activity_at. destruct (nth_error (t_acts t) i) as [a|]; [|discriminate].
  destruct (a_job a) as [j|] eqn:E; [|discriminate]. intros H; inversion H; subst. exists a; auto.
Qed.

(* ---- jobs_ok and depots_ok are preserved by EVERY step (no index guard needed) *)
Lemma jobs_ok_insert t a i j :
  jobs_ok t -> a_job a = Some j ->
  jobs_ok (mkTour (insert_nth i a (t_acts t)) (set_add j (t_jobs t)) (t_closed t)).
Proof.
  intros [ND H] Ej. split; cbn.
  - apply set_add_NoDup; auto.
  - intros x. rewrite set_add_In, H. split.
    + intros [->|[b [Hb Eb]]]; [exists a | exists b]; rewrite insert_nth_In; auto.
    + intros [b [Hb Eb]]. apply insert_nth_In in Hb. destruct Hb as [->|Hb].
      * left; congruence.
      * right; exists b; auto.
Qed.
Lemma jobs_ok_remove t j : jobs_ok t -> jobs_ok (fst (remove t j)).
Proof.
  intros [ND H]. split; cbn.
  - apply set_remove_NoDup; auto.
  - intros x. rewrite set_remove_In, H. split.
    + intros [[b [Hb Eb]] N]. exists b. split; auto. apply filter_In. split; auto.
      apply negb_true_iff. destruct (has_same_job b j) eqn:S; auto.
      apply has_same_job_iff in S. congruence.
    + intros [b [Hb Eb]]. apply filter_In in Hb. destruct Hb as [Hb S]. split; [exists b; auto|].
      intros ->. apply negb_true_iff in S. apply has_same_job_iff in Eb. congruence.
Qed.
Lemma jobs_ok_step t o t' r : jobs_ok t -> tstep t o = Some (t', r) -> jobs_ok t'.
Proof.
  intros J H. destruct o as [a i|a|j|i].
  - apply tstep_insert_at in H. destruct H as [j [Ej [_ [_ [_ ->]]]]]. apply jobs_ok_insert; auto.
  - rewrite tstep_insert_last in H. apply tstep_insert_at in H.
    destruct H as [j [Ej [_ [_ [_ ->]]]]]. apply jobs_ok_insert; auto.
  - cbn in H. inversion H; subst. apply (jobs_ok_remove t j J).
  - apply tstep_remove_at in H. destruct H as [a [_ [_ ->]]]. apply jobs_ok_remove; auto.
Qed.

Lemma closed_step t o t' r : tstep t o = Some (t', r) -> t_closed t' = t_closed t.
Proof.
  intros H. destruct o as [a i|a|j|i].
  - apply tstep_insert_at in H. destruct H as [j [_ [_ [_ [_ ->]]]]]. reflexivity.
  - rewrite tstep_insert_last in H. apply tstep_insert_at in H. destruct H as [j [_ [_ [_ [_ ->]]]]]. reflexivity.
  - cbn in H. inversion H; reflexivity.
  - apply tstep_remove_at in H. destruct H as [a [_ [_ ->]]]. reflexivity.
Qed.

Lemma depots_ok_step t o t' r : depots_ok t -> tstep t o = Some (t', r) -> depots_ok t'.
Proof.
  unfold depots_ok. intros D H. rewrite (closed_step _ _ _ _ H). destruct o as [a i|a|j|i].
  - apply tstep_insert_at in H. destruct H as [j [Ej [_ [_ [_ ->]]]]]. cbn.
    rewrite filter_insert_nth; auto. unfold nojob, hasjob. rewrite Ej. reflexivity.
  - rewrite tstep_insert_last in H. apply tstep_insert_at in H. destruct H as [j [Ej [_ [_ [_ ->]]]]]. cbn.
    rewrite filter_insert_nth; auto. unfold nojob, hasjob. rewrite Ej. reflexivity.
  - cbn in H. inversion H; subst. cbn. rewrite filter_nojob_remove. auto.
  - apply tstep_remove_at in H. destruct H as [a [_ [_ ->]]]. cbn. rewrite filter_nojob_remove. auto.
Qed.

Lemma wfweak_step t o t' r : WFweak t -> tstep t o = Some (t', r) -> WFweak t'.
Proof. intros [D J] H. split; [eapply depots_ok_step|eapply jobs_ok_step]; eauto. Qed.

Lemma wfweak_new c : WFweak (tour_new c).
Proof.
  split.
  - destruct c; reflexivity.
  - split; [constructor|]. intros j. split; [intros []|].
    intros [a [Ha Ej]]. destruct c; cbn in Ha; repeat (destruct Ha as [Ha|Ha]; [subst; discriminate|]); contradiction.
Qed.

Theorem wfweak_history : forall c ops t, trun (tour_new c) ops = Some t -> WFweak t /\ t_closed t = c.
Proof.
  intros c ops. assert (G : forall t0 t, WFweak t0 -> trun t0 ops = Some t -> WFweak t /\ t_closed t = t_closed t0).
  { induction ops as [|o ops IH]; intros t0 t W H; cbn in H.
    - inversion H; subst; auto.
    - destruct (tstep t0 o) as [[t1 r]|] eqn:S; [|discriminate].
      destruct (IH t1 t (wfweak_step _ _ _ _ W S) H) as [W' C]. split; auto.
      rewrite C. eapply closed_step; eauto. }
  intros t H. destruct (G _ _ (wfweak_new c) H) as [W C]. split; auto.
Qed.

(* ---- counts under the weak invariant *)
Lemma wfweak_counts t : WFweak t ->
  total t = job_activity_count t + 1 + (if t_closed t then 1 else 0) /\
  job_activity_count t = length (filter hasjob (t_acts t)) /\
  job_count t <= job_activity_count t /\
  (has_jobs t = true <-> job_activity_count t <> 0).
Proof.
  intros [D [ND J]]. unfold depots_ok in D.
  pose proof (filter_split_length hasjob (t_acts t)) as L.
  change (fun x => negb (hasjob x)) with nojob in L. rewrite D in L.
  assert (E : length (start_act :: ends (t_closed t)) = 1 + (if t_closed t then 1 else 0)) by (destruct (t_closed t); reflexivity).
  rewrite E in L.
  assert (JC : job_activity_count t = length (filter hasjob (t_acts t))).
  { unfold job_activity_count. destruct (t_acts t) eqn:A; [simpl in L; lia|]. rewrite <- A in *. destruct (t_closed t); lia. }
  assert (LE : job_count t <= length (filter hasjob (t_acts t))).
  { unfold job_count.
    set (jid := fun a => match a_job a with Some j => j | None => 0 end).
    rewrite <- (map_length jid (filter hasjob (t_acts t))). apply NoDup_incl_length; auto.
    intros j Hj. apply J in Hj. destruct Hj as [a [Ha Ea]]. apply in_map_iff. exists a. split.
    - unfold jid. rewrite Ea. reflexivity.
    - apply filter_In. split; auto. unfold hasjob. rewrite Ea. reflexivity. }
  unfold total. repeat split; try lia.
  - unfold has_jobs. rewrite negb_true_iff, Nat.eqb_neq. intros N. rewrite JC. intros Z.
    assert (Hj : exists j, In j (t_jobs t)).
    { clear - N. destruct (t_jobs t) as [|j js]; [simpl in N; congruence|]. exists j; left; auto. }
    destruct Hj as [j Hj]. apply J in Hj. destruct Hj as [a [Ha Ea]].
    assert (Hf : In a (filter hasjob (t_acts t))) by (apply filter_In; split; auto; unfold hasjob; rewrite Ea; auto).
    clear - Hf Z. destruct (filter hasjob (t_acts t)); [auto|discriminate].
  - unfold has_jobs. rewrite negb_true_iff, Nat.eqb_neq. intros N Z. apply N. rewrite JC.
    assert (Hf : forall a, ~ In a (filter hasjob (t_acts t))).
    { intros a Ha. apply filter_In in Ha. destruct Ha as [Ha Hj]. unfold hasjob in Hj.
      destruct (a_job a) as [j|] eqn:Ea; [|discriminate].
      assert (Hi : In j (t_jobs t)) by (apply J; exists a; auto).
      clear - Hi Z. destruct (t_jobs t); [contradiction|discriminate]. }
    clear - Hf. destruct (filter hasjob (t_acts t)) as [|a l]; auto. exfalso. apply (Hf a). left; auto.
Qed.

(* ---- legs() *)
Lemma windows2_length l : length (windows2 l) = length l - 1.
Proof.
  induction l as [|a l IH]; auto. destruct l as [|b l]; auto.
  change (windows2 (a :: b :: l)) with ([a; b] :: windows2 (b :: l)). simpl length in *. lia.
Qed.
Lemma windows2_nth l : forall k, k + 1 < length l -> nth_error (windows2 l) k = Some (firstn 2 (skipn k l)).
Proof.
  induction l as [|a l IH]; intros k H; [simpl in H; lia|].
  destruct l as [|b l]; [simpl in H; lia|].
  change (windows2 (a :: b :: l)) with ([a; b] :: windows2 (b :: l)).
  destruct k as [|k]; [reflexivity|]. cbn [nth_error skipn]. apply IH. simpl length in *. lia.
Qed.
Lemma zip_idx_length {A} (l : list A) : forall i, length (zip_idx i l) = length l.
Proof. induction l; intros; simpl; auto. Qed.
Lemma zip_idx_nth {A} (l : list A) : forall i k, nth_error (zip_idx i l) k = option_map (fun x => (x, i + k)) (nth_error l k).
Proof.
  induction l as [|x l IH]; intros i k; destruct k; simpl; auto.
  - rewrite Nat.add_0_r. reflexivity.
  - rewrite IH. replace (S i + k) with (i + S k) by lia. reflexivity.
Qed.

Definition legs_count (t : tour) : nat := total t - (if t_closed t then 1 else 0).

Lemma legs_spec t :
  t_acts t <> [] -> (t_closed t = true -> 2 <= total t) ->
  length (legs t) = legs_count t /\
  forall i, i < legs_count t -> nth_error (legs t) i = Some (firstn 2 (skipn i (t_acts t)), i).
Proof.
  unfold legs, legs_count, total. intros NE C2.
  destruct (t_acts t) as [|a l] eqn:A; [congruence|]. clear NE.
  destruct l as [|b l].
  - (* a single activity *) simpl length. cbn [Nat.eqb Nat.sub Nat.ltb Nat.leb andb].
    destruct (t_closed t); [specialize (C2 eq_refl); simpl in C2; lia|]. cbn. split; auto.
    intros i Hi. assert (i = 0) by lia. subst. reflexivity.
  - assert (L2 : 2 <= length (a :: b :: l)) by (simpl; lia). remember (a :: b :: l) as acts eqn:Eacts. clear Eacts.
    replace (Nat.eqb (length acts) 1) with false by (symmetry; apply Nat.eqb_neq; lia).
    replace (Nat.ltb 0 (length acts - 1)) with true by (symmetry; apply Nat.ltb_lt; lia).
    destruct (t_closed t); cbn [negb andb].
    + rewrite zip_idx_length, windows2_length. split; auto. intros i Hi.
      rewrite zip_idx_nth, windows2_nth by lia. reflexivity.
    + rewrite app_length, zip_idx_length, windows2_length. simpl length. split; [lia|].
      intros i Hi. destruct (Nat.eq_dec i (length acts - 1)) as [->|N].
      * rewrite nth_error_app2; rewrite zip_idx_length, windows2_length; auto.
        rewrite Nat.sub_diag. cbn [nth_error]. f_equal. f_equal.
        symmetry. apply firstn_all2. rewrite skipn_length. lia.
      * rewrite nth_error_app1 by (rewrite zip_idx_length, windows2_length; lia).
        rewrite zip_idx_nth, windows2_nth by lia. reflexivity.
Qed.

Lemma wfweak_nonempty t : WFweak t -> t_acts t <> [] /\ (t_closed t = true -> 2 <= total t).
Proof.
  intros [D _]. unfold depots_ok in D. pose proof (filter_len_le nojob (t_acts t)) as L. rewrite D in L.
  split.
  - intros E. rewrite E in L. simpl in L. lia.
  - intros C. rewrite C in L. simpl in L. unfold total. lia.
Qed.

(* ---- ends in place: needs the index guard *)
Lemma wftour_weak t : WFTour t -> WFweak t.
Proof.
  intros [[mid [A F]] J]. split; auto. unfold depots_ok. rewrite A. cbn [filter].
  change (nojob start_act) with true. cbn. f_equal. rewrite filter_app.
  assert (filter nojob mid = []) as ->.
  { clear A. induction F as [|a l Ha F IH]; auto. simpl. unfold nojob. rewrite Ha. simpl. auto. }
  destruct (t_closed t); reflexivity.
Qed.

Lemma ends_length c : length (ends c) = if c then 1 else 0.
Proof. destruct c; reflexivity. Qed.

Lemma filter_ends j c : filter (fun a => negb (has_same_job a j)) (ends c) = ends c.
Proof. destruct c; reflexivity. Qed.

Lemma ends_in_place_step t o t' r :
  ends_in_place t -> in_guard t o -> tstep t o = Some (t', r) -> ends_in_place t'.
Proof.
  intros [mid [A F]] G H. unfold ends_in_place. rewrite (closed_step _ _ _ _ H).
  assert (INS : forall a i j, a_job a = Some j -> 1 <= i <= length mid + 1 ->
     exists mid', insert_nth i a (start_act :: mid ++ ends (t_closed t)) = start_act :: mid' ++ ends (t_closed t) /\
                  Forall (fun a => hasjob a = true) mid').
  { intros a i j Ej Hi. destruct i as [|i]; [lia|]. exists (insert_nth i a mid). split.
    - rewrite insert_nth_cons, insert_nth_app by lia. reflexivity.
    - apply Forall_forall. intros x Hx. apply insert_nth_In in Hx. destruct Hx as [->|Hx].
      + unfold hasjob. rewrite Ej. reflexivity.
      + rewrite Forall_forall in F. auto. }
  assert (REM : forall j, exists mid',
     filter (fun a => negb (has_same_job a j)) (start_act :: mid ++ ends (t_closed t)) = start_act :: mid' ++ ends (t_closed t) /\
     Forall (fun a => hasjob a = true) mid').
  { intros j. exists (filter (fun a => negb (has_same_job a j)) mid). split.
    - cbn [filter]. change (has_same_job start_act j) with false. cbn [negb]. rewrite filter_app, filter_ends. reflexivity.
    - apply Forall_forall. intros x Hx. apply filter_In in Hx. rewrite Forall_forall in F. apply F. tauto. }
  assert (TL : total t = length mid + 1 + (if t_closed t then 1 else 0)).
  { unfold total. rewrite A. simpl. rewrite app_length, ends_length. lia. }
  destruct o as [a i|a|j|i].
  - apply tstep_insert_at in H. destruct H as [j [Ej [_ [_ [_ ->]]]]]. cbn [t_acts]. rewrite A.
    cbn [in_guard] in G. apply (INS a i j Ej). destruct (t_closed t); lia.
  - rewrite tstep_insert_last in H. apply tstep_insert_at in H. destruct H as [j [Ej [_ [_ [_ ->]]]]]. cbn [t_acts]. rewrite A.
    apply (INS a _ j Ej). unfold job_activity_count. rewrite A. unfold total in TL. rewrite A in TL.
    destruct (t_closed t); lia.
  - cbn in H. inversion H; subst. cbn [t_acts]. rewrite A. apply REM.
  - apply tstep_remove_at in H. destruct H as [a [_ [_ ->]]]. cbn [t_acts remove fst]. rewrite A. apply REM.
Qed.

Lemma wftour_step t o t' r : WFTour t -> in_guard t o -> tstep t o = Some (t', r) -> WFTour t'.
Proof. intros [E J] G H. split; [eapply ends_in_place_step|eapply jobs_ok_step]; eauto. Qed.

Lemma wftour_new c : WFTour (tour_new c).
Proof.
  split; [|apply wfweak_new]. exists []. split; auto.
Qed.

Theorem wftour_history : forall c ops t,
  guarded (tour_new c) ops -> trun (tour_new c) ops = Some t -> WFTour t /\ t_closed t = c.
Proof.
  intros c ops t G H. split; [|eapply wfweak_history; eauto].
  revert G H. generalize (wftour_new c). generalize (tour_new c).
  induction ops as [|o ops IH]; intros t0 W G H; cbn in H.
  - inversion H; subst; auto.
  - destruct G as [G0 G]. destruct (tstep t0 o) as [[t1 r]|] eqn:S; [|discriminate].
    apply (IH t1); auto. eapply wftour_step; eauto.
Qed.

(* histories without insert_at (insert_last, remove, remove_activity_at only) are always guarded *)
Definition no_insert_at (o : top) : bool := match o with TInsertAt _ _ => false | _ => true end.
Lemma guarded_no_insert_at ops : forall t, forallb no_insert_at ops = true -> guarded t ops.
Proof.
  induction ops as [|o ops IH]; intros t H; cbn; auto. cbn in H. apply andb_true_iff in H. destruct H as [H0 H].
  split.
  - destruct o; cbn; auto. discriminate.
  - destruct (tstep t o) as [[t' r]|]; auto.
Qed.

(* ---- refinement: the tour IS the list of job activities between the fixed ends *)
Definition abs (t : tour) : list act :=
  let l := tl (t_acts t) in if t_closed t then removelast l else l.

Lemma abs_shape t mid : t_acts t = start_act :: mid ++ ends (t_closed t) -> abs t = mid.
Proof.
  intros A. unfold abs. rewrite A. cbn [tl]. destruct (t_closed t); cbn [ends].
  - apply removelast_last.
  - apply app_nil_r.
Qed.

Definition same_job_out (j : nat) (mid : list act) := filter (fun a => negb (has_same_job a j)) mid.

Definition spec_step (mid : list act) (o : top) : option (list act * nat) :=
  match o with
  | TInsertAt a i =>
      if hasjob a && Nat.leb 1 i && Nat.leb i (length mid + 1) then Some (insert_nth (i - 1) a mid, 0) else None
  | TInsertLast a => if hasjob a then Some (mid ++ [a], 0) else None
  | TRemove j => Some (same_job_out j mid, if existsb (fun a => has_same_job a j) mid then 1 else 0)
  | TRemoveAt i =>
      match i with
      | 0 => None
      | S i' => match nth_error mid i' with
                | Some a => match a_job a with Some j => Some (same_job_out j mid, j) | None => None end
                | None => None
                end
      end
  end.

Definition abs_res (x : option (tour * nat)) : option (list act * nat) :=
  match x with Some (t', r) => Some (abs t', r) | None => None end.

Lemma remove_abs t mid j :
  t_acts t = start_act :: mid ++ ends (t_closed t) -> abs (fst (remove t j)) = same_job_out j mid.
Proof.
  intros A. apply abs_shape. cbn [remove fst t_acts t_closed]. rewrite A. cbn [filter].
  change (has_same_job start_act j) with false. cbn [negb]. rewrite filter_app, filter_ends. reflexivity.
Qed.

Lemma insert_abs t mid a i j :
  t_acts t = start_act :: mid ++ ends (t_closed t) -> i <= length mid ->
  abs (mkTour (insert_nth (S i) a (t_acts t)) (set_add j (t_jobs t)) (t_closed t)) = insert_nth i a mid.
Proof.
  intros A Hi. apply abs_shape. cbn [t_acts t_closed]. rewrite A, insert_nth_cons, insert_nth_app by lia. reflexivity.
Qed.

Lemma mem_jobs_exists t mid j :
  t_acts t = start_act :: mid ++ ends (t_closed t) -> jobs_ok t ->
  set_mem j (t_jobs t) = existsb (fun a => has_same_job a j) mid.
Proof.
  intros A [_ J]. apply eq_true_iff_eq. rewrite set_mem_In, J, existsb_exists. split.
  - intros [a [Ha Ea]]. rewrite A in Ha. cbn in Ha. destruct Ha as [<-|Ha]; [discriminate|].
    apply in_app_iff in Ha. destruct Ha as [Ha|Ha].
    + exists a. split; auto. apply has_same_job_iff; auto.
    + destruct (t_closed t); cbn in Ha; intuition; subst; discriminate.
  - intros [a [Ha Sa]]. exists a. split; [|apply has_same_job_iff; auto]. rewrite A. right. apply in_app_iff; auto.
Qed.

Theorem tour_refines t o : WFTour t -> in_guard t o -> abs_res (tstep t o) = spec_step (abs t) o.
Proof.
  intros [[mid [A F]] J] G. rewrite (abs_shape t mid A).
  assert (LEN : length (t_acts t) = length mid + 1 + (if t_closed t then 1 else 0)).
  { rewrite A. simpl. rewrite app_length, ends_length. lia. }
  assert (NE : t_acts t <> []) by (rewrite A; discriminate).
  assert (INS : forall a i, 1 <= i <= length mid + 1 ->
     abs_res (tstep t (TInsertAt a i)) = if hasjob a then Some (insert_nth (i - 1) a mid, 0) else None).
  { intros a i Hi. cbn [tstep]. unfold insert_at, hasjob. destruct (a_job a) as [j|]; [|reflexivity].
    rewrite match_nonempty by auto.
    replace (Nat.leb i (length (t_acts t))) with true by (symmetry; apply Nat.leb_le; lia).
    destruct i as [|i]; [lia|]. cbn [abs_res]. rewrite (insert_abs t mid) by (auto; lia).
    replace (S i - 1) with i by lia. reflexivity. }
  destruct o as [a i|a|j|i]; cbn [spec_step].
  - cbn [in_guard] in G. unfold total in G.
    assert (Hi : 1 <= i <= length mid + 1) by (destruct (t_closed t); lia).
    rewrite (INS a i Hi).
    replace (Nat.leb 1 i) with true by (symmetry; apply Nat.leb_le; lia).
    replace (Nat.leb i (length mid + 1)) with true by (symmetry; apply Nat.leb_le; lia).
    rewrite !andb_true_r. reflexivity.
  - rewrite tstep_insert_last.
    assert (JC : job_activity_count t + 1 = length mid + 1).
    { unfold job_activity_count. rewrite match_nonempty by auto. destruct (t_closed t); lia. }
    rewrite JC, INS by lia. replace (length mid + 1 - 1) with (length mid) by lia. rewrite insert_nth_end. reflexivity.
  - cbn [tstep]. unfold remove at 1. cbn [abs_res].
    change (mkTour (filter (fun a => negb (has_same_job a j)) (t_acts t)) (set_remove j (t_jobs t)) (t_closed t)) with (fst (remove t j)).
    rewrite (remove_abs t mid j A), (mem_jobs_exists t mid j A J). reflexivity.
  - cbn [tstep]. unfold remove_activity_at. rewrite A. destruct i as [|i]; [reflexivity|]. cbn [nth_error].
    destruct (Nat.lt_ge_cases i (length mid)) as [Hi|Hi].
    + rewrite nth_error_app1 by auto. destruct (nth_error mid i) as [a|] eqn:E; [|reflexivity].
      destruct (a_job a) as [j|]; [|reflexivity]. cbn [abs_res]. rewrite (remove_abs t mid j A). reflexivity.
    + rewrite nth_error_app2 by auto. replace (nth_error mid i) with (@None act) by (symmetry; apply nth_error_None; auto).
      destruct (t_closed t); cbn [ends].
      * destruct (i - length mid) as [|k]; [reflexivity|]. destruct k; reflexivity.
      * destruct (i - length mid); reflexivity.
Qed.

(* the concrete representation is determined by the abstract value *)
Lemma wftour_repr t : WFTour t ->
  t_acts t = start_act :: abs t ++ ends (t_closed t) /\ Forall (fun a => hasjob a = true) (abs t) /\
  NoDup (t_jobs t) /\ (forall j, In j (t_jobs t) <-> exists a, In a (abs t) /\ a_job a = Some j).
Proof.
  intros [[mid [A F]] J]. rewrite (abs_shape t mid A). repeat split; auto; try apply J.
  - intros Hj. apply set_mem_In in Hj. rewrite (mem_jobs_exists t mid j A J) in Hj. apply existsb_exists in Hj.
    destruct Hj as [a [Ha Sa]]. exists a. split; auto. apply has_same_job_iff; auto.
  - intros [a [Ha Ea]]. apply set_mem_In. rewrite (mem_jobs_exists t mid j A J). apply existsb_exists.
    exists a. split; auto. apply has_same_job_iff; auto.
Qed.

(* the unguarded statement is false for the code as written *)
Lemma ends_unguarded_refuted :
  exists ops t, trun (tour_new true) ops = Some t /\ hd_error (t_acts t) <> Some start_act.
Proof.
  exists [TInsertAt (mkAct (Some 0) 2) 0]. eexists. split; [reflexivity|]. cbn. discriminate.
Qed.
Lemma end_unguarded_refuted :
  exists ops t, trun (tour_new true) ops = Some t /\ last (t_acts t) start_act <> end_act.
Proof.
  exists [TInsertAt (mkAct (Some 0) 2) 2]. eexists. split; [reflexivity|]. cbn. discriminate.
Qed.

(* ================================================================== slots: deep copies are independent *)
Lemma set_nth_other {A} (x : A) : forall l k k', k' <> k -> nth_error (set_nth k x l) k' = nth_error l k'.
Proof.
  induction l as [|y l IH]; intros k k' N; [destruct k; reflexivity|].
  destruct k, k'; cbn; auto; try congruence.
Qed.
Lemma set_nth_same {A} (x : A) : forall l k, k < length l -> nth_error (set_nth k x l) k = Some x.
Proof.
  induction l as [|y l IH]; intros k H; [simpl in H; lia|]. destruct k; cbn; auto. apply IH. simpl in H. lia.
Qed.
Lemma set_nth_Forall {A} (P : A -> Prop) (x : A) : forall l k, Forall P l -> P x -> Forall P (set_nth k x l).
Proof.
  induction l as [|y l IH]; intros k F Px; [destruct k; constructor|].
  inversion F; subst. destruct k; cbn; constructor; auto.
Qed.

Lemma sstep_frame ss o ss' r k :
  sstep ss o = Some (ss', r, k) -> forall k', k' <> k -> k' < length ss -> nth_error ss' k' = nth_error ss k'.
Proof.
  intros H k' N L. destruct o as [k0 o|k0 mode|k0 v|k0 w j]; cbn in H; destruct (nth_error ss k0) as [s|]; try discriminate.
  - destruct (tstep (s_tour s) o) as [[t' r']|]; [|discriminate]. inversion H; subst. apply set_nth_other; auto.
  - inversion H; subst. apply nth_error_app1; auto.
  - inversion H; subst. apply set_nth_other; auto.
  - inversion H; subst. reflexivity.
Qed.
Lemma sstep_copy ss k mode ss' r n :
  sstep ss (SCopy k mode) = Some (ss', r, n) ->
  n = length ss /\ exists s s', nth_error ss k = Some s /\ nth_error ss' n = Some s' /\ s_tour s' = s_tour s /\
                                (mode = 2 -> s_state s' = s_state s).
Proof.
  cbn. destruct (nth_error ss k) as [s|] eqn:E; [|discriminate]. intros H; inversion H; subst. split; auto.
  exists s. eexists. split; auto. split.
  - rewrite nth_error_app2, Nat.sub_diag by auto. reflexivity.
  - split; auto. cbn. intros ->. reflexivity.
Qed.
Lemma sstep_wf ss o ss' r k :
  Forall (fun s => WFweak (s_tour s)) ss -> sstep ss o = Some (ss', r, k) -> Forall (fun s => WFweak (s_tour s)) ss'.
Proof.
  intros F H. destruct o as [k0 o|k0 mode|k0 v|k0 w j]; cbn in H; destruct (nth_error ss k0) as [s|] eqn:E; try discriminate;
    [| | |inversion H; subst; auto].
  - destruct (tstep (s_tour s) o) as [[t' r']|] eqn:S; [|discriminate]. inversion H; subst.
    apply set_nth_Forall; auto. cbn. eapply wfweak_step; eauto.
    rewrite Forall_forall in F. apply F. eapply nth_error_In; eauto.
  - inversion H; subst. apply Forall_app. split; auto. constructor; auto. cbn.
    rewrite Forall_forall in F. apply F. eapply nth_error_In; eauto.
  - inversion H; subst. apply set_nth_Forall; auto. cbn. rewrite Forall_forall in F. apply F. eapply nth_error_In; eauto.
Qed.

(* ================================================================== registry *)
Ltac eqb_cases :=
  repeat match goal with
         | |- context [Nat.eqb ?a ?b] =>
             let E := fresh "E" in destruct (Nat.eqb a b) eqn:E; [apply Nat.eqb_eq in E|apply Nat.eqb_neq in E]
         end; subst; try congruence.

Lemma lookup_upd {V} k k' (v : V) m :
  lookup k' (upd k v m) = if Nat.eqb k' k then (match lookup k m with Some _ => Some v | None => None end) else lookup k' m.
Proof.
  induction m as [|[k0 v0] m IH]; cbn.
  - destruct (Nat.eqb k' k); reflexivity.
  - destruct (Nat.eqb k0 k) eqn:E0; cbn.
    + apply Nat.eqb_eq in E0. subst. eqb_cases.
    + apply Nat.eqb_neq in E0. rewrite IH. eqb_cases.
Qed.
Lemma map_fst_upd {V} k (v : V) m : map fst (upd k v m) = map fst m.
Proof. induction m as [|[k0 v0] m IH]; cbn; auto. destruct (Nat.eqb k0 k); cbn; congruence. Qed.
Lemma lookup_in_keys {V} k (v : V) m : lookup k m = Some v -> In k (map fst m).
Proof.
  induction m as [|[k0 v0] m IH]; cbn; [discriminate|]. destruct (Nat.eqb k0 k) eqn:E; auto.
  apply Nat.eqb_eq in E. auto.
Qed.
Lemma lookup_not_in_keys {V} k (m : list (nat * V)) : lookup k m = None -> ~ In k (map fst m).
Proof.
  induction m as [|[k0 v0] m IH]; cbn; auto. destruct (Nat.eqb k0 k) eqn:E; [discriminate|].
  apply Nat.eqb_neq in E. intros H [H1|H1]; auto. apply IH; auto.
Qed.
Lemma lookup_In {V} k (v : V) m : NoDup (map fst m) -> (In (k, v) m <-> lookup k m = Some v).
Proof.
  induction m as [|[k0 v0] m IH]; cbn; intros ND; [split; [tauto|discriminate]|].
  inversion ND; subst. destruct (Nat.eqb k0 k) eqn:E.
  - apply Nat.eqb_eq in E. subst. split.
    + intros [H|H]; [congruence|]. exfalso. apply H1. apply (in_map fst) in H. auto.
    + intros H; inversion H; auto.
  - apply Nat.eqb_neq in E. rewrite <- IH by auto. split; [intros [H|H]; [congruence|auto]|auto].
Qed.
Lemma lookup_app {V} k (m1 m2 : list (nat * V)) :
  lookup k (m1 ++ m2) = match lookup k m1 with Some v => Some v | None => lookup k m2 end.
Proof. induction m1 as [|[k0 v0] m IH]; cbn; auto. destruct (Nat.eqb k0 k); auto. Qed.
Lemma lookup_filter_key {V} (keep : nat -> bool) (m : list (nat * V)) k :
  lookup k (filter (fun kv => keep (fst kv)) m) = if keep k then lookup k m else None.
Proof.
  induction m as [|[k0 v0] m IH]; cbn.
  - destruct (keep k); reflexivity.
  - destruct (keep k0) eqn:K0; cbn; destruct (Nat.eqb k0 k) eqn:E; auto.
    + apply Nat.eqb_eq in E. subst. rewrite K0. reflexivity.
    + apply Nat.eqb_eq in E. subst. rewrite IH, K0. reflexivity.
Qed.
Lemma lookup_map_val {V W} (f : V -> W) (m : list (nat * V)) k :
  lookup k (map (fun kv => (fst kv, f (snd kv))) m) = option_map f (lookup k m).
Proof. induction m as [|[k0 v0] m IH]; cbn; auto. destruct (Nat.eqb k0 k); auto. Qed.
Lemma map_fst_map_val {V W} (f : V -> W) (m : list (nat * V)) :
  map fst (map (fun kv => (fst kv, f (snd kv))) m) = map fst m.
Proof. induction m as [|[k0 v0] m IH]; cbn; congruence. Qed.

Lemma set_mem_remove x a s : set_mem x (set_remove a s) = set_mem x s && negb (Nat.eqb x a).
Proof.
  apply eq_true_iff_eq. rewrite andb_true_iff, negb_true_iff, Nat.eqb_neq, !set_mem_In, set_remove_In. tauto.
Qed.
Lemma set_mem_filter x keep s : set_mem x (filter keep s) = set_mem x s && keep x.
Proof. apply eq_true_iff_eq. rewrite andb_true_iff, !set_mem_In, filter_In. tauto. Qed.
Lemma set_mem_cons x a s : set_mem x (a :: s) = Nat.eqb x a || set_mem x s.
Proof. reflexivity. Qed.

(* abstraction: the registry is the pair (known actors, free actors) *)
Definition known (r : reg) (a : nat) : bool := match lookup a (r_index r) with Some _ => true | None => false end.
Definition availb (r : reg) (a : nat) : bool :=
  match lookup a (r_index r) with
  | Some g => match lookup g (r_avail r) with Some s => set_mem a s | None => false end
  | None => false
  end.

Definition WFReg (r : reg) : Prop :=
  NoDup (map fst (r_avail r)) /\
  (forall g s, lookup g (r_avail r) = Some s -> NoDup s /\ forall a, In a s -> lookup a (r_index r) = Some g) /\
  (forall a g, lookup a (r_index r) = Some g -> lookup g (r_avail r) <> None) /\
  (forall a, In a (r_all r) <-> known r a = true).

Lemma available_iff r a : WFReg r -> (In a (available r) <-> availb r a = true).
Proof.
  intros [ND [W2 _]]. unfold available. rewrite in_flat_map. split.
  - intros [[g s] [Hin Ha]]. cbn in Ha. apply lookup_In in Hin; auto. destruct (W2 g s Hin) as [_ Hidx].
    unfold availb. rewrite (Hidx a Ha), Hin. apply set_mem_In; auto.
  - unfold availb. destruct (lookup a (r_index r)) as [g|]; [|discriminate].
    destruct (lookup g (r_avail r)) as [s|] eqn:E; [|discriminate]. intros H. exists (g, s). split.
    + apply lookup_In; auto.
    + apply set_mem_In; auto.
Qed.
Lemma availb_known r a : availb r a = true -> known r a = true.
Proof. unfold availb, known. destruct (lookup a (r_index r)); auto. Qed.
Lemma available_NoDup_member r a : WFReg r -> In a (available r) -> In a (r_all r).
Proof. intros W H. apply W. apply availb_known. apply available_iff; auto. Qed.

Lemma use_actor_spec r a r' b :
  WFReg r -> use_actor r a = (r', b) ->
  WFReg r' /\ b = availb r a /\ (forall x, availb r' x = availb r x && negb (b && Nat.eqb x a)) /\
  r_index r' = r_index r /\ r_all r' = r_all r.
Proof.
  intros W H. pose proof W as [ND [W2 [W3 W4]]]. unfold use_actor in H. unfold availb at 1.
  assert (SAME : forall x, availb r x = availb r x && negb (false && Nat.eqb x a)) by (intros; cbn; rewrite andb_true_r; auto).
  destruct (lookup a (r_index r)) as [g|] eqn:Ei; [|inversion H; subst; auto 6].
  destruct (lookup g (r_avail r)) as [s|] eqn:Eg; [|inversion H; subst; auto 6].
  destruct (set_mem a s) eqn:Em; [|inversion H; subst; auto 6].
  inversion H; subst; clear H. destruct (W2 g s Eg) as [NDs Hs].
  split; [|split; [auto|split; [|auto]]].
  - unfold WFReg, known. cbn [r_avail r_index r_all]. rewrite map_fst_upd. repeat split; auto.
    + rewrite lookup_upd, Eg in H. destruct (Nat.eqb g0 g) eqn:E.
      * inversion H; subst. apply set_remove_NoDup; auto.
      * apply (W2 g0 s0 H).
    + intros x Hx. rewrite lookup_upd, Eg in H. destruct (Nat.eqb g0 g) eqn:E.
      * apply Nat.eqb_eq in E. inversion H; subst. apply set_remove_In in Hx. apply Hs. tauto.
      * apply (W2 g0 s0 H); auto.
    + intros x gx Hx. rewrite lookup_upd, Eg. destruct (Nat.eqb gx g); [discriminate|]. apply (W3 x gx Hx).
    + apply W4.
    + apply W4.
  - intros x. unfold availb. cbn [r_avail r_index]. destruct (lookup x (r_index r)) as [gx|] eqn:Ex; [|reflexivity].
    rewrite lookup_upd, Eg. cbn [andb]. destruct (Nat.eqb gx g) eqn:E.
    + apply Nat.eqb_eq in E. subst. rewrite Eg. apply set_mem_remove.
    + apply Nat.eqb_neq in E. destruct (Nat.eqb x a) eqn:Ea.
      * apply Nat.eqb_eq in Ea. subst. congruence.
      * cbn. rewrite andb_true_r. reflexivity.
Qed.

Lemma free_actor_spec r a r' b :
  WFReg r -> free_actor r a = (r', b) ->
  WFReg r' /\ b = known r a && negb (availb r a) /\ (forall x, availb r' x = availb r x || (b && Nat.eqb x a)) /\
  r_index r' = r_index r /\ r_all r' = r_all r.
Proof.
  intros W H. pose proof W as [ND [W2 [W3 W4]]]. unfold free_actor in H. unfold availb at 1, known at 1.
  assert (SAME : forall x, availb r x = availb r x || (false && Nat.eqb x a)) by (intros; cbn; rewrite orb_false_r; auto).
  destruct (lookup a (r_index r)) as [g|] eqn:Ei; [|inversion H; subst; auto 6].
  destruct (lookup g (r_avail r)) as [s|] eqn:Eg; [|exfalso; apply (W3 a g Ei Eg)].
  destruct (set_mem a s) eqn:Em; [inversion H; subst; auto 6|].
  inversion H; subst; clear H. destruct (W2 g s Eg) as [NDs Hs].
  split; [|split; [auto|split; [|auto]]].
  - unfold WFReg, known. cbn [r_avail r_index r_all]. rewrite map_fst_upd. repeat split; auto.
    + rewrite lookup_upd, Eg in H. destruct (Nat.eqb g0 g) eqn:E.
      * inversion H; subst. constructor; auto. apply set_mem_false; auto.
      * apply (W2 g0 s0 H).
    + intros x Hx. rewrite lookup_upd, Eg in H. destruct (Nat.eqb g0 g) eqn:E.
      * apply Nat.eqb_eq in E. inversion H; subst. destruct Hx as [<-|Hx]; auto.
      * apply (W2 g0 s0 H); auto.
    + intros x gx Hx. rewrite lookup_upd, Eg. destruct (Nat.eqb gx g); [discriminate|]. apply (W3 x gx Hx).
    + apply W4.
    + apply W4.
  - intros x. unfold availb. cbn [r_avail r_index]. cbn [andb]. destruct (lookup x (r_index r)) as [gx|] eqn:Ex.
    + rewrite lookup_upd, Eg. destruct (Nat.eqb gx g) eqn:E.
      * apply Nat.eqb_eq in E. subst. rewrite Eg, set_mem_cons. apply orb_comm.
      * apply Nat.eqb_neq in E. destruct (Nat.eqb x a) eqn:Ea.
        -- apply Nat.eqb_eq in Ea. subst. congruence.
        -- rewrite orb_false_r. reflexivity.
    + destruct (Nat.eqb x a) eqn:Ea; auto. apply Nat.eqb_eq in Ea. subst. congruence.
Qed.

Lemma deep_slice_spec r keep :
  WFReg r ->
  WFReg (deep_slice r keep) /\ (forall x, availb (deep_slice r keep) x = availb r x && keep x) /\
  (forall x, known (deep_slice r keep) x = known r x && keep x) /\ r_all (deep_slice r keep) = filter keep (r_all r).
Proof.
  intros [ND [W2 [W3 W4]]].
  assert (K : forall x, known (deep_slice r keep) x = known r x && keep x).
  { intros x. unfold known. cbn [deep_slice r_index]. rewrite lookup_filter_key. destruct (keep x); [|rewrite andb_false_r; auto].
    rewrite andb_true_r. reflexivity. }
  split; [|split; [|split; auto]].
  - unfold WFReg. cbn [deep_slice r_avail r_index r_all]. rewrite map_fst_map_val. repeat split; auto.
    + rewrite lookup_map_val in H. destruct (lookup g (r_avail r)) as [s0|] eqn:E; [|discriminate]. inversion H; subst.
      apply NoDup_filter. apply (W2 g s0 E).
    + intros a Ha. rewrite lookup_map_val in H. destruct (lookup g (r_avail r)) as [s0|] eqn:E; [|discriminate]. inversion H; subst.
      apply filter_In in Ha. destruct Ha as [Ha Ka]. rewrite lookup_filter_key, Ka. apply (W2 g s0 E); auto.
    + intros a g Ha. rewrite lookup_filter_key in Ha. destruct (keep a); [|discriminate].
      rewrite lookup_map_val. specialize (W3 a g Ha). destruct (lookup g (r_avail r)); [discriminate|congruence].
    + intros Ha. apply filter_In in Ha. destruct Ha as [Ha Ka]. rewrite K, Ka, andb_true_r. apply W4; auto.
    + intros Ha. rewrite K in Ha. apply andb_true_iff in Ha. apply filter_In. split; [apply W4|]; tauto.
  - intros x. unfold availb. cbn [deep_slice r_avail r_index]. rewrite lookup_filter_key.
    destruct (keep x) eqn:Kx; [|rewrite andb_false_r; auto]. rewrite andb_true_r.
    destruct (lookup x (r_index r)) as [g|]; auto. rewrite lookup_map_val.
    destruct (lookup g (r_avail r)) as [s|]; auto. cbn. rewrite set_mem_filter, Kx, andb_true_r. reflexivity.
Qed.

(* ---- Registry::new on the groups built by Fleet::new *)
Lemma NoDup_app_one {A} (l : list A) x : NoDup l -> ~ In x l -> NoDup (l ++ [x]).
Proof.
  induction l as [|y l IH]; intros ND N; cbn.
  - constructor; [intros []|constructor].
  - inversion ND; subst. constructor.
    + rewrite in_app_iff. cbn. intros [H|[H|[]]]; auto. subst. apply N; left; auto.
    + apply IH; auto. intros H; apply N; right; auto.
Qed.
Definition GInv (m : list (nat * list nat)) (n : nat) : Prop :=
  NoDup (map fst m) /\
  (forall g s, lookup g m = Some s -> NoDup s /\ forall a, In a s -> a < n) /\
  (forall a, a < n -> exists g s, lookup g m = Some s /\ In a s) /\
  (forall a g1 s1 g2 s2, lookup g1 m = Some s1 -> In a s1 -> lookup g2 m = Some s2 -> In a s2 -> g1 = g2).

Lemma group_add_inv g n m : GInv m n -> GInv (group_add g n m) (S n).
Proof.
  intros [ND [G2 [G3 G4]]]. unfold group_add. destruct (lookup g m) as [s|] eqn:Eg.
  - assert (LK : forall g', lookup g' (upd g (set_add n s) m) = if Nat.eqb g' g then Some (set_add n s) else lookup g' m).
    { intros g'. rewrite lookup_upd, Eg. reflexivity. }
    destruct (G2 g s Eg) as [NDs Ls].
    unfold GInv. rewrite map_fst_upd. split; auto. split; [|split].
    + intros g' s' H. rewrite LK in H. destruct (Nat.eqb g' g) eqn:E.
      * inversion H; subst. split; [apply set_add_NoDup; auto|].
        intros a Ha. apply set_add_In in Ha. destruct Ha as [->|Ha]; [lia|]. specialize (Ls a Ha). lia.
      * destruct (G2 g' s' H) as [N L]. split; auto. intros a Ha. specialize (L a Ha). lia.
    + intros a Ha. destruct (Nat.eq_dec a n) as [->|Na].
      * exists g, (set_add n s). rewrite LK, Nat.eqb_refl. split; auto. apply set_add_In; auto.
      * destruct (G3 a) as [g0 [s0 [L0 I0]]]; [lia|]. destruct (Nat.eqb g0 g) eqn:E.
        -- apply Nat.eqb_eq in E. subst. exists g, (set_add n s). rewrite LK, Nat.eqb_refl. split; auto.
           apply set_add_In. right. congruence.
        -- exists g0, s0. rewrite LK, E. auto.
    + intros a g1 s1 g2 s2 H1 I1 H2 I2. rewrite LK in H1, H2.
      destruct (Nat.eqb g1 g) eqn:E1, (Nat.eqb g2 g) eqn:E2.
      * apply Nat.eqb_eq in E1, E2. congruence.
      * apply Nat.eqb_eq in E1. subst. inversion H1; subst. apply set_add_In in I1. destruct I1 as [->|I1].
        -- destruct (G2 g2 s2 H2) as [_ L]. specialize (L n I2). lia.
        -- apply (G4 a g s g2 s2); auto.
      * apply Nat.eqb_eq in E2. subst. inversion H2; subst. apply set_add_In in I2. destruct I2 as [->|I2].
        -- destruct (G2 g1 s1 H1) as [_ L]. specialize (L n I1). lia.
        -- apply (G4 a g1 s1 g s); auto.
      * apply (G4 a g1 s1 g2 s2); auto.
  - assert (LK : forall g', lookup g' (m ++ [(g, [n])]) =
                          match lookup g' m with Some s => Some s | None => if Nat.eqb g g' then Some [n] else None end).
    { intros g'. rewrite lookup_app. reflexivity. }
    unfold GInv. split; [|split; [|split]].
    + rewrite map_app. cbn. apply NoDup_app_one; auto. apply lookup_not_in_keys; auto.
    + intros g' s' H. rewrite LK in H. destruct (lookup g' m) as [s0|] eqn:E0.
      * inversion H; subst. destruct (G2 g' s' E0) as [N L]. split; auto. intros a Ha. specialize (L a Ha). lia.
      * destruct (Nat.eqb g g'); [|discriminate]. inversion H; subst. split.
        -- constructor; [intros []|constructor].
        -- intros a [<-|[]]. lia.
    + intros a Ha. destruct (Nat.eq_dec a n) as [->|Na].
      * exists g, [n]. rewrite LK, Eg, Nat.eqb_refl. split; auto. left; auto.
      * destruct (G3 a) as [g0 [s0 [L0 I0]]]; [lia|]. exists g0, s0. rewrite LK, L0. auto.
    + intros a g1 s1 g2 s2 H1 I1 H2 I2. rewrite LK in H1, H2.
      destruct (lookup g1 m) as [t1|] eqn:E1, (lookup g2 m) as [t2|] eqn:E2.
      * inversion H1; inversion H2; subst. apply (G4 a g1 s1 g2 s2); auto.
      * inversion H1; subst. destruct (Nat.eqb g g2); [|discriminate]. inversion H2; subst.
        destruct I2 as [<-|[]]. destruct (G2 g1 s1 E1) as [_ L]. specialize (L n I1). lia.
      * inversion H2; subst. destruct (Nat.eqb g g1); [|discriminate]. inversion H1; subst.
        destruct I1 as [<-|[]]. destruct (G2 g2 s2 E2) as [_ L]. specialize (L n I2). lia.
      * destruct (Nat.eqb g g1) eqn:F1; [|discriminate]. destruct (Nat.eqb g g2) eqn:F2; [|discriminate].
        apply Nat.eqb_eq in F1, F2. congruence.
Qed.

Lemma fleet_groups_inv gs : forall a m, GInv m a -> GInv (fleet_groups a gs m) (a + length gs).
Proof.
  induction gs as [|g gs IH]; intros a m G; cbn.
  - rewrite Nat.add_0_r. auto.
  - replace (a + S (length gs)) with (S a + length gs) by lia. apply IH. apply group_add_inv; auto.
Qed.
Lemma GInv_nil : GInv [] 0.
Proof.
  unfold GInv. cbn. split; [constructor|]. split; [discriminate|]. split; [intros; lia|discriminate].
Qed.

Definition idx_of (m : list (nat * list nat)) : list (nat * nat) :=
  flat_map (fun gs' => map (fun a => (a, fst gs')) (snd gs')) m.
Lemma lookup_const_map (a g : nat) (s : list nat) : lookup a (map (fun x => (x, g)) s) = if set_mem a s then Some g else None.
Proof.
  induction s as [|x s IH]; cbn; auto. rewrite IH. rewrite (Nat.eqb_sym x a). destruct (Nat.eqb a x); reflexivity.
Qed.
Lemma idx_of_sound m a g : lookup a (idx_of m) = Some g -> exists s, In (g, s) m /\ In a s.
Proof.
  induction m as [|[g0 s0] m IH]; cbn; [discriminate|]. rewrite lookup_app, lookup_const_map.
  destruct (set_mem a s0) eqn:E.
  - intros H; inversion H; subst. exists s0. split; auto. apply set_mem_In; auto.
  - intros H. destruct (IH H) as [s [Hi Ha]]. exists s; auto.
Qed.
Lemma idx_of_complete m a g s : In (g, s) m -> In a s -> lookup a (idx_of m) <> None.
Proof.
  induction m as [|[g0 s0] m IH]; cbn; [tauto|]. rewrite lookup_app, lookup_const_map.
  intros [H|H] Ha.
  - inversion H; subst. apply set_mem_In in Ha. rewrite Ha. discriminate.
  - destruct (set_mem a s0); [discriminate|]. apply IH; auto.
Qed.

Lemma reg_new_groups gs : GInv (r_avail (reg_new gs)) (length gs).
Proof. apply (fleet_groups_inv gs 0 []). apply GInv_nil. Qed.

Lemma reg_new_index gs g s a :
  lookup g (r_avail (reg_new gs)) = Some s -> In a s -> lookup a (r_index (reg_new gs)) = Some g.
Proof.
  pose proof (reg_new_groups gs) as [ND [G2 [G3 G4]]]. intros Hg Ha.
  change (r_index (reg_new gs)) with (idx_of (r_avail (reg_new gs))).
  destruct (lookup a (idx_of (r_avail (reg_new gs)))) as [g'|] eqn:E.
  - destruct (idx_of_sound _ _ _ E) as [s' [Hi Ha']]. apply lookup_In in Hi; auto.
    f_equal. apply (G4 a g' s' g s); auto.
  - exfalso. apply lookup_In in Hg; auto. apply (idx_of_complete _ a g s Hg Ha E).
Qed.

Lemma reg_new_wf gs : WFReg (reg_new gs).
Proof.
  pose proof (reg_new_groups gs) as G. pose proof G as [ND [G2 [G3 G4]]]. unfold WFReg. split; auto. split; [|split].
  - intros g s H. split; [apply (G2 g s H)|]. intros a Ha. apply (reg_new_index gs g s a); auto.
  - intros a g H. change (r_index (reg_new gs)) with (idx_of (r_avail (reg_new gs))) in H.
    destruct (idx_of_sound _ _ _ H) as [s [Hi _]]. apply lookup_In in Hi; auto. congruence.
  - intros a. change (r_all (reg_new gs)) with (seq 0 (length gs)). rewrite in_seq. unfold known. split.
    + intros [_ Ha]. destruct (G3 a Ha) as [g [s [Hg Hs]]]. rewrite (reg_new_index gs g s a); auto.
    + destruct (lookup a (r_index (reg_new gs))) as [g|] eqn:E; [|discriminate]. intros _.
      change (r_index (reg_new gs)) with (idx_of (r_avail (reg_new gs))) in E.
      destruct (idx_of_sound _ _ _ E) as [s [Hi Ha]]. apply lookup_In in Hi; auto.
      destruct (G2 g s Hi) as [_ L]. specialize (L a Ha). lia.
Qed.

Lemma reg_new_all_free gs a : availb (reg_new gs) a = Nat.ltb a (length gs) /\ known (reg_new gs) a = Nat.ltb a (length gs).
Proof.
  pose proof (reg_new_wf gs) as W. pose proof (reg_new_groups gs) as [ND [G2 [G3 G4]]].
  destruct (Nat.ltb a (length gs)) eqn:L.
  - apply Nat.ltb_lt in L. destruct (G3 a L) as [g [s [Hg Hs]]]. unfold availb, known.
    rewrite (reg_new_index gs g s a Hg Hs), Hg. split; auto. apply set_mem_In; auto.
  - apply Nat.ltb_ge in L. assert (K : known (reg_new gs) a = false).
    { destruct (known (reg_new gs) a) eqn:K; auto. apply W in K.
      change (r_all (reg_new gs)) with (seq 0 (length gs)) in K. apply in_seq in K. lia. }
    split; auto. destruct (availb (reg_new gs) a) eqn:A; auto. apply availb_known in A. congruence.
Qed.

(* ---- next(): only available actors are offered, one per non-empty group *)
Lemma next_with_sound m : forall picks x, In x (next_with picks m) -> In x (flat_map snd m).
Proof.
  induction m as [|[g s] m IH]; intros picks x H; cbn [next_with flat_map snd] in *; [contradiction|].
  apply in_app_iff. destruct (Nat.ltb (length s) 2).
  - apply in_app_iff in H. destruct H as [H|H]; [left|right; eauto].
    destruct s; cbn in H; [contradiction|]. destruct H as [<-|[]]. left; auto.
  - destruct picks as [|p ps]; apply in_app_iff in H; destruct H as [H|H]; try (right; eauto; fail); left.
    + destruct s; cbn in H; [contradiction|]. destruct H as [<-|[]]. left; auto.
    + assert (In x (skipn p s)). { destruct (skipn p s); cbn in H; [contradiction|]. destruct H as [<-|[]]. left; auto. }
      rewrite <- (firstn_skipn p s). apply in_app_iff; auto.
Qed.
Fixpoint picks_ok (picks : list nat) (m : list (nat * list nat)) : Prop :=
  match m with
  | [] => True
  | (_, s) :: r => if Nat.ltb (length s) 2 then picks_ok picks r
                   else match picks with p :: ps => p < length s /\ picks_ok ps r | [] => picks_ok [] r end
  end.
Definition nonempty_groups (m : list (nat * list nat)) : nat :=
  length (filter (fun gs => negb (Nat.eqb (length (snd gs)) 0)) m).
Lemma next_with_complete m : forall picks, picks_ok picks m -> length (next_with picks m) = nonempty_groups m.
Proof.
  unfold nonempty_groups. induction m as [|[g s] m IH]; intros picks H; cbn [next_with picks_ok filter snd] in *; auto.
  destruct (Nat.ltb (length s) 2) eqn:L.
  - rewrite app_length, (IH picks H). destruct s as [|x [|y s]]; cbn in *; auto; discriminate.
  - apply Nat.ltb_ge in L. replace (Nat.eqb (length s) 0) with false by (symmetry; apply Nat.eqb_neq; lia). cbn [negb length].
    destruct picks as [|p ps].
    + rewrite app_length, (IH [] H). destruct s; cbn in *; [lia|reflexivity].
    + destruct H as [Hp H]. rewrite app_length, (IH ps H), firstn_length, skipn_length. lia.
Qed.

(* ---- registry context and histories *)
Definition WFctx (c : rctx) : Prop := WFReg (c_reg c) /\ forall x, set_mem x (c_idx c) = known (c_reg c) x.

Lemma rctx_new_wf gs : WFctx (rctx_new gs).
Proof.
  split; [apply reg_new_wf|]. intros x. unfold rctx_new. cbn [c_idx c_reg]. apply eq_true_iff_eq. rewrite set_mem_In. apply (reg_new_wf gs).
Qed.

Lemma get_route_spec c a c' b :
  WFctx c -> get_route c a = (c', b) -> exists r', use_actor (c_reg c) a = (r', b) /\ c' = mkRctx r' (c_idx c).
Proof.
  intros [W I] H. unfold get_route in H. destruct (use_actor (c_reg c) a) as [r' b'] eqn:U.
  inversion H; subst. exists r'. split; auto. f_equal.
  destruct (use_actor_spec _ _ _ _ W U) as [_ [-> _]]. destruct (availb (c_reg c) a) eqn:A; auto.
  rewrite I, (availb_known _ _ A). reflexivity.
Qed.

Inductive hop := HOp (o : rop) | HSlice (keep : list nat).
Definition hstep (c : rctx) (h : hop) : rctx * bool :=
  match h with
  | HOp o => rstep c o
  | HSlice keep => (ctx_slice c (fun a => set_mem a keep), false)
  end.
Fixpoint hrun (c : rctx) (hs : list hop) : rctx * list (hop * bool) :=
  match hs with
  | [] => (c, [])
  | h :: r => let '(c', b) := hstep c h in let '(c'', tr) := hrun c' r in (c'', (h, b) :: tr)
  end.

Definition acquires (h : hop) (a : nat) : bool :=
  match h with HOp (RUse x) => Nat.eqb x a | HOp (RGet x) => Nat.eqb x a | _ => false end.
Definition releases (h : hop) (a : nat) : bool :=
  match h with HOp (RFree x) => Nat.eqb x a | _ => false end.
Definition held_next (a : nat) (held : bool) (hb : hop * bool) : bool :=
  if snd hb && acquires (fst hb) a then true else if snd hb && releases (fst hb) a then false else held.
Fixpoint held_after (a : nat) (held : bool) (tr : list (hop * bool)) : bool :=
  match tr with [] => held | hb :: r => held_after a (held_next a held hb) r end.
(* every successful acquisition of a happens while a is not held, every successful release while it is held *)
Fixpoint alternating (a : nat) (held : bool) (tr : list (hop * bool)) : Prop :=
  match tr with
  | [] => True
  | hb :: r => (snd hb && acquires (fst hb) a = true -> held = false) /\
               (snd hb && releases (fst hb) a = true -> held = true) /\
               alternating a (held_next a held hb) r
  end.

Definition CInv (c : rctx) (a : nat) (held : bool) : Prop :=
  WFctx c /\ availb (c_reg c) a = known (c_reg c) a && negb held.

Lemma known_same r r' x : r_index r' = r_index r -> known r' x = known r x.
Proof. unfold known. intros ->. reflexivity. Qed.

Lemma hstep_inv c h c' b a held :
  CInv c a held -> hstep c h = (c', b) ->
  CInv c' a (held_next a held (h, b)) /\
  (b && acquires h a = true -> held = false) /\ (b && releases h a = true -> held = true).
Proof.
  intros [[W I] A] H. unfold held_next. cbn [fst snd].
  assert (USE : forall x r', use_actor (c_reg c) x = (r', b) ->
     CInv (mkRctx r' (c_idx c)) a (if b && Nat.eqb x a then true else held) /\ (b && Nat.eqb x a = true -> held = false)).
  { intros x r' U. destruct (use_actor_spec _ _ _ _ W U) as [W' [Eb [Av [Ei Ea]]]].
    assert (K : forall y, known r' y = known (c_reg c) y) by (intros; apply known_same; auto).
    unfold CInv, WFctx. cbn [c_reg c_idx]. rewrite Av, K, A, (Nat.eqb_sym a x).
    split; [split; [split; auto; intros y; rewrite K; auto|]|].
    - destruct (b && Nat.eqb x a) eqn:E; cbn.
      + rewrite !andb_false_r. reflexivity.
      + rewrite andb_true_r. reflexivity.
    - intros E. apply andb_true_iff in E. destruct E as [-> E]. apply Nat.eqb_eq in E. subst x.
      rewrite A in Eb. symmetry in Eb. apply andb_true_iff in Eb. destruct held; cbn in Eb; intuition congruence. }
  destruct h as [[x|x|x|]|keep]; cbn [hstep rstep acquires releases] in *.
  - destruct (use_actor (c_reg c) x) as [r' b'] eqn:U. inversion H; subst. destruct (USE x r' U) as [C N].
    rewrite andb_false_r. split; auto. split; auto. discriminate.
  - destruct (free_actor (c_reg c) x) as [r' b'] eqn:U. inversion H; subst. rewrite andb_false_r.
    destruct (free_actor_spec _ _ _ _ W U) as [W' [Eb [Av [Ei Ea]]]].
    assert (K : forall y, known r' y = known (c_reg c) y) by (intros; apply known_same; auto).
    split; [|split; [discriminate|]].
    + unfold CInv, WFctx. cbn [c_reg c_idx]. rewrite Av, K, A, (Nat.eqb_sym a x). split; [split; auto; intros y; rewrite K; auto|].
      destruct (b && Nat.eqb x a) eqn:E; cbn.
      * apply andb_true_iff in E. destruct E as [-> E]. apply Nat.eqb_eq in E. subst x.
        symmetry in Eb. apply andb_true_iff in Eb. destruct Eb as [-> _]. rewrite orb_true_r. reflexivity.
      * rewrite orb_false_r. reflexivity.
    + intros E. apply andb_true_iff in E. destruct E as [-> E]. apply Nat.eqb_eq in E. subst x.
      symmetry in Eb. apply andb_true_iff in Eb. destruct Eb as [Kn Nv]. rewrite A, Kn in Nv. destruct held; auto.
  - destruct (get_route_spec c x c' b (conj W I) H) as [r' [U ->]]. destruct (USE x r' U) as [C N].
    rewrite andb_false_r. split; auto. split; auto. discriminate.
  - inversion H; subst. cbn. split; [split; [split|]; auto|split; discriminate].
  - inversion H; subst. cbn. split; [|split; discriminate].
    destruct (deep_slice_spec (c_reg c) (fun a => set_mem a keep) W) as [W' [Av [Kn _]]].
    unfold CInv, WFctx, ctx_slice. cbn [c_reg c_idx]. split; [split; auto|].
    + intros y. rewrite Kn, set_mem_filter, I. reflexivity.
    + rewrite Av, Kn, A. destruct (known (c_reg c) a), held, (set_mem a keep); reflexivity.
Qed.

Lemma hrun_inv hs : forall c c' tr a held,
  CInv c a held -> hrun c hs = (c', tr) -> CInv c' a (held_after a held tr) /\ alternating a held tr.
Proof.
  induction hs as [|h hs IH]; intros c c' tr a held C H; cbn in H.
  - inversion H; subst. cbn. auto.
  - destruct (hstep c h) as [c1 b] eqn:S. destruct (hrun c1 hs) as [c2 tr2] eqn:R. inversion H; subst.
    destruct (hstep_inv _ _ _ _ _ _ C S) as [C1 [N1 N2]]. destruct (IH _ _ _ _ _ C1 R) as [C2 AL].
    cbn [held_after alternating fst snd]. auto.
Qed.

Theorem registry_history gs hs c tr a :
  hrun (rctx_new gs) hs = (c, tr) ->
  WFReg (c_reg c) /\ alternating a false tr /\
  (In a (available (c_reg c)) <-> In a (r_all (c_reg c)) /\ held_after a false tr = false).
Proof.
  intros H. assert (C0 : CInv (rctx_new gs) a false).
  { split; [apply rctx_new_wf|]. cbn [rctx_new c_reg]. destruct (reg_new_all_free gs a) as [-> ->].
    rewrite andb_true_r. reflexivity. }
  destruct (hrun_inv hs _ _ _ _ _ C0 H) as [[[W I] A] AL]. split; auto. split; auto.
  rewrite (available_iff _ _ W), A. destruct W as [_ [_ [_ W4]]]. rewrite W4, andb_true_iff, negb_true_iff. tauto.
Qed.

(* ---- registry slots: copies and slices are independent of their originals *)
Lemma rsstep_frame cs o cs' r k :
  rsstep cs o = Some (cs', r, k) -> forall k', k' <> k -> k' < length cs -> nth_error cs' k' = nth_error cs k'.
Proof.
  intros H k' N L. destruct o as [k0 o|k0|k0 keep]; cbn in H; destruct (nth_error cs k0) as [c|]; try discriminate.
  - destruct (rstep c o) as [c1 b]. inversion H; subst. apply set_nth_other; auto.
  - inversion H; subst. apply nth_error_app1; auto.
  - inversion H; subst. apply nth_error_app1; auto.
Qed.
Lemma rsstep_copy cs k cs' r n :
  rsstep cs (RSCopy k) = Some (cs', r, n) -> n = length cs /\ nth_error cs' n = nth_error cs k /\ nth_error cs k <> None.
Proof.
  cbn. destruct (nth_error cs k) as [c|] eqn:E; [|discriminate]. intros H; inversion H; subst. split; auto.
  rewrite nth_error_app2, Nat.sub_diag by auto. split; [reflexivity|discriminate].
Qed.
Lemma rsstep_wf cs o cs' r k : Forall WFctx cs -> rsstep cs o = Some (cs', r, k) -> Forall WFctx cs'.
Proof.
  intros F H. destruct o as [k0 o|k0|k0 keep]; cbn in H; destruct (nth_error cs k0) as [c|] eqn:E; try discriminate;
    assert (Wc : WFctx c) by (rewrite Forall_forall in F; apply F; eapply nth_error_In; eauto).
  - destruct (rstep c o) as [c1 b] eqn:S. inversion H; subst. apply set_nth_Forall; auto.
    assert (C : CInv c 0 (negb (availb (c_reg c) 0))).
    { split; auto. rewrite negb_involutive. destruct (availb (c_reg c) 0) eqn:A; [rewrite (availb_known _ _ A)|rewrite andb_false_r]; reflexivity. }
    destruct (hstep_inv c (HOp o) c1 b 0 _ C S) as [[W _] _]. auto.
  - inversion H; subst. apply Forall_app. split; auto.
  - inversion H; subst. apply Forall_app. split; auto. constructor; auto.
    assert (C : CInv c 0 (negb (availb (c_reg c) 0))).
    { split; auto. rewrite negb_involutive. destruct (availb (c_reg c) 0) eqn:A; [rewrite (availb_known _ _ A)|rewrite andb_false_r]; reflexivity. }
    destruct (hstep_inv c (HSlice keep) _ false 0 _ C eq_refl) as [[W _] _]. auto.
Qed.

(* ================================================================== read-only accessors agree with the job set *)
Lemma find_idx_some f l : forall i, find_idx f i l <> None <-> exists a, In a l /\ f a = true.
Proof.
  induction l as [|a l IH]; intros i; cbn.
  - split; [congruence|intros [a [[] _]]].
  - destruct (f a) eqn:E.
    + split; [intros _; exists a; auto|discriminate].
    + rewrite IH. split; intros [b [Hb Fb]]; [exists b; auto|].
      destruct Hb as [<-|Hb]; [congruence|exists b; auto].
Qed.
Lemma find_last_some f l : forall i acc, find_last f i l acc <> None <-> acc <> None \/ exists a, In a l /\ f a = true.
Proof.
  induction l as [|a l IH]; intros i acc; cbn.
  - split; [auto|intros [H|[a [[] _]]]; auto].
  - rewrite IH. destruct (f a) eqn:E.
    + split; [intros _; right; exists a; auto|intros _; left; discriminate].
    + split.
      * intros [H|[b [Hb Fb]]]; auto. right; exists b; auto.
      * intros [H|[b [Hb Fb]]]; [left; auto|]. destruct Hb as [<-|Hb]; [congruence|]. right; exists b; auto.
Qed.
Lemma filter_nonempty {A} (f : A -> bool) l : filter f l <> [] <-> exists a, In a l /\ f a = true.
Proof.
  split.
  - intros H. destruct (filter f l) as [|a r] eqn:E; [congruence|]. exists a. apply filter_In. rewrite E. left; auto.
  - intros [a Ha] E. apply filter_In in Ha. rewrite E in Ha. contradiction.
Qed.
Lemma contains_iff t j : jobs_ok t -> (contains t j = true <-> exists a, In a (t_acts t) /\ has_same_job a j = true).
Proof.
  intros [_ J]. unfold contains. rewrite set_mem_In, J. split; intros [a [Ha E]]; exists a; split; auto; apply has_same_job_iff; auto.
Qed.
Lemma query_consistent t j : jobs_ok t ->
  (contains t j = true <-> tindex t j <> None) /\ (contains t j = true <-> tindex_last t j <> None) /\
  (contains t j = true <-> job_activities t j <> []).
Proof.
  intros J. pose proof (contains_iff t j J) as C. unfold tindex, tindex_last, job_activities.
  rewrite find_idx_some, find_last_some, filter_nonempty. intuition congruence.
Qed.
Lemma filter_all {A} (f : A -> bool) l : (forall a, In a l -> f a = true) -> filter f l = l.
Proof.
  induction l as [|a l IH]; intros H; cbn; auto. rewrite (H a) by (left; auto). f_equal. apply IH. intros; apply H; right; auto.
Qed.
(* removing a job that is not a job of the tour (e.g. a sub-job of a Multi wrapped as a Single) is a no-op *)
Lemma remove_nonmember t j : jobs_ok t -> contains t j = false -> remove t j = (t, false).
Proof.
  intros J C. pose proof (contains_iff t j J) as CI. rewrite C in CI. unfold remove. unfold contains in C. rewrite C.
  assert (NA : forall a, In a (t_acts t) -> has_same_job a j = false).
  { intros a Ha. destruct (has_same_job a j) eqn:E; auto. assert (false = true) by (apply CI; exists a; auto). discriminate. }
  assert (NJ : ~ In j (t_jobs t)) by (apply set_mem_false; auto).
  destruct t as [acts jobs closed]. cbn [t_acts t_jobs t_closed] in *. f_equal. f_equal.
  - apply filter_all. intros a Ha. rewrite (NA a Ha). reflexivity.
  - unfold set_remove. apply filter_all. intros x Hx. apply negb_true_iff, Nat.eqb_neq. intros ->. auto.
Qed.

(* ================================================================== the multi-slot machines only reach single-value histories *)
Fixpoint sfold (ss : list slot) (ops : list sop) : list slot :=
  match ops with
  | [] => ss
  | o :: r => match sstep ss o with Some (ss', _, _) => sfold ss' r | None => ss end
  end.
Fixpoint rsfold (cs : list rctx) (ops : list rsop) : list rctx :=
  match ops with
  | [] => cs
  | o :: r => match rsstep cs o with Some (cs', _, _) => rsfold cs' r | None => cs end
  end.
Lemma srun_final ops : forall ss acc, snd (srun ss ops acc) = map dump_slot (sfold ss ops).
Proof.
  induction ops as [|o ops IH]; intros ss acc; cbn; auto.
  destruct (sstep ss o) as [[[ss' r] k]|]; cbn; auto.
Qed.
Lemma rsrun_final ops : forall cs acc, snd (rsrun cs ops acc) = map dump_rctx (rsfold cs ops).
Proof.
  induction ops as [|o ops IH]; intros cs acc; cbn; auto.
  destruct (rsstep cs o) as [[[cs' r] k]|]; cbn; auto.
Qed.

Definition treachable (c : bool) (s : slot) : Prop := exists ops, trun (tour_new c) ops = Some (s_tour s).
Lemma trun_snoc ops : forall t o,
  trun t (ops ++ [o]) = match trun t ops with
                        | Some t1 => match tstep t1 o with Some (t2, _) => Some t2 | None => None end
                        | None => None
                        end.
Proof.
  induction ops as [|o0 ops IH]; intros t o; cbn.
  - destruct (tstep t o) as [[t2 r]|]; reflexivity.
  - destruct (tstep t o0) as [[t1 r]|]; auto.
Qed.
Lemma sstep_reachable c ss o ss' r k :
  Forall (treachable c) ss -> sstep ss o = Some (ss', r, k) -> Forall (treachable c) ss'.
Proof.
  intros F H. destruct o as [k0 o|k0 mode|k0 v|k0 w j]; cbn in H; destruct (nth_error ss k0) as [s|] eqn:E; try discriminate;
    assert (Rs : treachable c s) by (rewrite Forall_forall in F; apply F; eapply nth_error_In; eauto);
    [| | |inversion H; subst; auto].
  - destruct (tstep (s_tour s) o) as [[t' r']|] eqn:S; [|discriminate]. inversion H; subst.
    apply set_nth_Forall; auto. destruct Rs as [ops Ho]. exists (ops ++ [o]). rewrite trun_snoc, Ho, S. reflexivity.
  - inversion H; subst. apply Forall_app. split; auto.
  - inversion H; subst. apply set_nth_Forall; auto.
Qed.
Lemma sfold_reachable c ops : forall ss, Forall (treachable c) ss -> Forall (treachable c) (sfold ss ops).
Proof.
  induction ops as [|o ops IH]; intros ss F; cbn; auto.
  destruct (sstep ss o) as [[[ss' r] k]|] eqn:S; auto. apply IH. eapply sstep_reachable; eauto.
Qed.

Definition reachable (gs : list nat) (c : rctx) : Prop := exists hs, fst (hrun (rctx_new gs) hs) = c.
Lemma hrun_snoc hs : forall c h, fst (hrun c (hs ++ [h])) = fst (hstep (fst (hrun c hs)) h).
Proof.
  induction hs as [|h0 hs IH]; intros c h; cbn.
  - destruct (hstep c h) as [c' b]. reflexivity.
  - destruct (hstep c h0) as [c1 b1]. specialize (IH c1 h).
    destruct (hrun c1 (hs ++ [h])) as [c2 t2]. destruct (hrun c1 hs) as [c3 t3]. cbn in *. exact IH.
Qed.
Lemma rsstep_reachable gs cs o cs' r k :
  Forall (reachable gs) cs -> rsstep cs o = Some (cs', r, k) -> Forall (reachable gs) cs'.
Proof.
  intros F H. destruct o as [k0 o|k0|k0 keep]; cbn in H; destruct (nth_error cs k0) as [c|] eqn:E; try discriminate;
    assert (Rc : reachable gs c) by (rewrite Forall_forall in F; apply F; eapply nth_error_In; eauto).
  - destruct (rstep c o) as [c1 b] eqn:S. inversion H; subst. apply set_nth_Forall; auto.
    destruct Rc as [hs Hh]. exists (hs ++ [HOp o]). rewrite hrun_snoc, Hh. cbn [hstep]. rewrite S. reflexivity.
  - inversion H; subst. apply Forall_app. split; auto.
  - inversion H; subst. apply Forall_app. split; auto. constructor; auto.
    destruct Rc as [hs Hh]. exists (hs ++ [HSlice keep]). rewrite hrun_snoc, Hh. reflexivity.
Qed.
Lemma rsfold_reachable gs ops : forall cs, Forall (reachable gs) cs -> Forall (reachable gs) (rsfold cs ops).
Proof.
  induction ops as [|o ops IH]; intros cs F; cbn; auto.
  destruct (rsstep cs o) as [[[cs' r] k]|] eqn:S; auto. apply IH. eapply rsstep_reachable; eauto.
Qed.

(* every slot the correspondence machine can reach is the result of a single-tour / single-registry history *)
Lemma run_tour_slots c ops s : In s (sfold [mkSlot (tour_new c) None] ops) -> exists tops, trun (tour_new c) tops = Some (s_tour s).
Proof.
  intros H. assert (F : Forall (treachable c) (sfold [mkSlot (tour_new c) None] ops)).
  { apply sfold_reachable. constructor; auto. exists []. reflexivity. }
  rewrite Forall_forall in F. apply F; auto.
Qed.
Lemma run_reg_slots gs ops c : In c (rsfold [rctx_new gs] ops) -> exists hs, fst (hrun (rctx_new gs) hs) = c.
Proof.
  intros H. assert (F : Forall (reachable gs) (rsfold [rctx_new gs] ops)).
  { apply rsfold_reachable. constructor; auto. exists []. reflexivity. }
  rewrite Forall_forall in F. apply F; auto.
Qed.

(* ================================================================== depth: clauses for every reachable tour / registry *)
Lemma firstn2_pair {A} (l : list A) : forall i a b,
  nth_error l i = Some a -> nth_error l (S i) = Some b -> firstn 2 (skipn i l) = [a; b].
Proof.
  induction l as [|x l IH]; intros i a b Ha Hb; [destruct i; discriminate|].
  destruct i as [|i].
  - cbn in Ha, Hb. inversion Ha; subst. destruct l as [|y l]; [discriminate|]. cbn in Hb. inversion Hb; subst. reflexivity.
  - cbn [skipn]. apply (IH i a b Ha Hb).
Qed.
Lemma firstn2_last {A} (l : list A) : forall i a, nth_error l i = Some a -> S i = length l -> firstn 2 (skipn i l) = [a].
Proof.
  induction l as [|x l IH]; intros i a Ha HL; [destruct i; discriminate|].
  destruct i as [|i].
  - cbn in Ha. inversion Ha; subst. destruct l; [reflexivity|simpl in HL; lia].
  - cbn [skipn]. apply (IH i a Ha). simpl in HL. lia.
Qed.

(* legs of EVERY tour reachable by any history: leg i = (activity i, activity i+1); open tours: extra last one-activity leg *)
Lemma legs_history c ops t : trun (tour_new c) ops = Some t ->
  length (legs t) = total t - (if c then 1 else 0) /\
  (forall i a b, nth_error (t_acts t) i = Some a -> nth_error (t_acts t) (S i) = Some b ->
                 nth_error (legs t) i = Some ([a; b], i)) /\
  (c = false -> forall a, nth_error (t_acts t) (total t - 1) = Some a ->
                 nth_error (legs t) (total t - 1) = Some ([a], total t - 1)).
Proof.
  intros H. destruct (wfweak_history c ops t H) as [W C]. subst c.
  destruct (wfweak_nonempty t W) as [NE C2]. destruct (legs_spec t NE C2) as [L N]. unfold legs_count in *.
  split; auto. split.
  - intros i a b Ha Hb. assert (S i < total t) by (unfold total; apply nth_error_Some; congruence).
    rewrite N by (destruct (t_closed t); lia). rewrite (firstn2_pair _ i a b Ha Hb). reflexivity.
  - intros E a Ha. rewrite E in *. assert (0 < total t) by (unfold total; destruct (t_acts t); [congruence|simpl; lia]).
    rewrite N by lia. rewrite (firstn2_last _ _ a Ha) by (unfold total in *; lia). reflexivity.
Qed.

Definition jobs_of (l : list act) : list nat :=
  flat_map (fun a => match a_job a with Some j => [j] | None => [] end) l.
Lemma jobs_of_In l j : In j (jobs_of l) <-> exists a, In a l /\ a_job a = Some j.
Proof.
  unfold jobs_of. rewrite in_flat_map. split; intros [a [Ha H]]; exists a; split; auto.
  - destruct (a_job a); cbn in H; [destruct H as [<-|[]]; auto|contradiction].
  - rewrite H. left; auto.
Qed.
Lemma job_count_distinct t : jobs_ok t -> job_count t = length (nodup Nat.eq_dec (jobs_of (t_acts t))).
Proof.
  intros [ND J]. unfold job_count. apply Nat.le_antisymm.
  - apply NoDup_incl_length; auto. intros j Hj. apply nodup_In. apply jobs_of_In. apply J. auto.
  - apply NoDup_incl_length; [apply NoDup_nodup|]. intros j Hj. apply nodup_In in Hj. apply J. apply jobs_of_In. auto.
Qed.
Lemma counts_history c ops t : trun (tour_new c) ops = Some t ->
  total t = job_activity_count t + 1 + (if c then 1 else 0) /\
  job_activity_count t = length (filter hasjob (t_acts t)) /\
  job_count t = length (nodup Nat.eq_dec (jobs_of (t_acts t))) /\
  job_count t <= job_activity_count t /\
  (has_jobs t = true <-> job_activity_count t <> 0).
Proof.
  intros H. destruct (wfweak_history c ops t H) as [W C]. subst c.
  destruct (wfweak_counts t W) as [A [B [D E]]]. destruct W as [_ J].
  split; auto. split; auto. split; [apply job_count_distinct; auto|]. split; auto.
Qed.

Lemma wftour_counts_abs t : WFTour t ->
  job_activity_count t = length (abs t) /\ total t = length (abs t) + 1 + (if t_closed t then 1 else 0).
Proof.
  intros [[mid [A F]] J]. rewrite (abs_shape t mid A). unfold job_activity_count, total. rewrite A. simpl.
  rewrite app_length, ends_length. destruct (t_closed t); lia.
Qed.
Lemma guarded_history_full c ops t :
  guarded (tour_new c) ops -> trun (tour_new c) ops = Some t ->
  t_closed t = c /\ t_acts t = start_act :: abs t ++ ends c /\ Forall (fun a => hasjob a = true) (abs t) /\
  NoDup (t_jobs t) /\ (forall j, In j (t_jobs t) <-> exists a, In a (abs t) /\ a_job a = Some j) /\
  job_activity_count t = length (abs t) /\ total t = length (abs t) + 1 + (if c then 1 else 0) /\
  job_count t = length (nodup Nat.eq_dec (jobs_of (abs t))).
Proof.
  intros G H. destruct (wftour_history c ops t G H) as [W C]. subst c.
  destruct (wftour_repr t W) as [A [F [ND J]]]. destruct (wftour_counts_abs t W) as [JC TL].
  repeat split; auto; try apply J.
  unfold job_count. apply Nat.le_antisymm.
  - apply NoDup_incl_length; auto. intros j Hj. apply nodup_In. apply jobs_of_In. apply J. auto.
  - apply NoDup_incl_length; [apply NoDup_nodup|]. intros j Hj. apply nodup_In in Hj. apply J. apply jobs_of_In. auto.
Qed.

(* the index guard is exactly what keeps the depots in place *)
Lemma guard_necessary t a i t' r :
  WFTour t -> tstep t (TInsertAt a i) = Some (t', r) -> ends_in_place t' -> in_guard t (TInsertAt a i).
Proof.
  intros [[mid [A F]] J] H [mid' [A' F']].
  apply tstep_insert_at in H. destruct H as [j [Ej [Hi [_ [_ ->]]]]]. cbn [t_acts t_closed] in A'. cbn [in_guard]. unfold total.
  destruct i as [|i].
  - exfalso. unfold insert_nth in A'. cbn in A'. injection A' as Ea _. subst a. discriminate Ej.
  - destruct (t_closed t) eqn:C; [|lia].
    destruct (Nat.eq_dec (S i) (length (t_acts t))) as [E|N]; [|lia]. exfalso.
    rewrite E, insert_nth_end in A'. cbn [ends] in A'.
    change (start_act :: mid' ++ [end_act]) with ((start_act :: mid') ++ [end_act]) in A'.
    apply app_inj_tail in A'. destruct A' as [_ Ea]. subst a. discriminate Ej.
Qed.
Lemma guard_exact t a i t' r :
  WFTour t -> tstep t (TInsertAt a i) = Some (t', r) -> (ends_in_place t' <-> in_guard t (TInsertAt a i)).
Proof.
  intros W H. split; [apply (guard_necessary t a i t' r W H)|].
  intros G. destruct W as [E J]. eapply ends_in_place_step; eauto.
Qed.

(* when does a step panic (None)?  exactly in the documented cases *)
Lemma tstep_panic_iff t : WFweak t ->
  (forall a i, tstep t (TInsertAt a i) = None <-> a_job a = None \/ total t < i) /\
  (forall a, tstep t (TInsertLast a) = None <-> a_job a = None) /\
  (forall j, tstep t (TRemove j) <> None) /\
  (forall i, tstep t (TRemoveAt i) = None <-> forall a, nth_error (t_acts t) i = Some a -> a_job a = None).
Proof.
  intros W. destruct (wfweak_nonempty t W) as [NE C2].
  assert (P1 : forall a i, tstep t (TInsertAt a i) = None <-> a_job a = None \/ total t < i).
  { intros a i. cbn [tstep]. unfold insert_at, total. destruct (a_job a) as [j|]; [|split; auto].
    rewrite match_nonempty by auto. destruct (Nat.leb i (length (t_acts t))) eqn:L.
    - apply Nat.leb_le in L. split; [discriminate|intros [H|H]; [discriminate|lia]].
    - apply Nat.leb_gt in L. split; auto. }
  split; auto. split; [|split].
  - intros a. rewrite tstep_insert_last, P1. split; auto. intros [H|H]; auto. exfalso.
    destruct (wfweak_counts t W) as [T _]. lia.
  - intros j. cbn. discriminate.
  - intros i. cbn [tstep]. unfold remove_activity_at. destruct (nth_error (t_acts t) i) as [a|].
    + destruct (a_job a) eqn:E.
      * split; [discriminate|intros H; specialize (H a eq_refl); congruence].
      * split; auto. intros _ a0 Ha0. inversion Ha0; subst; auto.
    + split; auto. intros _ a0 H0. discriminate.
Qed.

(* ---- deep-copy independence over whole histories: a slot only changes when an operation writes it *)
Definition swrites (o : sop) : option nat :=
  match o with STour k _ => Some k | SSetState k _ => Some k | _ => None end.
Lemma set_nth_length {A} (x : A) : forall l k, length (set_nth k x l) = length l.
Proof. induction l as [|y l IH]; intros k; destruct k; cbn; auto. Qed.
Lemma sstep_length ss o ss' r k : sstep ss o = Some (ss', r, k) -> length ss <= length ss'.
Proof.
  intros H. destruct o as [k0 o|k0 mode|k0 v|k0 w j]; cbn in H; destruct (nth_error ss k0) as [s|]; try discriminate.
  - destruct (tstep (s_tour s) o) as [[t' r']|]; [|discriminate]. inversion H; subst. rewrite set_nth_length. lia.
  - inversion H; subst. rewrite app_length. lia.
  - inversion H; subst. rewrite set_nth_length. lia.
  - inversion H; subst. lia.
Qed.
Lemma sstep_frame_w ss o ss' r k k' :
  sstep ss o = Some (ss', r, k) -> swrites o <> Some k' -> k' < length ss -> nth_error ss' k' = nth_error ss k'.
Proof.
  intros H W L. destruct o as [k0 o|k0 mode|k0 v|k0 w j]; cbn in H, W; destruct (nth_error ss k0) as [s|]; try discriminate.
  - destruct (tstep (s_tour s) o) as [[t' r']|]; [|discriminate]. inversion H; subst. apply set_nth_other. congruence.
  - inversion H; subst. apply nth_error_app1; auto.
  - inversion H; subst. apply set_nth_other. congruence.
  - inversion H; subst. reflexivity.
Qed.
Lemma sfold_frame ops : forall ss k,
  Forall (fun o => swrites o <> Some k) ops -> k < length ss -> nth_error (sfold ss ops) k = nth_error ss k.
Proof.
  induction ops as [|o ops IH]; intros ss k F L; cbn; auto. inversion F; subst.
  destruct (sstep ss o) as [[[ss' r] kk]|] eqn:S; auto.
  pose proof (sstep_length _ _ _ _ _ S). rewrite IH by (auto; lia). eapply sstep_frame_w; eauto.
Qed.
Lemma tour_copy_independent ss k mode ss1 r n ops :
  sstep ss (SCopy k mode) = Some (ss1, r, n) ->
  (Forall (fun o => swrites o <> Some k) ops -> nth_error (sfold ss1 ops) k = nth_error ss k) /\
  (Forall (fun o => swrites o <> Some n) ops -> nth_error (sfold ss1 ops) n = nth_error ss1 n).
Proof.
  intros H. destruct (sstep_copy _ _ _ _ _ _ H) as [-> [s [s' [E [E' _]]]]]. pose proof (sstep_length _ _ _ _ _ H) as LE.
  assert (Lk : k < length ss) by (apply nth_error_Some; congruence).
  assert (Ln : length ss < length ss1) by (apply nth_error_Some; congruence).
  split; intros F.
  - rewrite sfold_frame by (auto; lia). eapply sstep_frame; eauto. lia.
  - apply sfold_frame; auto.
Qed.

Definition rswrites (o : rsop) : option nat := match o with RSOp k _ => Some k | _ => None end.
Lemma rsstep_length cs o cs' r k : rsstep cs o = Some (cs', r, k) -> length cs <= length cs'.
Proof.
  intros H. destruct o as [k0 o|k0|k0 keep]; cbn in H; destruct (nth_error cs k0) as [c|]; try discriminate.
  - destruct (rstep c o) as [c1 b]. inversion H; subst. rewrite set_nth_length. lia.
  - inversion H; subst. rewrite app_length. lia.
  - inversion H; subst. rewrite app_length. lia.
Qed.
Lemma rsstep_frame_w cs o cs' r k k' :
  rsstep cs o = Some (cs', r, k) -> rswrites o <> Some k' -> k' < length cs -> nth_error cs' k' = nth_error cs k'.
Proof.
  intros H W L. destruct o as [k0 o|k0|k0 keep]; cbn in H, W; destruct (nth_error cs k0) as [c|]; try discriminate.
  - destruct (rstep c o) as [c1 b]. inversion H; subst. apply set_nth_other. congruence.
  - inversion H; subst. apply nth_error_app1; auto.
  - inversion H; subst. apply nth_error_app1; auto.
Qed.
Lemma rsfold_frame ops : forall cs k,
  Forall (fun o => rswrites o <> Some k) ops -> k < length cs -> nth_error (rsfold cs ops) k = nth_error cs k.
Proof.
  induction ops as [|o ops IH]; intros cs k F L; cbn; auto. inversion F; subst.
  destruct (rsstep cs o) as [[[cs' r] kk]|] eqn:S; auto.
  pose proof (rsstep_length _ _ _ _ _ S). rewrite IH by (auto; lia). eapply rsstep_frame_w; eauto.
Qed.
(* a deep copy / deep slice (pushed as slot n) and its original k evolve independently *)
Lemma reg_copy_independent cs o cs1 r n ops k :
  (o = RSCopy k \/ exists keep, o = RSSlice k keep) -> rsstep cs o = Some (cs1, r, n) ->
  n = length cs /\
  (Forall (fun o => rswrites o <> Some k) ops -> nth_error (rsfold cs1 ops) k = nth_error cs k) /\
  (Forall (fun o => rswrites o <> Some n) ops -> nth_error (rsfold cs1 ops) n = nth_error cs1 n).
Proof.
  intros O H. pose proof (rsstep_length _ _ _ _ _ H) as LE.
  assert (P : n = length cs /\ k < length cs /\ length cs < length cs1).
  { destruct O as [->|[keep ->]]; cbn in H; destruct (nth_error cs k) as [c|] eqn:E; try discriminate; inversion H; subst;
      (split; [reflexivity|split; [apply nth_error_Some; congruence|rewrite app_length; simpl; lia]]). }
  destruct P as [-> [Lk Ln]]. split; auto. split; intros F.
  - rewrite rsfold_frame by (auto; lia). eapply rsstep_frame_w; eauto.
    destruct O as [->|[keep ->]]; cbn; discriminate.
  - apply rsfold_frame; auto.
Qed.

(* ---- the registry never lists an actor twice, and every slot of every run satisfies the offer clause *)
Lemma NoDup_app_disj {A} (l1 l2 : list A) :
  NoDup l1 -> NoDup l2 -> (forall x, In x l1 -> ~ In x l2) -> NoDup (l1 ++ l2).
Proof.
  induction l1 as [|x l1 IH]; intros N1 N2 D; cbn; auto. inversion N1; subst. constructor.
  - rewrite in_app_iff. intros [H|H]; auto. apply (D x); [left|]; auto.
  - apply IH; auto. intros y Hy. apply D. right; auto.
Qed.
Lemma available_NoDup r : WFReg r -> NoDup (available r).
Proof.
  intros [ND [W2 _]]. unfold available.
  assert (G : forall m, NoDup (map fst m) ->
     (forall g s, In (g, s) m -> NoDup s /\ forall a, In a s -> lookup a (r_index r) = Some g) -> NoDup (flat_map snd m)).
  { induction m as [|[g s] m IH]; intros N H; cbn [flat_map snd]; [constructor|].
    cbn [map fst] in N. apply NoDup_cons_iff in N. destruct N as [Ng Nm].
    destruct (H g s (or_introl eq_refl)) as [Ns Is]. apply NoDup_app_disj; auto.
    - apply IH; auto. intros g' s' Hin. apply H. right; auto.
    - intros x Hx Hx'. apply in_flat_map in Hx'. destruct Hx' as [[g' s'] [Hin Hs']]. cbn in Hs'.
      destruct (H g' s' (or_intror Hin)) as [_ Is']. specialize (Is x Hx). specialize (Is' x Hs').
      assert (g = g') by congruence. subst. apply Ng. apply (in_map fst) in Hin. exact Hin. }
  apply G; auto. intros g s Hin. apply W2. apply lookup_In; auto.
Qed.
Lemma run_reg_offers gs ops c : In c (rsfold [rctx_new gs] ops) ->
  WFReg (c_reg c) /\ NoDup (available (c_reg c)) /\
  exists hs tr, hrun (rctx_new gs) hs = (c, tr) /\
    forall a, alternating a false tr /\
              (In a (available (c_reg c)) <-> In a (r_all (c_reg c)) /\ held_after a false tr = false).
Proof.
  intros H. destruct (run_reg_slots gs ops c H) as [hs Hh].
  destruct (hrun (rctx_new gs) hs) as [c' tr] eqn:R. cbn in Hh. subst c'.
  assert (W : WFReg (c_reg c)) by (destruct (registry_history gs hs c tr 0 R) as [W _]; exact W).
  split; auto. split; [apply available_NoDup; auto|]. exists hs, tr. split; auto.
  intros a. destruct (registry_history gs hs c tr a R) as [_ [AL AV]]. auto.
Qed.
Lemma run_tour_observations c ops s : In s (sfold [mkSlot (tour_new c) None] ops) ->
  WFweak (s_tour s) /\ t_closed (s_tour s) = c /\
  length (legs (s_tour s)) = total (s_tour s) - (if c then 1 else 0) /\
  total (s_tour s) = job_activity_count (s_tour s) + 1 + (if c then 1 else 0) /\
  job_count (s_tour s) = length (nodup Nat.eq_dec (jobs_of (t_acts (s_tour s)))).
Proof.
  intros H. destruct (run_tour_slots c ops s H) as [tops T].
  destruct (wfweak_history c tops _ T) as [W C]. destruct (legs_history c tops _ T) as [L _].
  destruct (counts_history c tops _ T) as [A [_ [D _]]]. auto.
Qed.

(* ---- guarded histories of the multi-slot machine keep EVERY slot fully well-formed (depots in place) *)
Definition sop_guard (ss : list slot) (o : sop) : Prop :=
  match o with
  | STour k o' => match nth_error ss k with Some s => in_guard (s_tour s) o' | None => True end
  | _ => True
  end.
Fixpoint sguarded (ss : list slot) (ops : list sop) : Prop :=
  match ops with
  | [] => True
  | o :: r => sop_guard ss o /\ match sstep ss o with Some (ss', _, _) => sguarded ss' r | None => True end
  end.
Lemma sstep_wftour ss o ss' r k :
  Forall (fun s => WFTour (s_tour s)) ss -> sop_guard ss o -> sstep ss o = Some (ss', r, k) ->
  Forall (fun s => WFTour (s_tour s)) ss'.
Proof.
  intros F G H. destruct o as [k0 o|k0 mode|k0 v|k0 w j]; cbn in H, G; destruct (nth_error ss k0) as [s|] eqn:E; try discriminate;
    assert (Ws : WFTour (s_tour s)) by (rewrite Forall_forall in F; apply F; eapply nth_error_In; eauto).
  - destruct (tstep (s_tour s) o) as [[t' r']|] eqn:S; [|discriminate]. inversion H; subst.
    apply set_nth_Forall; auto. cbn. eapply wftour_step; eauto.
  - inversion H; subst. apply Forall_app. split; auto.
  - inversion H; subst. apply set_nth_Forall; auto.
  - inversion H; subst. auto.
Qed.
Lemma sfold_wftour ops : forall ss,
  Forall (fun s => WFTour (s_tour s)) ss -> sguarded ss ops -> Forall (fun s => WFTour (s_tour s)) (sfold ss ops).
Proof.
  induction ops as [|o ops IH]; intros ss F G; cbn; auto. destruct G as [G0 G].
  destruct (sstep ss o) as [[[ss' r] k]|] eqn:S; auto. apply IH; auto. eapply sstep_wftour; eauto.
Qed.
Lemma run_tour_guarded c ops s :
  sguarded [mkSlot (tour_new c) None] ops -> In s (sfold [mkSlot (tour_new c) None] ops) -> WFTour (s_tour s).
Proof.
  intros G H. assert (F : Forall (fun s => WFTour (s_tour s)) (sfold [mkSlot (tour_new c) None] ops)).
  { apply sfold_wftour; auto. constructor; auto. apply wftour_new. }
  rewrite Forall_forall in F. apply F; auto.
Qed.

(* ---- all(): never changes except by deep_slice, lists no actor twice, only fleet actors *)
Lemma use_actor_all r a : r_all (fst (use_actor r a)) = r_all r.
Proof.
  unfold use_actor. destruct (lookup a (r_index r)) as [g|]; auto. destruct (lookup g (r_avail r)) as [s|]; auto.
  destruct (set_mem a s); auto.
Qed.
Lemma free_actor_all r a : r_all (fst (free_actor r a)) = r_all r.
Proof.
  unfold free_actor. destruct (lookup a (r_index r)) as [g|]; auto. destruct (lookup g (r_avail r)) as [s|]; auto.
  destruct (set_mem a s); auto.
Qed.
Lemma hstep_all c h : exists keep, r_all (c_reg (fst (hstep c h))) = filter keep (r_all (c_reg c)).
Proof.
  assert (ID : forall l : list nat, l = filter (fun _ => true) l) by (induction l; cbn; congruence).
  destruct h as [[x|x|x|]|keep]; cbn [hstep rstep].
  - exists (fun _ => true). pose proof (use_actor_all (c_reg c) x). destruct (use_actor (c_reg c) x); cbn in *. rewrite H. apply ID.
  - exists (fun _ => true). pose proof (free_actor_all (c_reg c) x). destruct (free_actor (c_reg c) x); cbn in *. rewrite H. apply ID.
  - exists (fun _ => true). unfold get_route. pose proof (use_actor_all (c_reg c) x). destruct (use_actor (c_reg c) x); cbn in *. rewrite H. apply ID.
  - exists (fun _ => true). cbn. apply ID.
  - exists (fun a => set_mem a keep). reflexivity.
Qed.
Lemma registry_all_history gs hs : forall c tr, hrun (rctx_new gs) hs = (c, tr) ->
  NoDup (r_all (c_reg c)) /\ forall a, In a (r_all (c_reg c)) -> a < length gs.
Proof.
  assert (G : forall hs c0 c tr, hrun c0 hs = (c, tr) ->
     NoDup (r_all (c_reg c0)) /\ (forall a, In a (r_all (c_reg c0)) -> a < length gs) ->
     NoDup (r_all (c_reg c)) /\ (forall a, In a (r_all (c_reg c)) -> a < length gs)).
  { induction hs0 as [|h hs0 IH]; intros c0 c tr H I; cbn in H.
    - inversion H; subst; auto.
    - destruct (hstep_all c0 h) as [keep K]. destruct (hstep c0 h) as [c1 b] eqn:S. cbn in K.
      destruct (hrun c1 hs0) as [c2 tr2] eqn:R. inversion H; subst. apply (IH c1 c tr2 R).
      destruct I as [ND LT]. rewrite K. split; [apply NoDup_filter; auto|].
      intros a Ha. apply filter_In in Ha. apply LT. tauto. }
  intros c tr H. apply (G hs _ _ _ H). cbn. split; [apply seq_NoDup|]. intros a Ha. apply in_seq in Ha. lia.
Qed.

(* ================================================================== statements as pinned in Properties/C14.v *)
Lemma P_C14_tour_wf_history : forall (c : bool) (ops : list top) (t : tour),
  guarded (tour_new c) ops -> trun (tour_new c) ops = Some t ->
  ((exists mid, t_acts t = start_act :: mid ++ (if t_closed t then [end_act] else []) /\
                Forall (fun a => a_job a <> None) mid) /\
   (NoDup (t_jobs t) /\ forall j, In j (t_jobs t) <-> exists a, In a (t_acts t) /\ a_job a = Some j)) /\
  t_closed t = c.
Proof.
  intros c ops t G H. destruct (wftour_history c ops t G H) as [[[mid [A F]] J] C]. split; auto. split; auto.
  exists mid. split; auto. eapply Forall_impl; [|exact F]. unfold hasjob. intros a Ha. destruct (a_job a); congruence.
Qed.

Lemma P_C14_tour_wf_history_no_insert_at : forall (c : bool) (ops : list top) (t : tour),
  forallb no_insert_at ops = true -> trun (tour_new c) ops = Some t -> WFTour t /\ t_closed t = c.
Proof. intros c ops t N H. apply (wftour_history c ops t); auto. apply guarded_no_insert_at; auto. Qed.

Lemma P_C14_tour_step_refines : forall (t : tour) (o : top),
  WFTour t -> in_guard t o ->
  abs_res (tstep t o) = spec_step (abs t) o /\
  forall t' r, tstep t o = Some (t', r) -> WFTour t' /\ t_closed t' = t_closed t.
Proof.
  intros t o W G. split; [apply tour_refines; auto|]. intros t' r H. split; [eapply wftour_step; eauto|eapply closed_step; eauto].
Qed.

Lemma P_C14_tour_legs : forall t, WFweak t ->
  length (legs t) = total t - (if t_closed t then 1 else 0) /\
  forall i, i < total t - (if t_closed t then 1 else 0) ->
            nth_error (legs t) i = Some (firstn 2 (skipn i (t_acts t)), i).
Proof. intros t W. destruct (wfweak_nonempty t W) as [NE C2]. apply legs_spec; auto. Qed.

Lemma P_C14_registry_new : forall gs,
  WFReg (reg_new gs) /\ forall a, In a (available (reg_new gs)) <-> a < length gs.
Proof.
  intros gs. split; [apply reg_new_wf|]. intros a. rewrite (available_iff _ _ (reg_new_wf gs)).
  destruct (reg_new_all_free gs a) as [-> _]. apply Nat.ltb_lt.
Qed.

Lemma P_C14_registry_use_spec : forall r a r' b,
  WFReg r -> use_actor r a = (r', b) ->
  WFReg r' /\ (b = true <-> In a (available r)) /\
  (forall x, In x (available r') <-> In x (available r) /\ (b = true -> x <> a)) /\ r_all r' = r_all r.
Proof.
  intros r a r' b W H. destruct (use_actor_spec r a r' b W H) as [W' [Eb [Av [_ Ea]]]].
  split; auto. split; [rewrite (available_iff _ _ W), Eb; tauto|]. split; auto.
  intros x. rewrite (available_iff _ _ W'), (available_iff _ _ W), Av, andb_true_iff, negb_true_iff.
  destruct b; cbn; [rewrite Nat.eqb_neq|]; intuition congruence.
Qed.

Lemma P_C14_registry_free_spec : forall r a r' b,
  WFReg r -> free_actor r a = (r', b) ->
  WFReg r' /\ (b = true <-> In a (r_all r) /\ ~ In a (available r)) /\
  (forall x, In x (available r') <-> In x (available r) \/ (b = true /\ x = a)) /\ r_all r' = r_all r.
Proof.
  intros r a r' b W H. destruct (free_actor_spec r a r' b W H) as [W' [Eb [Av [_ Ea]]]].
  split; auto. split.
  - rewrite (available_iff _ _ W), Eb, andb_true_iff, negb_true_iff. destruct W as [_ [_ [_ W4]]]. rewrite W4.
    destruct (availb r a); intuition congruence.
  - split; auto. intros x. rewrite (available_iff _ _ W'), (available_iff _ _ W), Av, orb_true_iff, andb_true_iff, Nat.eqb_eq. tauto.
Qed.

Lemma P_C14_registry_slice_spec : forall r keep,
  WFReg r ->
  WFReg (deep_slice r keep) /\
  (forall x, In x (available (deep_slice r keep)) <-> In x (available r) /\ keep x = true) /\
  r_all (deep_slice r keep) = filter keep (r_all r).
Proof.
  intros r keep W. destruct (deep_slice_spec r keep W) as [W' [Av [_ Ea]]]. split; auto. split; auto.
  intros x. rewrite (available_iff _ _ W'), (available_iff _ _ W), Av, andb_true_iff. tauto.
Qed.

Lemma P_C14_registry_next_sound : forall r picks x, In x (next_with picks (r_avail r)) -> In x (available r).
Proof. intros r picks x. apply next_with_sound. Qed.

Lemma P_C14_registry_next_complete : forall r picks,
  picks_ok picks (r_avail r) -> length (next_with picks (r_avail r)) = nonempty_groups (r_avail r).
Proof. intros r picks. apply next_with_complete. Qed.

Lemma P_C14_nonvacuous_tour :
  exists ops t, guarded (tour_new true) ops /\ trun (tour_new true) ops = Some t /\ length (abs t) = 2 /\ job_count t = 1.
Proof.
  exists [TInsertLast (mkAct (Some 3) 2); TInsertAt (mkAct (Some 3) 3) 1; TInsertAt (mkAct (Some 4) 4) 3; TRemoveAt 3].
  eexists. split; [cbn; repeat split; lia|]. split; [reflexivity|]. split; reflexivity.
Qed.

Lemma P_C14_nonvacuous_registry :
  exists gs hs c tr, hrun (rctx_new gs) hs = (c, tr) /\ held_after 1 false tr = true /\ ~ In 1 (available (c_reg c)) /\
                     In 0 (available (c_reg c)).
Proof.
  exists [0; 0; 3], [HOp (RGet 1); HOp (RUse 1); HOp (RFree 0); HSlice [0; 1]]. eexists. eexists.
  split; [reflexivity|]. split; [reflexivity|]. split; cbn; intuition lia.
Qed.
