(* C14 — proofs about Model/TourReg.v *)
From VRP Require Import Base.Tac Model.TourReg.
#[local] Open Scope nat_scope.

Lemma tour_new_start : forall c, hd_error (t_acts (tour_new c)) = Some start_act.
Proof. intros []; reflexivity. Qed.
