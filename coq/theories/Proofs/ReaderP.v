(* C10 — lemmas about Model/Reader.v: the steps of the reader behind validation on the extended document; the three clauses of
   the property for the extended document outside the known classes; witnesses. *)
From VRP Require Import Base.Tac Model.Validation Model.ValidationX Model.Reader Spec.Rules Spec.RulesX Generated.RuleTable Proofs.ValidationP Proofs.ValidationXP.
From Coq Require Import String Permutation.

(* ====================================================================================================================== *)
(* the reader behind validation                                                                                           *)
(* ====================================================================================================================== *)
Lemma round_sqrt_mono a b : (a <= b)%nat -> (round_sqrt a <= round_sqrt b)%nat.
Proof.
  intros Hab. unfold round_sqrt. assert (Hs := Nat.sqrt_le_mono a b Hab).
  assert (Ha := Nat.sqrt_spec a (Nat.le_0_l a)). assert (Hb := Nat.sqrt_spec b (Nat.le_0_l b)). cbn zeta in Ha, Hb.
  destruct (Nat.ltb_spec (Nat.sqrt a) (a - Nat.sqrt a * Nat.sqrt a)), (Nat.ltb_spec (Nat.sqrt b) (b - Nat.sqrt b * Nat.sqrt b)); try lia.
  destruct (Nat.eq_dec (Nat.sqrt a) (Nat.sqrt b)) as [He|Hne]; [|lia]. rewrite He in *. lia.
Qed.

Lemma reserved_ok d : g2_required_breaks d = false -> reserved_fails (xbase d) = false.
Proof. exact (reserved_ok_base (xbase d)). Qed.

Lemma tw_panics_not_dates w : tw_panics w = true -> window_is_dates w = false.
Proof.
  unfold window_is_dates. destruct w as [|a [|b [|c r]]]; cbn; try reflexivity. unfold tm_bad, is_none.
  destruct (tm_val a), (tm_val b); cbn; congruence.
Qed.
Lemma recharge_ok d : x16_recharge_times d = false -> recharge_panics d = false.
Proof.
  unfold x16_recharge_times, recharge_panics. intros H. apply existsb_false. intros v Hv. rewrite existsb_false in H. specialize (H v Hv).
  cbn beta in H. destruct (v_ids (xv_vehicle v)) as [|i0 ids0]; [reflexivity|]. apply existsb_false. intros i _.
  destruct (nth i (xv_recharges v) None) as [sts|] eqn:En; [|reflexivity].
  assert (Hin : In (Some sts) (xv_recharges v)).
  { destruct (Nat.lt_ge_cases i (List.length (xv_recharges v))) as [Hlt|Hge]; [rewrite <- En; now apply nth_In|].
    rewrite nth_overflow in En by exact Hge. discriminate. }
  rewrite existsb_false in H. specialize (H _ Hin). cbn beta in H. apply existsb_false. intros t Ht.
  rewrite existsb_false in H. specialize (H t Ht). cbn beta in H. unfold times_panic. destruct t as [tws|]; [|reflexivity]. cbn [olist].
  apply negb_false_iff in H. apply existsb_false. intros w Hw. rewrite forallb_forall in H. specialize (H w Hw).
  destruct (tw_panics w) eqn:E; [|reflexivity]. apply tw_panics_not_dates in E. congruence.
Qed.

(* goal reader *)
Lemma goal_ok d : g1_goal_unbuildable d = false -> k7_over8 (xbase d) = false -> xk7_over8 d = false ->
  xviolates 1308 d = false -> xviolates 1202 d = false -> goal_step d = SOk.
Proof.
  intros G1 K7 K7x H1308 H1202. unfold goal_step.
  assert (Hl : existsb layer_fails (effective_objectives d) = false /\ existsb combine_fails (effective_objectives d) = false
               /\ no_goal_objective d = false).
  { unfold g1_goal_unbuildable in G1. unfold effective_objectives, no_goal_objective, effective_objectives.
    destruct (x_objectives d) as [objs|]; [|repeat split; reflexivity].
    apply orb_false_iff in G1. destruct G1 as [Gm Gn]. rewrite existsb_false in Gm. repeat split.
    - apply existsb_false. intros o Ho. specialize (Gm o Ho). destruct o as [t a|st ins]; cbn beta iota in Gm.
      + unfold layer_fails, bad_arg, T_COMPACT. destruct (Nat.eqb t 12); [|reflexivity]. cbn [andb] in *.
        destruct (Z.ltb_spec a 1), (Z.leb_spec a 0); try reflexivity; try lia; congruence.
      + unfold g1_multi_bad in Gm. apply orb_false_iff in Gm. destruct Gm as [Gm _]. apply orb_false_iff in Gm. destruct Gm as [Gm _].
        apply orb_false_iff in Gm. destruct Gm as [_ Gm]. unfold layer_fails. apply existsb_false. intros i Hi.
        rewrite existsb_false in Gm. specialize (Gm i Hi). destruct i as [t a|]; [|discriminate].
        unfold bad_arg, T_COMPACT. destruct (Nat.eqb t 12); [|reflexivity]. cbn [andb] in *.
        destruct (Z.ltb_spec a 1), (Z.leb_spec a 0); try reflexivity; try lia; congruence.
    - apply existsb_false. intros o Ho. specialize (Gm o Ho). destruct o as [t a|st ins]; [reflexivity|]. cbn beta iota in Gm.
      unfold g1_multi_bad in Gm. apply orb_false_iff in Gm. destruct Gm as [Gm Gw]. apply orb_false_iff in Gm. destruct Gm as [Gm Gp].
      apply orb_false_iff in Gm. destruct Gm as [Ge _]. unfold combine_fails. rewrite is_nil_nonempty, Ge. cbn [orb].
      assert (Hp : forallb (fun i => objective_only (inner_tag i)) ins = false).
      { rewrite <- Gp. apply forallb_ext_in. intros i _. destruct i as [t a|]; reflexivity. }
      rewrite Hp. cbn [orb]. destruct st as [|w]; [reflexivity|]. exact Gw.
    - apply andb_false_iff. destruct (negb (nonempty (listed_types objs))) eqn:El.
      + right. cbn [andb] in Gn. apply negb_false_iff in Gn. apply negb_false_iff.
        unfold has_breaks. change (d_vehicles (xbase d)) with (xvehicles d). unfold some_break in Gn. rewrite <- Gn.
        apply existsb_ext_in. intros v _. apply existsb_ext_in. intros s _. now destruct (sh_breaks s) as [[|b bs]|].
      + left. apply negb_false_iff in El. apply negb_false_iff. clear -El. unfold listed_types in El.
        induction objs as [|o r IH]; [discriminate|]. cbn [existsb flat_map] in *. destruct o as [t a|st ins]; [reflexivity|]. cbn [app orb] in *.
        now apply IH. }
  destruct Hl as (Hl1 & Hl2 & Hl3). rewrite Hl1, Hl2, Hl3.
  assert (Hr : resources_panic d = false).
  { unfold resources_panic. apply andb_false_iff. right. apply orb_false_iff. split.
    - change (xviolates 1308 d) with (Rules.viol_1308 (xbase d)) in H1308. unfold Rules.viol_1308 in H1308. apply orb_false_iff in H1308.
      destruct H1308 as [Hd _]. rewrite has_dup_spec. exact Hd.
    - apply andb_false_iff. right. apply existsb_false. intros v _. destruct (v_ids (xv_vehicle v)) as [|i0 ids0]; [reflexivity|].
      apply existsb_false. intros s _. apply existsb_false. intros r _. destruct (rl_resource r) as [id|]; [|reflexivity].
      apply andb_false_iff. right. apply Nat.ltb_ge. unfold xk7_over8 in K7x. apply orb_false_iff in K7x. destruct K7x as [_ Kd].
      rewrite existsb_false in Kd. generalize (olist (x_resources d)). generalize (x_resource_dims d) Kd. clear.
      intros dims Kd ids. revert dims Kd. induction ids as [|i ir IH]; intros dims Kd; [destruct dims; cbn; lia|].
      destruct dims as [|n nr]; [cbn; lia|]. cbn [resource_dims].
      assert (IH' := IH nr (fun x Hx => Kd x (or_intror Hx))). destruct (resource_dims id ir nr) eqn:E; [|exact IH'].
      destruct (String.eqb id i); [|lia]. assert (Hn := Kd n (or_introl eq_refl)). apply Nat.ltb_ge in Hn. exact Hn. }
  rewrite Hr.
  assert (Hs : strict_lock_empty d = false).
  { unfold strict_lock_empty. apply existsb_false. intros r Hr'. destruct (r_type r); try reflexivity.
    change (xviolates 1202 d) with (viol_1202 d) in H1202. unfold viol_1202, RulesX.rels in H1202.
    destruct (x_relations d) as [rs|]; [|destruct Hr']. cbn [olist] in Hr'. rewrite existsb_false in H1202. specialize (H1202 r Hr').
    destruct (forallb (fun id => (String.eqb id "departure" || String.eqb id "arrival")%string) (r_jobs r)) eqn:E; [|reflexivity].
    exfalso. assert (Ht : forallb is_reserved (r_jobs r) = true).
    { apply forallb_forall. intros id Hid. rewrite forallb_forall in E. specialize (E id Hid). unfold is_reserved, has_str. cbn [existsb].
      apply orb_true_iff in E. destruct E as [E|E]; rewrite E; cbn; [reflexivity|now rewrite orb_true_r]. }
    congruence. }
  now rewrite Hs.
Qed.
Lemma cluster_ok d : xviolates 1505 d = false -> cluster_step d = SOk.
Proof.
  change (xviolates 1505 d) with (xviol_1505 d). unfold xviol_1505, cluster_step. intros H. apply orb_false_iff in H. destruct H as [_ H].
  destruct (x_clustering d) as [p|]; [|reflexivity]. apply negb_false_iff in H. unfold mem. unfold has_str in H. now rewrite H.
Qed.
(* read_locks *)
Lemma special_cases k : special k = true -> k = "break"%string \/ k = "reload"%string \/ k = "recharge"%string.
Proof.
  unfold special. intros H. apply orb_true_iff in H. destruct H as [H|H]; [apply orb_true_iff in H; destruct H as [H|H]|];
    apply String.eqb_eq in H; auto.
Qed.
Lemma count_str_cons k id r : count_str k (id :: r) = ((if String.eqb k id then 1 else 0) + count_str k r)%nat.
Proof. cbn [count_str]. now destruct (String.eqb k id). Qed.
Lemma locks_walk_ok d vid shift xv :
  In xv (x_vehicles d) -> mem vid (v_ids (xv_vehicle xv)) = true ->
  forall ids seen,
    (forall k, special k = true -> (count_str k seen + count_str k ids <= cond_jobs xv shift k)%nat) ->
    (forall id, In id ids -> reserved id = false -> special id = false -> is_none (job_lookup d id) = false) ->
    locks_walk d vid shift seen ids = false.
Proof.
  intros Hin Hmem. induction ids as [|id r IH]; intros seen Hcnt Hjobs; [reflexivity|]. cbn [locks_walk].
  destruct (String.eqb id "departure" || String.eqb id "arrival")%string eqn:Eda.
  - apply IH.
    + intros k Hk. specialize (Hcnt k Hk). rewrite count_str_cons in Hcnt.
      assert (Hne : String.eqb k id = false).
      { destruct (special_cases k Hk) as [Hk0|[Hk0|Hk0]]; subst k; apply orb_true_iff in Eda; destruct Eda as [E|E]; apply String.eqb_eq in E; subst id; reflexivity. }
      rewrite Hne in Hcnt. exact Hcnt.
    + intros id' Hi. apply Hjobs. now right.
  - destruct (special id) eqn:Es.
    + apply orb_false_iff. split.
      * apply negb_false_iff. unfold cond_job_exists. apply existsb_exists. exists xv. split; [exact Hin|]. rewrite Hmem. cbn [andb].
        apply Nat.leb_le. specialize (Hcnt id Es). rewrite count_str_cons, String.eqb_refl in Hcnt. lia.
      * apply IH.
        -- intros k Hk. specialize (Hcnt k Hk). rewrite !count_str_cons in *. lia.
        -- intros id' Hi. apply Hjobs. now right.
    + apply orb_false_iff. split.
      * apply Hjobs; [now left| |exact Es]. unfold reserved. apply orb_false_iff in Eda. destruct Eda as [E1 E2]. rewrite E1, E2. cbn [orb].
        unfold special in Es. apply orb_false_iff in Es. destruct Es as [Es _]. exact Es.
      * apply IH.
        -- intros k Hk. specialize (Hcnt k Hk). rewrite count_str_cons in Hcnt.
           assert (Hne : String.eqb k id = false).
           { destruct (String.eqb_spec k id) as [E|E]; [rewrite E in Hk; congruence|reflexivity]. }
           rewrite Hne in Hcnt. exact Hcnt.
        -- intros id' Hi. apply Hjobs. now right.
Qed.
Lemma locks_ok d : x11_special_without_job d = false -> xviolates 1200 d = false -> xviolates 1201 d = false -> xviolates 1205 d = false ->
  locks_panic d = false.
Proof.
  intros X11 H1200 H1201 H1205. unfold locks_panic. apply existsb_false. intros r Hr.
  change (xviolates 1200 d) with (viol_1200 d) in H1200. change (xviolates 1201 d) with (viol_1201 d) in H1201.
  change (xviolates 1205 d) with (viol_1205 d) in H1205. unfold viol_1200, viol_1201, viol_1205, RulesX.rels in *.
  unfold x11_special_without_job, RulesX.rels in X11.
  destruct (x_relations d) as [rs|] eqn:Erel; [|destruct Hr]. cbn [olist] in Hr.
  rewrite existsb_false in H1200, H1201, H1205, X11. specialize (H1200 r Hr). specialize (H1201 r Hr). specialize (H1205 r Hr). specialize (X11 r Hr).
  cbn beta in *. apply negb_false_iff in H1201.
  (* the vehicle the relation names *)
  destruct (vehicle_with d (r_vehicle r)) as [v0|] eqn:Ev.
  2:{ exfalso. rewrite <- vehicle_lookup_with in Ev. assert (Hn := lookup_last_none (fun v => mem (r_vehicle r) (v_ids v)) (map xv_vehicle (x_vehicles d))).
      unfold vehicle_lookup in Ev. rewrite Ev in Hn. cbn [is_none] in Hn. symmetry in Hn. apply negb_true_iff in Hn.
      unfold has_str, xvehicles in H1201. rewrite existsb_flat_map in H1201. unfold mem in Hn. congruence. }
  rewrite <- vehicle_lookup_with in Ev. destruct (lookup_last_some _ _ _ Ev) as [Hv0 Hmem]. apply in_map_iff in Hv0.
  destruct Hv0 as (xv & Hxv & Hin). subst v0. apply Nat.leb_gt in H1205.
  destruct (nth_error (v_shifts (xv_vehicle xv)) (shift_of r)) as [s|] eqn:Es; [|apply nth_error_None in Es; lia].
  rewrite existsb_false in X11. specialize (X11 xv Hin). cbn beta in X11. change (has_str (r_vehicle r) (v_ids (xv_vehicle xv))) with (mem (r_vehicle r) (v_ids (xv_vehicle xv))) in X11.
  rewrite Hmem, Es in X11. cbn [andb] in X11. rewrite existsb_false in X11.
  apply (locks_walk_ok d (r_vehicle r) (rel_shift r) xv Hin Hmem).
  - intros k Hk. cbn [count_str Nat.add]. assert (Hk' : In k ["break"; "reload"; "recharge"]%string).
    { destruct (special_cases k Hk) as [Hk0|[Hk0|Hk0]]; subst k; cbn; tauto. }
    specialize (X11 k Hk'). apply Nat.ltb_ge in X11. rewrite count_str_filter. unfold cond_jobs. rewrite rel_shift_eq, Es.
    unfold kinds_available in X11. exact X11.
  - intros id Hid Hres _. rewrite existsb_false in H1200. specialize (H1200 id Hid). cbn beta in H1200. rewrite <- reserved_eq, Hres in H1200.
    cbn [negb andb] in H1200. apply negb_false_iff in H1200. unfold job_lookup. rewrite lookup_last_none. apply negb_false_iff.
    unfold has_str, xjobs in H1200. rewrite (existsb_map (String.eqb id) j_id) in H1200. exact H1200.
Qed.

(* Jobs::new: after E1504 every value of the coordinate index is below the size of the transport cost *)
Lemma xtransport_ok_first profiles m ms : xtransport_fails profiles (m :: ms) = false ->
  exists dt, xmatrix_data m = Some dt /\ List.length (snd dt) = List.length (fst dt).
Proof.
  unfold xtransport_fails. intros H.
  repeat match type of H with (if ?c then true else _) = false => destruct c; [discriminate|] end.
  destruct (sequence (map xmatrix_data (m :: ms))) as [datas|] eqn:Hseq; [|discriminate].
  match type of H with (if ?c then true else _) = false => destruct c; [discriminate|] end.
  cbn [map sequence] in Hseq. destruct (xmatrix_data m) as [dt|]; [|discriminate]. destruct (sequence (map xmatrix_data ms)) as [rest|]; [|discriminate].
  cbn [option_map] in Hseq. inversion Hseq; subst datas. cbv zeta in H.
  match type of H with (if ?c then true else _) = false => destruct c eqn:E1; [discriminate|] end.
  exists dt. split; [reflexivity|]. cbn [existsb] in E1. apply orb_false_iff in E1. destruct E1 as [E1 _]. apply negb_false_iff in E1.
  now apply Nat.eqb_eq.
Qed.
Lemma matrix_data_covers m x y : matrix_data m = Some (x, y) -> List.length y = List.length x -> (List.length (m_dist m) <= List.length x)%nat.
Proof.
  intros H Hxy. destruct (matrix_step_spec_l m) as (_ & Hsome & Hnone). destruct (m_errors m) as [ec|] eqn:Ee.
  - destruct (Hsome ec x y eq_refl H) as (Hx & _ & Hle & _). lia.
  - rewrite (Hnone eq_refl) in H. inversion H; subst. lia.
Qed.
Lemma combine_seq_in {A} (ds : list A) : forall start p l, In (p, l) (combine (seq start (List.length ds)) ds) ->
  (p < start + List.length ds)%nat /\ In l ds.
Proof.
  induction ds as [|a ds IH]; intros start p l Hin; [destruct Hin|]. cbn [List.length seq combine In] in Hin. destruct Hin as [Heq|Hin].
  - inversion Heq; subst. split; [cbn; lia|now left].
  - destruct (IH _ _ _ Hin) as [Hp Hl]. split; [cbn [List.length]; lia|now right].
Qed.
Lemma jobs_index_ok d : xviolates 1504 d = false -> xviolates 1501 d = false ->
  xtransport_fails (x_profiles d) (seen_matrices d) = false -> jobs_index_panics d = false.
Proof.
  intros H1504 H1501 Ht. change (xviolates 1504 d) with (xviol_1504 d) in H1504. rewrite <- x1504_ok in H1504.
  change (xviolates 1501 d) with (xviol_1501 d) in H1501. unfold xviol_1501 in H1501. apply negb_false_iff in H1501.
  unfold jobs_index_panics. unfold xcheck_e1504, first_matrix_len in H1504.
  destruct (seen_matrices d) as [|m ms] eqn:Es.
  - exfalso. unfold xtransport_fails in Ht. cbn [forallb existsb negb andb List.length] in Ht.
    destruct (x_profiles d) as [|p ps]; [discriminate|]. cbn in Ht. discriminate.
  - destruct (xtransport_ok_first _ _ _ Ht) as ([x y] & Hdt & Hlen). cbn [fst snd] in Hlen. cbn [xtransport_size]. rewrite Hdt. cbn [fst].
    cbv zeta in H1504. apply negb_false_iff in H1504. apply andb_prop in H1504. destruct H1504 as [Hmax Hout].
    apply Nat.eqb_eq in Hmax. apply negb_true_iff in Hout. unfold max_matrix_index in Hmax. rewrite direct_length in Hmax.
    set (vsize := round_sqrt (List.length (m_dist (xm_matrix m)))) in *.
    assert (Hvs : (vsize <= round_sqrt (List.length x))%nat).
    { apply round_sqrt_mono. unfold xmatrix_data in Hdt. destruct (matrix_data (xm_matrix m)) as [[x' y']|] eqn:Em; [|discriminate].
      assert (Hxy : (x', y') = (x, y)) by (destruct (xm_timestamp m) as [t|]; [destruct (tm_bad t); [discriminate|]|]; now inversion Hdt).
      inversion Hxy; subst. now apply (matrix_data_covers (xm_matrix m) x y). }
    rewrite outside_spec in Hout by lia. rewrite existsb_false in Hout.
    apply existsb_false. intros v Hv. apply Nat.leb_gt. unfold loc_values in Hv. apply in_map_iff in Hv. destruct Hv as ([p l] & Hval & Hin).
    cbn [fst snd] in Hval. subst v. destruct (combine_seq_in _ _ _ _ Hin) as [Hp Hl]. rewrite direct_length in Hp.
    destruct l as [cx|i]; cbn [loc_value]; [lia|]. apply (proj1 (coord_index_direct_in _ _)) in Hl. specialize (Hout _ Hl). cbn in Hout. apply Nat.leb_gt in Hout. lia.
Qed.

(* ---------- the base document of a validated extended document ---------- *)
Section XSafe.
  Variable d : xdoc.
  Hypothesis Hk : xknown d = false.
  Hypothesis Hv : forall c, In c (map fst xall_checks) -> xviolates c d = false.

  Lemma base_rules : forall c, In c (map fst all_checks) -> violates c (xbase d) = false.
  Proof.
    destruct (xknown_false d Hk) as (Hkb & _). destruct (known_false _ Hkb) as (_ & K9 & _).
    assert (H1302 : Rules.viol_1302 (xbase d) = false) by (apply (Hv 1302); cbn; tauto).
    intros c Hc. unfold all_checks, jobs_checks, vehicles_checks, routing_checks in Hc. cbn [map app In fst] in Hc.
    repeat (destruct Hc as [<-|Hc]; [match goal with |- violates ?c _ = false =>
      first [ assert_fails (constr_eq c 1504%Z); assert_fails (constr_eq c 1505%Z); exact (Hv c ltac:(cbn; tauto)) | idtac ] end|]); [..|contradiction].
    - (* base E1504: a vehicle with a shift exists *)
      change (violates 1504 (xbase d)) with (Rules.viol_1504 (xbase d)). unfold Rules.viol_1504. apply andb_false_iff. right. apply negb_false_iff.
      unfold any_location. apply orb_true_iff. right. unfold k9_no_vehicles in K9. destruct (forallb_false_exists _ _ K9) as (v & Hin & Hids).
      apply existsb_exists. exists v. split; [exact Hin|]. unfold Rules.viol_1302 in H1302. rewrite existsb_false in H1302. specialize (H1302 v Hin).
      cbn beta in H1302. apply orb_false_iff in H1302. destruct H1302 as [H _]. apply negb_false_iff in H. apply andb_prop in H. tauto.
    - (* base E1505 = the vehicle half of the extended rule *)
      assert (H := Hv 1505). change (xviolates 1505 d) with (xviol_1505 d) in H. unfold xviol_1505 in H.
      assert (H' : In 1505 (map fst xall_checks)) by (cbn; tauto). specialize (H H'). apply orb_false_iff in H. destruct H as [H _]. exact H.
  Qed.
End XSafe.
(* ---------- the reader steps of a validated document outside the known classes ---------- *)
Lemma xpre_ok d : xpre_panics d = false.
Proof. unfold xpre_panics. now destruct (x_matrices d). Qed.
Lemma reader_steps_spec d : xknown d = false -> (forall c, In c (map fst xall_checks) -> xviolates c d = false) ->
  first_failure (reader_steps d) = if xtransport_fails (x_profiles d) (seen_matrices d) then SErr 2 else SOk.
Proof.
  intros Hk Hv. destruct (xknown_false d Hk) as (Hkb & K7x & X11 & X16 & G1 & G2).
  destruct (known_false _ Hkb) as (K7 & _).
  assert (Hb := base_rules d Hk Hv).
  unfold reader_steps. rewrite (fleet_safe _ Hkb Hb), (reserved_safe _ Hb). cbn [b2p first_failure].
  destruct (xtransport_fails (x_profiles d) (seen_matrices d)) eqn:Et; [reflexivity|].
  rewrite (reserved_ok d G2), (jobs_safe _ Hkb Hb), (conditional_safe _ Hb), (recharge_ok d X16). cbn [orb b2p first_failure].
  rewrite (jobs_index_ok d) by (first [exact Et | apply Hv; cbn; tauto]).
  rewrite (locks_ok d X11) by (apply Hv; cbn; tauto). cbn [b2p first_failure].
  rewrite (goal_ok d G1 K7 K7x) by (apply Hv; cbn; tauto).
  rewrite (cluster_ok d) by (apply Hv; cbn; tauto). reflexivity.
Qed.

Lemma xlookup_codes c : forall t f, xlookup c t = Some f -> In c (map fst t).
Proof. induction t as [|[k g] r IH]; cbn; [discriminate|]. intros f. destruct (Z.eqb_spec c k); [now left|]. intros H. right. now apply (IH f). Qed.
Lemma xtables_same_codes : map fst xspec_table = map fst xall_checks.
Proof. reflexivity. Qed.
Lemma xviolates_outside c d : ~ In c (map fst xall_checks) -> xviolates c d = false.
Proof.
  intros Hout. unfold xviolates. destruct (xlookup c xspec_table) as [f|] eqn:El; [|reflexivity]. exfalso. apply Hout.
  rewrite <- xtables_same_codes. now apply (xlookup_codes c xspec_table f).
Qed.
Lemma xcodes_documented : forall c, In c (map fst xall_checks) <-> In c gen_doc_validation.
Proof.
  assert (H1 : subset (map fst xall_checks) gen_doc_validation = true) by (vm_compute; reflexivity).
  assert (H2 : subset gen_doc_validation (map fst xall_checks) = true) by (vm_compute; reflexivity).
  intros c. split; apply subset_In; assumption.
Qed.
Lemma no_rule_iff d : (forall c, In c (map fst xall_checks) -> xviolates c d = false) <-> (forall c, In c gen_doc_validation -> xviolates c d = false).
Proof. split; intros H c Hc; apply H; now apply xcodes_documented. Qed.

Lemma xread_cases d : xknown d = false ->
  xread d = match xspec_result d with
            | VErr cs => RErr cs
            | VPanic => RPanic
            | VOk => if xtransport_fails (x_profiles d) (seen_matrices d) then RErr [2] else ROk
            end.
Proof.
  intros Hk. destruct (xknown_false d Hk) as (Hkb & _). unfold xread, xvalidate_pre.
  rewrite (xpre_ok d), (xvalidate_spec d Hkb).
  destruct (xspec_result_cases d) as [[E Hv]|(cs & E & _)]; rewrite E; [|reflexivity].
  rewrite (reader_steps_spec d Hk Hv). now destruct (xtransport_fails _ _).
Qed.

Lemma xread_total_l d : xknown d = false -> xread d <> RPanic.
Proof.
  intros Hk. rewrite (xread_cases d Hk). destruct (xspec_result_cases d) as [[E _]|(cs & E & _)]; rewrite E; [|discriminate].
  destruct (xtransport_fails _ _); discriminate.
Qed.
Lemma xaccept_iff_l d : xknown d = false ->
  (xread d = ROk <-> (forall c, In c gen_doc_validation -> xviolates c d = false)
                     /\ xtransport_fails (x_profiles d) (seen_matrices d) = false).
Proof.
  intros Hk. rewrite (xread_cases d Hk), <- no_rule_iff.
  destruct (xspec_result_cases d) as [[E Hv]|(cs & E & Hne & Hcs)]; rewrite E.
  - destruct (xtransport_fails _ _); split; try discriminate; try tauto. intros [_ H]. discriminate.
  - split; [discriminate|]. intros [H _]. exfalso. destruct cs as [|c cs]; [now apply Hne|].
    destruct (proj1 (Hcs c) (or_introl eq_refl)) as [Hin Hvi]. rewrite (H c Hin) in Hvi. discriminate.
Qed.
Lemma znodup_NoDup l : znodup l = true -> NoDup l.
Proof.
  induction l as [|x r IH]; cbn; intros Hn; constructor.
  - apply andb_prop in Hn. destruct Hn as [Hx _]. intro Hin. apply zmem_In in Hin. rewrite Hin in Hx. discriminate.
  - apply IH. apply andb_prop in Hn. tauto.
Qed.
Lemma xcodes_exact_l d cs : xknown d = false -> xread d = RErr cs ->
  (cs = [2] /\ (forall c, In c gen_doc_validation -> xviolates c d = false)
            /\ xtransport_fails (x_profiles d) (seen_matrices d) = true)
  \/ (cs <> [] /\ NoDup cs /\ forall c, In c cs <-> In c gen_doc_validation /\ xviolates c d = true).
Proof.
  intros Hk. rewrite (xread_cases d Hk).
  destruct (xspec_result_cases d) as [[E Hv]|(cs' & E & Hne & Hcs)]; rewrite E.
  - destruct (xtransport_fails _ _) eqn:Et; [|discriminate]. intros H. inversion H; subst. left. repeat split.
    now apply no_rule_iff.
  - intros H. inversion H; subst cs'. clear H. right. split; [exact Hne|]. split.
    + unfold xspec_result in E. destruct (filter _ _) eqn:Ef in E; [discriminate|]. inversion E; subst cs. rewrite <- Ef.
      apply NoDup_filter. apply znodup_NoDup. vm_compute. reflexivity.
    + intros c. rewrite Hcs, xcodes_documented. tauto.
Qed.
(* what validation buys the reader *)
Lemma xreader_safe_l d : xknown d = false -> (forall c, In c gen_doc_validation -> xviolates c d = false) ->
  fleet_panics (xbase d) = false /\ reserved_times_panic (xbase d) = false /\ reserved_fails (xbase d) = false
  /\ jobs_panic (xbase d) = false /\ conditional_panic (xbase d) = false /\ recharge_panics d = false
  /\ locks_panic d = false /\ goal_step d = SOk /\ cluster_step d = SOk
  /\ (xtransport_fails (x_profiles d) (seen_matrices d) = false -> jobs_index_panics d = false).
Proof.
  intros Hk Hv0. assert (Hv := proj2 (no_rule_iff d) Hv0). destruct (xknown_false d Hk) as (Hkb & K7x & X11 & X16 & G1 & G2).
  destruct (known_false _ Hkb) as (K7 & _). assert (Hb := base_rules d Hk Hv).
  repeat split.
  - exact (fleet_safe _ Hkb Hb).
  - exact (reserved_safe _ Hb).
  - exact (reserved_ok d G2).
  - exact (jobs_safe _ Hkb Hb).
  - exact (conditional_safe _ Hb).
  - exact (recharge_ok d X16).
  - apply (locks_ok d X11); apply Hv; cbn; tauto.
  - apply (goal_ok d G1 K7 K7x); apply Hv; cbn; tauto.
  - apply (cluster_ok d); apply Hv; cbn; tauto.
  - intros Et. apply (jobs_index_ok d); [apply Hv; cbn; tauto|apply Hv; cbn; tauto|exact Et].
Qed.

(* ---------- read WITHOUT routing matrices: the approximated matrices always become transport costs ---------- *)
Lemma forallb_const_true {A} (l : list A) : forallb (fun _ => true) l = true.
Proof. induction l; cbn; auto. Qed.
Lemma existsb_const_false {A} (l : list A) : existsb (fun _ => false) l = false.
Proof. induction l; cbn; auto. Qed.
Lemma dedup_nodup l : forall seen, nodupb l = true -> (forall x, In x l -> mem x seen = false) -> dedup_from seen l = l.
Proof.
  induction l as [|x r IH]; intros seen Hn Hs; [reflexivity|]. cbn [dedup_from nodupb] in *. apply andb_prop in Hn. destruct Hn as [Hx Hr].
  rewrite (Hs x (or_introl eq_refl)). f_equal. apply IH; [exact Hr|]. intros y Hy. unfold mem. cbn [existsb].
  fold (mem y seen). rewrite (Hs y (or_intror Hy)), orb_false_r. apply negb_true_iff in Hx. rewrite existsb_false in Hx.
  rewrite streqb_sym. now apply Hx.
Qed.
Lemma sequence_map_some {A B} (f : A -> option B) (g : A -> B) l : (forall x, f x = Some (g x)) -> sequence (map f l) = Some (map g l).
Proof. intros H. induction l as [|a l IH]; [reflexivity|]. cbn [map sequence]. now rewrite H, IH. Qed.
Lemma index_of_app_notin p pre r : mem p pre = false -> index_of p (pre ++ p :: r) = Some (List.length pre).
Proof.
  induction pre as [|q pre IH]; cbn [app index_of List.length mem existsb]; intros H.
  - now rewrite String.eqb_refl.
  - apply orb_false_iff in H. destruct H as [Hq Hp]. rewrite Hq. unfold mem in IH. now rewrite (IH Hp).
Qed.
Lemma nodupb_app_notin pre p r : nodupb (pre ++ p :: r) = true -> mem p pre = false.
Proof.
  induction pre as [|q pre IH]; cbn [app nodupb]; intros H; [reflexivity|]. apply andb_prop in H. destruct H as [Hq Hr].
  unfold mem. cbn [existsb]. fold (mem p pre). rewrite (IH Hr), orb_false_r. apply negb_true_iff in Hq. rewrite existsb_app in Hq.
  apply orb_false_iff in Hq. destruct Hq as [_ Hq]. cbn [existsb] in Hq. apply orb_false_iff in Hq. destruct Hq as [Hq _].
  now rewrite streqb_sym.
Qed.
Lemma approx_idxs (mk : string -> xmatrix) (Hmk : forall p, m_profile (xm_matrix (mk p)) = Some p) l' : forall pre,
  nodupb (pre ++ l') = true ->
  map (fun im : nat * xmatrix => match m_profile (xm_matrix (snd im)) with
                                 | Some p => match index_of p (pre ++ l') with Some k => k | None => fst im end
                                 | None => fst im end)
      (combine (seq (List.length pre) (List.length l')) (map mk l'))
  = seq (List.length pre) (List.length l').
Proof.
  induction l' as [|p r IH]; intros pre Hn; [reflexivity|]. cbn [List.length seq map combine fst snd]. rewrite Hmk.
  rewrite (index_of_app_notin p pre r (nodupb_app_notin pre p r Hn)). f_equal.
  specialize (IH (pre ++ [p])). rewrite <- app_assoc in IH. cbn [app] in IH. rewrite app_length in IH. cbn [List.length] in IH.
  replace (List.length pre + 1)%nat with (S (List.length pre)) in IH by lia. now apply IH.
Qed.
Lemma seq_not_below s k x : (x < s)%nat -> existsb (Nat.eqb x) (seq s k) = false.
Proof. intros H. apply existsb_false. intros y Hy. apply in_seq in Hy. apply Nat.eqb_neq. lia. Qed.
Lemma count_distinct_seq k : forall s, count_distinct (seq s k) = k.
Proof. induction k as [|k IH]; intros s; [reflexivity|]. cbn [seq count_distinct]. rewrite seq_not_below by lia. now rewrite IH. Qed.
Lemma nsort_seq k : forall s, nsort (seq s k) = seq s k.
Proof.
  induction k as [|k IH]; intros s; [reflexivity|]. cbn [seq nsort]. rewrite IH. destruct k as [|k]; [reflexivity|]. cbn [seq ninsert].
  destruct (Nat.leb_spec s (S s)); [reflexivity|lia].
Qed.
Lemma nat_list_eqb_refl l : nat_list_eqb l l = true.
Proof. induction l as [|x l IH]; [reflexivity|]. cbn. now rewrite Nat.eqb_refl. Qed.

Lemma approx_transport_ok d : x_matrices d = None -> existsb (fun s => s <=? 0) (x_speeds d) = false ->
  xviolates 1500 d = false -> xviolates 1501 d = false -> xviolates 1503 d = false ->
  xtransport_fails (x_profiles d) (seen_matrices d) = false.
Proof.
  intros Em Hsp H1500 H1501 H1503. change (xviolates 1500 d) with (xviol_1500 d) in H1500. change (xviolates 1501 d) with (xviol_1501 d) in H1501.
  change (xviolates 1503 d) with (xviol_1503 d) in H1503. unfold xviol_1500 in H1500. unfold xviol_1501 in H1501. unfold xviol_1503 in H1503.
  apply negb_false_iff in H1500, H1501. rewrite Em, andb_true_r in H1503.
  unfold seen_matrices, has_indices. change is_index with loc_is_index. rewrite Em, H1503. unfold approx_matrices, approx_skipped. rewrite Hsp.
  rewrite is_nil_nonempty, H1501. cbn [negb orb]. cbv zeta.
  set (n := List.length (ci_reverse (coord_index (x_locs d)))). set (R := repeat 0 (n * n)%nat).
  set (mk := fun p : string => mkXMatrix (mkMatrix (Some p) R R None) None).
  generalize dependent (x_profiles d). intros ps H1500 H1501.
  unfold xtransport_fails.
  assert (Hnamed : forallb (fun m => is_some (m_profile (xm_matrix m))) (map mk ps) = true) by (rewrite forallb_map; apply forallb_const_true).
  rewrite Hnamed. cbn [negb andb].
  assert (Hun : existsb (fun m => negb (is_some (m_profile (xm_matrix m)))) (map mk ps) = false) by (rewrite existsb_map; apply existsb_const_false).
  rewrite Hun. cbn [andb].
  rewrite (dedup_nodup ps [] H1500) by reflexivity. rewrite map_length, Nat.ltb_irrefl.
  rewrite map_map, (sequence_map_some (fun p => xmatrix_data (mk p)) (fun _ => (R, R)) ps) by reflexivity.
  assert (Hidx := approx_idxs mk (fun p => eq_refl) ps [] H1500). cbn [app List.length] in Hidx. rewrite Hidx.
  rewrite count_distinct_seq, Nat.eqb_refl. cbn [negb].
  assert (HR : List.length R = (n * n)%nat) by (unfold R; apply repeat_length).
  assert (Hst : existsb (fun m => is_some (xm_timestamp m)) (map mk ps) = false) by (rewrite existsb_map; apply existsb_const_false).
  rewrite Hst, nsort_seq, seq_length, nat_list_eqb_refl. cbn [negb].
  destruct ps as [|p0 pr]; [discriminate|]. cbn [map]. cbv zeta. cbn [fst snd existsb].
  rewrite HR, round_sqrt_square, !Nat.eqb_refl. cbn [negb orb]. rewrite !existsb_map. cbn [fst snd].
  rewrite HR, round_sqrt_square, !Nat.eqb_refl. cbn [negb orb]. now rewrite !existsb_const_false.
Qed.

(* documents read without routing matrices: the matrix step never fails once validation passed, the clauses need no E0002 part *)
Lemma xaccept_iff_nomatrix_l d : xknown d = false -> x_matrices d = None -> existsb (fun s => s <=? 0) (x_speeds d) = false ->
  (xread d = ROk <-> forall c, In c gen_doc_validation -> xviolates c d = false).
Proof.
  intros Hk Em Hsp. rewrite (xaccept_iff_l d Hk). split; [tauto|]. intros H. split; [exact H|].
  apply (approx_transport_ok d Em Hsp); apply H; vm_compute; tauto.
Qed.
Lemma xcodes_exact_nomatrix_l d cs : xknown d = false -> x_matrices d = None -> existsb (fun s => s <=? 0) (x_speeds d) = false ->
  xread d = RErr cs ->
  cs <> [] /\ NoDup cs /\ forall c, In c cs <-> In c gen_doc_validation /\ xviolates c d = true.
Proof.
  intros Hk Em Hsp Hr. destruct (xcodes_exact_l d cs Hk Hr) as [(_ & Hv & Ht)|H]; [|exact H]. exfalso.
  rewrite (approx_transport_ok d Em Hsp) in Ht; [discriminate| | |]; apply Hv; vm_compute; tauto.
Qed.

(* what a successful matrix step guarantees (the documented conditions of E0002 are necessary) *)
Lemma xtransport_ok_implies profiles ms : xtransport_fails profiles ms = false ->
  let named m := is_some (m_profile (xm_matrix m)) in
  let stamped m := is_some (xm_timestamp m) in
  (forallb named ms = true \/ forallb (fun m => negb (named m)) ms = true)
  /\ (existsb stamped ms = true -> forallb named ms = true /\ forallb stamped ms = true)
  /\ (List.length (dedup_from [] profiles) <= List.length ms)%nat
  /\ ms <> []
  /\ exists size, forall m, In m ms -> exists x y, xmatrix_data m = Some (x, y)
                                      /\ List.length x = (size * size)%nat /\ List.length y = (size * size)%nat.
Proof.
  unfold xtransport_fails. intros H. cbv zeta.
  destruct (forallb (fun m => is_some (m_profile (xm_matrix m))) ms) eqn:En;
  destruct (forallb (fun m => negb (is_some (m_profile (xm_matrix m)))) ms) eqn:Eu; cbn [negb andb] in H; try discriminate.
  - (* all named (and, vacuously, none): only the empty list *)
    destruct ms as [|m ms']; [|cbn [forallb] in En, Eu; destruct (is_some (m_profile (xm_matrix m))); discriminate].
    cbn in H. destruct (dedup_from [] profiles); cbn in H; discriminate.
  - assert (Hun : existsb (fun m => negb (is_some (m_profile (xm_matrix m)))) ms = false).
    { apply existsb_false. intros m Hm. rewrite forallb_forall in En. now rewrite (En m Hm). }
    rewrite Hun in H. cbn [andb] in H.
    destruct (Nat.ltb_spec (List.length ms) (List.length (dedup_from [] profiles))) as [|Hlen]; [discriminate|].
    destruct (sequence (map xmatrix_data ms)) as [datas|] eqn:Hseq; [|discriminate].
    match type of H with (if ?c then true else _) = false => destruct c; [discriminate|] end.
    destruct datas as [|d0 datas']; [discriminate|]. set (datas := d0 :: datas') in *. cbv zeta in H.
    repeat match type of H with (if existsb ?f datas then true else _) = false => let E := fresh "E" in destruct (existsb f datas) eqn:E; [discriminate|] end.
    assert (Hne : ms <> []) by (intros ->; discriminate).
    split; [now left|]. split; [|split; [exact Hlen|split; [exact Hne|]]].
    + intros Hs. rewrite Hs in H. apply orb_false_iff in H. destruct H as [Ha _]. apply negb_false_iff in Ha. tauto.
    + exists (round_sqrt (List.length (fst d0))). intros m Hm. apply sequence_some, forall2_map_l in Hseq.
      destruct (forall2_in_l _ _ _ Hseq m Hm) as ([x y] & Hin & Hd). exists x, y. split; [exact Hd|].
      rewrite existsb_false in E2. specialize (E2 _ Hin). cbn [fst snd] in E2. apply orb_false_iff in E2. destruct E2 as [Ey Ex].
      apply negb_false_iff, Nat.eqb_eq in Ey, Ex. tauto.
  - (* none named *)
    destruct (existsb (fun m => negb (is_some (m_profile (xm_matrix m)))) ms) eqn:Hun.
    + destruct (existsb (fun m => is_some (xm_timestamp m)) ms) eqn:Hst; [discriminate|]. cbn [andb] in H.
      destruct (Nat.ltb_spec (List.length ms) (List.length (dedup_from [] profiles))) as [|Hlen]; [discriminate|].
      destruct (sequence (map xmatrix_data ms)) as [datas|] eqn:Hseq; [|discriminate].
      match type of H with (if ?c then true else _) = false => destruct c; [discriminate|] end.
      destruct datas as [|d0 datas']; [discriminate|]. set (datas := d0 :: datas') in *. cbv zeta in H.
      repeat match type of H with (if existsb ?f datas then true else _) = false => let E := fresh "E" in destruct (existsb f datas) eqn:E; [discriminate|] end.
      assert (Hne : ms <> []) by (intros ->; discriminate).
      split; [now right|]. split; [discriminate|]. split; [exact Hlen|]. split; [exact Hne|].
      exists (round_sqrt (List.length (fst d0))). intros m Hm. apply sequence_some, forall2_map_l in Hseq.
      destruct (forall2_in_l _ _ _ Hseq m Hm) as ([x y] & Hin & Hd). exists x, y. split; [exact Hd|].
      rewrite existsb_false in E2. specialize (E2 _ Hin). cbn [fst snd] in E2. apply orb_false_iff in E2. destruct E2 as [Ey Ex].
      apply negb_false_iff, Nat.eqb_eq in Ey, Ex. tauto.
    + (* no unnamed matrix although none is named: the empty list again *)
      destruct ms as [|m ms']; [cbn in En; discriminate|]. cbn [existsb forallb] in Hun, Eu. apply orb_false_iff in Hun. destruct Hun as [Hm _].
      apply andb_prop in Eu. destruct Eu as [Em _]. congruence.
Qed.

(* ---------- the extended model is conservative over the base model ---------- *)
Lemma has_location_any d : has_location d = any_location d.
Proof. reflexivity. Qed.

Lemma filter_skip {A} (f : A -> bool) x l : f x = false -> filter f (x :: l) = filter f l.
Proof. intros H. cbn [filter]. now rewrite H. Qed.
Lemma filter_congr {A} (f g : A -> bool) x l l' : f x = g x -> filter f l = filter g l' -> filter f (x :: l) = filter g (x :: l').
Proof. intros H E. cbn [filter]. now rewrite H, E. Qed.
Lemma base_document_spec_result d : is_base_document d = true -> xspec_result d = spec_result (xbase d).
Proof.
  unfold is_base_document. intros H. repeat (apply andb_prop in H; destruct H as [H ?]).
  destruct (x_relations d) eqn:Er; [discriminate|]. destruct (x_objectives d) eqn:Eo; [discriminate|].
  destruct (x_clustering d) eqn:Ec; [discriminate|]. destruct (x_matrices d) eqn:Em; [discriminate|].
  match goal with Hs : negb (existsb (fun s => s <=? 0) _) = true |- _ => apply negb_true_iff in Hs; rename Hs into Hsp end.
  match goal with Hi : negb (existsb is_index _) = true |- _ => apply negb_true_iff in Hi; rename Hi into Hidx end.
  match goal with Hl : Bool.eqb _ _ = true |- _ => apply Bool.eqb_prop in Hl; rename Hl into Hloc end.
  assert (R : forall c, In c [1200; 1201; 1202; 1203; 1204; 1205; 1206; 1207] -> xviolates c d = false).
  { intros c Hc. cbn [In] in Hc. repeat (destruct Hc as [<-|Hc]; [unfold xviolates; cbn [xlookup xspec_table Z.eqb Pos.eqb];
      unfold viol_1200, viol_1201, viol_1202, viol_1203, viol_1204, viol_1205, viol_1206, viol_1207, RulesX.rels; now rewrite Er|]). destruct Hc. }
  assert (O : forall c, In c [1600; 1601; 1602; 1603; 1604; 1605; 1606; 1607] -> xviolates c d = false).
  { intros c Hc. cbn [In] in Hc. repeat (destruct Hc as [<-|Hc]; [unfold xviolates; cbn [xlookup xspec_table Z.eqb Pos.eqb];
      unfold viol_1600, viol_1601, viol_1602, viol_1603, viol_1604, viol_1605, viol_1606, viol_1607, with_objectives; now rewrite Eo|]). destruct Hc. }
  assert (H1502 : xviolates 1502 d = false).
  { change (xviolates 1502 d) with (xviol_1502 d). unfold xviol_1502. change loc_is_index with is_index. now rewrite Hidx. }
  assert (H1503 : xviolates 1503 d = false).
  { change (xviolates 1503 d) with (xviol_1503 d). unfold xviol_1503. change loc_is_index with is_index. now rewrite Hidx. }
  assert (H1504 : xviolates 1504 d = violates 1504 (xbase d)).
  { change (xviolates 1504 d) with (xviol_1504 d). change (violates 1504 (xbase d)) with (Rules.viol_1504 (xbase d)).
    unfold xviol_1504, Rules.viol_1504. rewrite Em. change loc_is_index with is_index. rewrite Hidx, Hloc, has_location_any, Hsp. cbn [negb]. now rewrite andb_true_r. }
  assert (H1505 : xviolates 1505 d = violates 1505 (xbase d)).
  { change (xviolates 1505 d) with (xviol_1505 d). change (violates 1505 (xbase d)) with (Rules.viol_1505 (xbase d)).
    unfold xviol_1505. rewrite Ec. apply orb_false_r. }
  unfold xspec_result, spec_result.
  assert (E : filter (fun c => xviolates c d) (map fst xall_checks) = filter (fun c => violates c (xbase d)) (map fst all_checks)).
  { change (map fst xall_checks) with
      [1100; 1101; 1102; 1103; 1104; 1105; 1106; 1107; 1300; 1301; 1302; 1303; 1304; 1306; 1307; 1308;
       1600; 1601; 1602; 1603; 1604; 1605; 1606; 1607; 1500; 1501; 1502; 1503; 1504; 1505;
       1200; 1201; 1202; 1203; 1204; 1205; 1206; 1207].
    change (map fst all_checks) with
      [1100; 1101; 1102; 1103; 1104; 1105; 1106; 1107; 1300; 1301; 1302; 1303; 1304; 1306; 1307; 1308; 1500; 1501; 1504; 1505].
    do 16 (apply filter_congr; [reflexivity|]).
    do 8 (rewrite filter_skip by (apply O; cbn; tauto)).
    do 2 (apply filter_congr; [reflexivity|]).
    rewrite filter_skip by exact H1502. rewrite filter_skip by exact H1503.
    apply filter_congr; [exact H1504|]. apply filter_congr; [exact H1505|].
    do 8 (rewrite filter_skip by (apply R; cbn; tauto)). reflexivity. }
  now rewrite E.
Qed.

Lemma xconservative_l d : is_base_document d = true -> xknown d = false -> xread d = read (xbase d).
Proof.
  intros Hp Hk. destruct (xknown_false d Hk) as (Hkb & _).
  rewrite (xread_cases d Hk), (base_document_spec_result d Hp).
  unfold read, validate_approx. rewrite (approx_ok (xbase d)), (validate_spec (xbase d) Hkb).
  destruct (spec_result_cases (xbase d)) as [[E Hv]|(cs & E & _)]; rewrite E; [|reflexivity].
  rewrite (read_tail_ok (xbase d) Hkb Hv).
  assert (Hx : xspec_result d = VOk) by (rewrite (base_document_spec_result d Hp); exact E).
  destruct (xspec_result_cases d) as [[_ Hxv]|(cs & E' & _)]; [|congruence].
  unfold is_base_document in Hp. repeat (apply andb_prop in Hp; destruct Hp as [Hp ?]).
  destruct (x_matrices d) eqn:Em; [discriminate|].
  match goal with Hs : negb (existsb (fun s => s <=? 0) _) = true |- _ => apply negb_true_iff in Hs; rename Hs into Hsp end.
  rewrite (approx_transport_ok d Em Hsp); [reflexivity| | |]; apply Hxv; cbn; tauto.
Qed.

(* ---------- witnesses on the extended document (evaluated, not assumed) ---------- *)
Local Open Scope string_scope.
Definition xw_job : xjob := mkXJob (w_delivery None [1]) None [].
Definition xw_vehicle (s : shift) : xvehicle := mkXVehicle (w_vehicle [10] s) [] None None None.
Definition xw_matrix (n : nat) : xmatrix := mkXMatrix (mkMatrix (Some "car") (repeat 1 (n * n)%nat) (repeat 1 (n * n)%nat) None) None.
Definition xw_doc (vs : list xvehicle) (speeds : list Z) (locs : list loc) (rels : option (list relation))
                  (objs : option (list objective)) (ms : option (list xmatrix)) : xdoc :=
  mkXDoc [xw_job] vs ["car"] speeds None [] locs rels objs None ms.
Definition three_indices : list loc := [LIndex 0; LIndex 1; LIndex 2]%nat.
Definition three_coords : list loc := [LCoord 1; LCoord 2; LCoord 3].
(* index locations with a 3x3 matrix, a strict relation from departure, a multi-objective: accepted *)
Definition xw_ok : xdoc :=
  xw_doc [xw_vehicle w_shift] [] three_indices (Some [mkRel RStrict ["departure"; "job1"] "v1" (Some 0%nat)])
         (Some [OObj 6 0; OMulti SSum [IObj 0 0; IObj 9 0]]) (Some [xw_matrix 3]).
(* an unknown job in a relation, no cost objective, mixed location kinds: one code of each new group *)
Definition xw_rejected : xdoc :=
  xw_doc [xw_vehicle w_shift] [] [LIndex 0; LCoord 7; LIndex 2]%nat (Some [mkRel RAny ["job1"; "nojob"] "v1" None])
         (Some [OObj 6 0]) (Some [xw_matrix 3]).
(* X11: `break` in a relation, the shift has a required break only (E1206 is content: `breaks` is present) *)
Definition xw_x11 : xdoc :=
  xw_doc [xw_vehicle (mkShift (wt 0) None (Some (wt 100)) (Some [BReqExact (wt 10) (wt 20) 5]) None)] [] three_coords
         (Some [mkRel RAny ["job1"; "break"] "v1" None]) None None.
(* X14: no matrix, coordinates, speed 0 *)
Definition xw_x14 : xdoc := xw_doc [xw_vehicle w_shift] [0] three_coords None None None.
(* X16: a recharge station with an unparsable time *)
Definition xw_x16 : xdoc :=
  xw_doc [mkXVehicle (w_vehicle [10] w_shift) [Some [Some [[wbad; wt 5]]]] None None None] [] [LCoord 1; LCoord 2; LCoord 3; LCoord 4]
         None None None.
(* G1: a weighted sum with one weight for two objectives *)
Definition xw_g1 : xdoc :=
  xw_doc [xw_vehicle w_shift] [] three_coords None (Some [OObj 6 0; OMulti (SWeighted 1) [IObj 0 0; IObj 9 0]]) None.
(* G2: an exact and an offset required break in one shift *)
Definition xw_g2 : xdoc :=
  xw_doc [xw_vehicle (mkShift (wt 0) (Some (wt 0)) (Some (wt 100)) (Some [BReqExact (wt 10) (wt 20) 5; BReqOff 40 50 5]) None)] []
         three_coords None None None.

Definition xbreaks_no_rule (d : xdoc) : Prop := forall c, In c gen_doc_validation -> xviolates c d = false.
Lemma xbreaks_no_rule_dec d : forallb (fun c => negb (xviolates c d)) gen_doc_validation = true -> xbreaks_no_rule d.
Proof. intros H c Hc. rewrite forallb_forall in H. apply negb_true_iff. now apply H. Qed.

Lemma xnonvacuous_l : xknown xw_ok = false /\ xbreaks_no_rule xw_ok /\ xread xw_ok = ROk.
Proof. split; [|split]; [vm_compute; reflexivity|apply xbreaks_no_rule_dec; vm_compute; reflexivity|vm_compute; reflexivity]. Qed.
Lemma xnonvacuous_err_l : xknown xw_rejected = false /\ xread xw_rejected = RErr [1602; 1502; 1200].
Proof. split; vm_compute; reflexivity. Qed.
Lemma x11_witness : x11_special_without_job xw_x11 = true /\ xbreaks_no_rule xw_x11 /\ xvalidate xw_x11 = VOk /\ xread xw_x11 = RPanic.
Proof. split; [|split; [apply xbreaks_no_rule_dec|split]]; vm_compute; reflexivity. Qed.
(* X14 was repaired in /repo: a speed that is not positive skips the approximation, the matrix step answers E0002 *)
Lemma x14_fixed_l : x14_speed_not_positive xw_x14 = true /\ xknown xw_x14 = false /\ xbreaks_no_rule xw_x14 /\ xvalidate_pre xw_x14 = VOk
  /\ xtransport_fails (x_profiles xw_x14) (seen_matrices xw_x14) = true /\ xread xw_x14 = RErr [2].
Proof. split; [|split; [|split; [apply xbreaks_no_rule_dec|split; [|split]]]]; vm_compute; reflexivity. Qed.
Lemma x16_witness : x16_recharge_times xw_x16 = true /\ xbreaks_no_rule xw_x16 /\ xvalidate xw_x16 = VOk /\ xread xw_x16 = RPanic.
Proof. split; [|split; [apply xbreaks_no_rule_dec|split]]; vm_compute; reflexivity. Qed.
Lemma g1_witness : g1_goal_unbuildable xw_g1 = true /\ xbreaks_no_rule xw_g1
  /\ xtransport_fails (x_profiles xw_g1) (seen_matrices xw_g1) = false /\ xread xw_g1 = RErr [0].
Proof. split; [|split; [apply xbreaks_no_rule_dec|split]]; vm_compute; reflexivity. Qed.
Lemma g2_witness : g2_required_breaks xw_g2 = true /\ xbreaks_no_rule xw_g2
  /\ xtransport_fails (x_profiles xw_g2) (seen_matrices xw_g2) = false /\ xread xw_g2 = RErr [2].
Proof. split; [|split; [apply xbreaks_no_rule_dec|split]]; vm_compute; reflexivity. Qed.
