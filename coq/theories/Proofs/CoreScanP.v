(* C06: completeness of the exhaustive scan (analyze_insertion_in_route with LegSelection::Exhaustive) for closed tours and
   jobs with one place and one time window. *)
From VRP Require Import Base.Tac Model.Core Spec.Feasible Proofs.CoreTimeP Proofs.CoreCapP Proofs.CoreEvalP.

Section Scan.
Variable dur : Z -> Z -> Z.
Variable est : list act -> nat -> act -> Z.
Variable v : vehicle.
Variable t : list act.
Variable j : single.
Variable p : place.
Variable w : Z * Z.
Variable rc : Z.
Hypothesis Hj : s_places j = [p].
Hypothesis Hp : p_tws p = [w].

Definition d0 := mkAct (-1) 0 0 0 0 dzero 0 0.
Definition target (idx : nat) : act := mk_target j (nth idx t d0) p w.
Definition pdata (idx : nat) := (0%nat, a_loc (target idx), a_svc (target idx), a_tws (target idx), a_twe (target idx)).

Lemma scan_leg_single : forall idx c,
  scan_leg dur est v t idx j rc c =
  match eval_activity dur v t idx (target idx) with
  | Some (code, st) => (mkSctx (Some (code, st)) (sc_index c) (sc_cost c) (sc_place c), st)
  | None =>
    let costs := est t idx (target idx) + rc in
    ((if match sc_cost c with Some o => costs <? o | None => true end
      then mkSctx None idx (Some costs) (Some (pdata idx)) else c), false)
  end.
Proof.
  intros idx c. unfold scan_leg. rewrite Hj. cbn [scan_places]. rewrite Hp. cbn [scan_windows].
  fold d0. fold (target idx).
  destruct (eval_activity dur v t idx (target idx)) as [[code st]|] eqn:E.
  - destruct st; reflexivity.
  - unfold pdata. destruct (match sc_cost c with Some o => est t idx (target idx) + rc <? o | None => true end); reflexivity.
Qed.

(* bookkeeping invariant of the scan context *)
Definition ctx_ok (c : sctx) : Prop :=
  (sc_cost c = None <-> sc_place c = None) /\
  (forall pl, sc_place c = Some pl -> eval_activity dur v t (sc_index c) (target (sc_index c)) = None /\ pl = pdata (sc_index c)).

Lemma ctx_ok_init : ctx_ok (mkSctx None 0 None None).
Proof. split; cbn; [tauto|]. intros pl H; discriminate. Qed.

Lemma scan_leg_ok : forall idx c, ctx_ok c -> ctx_ok (fst (scan_leg dur est v t idx j rc c)).
Proof.
  intros idx c [H1 H2]. rewrite scan_leg_single.
  destruct (eval_activity dur v t idx (target idx)) as [[code st]|] eqn:E; cbn [fst].
  - split; cbn; [exact H1|exact H2].
  - destruct (match sc_cost c with Some o => est t idx (target idx) + rc <? o | None => true end).
    + split; cbn; [split; discriminate|]. intros pl Hpl. inversion Hpl; subst. auto.
    + split; assumption.
Qed.

Lemma scan_leg_found_kept : forall idx c, sc_place c <> None -> sc_place (fst (scan_leg dur est v t idx j rc c)) <> None.
Proof.
  intros idx c H. rewrite scan_leg_single.
  destruct (eval_activity dur v t idx (target idx)) as [[code st]|]; cbn [fst]; [exact H|].
  destruct (match sc_cost c with Some o => _ | None => true end); cbn; [discriminate|exact H].
Qed.

Lemma scan_leg_accept_found : forall idx c, ctx_ok c ->
  eval_activity dur v t idx (target idx) = None -> sc_place (fst (scan_leg dur est v t idx j rc c)) <> None.
Proof.
  intros idx c [H1 _] E. rewrite scan_leg_single, E. cbn [fst].
  destruct (sc_cost c) as [o|] eqn:Ec.
  - destruct (est t idx (target idx) + rc <? o); cbn; [discriminate|].
    intros Hn. apply H1 in Hn. congruence.
  - cbn. discriminate.
Qed.

Lemma scan_legs_ok : forall n idx c, ctx_ok c -> ctx_ok (scan_legs dur est v t j rc idx n c).
Proof.
  induction n as [|n IH]; intros idx c Hc; cbn [scan_legs]; [exact Hc|].
  pose proof (scan_leg_ok idx c Hc) as Hl.
  destruct (scan_leg dur est v t idx j rc c) as [c' stop]. cbn [fst] in Hl. destruct stop; [exact Hl|apply IH; exact Hl].
Qed.

Lemma scan_legs_found_kept : forall n idx c, sc_place c <> None -> sc_place (scan_legs dur est v t j rc idx n c) <> None.
Proof.
  induction n as [|n IH]; intros idx c Hc; cbn [scan_legs]; [exact Hc|].
  pose proof (scan_leg_found_kept idx c Hc) as Hl.
  destruct (scan_leg dur est v t idx j rc c) as [c' stop]. cbn [fst] in Hl. destruct stop; [exact Hl|apply IH; exact Hl].
Qed.

(* the index stored with a found place is one of the legs visited *)
Lemma scan_leg_index : forall idx c b, (sc_place c <> None -> (sc_index c < b)%nat) -> (idx < b)%nat ->
  sc_place (fst (scan_leg dur est v t idx j rc c)) <> None -> (sc_index (fst (scan_leg dur est v t idx j rc c)) < b)%nat.
Proof.
  intros idx c b Hc Hidx. rewrite scan_leg_single.
  destruct (eval_activity dur v t idx (target idx)) as [[code st]|]; cbn [fst]; [exact Hc|].
  destruct (match sc_cost c with Some o => _ | None => true end); cbn; [intros _; exact Hidx|exact Hc].
Qed.

Lemma scan_legs_index : forall n idx c, (sc_place c <> None -> (sc_index c < idx + n)%nat) ->
  sc_place (scan_legs dur est v t j rc idx n c) <> None -> (sc_index (scan_legs dur est v t j rc idx n c) < idx + n)%nat.
Proof.
  induction n as [|n IH]; intros idx c Hc; cbn [scan_legs]; [exact Hc|].
  pose proof (scan_leg_index idx c (idx + S n)%nat Hc ltac:(lia)) as Hl.
  destruct (scan_leg dur est v t idx j rc c) as [c' stop]. cbn [fst] in Hl. destruct stop; [exact Hl|].
  replace (idx + S n)%nat with (S idx + n)%nat in * by lia. apply IH. exact Hl.
Qed.

(* if some leg k in [idx, idx+n) is accepted and no earlier leg in that range answers "stop", the scan finds a place *)
Lemma scan_legs_complete : forall n idx c k,
  ctx_ok c -> (idx <= k < idx + n)%nat ->
  eval_activity dur v t k (target k) = None ->
  (forall i code, (idx <= i < k)%nat -> eval_activity dur v t i (target i) <> Some (code, true)) ->
  sc_place (scan_legs dur est v t j rc idx n c) <> None.
Proof.
  induction n as [|n IH]; intros idx c k Hc Hk Ek Hns; [lia|]. cbn [scan_legs].
  destruct (Nat.eq_dec idx k) as [->|Hne].
  - pose proof (scan_leg_accept_found k c Hc Ek) as Hf.
    destruct (scan_leg dur est v t k j rc c) as [c' stop] eqn:El. cbn [fst] in Hf.
    destruct stop; [exact Hf|apply scan_legs_found_kept; exact Hf].
  - pose proof (scan_leg_ok idx c Hc) as Hok.
    destruct (scan_leg dur est v t idx j rc c) as [c' stop] eqn:El. cbn [fst] in Hok.
    destruct stop.
    + (* a stop at idx < k: impossible by hypothesis *)
      exfalso. rewrite scan_leg_single in El.
      destruct (eval_activity dur v t idx (target idx)) as [[code st]|] eqn:E.
      * inversion El; subst. apply (Hns idx code); [lia|exact E].
      * inversion El.
    + apply (IH (S idx) c' k Hok); [lia|exact Ek|]. intros i code Hi. apply Hns. lia.
Qed.
End Scan.
