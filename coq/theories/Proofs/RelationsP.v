(* Spec/Relations.v: the relation-pinning checker reports nothing iff the declarative statement RelPinned holds. *)
From VRP Require Import Base.Tac Model.Core Spec.Feasible Spec.Intervals Spec.Valid Proofs.ValidP Spec.Relations.

Lemma list_eqb_iff : forall a b, list_eqb a b = true <-> a = b.
Proof.
  induction a as [|x a IH]; intros [|y b]; cbn [list_eqb].
  - split; reflexivity.
  - split; discriminate.
  - split; discriminate.
  - rewrite andb_true_iff, Z.eqb_eq, IH. split; [intros [-> ->]; reflexivity|intros H; injection H as -> ->; auto].
Qed.

Lemma prefix_b_iff : forall l ids, prefix_b l ids = true <-> exists post, ids = l ++ post.
Proof.
  induction l as [|x l IH]; intros ids; cbn [prefix_b].
  - split; [intros _; exists ids; reflexivity|reflexivity].
  - destruct ids as [|y ids].
    + split; [discriminate|intros [post H]; discriminate].
    + rewrite andb_true_iff, Z.eqb_eq, IH. split.
      * intros [-> [post ->]]. exists post. reflexivity.
      * intros [post H]. cbn [app] in H. injection H as -> ->. split; [reflexivity|exists post; reflexivity].
Qed.

Lemma infix_b_iff l : forall ids, infix_b l ids = true <-> exists pre post, ids = pre ++ l ++ post.
Proof.
  induction ids as [|y ids IH]; cbn [infix_b]; rewrite orb_true_iff, prefix_b_iff.
  - split.
    + intros [[post H]|H]; [exists [], post; exact H|discriminate].
    + intros [pre [post H]]. left. destruct pre; [exists post; exact H|discriminate].
  - rewrite IH. split.
    + intros [[post H]|[pre [post H]]]; [exists [], post; exact H|exists (y :: pre), post; cbn [app]; rewrite H; reflexivity].
    + intros [pre [post H]]. destruct pre as [|z pre]; cbn [app] in H.
      * left. exists post. exact H.
      * right. injection H as _ H. exists pre, post. exact H.
Qed.

Lemma suffix_b_iff l ids : suffix_b l ids = true <-> exists pre, ids = pre ++ l.
Proof.
  unfold suffix_b. rewrite prefix_b_iff. split.
  - intros [post H]. exists (rev post). rewrite <- (rev_involutive ids), H, rev_app_distr, rev_involutive. reflexivity.
  - intros [pre ->]. exists (rev pre). apply rev_app_distr.
Qed.

Lemma is_rel_tour_iff r t : is_rel_tour r t = true <-> to_vehicle t = rl_vehicle r /\ to_shift t = rl_shift r.
Proof. unfold is_rel_tour. rewrite andb_true_iff, Z.eqb_eq, Nat.eqb_eq. reflexivity. Qed.

Lemma serves_iff t j : serves t j = true <-> In j (mid_ids t).
Proof. apply zmem_In. Qed.

Lemma rel_vehicle_a r S :
  forallb (fun t => is_rel_tour r t || negb (existsb (serves t) (rel_ids r))) (sl_tours S) = true <->
  (forall t j, In t (sl_tours S) -> In j (rel_ids r) -> In j (mid_ids t) ->
               to_vehicle t = rl_vehicle r /\ to_shift t = rl_shift r).
Proof.
  rewrite forallb_forall. split.
  - intros H t j Ht Hj Hin. specialize (H t Ht). apply orb_true_iff in H. destruct H as [H|H].
    + apply is_rel_tour_iff. exact H.
    + apply negb_true_iff in H. exfalso.
      assert (E : existsb (serves t) (rel_ids r) = true).
      { apply existsb_exists. exists j. split; [exact Hj|apply serves_iff; exact Hin]. }
      congruence.
  - intros H t Ht. destruct (is_rel_tour r t) eqn:E; [reflexivity|]. cbn [orb]. apply negb_true_iff.
    destruct (existsb (serves t) (rel_ids r)) eqn:E2; [|reflexivity]. exfalso.
    apply existsb_exists in E2. destruct E2 as [j [Hj Hs]]. apply serves_iff in Hs.
    assert (E3 : is_rel_tour r t = true) by (apply is_rel_tour_iff; apply (H t j Ht Hj Hs)). congruence.
Qed.

Lemma rel_vehicle_b r S :
  (rl_type r =? 0) || forallb (fun j => existsb (fun t => is_rel_tour r t && serves t j) (sl_tours S)) (rel_ids r) = true <->
  (rl_type r <> 0 -> forall j, In j (rel_ids r) ->
     exists t, In t (sl_tours S) /\ to_vehicle t = rl_vehicle r /\ to_shift t = rl_shift r /\ In j (mid_ids t)).
Proof.
  rewrite orb_true_iff, Z.eqb_eq, forallb_forall. split.
  - intros [H|H] Hne j Hj; [contradiction|]. specialize (H j Hj). apply existsb_exists in H. destruct H as [t [Ht Hb]].
    apply andb_true_iff in Hb. destruct Hb as [H1 H2]. apply is_rel_tour_iff in H1. apply serves_iff in H2. exists t. tauto.
  - intros H. destruct (Z.eq_dec (rl_type r) 0) as [E|E]; [left; exact E|right]. intros j Hj.
    destruct (H E j Hj) as [t [Ht [Hv [Hs Hin]]]]. apply existsb_exists. exists t. split; [exact Ht|].
    apply andb_true_iff. split; [apply is_rel_tour_iff; auto|apply serves_iff; exact Hin].
Qed.

Lemma rel_vehicle_ok_iff r S : rel_vehicle_ok r S = true <-> VehiclePinned r S.
Proof. unfold rel_vehicle_ok, VehiclePinned. rewrite andb_true_iff, rel_vehicle_a, rel_vehicle_b. reflexivity. Qed.

Lemma rel_anchor_ok_iff r t : rel_anchor_ok r t = true <-> Anchored r t.
Proof.
  unfold rel_anchor_ok, Anchored. rewrite andb_true_iff, !orb_true_iff, !negb_true_iff, prefix_b_iff, suffix_b_iff. split.
  - intros [H1 H2]. split; intros E; [destruct H1 as [H1|H1]|destruct H2 as [H2|H2]]; try congruence; assumption.
  - intros [H1 H2]. split.
    + destruct (rel_from_departure r); [right; apply H1; reflexivity|left; reflexivity].
    + destruct (rel_to_arrival r); [right; apply H2; reflexivity|left; reflexivity].
Qed.

Lemma rel_viol_nil S k r : rel_viol S k r = [] <-> RelPinned S r.
Proof.
  unfold rel_viol, RelPinned, InOrder, Contiguous, rel_order_ok, rel_contiguous_ok.
  rewrite app_nil_iff, if_nil_iff, flat_map_nil_iff, rel_vehicle_ok_iff. split.
  - intros [HV HT]. split; [exact HV|]. intros t Ht Hv Hs. specialize (HT t Ht). cbv beta in HT.
    assert (E : is_rel_tour r t = true) by (apply is_rel_tour_iff; auto). rewrite E in HT.
    rewrite !app_nil_iff, !ifn_nil_iff in HT. destruct HT as [H1 [H2 H3]]. split.
    + intros Hty. apply andb_false_iff in H1. destruct H1 as [H1|H1].
      * apply Z.leb_gt in H1. lia.
      * apply negb_false_iff in H1. apply list_eqb_iff. exact H1.
    + intros Hty. apply andb_false_iff in H2. apply andb_false_iff in H3. split.
      * destruct H2 as [H2|H2]; [apply Z.eqb_neq in H2; contradiction|].
        apply negb_false_iff in H2. apply infix_b_iff. exact H2.
      * destruct H3 as [H3|H3]; [apply Z.eqb_neq in H3; contradiction|].
        apply negb_false_iff in H3. apply rel_anchor_ok_iff. exact H3.
  - intros [HV HT]. split; [exact HV|]. intros t Ht. destruct (is_rel_tour r t) eqn:E; [|reflexivity].
    apply is_rel_tour_iff in E. destruct E as [Hv Hs]. destruct (HT t Ht Hv Hs) as [Ho Hc].
    rewrite !app_nil_iff, !ifn_nil_iff. split; [|split].
    + destruct (1 <=? rl_type r) eqn:E1; [|reflexivity]. cbn [andb]. apply negb_false_iff. apply list_eqb_iff.
      apply Ho. apply Z.leb_le. exact E1.
    + destruct (rl_type r =? 2) eqn:E2; [|reflexivity]. cbn [andb]. apply negb_false_iff. apply infix_b_iff.
      apply Hc. apply Z.eqb_eq. exact E2.
    + destruct (rl_type r =? 2) eqn:E2; [|reflexivity]. cbn [andb]. apply negb_false_iff. apply rel_anchor_ok_iff.
      apply Hc. apply Z.eqb_eq. exact E2.
Qed.

Lemma rel_viols_nil rels S : rel_viols rels S = [] <-> forall r, In r rels -> RelPinned S r.
Proof.
  unfold rel_viols. rewrite mapi_nil_iff. split.
  - intros H r Hr. apply In_nth_error in Hr. destruct Hr as [n Hn]. apply (rel_viol_nil S (Z.of_nat n)). apply H. exact Hn.
  - intros H n r Hn. apply rel_viol_nil. apply H. eapply nth_error_In. exact Hn.
Qed.

(* ------------------------------------------------------------------ non-vacuity *)
(* ex_S of Proofs/ValidP.v serves job 1 with vehicle 1, shift 0 *)
Lemma ex_rel :
  rel_viols [mkPRel 2 1 0%nat [REL_DEPARTURE; 1; REL_ARRIVAL]] ex_S = []
  /\ rel_viols [mkPRel 0 2 0%nat [1]] ex_S = [FRelVehicle 0]
  /\ rel_viols [mkPRel 1 1 0%nat [2; 1]] ex_S = [FRelVehicle 0; FRelOrder 0].
Proof. repeat split; vm_compute; reflexivity. Qed.
