(* Time-window part of C06/C01: exactness of the cached "latest arrival" and soundness / completeness of
   TransportConstraint::evaluate_activity against the step-by-step simulation. *)
From VRP Require Import Base.Tac Model.Core Spec.Feasible.

Section WithRouting.
Variable dur : Z -> Z -> Z.
Notation sim_time := (sim_time dur).
Notation latest_of := (latest_of dur).
Notation eval_time := (eval_time dur).

(* T1: if a non-empty tail is feasible for SOME way of reaching it, then for EVERY way of reaching it
   it is feasible exactly when the arrival at its head is not later than the cached latest arrival *)
Lemma latest_exact : forall a r loc0 dep0,
  sim_time loc0 dep0 (a :: r) = true ->
  forall loc dep, sim_time loc dep (a :: r) = true <-> dep + dur loc (a_loc a) <= latest_of (a :: r).
Proof.
  intros a r; revert a; induction r as [|b r IH]; intros a loc0 dep0 H0 loc dep.
  - cbn [Feasible.sim_time Core.latest_of]. rewrite andb_true_r. lia.
  - cbn [Feasible.sim_time] in H0. apply andb_true_iff in H0 as [H0a H0b].
    specialize (IH b _ _ H0b).
    change (Feasible.sim_time dur loc dep (a :: b :: r)) with
      ((dep + dur loc (a_loc a) <=? a_twe a) && sim_time (a_loc a) (Z.max (dep + dur loc (a_loc a)) (a_tws a) + a_svc a) (b :: r)).
    change (Core.latest_of dur (a :: b :: r)) with (est_arrival a (latest_of (b :: r) - dur (a_loc a) (a_loc b))).
    rewrite andb_true_iff, IH. pose proof (proj1 (IH _ _) H0b) as Hs. unfold est_arrival. lia.
Qed.

(* cached schedules agree with the walk: what update_schedules establishes *)
Fixpoint sched_ok_from (loc dep : Z) (acts : list act) : Prop :=
  match acts with
  | [] => True
  | a :: r => a_arr a = dep + dur loc (a_loc a) /\ a_dep a = est_departure a (a_arr a) /\ sched_ok_from (a_loc a) (a_dep a) r
  end.
Definition sched_ok (t : list act) : Prop :=
  match t with [] => True | s :: r => sched_ok_from (a_loc s) (a_dep s) r end.

Lemma sched_ok_resched : forall acts loc dep, sched_ok_from loc dep (resched_from dur loc dep acts).
Proof. induction acts as [|a r IH]; intros; cbn; auto. Qed.

Lemma sched_ok_from_app : forall A B loc dep, sched_ok_from loc dep (A ++ B) -> sched_ok_from loc dep A.
Proof. induction A as [|a A IH]; intros B loc dep H; cbn in *; auto. destruct H as (H1 & H2 & H3). eauto. Qed.

Lemma sim_split : forall A p B loc dep,
  sched_ok_from loc dep (A ++ [p]) ->
  sim_time loc dep (A ++ p :: B) = sim_time loc dep (A ++ [p]) && sim_time (a_loc p) (a_dep p) B.
Proof.
  induction A as [|a A IH]; intros p B loc dep H.
  - cbn in *. destruct H as (H1 & H2 & _). rewrite andb_true_r. rewrite H2, H1. reflexivity.
  - cbn [app Feasible.sim_time sched_ok_from] in *. destruct H as (H1 & H2 & H3).
    rewrite <- andb_assoc. f_equal. rewrite H2, H1 in H3. unfold est_departure in H3. apply IH. exact H3.
Qed.

(* soundness of the O(1) time test: the tail after `prev` stays feasible when `target` is put in front of it *)
Lemma eval_time_sound : forall v prev target nexts,
  sim_time (a_loc prev) (a_dep prev) nexts = true ->
  eval_time v prev target nexts = None ->
  sim_time (a_loc prev) (a_dep prev) (target :: nexts) = true.
Proof.
  intros v prev target nexts Hs He. unfold Core.eval_time in He.
  destruct (_ || _) eqn:E0; [discriminate|].
  destruct nexts as [|n r].
  - cbn [Feasible.sim_time]. rewrite andb_true_r.
    destruct (Z.min (a_twe target) (v_shift_end v) <? a_dep prev + dur (a_loc prev) (a_loc target)) eqn:E1; [discriminate|]. lia.
  - set (L := latest_of (n :: r)) in *.
    destruct (L <? a_dep prev + dur (a_loc prev) (a_loc n)) eqn:E1; [discriminate|].
    destruct (L <? a_tws target) eqn:E2; [discriminate|].
    destruct (Z.min (a_twe target) (est_arrival target (L - dur (a_loc target) (a_loc n))) <? a_dep prev + dur (a_loc prev) (a_loc target)) eqn:E3; [discriminate|].
    destruct (L <? est_departure target (a_dep prev + dur (a_loc prev) (a_loc target)) + dur (a_loc target) (a_loc n)) eqn:E4; [discriminate|].
    change (Feasible.sim_time dur (a_loc prev) (a_dep prev) (target :: n :: r)) with
      ((a_dep prev + dur (a_loc prev) (a_loc target) <=? a_twe target) &&
       sim_time (a_loc target) (Z.max (a_dep prev + dur (a_loc prev) (a_loc target)) (a_tws target) + a_svc target) (n :: r)).
    apply andb_true_iff; split.
    + unfold est_arrival in E3. lia.
    + apply (latest_exact n r _ _ Hs). fold L. unfold est_departure in E4. lia.
Qed.

(* completeness of the O(1) time test for one window, inner legs (there is a next activity): if putting `target` in
   front of the (feasible) tail is feasible, the test does not reject it.  Needs non-negative travel times and the shift
   end not before the window starts involved (true in every feasible closed tour; open tours have an unbounded shift). *)
Lemma eval_time_complete_inner : forall v prev target n r,
  (forall a b, 0 <= dur a b) -> 0 <= a_svc target ->
  a_tws prev <= v_shift_end v -> a_tws target <= v_shift_end v -> a_tws n <= v_shift_end v ->
  sim_time (a_loc prev) (a_dep prev) (n :: r) = true ->
  sim_time (a_loc prev) (a_dep prev) (target :: n :: r) = true ->
  eval_time v prev target (n :: r) = None.
Proof.
  intros v prev target n r Hd Hsv Hp Ht Hn Hs Hi. unfold Core.eval_time.
  assert (E0 : (v_shift_end v <? a_tws prev) || (v_shift_end v <? a_tws target) || (v_shift_end v <? a_tws n) = false) by lia.
  rewrite E0. set (L := latest_of (n :: r)).
  pose proof (proj1 (latest_exact n r _ _ Hs _ _) Hs) as H1. fold L in H1.
  change (Feasible.sim_time dur (a_loc prev) (a_dep prev) (target :: n :: r)) with
      ((a_dep prev + dur (a_loc prev) (a_loc target) <=? a_twe target) &&
       sim_time (a_loc target) (Z.max (a_dep prev + dur (a_loc prev) (a_loc target)) (a_tws target) + a_svc target) (n :: r)) in Hi.
  apply andb_true_iff in Hi as [Hi1 Hi2].
  pose proof (proj1 (latest_exact n r _ _ Hs _ _) Hi2) as H2. fold L in H2.
  pose proof (Hd (a_loc target) (a_loc n)). pose proof (Hd (a_loc prev) (a_loc target)).
  destruct (L <? a_dep prev + dur (a_loc prev) (a_loc n)) eqn:E1; [lia|].
  destruct (L <? a_tws target) eqn:E2; [lia|].
  unfold est_arrival, est_departure.
  destruct (Z.min (a_twe target) (Z.min (a_twe target) (L - dur (a_loc target) (a_loc n) - a_svc target)) <? a_dep prev + dur (a_loc prev) (a_loc target)) eqn:E3; [lia|].
  destruct (L <? Z.max (a_dep prev + dur (a_loc prev) (a_loc target)) (a_tws target) + a_svc target + dur (a_loc target) (a_loc n)) eqn:E4; [lia|].
  reflexivity.
Qed.

(* last leg of an open tour: the test is `arrival <= min(window end, shift end) - dur(target,target) - service`,
   i.e. exact only for zero service time (for positive service time it is stricter than the simulation: finding C06-open-end) *)
Lemma eval_time_complete_open_end : forall v prev target,
  (forall a b, 0 <= dur a b) ->
  a_tws prev <= v_shift_end v -> a_tws target <= v_shift_end v ->
  a_dep prev + dur (a_loc prev) (a_loc target) <= v_shift_end v ->
  a_svc target = 0 -> dur (a_loc target) (a_loc target) = 0 -> a_tws target <= a_twe target ->
  sim_time (a_loc prev) (a_dep prev) [target] = true ->
  eval_time v prev target [] = None.
Proof.
  intros v prev target Hd Hp Ht Hse Hsvc Hdd Htw Hi. unfold Core.eval_time.
  assert (E0 : (v_shift_end v <? a_tws prev) || (v_shift_end v <? a_tws target) || false = false) by lia.
  rewrite E0. cbn [Feasible.sim_time] in Hi. rewrite andb_true_r in Hi.
  unfold est_arrival. rewrite Hsvc, Hdd.
  destruct (Z.min (a_twe target) (v_shift_end v) <? a_dep prev + dur (a_loc prev) (a_loc target)) eqn:E1; [lia|].
  destruct (Z.min (a_twe target) (v_shift_end v) <? a_tws target) eqn:E2; [lia|].
  destruct (Z.min (a_twe target) (Z.min (a_twe target) (Z.min (a_twe target) (v_shift_end v) - 0 - 0)) <? a_dep prev + dur (a_loc prev) (a_loc target)) eqn:E3; [lia|].
  reflexivity.
Qed.

(* when the time test answers "stop" on a feasible tail, no window start/ordering excuse exists: the three stop causes *)
Lemma eval_time_stop_cases : forall v prev target nexts,
  eval_time v prev target nexts = Some true ->
  v_shift_end v < a_tws prev \/ v_shift_end v < a_tws target \/
  (exists n r, nexts = n :: r /\ (v_shift_end v < a_tws n \/ latest_of nexts < a_dep prev + dur (a_loc prev) (a_loc n))) \/
  (nexts = [] /\ Z.min (a_twe target) (v_shift_end v) < a_dep prev + dur (a_loc prev) (a_loc target)).
Proof.
  intros v prev target nexts. unfold Core.eval_time.
  destruct (v_shift_end v <? a_tws prev) eqn:E1; [intros _; left; lia|].
  destruct (v_shift_end v <? a_tws target) eqn:E2; [intros _; right; left; lia|].
  destruct nexts as [|n r].
  - cbn [orb].
    destruct (Z.min (a_twe target) (v_shift_end v) <? a_dep prev + dur (a_loc prev) (a_loc target)) eqn:E3.
    + intros _. right; right; right. split; [reflexivity|lia].
    + repeat (match goal with |- context [if ?c then _ else _] => destruct c end); intros HH; discriminate HH.
  - cbn [orb]. destruct (v_shift_end v <? a_tws n) eqn:E3.
    + intros _. right; right; left. exists n, r. split; [reflexivity|left; lia].
    + destruct (latest_of (n :: r) <? a_dep prev + dur (a_loc prev) (a_loc n)) eqn:E4.
      * intros _. right; right; left. exists n, r. split; [reflexivity|right; lia].
      * repeat (match goal with |- context [if ?c then _ else _] => destruct c end); intros HH; discriminate HH.
Qed.

End WithRouting.

