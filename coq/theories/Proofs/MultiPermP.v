From VRP Require Import Base.Tac Model.CostOrder Model.Reduce Model.Core Model.Reduce2 Proofs.Reduce2P Model.MultiPerm.

Section MultiPermP.
Variable S C : Type.
Variable cost : S -> C.
Variable lt : C -> C -> bool.
Hypothesis lt_trans : forall a b c, lt a b = true -> lt b c = true -> lt a c = true.
Hypothesis lt_negtrans : forall a b c, lt a b = false -> lt b c = false -> lt a c = false.

Notation perm_res := (perm_res S).
Notation macc := (macc S C).
Notation fold := (mp_fold S C cost lt).
Notation run := (multi_run S C cost lt).

(* the fold from MultiContext::new(None) and the fold from MultiContext::new(Some a), in lockstep *)
Inductive lock (a : C) : macc -> macc -> Prop :=
| LNew : lock a (MNew None) (MNew (Some a))
| LFail : forall c, lock a (MFailed c false) (MNew (Some a))
| LBelow : forall s, lt (cost s) a = true -> lock a (MSucc s) (MSucc s)
| LAbove : forall s, lt (cost s) a = false -> lock a (MSucc s) (MNew (Some a)).

Lemma lock_step : forall a p m1 m2, lock a m1 m2 -> (forall c, p <> PFail c true) ->
  exists r1 r2, mp_promote S C cost lt p m1 = (r1, false) /\ mp_promote S C cost lt p m2 = (r2, false) /\ lock a r1 r2.
Proof.
  intros a p m1 m2 L Hp. destruct p as [l|c st].
  - destruct L as [|c|s Hs|s Hs]; cbn [mp_promote].
    + destruct (lt (cost l) a) eqn:E; do 2 eexists; repeat split; constructor; assumption.
    + destruct (lt (cost l) a) eqn:E; do 2 eexists; repeat split; constructor; assumption.
    + destruct (lt (cost l) (cost s)) eqn:E; do 2 eexists; repeat split; constructor; eauto.
    + destruct (lt (cost l) (cost s)) eqn:E; destruct (lt (cost l) a) eqn:E2; do 2 eexists; repeat split; try (constructor; assumption).
      exfalso. rewrite (lt_negtrans _ _ _ E Hs) in E2. discriminate.
  - destruct st; [exfalso; exact (Hp c eq_refl)|].
    destruct L as [|c'|s Hs|s Hs]; cbn [mp_promote]; do 2 eexists; repeat split; constructor; assumption.
Qed.

Lemma lock_fold : forall a perms m1 m2, lock a m1 m2 -> no_stopped S perms -> lock a (fold perms m1) (fold perms m2).
Proof.
  intros a perms. induction perms as [|p r IH]; intros m1 m2 L Hn; cbn [mp_fold]; [exact L|].
  destruct (lock_step a p m1 m2 L) as (r1 & r2 & E1 & E2 & L').
  - intros c Hc. apply (Hn c). left. exact Hc.
  - rewrite E1, E2. apply IH; [exact L'|]. intros c Hc. apply (Hn c). right. exact Hc.
Qed.

(* eval_multi honours best_known_cost: analysed from a best-known cost a it returns its own (full) result when that is
   strictly cheaper than a, and a failure otherwise *)
Theorem multi_respects_known : forall job perms, no_stopped S perms ->
  respects_known S C cost lt (run job perms).
Proof.
  intros job perms Hn a. unfold multi_run.
  pose proof (lock_fold a perms _ _ (LNew a) Hn) as L.
  destruct L as [|c|s Hs|s Hs]; cbn [mp_result]; try rewrite Hs; eauto.
Qed.

Lemma fold_success_in : forall perms m s, fold perms m = MSucc s -> m = MSucc s \/ In (PSucc s) perms.
Proof.
  induction perms as [|p r IH]; intros m s; cbn [mp_fold]; [auto|].
  destruct (mp_promote S C cost lt p m) as [res brk] eqn:E. intros H.
  assert (Hres : res = MSucc s -> m = MSucc s \/ p = PSucc s).
  { intros ->. destruct p as [l|c st]; destruct m as [[k|]|x|c' st']; cbn [mp_promote] in E;
      try (destruct (lt (cost l) k)); try (destruct (lt (cost l) (cost x))); inversion E; subst; auto; try discriminate. }
  destruct brk.
  - destruct (Hres H) as [->| ->]; [left; reflexivity|right; left; reflexivity].
  - destruct (IH _ _ H) as [H1|H1]; [|right; right; exact H1].
    destruct (Hres H1) as [->| ->]; [left; reflexivity|right; left; reflexivity].
Qed.

Theorem multi_cell_ok : forall rc job perms, no_stopped S perms ->
  (forall s, In (PSucc s) perms -> lt (cost s) rc = false) ->
  cell_ok S C cost lt (multi_cell S C cost lt rc job perms).
Proof.
  intros rc job perms Hn Hlb. split; cbn [multi_cell].
  - apply multi_respects_known. exact Hn.
  - cbn [cell_lower_bound]. intros s Hs. apply Hlb. unfold multi_run in Hs.
    destruct (fold perms (MNew None)) eqn:E; cbn [mp_result] in Hs; try discriminate. inversion Hs; subst.
    destruct (fold_success_in _ _ _ E) as [H|H]; [discriminate|exact H].
Qed.

(* general form: a cell that is ok answers a best-known cost only by pruning *)
Theorem best_known_only_prunes : forall rc rn, cell_ok S C cost lt (CEval rc rn) -> forall a,
  (exists s, rn None = RSuccess s /\ lt (cost s) a = true /\ rn (Some a) = RSuccess s) \/
  ((forall s, rn None = RSuccess s -> lt (cost s) a = false) /\ exists f, rn (Some a) = RFailure f).
Proof.
  intros rc rn [Hk _] a. specialize (Hk a). destruct (rn None) as [s|f] eqn:E.
  - destruct (lt (cost s) a) eqn:E2.
    + left. exists s. auto.
    + right. split; [intros s' Hs'; inversion Hs'; subst; exact E2|exact Hk].
  - right. split; [intros s' Hs'; discriminate|exact Hk].
Qed.
End MultiPermP.

(* the seeded variant (first permutation only when a best-known cost is passed) makes evaluate_all split dependent *)
Definition w_perms : list (@perm_res (Z * Z)) := [PSucc (20, 1); PSucc (0, 2)].
Definition w_ev (_ : nat) (j : nat) : cell (Z * Z) Z :=
  match j with
  | O => table_cell (Z * Z) Z fst Z.ltb 0 (RSuccess (10, 0)) (mkFail UNKNOWN false None)
  | _ => CEval 0 (multi_run_first_only (Z * Z) Z fst Z.ltb 7 w_perms)
  end.
Theorem first_permutation_only_split_dependent :
  evaluate_all (Z * Z) Z fst Z.ltb nat nat w_ev (PLeaf [(O, O); (O, 1%nat)]) = RSuccess (10, 0) /\
  evaluate_all (Z * Z) Z fst Z.ltb nat nat w_ev (PNode (PLeaf [(O, O)]) (PLeaf [(O, 1%nat)])) = RSuccess (0, 2) /\
  best_of_all (Z * Z) Z fst Z.ltb nat nat w_ev [O] [O; 1%nat] = RSuccess (0, 2).
Proof. repeat split; vm_compute; reflexivity. Qed.

Theorem multi_nonvacuous :
  no_stopped (Z * Z) (PFail 2 false :: w_perms) /\
  multi_run (Z * Z) Z fst Z.ltb 7 (PFail 2 false :: w_perms) None = RSuccess (0, 2) /\
  multi_run (Z * Z) Z fst Z.ltb 7 (PFail 2 false :: w_perms) (Some 10) = RSuccess (0, 2) /\
  multi_run (Z * Z) Z fst Z.ltb 7 (PFail 2 false :: w_perms) (Some 0) = RFailure (mkFail UNKNOWN false (Some 7)).
Proof.
  split; [|repeat split; vm_compute; reflexivity].
  intros c [H|[H|[H|[]]]]; discriminate.
Qed.
