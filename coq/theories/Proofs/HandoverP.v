(* Proofs about the hand-over Solution <-> InsertionContext (Model/TourReg.v, section "hand-over"): C14, registry clause.
   The registry of a context built from a solution offers an actor exactly when no kept route holds it. *)
From VRP Require Import Base.Tac Model.TourReg Proofs.TourRegP.
#[local] Open Scope nat_scope.

(* ------------------------------------------------------------------ lists of routes *)
Lemma set_mem_app x s1 s2 : set_mem x (s1 ++ s2) = set_mem x s1 || set_mem x s2.
Proof. unfold set_mem. apply existsb_app. Qed.

Lemma map_fst_filter_In {B} (p : nat * B -> bool) (l : list (nat * B)) a : In a (map fst (filter p l)) -> In a (map fst l).
Proof. rewrite !in_map_iff. intros [x [E H]]. apply filter_In in H. exists x. tauto. Qed.

Lemma map_fst_filter_NoDup {B} (p : nat * B -> bool) (l : list (nat * B)) : NoDup (map fst l) -> NoDup (map fst (filter p l)).
Proof.
  induction l as [|x l IH]; cbn [map filter]; intros ND; [constructor|]. inversion ND as [|y l' N ND']; subst.
  destruct (p x); cbn [map]; auto. constructor; auto. intros H. apply N. eapply map_fst_filter_In; eauto.
Qed.

Lemma map_fst_partition {B} (p : nat * B -> bool) (l : list (nat * B)) : NoDup (map fst l) -> forall a,
  (In a (map fst l) <-> In a (map fst (filter p l)) \/ In a (map fst (filter (fun x => negb (p x)) l))) /\
  ~ (In a (map fst (filter p l)) /\ In a (map fst (filter (fun x => negb (p x)) l))).
Proof.
  induction l as [|x l IH]; cbn [map filter]; intros ND a.
  - cbn. tauto.
  - inversion ND as [|y l' N ND']; subst. destruct (IH ND' a) as [I1 I2].
    pose proof (map_fst_filter_In p l a) as F1. pose proof (map_fst_filter_In (fun x => negb (p x)) l a) as F2.
    destruct (p x); cbn [negb map In]; split; try tauto.
    + intros [[E|H1] H2]; [subst a; tauto|tauto].
    + intros [H1 [E|H2]]; [subst a; tauto|tauto].
Qed.

Lemma filter_idem {A} (p : A -> bool) l : filter p (filter p l) = filter p l.
Proof. induction l as [|x l IH]; cbn; auto. destruct (p x) eqn:E; cbn; rewrite ?E, IH; auto. Qed.
Lemma filter_neg_nil {A} (p : A -> bool) l : filter (fun x => negb (p x)) (filter p l) = [].
Proof. induction l as [|x l IH]; cbn; auto. destruct (p x) eqn:E; cbn; rewrite ?E; auto. Qed.

Lemma map_fst_set_nth {B} (l : list (nat * B)) : forall i x y, nth_error l i = Some x -> map fst (set_nth i (fst x, y) l) = map fst l.
Proof.
  induction l as [|z l IH]; intros [|i] x y H; cbn in *; try discriminate.
  - inversion H; subst. reflexivity.
  - f_equal. eapply IH; eauto.
Qed.

(* ------------------------------------------------------------------ the hand-over loop *)
Lemma known_all r a : WFReg r -> (In a (r_all r) <-> known r a = true).
Proof. intros [_ [_ [_ W4]]]. apply W4. Qed.

Lemma rctx_of_wf r : WFReg r -> WFctx (rctx_of r).
Proof.
  intros W. split; [exact W|]. intros x. cbn [rctx_of c_idx c_reg]. apply eq_true_iff_eq. rewrite set_mem_In. apply known_all; auto.
Qed.

Lemma handover_spec : forall rs r r' kept,
  WFReg r -> NoDup (map fst rs) -> handover r rs = (r', kept) ->
  WFReg r' /\ kept = filter route_has_jobs rs /\ r_index r' = r_index r /\ r_all r' = r_all r /\
  forall a, (In a (map fst kept) -> availb r' a = false) /\
            (~ In a (map fst kept) -> In a (map fst rs) -> availb r' a = known r a) /\
            (~ In a (map fst rs) -> availb r' a = availb r a).
Proof.
  induction rs as [|rt rest IH]; intros r r' kept W ND H; cbn [handover] in H.
  - inversion H; subst. split; [auto|]. split; [auto|]. split; [auto|]. split; [auto|]. intros a. cbn. intuition.
  - inversion ND as [|x l N ND']; subst. destruct (has_jobs (snd rt)) eqn:HJ.
    + destruct (use_actor r (fst rt)) as [r1 b] eqn:U. cbn [fst] in H.
      destruct (handover r1 rest) as [r2 kept'] eqn:HO. inversion H; subst; clear H.
      destruct (use_actor_spec _ _ _ _ W U) as [W1 [Eb [Av [Ei Ea]]]].
      destruct (IH _ _ _ W1 ND' HO) as [W2 [Ek [Ei2 [Ea2 AV]]]].
      split; [auto|]. split; [cbn [filter]; unfold route_has_jobs at 1; rewrite HJ; f_equal; auto|].
      split; [congruence|]. split; [congruence|].
      assert (NK : ~ In (fst rt) (map fst kept')) by (rewrite Ek; intros X; apply N; eapply map_fst_filter_In; eauto).
      assert (K1 : forall y, known r1 y = known r y) by (intros; apply known_same; auto).
      intros a. destruct (AV a) as [A1 [A2 A3]]. destruct (AV (fst rt)) as [_ [_ B3]].
      cbn [map In]. split; [|split].
      * intros [E|Hin]; [subst a|auto]. rewrite (B3 N), Av, <- Eb, Nat.eqb_refl. destruct b; reflexivity.
      * intros NI [E|Hin]; [tauto|]. rewrite A2, K1; auto.
      * intros NI. rewrite A3, Av by tauto. destruct (Nat.eqb a (fst rt)) eqn:E; [apply Nat.eqb_eq in E; subst; tauto|].
        rewrite andb_false_r. cbn. apply andb_true_r.
    + destruct (free_actor r (fst rt)) as [r1 b] eqn:U. cbn [fst] in H.
      destruct (free_actor_spec _ _ _ _ W U) as [W1 [Eb [Av [Ei Ea]]]].
      destruct (IH _ _ _ W1 ND' H) as [W2 [Ek [Ei2 [Ea2 AV]]]].
      split; [auto|]. split; [cbn [filter]; unfold route_has_jobs at 1; rewrite HJ; auto|].
      split; [congruence|]. split; [congruence|].
      assert (K1 : forall y, known r1 y = known r y) by (intros; apply known_same; auto).
      intros a. destruct (AV a) as [A1 [A2 A3]].
      cbn [map In]. split; [|split].
      * exact A1.
      * intros NI [E|Hin].
        -- subst a. rewrite (A3 N), Av, Eb, Nat.eqb_refl.
           destruct (availb r (fst rt)) eqn:A; [rewrite (availb_known _ _ A); reflexivity|].
           cbn. rewrite !andb_true_r. reflexivity.
        -- rewrite A2, K1; auto.
      * intros NI. rewrite A3, Av by tauto. destruct (Nat.eqb a (fst rt)) eqn:E; [apply Nat.eqb_eq in E; subst; tauto|].
        rewrite andb_false_r, orb_false_r. reflexivity.
Qed.

(* new_from_solution = the raw factory: every kept route has jobs, so restore removes nothing and cannot panic *)
Lemma handover_kept_have_jobs : forall rs r, snd (handover r rs) = filter route_has_jobs rs.
Proof.
  induction rs as [|rt rest IH]; intros r; cbn [handover filter]; auto. unfold route_has_jobs at 1.
  destruct (has_jobs (snd rt)).
  - specialize (IH (fst (use_actor r (fst rt)))). destruct (handover (fst (use_actor r (fst rt))) rest). cbn in *. f_equal; auto.
  - apply IH.
Qed.
Lemma new_from_solution_raw r rs : new_from_solution r rs = Some (from_solution_raw r rs).
Proof.
  unfold new_from_solution, from_solution_raw. pose proof (handover_kept_have_jobs rs r) as K.
  destruct (handover r rs) as [r' kept]. cbn [snd] in K. unfold restore, keep_routes. subst kept.
  rewrite filter_neg_nil, filter_idem. reflexivity.
Qed.

(* ------------------------------------------------------------------ the consistency invariant of a context *)
(* registry and routes agree: the route actors are pairwise distinct fleet actors and an actor is offered exactly when it
   is known and no route holds it *)
Definition HInvR (r : reg) (rs : list mroute) : Prop :=
  WFReg r /\ NoDup (map fst rs) /\ (forall a, In a (map fst rs) -> known r a = true) /\
  forall a, availb r a = known r a && negb (set_mem a (map fst rs)).
Definition HInv (c : rctx) (rs : list mroute) : Prop :=
  HInvR (c_reg c) rs /\ forall x, set_mem x (c_idx c) = known (c_reg c) x.

Lemma hinv_wfctx c rs : HInv c rs -> WFctx c.
Proof. intros [[W _] I]. split; auto. Qed.

Lemma hinv_offers c rs a : HInv c rs ->
  (In a (available (c_reg c)) <-> In a (r_all (c_reg c)) /\ ~ In a (map fst rs)).
Proof.
  intros [[W [_ [_ A]]] _]. rewrite (available_iff _ _ W), A, (known_all _ _ W), andb_true_iff, negb_true_iff, <- set_mem_false. tauto.
Qed.

Lemma hinvr_new gs : HInvR (reg_new gs) [].
Proof.
  split; [apply reg_new_wf|]. split; [constructor|]. split; [intros a []|]. intros a. destruct (reg_new_all_free gs a) as [-> ->].
  cbn. rewrite andb_true_r. reflexivity.
Qed.
Lemma hinv_of r rs : HInvR r rs -> HInv (rctx_of r) rs.
Proof. intros H. split; [exact H|]. destruct H as [W _]. apply (rctx_of_wf r W). Qed.

(* acquiring an offered actor and giving it a route *)
Lemma use_push_inv r rs a t r' b :
  HInvR r rs -> use_actor r a = (r', b) ->
  (b = true <-> In a (available r)) /\ r_index r' = r_index r /\ HInvR r' (if b then rs ++ [(a, t)] else rs).
Proof.
  unfold mroute in *. intros [W [ND [KN A]]] U. destruct (use_actor_spec _ _ _ _ W U) as [W1 [Eb [Av [Ei Ea]]]].
  assert (K1 : forall y, known r' y = known r y) by (intros; apply known_same; auto).
  split; [rewrite (available_iff _ _ W), Eb; tauto|]. split; [auto|].
  destruct b.
  - symmetry in Eb. pose proof Eb as Eb'. rewrite A in Eb'. apply andb_true_iff in Eb'. destruct Eb' as [Ka Na].
    apply negb_true_iff, set_mem_false in Na.
    split; [auto|]. rewrite map_app. cbn [map fst]. split; [apply NoDup_app_one; auto|]. split.
    + intros x Hx. rewrite K1. apply in_app_iff in Hx. destruct Hx as [Hx|[<-|[]]]; auto.
    + intros x. rewrite Av, K1, A, set_mem_app.
      destruct (known r x), (set_mem x (map fst rs)); unfold set_mem; cbn; destruct (Nat.eqb x a); reflexivity.
  - split; [auto|]. split; [auto|]. split.
    + intros x Hx. rewrite K1. auto.
    + intros x. rewrite Av, K1. cbn. rewrite andb_true_r. apply A.
Qed.

(* releasing the actors of a list of routes whose actors are in use *)
Lemma free_routes_spec : forall rem c,
  WFctx c -> NoDup (map fst rem) ->
  (forall a, In a (map fst rem) -> known (c_reg c) a = true /\ availb (c_reg c) a = false) ->
  exists c', free_routes c rem = Some c' /\ WFctx c' /\ c_idx c' = c_idx c /\ r_index (c_reg c') = r_index (c_reg c) /\
             r_all (c_reg c') = r_all (c_reg c) /\
             forall x, availb (c_reg c') x = availb (c_reg c) x || set_mem x (map fst rem).
Proof.
  induction rem as [|rt rem IH]; intros c WC ND H; cbn [free_routes].
  - exists c. split; [reflexivity|]. split; [exact WC|]. split; [reflexivity|]. split; [reflexivity|]. split; [reflexivity|].
    intros x. cbn. rewrite orb_false_r. reflexivity.
  - inversion ND as [|y l N ND']; subst. destruct WC as [W I].
    destruct (free_actor (c_reg c) (fst rt)) as [r1 b] eqn:U.
    destruct (free_actor_spec _ _ _ _ W U) as [W1 [Eb [Av [Ei Ea]]]].
    destruct (H (fst rt) (or_introl eq_refl)) as [K A]. rewrite K, A in Eb. cbn in Eb. subst b.
    assert (K1 : forall y, known r1 y = known (c_reg c) y) by (intros; apply known_same; auto).
    destruct (IH (mkRctx r1 (c_idx c))) as [c' [F [WC' [Ix [Ei' [Ea' Av']]]]]].
    + split; cbn [c_reg c_idx]; auto. intros x. rewrite K1. apply I.
    + exact ND'.
    + cbn [c_reg]. intros a Ha. destruct (H a (or_intror Ha)) as [Ka Aa]. rewrite K1, Av, Aa. split; auto.
      destruct (Nat.eqb a (fst rt)) eqn:E; [apply Nat.eqb_eq in E; subst; tauto|reflexivity].
    + exists c'. cbn [c_reg c_idx] in *. split; [exact F|]. split; [exact WC'|]. split; [auto|]. split; [congruence|]. split; [congruence|].
      intros x. rewrite Av', Av. cbn [map]. rewrite set_mem_cons. cbn [andb]. rewrite <- orb_assoc. reflexivity.
Qed.

(* keep_routes on a consistent context never panics and stays consistent *)
Lemma keep_routes_inv c rs pred :
  HInv c rs -> exists c', keep_routes c rs pred = Some (c', filter pred rs) /\ HInv c' (filter pred rs) /\
                          r_all (c_reg c') = r_all (c_reg c).
Proof.
  intros HI. pose proof (hinv_wfctx _ _ HI) as WC. destruct HI as [[W [ND [KN A]]] I].
  pose proof (map_fst_partition pred rs ND) as P.
  destruct (free_routes_spec (filter (fun rt => negb (pred rt)) rs) c WC) as [c' [F [WC' [Ix [Ei [Ea Av]]]]]].
  - apply map_fst_filter_NoDup; auto.
  - intros a Ha. pose proof (map_fst_filter_In _ _ _ Ha) as Ha'. split; [auto|]. rewrite A.
    apply set_mem_In in Ha'. rewrite Ha'. apply andb_false_r.
  - exists c'. unfold keep_routes. rewrite F. split; [reflexivity|]. split; [|auto].
    assert (K1 : forall y, known (c_reg c') y = known (c_reg c) y) by (intros; apply known_same; auto).
    split; [split; [apply WC'|split; [apply map_fst_filter_NoDup; auto|split]]|].
    + intros a Ha. rewrite K1. apply KN. eapply map_fst_filter_In; eauto.
    + intros a. rewrite Av, A, K1. destruct (P a) as [P1 P2].
      destruct (set_mem a (map fst (filter (fun rt => negb (pred rt)) rs))) eqn:R.
      * apply set_mem_In in R. assert (NK : set_mem a (map fst (filter pred rs)) = false) by (apply set_mem_false; tauto).
        rewrite NK, orb_true_r, (KN a); [reflexivity|]. apply P1. auto.
      * apply set_mem_false in R. rewrite orb_false_r. f_equal. f_equal. apply eq_true_iff_eq. rewrite !set_mem_In. tauto.
    + intros x. rewrite Ix, K1. apply I.
Qed.

(* ------------------------------------------------------------------ hand-over theorems *)
(* general form: ANY well-formed input registry, pairwise distinct route actors *)
Theorem P_C14_handover_offers : forall r rs c kept,
  WFReg r -> NoDup (map fst rs) -> from_solution_raw r rs = (c, kept) ->
  WFctx c /\ kept = filter route_has_jobs rs /\ r_all (c_reg c) = r_all r /\
  (forall a, In a (map fst kept) -> ~ In a (available (c_reg c))) /\
  (forall a, In a (map fst rs) -> ~ In a (map fst kept) -> (In a (available (c_reg c)) <-> In a (r_all r))) /\
  (forall a, ~ In a (map fst rs) -> (In a (available (c_reg c)) <-> In a (available r))).
Proof.
  intros r rs c kept W ND H. unfold from_solution_raw in H. destruct (handover r rs) as [r' kept'] eqn:HO. inversion H; subst; clear H.
  destruct (handover_spec _ _ _ _ W ND HO) as [W' [Ek [Ei [Ea AV]]]]. cbn [rctx_of c_reg].
  split; [apply rctx_of_wf; auto|]. split; [auto|]. split; [auto|]. split; [|split]; intros a; destruct (AV a) as [A1 [A2 A3]].
  - intros Hin. rewrite (available_iff _ _ W'), (A1 Hin). discriminate.
  - intros Hin NK. rewrite (available_iff _ _ W'), (A2 NK Hin), (known_all _ _ W). tauto.
  - intros NI. rewrite (available_iff _ _ W'), (A3 NI), (available_iff _ _ W). tauto.
Qed.

(* the registry of the solution marks as used only actors of its routes (what the initial-solution readers and
   From<InsertionContext> produce; the state of the route actors themselves is arbitrary) *)
Definition used_only_by_routes (r : reg) (rs : list mroute) : Prop :=
  forall a, In a (r_all r) -> ~ In a (map fst rs) -> In a (available r).

Lemma handover_hinv r rs c kept :
  WFReg r -> NoDup (map fst rs) -> (forall a, In a (map fst rs) -> In a (r_all r)) -> used_only_by_routes r rs ->
  from_solution_raw r rs = (c, kept) -> HInv c kept.
Proof.
  intros W ND KN UO H. unfold from_solution_raw in H. destruct (handover r rs) as [r' kept'] eqn:HO. inversion H; subst; clear H.
  destruct (handover_spec _ _ _ _ W ND HO) as [W' [Ek [Ei [Ea AV]]]]. apply hinv_of.
  assert (K1 : forall y, known r' y = known r y) by (intros; apply known_same; auto).
  split; [auto|]. split; [rewrite Ek; apply map_fst_filter_NoDup; auto|]. split.
  - intros a Ha. rewrite K1. apply (known_all _ _ W). apply KN. rewrite Ek in Ha. eapply map_fst_filter_In; eauto.
  - intros a. destruct (AV a) as [A1 [A2 A3]]. rewrite K1. destruct (set_mem a (map fst kept)) eqn:M.
    + apply set_mem_In in M. rewrite (A1 M). cbn. rewrite andb_false_r. reflexivity.
    + apply set_mem_false in M. cbn. rewrite andb_true_r. destruct (in_dec Nat.eq_dec a (map fst rs)) as [Hin|NI]; [auto|].
      rewrite (A3 NI). destruct (known r a) eqn:K.
      * apply (available_iff _ _ W). apply UO; auto. apply (known_all _ _ W); auto.
      * destruct (availb r a) eqn:A; auto. rewrite (availb_known _ _ A) in K. discriminate.
Qed.

Theorem P_C14_handover_offers_iff : forall r rs c kept,
  WFReg r -> NoDup (map fst rs) -> (forall a, In a (map fst rs) -> In a (r_all r)) -> used_only_by_routes r rs ->
  new_from_solution r rs = Some (c, kept) ->
  kept = filter route_has_jobs rs /\
  (forall a, In a (available (c_reg c)) <-> In a (r_all r) /\ ~ In a (map fst kept)) /\
  (forall a t, In (a, t) rs -> has_jobs t = false -> In a (available (c_reg c))) /\
  (forall a t, In (a, t) rs -> has_jobs t = true -> ~ In a (available (c_reg c))).
Proof.
  intros r rs c kept W ND KN UO H. rewrite new_from_solution_raw in H. inversion H as [H'].
  destruct (P_C14_handover_offers _ _ _ _ W ND H') as [_ [Ek [Ea _]]].
  pose proof (handover_hinv _ _ _ _ W ND KN UO H') as HI.
  assert (OF : forall a, In a (available (c_reg c)) <-> In a (r_all r) /\ ~ In a (map fst kept)).
  { intros a. rewrite (hinv_offers _ _ a HI), Ea. tauto. }
  split; [auto|]. split; [exact OF|]. split.
  - intros a t Hin HJ. apply OF. split; [apply KN; apply in_map_iff; exists (a, t); auto|].
    rewrite Ek. intros X. apply in_map_iff in X. destruct X as [[a' t'] [E X]]. cbn in E. subst a'. apply filter_In in X.
    destruct X as [X HJ']. unfold route_has_jobs in HJ'. cbn in HJ'.
    assert (t' = t); [|subst; congruence].
    clear - ND Hin X. induction rs as [|[a0 t0] rs IH]; [destruct Hin|]. cbn in ND. inversion ND as [|y l N ND']; subst.
    destruct Hin as [E1|H1], X as [E2|H2]; try congruence; auto.
    + inversion E1; subst. exfalso. apply N. apply in_map_iff. exists (a, t'). auto.
    + inversion E2; subst. exfalso. apply N. apply in_map_iff. exists (a, t). auto.
  - intros a t Hin HJ X. apply OF in X. apply (proj2 X). rewrite Ek. apply in_map_iff. exists (a, t). split; auto.
    apply filter_In. split; auto.
Qed.

(* round trip: a consistent context turned into a solution and back *)
Lemma hinv_used_only c rs : HInv c rs -> used_only_by_routes (c_reg c) rs.
Proof. intros HI a Ha Na. apply (hinv_offers _ _ a HI). auto. Qed.

Lemma handover_fixpoint : forall rs r, WFReg r -> Forall (fun rt => route_has_jobs rt = true) rs ->
  (forall a, In a (map fst rs) -> availb r a = false) -> handover r rs = (r, rs).
Proof.
  induction rs as [|rt rs IH]; intros r W F A; cbn [handover]; auto. inversion F as [|x l HJ F']; subst.
  unfold route_has_jobs in HJ. rewrite HJ.
  assert (U : use_actor r (fst rt) = (r, false)).
  { destruct (use_actor r (fst rt)) as [r1 b] eqn:U. destruct (use_actor_spec _ _ _ _ W U) as [_ [Eb _]].
    rewrite (A (fst rt) (or_introl eq_refl)) in Eb. subst b. unfold use_actor in U |- *.
    destruct (lookup (fst rt) (r_index r)) as [g|]; [|auto]. destruct (lookup g (r_avail r)) as [s|]; [|auto].
    destruct (set_mem (fst rt) s); [inversion U|auto]. }
  rewrite U. cbn [fst]. rewrite IH; auto. intros a Ha. apply A. right. auto.
Qed.

Theorem P_C14_handover_roundtrip : forall c rs r rs0 c2 rs2,
  HInv c rs -> into_solution c rs = (r, rs0) -> new_from_solution r rs0 = Some (c2, rs2) ->
  HInv c2 rs2 /\ rs2 = filter route_has_jobs rs /\ r_all (c_reg c2) = r_all (c_reg c) /\
  (forall a, In a (available (c_reg c2)) <-> In a (available (c_reg c)) \/ (In a (map fst rs) /\ ~ In a (map fst rs2))) /\
  (Forall (fun rt => route_has_jobs rt = true) rs -> c_reg c2 = c_reg c /\ rs2 = rs).
Proof.
  intros c rs r rs0 c2 rs2 HI IN H. unfold into_solution in IN. inversion IN; subst r rs0; clear IN.
  rewrite new_from_solution_raw in H. inversion H as [H'].
  pose proof HI as [[W [ND [KN A]]] I].
  assert (KN' : forall a, In a (map fst rs) -> In a (r_all (c_reg c))) by (intros a Ha; apply (known_all _ _ W); auto).
  pose proof (handover_hinv _ _ _ _ W ND KN' (hinv_used_only _ _ HI) H') as HI2.
  destruct (P_C14_handover_offers _ _ _ _ W ND H') as [_ [Ek [Ea _]]].
  split; [auto|]. split; [auto|]. split; [auto|]. split.
  - intros a. rewrite (hinv_offers _ _ a HI2), (hinv_offers _ _ a HI), Ea.
    assert (S : In a (map fst rs2) -> In a (map fst rs)) by (rewrite Ek; apply map_fst_filter_In).
    destruct (in_dec Nat.eq_dec a (map fst rs)); specialize (KN' a); tauto.
  - intros F. unfold from_solution_raw in H'. rewrite handover_fixpoint in H'; auto.
    + inversion H'. auto.
    + intros a Ha. rewrite A. apply set_mem_In in Ha. rewrite Ha. apply andb_false_r.
Qed.

(* after the hand-over any further history of use/free/get_route/next/deep_slice: never handed out twice *)
Theorem P_C14_handover_history : forall r rs c0 kept hs c tr a,
  WFReg r -> NoDup (map fst rs) -> (forall a, In a (map fst rs) -> In a (r_all r)) -> used_only_by_routes r rs ->
  new_from_solution r rs = Some (c0, kept) -> hrun c0 hs = (c, tr) ->
  WFReg (c_reg c) /\ alternating a (set_mem a (map fst kept)) tr /\
  (In a (available (c_reg c)) <-> In a (r_all (c_reg c)) /\ held_after a (set_mem a (map fst kept)) tr = false).
Proof.
  intros r rs c0 kept hs c tr a W ND KN UO H R. rewrite new_from_solution_raw in H. inversion H as [H'].
  pose proof (handover_hinv _ _ _ _ W ND KN UO H') as HI.
  assert (C0 : CInv c0 a (set_mem a (map fst kept))).
  { split; [eapply hinv_wfctx; eauto|]. destruct HI as [[_ [_ [_ A]]] _]. apply A. }
  destruct (hrun_inv hs _ _ _ _ _ C0 R) as [[[W' I] A] AL]. split; auto. split; auto.
  rewrite (available_iff _ _ W'), A, (known_all _ _ W'), andb_true_iff, negb_true_iff. tauto.
Qed.

(* ------------------------------------------------------------------ contexts under any disciplined operation sequence *)
Definition disciplined (o : cop) : Prop :=
  match o with CReg RNext => True | CReg _ => False | _ => True end.

Lemma cstep_inv closed c rs o c' rs' ret :
  HInv c rs -> disciplined o -> cstep closed c rs o = Some (c', rs', ret) -> HInv c' rs'.
Proof.
  intros HI D H. destruct o as [a|o|i o|keep|]; cbn [cstep] in H.
  - destruct (get_route c a) as [c1 b] eqn:G. destruct (get_route_spec _ _ _ _ (hinv_wfctx _ _ HI) G) as [r1 [U ->]].
    destruct HI as [HR I]. destruct (use_push_inv _ _ a (tour_new closed) _ _ HR U) as [_ [Ei HR']].
    assert (K1 : forall y, known r1 y = known (c_reg c) y) by (intros; apply known_same; auto).
    destruct b; inversion H; subst; (split; [exact HR'|cbn [c_reg c_idx]; intros x; rewrite K1; apply I]).
  - destruct o; cbn in D; try tauto. cbn in H. inversion H; subst. exact HI.
  - destruct (nth_error rs i) as [rt|] eqn:N; [|discriminate]. destruct (tstep (snd rt) o) as [[t' r0]|]; [|discriminate].
    inversion H; subst. destruct HI as [[W [ND [KN A]]] I]. unfold HInv, HInvR. rewrite (map_fst_set_nth rs i rt t' N). auto.
  - destruct (keep_routes_inv c rs (fun rt => set_mem (fst rt) keep) HI) as [c1 [K [HI1 _]]]. rewrite K in H. inversion H; subst. exact HI1.
  - unfold restore in H. destruct (keep_routes_inv c rs route_has_jobs HI) as [c1 [K [HI1 _]]]. rewrite K in H. inversion H; subst. exact HI1.
Qed.

(* keep_routes / restore never hit the assert of keep_routes on a consistent context *)
Lemma cstep_keep_total closed c rs : HInv c rs ->
  (forall keep, cstep closed c rs (CKeep keep) <> None) /\ cstep closed c rs CRestore <> None.
Proof.
  intros HI. split; [intros keep|]; cbn [cstep]; unfold restore.
  - destruct (keep_routes_inv c rs (fun rt => set_mem (fst rt) keep) HI) as [c1 [K _]]. rewrite K. discriminate.
  - destruct (keep_routes_inv c rs route_has_jobs HI) as [c1 [K _]]. rewrite K. discriminate.
Qed.

(* InsertionContext::new / new_empty *)
Lemma ctx_locks_inv closed : forall ls r rs r' rs',
  HInvR r rs -> ctx_locks closed r rs ls = Some (r', rs') -> HInvR r' rs'.
Proof.
  induction ls as [|l ls IH]; intros r rs r' rs' HR H; cbn [ctx_locks] in H.
  - inversion H; subst. exact HR.
  - destruct (l_lazy l); [eauto|]. destruct (set_mem (l_actor l) (available r)) eqn:M; [|eauto].
    destruct (fill (tour_new closed) (l_acts l)) as [t|]; [|discriminate].
    destruct (use_actor r (l_actor l)) as [r1 b] eqn:U. cbn [fst] in H.
    destruct (use_push_inv _ _ (l_actor l) t _ _ HR U) as [Eb [_ HR']].
    apply set_mem_In in M. apply Eb in M. subst b. eauto.
Qed.
Lemma create_context_inv gs closed ls c rs : create_context gs closed ls = Some (c, rs) -> HInv c rs.
Proof.
  unfold create_context. destruct (ctx_locks closed (reg_new gs) [] ls) as [[r rs0]|] eqn:L; [|discriminate].
  intros H. inversion H; subst. apply hinv_of. eapply ctx_locks_inv; [apply hinvr_new|eauto].
Qed.

(* every context reachable from InsertionContext::new / new_empty / new_from_solution (of a solution whose registry marks
   only route actors as used) by get_route+push, tour operations, keep_routes, restore, next_route and round trips through
   Solution is consistent *)
Inductive creach (closed : bool) : rctx -> list mroute -> Prop :=
| CR_new gs ls c rs : create_context gs closed ls = Some (c, rs) -> creach closed c rs
| CR_from r rs c kept :
    WFReg r -> NoDup (map fst rs) -> (forall a, In a (map fst rs) -> In a (r_all r)) -> used_only_by_routes r rs ->
    new_from_solution r rs = Some (c, kept) -> creach closed c kept
| CR_step c rs o c' rs' ret :
    creach closed c rs -> disciplined o -> cstep closed c rs o = Some (c', rs', ret) -> creach closed c' rs'
| CR_round c rs c' rs' :
    creach closed c rs -> new_from_solution (fst (into_solution c rs)) (snd (into_solution c rs)) = Some (c', rs') ->
    creach closed c' rs'.

Theorem P_C14_context_reachable : forall closed c rs, creach closed c rs ->
  WFctx c /\ NoDup (map fst rs) /\ NoDup (available (c_reg c)) /\
  (forall a, In a (available (c_reg c)) <-> In a (r_all (c_reg c)) /\ ~ In a (map fst rs)) /\
  (forall keep, cstep closed c rs (CKeep keep) <> None) /\ cstep closed c rs CRestore <> None.
Proof.
  intros closed c rs R. assert (HI : HInv c rs).
  { induction R as [gs ls c rs H|r rs c kept W ND KN UO H|c rs o c' rs' ret R IH D H|c rs c' rs' R IH H].
    - eapply create_context_inv; eauto.
    - rewrite new_from_solution_raw in H. inversion H. eapply handover_hinv; eauto.
    - eapply cstep_inv; eauto.
    - destruct (P_C14_handover_roundtrip c rs (c_reg c) rs c' rs' IH eq_refl H) as [HI _]. exact HI. }
  split; [eapply hinv_wfctx; eauto|]. split; [apply HI|]. split; [apply available_NoDup; apply HI|].
  split; [intros a; apply hinv_offers; auto|]. apply cstep_keep_total; auto.
Qed.

(* the multi-slot machine of the correspondence: its final dumps are the dumps of the folded slots *)
Fixpoint hsfold (closed : bool) (ss : list hslot) (ops : list hsop) : list hslot :=
  match ops with
  | [] => ss
  | o :: r => match hsstep closed ss o with Some (ss', _, _) => hsfold closed ss' r | None => ss end
  end.
Lemma hsrun_final closed probes ops : forall ss acc,
  snd (hsrun closed probes ss ops acc) = map (dump_hslot probes) (hsfold closed ss ops).
Proof.
  induction ops as [|o ops IH]; intros ss acc; cbn [hsrun hsfold]; auto.
  destruct (hsstep closed ss o) as [[[ss' ret] k]|]; auto.
Qed.

(* every slot (contexts and solutions) of a run of the multi-slot machine that uses only disciplined operations *)
Definition SInv (s : hslot) : Prop := match s with HCtx c rs => HInv c rs | HSol r rs => HInvR r rs end.
Definition hs_disciplined (o : hsop) : Prop :=
  match o with HCtxOp _ o' => disciplined o' | HFromSol _ | HInto _ | HCopy _ => True | _ => False end.

Lemma hinvr_offers r rs a : HInvR r rs -> (In a (available r) <-> In a (r_all r) /\ ~ In a (map fst rs)).
Proof. intros H. apply (hinv_offers (rctx_of r) rs a (hinv_of _ _ H)). Qed.

Lemma hinvr_from r rs c kept : HInvR r rs -> new_from_solution r rs = Some (c, kept) -> HInv c kept.
Proof.
  intros HR H. rewrite new_from_solution_raw in H. inversion H as [H']. pose proof HR as [W [ND [KN A]]].
  eapply handover_hinv; eauto.
  - intros a Ha. apply (known_all _ _ W). auto.
  - intros a Ha Na. apply (hinvr_offers _ _ a HR). auto.
Qed.

Lemma hsstep_inv closed ss o ss' ret k :
  Forall SInv ss -> hs_disciplined o -> hsstep closed ss o = Some (ss', ret, k) -> Forall SInv ss'.
Proof.
  intros F D H. destruct o as [k0 o|k0 o|k0 a|k0 i o|k0|k0|k0]; cbn [hsstep hs_disciplined] in *; try tauto.
  - destruct (nth_error ss k0) as [[c rs|r rs]|] eqn:N; try discriminate.
    destruct (cstep closed c rs o) as [[[c' rs'] r0]|] eqn:C; [|discriminate]. inversion H; subst.
    apply set_nth_Forall; auto. cbn [SInv]. eapply cstep_inv; eauto.
    apply nth_error_In in N. rewrite Forall_forall in F. apply (F _ N).
  - destruct (nth_error ss k0) as [[c rs|r rs]|] eqn:N; try discriminate.
    destruct (new_from_solution r rs) as [[c rs']|] eqn:C; [|discriminate]. inversion H; subst.
    apply Forall_app. split; auto. constructor; [|constructor]. cbn [SInv]. eapply hinvr_from; eauto.
    apply nth_error_In in N. rewrite Forall_forall in F. apply (F _ N).
  - destruct (nth_error ss k0) as [[c rs|r rs]|] eqn:N; try discriminate. cbn in H. inversion H; subst.
    apply Forall_app. split; auto. constructor; [|constructor]. cbn [SInv].
    apply nth_error_In in N. rewrite Forall_forall in F. apply (F _ N).
  - destruct (nth_error ss k0) as [s|] eqn:N; try discriminate. inversion H; subst.
    apply Forall_app. split; auto. constructor; [|constructor].
    apply nth_error_In in N. rewrite Forall_forall in F. apply (F _ N).
Qed.

Lemma hsfold_inv closed ops : forall ss, Forall SInv ss -> Forall hs_disciplined ops -> Forall SInv (hsfold closed ss ops).
Proof.
  induction ops as [|o ops IH]; intros ss F D; cbn [hsfold]; auto. inversion D; subst.
  destruct (hsstep closed ss o) as [[[ss' ret] k]|] eqn:S; auto. apply IH; auto. eapply hsstep_inv; eauto.
Qed.

Theorem P_C14_run_ho_slots : forall gs closed ls c rs ops s,
  create_context gs closed ls = Some (c, rs) -> Forall hs_disciplined ops -> In s (hsfold closed [HCtx c rs] ops) ->
  match s with
  | HCtx c' rs' => NoDup (map fst rs') /\ forall a, In a (available (c_reg c')) <-> In a (r_all (c_reg c')) /\ ~ In a (map fst rs')
  | HSol r' rs' => NoDup (map fst rs') /\ forall a, In a (available r') <-> In a (r_all r') /\ ~ In a (map fst rs')
  end.
Proof.
  intros gs closed ls c rs ops s C D Hin.
  assert (F : Forall SInv (hsfold closed [HCtx c rs] ops)).
  { apply hsfold_inv; auto. constructor; [|constructor]. cbn [SInv]. eapply create_context_inv; eauto. }
  rewrite Forall_forall in F. specialize (F _ Hin). destruct s as [c' rs'|r' rs']; cbn [SInv] in F.
  - split; [apply F|]. intros a. apply hinv_offers; auto.
  - split; [apply F|]. intros a. apply hinvr_offers; auto.
Qed.

Lemma use_actor_wf r a : WFReg r -> WFReg (fst (use_actor r a)).
Proof. intros W. destruct (use_actor r a) as [r1 b] eqn:U. destruct (use_actor_spec _ _ _ _ W U) as [W1 _]. exact W1. Qed.

(* non-vacuity: a solution of three vehicles read like an initial solution (every tour marks its vehicle used), the middle
   tour has no jobs: its vehicle is offered after the hand-over, the other two are not *)
Definition nv_tour : tour := mkTour [start_act; mkAct (Some 0) 2; end_act] [0] true.
Definition nv_reg : reg := fst (use_actor (fst (use_actor (fst (use_actor (reg_new [0; 0; 3]) 0)) 1)) 2).
Definition nv_routes : list mroute := [(0, nv_tour); (1, tour_new true); (2, nv_tour)].
Lemma P_C14_nonvacuous_handover :
  WFReg nv_reg /\ NoDup (map fst nv_routes) /\ (forall a, In a (map fst nv_routes) -> In a (r_all nv_reg)) /\
  used_only_by_routes nv_reg nv_routes /\ available nv_reg = [] /\
  exists c kept, new_from_solution nv_reg nv_routes = Some (c, kept) /\ map fst kept = [0; 2] /\ available (c_reg c) = [1].
Proof.
  assert (W : WFReg nv_reg) by (unfold nv_reg; repeat apply use_actor_wf; apply reg_new_wf).
  split; [exact W|]. split; [cbn; repeat constructor; cbn; intuition lia|].
  split; [vm_compute; tauto|]. split; [intros a Ha Na; vm_compute in Ha, Na; tauto|]. split; [vm_compute; reflexivity|].
  eexists. eexists. split; [vm_compute; reflexivity|]. split; vm_compute; reflexivity.
Qed.
