(* Lemmas about Spec/Intervals.v: the per-interval capacity checker is sound and complete for the declarative statement, and
   for a tour without reload activities it IS the single-interval simulation of Spec/Feasible.v. *)
From VRP Require Import Base.Tac Model.Core Spec.Feasible Spec.Intervals.

Lemma interval_ok_iff cap : forall i l0, (l0 <=? cap) && sim_load cap l0 i = true <-> IntervalOk cap l0 i.
Proof.
  induction i as [|a r IH]; intros l0; cbn [sim_load].
  - rewrite andb_true_r, Z.leb_le. unfold IntervalOk. split.
    + intros H pre post Heq. destruct pre; [exact H|discriminate].
    + intros H. apply (H [] []). reflexivity.
  - cbv zeta. rewrite andb_true_iff, Z.leb_le, (IH (l0 + d_change (a_dem a))). unfold IntervalOk. split.
    + intros [H0 Hr] pre post Heq. destruct pre as [|x pre]; cbn [load_after]; [exact H0|].
      cbn [app] in Heq. injection Heq as <- Heq. apply (Hr pre post). exact Heq.
    + intros H. split.
      * apply (H [] (a :: r)). reflexivity.
      * intros pre post Heq. apply (H (a :: pre) post). cbn [app]. rewrite Heq. reflexivity.
Qed.

Lemma ivl_feasible_iff cap : forall iv carry, ivl_feasible cap carry iv = true <-> IvlOk cap carry iv.
Proof.
  induction iv as [|i r IH]; intros carry; cbn [ivl_feasible IvlOk].
  - split; auto.
  - cbv zeta. rewrite andb_true_iff, interval_ok_iff, IH. tauto.
Qed.

Lemma ivls_no_reload : forall l, forallb (fun a => negb (is_reload a)) l = true -> ivls l = [l].
Proof.
  induction l as [|a r IH]; cbn [forallb ivls]; [reflexivity|].
  intros H. apply andb_true_iff in H. destruct H as [Ha Hr]. rewrite (IH Hr).
  apply negb_true_iff in Ha. rewrite Ha. reflexivity.
Qed.

(* the single-interval case is the existing simulation *)
Lemma ivl_load_feasible_single cap t :
  forallb (fun a => negb (is_reload a)) t = true -> ivl_load_feasible cap t = load_feasible cap t.
Proof.
  intros H. unfold ivl_load_feasible, load_feasible. rewrite (ivls_no_reload _ H). cbn [ivl_feasible]. cbv zeta.
  rewrite Z.add_0_l, andb_true_r. reflexivity.
Qed.

Lemma ivl_loads_single t :
  forallb (fun a => negb (is_reload a)) t = true -> ivl_loads_of t = ld_from (total_static_delivery t) t.
Proof.
  intros H. unfold ivl_loads_of. rewrite (ivls_no_reload _ H). cbn [ivl_loads]. cbv zeta.
  rewrite Z.add_0_l, app_nil_r. reflexivity.
Qed.

(* the intervals partition the tour *)
Lemma ivls_concat : forall l, concat (ivls l) = l.
Proof.
  induction l as [|a r IH]; cbn [ivls]; [reflexivity|].
  destruct (ivls r) as [|iv rest] eqn:E.
  - cbn [concat] in IH. subst r. reflexivity.
  - destruct (is_reload a); cbn [concat app] in *; rewrite IH; reflexivity.
Qed.

(* example: capacity 2; two static deliveries, reload, two more static deliveries, and a shipment picked up in the first
   interval and delivered in the second: the carried parcel makes the second interval start with 3 on board *)
Definition exa (job : Z) (d : demand) : act := mkAct job 0 0 0 1000 d 0 0.
Definition ex_carry : list act :=
  [exa (-1) dzero; exa 1 (mkDemand 0 0 1 0); exa 5 (mkDemand 0 1 0 0); exa RELOAD_JOB dzero;
   exa 3 (mkDemand 0 0 1 0); exa 4 (mkDemand 0 0 1 0); exa 5 (mkDemand 0 0 0 1); exa (-1) dzero].
Lemma ex_carry_overloaded : ivl_load_feasible 2 ex_carry = false /\ ivl_loads_of ex_carry = [1; 0; 1; 3; 2; 1; 0; 0].
Proof. split; reflexivity. Qed.
(* the same without the shipment is fine: 1 + 1, reload, 1 + 1 *)
Definition ex_two_trips : list act :=
  [exa (-1) dzero; exa 1 (mkDemand 0 0 1 0); exa 2 (mkDemand 0 0 1 0); exa RELOAD_JOB dzero;
   exa 3 (mkDemand 0 0 1 0); exa 4 (mkDemand 0 0 1 0); exa (-1) dzero].
Lemma ex_two_trips_ok : ivl_load_feasible 2 ex_two_trips = true /\ load_feasible 2 ex_two_trips = false.
Proof. split; reflexivity. Qed.
