(* C18 — lemmas about termination estimates and the min-variation criterion (Model/Termination.v). *)
From Coq Require Import QArith Qabs Qminmax Lqa.
From VRP Require Import Base.Tac Model.Termination.
Open Scope Q_scope.

Lemma qz_nonneg n : 0 <= qz n.
Proof. unfold qz. change 0 with (inject_Z 0). rewrite <- Zle_Qle. lia. Qed.

Lemma qz_pos n : n <> 0%nat -> 0 < qz n.
Proof. intros H. unfold qz. change 0 with (inject_Z 0). rewrite <- Zlt_Qlt. lia. Qed.

Lemma qz_S n : qz (S n) == qz n + 1.
Proof. unfold qz. rewrite Nat2Z.inj_succ, <- Z.add_1_r, inject_Z_plus. reflexivity. Qed.

Lemma est_max_generation_unit g l : 0 <= est_max_generation g l <= 1.
Proof.
  unfold est_max_generation. destruct (Nat.eqb l 0) eqn:E; [split; lra|].
  apply Nat.eqb_neq in E. pose proof (qz_pos l E). pose proof (qz_nonneg g).
  split; [apply Q.min_glb; [apply Qle_shift_div_l; lra | lra] | apply Q.le_min_r].
Qed.

(* reaches 1 exactly from generation = limit on *)
Lemma est_max_generation_full g l : (l <= g)%nat -> est_max_generation g l == 1.
Proof.
  intros H. unfold est_max_generation. destruct (Nat.eqb l 0) eqn:E; [reflexivity|].
  apply Nat.eqb_neq in E. pose proof (qz_pos l E).
  apply Q.min_r. apply Qle_shift_div_l; [assumption|]. unfold qz. rewrite Qmult_1_l, <- Zle_Qle. lia.
Qed.

Lemma est_max_time_unit e l : 0 <= e -> 0 <= l -> 0 <= est_max_time e l <= 1.
Proof.
  intros He Hl. unfold est_max_time. destruct (Qeq_bool l 0) eqn:E; [split; lra|].
  apply Qeq_bool_neq in E. assert (0 < l). { destruct (Qlt_le_dec 0 l); [assumption|]. exfalso. apply E. lra. }
  split; [apply Q.min_glb; [apply Qle_shift_div_l; lra | lra] | apply Q.le_min_r].
Qed.

Lemma fold_max_unit : forall es e, 0 <= e <= 1 -> (forall x, In x es -> 0 <= x <= 1) -> 0 <= fold_left Qmax es e <= 1.
Proof.
  induction es as [|x es IH]; intros e He H; cbn [fold_left]; [exact He|].
  apply IH; [|intros y Hy; apply H; right; exact Hy].
  destruct (H x (or_introl eq_refl)). destruct He.
  split; [apply Q.max_le_iff; left; assumption | apply Q.max_lub; assumption].
Qed.

Lemma est_composite_unit es : (forall x, In x es -> 0 <= x <= 1) -> 0 <= est_composite es <= 1.
Proof.
  intros H. destruct es as [|e es]; cbn [est_composite]; [split; lra|].
  apply fold_max_unit; [apply H; left; reflexivity | intros x Hx; apply H; right; exact Hx].
Qed.

(* ---------- sums, variance ---------- *)
Fixpoint qsumr (l : list Q) : Q := match l with [] => 0 | x :: r => x + qsumr r end.

Lemma fold_plus l : forall a, fold_left Qplus l a == a + qsumr l.
Proof. induction l as [|x l IH]; intros a; cbn [fold_left qsumr]; [lra | rewrite IH; lra]. Qed.

Lemma qsum_r l : qsum l == qsumr l.
Proof. unfold qsum. rewrite fold_plus. lra. Qed.

Lemma qsumr_shift l m : qsumr (map (fun v => v - m) l) == qsumr l - qz (length l) * m.
Proof.
  induction l as [|x l IH]; cbn [map qsumr length].
  - change (qz 0) with 0. lra.
  - rewrite IH, qz_S. lra.
Qed.

Lemma qsumr_sq_nonneg l m : 0 <= qsumr (map (fun v => (v - m) * (v - m)) l).
Proof.
  induction l as [|x l IH]; cbn [map qsumr]; [lra|].
  set (d := x - m). assert (0 <= d * d) by nra. lra.
Qed.

Lemma deviations_cancel l : l <> [] -> qsum (map (fun v => v - mean_q l) l) == 0.
Proof.
  intros H. rewrite qsum_r, qsumr_shift.
  assert (Hn : 0 < qz (length l)) by (apply qz_pos; destruct l; cbn; congruence).
  unfold mean_q. destruct l as [|x l]; [congruence|]. rewrite qsum_r. field. lra.
Qed.

Lemma variance_q_nonneg l : 0 <= variance_q l.
Proof.
  destruct l as [|x l].
  - cbn. discriminate.
  - assert (Hne : x :: l <> []) by congruence.
    unfold variance_q. rewrite (deviations_cancel _ Hne).
    assert (Hn : 0 < qz (length (x :: l))) by (apply qz_pos; cbn; congruence).
    pose proof (qsumr_sq_nonneg (x :: l) (mean_q (x :: l))) as Hs. rewrite <- qsum_r in Hs.
    apply Qle_shift_div_l; [exact Hn|].
    setoid_replace (0 * 0 / qz (length (x :: l))) with 0 by (field; lra). lra.
Qed.

(* ---------- cv > thr through squares ---------- *)
Lemma cv_gt_false_pos var mean thr : 0 < mean -> 0 <= thr ->
  (cv_gt var mean thr = false <-> var <= (thr * mean) * (thr * mean)).
Proof.
  intros Hm Ht. unfold cv_gt.
  destruct (Qeq_bool mean 0) eqn:E; [apply Qeq_bool_iff in E; lra|].
  assert (Hp : 0 <= thr * mean) by nra.
  destruct (Qlt_le_dec var 0) as [V|V]; [split; [intros _; nra | reflexivity]|].
  destruct (Qlt_le_dec 0 mean) as [_|C]; [|lra].
  destruct (Qlt_le_dec (thr * mean) 0) as [C|_]; [lra|].
  destruct (Qlt_le_dec (thr * mean * (thr * mean)) var) as [L|L]; split; try congruence; try lra; intros; auto.
Qed.

Lemma cv_gt_zero_mean var mean thr : mean == 0 -> (cv_gt var mean thr = false <-> 0 <= thr).
Proof.
  intros Hm. unfold cv_gt. apply Qeq_bool_iff in Hm. rewrite Hm.
  destruct (Qlt_le_dec thr 0); split; try congruence; try lra; auto.
Qed.

Lemma cv_gt_neg_mean var mean thr : mean < 0 -> 0 <= thr -> cv_gt var mean thr = false.
Proof.
  intros Hm Ht. unfold cv_gt.
  destruct (Qeq_bool mean 0) eqn:E; [apply Qeq_bool_iff in E; lra|].
  destruct (Qlt_le_dec var 0); [reflexivity|].
  destruct (Qlt_le_dec 0 mean); [lra|].
  destruct (Qlt_le_dec 0 (thr * mean)); [nra | reflexivity].
Qed.

(* ---------- min variation ---------- *)
Lemma check_threshold_iff rows thr :
  check_threshold rows thr = true <-> forall k, (k < width rows)%nat -> col_cv_gt (column k rows) thr = false.
Proof.
  unfold check_threshold. rewrite forallb_forall. split.
  - intros H k Hk. specialize (H k). rewrite in_seq in H. apply negb_true_iff, H. lia.
  - intros H k Hk. rewrite in_seq in Hk. apply negb_true_iff, H. lia.
Qed.

Definition mv_window (sample : nat) (st : option (list (list Q))) (generation : nat) (fitness : list Q) : list (list Q) :=
  fst (mv_update_and_check sample (0) st generation fitness).

Lemma mv_window_thr sample thr st g f : fst (mv_update_and_check sample thr st g f) = mv_window sample st g f.
Proof. reflexivity. Qed.

Lemma mv_fires_iff sample thr st g f :
  snd (mv_update_and_check sample thr st g f) = true <->
  (sample - 1 <= g)%nat /\
  forall k, (k < width (mv_window sample st g f))%nat -> col_cv_gt (column k (mv_window sample st g f)) thr = false.
Proof.
  unfold mv_window, mv_update_and_check; cbn [fst snd].
  destruct (Nat.ltb g (sample - 1)) eqn:E.
  - apply Nat.ltb_lt in E. split; [discriminate | intros [H _]; lia].
  - apply Nat.ltb_ge in E. rewrite check_threshold_iff. split; [intros H; split; [exact E | exact H] | intros [_ H]; exact H].
Qed.

Lemma mv_is_termination_iff sample thr glob st g ph best :
  snd (mv_is_termination sample thr glob st g ph best) = true <->
  exists f, best = Some f /\ (glob = true \/ ph = 2%nat) /\ snd (mv_update_and_check sample thr st g f) = true.
Proof.
  unfold mv_is_termination. destruct best as [f|]; cbn [snd].
  - destruct (mv_update_and_check sample thr st g f) as [values result] eqn:E. cbn [snd].
    split.
    + intros H. exists f. split; [reflexivity|]. rewrite E. cbn [snd].
      destruct glob; [split; [left; reflexivity | exact H]|].
      destruct (Nat.eqb ph 2) eqn:P; [apply Nat.eqb_eq in P; split; [right; exact P | exact H] | discriminate].
    + intros (f' & Hf & Hg & Hr). injection Hf as <-. rewrite E in Hr. cbn [snd] in Hr.
      destruct glob; [exact Hr|]. destruct Hg as [Hg|Hg]; [discriminate|]. subst ph. exact Hr.
  - split; [discriminate | intros (f & Hf & _); discriminate].
Qed.

(* the window after the update holds the new fitness at generation mod sample *)
Lemma set_nth_nth {A} : forall (l : list A) i x d, (i < length l)%nat -> nth i (set_nth l i x) d = x.
Proof. induction l as [|y l IH]; intros [|i] x d H; cbn in *; try lia; auto. apply IH. lia. Qed.

Lemma set_nth_length {A} : forall (l : list A) i x, length (set_nth l i x) = length l.
Proof. induction l as [|y l IH]; intros [|i] x; cbn; auto. Qed.
