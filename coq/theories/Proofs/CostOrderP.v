(* Lemmas for C09 (order laws).  Model: Model/CostOrder.v *)
From VRP Require Import Base.Tac Base.TotalCmp Model.CostOrder.

(* ---------- key / total_cmp ---------- *)
Lemma key_inj a b : fbits_ok a -> fbits_ok b -> key a = key b -> a = b.
Proof. unfold fbits_ok, key, two64, two63; intros Ha Hb; destruct (a <? _) eqn:?, (b <? _) eqn:?; lia. Qed.

Lemma key_zero_adjacent : key two63 = -1 /\ key 0 = 0 /\
  forall b, fbits_ok b -> b <> 0 -> b <> two63 -> key b < -1 \/ 0 < key b.
Proof. unfold key, fbits_ok, two63, two64; repeat split; intros; destruct (b <? _) eqn:?; lia. Qed.

Lemma total_cmp_refl a : total_cmp a a = Eq.
Proof. apply Z.compare_refl. Qed.
Lemma total_cmp_antisym a b : total_cmp a b = CompOpp (total_cmp b a).
Proof. apply Z.compare_antisym. Qed.
Lemma total_cmp_eq a b : total_cmp a b = Eq <-> key a = key b.
Proof. apply Z.compare_eq_iff. Qed.

(* ---------- generic transitivity for comparison-valued lexicographic folds ---------- *)
Lemma Zcompare_trans c a b d : Z.compare a b = c -> Z.compare b d = c -> Z.compare a d = c.
Proof. destruct c; rewrite ?Z.compare_eq_iff, ?Z.compare_lt_iff, ?Z.compare_gt_iff; lia. Qed.
Lemma Zcompare_eq_l a b d : Z.compare a b = Eq -> Z.compare a d = Z.compare b d.
Proof. rewrite Z.compare_eq_iff; intros ->; reflexivity. Qed.
Lemma Zcompare_eq_r a b d : Z.compare b d = Eq -> Z.compare a b = Z.compare a d.
Proof. rewrite Z.compare_eq_iff; intros ->; reflexivity. Qed.

(* ---------- cmp_from ---------- *)
Lemma cmp_from_refl x i n : cmp_from x x i n = Eq.
Proof. revert i; induction n as [|n IH]; intros i; cbn [cmp_from]; [reflexivity|]. rewrite total_cmp_refl; apply IH. Qed.

Lemma cmp_from_antisym x y i n : cmp_from x y i n = CompOpp (cmp_from y x i n).
Proof.
  revert i; induction n as [|n IH]; intros i; cbn [cmp_from]; [reflexivity|].
  rewrite (total_cmp_antisym (getd x i) (getd y i)).
  destruct (total_cmp (getd y i) (getd x i)); cbn [CompOpp]; [apply IH|reflexivity|reflexivity].
Qed.

Lemma cmp_from_eq_l x y z i n : cmp_from x y i n = Eq -> cmp_from x z i n = cmp_from y z i n.
Proof.
  revert i; induction n as [|n IH]; intros i; cbn [cmp_from]; [reflexivity|].
  destruct (total_cmp (getd x i) (getd y i)) eqn:E; try discriminate. intros H.
  unfold total_cmp in *. rewrite (Zcompare_eq_l _ _ _ E). destruct (key (getd y i) ?= key (getd z i)); auto.
Qed.

Lemma cmp_from_trans c x y z i n : cmp_from x y i n = c -> cmp_from y z i n = c -> cmp_from x z i n = c.
Proof.
  revert i; induction n as [|n IH]; intros i; cbn [cmp_from]; [congruence|].
  unfold total_cmp.
  destruct (key (getd x i) ?= key (getd y i)) eqn:E1; destruct (key (getd y i) ?= key (getd z i)) eqn:E2; intros H1 H2; subst;
    try (rewrite (Zcompare_eq_l _ _ _ E1), E2); try (rewrite <- (Zcompare_eq_r _ _ _ E2), E1);
    try discriminate; try reflexivity; try congruence.
  - eauto.
  - rewrite (Zcompare_trans Lt _ _ _ E1 E2); reflexivity.
  - rewrite (Zcompare_trans Gt _ _ _ E1 E2); reflexivity.
Qed.

Lemma cmp_from_all_eq x y i k : (forall j, (i <= j)%nat -> getd x j = getd y j) -> cmp_from x y i k = Eq.
Proof.
  revert i; induction k as [|k IH]; intros i H; cbn [cmp_from]; [reflexivity|].
  rewrite (H i) by lia. rewrite total_cmp_refl. apply IH. intros j Hj; apply H; lia.
Qed.

Lemma cmp_from_extend x y i n k :
  (forall j, (i + n <= j)%nat -> getd x j = getd y j) -> cmp_from x y i (n + k) = cmp_from x y i n.
Proof.
  revert i; induction n as [|n IH]; intros i H.
  - cbn [Nat.add cmp_from]. apply cmp_from_all_eq. intros j Hj; apply H; lia.
  - cbn [Nat.add cmp_from]. destruct (total_cmp _ _); try reflexivity. apply IH. intros j Hj; apply H; lia.
Qed.

Lemma getd_beyond x j : (length x <= j)%nat -> getd x j = 0.
Proof. intros; unfold getd; apply nth_overflow; assumption. Qed.

Lemma icost_cmp_at x y N : (Nat.max (length x) (length y) <= N)%nat -> icost_cmp x y = cmp_from x y 0 N.
Proof.
  intros H. unfold icost_cmp. replace N with (Nat.max (length x) (length y) + (N - Nat.max (length x) (length y)))%nat by lia.
  symmetry; apply cmp_from_extend. intros j Hj. rewrite !getd_beyond by lia. reflexivity.
Qed.

Lemma icost_cmp_refl x : icost_cmp x x = Eq.
Proof. apply cmp_from_refl. Qed.

Lemma icost_cmp_antisym x y : icost_cmp x y = CompOpp (icost_cmp y x).
Proof. unfold icost_cmp. rewrite (Nat.max_comm (length y)). apply cmp_from_antisym. Qed.

Lemma icost_cmp_trans c x y z : icost_cmp x y = c -> icost_cmp y z = c -> icost_cmp x z = c.
Proof.
  set (N := Nat.max (length x) (Nat.max (length y) (length z))).
  rewrite (icost_cmp_at x y N), (icost_cmp_at y z N), (icost_cmp_at x z N) by lia.
  apply cmp_from_trans.
Qed.

Lemma icost_cmp_eq_compat x y z : icost_cmp x y = Eq -> icost_cmp x z = icost_cmp y z.
Proof.
  set (N := Nat.max (length x) (Nat.max (length y) (length z))).
  rewrite (icost_cmp_at x y N), (icost_cmp_at y z N), (icost_cmp_at x z N) by lia.
  apply cmp_from_eq_l.
Qed.

Lemma getd_app_repeat x k j : getd (x ++ repeat 0 k) j = getd x j.
Proof.
  unfold getd. destruct (Nat.lt_ge_cases j (length x)) as [H|H].
  - apply app_nth1; assumption.
  - rewrite app_nth2 by assumption. rewrite (nth_overflow x) by assumption.
    destruct (Nat.lt_ge_cases (j - length x) k) as [H1|H1].
    + apply nth_repeat.
    + apply nth_overflow. rewrite repeat_length; assumption.
Qed.

Lemma icost_cmp_pad x k : icost_cmp x (x ++ repeat 0 k) = Eq.
Proof. apply cmp_from_all_eq. intros j _. rewrite getd_app_repeat; reflexivity. Qed.

Lemma cmp_from_eq_iff x y i n :
  cmp_from x y i n = Eq <-> forall j, (i <= j < i + n)%nat -> key (getd x j) = key (getd y j).
Proof.
  revert i; induction n as [|n IH]; intros i; cbn [cmp_from].
  - split; [intros _ j Hj; lia|reflexivity].
  - destruct (total_cmp (getd x i) (getd y i)) eqn:E.
    + rewrite IH. apply total_cmp_eq in E. split; intros H j Hj.
      * destruct (Nat.eq_dec j i) as [->|]; [assumption|apply H; lia].
      * apply H; lia.
    + split; [discriminate|]. intros H. specialize (H i ltac:(lia)). apply total_cmp_eq in H. congruence.
    + split; [discriminate|]. intros H. specialize (H i ltac:(lia)). apply total_cmp_eq in H. congruence.
Qed.

(* Eq means: same bit patterns after padding with +0.0 (for genuine 64-bit patterns) *)
Lemma icost_cmp_eq_iff x y : Forall fbits_ok x -> Forall fbits_ok y ->
  (icost_cmp x y = Eq <-> forall j, getd x j = getd y j).
Proof.
  intros Hx Hy. unfold icost_cmp. rewrite cmp_from_eq_iff. 
  assert (Hg : forall l j, Forall fbits_ok l -> fbits_ok (getd l j)).
  { intros l j Hl. unfold getd. destruct (Nat.lt_ge_cases j (length l)).
    - rewrite Forall_forall in Hl. apply Hl, nth_In; assumption.
    - rewrite nth_overflow by assumption. unfold fbits_ok, two64; lia. }
  split; intros H j.
  - destruct (Nat.lt_ge_cases j (Nat.max (length x) (length y))).
    + apply key_inj; auto. apply H; lia.
    + rewrite !getd_beyond by lia; reflexivity.
  - intros _. rewrite H; reflexivity.
Qed.

(* ---------- add / sub on exact values ---------- *)
Lemma getd_zip_pad f x y j : f 0 0 = 0 -> getd (zip_pad f x y) j = f (getd x j) (getd y j).
Proof.
  intros Hf. revert y j; induction x as [|a x IH]; intros y j.
  - destruct y as [|b y]; cbn [zip_pad].
    + unfold getd; destruct j; cbn; auto.
    + destruct j as [|j]; [reflexivity|]. unfold getd; cbn [nth].
      replace (match j with O => 0 | S _ => 0 end) with 0 by (destruct j; reflexivity).
      destruct (Nat.lt_ge_cases j (length y)).
      * rewrite (nth_indep _ 0 (f 0 0)) by (rewrite map_length; assumption). rewrite map_nth. reflexivity.
      * rewrite !nth_overflow by (rewrite ?map_length; assumption). auto.
  - destruct y as [|b y]; cbn [zip_pad]; destruct j as [|j]; try reflexivity.
    + unfold getd in *; cbn [nth]. rewrite IH. unfold getd. destruct j; reflexivity.
    + unfold getd in *; cbn [nth]. apply IH.
Qed.

Lemma vcmp_from_all_eq x y i k : (forall j, (i <= j)%nat -> getd x j = getd y j) -> vcmp_from x y i k = Eq.
Proof.
  revert i; induction k as [|k IH]; intros i H; cbn [vcmp_from]; [reflexivity|].
  rewrite (H i) by lia. rewrite Z.compare_refl. apply IH. intros j Hj; apply H; lia.
Qed.

Lemma icost_add_sub x y : vcost_cmp (icost_sub (icost_add x y) y) x = Eq.
Proof.
  apply vcmp_from_all_eq. intros j _. unfold icost_sub, icost_add. rewrite !getd_zip_pad by reflexivity. lia.
Qed.
Lemma icost_sub_add x y : vcost_cmp (icost_add (icost_sub x y) y) x = Eq.
Proof.
  apply vcmp_from_all_eq. intros j _. unfold icost_sub, icost_add. rewrite !getd_zip_pad by reflexivity. lia.
Qed.

(* ---------- dominance ---------- *)
Lemma count_opp c os : count_c c (map CompOpp os) = count_c (CompOpp c) os.
Proof.
  unfold count_c. induction os as [|o os IH]; [reflexivity|]. cbn [map filter].
  destruct o, c; cbn [CompOpp length]; rewrite ?IH; reflexivity.
Qed.

Lemma dominance_opp os : dominance (map CompOpp os) = CompOpp (dominance os).
Proof.
  unfold dominance. rewrite !count_opp. cbn [CompOpp].
  destruct (count_c Lt os) as [|l], (count_c Gt os) as [|g]; reflexivity.
Qed.

Lemma dominance_all_eq os : Forall (fun o => o = Eq) os -> dominance os = Eq.
Proof.
  intros H. unfold dominance.
  assert (count_c Lt os = 0%nat /\ count_c Gt os = 0%nat) as [-> ->].
  { unfold count_c. induction H as [|o os -> _ [IH1 IH2]]; [split; reflexivity|]. cbn [filter]. auto. }
  reflexivity.
Qed.

Lemma map2_total_cmp_opp fa fb : map2 total_cmp fa fb = map CompOpp (map2 total_cmp fb fa).
Proof.
  revert fb; induction fa as [|a fa IH]; intros [|b fb]; cbn [map2 map]; try reflexivity.
  rewrite IH, (total_cmp_antisym a b). reflexivity.
Qed.

Lemma multi_cmp_antisym fa fb : multi_cmp fa fb = CompOpp (multi_cmp fb fa).
Proof. unfold multi_cmp. rewrite map2_total_cmp_opp. apply dominance_opp. Qed.

Lemma multi_cmp_refl fa : multi_cmp fa fa = Eq.
Proof.
  unfold multi_cmp. apply dominance_all_eq. induction fa as [|a fa IH]; cbn [map2]; constructor; auto.
  apply total_cmp_refl.
Qed.

(* ---------- single layer comparator ---------- *)
Lemma single_cmp_refl a : single_cmp a a = Eq.
Proof. unfold single_cmp. destruct (is_zero a && is_zero a); auto using total_cmp_refl. Qed.

Lemma single_cmp_antisym a b : single_cmp a b = CompOpp (single_cmp b a).
Proof.
  unfold single_cmp. rewrite (andb_comm (is_zero b)). destruct (is_zero a && is_zero b); [reflexivity|].
  apply total_cmp_antisym.
Qed.

Lemma single_cmp_zkey a b : fbits_ok a -> fbits_ok b -> single_cmp a b = Z.compare (zkey a) (zkey b).
Proof.
  intros Ha Hb. unfold single_cmp, zkey, total_cmp.
  destruct (is_zero a) eqn:Za, (is_zero b) eqn:Zb; cbn [andb]; try reflexivity.
  - (* a zero, b not *)
    unfold is_zero in *. destruct key_zero_adjacent as (K1 & K0 & K).
    assert (Hb' : b <> 0 /\ b <> two63) by lia. specialize (K b Hb (proj1 Hb') (proj2 Hb')).
    assert (key a = 0 \/ key a = -1) as Hk by (destruct (a =? 0) eqn:?; [left; replace a with 0 by lia; exact K0 | right; replace a with two63 by lia; exact K1]).
    destruct (Z.compare_spec (key a) (key b)), (Z.compare_spec 0 (key b)); try reflexivity; lia.
  - unfold is_zero in *. destruct key_zero_adjacent as (K1 & K0 & K).
    assert (Ha' : a <> 0 /\ a <> two63) by lia. specialize (K a Ha (proj1 Ha') (proj2 Ha')).
    assert (key b = 0 \/ key b = -1) as Hk by (destruct (b =? 0) eqn:?; [left; replace b with 0 by lia; exact K0 | right; replace b with two63 by lia; exact K1]).
    destruct (Z.compare_spec (key a) (key b)), (Z.compare_spec (key a) 0); try reflexivity; lia.
Qed.

(* ---------- goal ---------- *)
Lemma goal_cmp_refl ls f : goal_cmp ls f f = Eq.
Proof.
  revert f; induction ls as [|l ls IH]; intros f; cbn [goal_cmp]; [reflexivity|].
  destruct l; rewrite ?single_cmp_refl, ?multi_cmp_refl; apply IH.
Qed.

Lemma goal_cmp_antisym ls fa fb : goal_cmp ls fa fb = CompOpp (goal_cmp ls fb fa).
Proof.
  revert fa fb; induction ls as [|l ls IH]; intros fa fb; cbn [goal_cmp]; [reflexivity|].
  destruct l.
  - rewrite (single_cmp_antisym (getd fa 0)). destruct (single_cmp (getd fb 0) (getd fa 0)); cbn [CompOpp]; auto.
  - rewrite (multi_cmp_antisym (firstn n fa)). destruct (multi_cmp (firstn n fb) (firstn n fa)); cbn [CompOpp]; auto.
Qed.

Definition all_single (ls : list layer) : Prop := Forall (fun l => l = LSingle) ls.

Lemma goal_single_is_lex ls : all_single ls -> forall fa fb,
  length fa = length ls -> length fb = length ls -> Forall fbits_ok fa -> Forall fbits_ok fb ->
  goal_cmp ls fa fb = lex_z (map zkey fa) (map zkey fb).
Proof.
  induction 1 as [|l ls -> _ IH]; intros fa fb La Lb Ha Hb.
  - destruct fa, fb; try discriminate; reflexivity.
  - destruct fa as [|a fa], fb as [|b fb]; try discriminate.
    cbn [goal_cmp layer_width skipn map lex_z]. unfold getd; cbn [nth].
    inversion Ha; inversion Hb; subst.
    rewrite single_cmp_zkey by assumption.
    destruct (zkey a ?= zkey b); try reflexivity. apply IH; cbn in *; auto; lia.
Qed.

Lemma lex_z_trans c x y z : length x = length y -> length y = length z ->
  lex_z x y = c -> lex_z y z = c -> lex_z x z = c.
Proof.
  revert y z; induction x as [|a x IH]; intros [|b y] [|d z]; try discriminate; cbn [lex_z]; [congruence|].
  intros L1 L2.
  destruct (a ?= b) eqn:E1; destruct (b ?= d) eqn:E2; intros H1 H2; subst;
    try (rewrite (Zcompare_eq_l _ _ _ E1), E2); try (rewrite <- (Zcompare_eq_r _ _ _ E2), E1);
    try discriminate; try reflexivity; try congruence.
  - apply (IH y z); cbn in *; auto; lia.
  - rewrite (Zcompare_trans Lt _ _ _ E1 E2); reflexivity.
  - rewrite (Zcompare_trans Gt _ _ _ E1 E2); reflexivity.
Qed.

Lemma goal_single_trans ls : all_single ls -> forall c fa fb fc,
  length fa = length ls -> length fb = length ls -> length fc = length ls ->
  Forall fbits_ok fa -> Forall fbits_ok fb -> Forall fbits_ok fc ->
  goal_cmp ls fa fb = c -> goal_cmp ls fb fc = c -> goal_cmp ls fa fc = c.
Proof.
  intros Hs c fa fb fc La Lb Lc Ha Hb Hc.
  rewrite !(goal_single_is_lex ls Hs) by assumption.
  apply lex_z_trans; rewrite !map_length; congruence.
Qed.

(* dominance layers are not transitive on Eq: why the total-preorder claim is restricted to single layers *)
Lemma dominance_eq_not_transitive :
  exists a b c, multi_cmp a b = Eq /\ multi_cmp b c = Eq /\ multi_cmp a c = Lt.
Proof. exists [1; 3], [0; 5], [2; 4]. vm_compute. auto. Qed.
