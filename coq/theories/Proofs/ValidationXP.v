(* C10 — lemmas about Model/ValidationX.v and Spec/RulesX.v: every rule of the relation, objective and routing groups as written
   equals its documented rule; xvalidate = the documented rules in source order. *)
From VRP Require Import Base.Tac Model.Validation Model.ValidationX Model.RulePins Model.Reader Spec.Rules Spec.RulesX Generated.RuleTable Proofs.ValidationP.
From Coq Require Import String Permutation.

(* ---------- helpers ---------- *)
Lemma negb_existsb {A} (f : A -> bool) l : negb (existsb f l) = forallb (fun x => negb (f x)) l.
Proof. induction l as [|a l IH]; cbn; [reflexivity|]. now rewrite negb_orb, IH. Qed.
Lemma existsb_flat_map {A B} (f : B -> bool) (g : A -> list B) l :
  existsb f (flat_map g l) = existsb (fun a => existsb f (g a)) l.
Proof. induction l as [|a l IH]; cbn; [reflexivity|]. now rewrite existsb_app, IH. Qed.
Lemma existsb_map {A B} (f : B -> bool) (g : A -> B) l : existsb f (map g l) = existsb (fun a => f (g a)) l.
Proof. induction l as [|a l IH]; cbn; [reflexivity|]. now rewrite IH. Qed.
Lemma forallb_map {A B} (f : B -> bool) (g : A -> B) l : forallb f (map g l) = forallb (fun a => f (g a)) l.
Proof. induction l as [|a l IH]; cbn; [reflexivity|]. now rewrite IH. Qed.
Lemma existsb_andb_const {A} (f : A -> bool) (c : bool) l : existsb (fun x => f x && c) l = existsb f l && c.
Proof. induction l as [|a l IH]; cbn; [reflexivity|]. rewrite IH. destruct (f a), c, (existsb f l); reflexivity. Qed.
Lemma is_nil_nonempty {A} (l : list A) : is_nil l = negb (nonempty l).
Proof. now destruct l. Qed.

(* HashMap lookups *)
Lemma find_app {A} (f : A -> bool) a b : find f (a ++ b) = match find f a with Some x => Some x | None => find f b end.
Proof. induction a as [|x a IH]; cbn; [reflexivity|]. now destruct (f x). Qed.
Lemma lookup_last_find {A} (has : A -> bool) l : lookup_last has l = find has (rev l).
Proof.
  induction l as [|x r IH]; [reflexivity|]. cbn [lookup_last rev]. rewrite find_app, <- IH. cbn [find].
  destruct (lookup_last has r); [reflexivity|]. now destruct (has x).
Qed.
Lemma lookup_last_none {A} (has : A -> bool) l : is_none (lookup_last has l) = negb (existsb has l).
Proof.
  induction l as [|x r IH]; [reflexivity|]. cbn [lookup_last existsb].
  destruct (lookup_last has r) eqn:E; cbn [is_none] in *.
  - symmetry in IH. apply negb_false_iff in IH. rewrite IH. now rewrite orb_true_r.
  - symmetry in IH. apply negb_true_iff in IH. rewrite IH, orb_false_r. now destruct (has x).
Qed.
Lemma lookup_last_some {A} (has : A -> bool) l x : lookup_last has l = Some x -> In x l /\ has x = true.
Proof.
  induction l as [|y r IH]; [discriminate|]. cbn [lookup_last]. destruct (lookup_last has r) eqn:E.
  - intros H. inversion H; subst. destruct (IH eq_refl) as [Hi Hh]. split; [now right|exact Hh].
  - destruct (has y) eqn:Hy; [|discriminate]. intros H. inversion H; subst. split; [now left|exact Hy].
Qed.

Lemma find_ext' {A} (f g : A -> bool) l : (forall x, f x = g x) -> find f l = find g l.
Proof. intros H. induction l as [|a l IH]; cbn; [reflexivity|]. now rewrite H, IH. Qed.
Lemma job_lookup_named d id : job_lookup d id = job_named d id.
Proof.
  unfold job_lookup, job_named, xjobs. rewrite lookup_last_find. apply find_ext'. intros j. apply streqb_sym.
Qed.
Lemma vehicle_lookup_with d id : vehicle_lookup d id = vehicle_with d id.
Proof. unfold vehicle_lookup, vehicle_with, xvehicles. now rewrite lookup_last_find. Qed.

Lemma reserved_eq id : reserved id = is_reserved id.
Proof.
  unfold reserved, is_reserved, has_str. cbn [existsb].
  repeat match goal with |- context [String.eqb ?a ?b] => destruct (String.eqb a b) end; reflexivity.
Qed.

Lemma rel_shift_eq r : rel_shift r = shift_of r. Proof. reflexivity. Qed.

(* ---------- relations ---------- *)
Lemma e1200_ok d rels : x_relations d = Some rels -> check_e1200 d rels = viol_1200 d.
Proof.
  intros E. unfold check_e1200, viol_1200, RulesX.rels. rewrite E. apply existsb_ext_in. intros r _. apply existsb_ext_in. intros id _.
  rewrite reserved_eq. f_equal. unfold job_lookup. rewrite lookup_last_none. f_equal. unfold has_str, xjobs.
  now rewrite (existsb_map (String.eqb id) j_id).
Qed.
Lemma e1201_ok d rels : x_relations d = Some rels -> check_e1201 d rels = viol_1201 d.
Proof.
  intros E. unfold check_e1201, viol_1201, RulesX.rels. rewrite E. apply existsb_ext_in. intros r _.
  unfold vehicle_lookup. rewrite lookup_last_none. f_equal. unfold has_str, xvehicles. now rewrite existsb_flat_map.
Qed.
Lemma e1202_ok d rels : x_relations d = Some rels -> check_e1202 rels = viol_1202 d.
Proof.
  intros E. unfold check_e1202, viol_1202, RulesX.rels. rewrite E. apply existsb_ext_in. intros r _.
  rewrite negb_existsb. apply forallb_ext_in. intros id _. now rewrite negb_involutive, reserved_eq.
Qed.
Lemma several_eq {A} (l : list A) : (1 <? List.length l)%nat = several l.
Proof. unfold several. destruct (List.length l) as [|[|n]]; reflexivity. Qed.
Lemma e1203_ok d rels : x_relations d = Some rels -> check_e1203 d rels = viol_1203 d.
Proof.
  intros E. unfold check_e1203, viol_1203, RulesX.rels. rewrite E. apply existsb_ext_in. intros r _. apply existsb_ext_in. intros id _.
  now rewrite reserved_eq, job_lookup_named.
Qed.
Lemma e1205_ok d rels : x_relations d = Some rels -> check_e1205 d rels = viol_1205 d.
Proof.
  intros E. unfold check_e1205, viol_1205, RulesX.rels. rewrite E. apply existsb_ext_in. intros r _.
  rewrite vehicle_lookup_with, rel_shift_eq. destruct (vehicle_with d (r_vehicle r)) as [v|]; [|reflexivity].
  destruct (nth_error (v_shifts v) (shift_of r)) eqn:En; cbn [is_none].
  - symmetry. apply Nat.leb_gt. apply nth_error_Some. congruence.
  - symmetry. apply Nat.leb_le. now apply nth_error_None.
Qed.
Lemma existsb_eqb_const (x : string) (c : bool) l : existsb (fun id => String.eqb id x && c) l = has_str x l && c.
Proof.
  rewrite existsb_andb_const. f_equal. unfold has_str. apply existsb_ext_in. intros y _. apply streqb_sym.
Qed.
Lemma e1206_ok d rels : x_relations d = Some rels -> check_e1206 d rels = viol_1206 d.
Proof.
  intros E. unfold check_e1206, viol_1206, RulesX.rels, named_shift. rewrite E. apply existsb_ext_in. intros r _.
  rewrite vehicle_lookup_with, rel_shift_eq. destruct (vehicle_with d (r_vehicle r)) as [v|]; [|reflexivity].
  destruct (nth_error (v_shifts v) (shift_of r)) as [s|]; [|reflexivity].
  set (B := match sh_breaks s with None => true | Some _ => false end).
  set (R := match sh_reloads s with None => true | Some _ => false end).
  set (N := match sh_end s with None => true | Some _ => false end).
  rewrite <- (existsb_eqb_const "break" B), <- (existsb_eqb_const "reload" R), <- (existsb_eqb_const "arrival" N), <- !existsb_orb.
  apply existsb_ext_in. intros id _. unfold reserved, missing_property.
  change (is_none (sh_breaks s)) with B. change (is_none (sh_reloads s)) with R. change (is_none (sh_end s)) with N.
  destruct (String.eqb_spec id "break") as [->|]; [cbn; now destruct B|].
  destruct (String.eqb_spec id "reload") as [->|]; [cbn; now destruct R|].
  destruct (String.eqb_spec id "arrival") as [->|]; [cbn; now destruct N|].
  cbn. now rewrite !andb_false_r.
Qed.
Lemma count_str_filter x l : count_str x l = List.length (filter (String.eqb x) l).
Proof. induction l as [|y r IH]; [reflexivity|]. cbn [count_str filter]. destruct (String.eqb x y); cbn [List.length]; now rewrite IH. Qed.
Lemma e1207_ok d rels : x_relations d = Some rels -> check_e1207 d rels = viol_1207 d.
Proof.
  intros E. unfold check_e1207, viol_1207, RulesX.rels. rewrite E. apply existsb_ext_in. intros r _. apply existsb_ext_in. intros id _.
  rewrite job_lookup_named. destruct (job_named d id) as [j|]; [|reflexivity]. now rewrite count_str_filter.
Qed.
(* ---------- E1204: the stateful walk = "two relations with different vehicles share a job id" ---------- *)
Definition pairs_of (rs : list relation) : list (string * string) :=
  flat_map (fun r => map (fun id => (id, r_vehicle r)) (filter (fun id => negb (reserved id)) (r_jobs r))) rs.
Definition pstep (st : list (string * string) * bool) (p : string * string) : list (string * string) * bool :=
  match assoc (fst p) (fst st) with
  | Some v => (fst st, snd st || negb (String.eqb v (snd p)))
  | None => (p :: fst st, snd st)
  end.
Lemma e1204_rel_pairs r : forall st,
  e1204_rel st r = fold_left pstep (map (fun id => (id, r_vehicle r)) (filter (fun id => negb (reserved id)) (r_jobs r))) st.
Proof.
  unfold e1204_rel. induction (r_jobs r) as [|id ids IH]; intros st; [reflexivity|].
  cbn [fold_left filter]. unfold e1204_step at 2. destruct (reserved id); cbn [negb map fold_left]; [apply IH|].
  now rewrite IH.
Qed.
Lemma e1204_pairs rs : forall st, fold_left e1204_rel rs st = fold_left pstep (pairs_of rs) st.
Proof.
  induction rs as [|r rs IH]; intros st; [reflexivity|]. cbn [fold_left pairs_of flat_map]. fold (pairs_of rs).
  now rewrite fold_left_app, IH, e1204_rel_pairs.
Qed.
Fixpoint conflict (m : list (string * string)) (ps : list (string * string)) : bool :=
  match ps with
  | [] => false
  | p :: r => match assoc (fst p) m with
              | Some v => negb (String.eqb v (snd p)) || conflict m r
              | None => conflict (p :: m) r
              end
  end.
Lemma pstep_conflict ps : forall m b, snd (fold_left pstep ps (m, b)) = b || conflict m ps.
Proof.
  induction ps as [|p ps IH]; intros m b; cbn [fold_left conflict]; [now rewrite orb_false_r|].
  unfold pstep at 2. cbn [fst snd]. destruct (assoc (fst p) m) as [v|]; rewrite IH; [now rewrite orb_assoc|reflexivity].
Qed.
Lemma assoc_some k m v : assoc k m = Some v -> In (k, v) m.
Proof.
  induction m as [|[k' v'] r IH]; cbn; [discriminate|]. destruct (String.eqb_spec k k') as [->|Hn].
  - intros H. inversion H. now left.
  - intros H. right. now apply IH.
Qed.
Lemma assoc_none k m : assoc k m = None -> forall v, ~ In (k, v) m.
Proof.
  induction m as [|[k' v'] r IH]; cbn; [tauto|]. destruct (String.eqb_spec k k') as [->|Hn]; [discriminate|].
  intros H v [Heq|Hin]; [inversion Heq; congruence|]. exact (IH H v Hin).
Qed.
Lemma assoc_unique k m v v' : NoDup (map fst m) -> assoc k m = Some v -> In (k, v') m -> v' = v.
Proof.
  induction m as [|[k0 v0] r IH]; cbn; [tauto|]. intros Hnd. inversion Hnd as [|? ? Hnotin Hnd']; subst.
  destruct (String.eqb_spec k k0) as [->|Hn].
  - intros H [Heq|Hin]; [inversion H; inversion Heq; congruence|]. exfalso. apply Hnotin. now apply (in_map fst _ (k0, v')).
  - intros H [Heq|Hin]; [inversion Heq; congruence|]. now apply IH.
Qed.
Definition pconf (m ps : list (string * string)) : Prop :=
  exists p q, In p (m ++ ps) /\ In q ps /\ fst p = fst q /\ snd p <> snd q.
Lemma conflict_spec ps : forall m, NoDup (map fst m) -> (conflict m ps = true <-> pconf m ps).
Proof.
  induction ps as [|[id vid] r IH]; intros m Hnd; cbn [conflict].
  - split; [discriminate|]. intros (p & q & _ & [] & _).
  - cbn [fst snd]. destruct (assoc id m) as [v|] eqn:Ea.
    + rewrite orb_true_iff, (IH m Hnd). split.
      * intros [Hne|(p & q & Hp & Hq & Hk & Hv)].
        -- exists (id, v), (id, vid). repeat split; cbn [fst snd]; [apply in_or_app; left; now apply assoc_some|now left|].
           intros ->. rewrite String.eqb_refl in Hne. discriminate.
        -- exists p, q. repeat split; try assumption; [|now right].
           apply in_app_or in Hp. apply in_or_app. destruct Hp; [now left|right; now right].
      * intros (p & q & Hp & Hq & Hk & Hv).
        destruct (String.eqb_spec v vid) as [->|Hne]; [right|now left].
        assert (Hm : In (id, vid) m) by now apply assoc_some.
        apply in_app_or in Hp. destruct Hq as [<-|Hq].
        -- cbn [fst snd] in *. destruct p as [k a]. cbn [fst snd] in *. subst k. destruct Hp as [Hp|[Hp|Hp]].
           ++ exfalso. apply Hv. now apply (assoc_unique id m vid a).
           ++ inversion Hp. congruence.
           ++ exists (id, vid), (id, a). repeat split; cbn [fst snd]; [apply in_or_app; now left|exact Hp|congruence].
        -- destruct Hp as [Hp|[<-|Hp]].
           ++ exists p, q. repeat split; try assumption. apply in_or_app. now left.
           ++ exists (id, vid), q. repeat split; try assumption. apply in_or_app. now left.
           ++ exists p, q. repeat split; try assumption. apply in_or_app. now right.
    + assert (Hnd' : NoDup (map fst ((id, vid) :: m))).
      { cbn. constructor; [|exact Hnd]. intros Hin. apply in_map_iff in Hin. destruct Hin as ([k a] & Hk & Hin). cbn in Hk. subst k.
        exact (assoc_none id m Ea a Hin). }
      rewrite (IH _ Hnd'). split.
      * intros (p & q & Hp & Hq & Hk & Hv). exists p, q. repeat split; try assumption; [|now right].
        cbn [app] in Hp. apply in_or_app. destruct Hp as [<-|Hp]; [right; now left|].
        apply in_app_or in Hp. destruct Hp; [now left|right; now right].
      * intros (p & q & Hp & Hq & Hk & Hv). apply in_app_or in Hp. destruct Hq as [<-|Hq].
        -- destruct p as [k a]. cbn [fst snd] in *. subst k. destruct Hp as [Hp|[Hp|Hp]].
           ++ exfalso. exact (assoc_none id m Ea a Hp).
           ++ inversion Hp. congruence.
           ++ exists (id, vid), (id, a). repeat split; cbn [fst snd app]; [now left|exact Hp|congruence].
        -- exists p, q. repeat split; try assumption. cbn [app]. destruct Hp as [Hp|[<-|Hp]]; [right; apply in_or_app; now left|now left|right; apply in_or_app; now right].
Qed.
Lemma in_pairs_of rs id vid : In (id, vid) (pairs_of rs) <-> exists r, In r rs /\ r_vehicle r = vid /\ In id (r_jobs r) /\ reserved id = false.
Proof.
  unfold pairs_of. rewrite in_flat_map. split.
  - intros (r & Hr & Hin). apply in_map_iff in Hin. destruct Hin as (x & Hx & Hf). inversion Hx; subst. apply filter_In in Hf.
    destruct Hf as [Hin Hres]. exists r. repeat split; auto. now apply negb_true_iff.
  - intros (r & Hr & <- & Hin & Hres). exists r. split; [exact Hr|]. apply in_map_iff. exists id. split; [reflexivity|].
    apply filter_In. split; [exact Hin|]. now rewrite Hres.
Qed.
Lemma has_str_In x l : has_str x l = true <-> In x l.
Proof.
  unfold has_str. rewrite existsb_exists. split.
  - intros (y & Hy & He). apply String.eqb_eq in He. now subst.
  - intros H. exists x. split; [exact H|apply String.eqb_refl].
Qed.
Lemma e1204_ok d rels : x_relations d = Some rels -> check_e1204 rels = viol_1204 d.
Proof.
  intros E. unfold check_e1204, viol_1204, RulesX.rels. rewrite E, e1204_pairs, pstep_conflict. cbn [orb].
  apply eq_true_iff_eq. rewrite (conflict_spec _ [] (NoDup_nil _)). unfold pconf. cbn [app]. split.
  - intros ([id v1] & [id' v2] & Hp & Hq & Hk & Hv). cbn [fst snd] in *. subst id'.
    apply in_pairs_of in Hp, Hq. destruct Hp as (r1 & Hr1 & Hv1 & Hi1 & Hres). destruct Hq as (r2 & Hr2 & Hv2 & Hi2 & _).
    apply existsb_exists. exists r1. split; [exact Hr1|]. apply existsb_exists. exists r2. split; [exact Hr2|].
    apply andb_true_iff. split.
    + apply negb_true_iff. apply String.eqb_neq. congruence.
    + apply existsb_exists. exists id. split; [exact Hi1|]. rewrite <- reserved_eq, Hres. cbn. now apply has_str_In.
  - intros H. apply existsb_exists in H. destruct H as (r1 & Hr1 & H). apply existsb_exists in H. destruct H as (r2 & Hr2 & H).
    apply andb_true_iff in H. destruct H as [Hne H]. apply existsb_exists in H. destruct H as (id & Hi1 & H).
    apply andb_true_iff in H. destruct H as [Hres Hi2]. apply negb_true_iff in Hres, Hne. rewrite <- reserved_eq in Hres.
    apply has_str_In in Hi2. apply String.eqb_neq in Hne.
    exists (id, r_vehicle r1), (id, r_vehicle r2). repeat split; cbn [fst snd]; try assumption.
    + apply in_pairs_of. exists r1. auto.
    + apply in_pairs_of. exists r2. auto.
Qed.
(* ---------- objectives ---------- *)
Lemma flat_tags_members objs : flat_tags objs = member_types objs.
Proof.
  reflexivity.
Qed.
Lemma dedup_count_le l : forall seen, (nat_dedup_count seen l <= List.length seen + List.length l)%nat.
Proof.
  induction l as [|x r IH]; intros seen; cbn [nat_dedup_count List.length]; [lia|].
  destruct (existsb (Nat.eqb x) seen); [specialize (IH seen); lia|]. specialize (IH (x :: seen)). cbn [List.length] in IH. lia.
Qed.
Lemma not_in_cons x seen r :
  forallb (fun y => negb (has_nat y (x :: seen))) r = negb (has_nat x r) && forallb (fun y => negb (has_nat y seen)) r.
Proof.
  unfold has_nat. induction r as [|y r IH]; [reflexivity|]. cbn [forallb]. rewrite IH.
  change (existsb (Nat.eqb y) (x :: seen)) with ((y =? x)%nat || existsb (Nat.eqb y) seen).
  change (existsb (Nat.eqb x) (y :: r)) with ((x =? y)%nat || existsb (Nat.eqb x) r).
  rewrite (Nat.eqb_sym y x). destruct (x =? y)%nat, (existsb (Nat.eqb y) seen), (existsb (Nat.eqb x) r); reflexivity.
Qed.
Lemma dedup_count_spec l : forall seen,
  (nat_dedup_count seen l =? List.length seen + List.length l)%nat
  = nat_nodupb l && forallb (fun y => negb (has_nat y seen)) l.
Proof.
  induction l as [|x r IH]; intros seen; cbn [nat_dedup_count List.length nat_nodupb forallb].
  - rewrite Nat.add_0_r. apply Nat.eqb_refl.
  - fold (has_nat x seen). destruct (has_nat x seen) eqn:Hx; cbn [negb].
    + rewrite andb_false_l, andb_false_r. apply Nat.eqb_neq. assert (H := dedup_count_le r seen). lia.
    + specialize (IH (x :: seen)). cbn [List.length] in IH. replace (List.length seen + S (List.length r))%nat
        with (S (List.length seen) + List.length r)%nat by lia. rewrite IH, not_in_cons.
      destruct (has_nat x r), (nat_nodupb r), (forallb (fun y => negb (has_nat y seen)) r); reflexivity.
Qed.
Lemma e1601_ok objs : check_e1601 objs = negb (nat_nodupb (member_types objs)).
Proof.
  unfold check_e1601. rewrite flat_tags_members. f_equal. assert (Hs := dedup_count_spec (member_types objs) []).
  cbn [List.length Nat.add] in Hs. rewrite Hs.
  assert (H : forallb (fun y => negb (has_nat y [])) (member_types objs) = true) by (apply forallb_forall; reflexivity).
  now rewrite H, andb_true_r.
Qed.
Lemma cost_tag_eq t : is_cost_tag t = has_nat t COST_TAGS.
Proof. destruct t as [|[|[|t]]]; reflexivity. Qed.
Lemma e1602_ok objs : check_e1602 objs = forallb (fun t => negb (has_nat t COST_TAGS)) (member_types objs).
Proof.
  unfold check_e1602. rewrite flat_tags_members, negb_existsb. apply forallb_ext_in. intros t _. now rewrite cost_tag_eq.
Qed.
Lemma top_has_listed t objs : top_has t objs = has_nat t (listed_types objs).
Proof.
  unfold top_has, has_nat, listed_types. induction objs as [|o r IH]; [reflexivity|]. cbn [existsb flat_map].
  rewrite existsb_app, IH. destruct o as [t' a|st ins]; cbn [existsb]; [now rewrite Nat.eqb_sym, orb_false_r|reflexivity].
Qed.
Lemma value_positive_eq d : job_value_positive d = some_value_positive d.
Proof.
  unfold job_value_positive, some_value_positive. apply existsb_ext_in. intros j _. destruct (xj_value j) as [v|]; [|reflexivity].
  destruct (Z.ltb_spec 0 v), (Z.leb_spec 1 v); try reflexivity; lia.
Qed.
Lemma order_positive_eq d : job_order_positive d = some_order_positive d.
Proof.
  unfold job_order_positive, some_order_positive. apply existsb_ext_in. intros j _. apply existsb_ext_in. intros o _.
  destruct (Z.ltb_spec 0 o), (Z.leb_spec 1 o); try reflexivity; lia.
Qed.
Lemma e1605_ok d : check_e1605 d = existsb (fun j => existsb (fun o => o <=? 0) (xj_orders j)
                                                   || match xj_value j with Some v => v <=? 999 | None => false end) (x_jobs d).
Proof.
  unfold check_e1605. apply existsb_ext_in. intros j _. f_equal.
  - apply existsb_ext_in. intros o _. destruct (Z.ltb_spec o 1), (Z.leb_spec o 0); try reflexivity; lia.
  - destruct (xj_value j) as [v|]; [|reflexivity]. destruct (Z.ltb_spec v 1000), (Z.leb_spec v 999); try reflexivity; lia.
Qed.
Lemma e1606_ok objs : check_e1606 objs = several (filter (fun t => has_nat t COST_TAGS) (listed_types objs)).
Proof.
  unfold check_e1606. rewrite several_eq. unfold several. f_equal. unfold listed_types.
  induction objs as [|o r IH]; [reflexivity|]. cbn [filter flat_map]. rewrite filter_app, app_length, <- IH.
  destruct o as [t a|st ins]; cbn [filter app List.length]; [|reflexivity]. rewrite <- cost_tag_eq. now destruct (is_cost_tag t).
Qed.
Lemma several_len {A B} (a : list A) (b : list B) : List.length a = List.length b -> several a = several b.
Proof. unfold several. now intros ->. Qed.

Lemma objectives_agree d c f : In (c, f) objectives_checks -> f d = Some (xviolates c d).
Proof.
  intros Hin. unfold objectives_checks in Hin. cbn [In] in Hin.
  repeat (destruct Hin as [Hin|Hin]; [inversion Hin; subst c f; clear Hin|]); [..|contradiction];
    unfold on_objectives; f_equal.
  - change (xviolates 1600 d) with (viol_1600 d). unfold viol_1600, with_objectives. destruct (x_objectives d) as [objs|]; [|reflexivity].
    unfold check_e1600. apply is_nil_nonempty.
  - change (xviolates 1601 d) with (viol_1601 d). unfold viol_1601, with_objectives. destruct (x_objectives d) as [objs|]; [|reflexivity].
    apply e1601_ok.
  - change (xviolates 1602 d) with (viol_1602 d). unfold viol_1602, with_objectives. destruct (x_objectives d) as [objs|]; [|reflexivity].
    apply e1602_ok.
  - change (xviolates 1603 d) with (viol_1603 d). unfold viol_1603, with_objectives. destruct (x_objectives d) as [objs|]; [|reflexivity].
    unfold check_e1603. now rewrite top_has_listed, value_positive_eq.
  - change (xviolates 1604 d) with (viol_1604 d). unfold viol_1604, with_objectives. destruct (x_objectives d) as [objs|]; [|reflexivity].
    unfold check_e1604. now rewrite top_has_listed, order_positive_eq.
  - change (xviolates 1605 d) with (viol_1605 d). unfold viol_1605, with_objectives. destruct (x_objectives d) as [objs|]; [|reflexivity].
    apply e1605_ok.
  - change (xviolates 1606 d) with (viol_1606 d). unfold viol_1606, with_objectives. destruct (x_objectives d) as [objs|]; [|reflexivity].
    apply e1606_ok.
  - change (xviolates 1607 d) with (viol_1607 d). unfold viol_1607, with_objectives. destruct (x_objectives d) as [objs|]; [|reflexivity].
    unfold check_e1607. rewrite top_has_listed, value_positive_eq, is_nil_nonempty. now destruct (nonempty objs).
Qed.

Lemma relations_agree d c f : In (c, f) relations_checks -> f d = Some (xviolates c d).
Proof.
  intros Hin. unfold relations_checks in Hin. cbn [In] in Hin.
  assert (Hnone : x_relations d = None -> forall c', In c' [1200; 1201; 1202; 1203; 1204; 1205; 1206; 1207] -> xviolates c' d = false).
  { intros E c' Hc. cbn [In] in Hc. repeat (destruct Hc as [<-|Hc]; [unfold xviolates; cbn [xlookup xspec_table Z.eqb Pos.eqb];
      unfold viol_1200, viol_1201, viol_1202, viol_1203, viol_1204, viol_1205, viol_1206, viol_1207, RulesX.rels; now rewrite E|]). destruct Hc. }
  repeat (destruct Hin as [Hin|Hin]; [inversion Hin; subst c f; clear Hin|]); [..|contradiction];
    unfold on_relations; f_equal; destruct (x_relations d) as [rels|] eqn:E;
    try (symmetry; apply (Hnone eq_refl); cbn; tauto).
  - change (xviolates 1200 d) with (viol_1200 d). now apply e1200_ok.
  - change (xviolates 1201 d) with (viol_1201 d). now apply e1201_ok.
  - change (xviolates 1202 d) with (viol_1202 d). now apply e1202_ok.
  - change (xviolates 1203 d) with (viol_1203 d). now apply e1203_ok.
  - change (xviolates 1204 d) with (viol_1204 d). now apply e1204_ok.
  - change (xviolates 1205 d) with (viol_1205 d). now apply e1205_ok.
  - change (xviolates 1206 d) with (viol_1206 d). now apply e1206_ok.
  - change (xviolates 1207 d) with (viol_1207 d). now apply e1207_ok.
Qed.
(* ---------- coord_index.rs ---------- *)
Lemma loc_eqb_eq a b : loc_eqb a b = true <-> a = b.
Proof.
  destruct a as [x|i], b as [y|j]; cbn; split; try discriminate; try congruence.
  - intros H. apply Z.eqb_eq in H. now subst.
  - intros H. inversion H. apply Z.eqb_refl.
  - intros H. apply Nat.eqb_eq in H. now subst.
  - intros H. inversion H. apply Nat.eqb_refl.
Qed.
Lemma same_loc_eq a b : same_loc a b = loc_eqb a b. Proof. reflexivity. Qed.
Definition loc_eq_dec (a b : loc) : {a = b} + {a <> b}.
Proof. decide equality; [apply Z.eq_dec|apply Nat.eq_dec]. Defined.
Lemma mem_loc_In x l : mem_loc x l = true <-> In x l.
Proof.
  unfold mem_loc. rewrite existsb_exists. split.
  - intros (y & Hy & He). apply loc_eqb_eq in He. now subst.
  - intros H. exists x. split; [exact H|now apply loc_eqb_eq].
Qed.

Lemma nodup_snoc {A} (l : list A) x : NoDup l -> ~ In x l -> NoDup (l ++ [x]).
Proof.
  induction l as [|a l IH]; cbn; intros Hn Hx; [constructor; [tauto|constructor]|].
  inversion Hn as [|? ? Ha Hl]; subst. constructor.
  - rewrite in_app_iff. cbn. intros [H|[H|[]]]; [tauto|subst; tauto].
  - apply IH; tauto.
Qed.
(* invariant of the index while locations are added *)
Record ci_inv (ci : cindex) : Prop := {
  inv_nodup : NoDup (ci_direct ci);
  inv_rev : forall k l, In (k, l) (ci_reverse ci) -> exists p, nth_error (ci_direct ci) p = Some l /\ loc_value p l = k;
  inv_keys : NoDup (map fst (ci_reverse ci));
  inv_idx : forall p i, nth_error (ci_direct ci) p = Some (LIndex i) ->
            In (i, LIndex i) (ci_reverse ci)
            \/ exists q x, nth_error (ci_direct ci) q = Some (LCoord x) /\ q = i }.

Lemma ci_inv_empty : ci_inv (mkCI [] []).
Proof.
  constructor; cbn.
  - constructor.
  - intros k l [].
  - constructor.
  - intros p i H. destruct p; discriminate.
Qed.
Lemma filter_keys_nodup (m : list (nat * loc)) k : NoDup (map fst m) -> NoDup (map fst (filter (fun e => negb (fst e =? k)%nat) m)).
Proof.
  induction m as [|[k' l'] r IH]; cbn; [auto|]. intros H. inversion H as [|? ? Hn Hr]; subst.
  destruct (k' =? k)%nat; cbn; [now apply IH|]. constructor; [|now apply IH].
  intros Hin. apply Hn. apply in_map_iff in Hin. destruct Hin as (e & He & Hf). apply filter_In in Hf. apply in_map_iff. exists e. tauto.
Qed.
Lemma ci_add_inv ci l : ci_inv ci -> ci_inv (ci_add ci l).
Proof.
  intros [Hnd Hrev Hkeys Hidx]. unfold ci_add. destruct (mem_loc l (ci_direct ci)) eqn:Hm; [constructor; assumption|].
  assert (Hnot : ~ In l (ci_direct ci)) by (intros Hin; apply mem_loc_In in Hin; congruence).
  set (n := List.length (ci_direct ci)). set (k0 := loc_value n l).
  constructor; cbn [ci_direct ci_reverse].
  - now apply nodup_snoc.
  - intros k l' [Heq|Hin].
    + inversion Heq; subst k l'. exists n. split; [|reflexivity]. rewrite nth_error_app2 by (unfold n; lia).
      unfold n. now rewrite Nat.sub_diag.
    + apply filter_In in Hin. destruct Hin as [Hin _]. destruct (Hrev k l' Hin) as (p & Hp & Hv). exists p. split; [|exact Hv].
      rewrite nth_error_app1; [exact Hp|]. apply nth_error_Some. congruence.
  - unfold rev_insert. cbn [map fst]. constructor; [|now apply filter_keys_nodup].
    intros Hin. apply in_map_iff in Hin. destruct Hin as (e & He & Hf). apply filter_In in Hf. destruct Hf as [_ Hf].
    rewrite He, Nat.eqb_refl in Hf. discriminate.
  - intros p i Hp. destruct (Nat.lt_ge_cases p n) as [Hlt|Hge].
    + rewrite nth_error_app1 in Hp by exact Hlt. destruct (Hidx p i Hp) as [Hin|(q & x & Hq & Hqi)].
      * destruct (Nat.eq_dec i k0) as [He|Hne].
        -- (* the new location takes the slot i *)
           destruct l as [x|j]; unfold k0, loc_value in He.
           ++ right. exists n, x. split; [|congruence]. rewrite nth_error_app2 by lia. now rewrite Nat.sub_diag.
           ++ exfalso. apply Hnot. subst j. eapply nth_error_In. exact Hp.
        -- left. right. apply filter_In. split; [exact Hin|]. cbn [fst]. apply negb_true_iff. now apply Nat.eqb_neq.
      * right. exists q, x. split; [|exact Hqi]. rewrite nth_error_app1; [exact Hq|]. apply nth_error_Some. congruence.
    + rewrite nth_error_app2 in Hp by exact Hge. fold n in Hp. destruct (p - n)%nat as [|m] eqn:Hpn; [|destruct m; cbn in Hp; discriminate].
      cbn in Hp. inversion Hp; subst l. left. left. reflexivity.
Qed.
Lemma fold_ci_inv ls : forall ci, ci_inv ci -> ci_inv (fold_left ci_add ls ci).
Proof. induction ls as [|l ls IH]; intros ci H; [exact H|]. cbn [fold_left]. apply IH. now apply ci_add_inv. Qed.
Lemma coord_index_inv ls : ci_inv (coord_index ls).
Proof. apply fold_ci_inv, ci_inv_empty. Qed.

Lemma ci_add_direct_in ci l x : In x (ci_direct (ci_add ci l)) <-> In x (ci_direct ci) \/ x = l.
Proof.
  unfold ci_add. destruct (mem_loc l (ci_direct ci)) eqn:Hm.
  - apply mem_loc_In in Hm. split; [tauto|]. intros [H|H]; [assumption|now subst].
  - cbn [ci_direct]. rewrite in_app_iff. cbn [In]. split; [intros [H|[H|[]]]; auto|intros [H|H]; auto].
Qed.
Lemma fold_direct_in ls : forall ci x, In x (ci_direct (fold_left ci_add ls ci)) <-> In x (ci_direct ci) \/ In x ls.
Proof.
  induction ls as [|l ls IH]; intros ci x; cbn [fold_left In]; [tauto|]. rewrite IH, ci_add_direct_in. intuition.
Qed.
Lemma coord_index_direct_in ls x : In x (ci_direct (coord_index ls)) <-> In x ls.
Proof. unfold coord_index. rewrite fold_direct_in. cbn. tauto. Qed.

Lemma ndistinct_nodup ls : ndistinct ls = List.length (nodup loc_eq_dec ls).
Proof.
  induction ls as [|x r IH]; [reflexivity|]. cbn [ndistinct nodup].
  destruct (existsb (same_loc x) r) eqn:He; destruct (in_dec loc_eq_dec x r) as [Hin|Hnin]; cbn [List.length]; try congruence.
  - exfalso. apply Hnin. apply mem_loc_In. exact He.
  - exfalso. apply mem_loc_In in Hin. change (mem_loc x r = false) in He. congruence.
Qed.
Lemma direct_length ls : List.length (ci_direct (coord_index ls)) = ndistinct ls.
Proof.
  rewrite ndistinct_nodup. apply Nat.le_antisymm; apply NoDup_incl_length.
  - apply (inv_nodup _ (coord_index_inv ls)).
  - intros x Hx. apply nodup_In. now apply coord_index_direct_in.
  - apply NoDup_nodup.
  - intros x Hx. apply nodup_In in Hx. now apply coord_index_direct_in.
Qed.
(* ---------- routing.rs on the extended document ---------- *)
Definition index_ge (size : nat) (l : loc) : bool := match l with LIndex i => (size <=? i)%nat | LCoord _ => false end.
Lemma outside_implies ls size : has_index_outside size (coord_index ls) = true -> existsb (index_ge size) ls = true.
Proof.
  unfold has_index_outside. rewrite !existsb_exists. intros ([k l] & Hin & Hl). cbn [snd] in Hl.
  destruct (inv_rev _ (coord_index_inv ls) k l Hin) as (p & Hp & _). exists l. split; [|exact Hl].
  apply coord_index_direct_in. eapply nth_error_In. exact Hp.
Qed.
(* when the number of distinct locations equals the matrix size, the overwriting reverse index loses no index that matters *)
Lemma outside_spec ls size : (ndistinct ls <= size)%nat ->
  has_index_outside size (coord_index ls) = existsb (index_ge size) ls.
Proof.
  intros Hn. apply eq_true_iff_eq. split; [apply outside_implies|].
  intros H. apply existsb_exists in H. destruct H as (l & Hin & Hl). destruct l as [x|i]; [discriminate|]. cbn in Hl.
  apply coord_index_direct_in in Hin. destruct (In_nth_error _ _ Hin) as (p & Hp).
  destruct (inv_idx _ (coord_index_inv ls) p i Hp) as [Hr|(q & x & Hq & Hqi)].
  - unfold has_index_outside. apply existsb_exists. exists (i, LIndex i). split; [exact Hr|exact Hl].
  - exfalso. assert (Hlt : (q < List.length (ci_direct (coord_index ls)))%nat) by (apply nth_error_Some; congruence).
    rewrite direct_length in Hlt. apply Nat.leb_le in Hl. lia.
Qed.
Lemma round_sqrt_square n : round_sqrt (n * n) = n.
Proof.
  unfold round_sqrt. rewrite Nat.sqrt_square. replace (n * n - n * n)%nat with 0%nat by lia.
  destruct (Nat.ltb_spec n 0); [lia|reflexivity].
Qed.
Lemma filter_all {A} (f : A -> bool) l : (forall x, In x l -> f x = true) -> filter f l = l.
Proof. induction l as [|a l IH]; cbn; intros H; [reflexivity|]. rewrite (H a) by now left. f_equal. apply IH. intros; apply H; now right. Qed.
(* without index locations nothing is ever replaced: the reverse index has one entry per distinct location *)
Lemma reverse_length_coords ls : forall ci, ci_inv ci -> (forall l, In l (ci_direct ci) -> is_index l = false) ->
  List.length (ci_reverse ci) = List.length (ci_direct ci) -> existsb is_index ls = false ->
  List.length (ci_reverse (fold_left ci_add ls ci)) = List.length (ci_direct (fold_left ci_add ls ci)).
Proof.
  induction ls as [|l ls IH]; intros ci Hinv Hc Hlen Hls; [exact Hlen|]. cbn [fold_left existsb] in *.
  apply orb_false_iff in Hls. destruct Hls as [Hl Hls]. apply IH; [now apply ci_add_inv| | |exact Hls].
  - intros x Hx. apply ci_add_direct_in in Hx. destruct Hx as [Hx| ->]; [now apply Hc|exact Hl].
  - unfold ci_add. destruct (mem_loc l (ci_direct ci)); [exact Hlen|]. cbn [ci_direct ci_reverse]. unfold rev_insert.
    rewrite app_length. cbn [List.length]. rewrite filter_all; [lia|].
    intros [k x] Hin. cbn [fst]. apply negb_true_iff, Nat.eqb_neq. destruct (inv_rev _ Hinv k x Hin) as (p & Hp & Hv).
    assert (Hlt : (p < List.length (ci_direct ci))%nat) by (apply nth_error_Some; congruence).
    assert (Hx := Hc x (nth_error_In _ _ Hp)). destruct x as [cx|ix]; [|discriminate]. destruct l as [cl|il]; [|discriminate].
    cbn in *. lia.
Qed.
Lemma reverse_length ls : existsb is_index ls = false -> List.length (ci_reverse (coord_index ls)) = ndistinct ls.
Proof.
  intros H. rewrite <- direct_length. unfold coord_index. apply reverse_length_coords; [apply ci_inv_empty|intros l []|reflexivity|exact H].
Qed.
Lemma ndistinct_zero ls : (ndistinct ls =? 0)%nat = negb (nonempty ls).
Proof.
  destruct ls as [|x r]; [reflexivity|]. cbn [nonempty negb]. apply Nat.eqb_neq. rewrite <- direct_length. intros H.
  assert (Hin : In x (ci_direct (coord_index (x :: r)))) by (apply coord_index_direct_in; now left).
  destruct (ci_direct (coord_index (x :: r))); [destruct Hin|discriminate].
Qed.

Lemma x1500_ok d : xcheck_e1500 d = xviol_1500 d. Proof. unfold xcheck_e1500, xviol_1500. apply has_dup_spec. Qed.
Lemma x1501_ok d : xcheck_e1501 d = xviol_1501 d. Proof. apply is_nil_nonempty. Qed.
Lemma is_coord_not_index l : is_coord l = negb (loc_is_index l). Proof. now destruct l. Qed.
Lemma x1502_ok d : xcheck_e1502 d = xviol_1502 d.
Proof.
  unfold xcheck_e1502, xviol_1502, has_coordinates, has_indices. rewrite andb_comm. f_equal.
  apply existsb_ext_in. intros l _. apply is_coord_not_index.
Qed.
Lemma x1503_ok d : xcheck_e1503 d = xviol_1503 d.
Proof.
  unfold xcheck_e1503, xviol_1503, no_matrices, seen_matrices, has_indices. change is_index with loc_is_index.
  destruct (x_matrices d) as [[|m ms]|]; try reflexivity.
  destruct (existsb loc_is_index (x_locs d)); reflexivity.
Qed.
Lemma x1504_ok d : xcheck_e1504 d = xviol_1504 d.
Proof.
  unfold xcheck_e1504, xviol_1504, first_matrix_len, seen_matrices.
  assert (Hgen : forall size, negb ((max_matrix_index (coord_index (x_locs d)) + 1 =? size)%nat
                                   && negb (has_index_outside size (coord_index (x_locs d))))
                             = negb (Nat.max 1 (ndistinct (x_locs d)) =? size)%nat || existsb (index_ge size) (x_locs d)).
  { intros size. unfold max_matrix_index. rewrite direct_length.
    replace (Nat.max (ndistinct (x_locs d)) 1 - 1 + 1)%nat with (Nat.max 1 (ndistinct (x_locs d))) by lia.
    destruct (Nat.eqb_spec (Nat.max 1 (ndistinct (x_locs d))) size) as [He|Hne]; [|reflexivity].
    cbn [andb negb orb]. rewrite negb_involutive. apply outside_spec. lia. }
  destruct (x_matrices d) as [[|m ms]|].
  - reflexivity.
  - cbv zeta. apply Hgen.
  - unfold has_indices. change is_index with loc_is_index. destruct (existsb loc_is_index (x_locs d)) eqn:Hi; [reflexivity|].
    unfold approx_matrices, approx_skipped. destruct (x_profiles d) as [|p ps]; [reflexivity|]. cbn [is_nil orb].
    destruct (existsb (fun s => s <=? 0) (x_speeds d)); [cbn; now rewrite andb_false_r|]. rewrite andb_true_r.
    cbn [map xm_matrix m_dist negb nonempty andb].
    cbv zeta. rewrite repeat_length, round_sqrt_square, Hgen, (reverse_length _ Hi).
    assert (Hno : existsb (index_ge (ndistinct (x_locs d))) (x_locs d) = false).
    { apply existsb_false. intros l Hl. destruct l as [x|i]; [reflexivity|]. exfalso.
      change is_index with loc_is_index in Hi. rewrite existsb_false in Hi. specialize (Hi _ Hl). discriminate. }
    rewrite Hno, orb_false_r, <- ndistinct_zero.
    destruct (ndistinct (x_locs d)) as [|n]; [reflexivity|]. cbn [Nat.eqb negb]. apply negb_false_iff, Nat.eqb_eq. lia.
Qed.
Lemma x1505_ok d : xcheck_e1505 d = xviol_1505 d.
Proof.
  unfold xcheck_e1505, xviol_1505, xvehicles. rewrite existsb_app, !existsb_map. f_equal.
  destruct (x_clustering d) as [p|]; [cbn [existsb]; apply orb_false_r|reflexivity].
Qed.
Lemma routing_agree d c f : In (c, f) xrouting_checks -> f d = Some (xviolates c d).
Proof.
  intros Hin. unfold xrouting_checks in Hin. cbn [In] in Hin.
  repeat (destruct Hin as [Hin|Hin]; [inversion Hin; subst c f; clear Hin|]); [..|contradiction]; f_equal.
  - apply x1500_ok.
  - apply x1501_ok.
  - apply x1502_ok.
  - apply x1503_ok.
  - apply x1504_ok.
  - apply x1505_ok.
Qed.

(* ---------- xvalidate = the documented rules, outside K7 / K8 ---------- *)
Lemma xknown_false d : xknown d = false ->
  known (xbase d) = false /\ xk7_over8 d = false /\ x11_special_without_job d = false
  /\ x16_recharge_times d = false /\ g1_goal_unbuildable d = false /\ g2_required_breaks d = false.
Proof.
  unfold xknown, xknown_table. cbn [existsb snd]. unfold on_base. intros H.
  apply orb_false_iff in H; destruct H as [K7 H]. apply orb_false_iff in H; destruct H as [K9 H].
  apply orb_false_iff in H; destruct H as [K11 H]. apply orb_false_iff in H; destruct H as [K16 H].
  apply orb_false_iff in H; destruct H as [K21 H]. apply orb_false_iff in H; destruct H as [K22 _].
  assert (K7b : k7_over8 (xbase d) = false) by (unfold xk7_over8 in K7; now apply orb_false_iff in K7).
  repeat split; try assumption. unfold known, known_table. cbn [existsb snd]. unfold g2_required_breaks in K22. now rewrite K7b, K9, K22.
Qed.
Lemma lifted_agree d : known (xbase d) = false -> forall c f, In (c, f) (lift jobs_checks ++ lift vehicles_checks) -> f d = Some (xviolates c d).
Proof.
  intros Hk c f Hin. unfold lift, jobs_checks, vehicles_checks in Hin. cbn [map app In fst snd] in Hin.
  repeat (destruct Hin as [Hin|Hin]; [inversion Hin; subst c f; clear Hin;
    match goal with |- ?g (xbase d) = Some (xviolates ?c d) =>
      rewrite (checks_agree (xbase d) Hk c g) by (unfold all_checks, jobs_checks, vehicles_checks; cbn [app In]; tauto); reflexivity end|]).
  contradiction.
Qed.
Lemma xchecks_agree d : known (xbase d) = false -> forall c f, In (c, f) xall_checks -> f d = Some (xviolates c d).
Proof.
  intros Hk c f Hin. unfold xall_checks in Hin. rewrite app_assoc in Hin. apply in_app_or in Hin. destruct Hin as [Hin|Hin].
  - now apply lifted_agree.
  - apply in_app_or in Hin. destruct Hin as [Hin|Hin]; [now apply objectives_agree|].
    apply in_app_or in Hin. destruct Hin as [Hin|Hin]; [now apply routing_agree|now apply relations_agree].
Qed.

Definition xspec_result (d : xdoc) : vres :=
  match filter (fun c => xviolates c d) (map fst xall_checks) with [] => VOk | cs => VErr cs end.
Lemma xvalidate_generic (checks : list (Z * (xdoc -> option bool))) d :
  (forall c f, In (c, f) checks -> f d = Some (xviolates c d)) ->
  existsb (fun r : Z * option bool => is_none (snd r)) (map (fun cf => (fst cf, snd cf d)) checks) = false
  /\ map fst (filter (fun r : Z * option bool => match snd r with Some true => true | _ => false end)
                     (map (fun cf => (fst cf, snd cf d)) checks))
     = filter (fun c => xviolates c d) (map fst checks).
Proof.
  induction checks as [|[c f] r IH]; intros H; [split; reflexivity|].
  destruct IH as [IH1 IH2]; [intros c' f' Hin; apply H; now right|].
  cbn [map existsb filter fst snd]. rewrite (H c f) by now left. cbn [is_none orb]. split; [exact IH1|].
  destruct (xviolates c d); cbn [map fst]; now rewrite IH2.
Qed.
Lemma xvalidate_spec d : known (xbase d) = false -> xvalidate d = xspec_result d.
Proof.
  intros Hk. destruct (xvalidate_generic xall_checks d (xchecks_agree d Hk)) as [Hn Hc].
  unfold xvalidate, xspec_result. cbv zeta. rewrite Hn, Hc. reflexivity.
Qed.
Lemma xspec_result_cases d :
  (xspec_result d = VOk /\ forall c, In c (map fst xall_checks) -> xviolates c d = false)
  \/ (exists cs, xspec_result d = VErr cs /\ cs <> [] /\ forall c, In c cs <-> In c (map fst xall_checks) /\ xviolates c d = true).
Proof.
  unfold xspec_result. destruct (filter (fun c => xviolates c d) (map fst xall_checks)) as [|c0 cs] eqn:E.
  - left. split; [reflexivity|]. intros c Hc. destruct (xviolates c d) eqn:Ev; [|reflexivity].
    assert (Hin : In c (filter (fun c => xviolates c d) (map fst xall_checks))) by (apply filter_In; auto).
    rewrite E in Hin. destruct Hin.
  - right. exists (c0 :: cs). split; [reflexivity|]. split; [discriminate|]. intros c. rewrite <- E. apply filter_In.
Qed.

(* ---------- rule tables of the extended model (re-proved against the regenerated Generated/RuleTable.v on every run) ---------- *)
Lemma xmodel_table_matches_source_l :
  map fst objectives_checks = gen_objectives_calls
  /\ map fst xrouting_checks = gen_routing_calls
  /\ map fst relations_checks = gen_relations_calls
  /\ map fst xall_checks = implemented_codes
  /\ map fst xspec_table = map fst xall_checks.
Proof. repeat split; vm_compute; reflexivity. Qed.
(* the Rust rule functions and their helpers are, textually, the ones the model was written against (Model/RulePins.v) *)
Lemma rule_fingerprints_l :
  gen_rule_hash = pinned_rule_hash /\ gen_helper_hash = pinned_helper_hash /\ gen_rule_uses = pinned_rule_uses
  /\ map fst gen_rule_hash = defined_codes.
Proof. repeat split; vm_compute; reflexivity. Qed.
