(* C03: theorems about the model of the solution writer (Model/Writer.v) against the independent replay of Spec/Valid.v. *)
From VRP Require Import Base.Tac Model.Core Spec.Feasible Spec.Valid Model.Writer Proofs.ValidP.

Lemma stat_add_assoc a b c : stat_add (stat_add a b) c = stat_add a (stat_add b c).
Proof. destruct a, b, c; unfold stat_add; cbn; f_equal; lia. Qed.
Lemma stat_add_0_r a : stat_add a stat0 = a.
Proof. destruct a; unfold stat_add, stat0; cbn; f_equal; lia. Qed.
Lemma stat_add_0_l a : stat_add stat0 a = a.
Proof. destruct a; unfold stat_add, stat0; cbn; f_equal; lia. Qed.

Section WriterFacts.
Variable dur dist : Z -> Z -> Z.
Variable v : vehicle.

Notation wstep := (wstep dur dist v).

(* what one activity adds to the statistic *)
Definition leg_stat (loc dep : Z) (a : act) : sstat :=
  let waiting := Z.max (a_arr a) (a_tws a) - a_arr a in
  mkSStat (serving_cost v a + transport_cost dur dist v loc (a_loc a) + waiting * v_pwait v)
          (dist loc (a_loc a)) (a_dep a - dep) (dur loc (a_loc a)) (a_svc a) waiting 0.

Fixpoint delta (loc dep : Z) (r : list wact) : sstat :=
  match r with
  | [] => stat0
  | w :: r' => stat_add (leg_stat loc dep (w_act w)) (delta (a_loc (w_act w)) (a_dep (w_act w)) r')
  end.

Lemma wstep_loc st w : ws_loc (wstep st w) = a_loc (w_act w).
Proof. reflexivity. Qed.
Lemma wstep_dep st w : ws_dep (wstep st w) = a_dep (w_act w).
Proof. reflexivity. Qed.
Lemma wstep_stat st w : ws_stat (wstep st w) = stat_add (ws_stat st) (leg_stat (ws_loc st) (ws_dep st) (w_act w)).
Proof. unfold Writer.wstep, stat_add, leg_stat. cbn [ws_stat st_cost st_dist st_dur st_drive st_serve st_wait st_break]. f_equal; lia. Qed.

Lemma fold_stat r : forall st,
  ws_stat (fold_left wstep r st) = stat_add (ws_stat st) (delta (ws_loc st) (ws_dep st) r).
Proof.
  induction r as [|w r IH]; intros st; cbn [fold_left delta].
  - rewrite stat_add_0_r. reflexivity.
  - rewrite IH, wstep_stat, wstep_loc, wstep_dep, stat_add_assoc. reflexivity.
Qed.

(* ---- closed forms of the accumulated statistic *)
Definition acts_of_w (r : list wact) : list act := map w_act r.
Definition waits (r : list wact) : Z := sumz (map (fun w => Z.max (a_arr (w_act w)) (a_tws (w_act w)) - a_arr (w_act w)) r).
Definition last_dep (dep : Z) (r : list wact) : Z := fold_left (fun _ w => a_dep (w_act w)) r dep.

Lemma delta_dist loc dep r : st_dist (delta loc dep r) = legs_sum dist loc (acts_of_w r).
Proof. revert loc dep. induction r as [|w r IH]; intros loc dep; cbn [delta acts_of_w map legs_sum]; [reflexivity|]. cbn [stat_add st_dist leg_stat]. rewrite IH. reflexivity. Qed.
Lemma delta_drive loc dep r : st_drive (delta loc dep r) = legs_sum dur loc (acts_of_w r).
Proof. revert loc dep. induction r as [|w r IH]; intros loc dep; cbn [delta acts_of_w map legs_sum]; [reflexivity|]. cbn [stat_add st_drive leg_stat]. rewrite IH. reflexivity. Qed.
Lemma delta_serve loc dep r : st_serve (delta loc dep r) = sumz (map a_svc (acts_of_w r)).
Proof. revert loc dep. induction r as [|w r IH]; intros loc dep; cbn [delta acts_of_w map sumz fold_right]; [reflexivity|]. cbn [stat_add st_serve leg_stat]. rewrite IH. reflexivity. Qed.
Lemma delta_wait loc dep r : st_wait (delta loc dep r) = waits r.
Proof. revert loc dep. unfold waits. induction r as [|w r IH]; intros loc dep; cbn [delta map sumz fold_right]; [reflexivity|]. cbn [stat_add st_wait leg_stat]. rewrite IH. reflexivity. Qed.
Lemma delta_break loc dep r : st_break (delta loc dep r) = 0.
Proof. revert loc dep. induction r as [|w r IH]; intros loc dep; cbn [delta]; [reflexivity|]. cbn [stat_add st_break leg_stat]. rewrite IH. reflexivity. Qed.
(* duration telescopes: departure of the last activity minus the departure from the start *)
Lemma delta_dur loc dep r : st_dur (delta loc dep r) = last_dep dep r - dep.
Proof.
  revert loc dep. unfold last_dep. induction r as [|w r IH]; intros loc dep; cbn [delta fold_left]; [cbn; lia|].
  cbn [stat_add st_dur leg_stat]. rewrite IH. lia.
Qed.
(* the cost is the priced sum of the four quantities *)
Lemma delta_cost loc dep r :
  st_cost (delta loc dep r) = st_dist (delta loc dep r) * v_pdist v + st_drive (delta loc dep r) * v_ptime v
                              + st_serve (delta loc dep r) * v_psvc v + st_wait (delta loc dep r) * v_pwait v.
Proof.
  revert loc dep. induction r as [|w r IH]; intros loc dep; cbn [delta]; [reflexivity|].
  cbn [stat_add st_cost st_dist st_drive st_serve st_wait leg_stat]. rewrite IH.
  unfold serving_cost, transport_cost. ring.
Qed.

(* ---- a schedule as update_schedules leaves it *)
Fixpoint Sched (loc dep : Z) (r : list wact) : Prop :=
  match r with
  | [] => True
  | w :: r' => let a := w_act w in
               a_arr a = dep + dur loc (a_loc a) /\ a_dep a = Z.max (a_arr a) (a_tws a) + a_svc a
               /\ Sched (a_loc a) (a_dep a) r'
  end.

(* the Core model of update_schedules produces such schedules *)
Lemma resched_Sched (kinds : list (Z * option Z)) : forall loc dep acts,
  Sched loc dep (map (fun x => mkWAct (fst x) (fst (snd x)) (snd (snd x))) (combine (resched_from dur loc dep acts) kinds)).
Proof.
  induction kinds as [|k ks IH]; intros loc dep acts.
  - destruct (resched_from dur loc dep acts); exact I.
  - destruct acts as [|a r]; cbn [resched_from combine map Sched]; [exact I|].
    cbn [w_act fst]. unfold set_sched, est_departure. cbn [a_arr a_dep a_loc a_tws a_svc].
    split; [reflexivity|]. split; [reflexivity|]. apply IH.
Qed.

(* THEOREM statistic_split: duration = driving + serving + waiting (+ break, which is 0 in this fragment) *)
Lemma delta_split r : forall loc dep, Sched loc dep r ->
  st_dur (delta loc dep r) = st_drive (delta loc dep r) + st_serve (delta loc dep r) + st_wait (delta loc dep r)
                             + st_break (delta loc dep r).
Proof.
  induction r as [|w r IH]; intros loc dep HS; cbn [delta]; [reflexivity|].
  destruct HS as [Ha [Hd Hr]]. specialize (IH _ _ Hr).
  cbn [stat_add st_dur st_drive st_serve st_wait st_break leg_stat]. rewrite IH. lia.
Qed.

(* the whole tour *)
Definition tour_stat (t : list wact) : sstat := snd (write_tour dur dist v t).

Lemma tour_stat_eq s r :
  tour_stat (s :: r) = add_fixed v (delta (a_loc (w_act s)) (a_dep (w_act s)) r).
Proof.
  unfold tour_stat, write_tour, wfold. cbn [snd]. rewrite fold_stat. cbn [start_state ws_stat ws_loc ws_dep].
  rewrite stat_add_0_l. reflexivity.
Qed.

Theorem statistic_split s r :
  Sched (a_loc (w_act s)) (a_dep (w_act s)) r ->
  let st := tour_stat (s :: r) in st_dur st = st_drive st + st_serve st + st_wait st + st_break st.
Proof. intros HS. cbv zeta. rewrite tour_stat_eq. cbn [add_fixed st_dur st_drive st_serve st_wait st_break]. apply delta_split. exact HS. Qed.

(* THEOREM cost_formula: with one time price (the pragmatic format has only `time`) cost = fixed + distance*cd + duration*ct *)
Theorem cost_formula s r ct :
  v_ptime v = ct -> v_pwait v = ct -> v_psvc v = ct ->
  Sched (a_loc (w_act s)) (a_dep (w_act s)) r ->
  let st := tour_stat (s :: r) in st_cost st = v_fixed v + st_dist st * v_pdist v + st_dur st * ct.
Proof.
  intros H1 H2 H3 HS. cbv zeta. rewrite tour_stat_eq. cbn [add_fixed st_cost st_dist st_dur].
  rewrite delta_cost, (delta_split r _ _ HS), delta_break, H1, H2, H3. ring.
Qed.

(* the reported cost is what InsertionContext::get_total_cost charges for the route *)
Theorem cost_is_core_cost s r ct :
  v_ptime v = ct -> v_pwait v = ct -> v_psvc v = ct ->
  Sched (a_loc (w_act s)) (a_dep (w_act s)) r ->
  let st := tour_stat (s :: r) in st_cost st = core_route_cost v (st_dist st) (st_dur st).
Proof.
  intros H1 H2 H3 HS. cbv zeta. rewrite (cost_formula s r ct H1 H2 H3 HS). unfold core_route_cost.
  rewrite H1, H2, H3, !Z.max_id. ring.
Qed.

(* THEOREM stat_is_replay: distance, driving, serving, waiting, duration are those of the independent replay *)
Theorem stat_distance_replay s r :
  st_dist (tour_stat (s :: r)) = tour_legs dist (acts_of_w (s :: r)).
Proof. rewrite tour_stat_eq. cbn [add_fixed st_dist acts_of_w map tour_legs]. apply delta_dist. Qed.
Theorem stat_driving_replay s r :
  st_drive (tour_stat (s :: r)) = tour_legs dur (acts_of_w (s :: r)).
Proof. rewrite tour_stat_eq. cbn [add_fixed st_drive acts_of_w map tour_legs]. apply delta_drive. Qed.
Theorem stat_serving_replay s r :
  st_serve (tour_stat (s :: r)) = replay_serving (acts_of_w (s :: r)).
Proof. rewrite tour_stat_eq. cbn [add_fixed st_serve acts_of_w map]. unfold replay_serving. cbn [tl]. apply delta_serve. Qed.

(* under a consistent schedule the stored (arrival, departure) pairs ARE the replay *)
Lemma Sched_replay r : forall loc dep, Sched loc dep r ->
  replay_from dur loc dep (acts_of_w r) = map (fun w => (a_arr (w_act w), a_dep (w_act w))) r.
Proof.
  induction r as [|w r IH]; intros loc dep HS; cbn [acts_of_w map replay_from]; [reflexivity|].
  destruct HS as [Ha [Hd Hr]]. rewrite <- Ha, <- Hd. f_equal. apply IH. exact Hr.
Qed.

(* ---- the activities written, in order: every job activity carries its replayed service interval *)
Definition act_record (w : wact) : sact :=
  let a := w_act w in
  let b := Z.max (a_arr a) (a_tws a) in
  mkSAct (a_job a) (w_kind w) (Some (a_loc a)) (Some (b, b + a_svc a)) (w_tag w).
Definition wflat (st : wstate) : list sact := concat (map (fun s => rev (ss_acts s)) (rev (ws_stops st))).

Lemma wflat_step st w : ws_stops st <> [] -> wflat (wstep st w) = wflat st ++ [act_record w] /\ ws_stops (wstep st w) <> [].
Proof.
  intros Hne. unfold wflat, Writer.wstep. cbn [ws_stops].
  destruct (negb (ws_loc st =? a_loc (w_act w))).
  - cbn [rev map ss_acts]. split; [|discriminate].
    rewrite map_app, concat_app. cbn [map concat rev ss_acts app]. reflexivity.
  - destruct (ws_stops st) as [|s0 rest]; [congruence|]. split; [|discriminate].
    cbn [rev map ss_acts]. rewrite !map_app, !concat_app. cbn [map concat rev ss_acts]. rewrite !app_nil_r, <- app_assoc. reflexivity.
Qed.

Lemma wflat_fold r : forall st, ws_stops st <> [] ->
  wflat (fold_left wstep r st) = wflat st ++ map act_record r.
Proof.
  induction r as [|w r IH]; intros st Hne; cbn [fold_left map]; [rewrite app_nil_r; reflexivity|].
  destruct (wflat_step st w Hne) as [H1 H2]. rewrite (IH _ H2), H1, <- app_assoc. reflexivity.
Qed.

(* THEOREM activities_equal_replay: the written activity list is the departure followed, per visited activity in tour
   order, by (job, type, location, [service start, service end], tag) with service start = max(arrival, window start) *)
Theorem activities_written s r st :
  wfold dur dist v (s :: r) = Some st ->
  exists d, wflat st = d :: map act_record r /\ sa_kind d = 10.
Proof.
  unfold wfold. intros H. injection H as <-. rewrite wflat_fold; [|cbn; discriminate].
  unfold wflat. cbn [start_state ws_stops rev map ss_acts concat app]. eexists. split; [reflexivity|reflexivity].
Qed.

(* ---- the most recent stop tracks the fold state; older stops are never touched again *)
Definition head_tracks (st : wstate) : Prop :=
  match ws_stops st with
  | s :: _ => ss_loc s = ws_loc st /\ ss_dep s = ws_dep st /\ ss_load s = ws_load st
  | [] => False
  end.

Lemma head_tracks_step st w : head_tracks st -> head_tracks (wstep st w) /\
  (exists h, ws_stops (wstep st w) = h :: tl (ws_stops st) \/ ws_stops (wstep st w) = h :: ws_stops st).
Proof.
  unfold head_tracks, Writer.wstep. cbn [ws_stops ws_loc ws_dep ws_load].
  destruct (ws_stops st) as [|s0 rest] eqn:Hs; [intros []|]. intros [Hl [Hd Ho]].
  destruct (ws_loc st =? a_loc (w_act w)) eqn:He; cbn [negb].
  - apply Z.eqb_eq in He. cbn [ss_loc ss_dep ss_load tl]. split; [split; [congruence|split; reflexivity]|].
    eexists. left. reflexivity.
  - cbn [ss_loc ss_dep ss_load]. split; [split; [reflexivity|split; reflexivity]|]. eexists. right. reflexivity.
Qed.

(* THEOREM stop_tracks: when the fold ends, the last stop is at the last location, its departure is the last departure and
   its load is the load after the last activity *)
Theorem last_stop_tracks r : forall st, head_tracks st -> head_tracks (fold_left wstep r st).
Proof. induction r as [|w r IH]; intros st H; cbn [fold_left]; [exact H|]. apply IH. apply head_tracks_step. exact H. Qed.

(* load after the fold: everything to deliver on board at the start, changed by every job activity, zero before the arrival *)
Fixpoint load_after (l : Z) (r : list wact) : Z :=
  match r with
  | [] => l
  | w :: r' => load_after ((if is_job_kind (w_kind w) then l else 0) + d_change (a_dem (w_act w))) r'
  end.
Lemma load_fold r : forall st, ws_load (fold_left wstep r st) = load_after (ws_load st) r.
Proof. induction r as [|w r IH]; intros st; cbn [fold_left load_after]; [reflexivity|]. rewrite IH. reflexivity. Qed.

End WriterFacts.

(* THEOREM total_is_sum: the overall statistic is the field-wise sum of the tour statistics *)
Lemma fold_stat_add l : forall a,
  stat_fields (fold_left stat_add l a) =
  [st_cost a + sumz (map st_cost l); st_dist a + sumz (map st_dist l); st_dur a + sumz (map st_dur l);
   st_drive a + sumz (map st_drive l); st_serve a + sumz (map st_serve l); st_wait a + sumz (map st_wait l);
   st_break a + sumz (map st_break l)].
Proof.
  induction l as [|x l IH]; intros a; cbn [fold_left map sumz fold_right].
  - unfold stat_fields. repeat f_equal; lia.
  - rewrite IH. unfold stat_add. cbn [st_cost st_dist st_dur st_drive st_serve st_wait st_break].
    rewrite !Z.add_assoc. reflexivity.
Qed.

Theorem total_is_sum l :
  stat_fields (write_total l) =
  [sumz (map st_cost l); sumz (map st_dist l); sumz (map st_dur l); sumz (map st_drive l); sumz (map st_serve l);
   sumz (map st_wait l); sumz (map st_break l)].
Proof. unfold write_total. rewrite fold_stat_add. reflexivity. Qed.

(* ---- tags *)
(* THEOREM tag_is_used_place (partial): when the used place is the only TAGGED place of the task at that location, the
   reported tag is its tag *)
Theorem tag_is_used_place_partial tk p w :
  In p (tk_places tk) -> In w (pl_tws p) -> fst w <= snd w -> pl_tag p <> None ->
  (forall p', In p' (tk_places tk) -> pl_tag p' <> None -> pl_loc p' = pl_loc p -> p' = p) ->
  job_tag tk (pl_loc p) w = pl_tag p.
Proof.
  intros Hin Hw Hle Htag Huniq. unfold job_tag.
  destruct (find _ (tk_places tk)) as [q|] eqn:Hf.
  - apply find_some in Hf. destruct Hf as [Hq Hb].
    apply andb_true_iff in Hb. destruct Hb as [Hb _]. apply andb_true_iff in Hb. destruct Hb as [Ht Hl].
    apply Z.eqb_eq in Hl. assert (Hq' : pl_tag q <> None) by (destruct (pl_tag q); [discriminate|discriminate]).
    rewrite (Huniq q Hq Hq' Hl). reflexivity.
  - exfalso. eapply find_none in Hf; [|exact Hin]. cbv beta in Hf.
    destruct (pl_tag p) eqn:Ht; [|congruence]. rewrite Z.eqb_refl in Hf. cbn [andb] in Hf.
    assert (He : existsb (fun w0 => tw_meets w0 w) (pl_tws p) = true).
    { apply existsb_exists. exists w. split; [exact Hw|]. unfold tw_meets. apply andb_true_iff. split; apply Z.leb_le; exact Hle. }
    rewrite He in Hf. discriminate.
Qed.

(* the full clause is false of the writer: two places of one task at the same location, the SECOND one is used *)
Definition tag_witness_task : ptask :=
  mkPTask 1 [mkPPlace 5 11 [(0, 100)] (Some 1); mkPPlace 5 2 [(0, 100)] (Some 2)] 4.
Theorem tag_is_used_place_refuted :
  exists tk p w, In p (tk_places tk) /\ In w (pl_tws p) /\ fst w <= snd w /\ job_tag tk (pl_loc p) w <> pl_tag p.
Proof.
  exists tag_witness_task, (mkPPlace 5 2 [(0, 100)] (Some 2)), (0, 100).
  split; [right; left; reflexivity|]. split; [left; reflexivity|]. split; [cbn; lia|]. vm_compute. discriminate.
Qed.

(* ---- non-vacuity: the writer model, run on the tour rebuilt from the example document of ValidP.v with the schedule of
   the Core update_schedules model, writes exactly that document's stops and statistic; the overall statistic is its sum *)
Lemma ex_writer : run_writer ex_P ex_S = ([Some (to_stops ex_tour, ex_stat)], ex_stat).
Proof. vm_compute. reflexivity. Qed.

(* ------------------------------------------------------------------ the stops are a forward grouping of the activities *)
Section Grouping.
Variable dur dist : Z -> Z -> Z.
Variable v : vehicle.

(* consecutive activities at one location share a stop whose arrival is the arrival of its FIRST activity, whose departure
   and load are those after its LAST activity, and whose distance is the cumulative distance when it was reached *)
Fixpoint wgroup (loc load cum : Z) (cur : sstop) (r : list wact) : list sstop :=
  match r with
  | [] => [cur]
  | w :: r' =>
    let a := w_act w in
    let prev_load := if is_job_kind (w_kind w) then load else 0 in
    let cum' := cum + dist loc (a_loc a) in
    let load' := prev_load + d_change (a_dem a) in
    if loc =? a_loc a
    then wgroup (a_loc a) load' cum'
                (mkSStop (ss_loc cur) (ss_arr cur) (a_dep a) load' (ss_dist cur) (ss_acts cur ++ [act_record w])) r'
    else cur :: wgroup (a_loc a) load' cum' (mkSStop (a_loc a) (a_arr a) (a_dep a) load' cum' [act_record w]) r'
  end.

Lemma fold_is_group r : forall st cur older,
  ws_stops st = cur :: older ->
  map unrev (rev (ws_stops (fold_left (wstep dur dist v) r st)))
  = map unrev (rev older) ++ wgroup (ws_loc st) (ws_load st) (st_dist (ws_stat st)) (unrev cur) r.
Proof.
  induction r as [|w r IH]; intros st cur older Hs; cbn [fold_left wgroup].
  - rewrite Hs. cbn [rev]. rewrite map_app. reflexivity.
  - destruct (ws_loc st =? a_loc (w_act w)) eqn:He.
    + erewrite IH.
      2:{ unfold Writer.wstep. cbn [ws_stops]. rewrite He. cbn [negb]. rewrite Hs. reflexivity. }
      unfold Writer.wstep. cbn [ws_loc ws_load ws_stat st_dist tl]. unfold unrev. cbn [ss_loc ss_arr ss_dep ss_load ss_dist ss_acts rev].
      reflexivity.
    + erewrite IH.
      2:{ unfold Writer.wstep. cbn [ws_stops]. rewrite He. cbn [negb]. reflexivity. }
      unfold Writer.wstep. cbn [ws_loc ws_load ws_stat st_dist]. rewrite Hs. cbn [rev]. rewrite map_app, <- app_assoc.
      unfold unrev at 3. cbn [map app ss_loc ss_arr ss_dep ss_load ss_dist ss_acts rev]. reflexivity.
Qed.

Theorem stops_are_grouping s r :
  fst (write_tour dur dist v (s :: r)) =
  map cleanup (wgroup (a_loc (w_act s)) (start_delivery (s :: r)) 0
                      (unrev (hd (mkSStop 0 0 0 0 0 []) (ws_stops (start_state (s :: r) (w_act s))))) r).
Proof.
  unfold write_tour, wfold. cbn [fst].
  rewrite (fold_is_group r (start_state (s :: r) (w_act s)) _ [] eq_refl).
  cbn [rev map app start_state ws_loc ws_load ws_stat ws_stops hd st_dist stat0]. reflexivity.
Qed.

End Grouping.
