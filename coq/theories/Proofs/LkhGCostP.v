(* The cost argument of Proofs/LkhCostP.v for the generic search of Model/LkhG.v at exact integers with an ARBITRARY `reject`
   (in particular `rej_seen`, the proposed repair that remembers every discovered tour): on a symmetric matrix every tour the
   search returns is strictly cheaper than the current one - whatever is rejected.  The facts about try_path (move_cost: a
   balanced move that rebuilds a tour changes the cost by exactly the gain) are those of LkhCostP; only the walk through the
   search is repeated here.  Consequences for the repaired KOpt::optimize: the returned tours have strictly decreasing cost (so
   none is above the input's), and in exact arithmetic remembering the visited tours changes nothing. *)
From Coq Require Import Permutation.
From VRP Require Import Base.Tac Model.Lkh Model.LkhG Proofs.LkhP Proofs.LkhCostP Proofs.LkhGP.
Local Open Scope nat_scope.

Section GCostSearch.
  Variable cm : list (list Z).
  Variable nb : list (list nat).
  Variable ho : list entry -> option (list entry).
  Variable reject : list nat -> list nat -> bool.
  Hypothesis sym : forall i j, cost cm i j = cost cm j i.
  Hypothesis ho_sound : forall l l', ho l = Some l' -> forall e, In e l' -> In e l.
  Variable p : list nat.
  Hypothesis NDp : NoDup p.
  Hypothesis Hlen : 3 <= length p.
  Let t := tour_new p.
  Let E := tedges (tour_new p).

  Lemma gupsert_gi t2i gain node d m :
    gi_ok cm t2i gain m -> gi_ok cm t2i gain (gupsert Z node d (gain - cost cm t2i node)%Z m).
  Proof.
    induction m as [|[k [d0 g0]] r IH]; intros Hm e He; cbn [gupsert] in He.
    - destruct He as [<- | []]. reflexivity.
    - destruct (k =? node) eqn:Ek.
      + destruct He as [<- | He]; [exact (Hm (k, (d0, g0)) (or_introl eq_refl)) | apply Hm; right; exact He].
      + destruct He as [<- | He]; [exact (Hm (k, (d0, g0)) (or_introl eq_refl))|].
        apply IH; [|exact He]. intros e' He'. apply Hm. right. exact He'.
  Qed.

  Lemma gclosest_step_gi t2i gain broken joined m node :
    gi_ok cm t2i gain m -> gi_ok cm t2i gain (gclosest_step Z ZOps (cost cm) t t2i gain broken joined m node).
  Proof.
    intros Hm. unfold gclosest_step. cbn [ZOps c_le0 c_sub].
    destruct ((gain - cost cm t2i node <=? 0)%Z || emem (mk_edge t2i node) broken || emem (mk_edge t2i node) (tedges t));
      [exact Hm|].
    revert m Hm. induction (around t node) as [|s l IH]; intros m Hm; cbn [fold_left]; [exact Hm|].
    apply IH. destruct (negb (emem (mk_edge node s) broken) && negb (emem (mk_edge node s) joined)); [|exact Hm].
    apply gupsert_gi. exact Hm.
  Qed.

  Lemma gfind_closest_gi t2i gain broken joined l :
    gfind_closest Z ZOps (cost cm) nb ho t t2i gain broken joined = Some l -> gi_ok cm t2i gain l.
  Proof.
    unfold gfind_closest. set (m0 := fold_left _ _ _).
    destruct (ho m0) as [l'|] eqn:E0; cbn [option_map]; [|discriminate].
    intros H. inversion H; subst l. intros e He. apply gsort_desc_In in He.
    assert (Kk : gi_ok cm t2i gain m0).
    { unfold m0. assert (G : forall ns m1, gi_ok cm t2i gain m1 ->
                              gi_ok cm t2i gain (fold_left (gclosest_step Z ZOps (cost cm) t t2i gain broken joined) ns m1)).
      { induction ns as [|x ns IH]; intros m1 Hm1; cbn [fold_left]; [exact Hm1|]. apply IH. apply gclosest_step_gi. exact Hm1. }
      apply G. intros x []. }
    apply Kk. eapply ho_sound; eauto.
  Qed.

  Lemma gfirst_found_ok2 f l : (forall e, In e l -> okres2 cm p (f e)) -> okres2 cm p (gfirst_found Z f l).
  Proof.
    induction l as [|x r IH]; intros H q Hq; cbn [gfirst_found] in Hq; [discriminate|].
    destruct (f x) eqn:Ef.
    - apply (H x (or_introl eq_refl)). rewrite Ef. exact Hq.
    - apply IH; [|exact Hq]. intros e He. apply H. right. exact He.
    - discriminate.
    - discriminate.
  Qed.

  Definition grec_ok2 (rec : nat -> nat -> Z -> eset -> eset -> res) : Prop :=
    forall t1 last g b j yl, invx cm p t1 last g b j yl -> okres2 cm p (rec t1 last g b j).

  Lemma gchoose_y_ok2 rec t1 t2i gain broken joined yl :
    grec_ok2 rec -> invy cm p t1 t2i gain broken joined yl ->
    okres2 cm p (gchoose_y Z ZOps (cost cm) nb ho t rec t1 t2i gain broken joined).
  Proof.
    intros Hrec (HX & HXE & HJ & HJy & Hg & Hl & Hd). unfold gchoose_y.
    destruct (gfind_closest Z ZOps (cost cm) nb ho t t2i gain broken joined) as [closest|] eqn:E0; [|intros q Hq; discriminate].
    apply gfind_closest_gi in E0.
    apply gfirst_found_ok2. intros e He. apply firstn_In2 in He.
    apply (Hrec _ _ _ _ _ (mk_edge t2i (fst e) :: yl)).
    split; [exact HX|]. split; [exact HXE|]. split; [apply eins_sorted; exact HJ|].
    split; [apply same_set_eins; exact HJy|].
    split; [rewrite (E0 e He); cbn [esum]; rewrite (ec_mk cm sym); lia|].
    split; [cbn [length]; lia|].
    intros v. cbn [deg]. rewrite dg_mk. specialize (Hd v). lia.
  Qed.

  Lemma gcx_loop_ok2 rec t1 last gain broken joined yl :
    grec_ok2 rec -> invx cm p t1 last gain broken joined yl ->
    forall cands, (forall c, In c cands -> In c (around t last)) ->
    okres2 cm p (gcx_loop Z ZOps (cost cm) nb ho reject t rec t1 last gain broken joined cands).
  Proof.
    intros Hrec (HX & HXE & HJ & HJy & Hg & Hl & Hd).
    induction cands as [|t2i rest IH]; intros Hc q Hq; cbn [gcx_loop] in Hq; [discriminate|].
    destruct (emem (mk_edge last t2i) joined || emem (mk_edge last t2i) broken) eqn:Em; [discriminate|].
    apply orb_false_iff in Em. destruct Em as [_ Em].
    assert (Hnew : ~ In (mk_edge last t2i) broken) by (rewrite <- emem_In; congruence).
    assert (HxiE : In (mk_edge last t2i) E) by (apply around_edge; apply Hc; left; reflexivity).
    pose proof (eins_new_perm _ _ Hnew) as HP.
    set (removed := eins (mk_edge last t2i) broken) in *.
    assert (HRs : ssorted removed) by (apply eins_sorted; exact HX).
    assert (HRE : incl removed E).
    { intros e He. apply (Permutation_in _ HP) in He. destruct He as [<- | He]; [exact HxiE | apply HXE; exact He]. }
    assert (HRsum : esum cm removed = (cost cm last t2i + esum cm broken)%Z).
    { rewrite (esum_perm cm _ _ HP). cbn [esum]. rewrite (ec_mk cm sym). reflexivity. }
    assert (HRdeg : forall v, deg v removed = ind v last + ind v t2i + deg v broken).
    { intros v. rewrite (deg_perm _ _ _ HP). cbn [deg]. rewrite dg_mk. reflexivity. }
    assert (HRlen : length removed = S (length broken)) by (rewrite (Permutation_length HP); reflexivity).
    cbn [ZOps c_add c_sub c_gt0] in Hq.
    assert (Hy : okres2 cm p (gchoose_y Z ZOps (cost cm) nb ho t rec t1 t2i (gain + cost cm last t2i)%Z removed joined)).
    { apply (gchoose_y_ok2 rec t1 t2i _ removed joined yl Hrec).
      split; [exact HRs|]. split; [exact HRE|]. split; [exact HJ|]. split; [exact HJy|].
      split; [lia|]. split; [lia|]. intros v. rewrite HRdeg. specialize (Hd v). lia. }
    destruct (gain + cost cm last t2i - cost cm t2i t1 >? 0)%Z eqn:Er; [|apply Hy; exact Hq].
    apply Z.gtb_lt in Er.
    destruct (try_path t removed (eins (mk_edge t2i t1) joined)) as [q'|] eqn:Et.
    - destruct (reject q' (tpath t)); [discriminate|]. inversion Hq; subst q'.
      rewrite (move_cost cm sym p NDp Hlen removed (eins (mk_edge t2i t1) joined) (mk_edge t2i t1 :: yl) q HRs HRE).
      + cbn [esum]. rewrite (ec_mk cm sym). lia.
      + apply eins_sorted. exact HJ.
      + apply same_set_eins. exact HJy.
      + cbn [length]. lia.
      + intros v. cbn [deg]. rewrite dg_mk, HRdeg. specialize (Hd v). lia.
      + exact Et.
    - destruct (2 <? length (eins (mk_edge t2i t1) joined)); [|apply Hy; exact Hq].
      apply IH; [|exact Hq]. intros c Hc'. apply Hc. right. exact Hc'.
  Qed.

  Lemma gchoose_x_ok2 : forall fuel, grec_ok2 (gchoose_x Z ZOps (cost cm) nb ho reject t fuel).
  Proof.
    induction fuel as [|f IH]; intros t1 last g b j yl Hinv q Hq; cbn [gchoose_x] in Hq; [discriminate|].
    revert q Hq. apply (gcx_loop_ok2 _ t1 last g b j yl IH Hinv). intros c Hc.
    eapply (gcx_cands_around Z ZOps (cost cm)); eauto.
  Qed.

  Lemma gt3_loop_ok2 fuel t1 t2 aset : In t2 (around t t1) ->
    forall l tries, gi_ok cm t2 (cost cm t1 t2) l ->
    okres2 cm p (gt3_loop Z ZOps (cost cm) nb ho reject t fuel t1 t2 aset [mk_edge t1 t2] tries l).
  Proof.
    intros H2. induction l as [|e r IH]; intros tries Hk q Hq; cbn [gt3_loop] in Hq; [discriminate|].
    assert (Hr : gi_ok cm t2 (cost cm t1 t2) r) by (intros x Hx; apply Hk; right; exact Hx).
    destruct (nmem (fst e) aset); [eapply IH; eauto|].
    destruct (gchoose_x Z ZOps (cost cm) nb ho reject t fuel t1 (fst e) (snd (snd e)) [mk_edge t1 t2] [mk_edge t2 (fst e)]) eqn:Ex.
    - apply (gchoose_x_ok2 fuel t1 (fst e) (snd (snd e)) [mk_edge t1 t2] [mk_edge t2 (fst e)] [mk_edge t2 (fst e)]);
        [|rewrite Ex; exact Hq].
      split; [split; [intros y [] | exact I]|].
      split; [intros x [<- | []]; apply around_edge; exact H2|].
      split; [split; [intros y [] | exact I]|].
      split; [intros x; tauto|].
      split; [rewrite (Hk e (or_introl eq_refl)); cbn [esum]; rewrite !(ec_mk cm sym); lia|].
      split; [reflexivity|].
      intros v. cbn [deg]. rewrite !dg_mk. lia.
    - destruct tries as [|[|k]]; try discriminate. eapply IH; eauto.
    - discriminate.
    - discriminate.
  Qed.

  Lemma gt2_loop_ok2 fuel t1 aset : forall l, (forall x, In x l -> In x (around t t1)) ->
    okres2 cm p (gt2_loop Z ZOps (cost cm) nb ho reject t fuel t1 aset l).
  Proof.
    induction l as [|t2 r IH]; intros Hl q Hq; cbn [gt2_loop] in Hq; [discriminate|].
    destruct (gfind_closest Z ZOps (cost cm) nb ho t t2 (cost cm t1 t2) [mk_edge t1 t2] []) as [closest|] eqn:Ec; [|discriminate].
    apply gfind_closest_gi in Ec.
    destruct (gt3_loop Z ZOps (cost cm) nb ho reject t fuel t1 t2 aset [mk_edge t1 t2] 5 closest) eqn:E3.
    - apply (gt3_loop_ok2 fuel t1 t2 aset (Hl t2 (or_introl eq_refl)) closest 5 Ec). rewrite E3. exact Hq.
    - apply IH; [|exact Hq]. intros x Hx. apply Hl. right. exact Hx.
    - discriminate.
    - discriminate.
  Qed.

  Lemma gt1_loop_ok2 fuel : forall l, okres2 cm p (gt1_loop Z ZOps (cost cm) nb ho reject t fuel l).
  Proof.
    induction l as [|t1 r IH]; intros q Hq; cbn [gt1_loop] in Hq; [discriminate|].
    destruct (gt2_loop Z ZOps (cost cm) nb ho reject t fuel t1 (nset_of (around t t1)) (nset_of (around t t1))) eqn:E2.
    - apply (gt2_loop_ok2 fuel t1 (nset_of (around t t1)) (nset_of (around t t1))); [|rewrite E2; exact Hq].
      intros x Hx. apply nset_of_In2. exact Hx.
    - apply IH. exact Hq.
    - discriminate.
    - discriminate.
  Qed.

  Theorem gimprove_decreases q :
    gimprove Z ZOps (cost cm) nb ho reject p = Found q -> (cycle_cost cm q < cycle_cost cm p)%Z.
  Proof. unfold gimprove. apply gt1_loop_ok2. Qed.
End GCostSearch.

(* ------------------------------------------------------------------ the repaired KOpt::optimize over exact symmetric costs *)
Section MemoryCost.
  Variable cm : list (list Z).
  Variable nb : list (list nat).
  Variable ho : list entry -> option (list entry).
  Hypothesis sym : forall i j, cost cm i j = cost cm j i.
  Hypothesis ho_sound : forall l l', ho l = Some l' -> forall e, In e l' -> In e l.

  Lemma memory_cost_step seen p q : NoDup p -> In p seen ->
    gimprove Z ZOps (cost cm) nb ho (rej_seen seen) p = Found q ->
    Permutation q p /\ hd_error q = hd_error p /\ (cycle_cost cm q < cycle_cost cm p)%Z.
  Proof.
    intros ND Hin H.
    destruct (memory_step Z ZOps (cost cm) nb ho ho_sound seen p q H) as [HP [Hh Hn]].
    split; [exact HP|]. split; [exact Hh|].
    destruct (le_lt_dec 3 (length p)) as [H3 | H3].
    - eapply gimprove_decreases; eauto.
    - exfalso. apply Hn. replace q with p; [exact Hin|]. symmetry. apply small_perm_eq; [lia | exact HP | exact Hh].
  Qed.

  (* a list of tours whose costs strictly decrease from each one to the next *)
  Fixpoint descending (ps : list (list nat)) : Prop :=
    match ps with
    | a :: ((b :: _) as r) => (cycle_cost cm b < cycle_cost cm a)%Z /\ descending r
    | _ => True
    end.

  Lemma descending_snoc : forall ps a b, descending (ps ++ [a]) -> (cycle_cost cm b < cycle_cost cm a)%Z ->
    descending (ps ++ [a; b]).
  Proof.
    induction ps as [|x ps IH]; intros a b H L.
    - cbn. auto.
    - destruct ps as [|y r].
      + cbn in *. destruct H as [H1 _]. auto.
      + cbn [app] in *. cbn [descending] in H. destruct H as [H1 H2]. cbn [descending]. split; [exact H1|].
        apply (IH a b H2 L).
  Qed.

  Lemma memory_cost_aux : forall ofuel cur older ps,
    NoDup cur -> descending (rev (cur :: older)) ->
    goptimize_hist Z ZOps (cost cm) nb ho ofuel cur older = HFound ps -> descending ps.
  Proof.
    induction ofuel as [|f IH]; intros cur older ps ND D H; [discriminate|].
    cbn [goptimize_hist] in H.
    destruct (gimprove Z ZOps (cost cm) nb ho (rej_seen (cur :: older)) cur) as [p'| | |] eqn:E; try discriminate.
    - destruct (memory_cost_step (cur :: older) cur p' ND (or_introl eq_refl) E) as [HP [_ L]].
      apply (IH p' (cur :: older) ps); [eapply Permutation_NoDup; [apply Permutation_sym; exact HP | exact ND] | | exact H].
      change (rev (p' :: cur :: older)) with ((rev older ++ [cur]) ++ [p']). rewrite <- app_assoc.
      change (rev (cur :: older)) with (rev older ++ [cur]) in D. apply descending_snoc; assumption.
    - assert (Hps : ps = rev (cur :: older)) by congruence. subst ps. exact D.
  Qed.

  Lemma descending_le : forall ps a q, descending (a :: ps) -> In q (a :: ps) -> (cycle_cost cm q <= cycle_cost cm a)%Z.
  Proof.
    induction ps as [|b r IH]; intros a q D [<- | Hq]; try lia; [destruct Hq|].
    destruct D as [L D]. specialize (IH b q D Hq). lia.
  Qed.

  (* the tours returned by the repaired optimize: strictly decreasing cost from one to the next; none above the input's *)
  Theorem memory_cost ofuel p ps : NoDup p ->
    goptimize_hist Z ZOps (cost cm) nb ho ofuel p [] = HFound ps ->
    descending ps /\ forall q, In q ps -> (cycle_cost cm q <= cycle_cost cm p)%Z.
  Proof.
    intros ND H. pose proof (memory_cost_aux ofuel p [] ps ND I H) as D. split; [exact D|].
    destruct (memory_contract Z ZOps (cost cm) nb ho ho_sound p ofuel ps H) as [_ [_ Hhd]].
    destruct ps as [|a r]; [discriminate|]. cbn [hd_error] in Hhd. inversion Hhd; subst a.
    intros q Hq. eapply descending_le; eauto.
  Qed.
End MemoryCost.
