(* Lemmas for C12: every breach class of Spec/Mutations.v is rejected by the reference semantics Spec/Valid.v. *)
From VRP Require Import Base.Tac Model.Core Spec.Feasible Spec.Valid Proofs.ValidP Spec.Mutations.

Lemma valid_b_nil P S :
  valid_b P S = [] <-> precond_viol P = [] /\ accounted_b P S = [] /\ feasible_viols P S = [] /\ replay_viol P S = [].
Proof. unfold valid_b. rewrite !app_nil_iff. tauto. Qed.
