(* Lemmas for C12: every breach class of Spec/Mutations.v is rejected by the reference semantics Spec/Valid.v. *)
From VRP Require Import Base.Tac Model.Core Spec.Feasible Spec.Valid Proofs.ValidP Spec.Relations Proofs.RelationsP Spec.Mutations.

Lemma valid_b_nil P S :
  valid_b P S = [] <-> precond_viol P = [] /\ accounted_b P S = [] /\ feasible_viols P S = [] /\ replay_viol P S = []
                       /\ xfeasible_viols P S = [] /\ xreplay_viols P S = [].
Proof. unfold valid_b. rewrite !app_nil_iff. tauto. Qed.

(* ------------------------------------------------------------------ generic list facts *)
Lemma concat_nil_iff {A} (l : list (list A)) : concat l = [] <-> forall x, In x l -> x = [].
Proof.
  induction l as [|y r IH]; cbn [concat].
  - split; [intros _ x []|reflexivity].
  - rewrite app_nil_iff, IH. split.
    + intros [H1 H2] x [<-|Hx]; auto.
    + intros H. split; [apply H; left; reflexivity|intros x Hx; apply H; right; exact Hx].
Qed.

Lemma mapi_from_In {A B} (f : Z -> A -> B) (l : list A) : forall k n x,
  nth_error l n = Some x -> In (f (k + Z.of_nat n) x) (mapi_from k f l).
Proof.
  induction l as [|y r IH]; intros k n x H.
  - destruct n; discriminate.
  - destruct n as [|n]; cbn [nth_error] in H; cbn [mapi_from].
    + injection H as ->. left. f_equal. lia.
    + right. replace (k + Z.of_nat (S n)) with ((k + 1) + Z.of_nat n) by lia. apply IH. exact H.
Qed.

Lemma concat_mapi_nil {A B} (f : Z -> A -> list B) l n x :
  concat (mapi f l) = [] -> nth_error l n = Some x -> f (Z.of_nat n) x = [].
Proof.
  intros H Hn. rewrite concat_nil_iff in H. apply H. unfold mapi.
  change (Z.of_nat n) with (0 + Z.of_nat n). apply mapi_from_In. exact Hn.
Qed.

Lemma nth_error_upd_nth_eq {A} (f : A -> A) l : forall n x,
  nth_error l n = Some x -> nth_error (upd_nth n f l) n = Some (f x).
Proof.
  induction l as [|y r IH]; intros n x H; destruct n; cbn in *; try discriminate.
  - injection H as ->. reflexivity.
  - apply IH. exact H.
Qed.

Lemma filter_del_nth {A} (p : A -> bool) l : forall i u,
  nth_error l i = Some u -> p u = true -> length (filter p l) = S (length (filter p (del_nth i l))).
Proof.
  induction l as [|x r IH]; intros i u H Hp; destruct i; cbn [nth_error] in H; try discriminate.
  - injection H as ->. cbn [filter del_nth]. rewrite Hp. reflexivity.
  - cbn [filter del_nth]. destruct (p x); cbn [length]; rewrite (IH i u H Hp); reflexivity.
Qed.

(* ------------------------------------------------------------------ what validity says about one tour *)
Lemma valid_tour P S k t : valid_b P S = [] -> nth_error (sl_tours S) k = Some t ->
  feasible_viol P (Z.of_nat k) t = [] /\ replay_tour P (Z.of_nat k) t = [].
Proof.
  intros H Hk. apply valid_b_nil in H. destruct H as (_ & _ & HF & HR & _).
  unfold feasible_viols in HF. unfold replay_viol in HR. apply app_nil_iff in HR. destruct HR as [HR _].
  split; [exact (concat_mapi_nil _ _ _ _ HF Hk)|exact (concat_mapi_nil _ _ _ _ HR Hk)].
Qed.

Lemma accounted_job_viol P S job : accounted_b P S = [] -> In job (pr_jobs P) -> job_viol S job = [].
Proof. unfold accounted_b. rewrite !app_nil_iff, flat_map_nil_iff. intros [H _] Hin. apply H. exact Hin. Qed.

Lemma plan_job P j : In j (job_ids P) -> exists job, In job (pr_jobs P) /\ pj_id job = j.
Proof. unfold job_ids. rewrite in_map_iff. intros [job [H1 H2]]. exists job. auto. Qed.

(* ------------------------------------------------------------------ the per-job clause, by cases *)
Ltac jv_cases S job :=
  unfold job_viol;
  destruct (tours_with (pj_id job) S) as [|?t [|?t' ?ts]]; destruct (unassigned_of (pj_id job) S) as [|?u [|?u' ?us]].

Lemma job_viol_both S job :
  tours_with (pj_id job) S <> [] -> unassigned_of (pj_id job) S <> [] -> job_viol S job <> [].
Proof. jv_cases S job; intros H1 H2; try congruence; discriminate. Qed.

Lemma job_viol_un2 S job : (2 <= length (unassigned_of (pj_id job) S))%nat -> job_viol S job <> [].
Proof. jv_cases S job; cbn [length]; intros H; try lia; discriminate. Qed.

Lemma job_viol_tours2 S job : (2 <= length (tours_with (pj_id job) S))%nat -> job_viol S job <> [].
Proof. jv_cases S job; cbn [length]; intros H; try lia; discriminate. Qed.

Lemma job_viol_lost S job :
  tours_with (pj_id job) S = [] -> unassigned_of (pj_id job) S = [] -> job_viol S job <> [].
Proof. unfold job_viol. intros -> ->. discriminate. Qed.

Lemma job_viol_nil_un S job : job_viol S job = [] -> unassigned_of (pj_id job) S <> [] ->
  tours_with (pj_id job) S = [] /\ length (unassigned_of (pj_id job) S) = 1%nat.
Proof. jv_cases S job; intros H1 H2; try congruence; try discriminate H1; split; reflexivity. Qed.

Lemma job_viol_nil_tour S job : job_viol S job = [] -> tours_with (pj_id job) S <> [] ->
  exists t, tours_with (pj_id job) S = [t] /\ unassigned_of (pj_id job) S = []
            /\ complete_b job (acts_of (pj_id job) t) = true.
Proof.
  jv_cases S job; intros H1 H2; try congruence; try discriminate H1.
  exists t. split; [reflexivity|]. split; [reflexivity|].
  apply app_nil_iff in H1. destruct H1 as [H1 _]. apply if_nil_iff in H1. exact H1.
Qed.

(* ------------------------------------------------------------------ activities of a document and the flattened tour *)
Lemma flat_acts_In s k : forall l arr a, In a l ->
  exists f, In f (flat_acts s k arr l) /\ fa_job f = sa_job a /\ fa_kind f = sa_kind a.
Proof.
  induction l as [|x r IH]; intros arr a Ha; [destruct Ha|].
  cbn [flat_acts]. destruct (match sa_time x with Some t => t | None => (ss_arr s, ss_dep s) end) as [b e].
  destruct Ha as [<-|Ha].
  - eexists. split; [left; reflexivity|]. split; reflexivity.
  - destruct (IH e a Ha) as [f [Hf He]]. exists f. split; [right; exact Hf|exact He].
Qed.

Lemma flat_tour_In t s st a : nth_error (to_stops t) s = Some st -> In a (ss_acts st) ->
  exists f, In f (flat_tour t) /\ fa_job f = sa_job a /\ fa_kind f = sa_kind a.
Proof.
  intros Hs Ha. destruct (flat_acts_In st (Z.of_nat s) (ss_acts st) (ss_arr st) a Ha) as [f [Hf He]].
  exists f. split; [|exact He]. unfold flat_tour. apply in_concat. exists (flat_stop (Z.of_nat s) st).
  split; [|exact Hf]. unfold mapi. change (Z.of_nat s) with (0 + Z.of_nat s). apply mapi_from_In. exact Hs.
Qed.

(* a job activity of the document puts its tour among the tours of that job *)
Lemma act_in_tours_with S k s a t st x :
  nth_error (sl_tours S) k = Some t -> nth_error (to_stops t) s = Some st -> nth_error (ss_acts st) a = Some x ->
  is_job_act x = true ->
  In t (tours_with (sa_job x) S) /\ exists f, In f (job_acts t) /\ fa_job f = sa_job x.
Proof.
  intros Hk Hs Ha Hj. destruct (flat_tour_In t s st x Hs (nth_error_In _ _ Ha)) as [f [Hf [Hfj Hfk]]].
  assert (Hja : In f (job_acts t)).
  { unfold job_acts. apply filter_In. split; [exact Hf|]. rewrite Hfk. exact Hj. }
  split; [|exists f; auto].
  unfold tours_with. apply filter_In. split; [exact (nth_error_In _ _ Hk)|].
  assert (Hin : In f (acts_of (sa_job x) t)).
  { unfold acts_of. apply filter_In. split; [exact Hja|]. apply Z.eqb_eq. exact Hfj. }
  destruct (acts_of (sa_job x) t); [destruct Hin|reflexivity].
Qed.

Lemma site_act S k s a x : act_at S k s a = Some x ->
  exists t st, nth_error (sl_tours S) k = Some t /\ nth_error (to_stops t) s = Some st /\ nth_error (ss_acts st) a = Some x.
Proof.
  unfold act_at, stop_at, tour_at. destruct (nth_error (sl_tours S) k) as [t|] eqn:Hk; [|discriminate].
  destruct (nth_error (to_stops t) s) as [st|] eqn:Hs; [|discriminate]. intros H. exists t, st.
  split; [reflexivity|split; [exact Hs|exact H]].
Qed.

(* ------------------------------------------------------------------ statistic of the whole solution *)
Lemma total_checks_eq S : total_checks S = [] ->
  stat_fields (sl_stat S) = stat_fields (fold_left stat_add (map to_stat (sl_tours S)) stat0).
Proof.
  unfold total_checks. remember (fold_left stat_add (map to_stat (sl_tours S)) stat0) as sum.
  unfold stat_fields. cbn [combine mapi mapi_from concat fst snd]. intros H.
  repeat match type of H with
         | context [?a =? ?b] => destruct (Z.eqb_spec a b) as [?e|?e]; [|cbn in H; discriminate H]
         end.
  congruence.
Qed.

Lemma mut_stat_total_invalid P S f d :
  valid_b P S = [] -> d <> 0 -> (f < 7)%nat -> valid_b P (mutS (MStatTotal f d) S) <> [].
Proof.
  intros HV Hd Hf HV'. apply valid_b_nil in HV. apply valid_b_nil in HV'.
  destruct HV as (_&_&_&HR&_). destruct HV' as (_&_&_&HR'&_).
  unfold replay_viol in *. apply app_nil_iff in HR. apply app_nil_iff in HR'.
  destruct HR as [_ HT]. destruct HR' as [_ HT'].
  apply total_checks_eq in HT. apply total_checks_eq in HT'. cbn [mutS sl_stat sl_tours] in HT'.
  rewrite <- HT in HT'. destruct (sl_stat S).
  do 7 (destruct f as [|f]; [cbn in HT'; injection HT'; intros; lia|]). lia.
Qed.

(* ------------------------------------------------------------------ the unassigned list *)
Lemma mut_unknown_un_invalid P S j : zmem j (job_ids P) = false -> valid_b P (mutS (MUnknownUn j) S) <> [].
Proof.
  intros Hj HV. apply valid_b_nil in HV. destruct HV as (_&HA&_). apply accounted_b_sound in HA.
  pose proof (acc_no_foreign_un _ _ HA (j, 1%nat)) as H. cbn in H.
  assert (Hin : In j (job_ids P)) by (apply H; apply in_or_app; right; left; reflexivity).
  apply zmem_In in Hin. congruence.
Qed.

Lemma mut_both_invalid P S k s a x :
  valid_b P S = [] -> act_at S k s a = Some x -> is_job_act x = true -> valid_b P (mutS (MBoth k s a) S) <> [].
Proof.
  intros HV Hx Hj HV'. cbn [mutS] in HV'. rewrite Hx in HV'.
  destruct (site_act _ _ _ _ _ Hx) as [t [st [Hk [Hs Ha]]]].
  destruct (act_in_tours_with S k s a t st x Hk Hs Ha Hj) as [Htw [f [Hf Hfj]]].
  apply valid_b_nil in HV. destruct HV as (_&HA&_). apply valid_b_nil in HV'. destruct HV' as (_&HA'&_).
  pose proof (acc_no_foreign_act _ _ (accounted_b_sound _ _ HA) t f (nth_error_In _ _ Hk) Hf) as Hplan.
  rewrite Hfj in Hplan. destruct (plan_job _ _ Hplan) as [job [Hjob Hid]].
  apply (job_viol_both (set_unassigned (fun l => l ++ [(sa_job x, 1%nat)]) S) job).
  - rewrite Hid. intros H. unfold tours_with in *. cbn [set_unassigned sl_tours] in H. rewrite H in Htw. destruct Htw.
  - rewrite Hid. unfold unassigned_of. cbn [set_unassigned sl_unassigned]. rewrite filter_app. cbn [filter fst].
    rewrite Z.eqb_refl. intros H. apply app_eq_nil in H. destruct H as [_ H]. discriminate H.
  - exact (accounted_job_viol _ _ _ HA' Hjob).
Qed.

Lemma mut_dup_un_invalid P S i :
  valid_b P S = [] -> (i < length (sl_unassigned S))%nat -> valid_b P (mutS (MDupUn i) S) <> [].
Proof.
  intros HV Hi HV'. cbn [mutS] in HV'. unfold dup_nth in HV'.
  destruct (nth_error (sl_unassigned S) i) as [u|] eqn:Hu; [|apply nth_error_None in Hu; lia].
  apply valid_b_nil in HV. destruct HV as (_&HA&_). apply valid_b_nil in HV'. destruct HV' as (_&HA'&_).
  pose proof (acc_no_foreign_un _ _ (accounted_b_sound _ _ HA) u (nth_error_In _ _ Hu)) as Hplan.
  destruct (plan_job _ _ Hplan) as [job [Hjob Hid]].
  apply (job_viol_un2 (set_unassigned (fun l => match nth_error l i with Some x => l ++ [x] | None => l end) S) job).
  - rewrite Hid. unfold unassigned_of. cbn [set_unassigned sl_unassigned]. rewrite Hu, filter_app, app_length.
    cbn [filter]. rewrite Z.eqb_refl. cbn [length].
    assert (Hin : In u (filter (fun u0 => fst u0 =? fst u) (sl_unassigned S))).
    { apply filter_In. split; [exact (nth_error_In _ _ Hu)|apply Z.eqb_refl]. }
    destruct (filter (fun u0 => fst u0 =? fst u) (sl_unassigned S)); [destruct Hin|cbn [length]; lia].
  - exact (accounted_job_viol _ _ _ HA' Hjob).
Qed.

Lemma mut_drop_un_invalid P S i :
  valid_b P S = [] -> (i < length (sl_unassigned S))%nat -> valid_b P (mutS (MDropUn i) S) <> [].
Proof.
  intros HV Hi HV'. cbn [mutS] in HV'.
  destruct (nth_error (sl_unassigned S) i) as [u|] eqn:Hu; [|apply nth_error_None in Hu; lia].
  apply valid_b_nil in HV. destruct HV as (_&HA&_). apply valid_b_nil in HV'. destruct HV' as (_&HA'&_).
  pose proof (acc_no_foreign_un _ _ (accounted_b_sound _ _ HA) u (nth_error_In _ _ Hu)) as Hplan.
  destruct (plan_job _ _ Hplan) as [job [Hjob Hid]].
  assert (Hin : In u (unassigned_of (pj_id job) S)).
  { unfold unassigned_of. apply filter_In. split; [exact (nth_error_In _ _ Hu)|]. rewrite Hid. apply Z.eqb_refl. }
  destruct (job_viol_nil_un S job (accounted_job_viol _ _ _ HA Hjob)) as [Htw Hlen].
  { intros H. rewrite H in Hin. destruct Hin. }
  apply (job_viol_lost (set_unassigned (del_nth i) S) job).
  - exact Htw.
  - unfold unassigned_of in *. cbn [set_unassigned sl_unassigned].
    assert (Hp : (fun u0 : Z * nat => fst u0 =? pj_id job) u = true) by (cbv beta; rewrite Hid; apply Z.eqb_refl).
    pose proof (filter_del_nth (fun u0 : Z * nat => fst u0 =? pj_id job) (sl_unassigned S) i u Hu Hp) as Hl.
    rewrite Hlen in Hl. destruct (filter _ (del_nth i (sl_unassigned S))); [reflexivity|cbn [length] in Hl; lia].
  - exact (accounted_job_viol _ _ _ HA' Hjob).
Qed.

(* ------------------------------------------------------------------ more list facts *)
Lemma nth_error_upd_nth_neq {A} (f : A -> A) l : forall n m, n <> m -> nth_error (upd_nth n f l) m = nth_error l m.
Proof.
  induction l as [|y r IH]; intros n m H; destruct n, m; cbn [upd_nth nth_error]; try reflexivity; try congruence.
  apply IH. congruence.
Qed.

Lemma mapi_from_upd_nth {A B} (F : Z -> A -> B) (g : A -> A) l :
  (forall i x, F i (g x) = F i x) -> forall k n, mapi_from k F (upd_nth n g l) = mapi_from k F l.
Proof.
  intros Hg. induction l as [|x r IH]; intros k n; destruct n; cbn [upd_nth mapi_from]; try reflexivity.
  - rewrite Hg. reflexivity.
  - rewrite IH. reflexivity.
Qed.

Lemma filter_one {A} (p : A -> bool) l : forall n y, nth_error l n = Some y -> p y = true -> (1 <= length (filter p l))%nat.
Proof.
  induction l as [|x r IH]; intros n y H Hp; destruct n; cbn [nth_error] in H; try discriminate.
  - injection H as ->. cbn [filter]. rewrite Hp. cbn [length]. lia.
  - cbn [filter]. specialize (IH n y H Hp). destruct (p x); cbn [length]; lia.
Qed.

Lemma filter_two {A} (p : A -> bool) l : forall k k2 x y, k <> k2 ->
  nth_error l k = Some x -> nth_error l k2 = Some y -> p x = true -> p y = true -> (2 <= length (filter p l))%nat.
Proof.
  induction l as [|z r IH]; intros k k2 x y Hne Hx Hy Hpx Hpy; destruct k, k2; cbn [nth_error] in *;
    try discriminate; try congruence.
  - injection Hx as ->. cbn [filter]. rewrite Hpx. cbn [length]. pose proof (filter_one p r k2 y Hy Hpy). lia.
  - injection Hy as ->. cbn [filter]. rewrite Hpy. cbn [length]. pose proof (filter_one p r k x Hx Hpx). lia.
  - cbn [filter]. assert (Hne' : k <> k2) by congruence. specialize (IH k k2 x y Hne' Hx Hy Hpx Hpy).
    destruct (p z); cbn [length]; lia.
Qed.

Lemma In_ins_nth {A} (y : A) l n : In y (ins_nth n y l).
Proof.
  revert l. induction n as [|n IH]; intros l; cbn [ins_nth]; [left; reflexivity|].
  destruct l; [left; reflexivity|right; apply IH].
Qed.

(* ------------------------------------------------------------------ rebuilding and replaying one tour *)
Lemma rebuild_ext P t t' :
  to_vehicle t' = to_vehicle t -> to_type t' = to_type t -> to_shift t' = to_shift t -> flat_tour t' = flat_tour t ->
  rebuild P t' = rebuild P t.
Proof. intros H1 H2 H3 H4. unfold rebuild, shift_of, vtype_of. rewrite H1, H2, H3, H4. reflexivity. Qed.

Definition rb_facts (r : rebuilt) : list fact :=
  rb_dep r :: map fst (rb_jobs r) ++ (match rb_arr r with Some e => [e] | None => [] end).
Definition rb_has_end (r : rebuilt) : bool := match rb_arr r with Some _ => true | None => false end.

Lemma replay_tour_nil P k t : replay_tour P k t = [] -> exists r, rebuild P t = Some r /\
  act_checks k (rb_facts r) (replay (pdur P) (rb_acts r)) = [] /\
  stop_checks k t (rb_facts r) (replay (pdur P) (rb_acts r)) (replay_loads_x (rb_has_end r) (rb_acts r))
              (replay_cumdist (pdist P) (rb_acts r)) = [] /\
  stat_checks k (replay_stat P (rb_vt r) (rb_acts r)) (to_stat t) = [].
Proof.
  unfold replay_tour. destruct (rebuild P t) as [r|]; [|discriminate]. cbv zeta. rewrite !app_nil_iff.
  intros (H1&H2&H3&H4). exists r. split; [reflexivity|]. split; [exact H1|]. split; [exact H2|exact H4].
Qed.

Lemma stop_checks_at k t facts rep loads cum s st :
  stop_checks k t facts rep loads cum = [] -> nth_error (to_stops t) s = Some st ->
  exists i, last_index_of_stop (Z.of_nat s) facts 0 None = Some i /\ ss_dep st = snd (nth_z rep i (0, 0))
            /\ ss_load st = nth_z loads i 0 /\ ss_dist st = nth_z cum i 0.
Proof.
  unfold stop_checks. intros H Hs. pose proof (concat_mapi_nil _ _ _ _ H Hs) as H1. cbv beta in H1.
  apply app_nil_iff in H1. destruct H1 as [_ H1].
  destruct (last_index_of_stop (Z.of_nat s) facts 0 None) as [i|]; [|discriminate].
  rewrite !app_nil_iff, !if_nil_iff, !Z.eqb_eq in H1. exists i. tauto.
Qed.

Lemma stat_checks_eq k rep got : stat_checks k rep got = [] -> stat_fields got = stat_fields rep.
Proof.
  unfold stat_checks. rewrite !app_nil_iff, !if_nil_iff, !Z.eqb_eq. intros (H1&H2&H3&H4&H5&H6&H7).
  unfold stat_fields. congruence.
Qed.

Lemma feasible_viol_nil P k t r : rebuild P t = Some r -> feasible_viol P k t = [] ->
  feasible_x (pdur P) (rb_veh r) (rb_acts r) = true
  /\ le_opt (tour_legs (pdist P) (rb_acts r)) (vt_maxdist (rb_vt r)) = true
  /\ le_opt (replay_duration (pdur P) (rb_acts r)) (vt_maxdur (rb_vt r)) = true
  /\ le_opt (Z.of_nat (length (rb_jobs r))) (vt_toursize (rb_vt r)) = true.
Proof.
  unfold feasible_viol, feasible_x. intros ->. cbv zeta. rewrite !app_nil_iff, !if_nil_iff.
  intros (H1 & H2 & H3 & H4 & H5 & H6 & H7). split; [rewrite H1, H2; reflexivity|]. auto.
Qed.

Lemma rebuild_vt P t r : rebuild P t = Some r -> In (rb_vt r) (pr_fleet P) /\ vt_id (rb_vt r) = to_type t.
Proof.
  unfold rebuild, shift_of, vtype_of. destruct (find _ (pr_fleet P)) as [vt|] eqn:Hf; [|discriminate].
  destruct (nth_error (vt_shifts vt) (to_shift t)) as [sh|]; [|discriminate]. cbv zeta.
  destruct (split_tour _ (flat_tour t)) as [[[d js] e]|]; [|discriminate].
  destruct (match_all P _ js) as [ms|]; [|discriminate]. intros H. injection H as <-. cbn [rb_vt].
  apply find_some in Hf. destruct Hf as [Hin Hb]. split; [exact Hin|].
  apply andb_true_iff in Hb. destruct Hb as [Hb _]. apply andb_true_iff in Hb. destruct Hb as [Hb _].
  apply Z.eqb_eq. exact Hb.
Qed.

Lemma upd_type_found tid g fleet vt : (forall v, vt_id (g v) = vt_id v) ->
  In vt (map (fun v => if vt_id v =? tid then g v else v) fleet) -> vt_id vt = tid -> exists v0, vt = g v0.
Proof.
  intros Hg Hin Hid. apply in_map_iff in Hin. destruct Hin as [v0 [Hv0 _]].
  destruct (Z.eqb_spec (vt_id v0) tid) as [e|ne].
  - exists v0. symmetry. exact Hv0.
  - exfalso. subst vt. contradiction.
Qed.

Lemma flat_acts_ext s s' k : ss_loc s = ss_loc s' -> ss_arr s = ss_arr s' -> ss_dep s = ss_dep s' ->
  forall l arr, flat_acts s k arr l = flat_acts s' k arr l.
Proof.
  intros H1 H2 H3. induction l as [|a r IH]; intros arr; cbn [flat_acts]; [reflexivity|].
  rewrite H1, H2, H3. destruct (match sa_time a with Some t => t | None => (ss_arr s', ss_dep s') end) as [b e].
  rewrite IH. reflexivity.
Qed.

Lemma flat_tour_upd t s g : (forall i x, flat_stop i (g x) = flat_stop i x) -> flat_tour (set_stops (upd_nth s g) t) = flat_tour t.
Proof.
  intros Hg. unfold flat_tour, mapi. cbn [set_stops to_stops]. rewrite mapi_from_upd_nth; [reflexivity|exact Hg].
Qed.

(* a change of a stop that the flattened tour does not see leaves the replayed load and distance of that stop as they were *)
Lemma stop_mut_replay P S k s g t st :
  (forall i x, flat_stop i (g x) = flat_stop i x) ->
  valid_b P S = [] -> valid_b P (upd_stop k s g S) = [] ->
  nth_error (sl_tours S) k = Some t -> nth_error (to_stops t) s = Some st ->
  ss_load (g st) = ss_load st /\ ss_dist (g st) = ss_dist st.
Proof.
  intros Hg HV HV' Hk Hs.
  destruct (valid_tour _ _ _ _ HV Hk) as [_ HR].
  assert (Hk' : nth_error (sl_tours (upd_stop k s g S)) k = Some (set_stops (upd_nth s g) t)).
  { cbn [upd_stop set_tours sl_tours]. apply nth_error_upd_nth_eq. exact Hk. }
  destruct (valid_tour _ _ _ _ HV' Hk') as [_ HR'].
  destruct (replay_tour_nil _ _ _ HR) as [r [Hr [_ [Hst _]]]].
  destruct (replay_tour_nil _ _ _ HR') as [r' [Hr' [_ [Hst' _]]]].
  rewrite (rebuild_ext P t (set_stops (upd_nth s g) t) eq_refl eq_refl eq_refl (flat_tour_upd t s g Hg)) in Hr'.
  rewrite Hr in Hr'. injection Hr' as <-.
  destruct (stop_checks_at _ _ _ _ _ _ s st Hst Hs) as [i [Hi [_ [Hl Hd]]]].
  assert (Hs' : nth_error (to_stops (set_stops (upd_nth s g) t)) s = Some (g st)).
  { cbn [set_stops to_stops]. apply nth_error_upd_nth_eq. exact Hs. }
  destruct (stop_checks_at _ _ _ _ _ _ s (g st) Hst' Hs') as [i' [Hi' [_ [Hl' Hd']]]].
  rewrite Hi in Hi'. injection Hi' as <-. split; congruence.
Qed.

Lemma flat_stop_add_load d i x : flat_stop i (add_load d x) = flat_stop i x.
Proof. unfold flat_stop. cbn [add_load ss_arr ss_acts]. apply flat_acts_ext; reflexivity. Qed.
Lemma flat_stop_add_dist d i x : flat_stop i (add_dist d x) = flat_stop i x.
Proof. unfold flat_stop. cbn [add_dist ss_arr ss_acts]. apply flat_acts_ext; reflexivity. Qed.

Lemma site_stop S k s : stop_at S k s <> None ->
  exists t st, nth_error (sl_tours S) k = Some t /\ nth_error (to_stops t) s = Some st.
Proof.
  unfold stop_at, tour_at. destruct (nth_error (sl_tours S) k) as [t|] eqn:Hk; [|congruence].
  destruct (nth_error (to_stops t) s) as [st|] eqn:Hs; [|congruence]. intros _. exists t, st. split; [reflexivity|exact Hs].
Qed.

Lemma mut_load_invalid P S k s d :
  valid_b P S = [] -> d <> 0 -> stop_at S k s <> None -> valid_b P (mutS (MLoad k s d) S) <> [].
Proof.
  intros HV Hd Hsite HV'. destruct (site_stop _ _ _ Hsite) as [t [st [Hk Hs]]].
  destruct (stop_mut_replay P S k s (add_load d) t st (flat_stop_add_load d) HV HV' Hk Hs) as [H _].
  cbn in H. lia.
Qed.

Lemma mut_distance_invalid P S k s d :
  valid_b P S = [] -> d <> 0 -> stop_at S k s <> None -> valid_b P (mutS (MDistance k s d) S) <> [].
Proof.
  intros HV Hd Hsite HV'. destruct (site_stop _ _ _ Hsite) as [t [st [Hk Hs]]].
  destruct (stop_mut_replay P S k s (add_dist d) t st (flat_stop_add_dist d) HV HV' Hk Hs) as [_ H].
  cbn in H. lia.
Qed.

Lemma mut_stat_tour_invalid P S k f d :
  valid_b P S = [] -> d <> 0 -> (f < 7)%nat -> tour_at S k <> None -> valid_b P (mutS (MStatTour k f d) S) <> [].
Proof.
  intros HV Hd Hf Hsite HV'. unfold tour_at in Hsite.
  destruct (nth_error (sl_tours S) k) as [t|] eqn:Hk; [|congruence].
  destruct (valid_tour _ _ _ _ HV Hk) as [_ HR].
  assert (Hk' : nth_error (sl_tours (mutS (MStatTour k f d) S)) k = Some (set_tstat (add_stat f d) t)).
  { cbn [mutS set_tours sl_tours]. apply nth_error_upd_nth_eq. exact Hk. }
  destruct (valid_tour _ _ _ _ HV' Hk') as [_ HR'].
  destruct (replay_tour_nil _ _ _ HR) as [r [Hr [_ [_ Hst]]]].
  destruct (replay_tour_nil _ _ _ HR') as [r' [Hr' [_ [_ Hst']]]].
  rewrite (rebuild_ext P t (set_tstat (add_stat f d) t) eq_refl eq_refl eq_refl eq_refl) in Hr'.
  rewrite Hr in Hr'. injection Hr' as <-.
  apply stat_checks_eq in Hst. apply stat_checks_eq in Hst'. cbn [set_tstat to_stat] in Hst'. rewrite <- Hst in Hst'.
  destruct (to_stat t).
  do 7 (destruct f as [|f]; [cbn in Hst'; injection Hst'; intros; lia|]). lia.
Qed.

Lemma mut_unknown_act_invalid P S k s a j x :
  zmem j (job_ids P) = false -> act_at S k s a = Some x -> is_job_act x = true ->
  valid_b P (mutS (MUnknownAct k s a j) S) <> [].
Proof.
  intros Hj Hx Hjob HV'. destruct (site_act _ _ _ _ _ Hx) as [t [st [Hk [Hs Ha]]]].
  assert (Hk' : nth_error (sl_tours (mutS (MUnknownAct k s a j) S)) k
                = Some (set_stops (upd_nth s (set_acts (upd_nth a (set_job j)))) t)).
  { cbn [mutS upd_stop set_tours sl_tours]. apply nth_error_upd_nth_eq. exact Hk. }
  assert (Hs' : nth_error (to_stops (set_stops (upd_nth s (set_acts (upd_nth a (set_job j)))) t)) s
                = Some (set_acts (upd_nth a (set_job j)) st)).
  { cbn [set_stops to_stops]. apply nth_error_upd_nth_eq. exact Hs. }
  assert (Ha' : nth_error (ss_acts (set_acts (upd_nth a (set_job j)) st)) a = Some (set_job j x)).
  { cbn [set_acts ss_acts]. apply nth_error_upd_nth_eq. exact Ha. }
  destruct (act_in_tours_with _ k s a _ _ _ Hk' Hs' Ha' Hjob) as [_ [f [Hf Hfj]]].
  apply valid_b_nil in HV'. destruct HV' as (_&HA'&_).
  pose proof (acc_no_foreign_act _ _ (accounted_b_sound _ _ HA') _ f (nth_error_In _ _ Hk') Hf) as Hplan.
  rewrite Hfj in Hplan. cbn [set_job sa_job] in Hplan. apply zmem_In in Hplan. congruence.
Qed.

Lemma mut_copy_stop_invalid P S k s k2 st :
  valid_b P S = [] -> k <> k2 -> stop_at S k s = Some st -> has_job_act st = true -> tour_at S k2 <> None ->
  valid_b P (mutS (MCopyStop k s k2) S) <> [].
Proof.
  intros HV Hne Hst Hjob Hk2 HV'. cbn [mutS] in HV'. rewrite Hst in HV'.
  pose (S' := set_tours (upd_nth k2 (set_stops (ins_nth 1 st))) S). change (valid_b P S' = []) in HV'.
  unfold stop_at, tour_at in Hst, Hk2. destruct (nth_error (sl_tours S) k) as [t|] eqn:Hk; [|discriminate].
  destruct (nth_error (sl_tours S) k2) as [t2|] eqn:Hk2'; [|congruence].
  unfold has_job_act in Hjob. apply existsb_exists in Hjob. destruct Hjob as [x [Hx Hxj]].
  destruct (In_nth_error _ _ Hx) as [a Ha].
  destruct (act_in_tours_with S k s a t st x Hk Hst Ha Hxj) as [_ [f [Hf Hfj]]].
  apply valid_b_nil in HV. destruct HV as (_&HA&_). apply valid_b_nil in HV'. destruct HV' as (_&HA'&_).
  pose proof (acc_no_foreign_act _ _ (accounted_b_sound _ _ HA) t f (nth_error_In _ _ Hk) Hf) as Hplan.
  rewrite Hfj in Hplan. destruct (plan_job _ _ Hplan) as [job [Hjb Hid]].
  apply (job_viol_tours2 S' job); [|exact (accounted_job_viol _ _ _ HA' Hjb)].
  rewrite Hid.
  assert (Hk' : nth_error (sl_tours S') k = Some t).
  { unfold S'. cbn [set_tours sl_tours]. rewrite nth_error_upd_nth_neq; [exact Hk|congruence]. }
  assert (Hk2'' : nth_error (sl_tours S') k2 = Some (set_stops (ins_nth 1 st) t2)).
  { unfold S'. cbn [set_tours sl_tours]. apply nth_error_upd_nth_eq. exact Hk2'. }
  destruct (In_nth_error _ _ (In_ins_nth st (to_stops t2) 1)) as [s2 Hs2].
  destruct (act_in_tours_with S' k s a t st x Hk' Hst Ha Hxj) as [H1 _].
  destruct (act_in_tours_with S' k2 s2 a (set_stops (ins_nth 1 st) t2) st x Hk2'' Hs2 Ha Hxj) as [H2 _].
  unfold tours_with in *. apply filter_In in H1. apply filter_In in H2.
  eapply filter_two; [exact Hne|exact Hk'|exact Hk2''|exact (proj2 H1)|exact (proj2 H2)].
Qed.

(* ------------------------------------------------------------------ limits: the bound just below the reported value *)
Lemma limit_setup P' S k t : valid_b P' S = [] -> nth_error (sl_tours S) k = Some t ->
  exists r, rebuild P' t = Some r
    /\ st_dist (to_stat t) = tour_legs (pdist P') (rb_acts r) /\ st_dur (to_stat t) = replay_duration (pdur P') (rb_acts r)
    /\ le_opt (tour_legs (pdist P') (rb_acts r)) (vt_maxdist (rb_vt r)) = true
    /\ le_opt (replay_duration (pdur P') (rb_acts r)) (vt_maxdur (rb_vt r)) = true
    /\ le_opt (Z.of_nat (length (rb_jobs r))) (vt_toursize (rb_vt r)) = true.
Proof.
  intros HV Hk. destruct (valid_tour _ _ _ _ HV Hk) as [HF HR].
  destruct (replay_tour_nil _ _ _ HR) as [r [Hr [_ [_ Hstat]]]].
  destruct (feasible_viol_nil _ _ _ _ Hr HF) as (_ & Hd & Hu & Hn).
  apply stat_checks_eq in Hstat. unfold stat_fields, replay_stat in Hstat.
  cbn [st_cost st_dist st_dur st_drive st_serve st_wait st_break] in Hstat.
  injection Hstat as _ Hdist Hdur _ _ _ _. exists r. auto 10.
Qed.

Lemma mut_limit_distance_invalid P S k t :
  tour_at S k = Some t -> valid_b (mutP (MLimitDistance k) P S) (mutS (MLimitDistance k) S) <> [].
Proof.
  intros Hk HV'. cbn [mutP mutS] in HV'. rewrite Hk in HV'. unfold tour_at in Hk.
  destruct (limit_setup _ _ _ _ HV' Hk) as [r (Hr & Hdist & _ & Hd & _)].
  destruct (rebuild_vt _ _ _ Hr) as [Hin Hid].
  destruct (upd_type_found (to_type t) (set_maxdist (st_dist (to_stat t) - 1)) (pr_fleet P) (rb_vt r)
                           (fun v => eq_refl) Hin Hid) as [v0 Hv0].
  rewrite Hv0 in Hd. cbn [set_maxdist vt_maxdist le_opt] in Hd. apply Z.leb_le in Hd. lia.
Qed.

Lemma mut_limit_duration_invalid P S k t :
  tour_at S k = Some t -> valid_b (mutP (MLimitDuration k) P S) (mutS (MLimitDuration k) S) <> [].
Proof.
  intros Hk HV'. cbn [mutP mutS] in HV'. rewrite Hk in HV'. unfold tour_at in Hk.
  destruct (limit_setup _ _ _ _ HV' Hk) as [r (Hr & _ & Hdur & _ & Hd & _)].
  destruct (rebuild_vt _ _ _ Hr) as [Hin Hid].
  destruct (upd_type_found (to_type t) (set_maxdur (st_dur (to_stat t) - 1)) (pr_fleet P) (rb_vt r)
                           (fun v => eq_refl) Hin Hid) as [v0 Hv0].
  rewrite Hv0 in Hd. cbn [set_maxdur vt_maxdur le_opt] in Hd. apply Z.leb_le in Hd. lia.
Qed.

(* ------------------------------------------------------------------ shape of a rebuilt tour; tour size *)
Lemma split_tour_spec has_end l d js e : split_tour has_end l = Some (d, js, e) ->
  l = d :: js ++ (match e with Some x => [x] | None => [] end) /\ fa_kind d = 10
  /\ forallb (fun a => is_mid_kind (fa_kind a)) js = true /\ (forall x, e = Some x -> fa_kind x = 11).
Proof.
  unfold split_tour. destruct l as [|d0 r]; [discriminate|].
  destruct (fa_kind d0 =? 10) eqn:Hd; cbn [negb]; [|discriminate].
  destruct has_end.
  - destruct (rev r) as [|e0 jr] eqn:Hr; [discriminate|].
    destruct ((fa_kind e0 =? 11) && forallb (fun a => is_mid_kind (fa_kind a)) jr) eqn:Hb; [|discriminate].
    intros H. injection H as <- <- <-. apply andb_true_iff in Hb. destruct Hb as [He Hj].
    assert (Hrr : r = rev jr ++ [e0]). { rewrite <- (rev_involutive r), Hr. reflexivity. }
    split; [rewrite Hrr; reflexivity|]. split; [apply Z.eqb_eq; exact Hd|]. split.
    + rewrite forallb_forall in *. intros a Ha. apply Hj. apply (proj2 (in_rev jr a)). exact Ha.
    + intros x Hx. injection Hx as <-. apply Z.eqb_eq. exact He.
  - destruct (forallb (fun a => is_mid_kind (fa_kind a)) r) eqn:Hj; [|discriminate]. intros H. injection H as <- <- <-.
    split; [rewrite app_nil_r; reflexivity|]. split; [apply Z.eqb_eq; exact Hd|]. split; [exact Hj|].
    intros x Hx. discriminate Hx.
Qed.

Lemma match_all_fst P sh l : forall ms, match_all P sh l = Some ms -> map fst ms = l.
Proof.
  induction l as [|a r IH]; intros ms; cbn [match_all].
  - intros H. injection H as <-. reflexivity.
  - destruct (match_act P sh a) as [m|]; [|discriminate]. destruct (match_all P sh r) as [ms'|]; [|discriminate].
    intros H. injection H as <-. cbn [map fst]. rewrite (IH ms' eq_refl). reflexivity.
Qed.

Lemma rebuild_spec P t r : rebuild P t = Some r ->
  flat_tour t = rb_facts r /\ fa_kind (rb_dep r) = 10
  /\ forallb (fun a => is_mid_kind (fa_kind a)) (map fst (rb_jobs r)) = true
  /\ (forall x, rb_arr r = Some x -> fa_kind x = 11).
Proof.
  unfold rebuild. destruct (shift_of P t) as [[vt sh]|]; [|discriminate]. cbv zeta.
  destruct (split_tour _ (flat_tour t)) as [[[d js] e]|] eqn:Hsp; [|discriminate].
  destruct (match_all P _ js) as [ms|] eqn:Hm; [|discriminate]. intros H. injection H as <-.
  unfold rb_facts. cbn [rb_dep rb_jobs rb_arr]. rewrite (match_all_fst _ _ _ _ Hm).
  destruct (split_tour_spec _ _ _ _ _ Hsp) as (H1 & H2 & H3 & H4). auto.
Qed.

Lemma filter_all {A} (p : A -> bool) l : forallb p l = true -> filter p l = l.
Proof.
  induction l as [|x r IH]; cbn [forallb filter]; [reflexivity|]. intros H. apply andb_true_iff in H.
  destruct H as [H1 H2]. rewrite H1, (IH H2). reflexivity.
Qed.

Lemma filter_len_le {A} (p : A -> bool) l : (length (filter p l) <= length l)%nat.
Proof. induction l as [|x r IH]; cbn [filter length]; [lia|]. destruct (p x); cbn [length]; lia. Qed.

(* the job activities of a tour are among the rebuilt middle activities (the others are its reload activities) *)
Lemma rebuild_job_acts P t r : rebuild P t = Some r ->
  job_acts t = filter (fun a => is_job_kind (fa_kind a)) (map fst (rb_jobs r)).
Proof.
  intros Hr. destruct (rebuild_spec _ _ _ Hr) as (H1 & H2 & H3 & H4). unfold job_acts. rewrite H1. unfold rb_facts.
  cbn [filter]. rewrite H2. change (is_job_kind 10) with false. cbv iota. rewrite filter_app.
  destruct (rb_arr r) as [x|]; [|cbn [filter]; apply app_nil_r].
  cbn [filter]. rewrite (H4 x eq_refl). change (is_job_kind 11) with false. cbv iota. apply app_nil_r.
Qed.

Lemma mut_limit_size_invalid P S k t :
  tour_at S k = Some t -> valid_b (mutP (MLimitSize k) P S) (mutS (MLimitSize k) S) <> [].
Proof.
  intros Hk HV'. cbn [mutP mutS] in HV'. rewrite Hk in HV'. unfold tour_at in Hk.
  destruct (limit_setup _ _ _ _ HV' Hk) as [r (Hr & _ & _ & _ & _ & Hd)].
  destruct (rebuild_vt _ _ _ Hr) as [Hin Hid].
  destruct (upd_type_found (to_type t) (set_toursize (Z.of_nat (length (job_acts t)) - 1)) (pr_fleet P) (rb_vt r)
                           (fun v => eq_refl) Hin Hid) as [v0 Hv0].
  rewrite Hv0 in Hd. cbn [set_toursize vt_toursize le_opt] in Hd. apply Z.leb_le in Hd.
  rewrite (rebuild_job_acts _ _ _ Hr) in Hd.
  pose proof (filter_len_le (fun a => is_job_kind (fa_kind a)) (map fst (rb_jobs r))) as Hle. rewrite map_length in Hle. lia.
Qed.

(* ------------------------------------------------------------------ misplaced break: reported at another location *)
Lemma mut_break_loc_invalid P S k s a l st x :
  stop_at S k s = Some st -> nth_error (ss_acts st) a = Some x -> l <> ss_loc st ->
  valid_b P (mutS (MBreakLoc k s a l) S) <> [].
Proof.
  intros Hst Hx Hl HV.
  assert (Hsite : stop_at S k s <> None) by congruence.
  destruct (site_stop _ _ _ Hsite) as [t [st' [Hk Hs]]].
  assert (st' = st) by (unfold stop_at, tour_at in Hst; rewrite Hk, Hs in Hst; congruence). subst st'.
  set (g := set_acts (upd_nth a (set_loc l))).
  assert (Hk' : nth_error (sl_tours (mutS (MBreakLoc k s a l) S)) k = Some (set_stops (upd_nth s g) t)).
  { cbn [mutS upd_stop set_tours sl_tours]. apply nth_error_upd_nth_eq. exact Hk. }
  destruct (valid_tour _ _ _ _ HV Hk') as [_ HR].
  destruct (replay_tour_nil _ _ _ HR) as [r [_ [_ [Hsc _]]]].
  assert (Hs' : nth_error (to_stops (set_stops (upd_nth s g) t)) s = Some (g st)).
  { cbn [set_stops to_stops]. apply nth_error_upd_nth_eq. exact Hs. }
  unfold stop_checks in Hsc. pose proof (concat_mapi_nil _ _ _ _ Hsc Hs') as H1. cbv beta in H1.
  apply app_nil_iff in H1. destruct H1 as [H1 _]. apply if_nil_iff in H1. rewrite forallb_forall in H1.
  assert (Hin : In (set_loc l x) (ss_acts (g st))).
  { subst g. cbn [set_acts ss_acts]. eapply nth_error_In. apply nth_error_upd_nth_eq. exact Hx. }
  specialize (H1 _ Hin). subst g. cbn [set_loc sa_loc set_acts ss_loc] in H1. apply Z.eqb_eq in H1. contradiction.
Qed.

(* ------------------------------------------------------------------ broken relation: a pinned job leaves its tour *)
Lemma mut_rel_tour_invalid rels P S k s k2 r t t2 st x :
  In r rels -> k <> k2 -> nth_error (sl_tours S) k = Some t -> nth_error (sl_tours S) k2 = Some t2 ->
  is_rel_tour r t = true -> nth_error (to_stops t) s = Some st -> In x (ss_acts st) ->
  is_mid_kind (sa_kind x) = true -> In (sa_job x) (rel_ids r) ->
  valid_r rels P (mutS (MRelTour k s k2) S) <> [].
Proof.
  intros Hr Hne Hk Hk2 Hrel Hs Hx Hmid Hj HV.
  unfold valid_r in HV. apply app_nil_iff in HV. destruct HV as [HVb HVr].
  assert (Hst : stop_at S k s = Some st) by (unfold stop_at, tour_at; rewrite Hk; exact Hs).
  cbn [mutS] in HVb, HVr. rewrite Hst in HVb, HVr.
  set (g1 := set_stops (del_nth s)) in *. set (g2 := set_stops (ins_nth 1 st)) in *.
  set (S' := set_tours (fun l => upd_nth k2 g2 (upd_nth k g1 l)) S) in *.
  assert (Hk2' : nth_error (sl_tours S') k2 = Some (g2 t2)).
  { cbn [S' set_tours sl_tours]. apply nth_error_upd_nth_eq. rewrite nth_error_upd_nth_neq by exact Hne. exact Hk2. }
  assert (Hk' : nth_error (sl_tours S') k = Some (g1 t)).
  { cbn [S' set_tours sl_tours]. rewrite nth_error_upd_nth_neq by (intros E; apply Hne; symmetry; exact E).
    apply nth_error_upd_nth_eq. exact Hk. }
  (* the moved activity is served by tour k2 of the breached document *)
  assert (Hin : In (sa_job x) (mid_ids (g2 t2))).
  { destruct (In_nth_error _ _ (In_ins_nth st (to_stops t2) 1)) as [i Hi].
    destruct (flat_tour_In (g2 t2) i st x Hi Hx) as [f [Hf [Hfj Hfk]]].
    unfold mid_ids. apply in_map_iff. exists f. split; [exact Hfj|]. apply filter_In. split; [exact Hf|].
    rewrite Hfk. exact Hmid. }
  pose proof (proj1 (rel_viols_nil rels S') HVr r Hr) as HP. destruct HP as [[HV1 _] _].
  destruct (HV1 (g2 t2) (sa_job x) (nth_error_In _ _ Hk2') Hj Hin) as [Hv2 Hs2].
  apply is_rel_tour_iff in Hrel. destruct Hrel as [Hv1 Hs1].
  (* so tours k and k2 are driven by the same vehicle shift: not accounted *)
  apply valid_b_nil in HVb. destruct HVb as (_ & HA & _). apply accounted_b_nil in HA.
  pose proof (acc_shift_once _ _ HA) as Hnd.
  assert (E : nth_error (map shift_key (sl_tours S')) k = nth_error (map shift_key (sl_tours S')) k2).
  { rewrite (map_nth_error shift_key _ _ Hk'), (map_nth_error shift_key _ _ Hk2'). unfold shift_key.
    cbn [g1 g2 set_stops to_vehicle to_shift] in *. congruence. }
  rewrite NoDup_nth_error in Hnd. apply Hne. apply Hnd; [|exact E].
  rewrite map_length. apply nth_error_Some. rewrite Hk'. discriminate.
Qed.

(* ------------------------------------------------------------------ all proved classes at once *)
Lemma some_b_true {A} (o : option A) f : some_b o f = true -> exists x, o = Some x /\ f x = true.
Proof. destruct o as [x|]; cbn [some_b]; [intros H; exists x; auto|discriminate]. Qed.
Lemma negb_eqb_true d : negb (d =? 0) = true -> d <> 0.
Proof. intros H. apply negb_true_iff in H. apply Z.eqb_neq in H. exact H. Qed.

Lemma breach_is_invalid_partial m P S :
  valid_b P S = [] -> applicable_b m P S = true ->
  match m with MCapacity _ _ | MArrival _ _ _ | MDupAct _ _ | MDropStop _ _ | MMoveStop _ _ _
               | MBreakDup _ _ _ | MBreakDrop _ _ _ | MRelTour _ _ _ | MRelShift _ _ _ => True
          | _ => valid_b (mutP m P S) (mutS m S) <> [] end.
Proof.
  intros HV Happ. destruct m; cbn [applicable_b] in Happ; cbv beta iota; try exact I; cbn [mutP].
  - apply andb_true_iff in Happ. destruct Happ as [Hd Hs]. apply negb_eqb_true in Hd.
    apply some_b_true in Hs. destruct Hs as [st [Hs _]]. apply mut_load_invalid; [exact HV|exact Hd|congruence].
  - apply andb_true_iff in Happ. destruct Happ as [Hj Hx]. apply negb_true_iff in Hj.
    apply some_b_true in Hx. destruct Hx as [x [Hx Hjob]]. exact (mut_unknown_act_invalid P S k s a j x Hj Hx Hjob).
  - apply negb_true_iff in Happ. apply mut_unknown_un_invalid. exact Happ.
  - apply Nat.ltb_lt in Happ. apply mut_dup_un_invalid; assumption.
  - apply Nat.ltb_lt in Happ. apply mut_drop_un_invalid; assumption.
  - apply andb_true_iff in Happ. destruct Happ as [Happ Hk2]. apply andb_true_iff in Happ. destruct Happ as [Hne Hst].
    apply negb_true_iff in Hne. apply Nat.eqb_neq in Hne. apply some_b_true in Hst. destruct Hst as [st [Hst Hj]].
    apply some_b_true in Hk2. destruct Hk2 as [t2 [Hk2 _]].
    apply (mut_copy_stop_invalid P S k s k2 st HV Hne Hst Hj). congruence.
  - apply some_b_true in Happ. destruct Happ as [x [Hx Hjob]]. exact (mut_both_invalid P S k s a x HV Hx Hjob).
  - apply andb_true_iff in Happ. destruct Happ as [Hd Hs]. apply negb_eqb_true in Hd.
    apply some_b_true in Hs. destruct Hs as [st [Hs _]]. apply mut_distance_invalid; [exact HV|exact Hd|congruence].
  - apply andb_true_iff in Happ. destruct Happ as [Happ Hk]. apply andb_true_iff in Happ. destruct Happ as [Hd Hf].
    apply negb_eqb_true in Hd. apply Nat.ltb_lt in Hf. apply some_b_true in Hk. destruct Hk as [t [Hk _]].
    apply mut_stat_tour_invalid; [exact HV|exact Hd|exact Hf|congruence].
  - apply andb_true_iff in Happ. destruct Happ as [Hd Hf]. apply negb_eqb_true in Hd. apply Nat.ltb_lt in Hf.
    apply mut_stat_total_invalid; assumption.
  - apply some_b_true in Happ. destruct Happ as [t [Hk _]]. exact (mut_limit_distance_invalid P S k t Hk).
  - apply some_b_true in Happ. destruct Happ as [t [Hk _]]. exact (mut_limit_duration_invalid P S k t Hk).
  - apply some_b_true in Happ. destruct Happ as [t [Hk _]]. exact (mut_limit_size_invalid P S k t Hk).
  - apply some_b_true in Happ. destruct Happ as [st [Hst Hb]]. apply andb_true_iff in Hb. destruct Hb as [Hl Hx].
    apply negb_true_iff in Hl. apply Z.eqb_neq in Hl. apply some_b_true in Hx. destruct Hx as [x [Hx _]].
    exact (mut_break_loc_invalid P S k s a l st x Hst Hx Hl).
Qed.

Lemma c12_nonvacuous : valid_b ex_P ex_S = []
  /\ applicable_b (MStatTour 0 0 2) ex_P ex_S = true /\ valid_b ex_P (mutS (MStatTour 0 0 2) ex_S) = [RStatCost 0; RTotal 0]
  /\ applicable_b (MDistance 0 0 2) ex_P ex_S = true /\ valid_b ex_P (mutS (MDistance 0 0 2) ex_S) = [RDistance 0 0]
  /\ applicable_b (MCapacity 0 0) ex_P ex_S = true /\ valid_b (mutP (MCapacity 0 0) ex_P ex_S) ex_S <> [].
Proof.
  split; [vm_compute; reflexivity|]. split; [vm_compute; reflexivity|]. split; [vm_compute; reflexivity|].
  split; [vm_compute; reflexivity|]. split; [vm_compute; reflexivity|]. split; [vm_compute; reflexivity|].
  vm_compute. discriminate.
Qed.
