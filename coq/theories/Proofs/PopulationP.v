(* Lemmas for C08 (populations).  Model: Model/Population.v *)
From VRP Require Import Base.Tac Model.Population.
From Coq Require Import Sorted.

Section Pure.
Context {ind : Type}.
(* selection *)
Lemma pick_In (l : list ind) i y : In y (pick l i) -> In y l.
Proof. unfold pick. destruct (nth_error l i) eqn:E; cbn; [|tauto]. intros [<-|[]]. eapply nth_error_In; eauto. Qed.
Lemma e_select_In (e : elitism ind) draws y : In y (e_select e draws) -> In y (e_inds e).
Proof.
  unfold e_select. destruct (e_inds e) as [|x l] eqn:E; [cbn; tauto|].
  intros H. apply in_flat_map in H. destruct H as (i & _ & H). eapply pick_In; eauto.
Qed.
Lemma e_select_hd (e : elitism ind) draws b : hd_error (e_inds e) = Some b -> (1 <= e_sel_size e)%nat ->
  hd_error (e_select e draws) = Some b.
Proof.
  unfold e_select, e_indices. destruct (e_inds e) as [|x l] eqn:E; cbn [hd_error]; [discriminate|]. intros [= ->] N.
  destruct (e_sel_size e) as [|n]; [lia|]. cbn [firstn flat_map pick nth_error app hd_error]. reflexivity.
Qed.
Lemma slow_size_pos s r : (1 <= slow_size s r)%nat.
Proof. unfold slow_size. lia. Qed.

End Pure.

Section P.
Context {ind : Type}.
Variable cmp : ind -> ind -> comparison.
Variable dedup : ind -> ind -> bool.
Hypothesis TP : total_preorder cmp.

Definition le (a b : ind) : Prop := cmp a b <> Gt.

Lemma le_trans x y z : le x y -> le y z -> le x z.
Proof. destruct TP as [_ T]. apply T. Qed.
Lemma le_refl x : le x x.
Proof. destruct TP as [A _]. unfold le. specialize (A x x). destruct (cmp x x); cbn in A; congruence. Qed.
Lemma gt_le x y : cmp x y = Gt -> le y x.
Proof. destruct TP as [A _]. unfold le. intros H. rewrite (A y x), H. cbn. congruence. Qed.
Lemma is_gt_false c : is_gt c = false <-> c <> Gt.
Proof. destruct c; cbn; split; congruence. Qed.
Lemma is_gt_true c : is_gt c = true <-> c = Gt.
Proof. destruct c; cbn; split; congruence. Qed.

(* ---------- stable insertion sort ---------- *)
Lemma insert_In x l z : In z (insert cmp x l) <-> z = x \/ In z l.
Proof.
  induction l as [|y l IH]; cbn [insert]; [cbn; intuition|].
  destruct (is_gt (cmp x y)); cbn [In]; [rewrite IH|]; intuition.
Qed.

Lemma insert_sorted x l : StronglySorted le l -> StronglySorted le (insert cmp x l).
Proof.
  induction l as [|y l IH]; intros S; cbn [insert].
  - constructor; constructor.
  - inversion S as [|? ? S' F]; subst.
    destruct (is_gt (cmp x y)) eqn:E.
    + apply is_gt_true in E. constructor; [auto|].
      apply Forall_forall. intros z Hz. apply insert_In in Hz. destruct Hz as [->|Hz].
      * apply gt_le; exact E.
      * rewrite Forall_forall in F. auto.
    + apply is_gt_false in E. constructor; [exact S|].
      constructor; [exact E|]. apply Forall_forall. intros z Hz. rewrite Forall_forall in F.
      apply le_trans with y; auto.
Qed.

Lemma ssort_In l z : In z (ssort cmp l) <-> In z l.
Proof. induction l as [|x l IH]; cbn [ssort]; [tauto|]. rewrite insert_In, IH. cbn. intuition. Qed.
Lemma ssort_sorted l : StronglySorted le (ssort cmp l).
Proof. induction l as [|x l IH]; cbn [ssort]; [constructor|]. apply insert_sorted, IH. Qed.

(* ---------- dedup_by keeps the head, removes only later elements ---------- *)
Lemma dedup_go_In a l z : In z (dedup_go dedup a l) -> In z l.
Proof.
  revert a; induction l as [|x l IH]; intros a; cbn [dedup_go]; [tauto|].
  destruct (dedup x a); cbn [In]; intros H; [right; eauto|]. destruct H; [auto|right; eauto].
Qed.
Lemma dedup_go_sorted a l : StronglySorted le l -> StronglySorted le (dedup_go dedup a l).
Proof.
  revert a; induction l as [|x l IH]; intros a S; cbn [dedup_go]; [constructor|].
  inversion S as [|? ? S' F]; subst. destruct (dedup x a); [auto|].
  constructor; [auto|]. rewrite Forall_forall in *. intros z Hz. apply F. eapply dedup_go_In; eauto.
Qed.
Lemma dedup_by_In l z : In z (dedup_by dedup l) -> In z l.
Proof. destruct l as [|x l]; cbn [dedup_by]; [tauto|]. cbn [In]. intros [H|H]; [auto|right; eapply dedup_go_In; eauto]. Qed.
Lemma dedup_by_hd l : hd_error (dedup_by dedup l) = hd_error l.
Proof. destruct l; reflexivity. Qed.
Lemma dedup_by_sorted l : StronglySorted le l -> StronglySorted le (dedup_by dedup l).
Proof.
  destruct l as [|x l]; cbn [dedup_by]; intros S; [constructor|]. inversion S as [|? ? S' F]; subst.
  constructor; [apply dedup_go_sorted; auto|]. rewrite Forall_forall in *. intros z Hz. apply F. eapply dedup_go_In; eauto.
Qed.

(* ---------- truncate ---------- *)
Lemma firstn_In {A} n (l : list A) z : In z (firstn n l) -> In z l.
Proof. revert l; induction n as [|n IH]; intros [|a l]; cbn; try tauto. intros [H|H]; auto. Qed.
Lemma firstn_sorted n l : StronglySorted le l -> StronglySorted le (firstn n l).
Proof.
  revert n; induction l as [|x l IH]; intros n S; destruct n; cbn [firstn]; try constructor.
  - inversion S; subst; auto.
  - inversion S as [|? ? S' F]; subst. rewrite Forall_forall in *. intros z Hz. apply F. eapply firstn_In; eauto.
Qed.
Lemma firstn_hd {A} n (l : list A) : (1 <= n)%nat -> hd_error (firstn n l) = hd_error l.
Proof. destruct n; [lia|]. destruct l; reflexivity. Qed.

Lemma sorted_hd_le l b x : StronglySorted le l -> hd_error l = Some b -> In x l -> le b x.
Proof.
  destruct l as [|y l]; cbn; [discriminate|]. intros S [= ->] [->|H]; [apply le_refl|].
  inversion S as [|? ? S' F]; subst. rewrite Forall_forall in F. auto.
Qed.
Lemma hd_error_In {A} (l : list A) b : hd_error l = Some b -> In b l.
Proof. destruct l; cbn; [discriminate|]. intros [= ->]. auto. Qed.
Lemma In_hd_error {A} (l : list A) x : In x l -> exists b, hd_error l = Some b.
Proof. destruct l; cbn; [tauto|]. eauto. Qed.

(* ================= Elitism ================= *)
Definition e_inv (e : elitism ind) (off : list ind) : Prop :=
  StronglySorted le (e_inds e) /\ incl (e_inds e) off /\ (length (e_inds e) <= e_max e)%nat /\ (1 <= e_max e)%nat /\
  (forall x, In x off -> exists b, hd_error (e_inds e) = Some b /\ le b x).

Lemma e_add_with_iter_spec e ys :
  let l' := e_inds (e_add_with_iter cmp dedup e ys) in
  StronglySorted le l' /\ incl l' (e_inds e ++ ys) /\ (length l' <= e_max e)%nat /\
  ((1 <= e_max e)%nat -> forall x, In x (e_inds e ++ ys) -> exists b, hd_error l' = Some b /\ le b x).
Proof.
  cbn. repeat split.
  - apply firstn_sorted, dedup_by_sorted, ssort_sorted.
  - intros z Hz. apply firstn_In, dedup_by_In in Hz. apply -> ssort_In in Hz. exact Hz.
  - apply firstn_le_length.
  - intros M x Hx. rewrite (firstn_hd _ _ M), dedup_by_hd.
    apply <- ssort_In in Hx. destruct (In_hd_error _ _ Hx) as [b Hb]. exists b. split; [exact Hb|].
    eapply sorted_hd_le; eauto. apply ssort_sorted.
Qed.

(* one lemma for Elitism::add / add_all and for Rosomaxa's filtered add_all:
   everything offered (off') is either handed to the elite (ys) or no better than the current head *)
Lemma e_add_inv e off ys off' :
  e_inv e off -> incl ys off' -> incl off off' ->
  (forall x, In x off' -> In x ys \/ exists b0, hd_error (e_inds e) = Some b0 /\ le b0 x) ->
  e_inv (e_add_with_iter cmp dedup e ys) off' /\ e_inv (e_add_all cmp dedup e ys) off'.
Proof.
  intros (S & I & L & M & H) Iy Io C.
  assert (A : e_inv (e_add_with_iter cmp dedup e ys) off').
  { destruct (e_add_with_iter_spec e ys) as (S' & I' & L' & H'). specialize (H' M).
    unfold e_inv. cbn [e_add_with_iter e_with e_max e_inds] in *. repeat split; auto.
    - intros z Hz. apply I' in Hz. apply in_app_or in Hz. destruct Hz; auto.
    - intros x Hx. destruct (C x Hx) as [Hy|(b0 & Hb0 & Hle)].
      + apply H'. apply in_or_app; auto.
      + destruct (H' b0) as (b & Hb & Hbb0); [apply in_or_app; left; apply hd_error_In; auto|].
        exists b; split; [auto|]. eapply le_trans; eauto. }
  split; [exact A|]. destruct ys as [|y ys]; [|exact A].
  cbn [e_add_all]. unfold e_inv. repeat split; auto.
  - intros z Hz; auto.
  - intros x Hx. destruct (C x Hx) as [[]|(b0 & Hb0 & Hle)]. eauto.
Qed.

Lemma e_add_all_fields (e : elitism ind) ys :
  e_max (e_add_all cmp dedup e ys) = e_max e /\ e_sel (e_add_all cmp dedup e ys) = e_sel e /\
  e_speed (e_add_all cmp dedup e ys) = e_speed e.
Proof. destruct ys; cbn; auto. Qed.
Lemma e_add_all_incl (e : elitism ind) ys : incl (e_inds (e_add_all cmp dedup e ys)) (e_inds e ++ ys).
Proof.
  destruct ys as [|y ys]; cbn [e_add_all].
  - intros z Hz. apply in_or_app; auto.
  - apply (e_add_with_iter_spec e (y :: ys)).
Qed.

(* ================= Greedy ================= *)
Definition g_inv (g : greedy ind) (off seen : list ind) : Prop :=
  (forall b, g_best g = Some b -> In b off) /\
  (forall x, In x seen -> exists b, g_best g = Some b /\ le b x).

(* the best of g' is no worse than the best of g *)
Definition g_mono (g g' : greedy ind) : Prop :=
  g_sel g' = g_sel g /\
  (forall x, (exists b, g_best g = Some b /\ le b x) -> exists b', g_best g' = Some b' /\ le b' x).

Lemma g_mono_refl g : g_mono g g.
Proof. split; auto. Qed.
Lemma g_mono_trans g1 g2 g3 : g_mono g1 g2 -> g_mono g2 g3 -> g_mono g1 g3.
Proof. intros [S1 M1] [S2 M2]. split; [congruence|auto]. Qed.

Lemma g_add_spec (g : greedy ind) x :
  let g' := snd (g_add cmp g x) in
  g_mono g g' /\ (exists b', g_best g' = Some b' /\ le b' x) /\
  (forall b, g_best g' = Some b -> g_best g = Some b \/ b = x).
Proof.
  unfold g_add. destruct (g_best g) as [b|] eqn:B.
  - destruct (is_gt (cmp b x)) eqn:E; cbn [snd].
    + apply is_gt_true in E. apply gt_le in E. repeat split; cbn [g_best g_sel].
      * intros y (b0 & Hb0 & Hy). assert (b0 = b) by congruence. subst b0.
        exists x; split; [auto|]. eapply le_trans; eauto.
      * exists x; split; [auto|apply le_refl].
      * intros b0 [= <-]; auto.
    + apply is_gt_false in E. repeat split; auto.
      * exists b; split; auto.
      * intros b0 Hb0. left. congruence.
  - cbn [snd]. repeat split; cbn [g_best g_sel].
    + intros y (b0 & Hb0 & _). congruence.
    + exists x; split; [auto|apply le_refl].
    + intros b0 [= <-]; auto.
Qed.

Lemma g_fold_spec xs : forall (a : bool * greedy ind),
  let r := fold_left (fun (a : bool * greedy ind) x => let r := g_add cmp (snd a) x in (fst r || fst a, snd r)) xs a in
  g_mono (snd a) (snd r) /\ (forall b, g_best (snd r) = Some b -> g_best (snd a) = Some b \/ In b xs) /\
  (forall x, In x xs -> exists b', g_best (snd r) = Some b' /\ le b' x).
Proof.
  induction xs as [|x xs IH]; intros a; cbn [fold_left].
  - split; [apply g_mono_refl|]. split; [auto|intros x []].
  - destruct (IH (fst (g_add cmp (snd a) x) || fst a, snd (g_add cmp (snd a) x))) as (M & I & F). cbn [snd] in *.
    destruct (g_add_spec (snd a) x) as (M0 & B0 & I0).
    split; [eapply g_mono_trans; eauto|]. split.
    + intros b Hb. destruct (I b Hb) as [H|H]; [|cbn; auto]. destruct (I0 b H) as [H'|H']; cbn; auto.
    + intros y [<-|Hy]; [apply M; exact B0|apply F; exact Hy].
Qed.

Lemma g_add_all_spec (g : greedy ind) xs :
  let g' := snd (g_add_all cmp g xs) in
  g_mono g g' /\ (forall b, g_best g' = Some b -> g_best g = Some b \/ In b xs) /\
  (forall x, In x xs -> exists b', g_best g' = Some b' /\ le b' x).
Proof. unfold g_add_all. apply (g_fold_spec xs (false, g)). Qed.

(* ================= Rosomaxa ================= *)
Definition r_inv (r : rosomaxa ind) (off : list ind) : Prop :=
  e_inv (r_elite r) off /\ e_max (r_elite r) = c_elite (r_cfg r) /\ e_sel (r_elite r) = c_sel (r_cfg r) /\
  e_speed (r_elite r) = None /\ (2 <= c_sel (r_cfg r))%nat /\
  match r_phase r with
  | PInitial sols => incl sols off /\ incl (e_inds (r_elite r)) sols
  | PExploration sel net => incl net off /\ (1 <= sel)%nat
  | PExploitation sel => (1 <= sel)%nat
  end.

Lemma is_comparable_false best x : is_comparable cmp best x = false -> exists b, best = Some b /\ le b x.
Proof.
  unfold is_comparable. destruct best as [b|]; [|discriminate]. intros H. apply negb_false_iff, is_gt_true in H.
  exists b; split; [auto|apply gt_le; auto].
Qed.

Lemma r_add_all_inv r off xs : r_inv r off -> r_inv (r_add_all cmp dedup r xs) (off ++ xs).
Proof.
  intros (E & M & S & Sp & C2 & Ph). unfold r_add_all, r_inv. cbn [r_elite r_cfg r_phase].
  set (ys := filter (is_comparable cmp (hd_error (e_inds (r_elite r)))) xs).
  assert (Iy : incl ys xs) by (intros z Hz; apply filter_In in Hz; tauto).
  destruct (e_add_all_fields (r_elite r) ys) as (F1 & F2 & F3).
  assert (E' : e_inv (e_add_all cmp dedup (r_elite r) ys) (off ++ xs)).
  { apply (e_add_inv (r_elite r) off ys (off ++ xs) E).
    - intros z Hz. apply in_or_app; auto.
    - intros z Hz. apply in_or_app; auto.
    - intros x Hx. apply in_app_or in Hx. destruct Hx as [Hx|Hx].
      + right. destruct E as (_ & _ & _ & _ & H). auto.
      + destruct (is_comparable cmp (hd_error (e_inds (r_elite r))) x) eqn:Q.
        * left. apply filter_In; auto.
        * right. apply is_comparable_false in Q. exact Q. }
  split; [exact E'|]. split; [congruence|]. split; [congruence|]. split; [congruence|]. split; [exact C2|].
  pose proof (e_add_all_incl (r_elite r) ys) as I.
  destruct (r_phase r) as [sols|sel net|sel].
  - destruct Ph as [P1 P2]. split.
    + intros z Hz. apply in_app_or in Hz. apply in_or_app. destruct Hz; auto.
    + intros z Hz. apply I in Hz. apply in_app_or in Hz. apply in_or_app. destruct Hz; auto.
  - destruct Ph as [P1 P2]. split; [|auto].
    intros z Hz. apply in_app_or in Hz. apply in_or_app. destruct Hz; auto.
  - exact Ph.
Qed.

Lemma r_sel_size_pos c sp : (2 <= c_sel c)%nat -> (1 <= r_sel_size c sp)%nat.
Proof. intros H. destruct sp; cbn [r_sel_size]; try lia. apply slow_size_pos. Qed.
Lemma halve_clamp_pos n : (1 <= halve_clamp n)%nat.
Proof. unfold halve_clamp. lia. Qed.

Lemma r_on_generation_inv r off sp t r' : r_inv r off -> r_on_generation r sp t = Some r' -> r_inv r' off.
Proof.
  intros (E & M & S & Sp & C2 & Ph) H. pose proof (r_sel_size_pos (r_cfg r) sp C2) as Q.
  pose proof (halve_clamp_pos) as HC.
  assert (K : forall ph, match ph with
                         | PInitial sols => incl sols off /\ incl (e_inds (r_elite r)) sols
                         | PExploration sel net => incl net off /\ (1 <= sel)%nat
                         | PExploitation sel => (1 <= sel)%nat
                         end -> r_inv {| r_cfg := r_cfg r; r_elite := r_elite r; r_phase := ph |} off).
  { intros ph Hph. unfold r_inv. cbn [r_cfg r_elite r_phase]. auto 10. }
  unfold r_on_generation in H.
  destruct (r_phase r) as [sols|sel net|sel].
  - destruct Ph as [P1 P2].
    destruct (r_er (r_cfg r) sp <? t); [injection H as <-; apply K; auto|].
    destruct (c_initial (r_cfg r) <=? length sols)%nat; [|injection H as <-; apply K; auto].
    destruct (length sols <? 4)%nat; [discriminate|]. injection H as <-; apply K; auto.
  - destruct Ph as [P1 P2]. destruct (t <? r_er (r_cfg r) sp); injection H as <-; apply K; auto.
  - injection H as <-. apply K. apply HC.
Qed.

(* ================= all populations ================= *)
Definition inv (p : pop ind) (off seen : list ind) : Prop :=
  match p with
  | PG g => g_inv g off seen
  | PE e => e_inv e off
  | PR r => r_inv r off
  end.

Lemma offered_cons (o : op ind) ops : offered (o :: ops) = offered [o] ++ offered ops.
Proof. destruct o; cbn; rewrite ?app_nil_r, <- ?app_assoc; reflexivity. Qed.

Lemma step_inv p off seen o p' :
  inv p off seen -> step cmp dedup p o = Some p' -> inv p' (off ++ offered [o]) (seen ++ offered [o]).
Proof.
  intros I H. destruct p as [g|e|r]; cbn [inv] in *.
  - (* greedy *)
    destruct I as [I1 I2].
    destruct o as [x|xs|sp t|d h n|]; cbn [step] in H; injection H as <-; cbn [offered inv];
      rewrite ?app_nil_r; try (split; assumption).
    + destruct (g_add_spec g x) as ((_ & M) & B & I0). split.
      * intros b Hb. apply in_or_app. destruct (I0 b Hb) as [Hg| ->]; [left; auto|right; cbn; auto].
      * intros y Hy. apply in_app_or in Hy. destruct Hy as [Hy|[<-|[]]]; [apply M, I2, Hy|exact B].
    + destruct (g_add_all_spec g xs) as ((_ & M) & I0 & F). split.
      * intros b Hb. apply in_or_app. destruct (I0 b Hb) as [Hg|Hg]; [left; auto|right; auto].
      * intros y Hy. apply in_app_or in Hy. destruct Hy as [Hy|Hy]; [apply M, I2, Hy|apply F, Hy].
  - (* elitism *)
    destruct o as [x|xs|sp t|d h n|]; cbn [step] in H; injection H as <-; cbn [offered inv];
      rewrite ?app_nil_r; try assumption.
    + apply (e_add_inv e off [x] (off ++ [x]) I).
      * intros z Hz. apply in_or_app; auto.
      * intros z Hz. apply in_or_app; auto.
      * intros z Hz. apply in_app_or in Hz. destruct Hz as [Hz|Hz]; [right|left; auto].
        destruct I as (_ & _ & _ & _ & Hh). auto.
    + apply (e_add_inv e off xs (off ++ xs) I).
      * intros z Hz. apply in_or_app; auto.
      * intros z Hz. apply in_or_app; auto.
      * intros z Hz. apply in_app_or in Hz. destruct Hz as [Hz|Hz]; [right|left; auto].
        destruct I as (_ & _ & _ & _ & Hh). auto.
  - (* rosomaxa *)
    destruct o as [x|xs|sp t|d h n|]; cbn [step] in H; cbn [offered inv];
      rewrite ?app_nil_r; try (injection H as <-; assumption).
    + injection H as <-. apply r_add_all_inv, I.
    + injection H as <-. apply r_add_all_inv, I.
    + destruct (r_on_generation r sp t) as [r'|] eqn:G; cbn in H; [|discriminate]. injection H as <-.
      eapply r_on_generation_inv; eauto.
Qed.

Lemma run_inv ops : forall p off seen p',
  inv p off seen -> run cmp dedup ops p = Some p' -> inv p' (off ++ offered ops) (seen ++ offered ops).
Proof.
  induction ops as [|o ops IH]; intros p off seen p' I H; cbn [run] in H.
  - injection H as <-. cbn. rewrite !app_nil_r. exact I.
  - destruct (step cmp dedup p o) as [p1|] eqn:S; [|discriminate].
    rewrite offered_cons, !app_assoc. eapply IH; [|exact H]. eapply step_inv; eauto.
Qed.

Lemma start_inv p0 : start_state p0 -> inv p0 (ranked p0) (ranked p0).
Proof.
  intros [(sel & best & ->)|[(max & sel & H)|(c & H)]].
  - cbn. unfold g_inv, g_ranked. cbn. destruct best as [b|]; split; cbn.
    + intros b0 [= <-]; auto.
    + intros y [<-|[]]. exists b; split; [auto|apply le_refl].
    + intros b0 Hb0; discriminate.
    + intros y [].
  - unfold elitism_new in H. destruct (max <? 1)%nat eqn:E; [discriminate|]. injection H as <-.
    cbn. unfold e_inv. cbn. repeat split; try constructor; try lia; try tauto. intros z [].
  - unfold rosomaxa_new, r_new in H.
    destruct ((c_elite c <? 1)%nat || (c_sel c <? 2)%nat) eqn:E; cbn in H; [discriminate|]. injection H as <-.
    apply orb_false_iff in E. destruct E as [E1 E2].
    cbn. unfold r_inv, e_inv. cbn. repeat split; try constructor; try lia; try tauto; try (intros z []).
Qed.

(* the kind of a population and its configuration never change *)
Definition kind (p : pop ind) : nat := match p with PG _ => 0%nat | PE _ => 1%nat | PR _ => 2%nat end.
Lemma step_cfg p o p' : step cmp dedup p o = Some p' ->
  kind p' = kind p /\ max_size p' = max_size p /\ selection_size p' = selection_size p.
Proof.
  destruct p as [g|e|r]; destruct o as [x|xs|sp t|d h n|]; cbn [step]; intros H; try (injection H as <-; auto; fail).
  - injection H as <-. cbn. destruct (g_add_spec g x) as ((S & _) & _). auto.
  - injection H as <-. cbn. destruct (g_add_all_spec g xs) as ((S & _) & _). auto.
  - injection H as <-. cbn. destruct (e_add_all_fields e xs) as (A & B & _). auto.
  - destruct (r_on_generation r sp t) as [r'|] eqn:G; cbn in H; [|discriminate]. injection H as <-.
    unfold r_on_generation in G. cbn.
    destruct (r_phase r); repeat match type of G with context [if ?c then _ else _] => destruct c end;
      try discriminate; injection G as <-; auto.
Qed.
Lemma run_cfg ops : forall p p', run cmp dedup ops p = Some p' ->
  kind p' = kind p /\ max_size p' = max_size p /\ selection_size p' = selection_size p.
Proof.
  induction ops as [|o ops IH]; intros p p' H; cbn [run] in H; [injection H as <-; auto|].
  destruct (step cmp dedup p o) as [p1|] eqn:S; [|discriminate].
  destruct (step_cfg _ _ _ S) as (A & B & C). destruct (IH _ _ H) as (A' & B' & C'). repeat split; congruence.
Qed.

End P.

(* ================= the property ================= *)
Section Thms.
Context {ind : Type}.
Variable cmp : ind -> ind -> comparison.
Variable dedup : ind -> ind -> bool.
Hypothesis TP : total_preorder cmp.
Variable p0 : pop ind.
Hypothesis START : start_state p0.

Lemma reach_inv ops p : run cmp dedup ops p0 = Some p ->
  inv cmp p (ranked p0 ++ offered ops) (ranked p0 ++ offered ops).
Proof. intros H. eapply run_inv; eauto. apply start_inv; auto. Qed.

(* all three populations: no worse than what the population was created with and everything offered since *)
Lemma best_never_lost ops p : run cmp dedup ops p0 = Some p ->
  forall x, In x (ranked p0 ++ offered ops) -> exists b, hd_error (ranked p) = Some b /\ cmp b x <> Gt.
Proof.
  intros H x Hx. pose proof (reach_inv _ _ H) as I.
  destruct p as [g|e|r]; cbn [inv ranked] in *.
  - destruct I as [_ I2]. destruct (I2 x Hx) as (b & Hb & Hle). exists b. unfold g_ranked. rewrite Hb. auto.
  - destruct I as (_ & _ & _ & _ & Hh). apply Hh, Hx.
  - destruct I as ((_ & _ & _ & _ & Hh) & _). apply Hh, Hx.
Qed.

Lemma ranked_sorted ops p : run cmp dedup ops p0 = Some p ->
  StronglySorted (fun a b => cmp a b <> Gt) (ranked p).
Proof.
  intros H. pose proof (reach_inv _ _ H) as I. destruct p as [g|e|r]; cbn [inv ranked] in *.
  - unfold g_ranked. destruct (g_best g); repeat constructor.
  - apply I.
  - apply I.
Qed.

Lemma size_bounds ops p : run cmp dedup ops p0 = Some p ->
  (size p <= max_size p)%nat /\ max_size p = max_size p0.
Proof.
  intros H. pose proof (reach_inv _ _ H) as I. destruct (run_cfg cmp dedup TP ops _ _ H) as (_ & M & _).
  split; [|exact M]. unfold size. destruct p as [g|e|r]; cbn [inv ranked max_size] in *.
  - unfold g_ranked. destruct (g_best g); cbn; lia.
  - apply I.
  - destruct I as ((_ & _ & L & _) & Mx & _). unfold r_ranked. lia.
Qed.

Lemma select_offered ops p draws hits nodes : run cmp dedup ops p0 = Some p ->
  incl nodes (offered ops) ->
  forall y, In y (select p draws hits nodes) -> In y (ranked p0 ++ offered ops).
Proof.
  intros H N y Hy. pose proof (reach_inv _ _ H) as I. destruct p as [g|e|r]; cbn [inv select] in *.
  - destruct I as [I1 _]. unfold g_select in Hy. destruct (g_best g) as [b|] eqn:B; [|destruct Hy].
    apply repeat_spec in Hy. subst y. auto.
  - destruct I as (_ & Io & _). apply Io. eapply e_select_In; eauto.
  - destruct I as ((_ & Io & _) & _ & _ & _ & _ & Ph). unfold r_select in Hy.
    destruct (r_phase r) as [sols|sel net|sel].
    + apply Ph, Hy.
    + apply firstn_In in Hy. apply in_app_or in Hy. destruct Hy as [Hy|Hy].
      * apply firstn_In in Hy. apply Io. eapply e_select_In; eauto.
      * apply in_or_app; right; auto.
    + apply firstn_In in Hy. apply Io. eapply e_select_In; eauto.
Qed.

Lemma firstn_cons_hd {A} n (l : list A) b : (1 <= n)%nat -> hd_error l = Some b -> hd_error (firstn n l) = Some b.
Proof. intros N H. rewrite firstn_hd; auto. Qed.

Lemma select_nonempty ops p draws hits nodes : run cmp dedup ops p0 = Some p ->
  (1 <= selection_size p0)%nat -> (0 < size p)%nat -> select p draws hits nodes <> [].
Proof.
  intros H S Hz. pose proof (reach_inv _ _ H) as I. destruct (run_cfg cmp dedup TP ops _ _ H) as (_ & _ & Sz).
  rewrite <- Sz in S. clear Sz. unfold size in Hz.
  assert (NE : forall (l : list ind) b, hd_error l = Some b -> l <> []) by (intros [|? ?] ? ?; cbn in *; congruence).
  destruct p as [g|e|r]; cbn [inv select ranked selection_size] in *.
  - unfold g_select, g_ranked in *. destruct (g_best g); cbn in Hz; [|lia].
    destruct (g_sel g); [lia|]. cbn. discriminate.
  - destruct (e_inds e) as [|b l] eqn:E; cbn in Hz; [lia|].
    apply (NE _ b). apply e_select_hd; [rewrite E; reflexivity|].
    unfold e_sel_size. destruct (e_speed e) as [[| |rr]|]; try lia. apply slow_size_pos.
  - destruct I as (Ei & _ & Es & Esp & C2 & Ph). unfold r_ranked in Hz.
    destruct (e_inds (r_elite r)) as [|b l] eqn:E; cbn in Hz; [lia|].
    assert (Hs : hd_error (e_select (r_elite r) draws) = Some b).
    { apply e_select_hd; [rewrite E; reflexivity|]. unfold e_sel_size. rewrite Esp. lia. }
    unfold r_select. destruct (r_phase r) as [sols|sel net|sel].
    + destruct Ph as [_ P2]. intros ->. apply (P2 b). cbn; auto.
    + destruct Ph as [_ P2]. apply (NE _ b). apply firstn_cons_hd; [auto|].
      set (es := if (6 <? sel)%nat then _ else _).
      assert (1 <= es)%nat by (unfold es; destruct (6 <? sel)%nat; [destruct (hit hits 0), (hit hits 1)|]; lia).
      pose proof (firstn_cons_hd es _ b H0 Hs) as F.
      destruct (firstn es (e_select (r_elite r) draws)); cbn in *; [discriminate|exact F].
    + apply (NE _ b). apply firstn_cons_hd; auto.
Qed.

Lemma phases_forward p o p' : step cmp dedup p o = Some p' -> (phase_rank p <= phase_rank p')%nat.
Proof.
  destruct p as [g|e|r]; destruct o as [x|xs|sp t|d h n|]; cbn [step]; intros H; try (injection H as <-; cbn; lia).
  - injection H as <-. cbn. destruct (r_phase r); cbn; lia.
  - injection H as <-. cbn. destruct (r_phase r); cbn; lia.
  - destruct (r_on_generation r sp t) as [r'|] eqn:G; cbn in H; [|discriminate]. injection H as <-.
    unfold r_on_generation in G. cbn.
    destruct (r_phase r); repeat match type of G with context [if ?c then _ else _] => destruct c end;
      try discriminate; injection G as <-; cbn; lia.
Qed.

Lemma offered_adds (inits : list ind) (rest : list (op ind)) :
  offered (map OAdd inits ++ rest) = inits ++ offered rest.
Proof. induction inits as [|x l IH]; cbn; [reflexivity|]. rewrite IH. reflexivity. Qed.

Lemma seeded_never_worse inits gens r : solve cmp dedup p0 inits gens = Some r ->
  forall x, In x inits -> exists b, r = Some b /\ cmp b x <> Gt.
Proof.
  unfold solve. destruct (run cmp dedup (solve_ops inits gens) p0) as [p|] eqn:H; cbn; [|discriminate].
  intros [= <-] x Hx. eapply best_never_lost; eauto.
  apply in_or_app; right. unfold solve_ops. rewrite offered_adds. apply in_or_app; auto.
Qed.

End Thms.

(* Rosomaxa with initial_size >= 4 never reaches the panicking branch *)
Lemma rosomaxa_step_total {ind} (cmp : ind -> ind -> comparison) dedup (r : rosomaxa ind) o :
  (4 <= c_initial (r_cfg r))%nat ->
  exists r', step cmp dedup (PR r) o = Some (PR r') /\ r_cfg r' = r_cfg r.
Proof.
  intros C. destruct o as [x|xs|sp t|d h n|]; cbn [step]; try (eexists; split; [reflexivity|reflexivity]).
  unfold r_on_generation. destruct (r_phase r) as [sols|sel net|sel].
  - destruct (r_er (r_cfg r) sp <? t); [eexists; split; reflexivity|].
    destruct (c_initial (r_cfg r) <=? length sols)%nat eqn:E; [|eexists; split; reflexivity].
    apply Nat.leb_le in E. destruct (length sols <? 4)%nat eqn:F; [apply Nat.ltb_lt in F; lia|].
    eexists; split; reflexivity.
  - destruct (t <? r_er (r_cfg r) sp); eexists; split; reflexivity.
  - eexists; split; reflexivity.
Qed.

Lemma rosomaxa_no_panic {ind} (cmp : ind -> ind -> comparison) dedup c p0 ops :
  (4 <= c_initial c)%nat -> rosomaxa_new c = Some p0 -> run cmp dedup ops p0 <> None.
Proof.
  intros C H. unfold rosomaxa_new, r_new in H. destruct (_ || _); cbn in H; [discriminate|]. injection H as <-.
  match goal with |- run _ _ _ (PR ?r0) <> None => assert (C0 : (4 <= c_initial (r_cfg r0))%nat) by exact C; generalize dependent r0 end.
  induction ops as [|o ops IH]; intros r0 C0; cbn [run]; [discriminate|].
  destruct (rosomaxa_step_total cmp dedup r0 o C0) as (r' & -> & E). apply IH. rewrite E. exact C0.
Qed.

(* ================= concrete witnesses ================= *)
Lemma zcmp_total_preorder : total_preorder zcmp.
Proof.
  split; unfold zcmp; intros.
  - apply Z.compare_antisym.
  - rewrite Z.compare_gt_iff in *. lia.
Qed.

(* the batch that exposed the short-circuit defect (fixed in 646d0ea): now the better second individual wins *)
Lemma greedy_add_all_batch_witness :
  exists p, run zcmp (zdedup 0 false) [OAddAll [ZI 1 5 0 1; ZI 2 3 0 1]] (greedy_new 1 None) = Some p /\
    map zid (ranked p) = [2].
Proof. eexists. split; vm_compute; reflexivity. Qed.

Lemma select_empty_with_zero_selection_size :
  exists p0 ops p, elitism_new 2 0 = Some p0 /\ run zcmp (zdedup 0 false) ops p0 = Some p /\
    (0 < size p)%nat /\ select p [] [] [] = [].
Proof.
  eexists. exists [OAdd (ZI 1 5 0 1)]. eexists. split; [reflexivity|]. split; [vm_compute; reflexivity|].
  vm_compute. split; [lia|reflexivity].
Qed.

Lemma rosomaxa_small_initial_size_panics :
  exists c p0 ops, rosomaxa_new c = Some p0 /\ c_initial c = 3%nat /\ run zcmp (zdedup 5 false) ops p0 = None.
Proof.
  exists {| c_initial := 3; c_sel := 2; c_elite := 1; c_er := 32 |}. eexists.
  exists [OAddAll [ZI 1 5 0 1; ZI 2 6 0 2; ZI 3 7 0 3]; OGen SpUnknown 0].
  split; [reflexivity|]. split; [reflexivity|]. vm_compute. reflexivity.
Qed.

Lemma nonvacuous_history :
  exists p0 ops p, rosomaxa_new {| c_initial := 4; c_sel := 7; c_elite := 2; c_er := 32 |} = Some p0 /\
    run zcmp (zdedup 5 false) ops p0 = Some p /\ phase_rank p = 2%nat /\
    map zid (ranked p) = [7; 5] /\ length (offered ops) = 7%nat.
Proof.
  eexists.
  exists [OAdd (ZI 1 20 0 10); OAddAll [ZI 2 18 0 30; ZI 3 25 0 50]; OAdd (ZI 4 19 0 70); OGen SpUnknown 512;
          OAddAll [ZI 5 17 0 90; ZI 6 30 0 95]; OGen SpUnknown 511; OGen SpUnknown 512; OAdd (ZI 7 11 0 5)].
  eexists. split; [reflexivity|]. split; [vm_compute; reflexivity|]. vm_compute. auto.
Qed.

(* ================= depth: twin rule, what a selection contains, monotonicity, the evolution loop ================= *)
Section Depth.
Context {ind : Type}.
Variable cmp : ind -> ind -> comparison.
Variable dedup : ind -> ind -> bool.
Hypothesis TP : total_preorder cmp.
Local Notation lec := (le cmp).

(* ---------- no two neighbours of the ranking are twins ---------- *)
Lemma dedup_go_no_twins l : forall a, no_adjacent_twins dedup (a :: dedup_go dedup a l).
Proof.
  induction l as [|x l IH]; intros a; cbn [dedup_go]; [cbn; exact I|].
  destruct (dedup x a) eqn:E; [apply IH|]. cbn [no_adjacent_twins]. split; [exact E|apply IH].
Qed.
Lemma dedup_by_no_twins l : no_adjacent_twins dedup (dedup_by dedup l).
Proof. destruct l; cbn [dedup_by]; [cbn; exact I|apply dedup_go_no_twins]. Qed.
Lemma firstn_no_twins l : forall n, no_adjacent_twins dedup l -> no_adjacent_twins dedup (firstn n l).
Proof.
  induction l as [|a l IH]; intros n H; destruct n as [|n]; cbn [firstn]; try (cbn; exact I).
  destruct l as [|b l]; [destruct n; cbn; exact I|].
  destruct n as [|n]; [cbn; exact I|].
  cbn [no_adjacent_twins] in H. destruct H as [H1 H2].
  specialize (IH (S n) H2). cbn [firstn] in IH |- *. cbn [no_adjacent_twins]. split; assumption.
Qed.
Lemma e_add_with_iter_no_twins (e : elitism ind) ys : no_adjacent_twins dedup (e_inds (e_add_with_iter cmp dedup e ys)).
Proof. cbn [e_add_with_iter e_with e_inds]. apply firstn_no_twins, dedup_by_no_twins. Qed.
Lemma e_add_all_no_twins (e : elitism ind) ys :
  no_adjacent_twins dedup (e_inds e) -> no_adjacent_twins dedup (e_inds (e_add_all cmp dedup e ys)).
Proof. intros H. destruct ys; [exact H|apply e_add_with_iter_no_twins]. Qed.

Definition tw_inv (p : pop ind) : Prop :=
  match p with
  | PG _ => True
  | PE e => no_adjacent_twins dedup (e_inds e)
  | PR r => no_adjacent_twins dedup (e_inds (r_elite r))
  end.

Lemma step_tw p o p' : tw_inv p -> step cmp dedup p o = Some p' -> tw_inv p'.
Proof.
  intros H St. destruct p as [g|e|r]; destruct o as [x|xs|sp t|d h n|]; cbn [step] in St;
    try (injection St as <-; cbn [tw_inv] in *; auto; fail).
  - injection St as <-. cbn [tw_inv]. apply (e_add_with_iter_no_twins e [x]).
  - injection St as <-. cbn [tw_inv] in *. apply e_add_all_no_twins, H.
  - injection St as <-. cbn [tw_inv r_add r_add_all r_elite] in *. apply e_add_all_no_twins, H.
  - injection St as <-. cbn [tw_inv r_add_all r_elite] in *. apply e_add_all_no_twins, H.
  - destruct (r_on_generation r sp t) as [r'|] eqn:G; cbn in St; [|discriminate]. injection St as <-.
    cbn [tw_inv] in *. assert (E : r_elite r' = r_elite r); [|rewrite E; exact H].
    unfold r_on_generation in G.
    destruct (r_phase r); repeat match type of G with context [if ?c then _ else _] => destruct c end;
      try discriminate; injection G as <-; reflexivity.
Qed.
Lemma run_tw ops : forall p p', tw_inv p -> run cmp dedup ops p = Some p' -> tw_inv p'.
Proof.
  induction ops as [|o ops IH]; intros p p' H R; cbn [run] in R; [injection R as <-; exact H|].
  destruct (step cmp dedup p o) as [p1|] eqn:St; [|discriminate]. eapply IH; [|exact R]. eapply step_tw; eauto.
Qed.
Lemma start_tw p0 : start_state p0 -> tw_inv p0.
Proof.
  intros [(sel & best & ->)|[(max & sel & H)|(c & H)]]; [exact I| |].
  - unfold elitism_new in H. destruct (max <? 1)%nat; [discriminate|]. injection H as <-. exact I.
  - unfold rosomaxa_new, r_new in H. destruct (_ || _); cbn in H; [discriminate|]. injection H as <-. exact I.
Qed.
Lemma no_twins_reachable p0 ops p : start_state p0 -> run cmp dedup ops p0 = Some p ->
  is_greedy p = false -> no_adjacent_twins dedup (ranked p).
Proof.
  intros S R G. pose proof (run_tw ops p0 p (start_tw p0 S) R) as T. destruct p as [g|e|r]; [discriminate| |]; exact T.
Qed.

(* ---------- the twin rule: whatever leaves the population is dominated by something that stays ---------- *)
Lemma dedup_go_removed l : forall a x, StronglySorted lec l -> Forall (lec a) l -> In x l ->
  In x (dedup_go dedup a l) \/ exists y, (y = a \/ In y (dedup_go dedup a l)) /\ lec y x /\ dedup x y = true.
Proof.
  induction l as [|z l IH]; intros a x S F Hx; [destruct Hx|].
  inversion S as [|? ? S' F']; subst. inversion F as [|? ? Fa Fl]; subst.
  cbn [dedup_go]. destruct (dedup z a) eqn:E.
  - destruct Hx as [<-|Hx].
    + right. exists a. auto.
    + apply IH; auto.
  - destruct Hx as [<-|Hx]; [left; cbn; auto|].
    destruct (IH z x S' F' Hx) as [H|(y & Hy & Hle & Hd)].
    + left; cbn; auto.
    + right. exists y. split; [|auto]. right. destruct Hy as [->|Hy]; cbn; auto.
Qed.
Lemma dedup_by_removed l x : StronglySorted lec l -> In x l ->
  In x (dedup_by dedup l) \/ exists y, In y (dedup_by dedup l) /\ lec y x /\ dedup x y = true.
Proof.
  destruct l as [|a l]; intros S Hx; [destruct Hx|]. inversion S as [|? ? S' F]; subst. cbn [dedup_by].
  destruct Hx as [<-|Hx]; [left; cbn; auto|].
  destruct (dedup_go_removed l a x S' F Hx) as [H|(y & Hy & Hle & Hd)].
  - left; cbn; auto.
  - right. exists y. split; [|auto]. destruct Hy as [->|Hy]; cbn; auto.
Qed.

Lemma in_firstn_skipn {A} n (l : list A) x : In x l -> In x (firstn n l) \/ In x (skipn n l).
Proof. intros H. rewrite <- (firstn_skipn n l) in H. apply in_app_or in H. exact H. Qed.
Lemma skipn_In' {A} n (l : list A) x : In x (skipn n l) -> In x l.
Proof. intros H. rewrite <- (firstn_skipn n l). apply in_or_app; auto. Qed.
Lemma firstn_skipn_le l : forall n a b, StronglySorted lec l -> In a (firstn n l) -> In b (skipn n l) -> lec a b.
Proof.
  induction l as [|z l IH]; intros n a b S Ha Hb.
  - destruct n; cbn in Ha; destruct Ha.
  - destruct n as [|n]; cbn [firstn skipn] in Ha, Hb; [destruct Ha|].
    inversion S as [|? ? S' F]; subst. destruct Ha as [<-|Ha].
    + rewrite Forall_forall in F. apply F. eapply skipn_In'; eauto.
    + eapply IH; eauto.
Qed.
Lemma skipn_nonempty_firstn_length {A} n (l : list A) x : In x (skipn n l) -> length (firstn n l) = n.
Proof.
  intros H. apply firstn_length_le. destruct (Nat.le_gt_cases n (length l)) as [|G]; [auto|].
  rewrite skipn_all2 in H by lia. destruct H.
Qed.

Lemma e_add_dropped (e : elitism ind) ys x : In x (e_inds e ++ ys) ->
  let l' := e_inds (e_add_with_iter cmp dedup e ys) in
  In x l' \/ (exists y, In y l' /\ lec y x /\ dedup x y = true) \/
  (length l' = e_max e /\ forall y, In y l' -> lec y x).
Proof.
  intros Hx. cbn [e_add_with_iter e_with e_inds e_max]. cbv zeta.
  set (S := ssort cmp (e_inds e ++ ys)).
  assert (SS : StronglySorted lec S) by (apply ssort_sorted; auto).
  assert (SD : StronglySorted lec (dedup_by dedup S)) by (apply dedup_by_sorted; auto).
  assert (HxS : In x S) by (apply (proj2 (ssort_In cmp dedup (e_inds e ++ ys) x)); exact Hx).
  assert (T : forall z, In z (skipn (e_max e) (dedup_by dedup S)) ->
              length (firstn (e_max e) (dedup_by dedup S)) = e_max e /\
              forall y, In y (firstn (e_max e) (dedup_by dedup S)) -> lec y z).
  { intros z Hz. split; [eapply skipn_nonempty_firstn_length; eauto|]. intros y Hy. eapply firstn_skipn_le; eauto. }
  destruct (dedup_by_removed S x SS HxS) as [H|(y & Hy & Hle & Hd)].
  - destruct (in_firstn_skipn (e_max e) _ _ H) as [H1|H1]; [left; auto|right; right; apply T; auto].
  - destruct (in_firstn_skipn (e_max e) _ _ Hy) as [H1|H1].
    + right; left. exists y; auto.
    + right; right. destruct (T y H1) as [L F]. split; [auto|]. intros z Hz. eapply le_trans; eauto.
Qed.

Lemma e_add_all_dropped (e : elitism ind) ys x : In x (e_inds e ++ ys) ->
  let l' := e_inds (e_add_all cmp dedup e ys) in
  In x l' \/ (exists y, In y l' /\ lec y x /\ dedup x y = true) \/
  (length l' = e_max e /\ forall y, In y l' -> lec y x).
Proof.
  destruct ys as [|y ys]; cbn [e_add_all]; [|apply e_add_dropped].
  intros Hx. cbv zeta. rewrite app_nil_r in Hx. left; exact Hx.
Qed.

Lemma r_add_all_dropped (r : rosomaxa ind) xs x : In x (e_inds (r_elite r) ++ xs) ->
  let l' := e_inds (r_elite (r_add_all cmp dedup r xs)) in
  In x l' \/ (exists y, In y l' /\ lec y x /\ dedup x y = true) \/
  (length l' = e_max (r_elite r) /\ forall y, In y l' -> lec y x) \/
  (exists b, hd_error (e_inds (r_elite r)) = Some b /\ cmp x b = Gt).
Proof.
  intros Hx. cbn [r_add_all r_elite]. cbv zeta.
  set (ys := filter (is_comparable cmp (hd_error (e_inds (r_elite r)))) xs).
  assert (K : In x (e_inds (r_elite r) ++ ys) \/ exists b, hd_error (e_inds (r_elite r)) = Some b /\ cmp x b = Gt).
  { apply in_app_or in Hx. destruct Hx as [Hx|Hx]; [left; apply in_or_app; auto|].
    destruct (is_comparable cmp (hd_error (e_inds (r_elite r))) x) eqn:Q.
    - left. apply in_or_app; right. apply filter_In; auto.
    - right. unfold is_comparable in Q. destruct (hd_error (e_inds (r_elite r))) as [b|]; [|discriminate].
      exists b. split; [reflexivity|]. apply negb_false_iff in Q. apply is_gt_true in Q. exact Q. }
  destruct K as [K|K]; [|auto].
  pose proof (e_add_all_dropped (r_elite r) ys x K) as D. cbv zeta in D. destruct D as [A|[A|A]]; auto.
Qed.

(* ---------- run over concatenated histories ---------- *)
Lemma run_app ops1 : forall ops2 p,
  run cmp dedup (ops1 ++ ops2) p = match run cmp dedup ops1 p with Some p' => run cmp dedup ops2 p' | None => None end.
Proof.
  induction ops1 as [|o ops1 IH]; intros ops2 p; cbn [app run]; [reflexivity|].
  destruct (step cmp dedup p o); [apply IH|reflexivity].
Qed.
Lemma offered_app (ops1 ops2 : list (op ind)) : offered (ops1 ++ ops2) = offered ops1 ++ offered ops2.
Proof.
  induction ops1 as [|o ops1 IH]; [reflexivity|]. cbn [app]. rewrite (offered_cons o (ops1 ++ ops2)), (offered_cons o ops1), IH.
  apply app_assoc.
Qed.
Lemma run_phase_mono ops : forall p p', run cmp dedup ops p = Some p' -> (phase_rank p <= phase_rank p')%nat.
Proof.
  induction ops as [|o ops IH]; intros p p' R; cbn [run] in R; [injection R as <-; lia|].
  destruct (step cmp dedup p o) as [p1|] eqn:St; [|discriminate].
  pose proof (phases_forward cmp dedup p o p1 St). pose proof (IH _ _ R). lia.
Qed.

(* ---------- Rosomaxa, Initial phase: the stored solutions are exactly what was offered, in order ---------- *)
Lemma initial_solutions_step p o p1 sols1 : step cmp dedup p o = Some p1 -> initial_solutions p1 = Some sols1 ->
  exists sols, initial_solutions p = Some sols /\ sols1 = sols ++ offered [o].
Proof.
  intros St I1. destruct p as [g|e|r]; destruct o as [x|xs|sp t|d h n|]; cbn [step] in St;
    try (injection St as <-; cbn in I1; discriminate).
  - injection St as <-. cbn [initial_solutions r_add r_add_all r_phase] in *.
    destruct (r_phase r); try discriminate. injection I1 as <-. eexists; split; reflexivity.
  - injection St as <-. cbn [initial_solutions r_add_all r_phase] in *.
    destruct (r_phase r); try discriminate. injection I1 as <-. eexists; split; [reflexivity|].
    cbn [offered]. rewrite app_nil_r. reflexivity.
  - destruct (r_on_generation r sp t) as [r'|] eqn:G; cbn in St; [|discriminate]. injection St as <-.
    unfold r_on_generation in G. cbn [initial_solutions] in *.
    destruct (r_phase r) as [sols|sel net|sel];
      repeat match type of G with context [if ?c then _ else _] => destruct c end;
      try discriminate; injection G as <-; cbn [r_phase] in I1; try discriminate.
    injection I1 as <-. eexists; split; [reflexivity|]. cbn. rewrite app_nil_r. reflexivity.
  - injection St as <-. eexists; split; [exact I1|]. cbn. rewrite app_nil_r. reflexivity.
  - injection St as <-. eexists; split; [exact I1|]. cbn. rewrite app_nil_r. reflexivity.
Qed.
Lemma initial_solutions_run ops : forall p p' sols', run cmp dedup ops p = Some p' -> initial_solutions p' = Some sols' ->
  exists sols, initial_solutions p = Some sols /\ sols' = sols ++ offered ops.
Proof.
  induction ops as [|o ops IH]; intros p p' sols' R I'; cbn [run] in R.
  - injection R as <-. exists sols'. split; [auto|]. cbn. rewrite app_nil_r. reflexivity.
  - destruct (step cmp dedup p o) as [p1|] eqn:St; [|discriminate].
    destruct (IH _ _ _ R I') as (sols1 & I1 & ->).
    destruct (initial_solutions_step _ _ _ _ St I1) as (sols & I0 & ->).
    exists sols. split; [auto|]. rewrite (offered_cons o ops), app_assoc. reflexivity.
Qed.
Lemma initial_select_all_offered p0 ops p draws hits nodes : start_state p0 -> run cmp dedup ops p0 = Some p ->
  phase_rank p = 0%nat -> select p draws hits nodes = offered ops.
Proof.
  intros S R Ph. destruct p as [g|e|r]; cbn [phase_rank] in Ph; try discriminate.
  destruct (r_phase r) as [sols|sel net|sel] eqn:E; try discriminate.
  assert (I' : initial_solutions (PR r) = Some sols) by (cbn; rewrite E; reflexivity).
  destruct (initial_solutions_run ops p0 (PR r) sols R I') as (s0 & I0 & ->).
  assert (s0 = []).
  { destruct S as [(sel & best & ->)|[(max & sel & H)|(c & H)]]; [discriminate| |].
    - unfold elitism_new in H. destruct (max <? 1)%nat; [discriminate|]. injection H as <-. discriminate.
    - unfold rosomaxa_new, r_new in H. destruct (_ || _); cbn in H; [discriminate|]. injection H as <-.
      cbn in I0. injection I0 as <-. reflexivity. }
  subst s0. cbn [select r_select]. unfold r_select. rewrite E. reflexivity.
Qed.

(* Greedy and Elitism have no panicking step *)
Lemma non_rosomaxa_no_panic ops : forall p, (forall r, p <> PR r) -> run cmp dedup ops p <> None.
Proof.
  induction ops as [|o ops IH]; intros p N; cbn [run]; [discriminate|].
  destruct p as [g|e|r]; [| |exfalso; eapply N; reflexivity];
    destruct o; cbn [step]; apply IH; intros r; discriminate.
Qed.

End Depth.

Section Thms2.
Context {ind : Type}.
Variable cmp : ind -> ind -> comparison.
Variable dedup : ind -> ind -> bool.
Hypothesis TP : total_preorder cmp.
Variable p0 : pop ind.
Hypothesis START : start_state p0.

(* every ranked individual was offered (or is the initial best of Greedy::new) *)
Lemma ranked_offered ops p : run cmp dedup ops p0 = Some p -> incl (ranked p) (ranked p0 ++ offered ops).
Proof.
  intros H. pose proof (reach_inv cmp dedup TP p0 START _ _ H) as I. destruct p as [g|e|r]; cbn [inv ranked] in *.
  - destruct I as [I1 _]. unfold g_ranked. destruct (g_best g) as [b|] eqn:B; intros z Hz; [|destruct Hz].
    destruct Hz as [<-|[]]. apply I1. reflexivity.
  - apply I.
  - apply I.
Qed.

Lemma nonempty_iff_offered ops p : run cmp dedup ops p0 = Some p ->
  ((0 < size p)%nat <-> ranked p0 ++ offered ops <> []).
Proof.
  intros H. split.
  - intros Hs Hn. pose proof (ranked_offered _ _ H) as I. unfold size in Hs.
    destruct (ranked p) as [|b l]; cbn in Hs; [lia|]. specialize (I b (or_introl eq_refl)). rewrite Hn in I. destruct I.
  - intros Hn. destruct (ranked p0 ++ offered ops) as [|x l] eqn:E; [congruence|].
    destruct (best_never_lost cmp dedup TP p0 START _ _ H x) as (b & Hb & _); [rewrite E; cbn; auto|].
    unfold size. destruct (ranked p); cbn in *; [discriminate|lia].
Qed.

(* the first ranked individual is itself an offered one and a minimum of everything offered *)
Lemma best_is_offered_minimum ops p b : run cmp dedup ops p0 = Some p -> hd_error (ranked p) = Some b ->
  In b (ranked p0 ++ offered ops) /\ forall x, In x (ranked p0 ++ offered ops) -> cmp b x <> Gt.
Proof.
  intros H Hb. split.
  - apply (ranked_offered _ _ H). apply hd_error_In; auto.
  - intros x Hx. destruct (best_never_lost cmp dedup TP p0 START _ _ H x Hx) as (b' & Hb' & Hle). congruence.
Qed.

(* no operation makes the first ranked individual worse *)
Lemma best_monotone ops p o p' b : run cmp dedup ops p0 = Some p -> step cmp dedup p o = Some p' ->
  hd_error (ranked p) = Some b -> exists b', hd_error (ranked p') = Some b' /\ cmp b' b <> Gt.
Proof.
  intros H St Hb.
  assert (R : run cmp dedup (ops ++ [o]) p0 = Some p').
  { rewrite run_app, H. cbn [run]. rewrite St. reflexivity. }
  apply (best_never_lost cmp dedup TP p0 START _ _ R).
  rewrite offered_app, app_assoc. apply in_or_app; left.
  apply (ranked_offered _ _ H). apply hd_error_In; auto.
Qed.

(* whenever the population is non-empty the selection contains the first ranked individual *)
Lemma select_contains_best ops p draws hits nodes b : run cmp dedup ops p0 = Some p ->
  (1 <= selection_size p0)%nat -> hd_error (ranked p) = Some b -> In b (select p draws hits nodes).
Proof.
  intros H Hsel Hb. pose proof (reach_inv cmp dedup TP p0 START _ _ H) as I.
  destruct (run_cfg cmp dedup TP ops _ _ H) as (_ & _ & Sz). rewrite <- Sz in Hsel. clear Sz.
  destruct p as [g|e|r]; cbn [inv select ranked selection_size] in *.
  - unfold g_select, g_ranked in *. destruct (g_best g) as [b0|]; cbn in Hb; [|discriminate]. injection Hb as ->.
    destruct (g_sel g); [lia|]. cbn. auto.
  - apply hd_error_In. apply e_select_hd; [exact Hb|].
    unfold e_sel_size. destruct (e_speed e) as [[| |rr]|]; try lia. apply slow_size_pos.
  - destruct I as (Ei & _ & Es & Esp & C2 & Ph). unfold r_ranked in Hb.
    assert (Hs : hd_error (e_select (r_elite r) draws) = Some b).
    { apply e_select_hd; [exact Hb|]. unfold e_sel_size. rewrite Esp. lia. }
    unfold r_select. destruct (r_phase r) as [sols|sel net|sel].
    + destruct Ph as [_ P2]. apply P2. apply hd_error_In; auto.
    + destruct Ph as [_ P2]. apply hd_error_In. apply firstn_cons_hd; [auto|].
      set (es := if (6 <? sel)%nat then _ else _).
      assert (Hes : (1 <= es)%nat) by (unfold es; destruct (6 <? sel)%nat; [destruct (hit hits 0), (hit hits 1)|]; lia).
      pose proof (firstn_cons_hd es _ b Hes Hs) as F.
      destruct (firstn es (e_select (r_elite r) draws)); cbn in *; [discriminate|exact F].
    + apply hd_error_In. apply firstn_cons_hd; auto.
Qed.

(* the evolution loop: its result is no worse than the start content, every initial solution and every offspring of every generation *)
Lemma offered_gens (gens : list (@generation ind)) g x : In g gens -> In x (gen_offspring g) ->
  In x (offered (flat_map (fun g : generation => match g with (dr, hi, nd, offspring, sp, t) =>
              [OSelect dr hi nd; OAddAll offspring; OGen sp t] end) gens)).
Proof.
  induction gens as [|g0 gens IH]; intros Hg Hx; [destruct Hg|]. cbn [flat_map]. rewrite offered_app. apply in_or_app.
  destruct Hg as [->|Hg]; [left|right; auto].
  destruct g as [[[[[dr hi] nd] off] sp] t]. cbn in *. rewrite app_nil_r. exact Hx.
Qed.
Lemma solve_result_best inits gens r : solve cmp dedup p0 inits gens = Some r ->
  forall x, In x (ranked p0) \/ In x inits \/ (exists g, In g gens /\ In x (gen_offspring g)) ->
  exists b, r = Some b /\ cmp b x <> Gt.
Proof.
  unfold solve. destruct (run cmp dedup (solve_ops inits gens) p0) as [p|] eqn:H; cbn; [|discriminate].
  intros [= <-] x Hx. eapply (best_never_lost cmp dedup TP p0 START); eauto.
  apply in_or_app. destruct Hx as [Hx|Hx]; [left; auto|right].
  unfold solve_ops. rewrite offered_adds. apply in_or_app. destruct Hx as [Hx|(g & Hg & Hx)]; [left; auto|right].
  rewrite offered_app. apply in_or_app; left. eapply offered_gens; eauto.
Qed.

End Thms2.

(* ================= depth 2: selection sizes, reads leave the population alone, Exploitation is absorbing ================= *)
Section Depth2.
Context {ind : Type}.
Variable cmp : ind -> ind -> comparison.
Variable dedup : ind -> ind -> bool.

Lemma pick_length (l : list ind) i : (i < length l)%nat -> length (pick l i) = 1%nat.
Proof. intros H. unfold pick. destruct (nth_error l i) eqn:E; [reflexivity|]. apply nth_error_None in E. lia. Qed.
Lemma flat_map_pick_length (l : list ind) idxs :
  Forall (fun i => (i < length l)%nat) idxs -> length (flat_map (pick l) idxs) = length idxs.
Proof. induction 1 as [|i idxs Hi _ IH]; cbn [flat_map]; [reflexivity|]. rewrite app_length, pick_length by auto. cbn. lia. Qed.
Lemma e_indices_spec n size draws : (0 < size)%nat ->
  length (e_indices n size draws) = n /\ Forall (fun i => (i < size)%nat) (e_indices n size draws).
Proof.
  intros Hs. unfold e_indices. split.
  - rewrite firstn_length. cbn [length]. rewrite map_length, seq_length. lia.
  - apply Forall_forall. intros i Hi. apply firstn_In in Hi. destruct Hi as [<-|Hi]; [lia|].
    apply in_map_iff in Hi. destruct Hi as (j & <- & _).
    pose proof (Z.mod_pos_bound (nth j draws 0) (Z.of_nat size)). lia.
Qed.

(* Elitism::select yields exactly the (speed-adjusted) selection size individuals from a non-empty population *)
Lemma e_select_length (e : elitism ind) draws : e_inds e <> [] -> length (e_select e draws) = e_sel_size e.
Proof.
  intros NE. unfold e_select. destruct (e_inds e) as [|x l] eqn:E; [congruence|]. rewrite <- E.
  assert (Hs : (0 < length (e_inds e))%nat) by (rewrite E; cbn; lia).
  destruct (e_indices_spec (e_sel_size e) (length (e_inds e)) draws Hs) as [L F].
  rewrite flat_map_pick_length; auto.
Qed.
Lemma g_select_length (g : greedy ind) : length (g_select g) = (length (g_ranked g) * g_sel g)%nat.
Proof. unfold g_select, g_ranked. destruct (g_best g); cbn; [rewrite repeat_length; lia|reflexivity]. Qed.
(* Rosomaxa: never more than the phase's selection size once the initial phase is over *)
Lemma r_select_bound (r : rosomaxa ind) draws hits nodes :
  match r_phase r with
  | PInitial sols => r_select r draws hits nodes = sols
  | PExploration k _ => (length (r_select r draws hits nodes) <= k)%nat
  | PExploitation k => length (r_select r draws hits nodes) = Nat.min k (length (e_select (r_elite r) draws))
  end.
Proof. unfold r_select. destruct (r_phase r); [reflexivity|apply firstn_le_length|apply firstn_length]. Qed.

(* select / ranked are reads; a generation tick never touches the ranking *)
Lemma reads_keep_population p o p' : step cmp dedup p o = Some p' ->
  match o with
  | OSelect _ _ _ | ORanked => p' = p
  | OGen _ _ => ranked p' = ranked p
  | _ => True
  end.
Proof.
  destruct o as [x|xs|sp t|d h n|]; try exact (fun _ => I); destruct p as [g|e|r]; cbn [step]; intros H;
    try (injection H as <-; reflexivity).
  destruct (r_on_generation r sp t) as [r'|] eqn:G; cbn in H; [|discriminate]. injection H as <-.
  cbn [ranked]. unfold r_ranked. unfold r_on_generation in G.
  destruct (r_phase r); repeat match type of G with context [if ?c then _ else _] => destruct c end;
    try discriminate; injection G as <-; reflexivity.
Qed.

Lemma phase_rank_le2 (p : pop ind) : (phase_rank p <= 2)%nat.
Proof. destruct p as [g|e|r]; cbn; try lia. destruct (r_phase r); lia. Qed.
Lemma exploitation_absorbing ops : forall p p', run cmp dedup ops p = Some p' -> phase_rank p = 2%nat -> phase_rank p' = 2%nat.
Proof. intros p p' R H. pose proof (run_phase_mono cmp dedup ops p p' R). pose proof (phase_rank_le2 p'). lia. Qed.

End Depth2.

(* ================= depth 3: during Initial and Exploration Rosomaxa stores / hands to the network exactly what was offered ================= *)
Section Depth3.
Context {ind : Type}.
Variable cmp : ind -> ind -> comparison.
Variable dedup : ind -> ind -> bool.

Lemma stored_step p o p1 l1 : step cmp dedup p o = Some p1 -> stored p1 = Some l1 ->
  exists l, stored p = Some l /\ l1 = l ++ offered [o].
Proof.
  intros St I1. destruct p as [g|e|r]; destruct o as [x|xs|sp t|d h n|]; cbn [step] in St;
    try (injection St as <-; cbn in I1; discriminate).
  - injection St as <-. cbn [stored r_add r_add_all r_phase] in *.
    destruct (r_phase r); try discriminate; injection I1 as <-; eexists; split; reflexivity.
  - injection St as <-. cbn [stored r_add_all r_phase] in *.
    destruct (r_phase r); try discriminate; injection I1 as <-; (eexists; split; [reflexivity|]);
      cbn [offered]; rewrite app_nil_r; reflexivity.
  - destruct (r_on_generation r sp t) as [r'|] eqn:G; cbn in St; [|discriminate]. injection St as <-.
    unfold r_on_generation in G. cbn [stored] in *.
    destruct (r_phase r) as [sols|sel net|sel];
      repeat match type of G with context [if ?c then _ else _] => destruct c end;
      try discriminate; injection G as <-; cbn [r_phase] in I1; try discriminate;
      injection I1 as <-; (eexists; split; [reflexivity|]); cbn; rewrite app_nil_r; reflexivity.
  - injection St as <-. eexists; split; [exact I1|]. cbn. rewrite app_nil_r. reflexivity.
  - injection St as <-. eexists; split; [exact I1|]. cbn. rewrite app_nil_r. reflexivity.
Qed.
Lemma stored_run ops : forall p p' l', run cmp dedup ops p = Some p' -> stored p' = Some l' ->
  exists l, stored p = Some l /\ l' = l ++ offered ops.
Proof.
  induction ops as [|o ops IH]; intros p p' l' R I'; cbn [run] in R.
  - injection R as <-. exists l'. split; [auto|]. cbn. rewrite app_nil_r. reflexivity.
  - destruct (step cmp dedup p o) as [p1|] eqn:St; [|discriminate].
    destruct (IH _ _ _ R I') as (l1 & I1 & ->).
    destruct (stored_step _ _ _ _ St I1) as (l & I0 & ->).
    exists l. split; [auto|]. rewrite (offered_cons o ops), app_assoc. reflexivity.
Qed.
Lemma stored_is_offered p0 ops p l : start_state p0 -> run cmp dedup ops p0 = Some p -> stored p = Some l -> l = offered ops.
Proof.
  intros S R I'. destruct (stored_run ops p0 p l R I') as (s0 & I0 & ->).
  assert (s0 = []); [|subst s0; reflexivity].
  destruct S as [(sel & best & ->)|[(max & sel & H)|(c & H)]]; [discriminate| |].
  - unfold elitism_new in H. destruct (max <? 1)%nat; [discriminate|]. injection H as <-. discriminate.
  - unfold rosomaxa_new, r_new in H. destruct (_ || _); cbn in H; [discriminate|]. injection H as <-.
    cbn in I0. injection I0 as <-. reflexivity.
Qed.
End Depth3.

(* ================= the ranking depends on the offering operations only ================= *)
Section Depth4.
Context {ind : Type}.
Variable cmp : ind -> ind -> comparison.
Variable dedup : ind -> ind -> bool.

(* same kind of population, same ranked content, same capacity (selection size, stored speed, phase, network bag may differ) *)
Definition sim (p q : pop ind) : Prop :=
  match p, q with
  | PG g, PG g' => g_best g = g_best g'
  | PE e, PE e' => e_inds e = e_inds e' /\ e_max e = e_max e'
  | PR r, PR r' => e_inds (r_elite r) = e_inds (r_elite r') /\ e_max (r_elite r) = e_max (r_elite r')
  | _, _ => False
  end.

Lemma sim_refl p : sim p p.
Proof. destruct p; cbn; auto. Qed.
Lemma sim_sym p q : sim p q -> sim q p.
Proof. destruct p, q; cbn; try tauto; intuition congruence. Qed.
Lemma sim_trans p q r : sim p q -> sim q r -> sim p r.
Proof. destruct p, q, r; cbn; try tauto; intuition congruence. Qed.
Lemma sim_ranked p q : sim p q -> ranked p = ranked q.
Proof. destruct p, q; cbn; try tauto; unfold g_ranked, r_ranked; intros H; try (rewrite H; reflexivity); tauto. Qed.

Lemma sim_step_silent p o p' : step cmp dedup p o = Some p' -> is_offer o = false -> sim p p'.
Proof.
  intros H Ho. destruct o as [x|xs|sp t|d h n|]; try discriminate; destruct p as [g|e|r]; cbn [step] in H;
    try (injection H as <-; apply sim_refl).
  - injection H as <-. cbn. auto.
  - destruct (r_on_generation r sp t) as [r'|] eqn:G; cbn in H; [|discriminate]. injection H as <-.
    unfold r_on_generation in G. cbn.
    destruct (r_phase r); repeat match type of G with context [if ?c then _ else _] => destruct c end;
      try discriminate; injection G as <-; cbn; auto.
Qed.

Lemma g_fold_best xs : forall a a' : bool * greedy ind, g_best (snd a) = g_best (snd a') ->
  g_best (snd (fold_left (fun (a : bool * greedy ind) x => let r := g_add cmp (snd a) x in (fst r || fst a, snd r)) xs a)) =
  g_best (snd (fold_left (fun (a : bool * greedy ind) x => let r := g_add cmp (snd a) x in (fst r || fst a, snd r)) xs a')).
Proof.
  induction xs as [|x xs IH]; intros a a' H; cbn [fold_left]; [exact H|]. apply IH. cbn [snd].
  unfold g_add. rewrite H. destruct (g_best (snd a')) as [b|] eqn:E; [destruct (is_gt (cmp b x)); cbn [snd g_best]; congruence|reflexivity].
Qed.

Lemma sim_step_offer p q o p' q' :
  sim p q -> step cmp dedup p o = Some p' -> step cmp dedup q o = Some q' -> is_offer o = true -> sim p' q'.
Proof.
  intros S Hp Hq Ho. destruct o as [x|xs|sp t|d h n|]; try discriminate;
    destruct p as [g|e|r], q as [g'|e'|r']; cbn [sim] in S; try contradiction; cbn [step] in Hp, Hq;
    injection Hp as <-; injection Hq as <-; cbn [sim].
  - unfold g_add. rewrite S. destruct (g_best g') as [b|] eqn:E; [destruct (is_gt (cmp b x)); cbn [snd g_best]; congruence|reflexivity].
  - destruct S as [S1 S2]. unfold e_add, e_add_with_iter. cbn [e_inds e_max e_with]. rewrite S1, S2. auto.
  - destruct S as [S1 S2]. unfold r_add, r_add_all. cbn [r_elite]. rewrite S1. unfold e_add_all.
    destruct (filter (is_comparable cmp (hd_error (e_inds (r_elite r')))) [x]); [cbn; auto|].
    unfold e_add_with_iter. cbn [e_inds e_max e_with]. rewrite S1, S2. auto.
  - unfold g_add_all. apply g_fold_best. exact S.
  - destruct S as [S1 S2]. unfold e_add_all. destruct xs; [cbn; auto|]. unfold e_add_with_iter. cbn [e_inds e_max e_with]. rewrite S1, S2. auto.
  - destruct S as [S1 S2]. unfold r_add_all. cbn [r_elite]. rewrite S1. unfold e_add_all.
    destruct (filter (is_comparable cmp (hd_error (e_inds (r_elite r')))) xs); [cbn; auto|].
    unfold e_add_with_iter. cbn [e_inds e_max e_with]. rewrite S1, S2. auto.
Qed.

Lemma silent_run ops : forall p p', offers ops = [] -> run cmp dedup ops p = Some p' -> sim p p'.
Proof.
  induction ops as [|o ops IH]; intros p p' Ho R; cbn [run] in R; [injection R as <-; apply sim_refl|].
  destruct (step cmp dedup p o) as [p1|] eqn:S; [|discriminate]. unfold offers in Ho. cbn [filter] in Ho.
  destruct (is_offer o) eqn:E; [discriminate|]. eapply sim_trans; [eapply sim_step_silent; eauto|]. apply IH; auto.
Qed.

Lemma offers_sim ops1 : forall ops2 p q p' q',
  sim p q -> offers ops1 = offers ops2 -> run cmp dedup ops1 p = Some p' -> run cmp dedup ops2 q = Some q' -> sim p' q'.
Proof.
  induction ops1 as [|o ops1 IH]; intros ops2 p q p' q' S Ho R1 R2.
  - cbn in R1. injection R1 as <-. eapply sim_trans; [exact S|]. eapply silent_run; eauto.
  - cbn [run] in R1. destruct (step cmp dedup p o) as [p1|] eqn:S1; [|discriminate].
    unfold offers in Ho. cbn [filter] in Ho. destruct (is_offer o) eqn:E.
    + (* an offer: skip the silent prefix of the other history *)
      revert q q' S R2 Ho. induction ops2 as [|o2 ops2 IH2]; intros q q' S R2 Ho; [discriminate|].
      cbn [run] in R2. destruct (step cmp dedup q o2) as [q1|] eqn:S2; [|discriminate].
      cbn [filter] in Ho. destruct (is_offer o2) eqn:E2.
      * injection Ho as <- Ho. eapply IH; [|exact Ho|exact R1|exact R2]. eapply sim_step_offer; eauto.
      * eapply IH2; [|exact R2|exact Ho]. eapply sim_trans; [exact S|]. eapply sim_step_silent; eauto.
    + eapply IH; [|exact Ho|exact R1|exact R2]. eapply sim_trans; [|exact S]. apply sim_sym. eapply sim_step_silent; eauto.
Qed.

(* two histories from the same population with the same offering operations end with the same ranking, whatever generation ticks
   (statistics) and selections (random draws, network answers) are interleaved, and wherever *)
Lemma ranked_depends_on_offers ops1 ops2 p0 p1 p2 :
  offers ops1 = offers ops2 -> run cmp dedup ops1 p0 = Some p1 -> run cmp dedup ops2 p0 = Some p2 -> ranked p1 = ranked p2.
Proof. intros Ho R1 R2. apply sim_ranked. eapply offers_sim; eauto. apply sim_refl. Qed.

End Depth4.

(* ================= the bool returned by add / add_all ================= *)
Section Depth5.
Context {ind : Type}.
Variable cmp : ind -> ind -> comparison.
Variable dedup : ind -> ind -> bool.
Variable fit_differs : ind -> ind -> bool.
Hypothesis TP : total_preorder cmp.
(* the order is a function of the fitness: individuals whose fitness vectors agree are equal in the order *)
Hypothesis FD : forall a b, fit_differs a b = false -> cmp a b = Eq.

Lemma cmp_refl_eq x : cmp x x = Eq.
Proof. destruct TP as [AS _]. specialize (AS x x). destruct (cmp x x); cbn in AS; congruence. Qed.

Lemma step_ret_some p o : (exists b, step_ret cmp dedup fit_differs p o = Some b) <-> is_offer o = true.
Proof. destruct o, p; cbn; split; intros H; try discriminate; try (destruct H; discriminate); try reflexivity; eexists; reflexivity. Qed.

Lemma e_add_all_ret_false (e : elitism ind) ys : e_add_all_ret cmp dedup fit_differs e ys = false ->
  hd_error (e_inds (e_add_all cmp dedup e ys)) = hd_error (e_inds e) \/
  exists b b', hd_error (e_inds e) = Some b /\ hd_error (e_inds (e_add_all cmp dedup e ys)) = Some b' /\ fit_differs b b' = false.
Proof.
  destruct ys as [|y ys]; [left; reflexivity|]. cbn [e_add_all_ret e_add_all]. unfold e_add_ret, e_is_improved.
  destruct (hd_error (e_inds e)) as [b|]; [|discriminate].
  destruct (hd_error (e_inds (e_add_with_iter cmp dedup e (y :: ys)))) as [b'|]; [|discriminate].
  intros H. right. exists b, b'. auto.
Qed.

Lemma g_fold_ret_false xs : forall a : bool * greedy ind,
  fst (fold_left (fun (a : bool * greedy ind) x => let r := g_add cmp (snd a) x in (fst r || fst a, snd r)) xs a) = false ->
  snd (fold_left (fun (a : bool * greedy ind) x => let r := g_add cmp (snd a) x in (fst r || fst a, snd r)) xs a) = snd a.
Proof.
  induction xs as [|x xs IH]; intros a H; cbn [fold_left] in *; [reflexivity|].
  assert (K : forall a0 : bool * greedy ind, fst a0 = true ->
     fst (fold_left (fun (a : bool * greedy ind) x => let r := g_add cmp (snd a) x in (fst r || fst a, snd r)) xs a0) = true).
  { clear. induction xs as [|x xs IH]; intros a0 H; cbn [fold_left]; [exact H|]. apply IH. cbn [fst]. rewrite H. apply orb_true_r. }
  rewrite (IH _ H). cbn [snd]. unfold g_add. destruct (g_best (snd a)) as [b|] eqn:B.
  - destruct (is_gt (cmp b x)) eqn:G; [|reflexivity]. exfalso.
    rewrite K in H; [discriminate|]. cbn [fst snd]. unfold g_add. rewrite B, G. reflexivity.
  - exfalso. rewrite K in H; [discriminate|]. cbn [fst snd]. unfold g_add. rewrite B. reflexivity.
Qed.

(* an offering operation that returns false left the first ranked individual as it was, or replaced it by one of the same fitness *)
Lemma step_ret_false p o p' : step cmp dedup p o = Some p' -> step_ret cmp dedup fit_differs p o = Some false ->
  hd_error (ranked p') = hd_error (ranked p) \/
  exists b b', hd_error (ranked p) = Some b /\ hd_error (ranked p') = Some b' /\ fit_differs b b' = false.
Proof.
  intros S R. destruct o as [x|xs|sp t|d h n|]; try discriminate; destruct p as [g|e|r]; cbn [step] in S; injection S as <-;
    cbn [step_ret] in R; injection R as R; cbn [ranked].
  - left. unfold g_add in *. destruct (g_best g) as [b|]; [destruct (is_gt (cmp b x)); [discriminate|reflexivity]|discriminate].
  - apply (e_add_all_ret_false e [x] R).
  - unfold r_ranked, r_add, r_add_all. cbn [r_elite]. apply e_add_all_ret_false. exact R.
  - left. unfold g_add_all in *. rewrite g_fold_ret_false by exact R. reflexivity.
  - apply (e_add_all_ret_false e xs R).
  - unfold r_ranked, r_add_all. cbn [r_elite]. apply e_add_all_ret_false. exact R.
Qed.

(* so: whenever an add / add_all makes the first ranked individual strictly better, or fills an empty population, it returns true *)
Lemma step_ret_true_on_improvement p o p' : step cmp dedup p o = Some p' -> is_offer o = true ->
  match hd_error (ranked p), hd_error (ranked p') with
  | Some b, Some b' => cmp b' b = Lt -> step_ret cmp dedup fit_differs p o = Some true
  | None, Some _ => step_ret cmp dedup fit_differs p o = Some true
  | _, _ => True
  end.
Proof.
  intros S Ho. destruct (proj2 (step_ret_some p o) Ho) as [[|] R]; rewrite R.
  - destruct (hd_error (ranked p)), (hd_error (ranked p')); auto.
  - destruct (step_ret_false p o p' S R) as [H|(b & b' & H1 & H2 & H3)].
    + rewrite H. destruct (hd_error (ranked p)) as [b|]; [|exact I]. intros C. rewrite cmp_refl_eq in C. discriminate.
    + rewrite H1, H2. intros C. apply FD in H3. destruct TP as [AS _]. rewrite AS, H3 in C. discriminate.
Qed.

End Depth5.

Lemma zfit_differs_order two a b : zfit_differs two a b = false -> zcmp a b = Eq.
Proof. unfold zfit_differs, zcmp. intros H. apply orb_false_iff in H. destruct H as [H _]. apply Z.compare_eq_iff. lia. Qed.
