(* C01/C04: removing a job's activity keeps a tour feasible when travel times satisfy the triangle inequality. *)
From VRP Require Import Base.Tac Model.Core Spec.Feasible Proofs.CoreTimeP Proofs.CoreCapP Proofs.CoreEvalP Proofs.CoreMultiP.

Definition remove_at (t : list act) (idx : nat) : list act := firstn idx t ++ skipn (S idx) t.

Section R.
Variable dur : Z -> Z -> Z.
Hypothesis dur_triangle : forall a b c, dur a c <= dur a b + dur b c.

(* reaching the same tail earlier (by arrival at its head) keeps it feasible *)
Lemma sim_time_earlier : forall r a loc dep loc' dep',
  sim_time dur loc dep (a :: r) = true ->
  dep' + dur loc' (a_loc a) <= dep + dur loc (a_loc a) ->
  sim_time dur loc' dep' (a :: r) = true.
Proof.
  induction r as [|b r IH]; intros a loc dep loc' dep' H Hle; cbn [sim_time] in *.
  - rewrite andb_true_r in *. lia.
  - apply andb_true_iff in H as [H1 H2]. apply andb_true_iff. split; [lia|].
    apply (IH b (a_loc a) (Z.max (dep + dur loc (a_loc a)) (a_tws a) + a_svc a)); [exact H2|lia].
Qed.

Lemma sim_time_drop_head : forall x B loc dep,
  0 <= a_svc x ->
  sim_time dur loc dep (x :: B) = true -> sim_time dur loc dep B = true.
Proof.
  intros x B loc dep Hs H. destruct B as [|n r]; [reflexivity|].
  cbn [sim_time] in H. apply andb_true_iff in H as [_ H].
  apply (sim_time_earlier r n (a_loc x) (Z.max (dep + dur loc (a_loc x)) (a_tws x) + a_svc x)); [exact H|].
  pose proof (dur_triangle loc (a_loc x) (a_loc n)). lia.
Qed.

Lemma time_feasible_remove : forall A p x B,
  0 <= a_svc x ->
  sched_ok dur (A ++ p :: x :: B) ->
  time_feasible dur (A ++ p :: x :: B) = true ->
  time_feasible dur (A ++ p :: B) = true.
Proof.
  intros A p x B Hsv Hs Hf. destruct A as [|s A']; cbn [app time_feasible sched_ok] in *.
  - apply (sim_time_drop_head x); assumption.
  - assert (Hs' : sched_ok_from dur (a_loc s) (a_dep s) (A' ++ [p])).
    { apply (sched_ok_from_app dur _ (x :: B)). rewrite <- app_assoc. exact Hs. }
    rewrite (sim_split dur A' p (x :: B) _ _ Hs') in Hf. rewrite (sim_split dur A' p B _ _ Hs').
    apply andb_true_iff in Hf as [Hf1 Hf2]. rewrite Hf1. cbn [andb]. apply (sim_time_drop_head x); assumption.
Qed.
End R.

(* loads: removing an activity with static demand never raises any load *)
Lemma load_feasible_remove : forall cap A p x B,
  0 <= d_ps (a_dem x) -> 0 <= d_ds (a_dem x) -> d_pd (a_dem x) = 0 -> d_dd (a_dem x) = 0 ->
  load_feasible cap (A ++ p :: x :: B) = true -> load_feasible cap (A ++ p :: B) = true.
Proof.
  intros cap A p x B H1 H2 H3 H4 Hf.
  pose (v := mkVeh 0 cap 0 0 0 0 0).
  change (load_feasible (v_cap v) (A ++ p :: x :: B) = true) in Hf.
  change (load_feasible (v_cap v) (A ++ p :: B) = true).
  apply (load_feasible_split v) in Hf as [Hf0 Hf]. apply (load_feasible_split v).
  rewrite (cur_after_insert A p B x) in Hf. rewrite (cur_split A p B).
  assert (Hsum : start_delivery (A ++ p :: x :: B) = start_delivery (A ++ p :: B) + d_ds (a_dem x)).
  { rewrite !start_delivery_eq.
    replace (A ++ p :: x :: B) with ((A ++ [p]) ++ x :: B) by (rewrite <- app_assoc; reflexivity).
    replace (A ++ p :: B) with ((A ++ [p]) ++ B) by (rewrite <- app_assoc; reflexivity).
    rewrite !total_static_delivery_app. cbn. unfold total_static_delivery. lia. }
  rewrite Hsum in Hf0. split; [lia|].
  apply Forall_app in Hf as [HfA HfB]. apply Forall_cons_iff in HfB as [_ HfB].
  apply (proj1 (Forall_map_iff (fun z => z + d_ds (a_dem x)) (fun c => c <= v_cap v) _)) in HfA.
  apply (proj1 (Forall_map_iff (fun z => z + (d_ds (a_dem x) + d_change (a_dem x))) (fun c => c <= v_cap v) _)) in HfB.
  unfold d_change in HfB. apply Forall_app. split.
  - eapply Forall_impl; [|exact HfA]. cbn. intros; lia.
  - eapply Forall_impl; [|exact HfB]. cbn. intros; lia.
Qed.

Theorem removal_feasible_metric : forall dur v t idx,
  (forall a b c, dur a c <= dur a b + dur b c) ->
  (0 < idx < length t)%nat ->
  sched_ok dur t ->
  (let x := nth idx t (mkAct 0 0 0 0 0 dzero 0 0) in
   0 <= a_svc x /\ 0 <= d_ps (a_dem x) /\ 0 <= d_ds (a_dem x) /\ d_pd (a_dem x) = 0 /\ d_dd (a_dem x) = 0) ->
  feasible dur v t = true ->
  feasible dur v (remove_at t idx) = true.
Proof.
  intros dur v t idx Htri Hidx Hs Hx Hf.
  set (d0 := mkAct 0 0 0 0 0 dzero 0 0) in *.
  destruct idx as [|k]; [lia|].
  assert (Hk : (k < length t)%nat) by lia.
  destruct (split_at t k d0 Hk) as [Et Hl].
  set (A := firstn k t) in *. set (p := nth k t d0) in *. set (B0 := skipn (S k) t) in *.
  assert (HB0 : exists x B, B0 = x :: B /\ x = nth (S k) t d0 /\ B = skipn (S (S k)) t).
  { destruct (split_at t (S k) d0 ltac:(lia)) as [Et2 _].
    exists (nth (S k) t d0), (skipn (S (S k)) t). split; [|split; reflexivity].
    unfold B0. rewrite Et2 at 1.
    rewrite skipn_app. rewrite firstn_length. replace (S k - Nat.min (S k) (length t))%nat with 0%nat by lia.
    rewrite skipn_all2 by (rewrite firstn_length; lia). reflexivity. }
  destruct HB0 as (x & B & EB & Ex & EBB).
  assert (Er : remove_at t (S k) = A ++ p :: B).
  { unfold remove_at. rewrite <- EBB.
    assert (E1 : firstn (S k) t = A ++ [p]).
    { rewrite Et at 1. rewrite firstn_app. rewrite Hl. replace (S k - k)%nat with 1%nat by lia.
      rewrite firstn_all2 by (fold A; lia). cbn. reflexivity. }
    rewrite E1, <- app_assoc. reflexivity. }
  rewrite Er. rewrite EB in Et. cbn zeta in Hx. rewrite <- Ex in Hx. destruct Hx as (Hx1 & Hx2 & Hx3 & Hx4 & Hx5).
  unfold feasible in *. apply andb_true_iff in Hf as [Hft Hfl]. rewrite Et in Hs, Hft, Hfl.
  apply andb_true_iff. split.
  - apply (time_feasible_remove dur Htri A p x B); assumption.
  - apply (load_feasible_remove (v_cap v) A p x B); assumption.
Qed.

(* without the triangle inequality removal can make a later activity late (probe observation 5 of DESIGN.md) *)
Theorem removal_nonmetric_refuted :
  exists (dur : Z -> Z -> Z) v t idx,
    sched_ok dur t /\ feasible dur v t = true /\ (0 < idx < length t)%nat /\ feasible dur v (remove_at t idx) = false.
Proof.
  (* cheap chain 0 -> 1 -> 2, expensive direct leg 0 -> 2 *)
  set (dur := fun a b : Z => if (a =? 0) && (b =? 2) then 1000 else if a =? b then 0 else 1).
  exists dur, (mkVeh INF 10 0 0 0 0 0),
    (reschedule dur [mkAct (-1) 0 0 0 0 dzero 0 0; mkAct 1 1 0 0 100 dzero 0 0; mkAct 2 2 0 0 100 dzero 0 0]), 1%nat.
  split; [apply sched_ok_reschedule|]. vm_compute. repeat split; try reflexivity; lia.
Qed.

(* ---------- histories of accepted insertions and removals on one tour ---------- *)
Section H.
Variable dur : Z -> Z -> Z.
Variable v : vehicle.

Definition removable (x : act) : Prop :=
  0 <= a_svc x /\ 0 <= d_ps (a_dem x) /\ 0 <= d_ds (a_dem x) /\ d_pd (a_dem x) = 0 /\ d_dd (a_dem x) = 0.

(* one modelled search/construction step on a tour: an insertion the evaluator accepts, or the removal of a job activity *)
Inductive tour_step : list act -> list act -> Prop :=
| ts_insert : forall t idx x, (idx < length t)%nat -> simple_demand (a_dem x) ->
    eval_activity dur v t idx x = None -> tour_step t (reschedule dur (insert_after t idx x))
| ts_remove : forall t idx, (0 < idx < length t)%nat -> removable (nth idx t (mkAct 0 0 0 0 0 dzero 0 0)) ->
    tour_step t (reschedule dur (remove_at t idx)).

Inductive tour_history : list act -> list act -> Prop :=
| th_nil : forall t, tour_history t t
| th_cons : forall t t' t'', tour_step t t' -> tour_history t' t'' -> tour_history t t''.

Definition good (t : list act) : Prop :=
  t <> [] /\ sched_ok dur t /\ (forall d, d_change (a_dem (hd d t)) = 0) /\ feasible dur v t = true.

Lemma hd_remove_at : forall t idx d, (0 < idx)%nat -> hd d (remove_at t idx) = hd d t.
Proof. intros [|s r] [|k] d H; try lia; reflexivity. Qed.

Lemma remove_at_nonempty : forall t idx, (0 < idx)%nat -> t <> [] -> remove_at t idx <> [].
Proof. intros [|s r] [|k] H Hn; try lia; try congruence. cbn. discriminate. Qed.

Lemma reschedule_nonempty : forall t, t <> [] -> reschedule dur t <> [].
Proof. intros [|s r] H; [congruence|]. cbn. discriminate. Qed.

Lemma step_good : (forall a b c, dur a c <= dur a b + dur b c) -> forall t t', tour_step t t' -> good t -> good t'.
Proof.
  intros Htri t t' Hstep (Hne & Hs & Hh & Hf). destruct Hstep as [t idx x Hidx Hd He|t idx Hidx Hr].
  - repeat split.
    + apply reschedule_nonempty. destruct t; [congruence|]. cbn. discriminate.
    + apply sched_ok_reschedule.
    + intros d. rewrite hd_reschedule, hd_insert_after by assumption. apply Hh.
    + rewrite feasible_resched. apply eval_activity_sound; try assumption. apply Hh.
  - repeat split.
    + apply reschedule_nonempty. apply remove_at_nonempty; [lia|assumption].
    + apply sched_ok_reschedule.
    + intros d. rewrite hd_reschedule, hd_remove_at by lia. apply Hh.
    + rewrite feasible_resched. apply removal_feasible_metric; assumption.
Qed.

Theorem history_good : (forall a b c, dur a c <= dur a b + dur b c) -> forall t t', tour_history t t' -> good t -> good t'.
Proof. intros Htri t t' H. induction H as [|t t' t'' Hs _ IH]; intros Hg; [exact Hg|]. apply IH. apply (step_good Htri t t'); assumption. Qed.

(* insertions alone never need the triangle inequality *)
Inductive ins_history : list act -> list act -> Prop :=
| ih_nil : forall t, ins_history t t
| ih_cons : forall t idx x t'', (idx < length t)%nat -> simple_demand (a_dem x) -> eval_activity dur v t idx x = None ->
    ins_history (reschedule dur (insert_after t idx x)) t'' -> ins_history t t''.

Theorem construction_good : forall t t', ins_history t t' -> good t -> good t'.
Proof.
  intros t t' H. induction H as [|t idx x t'' Hidx Hd He _ IH]; intros Hg; [exact Hg|]. apply IH.
  destruct Hg as (Hne & Hs & Hh & Hf). repeat split.
  - apply reschedule_nonempty. destruct t; [congruence|]. cbn. discriminate.
  - apply sched_ok_reschedule.
  - intros d. rewrite hd_reschedule, hd_insert_after by assumption. apply Hh.
  - rewrite feasible_resched. apply eval_activity_sound; try assumption. apply Hh.
Qed.
End H.
