(* C18 — the remaining termination criteria (Model/Termination2.v): when MinVariation with a period interval fires and which
   window it looks at, what the compaction keeps, TargetProximity "fires exactly when the relative distance is below the
   threshold" (with the real square root), Noise. *)
From Coq Require Import QArith Qabs Qminmax Lqa Sorting.Sorted Permutation.
From VRP Require Import Base.Tac Model.Termination Model.Termination2 Proofs.TerminationP.
Local Open Scope Z_scope.

Section WindowP.
  Context {F : Type}.
  Variable check : list (list F) -> bool.
  Notation entry := (@entry F).

  Definition inside (earliest : Z) (e : entry) : bool := earliest <=? fst e.

  (* ---------- when it fires ---------- *)
  Definition mvp_values (st : list entry) (elapsed : Z) (perm : list nat) (f : list F) : list entry :=
    mvp_compact perm (st ++ [(elapsed, f)]).
  Definition mvp_window (period : Z) (st : list entry) (elapsed : Z) (perm : list nat) (f : list F) : list entry :=
    let values := mvp_values st elapsed perm f in skipn (drain_count values (elapsed - period)) values.

  Lemma mvp_fires_iff period st elapsed perm f :
    snd (mvp_update_and_check check period st elapsed perm f) = true <->
    period <= elapsed /\ (2 <= length (mvp_values st elapsed perm f))%nat /\
    check (map snd (mvp_window period st elapsed perm f)) = true.
  Proof.
    unfold mvp_update_and_check, mvp_window, mvp_values. set (values := mvp_compact perm (st ++ [(elapsed, f)])).
    destruct (elapsed <? period) eqn:E1; cbn [orb].
    - cbn [snd]. split; [discriminate | intros (H & _); lia].
    - destruct (Nat.ltb (length values) 2) eqn:E2; cbn [snd].
      + apply Nat.ltb_lt in E2. split; [discriminate | intros (_ & H & _); lia].
      + apply Nat.ltb_ge in E2. split; [intros H; repeat split; try lia; exact H | intros (_ & _ & H); exact H].
  Qed.

  Lemma mvp_state_after period st elapsed perm f :
    fst (mvp_update_and_check check period st elapsed perm f) =
    if (elapsed <? period) || Nat.ltb (length (mvp_values st elapsed perm f)) 2 then mvp_values st elapsed perm f
    else mvp_window period st elapsed perm f.
  Proof.
    unfold mvp_update_and_check, mvp_window, mvp_values.
    destruct ((elapsed <? period) || Nat.ltb (length (mvp_compact perm (st ++ [(elapsed, f)]))) 2); reflexivity.
  Qed.

  Lemma mvp_is_termination_iff period glob st elapsed perm ph best :
    snd (mvp_is_termination check period glob st elapsed perm ph best) = true <->
    exists f, best = Some f /\ (glob = true \/ ph = 2%nat) /\ snd (mvp_update_and_check check period st elapsed perm f) = true.
  Proof.
    unfold mvp_is_termination. destruct best as [f|]; cbn [snd].
    - destruct (mvp_update_and_check check period st elapsed perm f) as [values result] eqn:E. cbn [snd].
      split.
      + intros H. exists f. split; [reflexivity|]. rewrite E. cbn [snd]. destruct glob; [split; [left; reflexivity | exact H]|].
        destruct (Nat.eqb ph 2) eqn:Ep; [|discriminate]. apply Nat.eqb_eq in Ep. split; [right; exact Ep | exact H].
      + intros (f' & [= <-] & Hg & H). rewrite E in H. cbn [snd] in H. destruct glob; [exact H|].
        destruct Hg as [Hg|Hg]; [discriminate|]. subst ph. exact H.
    - split; [discriminate | intros (f & H & _); discriminate].
  Qed.

  (* without a best solution the state is not touched (no clock read either) *)
  Lemma mvp_is_termination_none period glob st elapsed perm ph :
    mvp_is_termination check period glob st elapsed perm ph None = (st, false).
  Proof. reflexivity. Qed.

  (* ---------- which entries the window keeps ---------- *)
  Lemma position_go_spec : forall (l : list entry) earliest i,
    match position_go l earliest i with
    | Some p => exists pre x post, l = pre ++ x :: post /\ p = (i + length pre)%nat /\ forallb (inside earliest) pre = true /\ inside earliest x = false
    | None => forallb (inside earliest) l = true
    end.
  Proof.
    induction l as [|[t f] r IH]; intros earliest i; cbn [position_go]; [reflexivity|].
    destruct (t <? earliest) eqn:E.
    - exists [], (t, f), r. cbn. repeat split; try lia. unfold inside. cbn. lia.
    - specialize (IH earliest (S i)). destruct (position_go r earliest (S i)) as [p|].
      + destruct IH as (pre & x & post & -> & -> & Hpre & Hx). exists ((t, f) :: pre), x, post. cbn [app length forallb].
        repeat split; try lia; try assumption. unfold inside at 1. cbn [fst]. rewrite Hpre.
        assert ((earliest <=? t) = true) by lia. rewrite H. reflexivity.
      + cbn [forallb]. rewrite IH. unfold inside. cbn [fst]. assert ((earliest <=? t) = true) by lia. rewrite H. reflexivity.
  Qed.

  (* rposition = Some p: the last p entries are inside the period, the one before them is not *)
  Lemma rposition_spec (l : list entry) earliest :
    match rposition l earliest with
    | Some p => exists pre x w, l = pre ++ x :: w /\ length w = p /\ forallb (inside earliest) w = true /\ inside earliest x = false
    | None => forallb (inside earliest) l = true
    end.
  Proof.
    unfold rposition. pose proof (position_go_spec (rev l) earliest 0) as H.
    destruct (position_go (rev l) earliest 0) as [p|].
    - destruct H as (pre & x & post & Hl & -> & Hpre & Hx). exists (rev post), x, (rev pre).
      apply (f_equal (@rev entry)) in Hl. rewrite rev_involutive, rev_app_distr in Hl. cbn [rev] in Hl. rewrite <- app_assoc in Hl.
      split; [exact Hl|]. split; [rewrite rev_length; reflexivity|]. split; [|exact Hx].
      rewrite forallb_forall in *. intros e He. apply Hpre. apply in_rev. exact He.
    - rewrite forallb_forall in *. intros e He. apply H. apply -> in_rev. exact He.
  Qed.

  Lemma skipn_app_exact {A} (a b : list A) : skipn (length a) (a ++ b) = b.
  Proof. induction a; cbn; auto. Qed.

  (* everything is inside the period: nothing is drained *)
  Lemma window_all_inside (l : list entry) earliest :
    rposition l earliest = None -> skipn (drain_count l earliest) l = l.
  Proof. intros H. unfold drain_count. rewrite H. reflexivity. Qed.

  (* at least two entries are inside the period: the window is exactly the maximal suffix of entries inside the period *)
  Lemma window_two_or_more (l : list entry) earliest p :
    rposition l earliest = Some p -> (2 <= p)%nat ->
    exists pre x w, l = pre ++ x :: w /\ skipn (drain_count l earliest) l = w /\ length w = p /\
      forallb (inside earliest) w = true /\ inside earliest x = false.
  Proof.
    intros H Hp. pose proof (rposition_spec l earliest) as S. rewrite H in S. destruct S as (pre & x & w & Hl & Hw & Hin & Hx).
    exists pre, x, w. split; [exact Hl|]. split; [|auto].
    unfold drain_count. rewrite H. assert (E : Nat.ltb p 2 = false) by (apply Nat.ltb_ge; lia). rewrite E. cbn [andb].
    subst l. rewrite app_length. cbn [length]. replace (length pre + S (length w) - p)%nat with (length (pre ++ [x])) by (rewrite app_length; cbn; lia).
    change (pre ++ x :: w) with (pre ++ [x] ++ w). rewrite app_assoc. apply skipn_app_exact.
  Qed.

  (* fewer than two entries are inside the period (only the newest one, when the clock is monotone):
     two entries are kept - except for a state of exactly three entries, where only the entries inside the period are kept *)
  Lemma window_keep_two (l : list entry) earliest p :
    rposition l earliest = Some p -> (p < 2)%nat ->
    skipn (drain_count l earliest) l =
      if Nat.ltb (length l) 3 then l else if Nat.ltb 3 (length l) then skipn (length l - 2) l else skipn (length l - p) l.
  Proof.
    intros H Hp. unfold drain_count. rewrite H. assert (E : Nat.ltb p 2 = true) by (apply Nat.ltb_lt; lia). rewrite E. cbn [andb].
    destruct (Nat.ltb (length l) 3); [reflexivity|]. destruct (Nat.ltb 3 (length l)); reflexivity.
  Qed.

  (* three entries, only the newest inside the period: the threshold test runs on a window of ONE entry *)
  Lemma window_three_entries_one_inside (a b c : entry) earliest :
    inside earliest c = true -> inside earliest b = false ->
    skipn (drain_count [a; b; c] earliest) [a; b; c] = [c].
  Proof.
    unfold inside. intros Hc Hb. unfold drain_count, rposition. cbn [rev app position_go length].
    destruct c as [tc fc], b as [tb fb]. cbn [fst] in *.
    assert (E1 : (tc <? earliest) = false) by lia. assert (E2 : (tb <? earliest) = true) by lia. rewrite E1, E2. reflexivity.
  Qed.

  (* with time stamps in non-decreasing order (monotone clock) the maximal suffix inside the period is the set of all entries inside it *)
  Definition time_le (a b : entry) : Prop := fst a <= fst b.

  Lemma window_sorted_filter (l : list entry) earliest p :
    StronglySorted time_le l -> rposition l earliest = Some p -> (2 <= p)%nat ->
    skipn (drain_count l earliest) l = filter (inside earliest) l.
  Proof.
    intros Hs H Hp. destruct (window_two_or_more l earliest p H Hp) as (pre & x & w & Hl & Hw & _ & Hin & Hx).
    rewrite Hw. subst l. rewrite filter_app. cbn [filter]. rewrite Hx.
    assert (Hpre : filter (inside earliest) pre = []).
    { clear Hw Hin H. induction pre as [|y pre IH]; [reflexivity|]. cbn [filter app] in *.
      inversion Hs as [|? ? Hs' Hall]; subst. rewrite Forall_forall in Hall.
      assert (Hy : time_le y x) by (apply Hall; apply in_or_app; right; left; reflexivity).
      unfold time_le in Hy. unfold inside in *. assert (E : (earliest <=? fst y) = false) by lia. rewrite E. apply IH. exact Hs'. }
    rewrite Hpre. cbn [app]. symmetry. clear - Hin. induction w as [|y w IH]; [reflexivity|]. cbn [forallb filter] in *.
    apply andb_true_iff in Hin. destruct Hin as [H1 H2]. rewrite H1. f_equal. apply IH. exact H2.
  Qed.

  (* ---------- compaction ---------- *)
  Lemma tinsert_in x (l : list entry) e : In e (tinsert x l) <-> e = x \/ In e l.
  Proof.
    induction l as [|y r IH]; cbn [tinsert]; [cbn; intuition|].
    destruct (fst x <? fst y); cbn [In]; [intuition|]. rewrite IH. intuition.
  Qed.

  Lemma tsort_in (l : list entry) e : In e (tsort l) <-> In e l.
  Proof.
    unfold tsort. assert (G : forall (l acc : list entry), In e (fold_left (fun acc x => tinsert x acc) l acc) <-> In e l \/ In e acc).
    { clear l. induction l as [|x l IH]; intros acc; cbn [fold_left In]; [intuition|]. rewrite IH, tinsert_in. intuition. }
    rewrite G. cbn. intuition.
  Qed.

  Lemma tinsert_length x (l : list entry) : length (tinsert x l) = S (length l).
  Proof. induction l as [|y r IH]; cbn [tinsert]; [reflexivity|]. destruct (fst x <? fst y); cbn [length]; [reflexivity | rewrite IH; reflexivity]. Qed.

  Lemma tsort_length (l : list entry) : length (tsort l) = length l.
  Proof.
    unfold tsort. assert (G : forall (l acc : list entry), length (fold_left (fun acc x => tinsert x acc) l acc) = (length l + length acc)%nat).
    { clear l. induction l as [|x l IH]; intros acc; cbn [fold_left length]; [reflexivity|]. rewrite IH, tinsert_length. lia. }
    rewrite G. cbn. lia.
  Qed.

  Lemma tinsert_sorted x (l : list entry) : StronglySorted time_le l -> StronglySorted time_le (tinsert x l).
  Proof.
    induction l as [|y r IH]; intros Hs; cbn [tinsert].
    - constructor; constructor.
    - inversion Hs as [|? ? Hs' Hall]; subst. destruct (fst x <? fst y) eqn:E.
      + constructor; [exact Hs|]. constructor; [unfold time_le; lia|]. eapply Forall_impl; [|exact Hall]. unfold time_le. intros; lia.
      + constructor; [apply IH; exact Hs'|]. apply Forall_forall. intros e He. apply tinsert_in in He. destruct He as [->|He].
        * unfold time_le. lia.
        * rewrite Forall_forall in Hall. apply Hall, He.
  Qed.

  Lemma tsort_sorted (l : list entry) : StronglySorted time_le (tsort l).
  Proof.
    unfold tsort. assert (G : forall (l acc : list entry), StronglySorted time_le acc -> StronglySorted time_le (fold_left (fun acc x => tinsert x acc) l acc)).
    { clear l. induction l as [|x l IH]; intros acc Hs; cbn [fold_left]; [exact Hs|]. apply IH, tinsert_sorted, Hs. }
    apply G. constructor.
  Qed.

  Lemma every10_in i (l : list entry) e : In e (every10 i l) -> In e l.
  Proof.
    revert i. induction l as [|x r IH]; intros i H; cbn [every10] in H; [exact H|].
    apply in_app_or in H. destruct H as [H|H]; [|right; eapply IH; exact H].
    destruct (Nat.eqb (Nat.modulo i 10) 0); [destruct H as [<-|[]]; left; reflexivity | destruct H].
  Qed.

  Lemma every10_length_gen : forall (l : list entry) i, length (every10 i l) = ((length l + (i + 9) mod 10) / 10)%nat.
  Proof.
    induction l as [|x r IH]; intros i; cbn [every10 length].
    - lia.
    - rewrite app_length, IH.
      destruct (Nat.eqb (i mod 10) 0) eqn:Em; [apply Nat.eqb_eq in Em | apply Nat.eqb_neq in Em]; cbn [length]; lia.
  Qed.

  Lemma every10_length (l : list entry) : length (every10 0 l) = ((length l + 9) / 10)%nat.
  Proof. rewrite every10_length_gen. reflexivity. Qed.

  Lemma apply_perm_in perm (l : list entry) e : In e (apply_perm perm l) -> In e l.
  Proof.
    unfold apply_perm. intros H. apply in_flat_map in H. destruct H as (i & _ & H).
    destruct (nth_error l i) eqn:E; [|destruct H]. destruct H as [<-|[]]. eapply nth_error_In, E.
  Qed.

  Lemma apply_perm_length perm (l : list entry) : Forall (fun i => (i < length l)%nat) perm -> length (apply_perm perm l) = length perm.
  Proof.
    unfold apply_perm. induction perm as [|i perm IH]; intros H; [reflexivity|]. inversion H as [|? ? Hi Hr]; subst.
    cbn [flat_map]. rewrite app_length, IH by exact Hr. destruct (nth_error l i) eqn:E; [reflexivity|].
    apply nth_error_None in E. lia.
  Qed.

  (* the compaction keeps only entries that were there, in time order; for a genuine shuffle it keeps every tenth of them *)
  Lemma mvp_compact_spec perm (values : list entry) : (1000 < length values)%nat ->
    let r := mvp_compact perm values in
    (forall e, In e r -> In e values) /\ StronglySorted time_le r /\
    (Permutation perm (seq 0 (length values)) -> length r = ((length values + 9) / 10)%nat).
  Proof.
    intros Hlen. unfold mvp_compact. assert (E : Nat.ltb 1000 (length values) = true) by (apply Nat.ltb_lt; exact Hlen). rewrite E.
    split; [|split].
    - intros e He. apply (proj1 (tsort_in _ _)) in He. apply every10_in in He. eapply apply_perm_in, He.
    - apply tsort_sorted.
    - intros Hp. rewrite tsort_length, every10_length.
      rewrite apply_perm_length.
      + apply Permutation_length in Hp. rewrite Hp, seq_length. reflexivity.
      + apply Forall_forall. intros i Hi. apply (Permutation_in _ Hp) in Hi. apply in_seq in Hi. lia.
  Qed.

  Lemma mvp_compact_small perm (values : list entry) : (length values <= 1000)%nat -> mvp_compact perm values = values.
  Proof. intros H. unfold mvp_compact. assert (E : Nat.ltb 1000 (length values) = false) by (apply Nat.ltb_ge; exact H). rewrite E. reflexivity. Qed.
End WindowP.

(* ---------------- TargetProximity ---------------- *)
Local Open Scope Q_scope.

Lemma rel_change_bounds a b : 0 <= rel_change a b <= 2.
Proof.
  unfold rel_change. destruct (Qeq_bool (Qmax (Qabs a) (Qabs b)) 0) eqn:E; [split; [apply Qle_refl | discriminate]|].
  apply Qeq_bool_neq in E.
  assert (Hm : 0 < Qmax (Qabs a) (Qabs b)).
  { pose proof (Qabs_nonneg a). pose proof (Q.le_max_l (Qabs a) (Qabs b)).
    destruct (Qlt_le_dec 0 (Qmax (Qabs a) (Qabs b))) as [H1|H1]; [exact H1|]. exfalso. apply E. apply Qle_antisym; [exact H1|].
    eapply Qle_trans; eassumption. }
  split.
  - apply Qle_shift_div_l; [exact Hm|]. rewrite Qmult_0_l. apply Qabs_nonneg.
  - apply Qle_shift_div_r; [exact Hm|].
    pose proof (Qabs_triangle a (- b)) as T. rewrite Qabs_opp in T.
    pose proof (Q.le_max_l (Qabs a) (Qabs b)). pose proof (Q.le_max_r (Qabs a) (Qabs b)).
    unfold Qminus. lra.
Qed.

Lemma rel_sumsq_fold l acc : 0 <= acc ->
  0 <= fold_left (fun acc p => acc + rel_change (fst p) (snd p) * rel_change (fst p) (snd p)) l acc.
Proof.
  revert acc. induction l as [|p l IH]; intros acc H; cbn [fold_left]; [exact H|]. apply IH.
  pose proof (rel_change_bounds (fst p) (snd p)) as [B1 B2]. nra.
Qed.

Lemma rel_sumsq_nonneg a b : 0 <= rel_sumsq a b.
Proof. unfold rel_sumsq. apply rel_sumsq_fold. apply Qle_refl. Qed.

Lemma sqrt_lt_spec s t : sqrt_lt s t = true <-> 0 < t /\ s < t * t.
Proof.
  unfold sqrt_lt. destruct (Qlt_le_dec 0 t) as [H|H].
  - destruct (Qlt_le_dec s (t * t)) as [H1|H1]; split; try tauto; try discriminate. intros [_ H2]. lra.
  - split; [discriminate | intros [H1 _]; lra].
Qed.

Lemma tp_is_termination_iff target thr best :
  tp_is_termination target thr best = true <->
  exists f, best = Some f /\ 0 < thr /\ rel_sumsq target f < thr * thr.
Proof.
  unfold tp_is_termination. destruct best as [f|].
  - rewrite sqrt_lt_spec. split; [intros H; exists f; split; [reflexivity | exact H] | intros (f' & [= <-] & H); exact H].
  - split; [discriminate | intros (f & H & _); discriminate].
Qed.

(* the same with the real square root: TargetProximity fires exactly when relative_distance(target, fitness) < threshold *)
From Coq Require Import Reals Qreals Lra.

Lemma sqrt_lt_real s t : 0 <= s -> (sqrt_lt s t = true <-> (sqrt (Q2R s) < Q2R t)%R).
Proof.
  intros Hs. rewrite sqrt_lt_spec. apply Qle_Rle in Hs. rewrite RMicromega.Q2R_0 in Hs.
  split.
  - intros [Ht Hlt]. apply Qlt_Rlt in Ht, Hlt. rewrite RMicromega.Q2R_0 in Ht. rewrite Q2R_mult in Hlt.
    rewrite <- (sqrt_square (Q2R t)) by lra. apply sqrt_lt_1_alt. lra.
  - intros H. pose proof (sqrt_pos (Q2R s)) as Hp.
    assert (Ht : (0 < Q2R t)%R) by lra. split.
    + apply Rlt_Qlt. rewrite RMicromega.Q2R_0. exact Ht.
    + apply Rlt_Qlt. rewrite Q2R_mult. rewrite <- (sqrt_square (Q2R t)) in H by lra.
      apply sqrt_lt_0_alt in H. exact H.
Qed.

Theorem tp_fires_iff_distance target thr f :
  tp_is_termination target thr (Some f) = true <-> (sqrt (Q2R (rel_sumsq target f)) < Q2R thr)%R.
Proof. unfold tp_is_termination. apply sqrt_lt_real. apply rel_sumsq_nonneg. Qed.

(* ---------------- Noise ---------------- *)
Lemma noise_no_hit add u value : noise_generate add false u value = value.
Proof. reflexivity. Qed.
Lemma noise_hit_zero add u value : value == 0 -> noise_generate add true u value = u.
Proof. intros H. unfold noise_generate. apply Qeq_bool_iff in H. rewrite H. reflexivity. Qed.
Lemma noise_hit_addition u value : ~ value == 0 -> noise_generate true true u value == value * (1 + u).
Proof.
  intros H. unfold noise_generate. destruct (Qeq_bool value 0) eqn:E; [apply Qeq_bool_iff in E; contradiction|]. ring.
Qed.
Lemma noise_hit_ratio u value : ~ value == 0 -> noise_generate false true u value == value * u.
Proof.
  intros H. unfold noise_generate. destruct (Qeq_bool value 0) eqn:E; [apply Qeq_bool_iff in E; contradiction|]. ring.
Qed.

(* ---------------- non-vacuity: concrete windows (period 1 s, threshold 1/16) ---------------- *)
Example period_examples :
  let chk := fun rows => check_threshold rows (1 # 16) in
  (* three entries, only the newest one inside the period: the window is that single entry and the criterion fires *)
  mvp_update_and_check chk 1000 [(0%Z, [9]); (600%Z, [7])] 1700 [] [9] = ([(1700%Z, [9])], true) /\
  (* four entries: the last two are kept; cv of {7, 9} is 1/8 > 1/16: it does not fire *)
  mvp_update_and_check chk 1000 [(0%Z, [9]); (100%Z, [9]); (600%Z, [7])] 1700 [] [9] = ([(600%Z, [7]); (1700%Z, [9])], false) /\
  (* two entries inside the period with equal values: fires *)
  mvp_update_and_check chk 1000 [(0%Z, [9]); (900%Z, [7])] 1700 [] [7] = ([(900%Z, [7]); (1700%Z, [7])], true) /\
  (* below the period: never *)
  snd (mvp_update_and_check chk 1000 [(0%Z, [9])] 999 [] [9]) = false.
Proof. cbv zeta. repeat split; vm_compute; reflexivity. Qed.

Example target_examples :
  tp_is_termination [1] (1 # 2) (Some [2]) = false /\ tp_is_termination [1] (33 # 64) (Some [2]) = true /\
  tp_is_termination [1] (1 # 2) None = false /\ rel_sumsq [1; 4] [2; 1] == 13 # 16.
Proof. repeat split; vm_compute; reflexivity. Qed.
