(* Proofs about Model/Lkh.v:
   - Tour::try_path returns only duplicate-free node sequences of the tour's length that start at the tour's first node
     and visit endpoints of the new edge set only; hence permutations of the tour when the joined edges stay
     inside the tour's nodes;
   - every path improve / optimize returns (for every hash-order oracle that only returns entries of the map) is a
     permutation of the input and starts at the input's first node;
   - the executable checker check_lkh decides the declarative contract. *)
From Coq Require Import Permutation.
From VRP Require Import Base.Tac Model.Lkh.
Local Open Scope nat_scope.

(* ------------------------------------------------------------------ edge sets *)
Lemma edge_eqb_eq a b : edge_eqb a b = true <-> a = b.
Proof.
  unfold edge_eqb. destruct a as [a1 a2], b as [b1 b2]. cbn [fst snd].
  rewrite andb_true_iff, !Nat.eqb_eq. split; [intros [-> ->]; reflexivity | intros E; inversion E; auto].
Qed.

Lemma emem_In e s : emem e s = true <-> In e s.
Proof.
  unfold emem. rewrite existsb_exists. split.
  - intros [x [Hx He]]. apply edge_eqb_eq in He. subst. exact Hx.
  - intros H. exists e. split; [exact H | apply edge_eqb_eq; reflexivity].
Qed.

Lemma eins_In e x s : In x (eins e s) <-> x = e \/ In x s.
Proof.
  induction s as [|y r IH]; cbn [eins].
  - cbn. intuition.
  - destruct (edge_eqb e y) eqn:E1.
    + apply edge_eqb_eq in E1. subst. cbn. intuition.
    + destruct (edge_ltb e y); cbn [In]; [intuition|]. rewrite IH. intuition.
Qed.

Lemma fold_eins_In (l : list edge) : forall s x, In x (fold_left (fun s e => eins e s) l s) <-> In x l \/ In x s.
Proof.
  induction l as [|e l IH]; intros s x; cbn [fold_left].
  - cbn. intuition.
  - rewrite IH, eins_In. cbn [In]. intuition.
Qed.

Lemma eset_of_In l x : In x (eset_of l) <-> In x l.
Proof. unfold eset_of. rewrite fold_eins_In. cbn. intuition. Qed.

Lemma eunion_In s j x : In x (eunion s j) <-> In x j \/ In x s.
Proof. unfold eunion. apply fold_eins_In. Qed.

Lemma ediff_In s b x : In x (ediff s b) -> In x s.
Proof. unfold ediff. intros H. apply filter_In in H. tauto. Qed.

Lemma eremove_In e s x : In x (eremove e s) -> In x s.
Proof. unfold eremove. intros H. apply filter_In in H. tauto. Qed.

Lemma mk_edge_ends i j : (fst (mk_edge i j) = i /\ snd (mk_edge i j) = j) \/ (fst (mk_edge i j) = j /\ snd (mk_edge i j) = i).
Proof. unfold mk_edge. destruct (i <? j); cbn; auto. Qed.

(* both endpoints of every edge of s lie in the node list p *)
Definition good_eset (p : list nat) (s : eset) : Prop := forall e, In e s -> In (fst e) p /\ In (snd e) p.

Lemma good_eins p a b s : In a p -> In b p -> good_eset p s -> good_eset p (eins (mk_edge a b) s).
Proof.
  intros Ha Hb Hs e He. apply -> eins_In in He. destruct He as [-> | He]; [|auto].
  destruct (mk_edge_ends a b) as [[-> ->] | [-> ->]]; auto.
Qed.

Lemma good_nil p : good_eset p [].
Proof. intros e []. Qed.

(* ------------------------------------------------------------------ Tour::new *)
Lemma windows2_In p : forall a b, In (a, b) (windows2 p) -> In a p /\ In b p.
Proof.
  induction p as [|x [|y r] IH]; intros a b H; cbn [windows2] in H; try destruct H.
  - inversion H; subst. cbn. auto.
  - destruct (IH a b H) as [A B]. split; right; assumption.
Qed.

Lemma last_In (p : list nat) d : p <> [] -> In (last p d) p.
Proof.
  induction p as [|x [|y r] IH]; intros H; [congruence | cbn; auto |].
  right. apply IH. discriminate.
Qed.

Lemma tour_edges_good p : good_eset p (tedges (tour_new p)).
Proof.
  intros e He. cbn [tour_new tedges] in He. apply -> eset_of_In in He. apply in_map_iff in He.
  destruct He as [[a b] [<- Hab]]. cbn [fst snd].
  assert (Hp : In a p /\ In b p).
  { apply in_app_or in Hab. destruct Hab as [Hab | Hab]; [apply windows2_In; exact Hab|].
    destruct p as [|x r]; [destruct Hab|]. cbn [closing] in Hab. destruct Hab as [Hab | []].
    assert (Ea : a = last (x :: r) x) by congruence. assert (Eb : b = x) by congruence. rewrite Ea, Eb.
    split; [apply last_In; discriminate | left; reflexivity]. }
  destruct Hp as [Ha Hb]. destruct (mk_edge_ends a b) as [[-> ->] | [-> ->]]; auto.
Qed.

Lemma index_of_In x p i : index_of x p = Some i -> In x p.
Proof.
  revert i. induction p as [|y r IH]; intros i H; cbn [index_of] in H; [discriminate|].
  destruct (y =? x) eqn:E; [apply Nat.eqb_eq in E; left; exact E|].
  destruct (index_of x r); [|discriminate]. right. eapply IH. reflexivity.
Qed.

Lemma index_of_lt x p i : index_of x p = Some i -> i < length p.
Proof.
  revert i. induction p as [|y r IH]; intros i H; cbn [index_of] in H; [discriminate|].
  destruct (y =? x); [inversion H; cbn; lia|].
  destruct (index_of x r) as [j|]; [|discriminate]. inversion H. specialize (IH j eq_refl). cbn. lia.
Qed.

Lemma around_In t node x : In x (around t node) -> In x (tpath t) /\ In node (tpath t).
Proof.
  unfold around. destruct (index_of node (tpath t)) as [i|] eqn:E; [|intros []].
  pose proof (index_of_lt _ _ _ E) as Hlt. pose proof (index_of_In _ _ _ E) as Hin.
  intros [<- | [<- | []]]; (split; [|exact Hin]); apply nth_In.
  - destruct (i =? 0); lia.
  - apply Nat.mod_upper_bound. lia.
Qed.

(* ------------------------------------------------------------------ walk / follow *)
Definition endp (E : eset) (x : nat) : Prop := exists e, In e E /\ (fst e = x \/ snd e = x).

Lemma upd_In k v m k' v' : In (k', v') (upd k v m) -> (k', v') = (k, v) \/ In (k', v') m.
Proof.
  induction m as [|[a b] r IH]; cbn [upd]; [intros [H | []]; auto|].
  destruct (a =? k); cbn [In]; intros [H | H]; auto. destruct (IH H); auto.
Qed.

Lemma lookup_In k m v : lookup k m = Some v -> In (k, v) m.
Proof.
  induction m as [|[a b] r IH]; cbn [lookup]; [discriminate|].
  destruct (a =? k) eqn:E; [apply Nat.eqb_eq in E; intros H; inversion H; subst; left; reflexivity|].
  intros H. right. auto.
Qed.

Lemma walk_endp E0 : forall fuel edges node succs,
  (forall e, In e edges -> In e E0) ->
  (forall k v, In (k, v) succs -> endp E0 k /\ endp E0 v) ->
  forall k v, In (k, v) (walk fuel edges node succs) -> endp E0 k /\ endp E0 v.
Proof.
  induction fuel as [|f IH]; intros edges node succs Hsub Hs k v H; cbn [walk] in H; [auto|].
  destruct (find (incident node) edges) as [e|] eqn:Ef; [|auto].
  apply find_some in Ef. destruct Ef as [He Hinc].
  revert H. apply IH.
  - intros x Hx. apply Hsub. eapply eremove_In; eauto.
  - intros k' v' H'. apply upd_In in H'. destruct H' as [H' | H']; [|auto]. inversion H'; subst.
    unfold incident in Hinc. apply orb_true_iff in Hinc.
    assert (HE : In e E0) by auto.
    destruct (fst e =? node) eqn:E1.
    + apply Nat.eqb_eq in E1. split; exists e; auto.
    + destruct Hinc as [Hinc | Hinc]; [congruence|]. apply Nat.eqb_eq in Hinc. split; exists e; auto.
Qed.

Lemma walk_first_key E : forall fuel node,
  walk fuel E node [] <> [] -> endp E node.
Proof.
  intros [|f] node H; cbn [walk] in H; [congruence|].
  destruct (find (incident node) E) as [e|] eqn:Ef; [|congruence].
  apply find_some in Ef. destruct Ef as [He Hinc]. unfold incident in Hinc. apply orb_true_iff in Hinc.
  exists e. split; [exact He|]. destruct Hinc as [Hi | Hi]; apply Nat.eqb_eq in Hi; auto.
Qed.

Lemma nmem_In x l : nmem x l = true <-> In x l.
Proof.
  unfold nmem. rewrite existsb_exists. split.
  - intros [y [Hy He]]. apply Nat.eqb_eq in He. subst. exact Hy.
  - intros H. exists x. split; [exact H | apply Nat.eqb_refl].
Qed.

Lemma follow_spec succs : forall fuel node visited acc,
  NoDup acc -> (forall x, In x acc -> In x visited) ->
  let r := follow fuel succs node visited acc in
  NoDup r /\ (exists l, r = rev acc ++ l) /\ (forall x, In x r -> In x acc \/ exists k, In (k, x) succs).
Proof.
  induction fuel as [|f IH]; intros node visited acc ND Hv; cbn [follow].
  - split; [apply NoDup_rev; exact ND|]. split; [exists []; rewrite app_nil_r; reflexivity|].
    intros x Hx. left. apply in_rev. exact Hx.
  - assert (Base : NoDup (rev acc) /\ (exists l, rev acc = rev acc ++ l) /\
                   (forall x, In x (rev acc) -> In x acc \/ exists k, In (k, x) succs)).
    { split; [apply NoDup_rev; exact ND|]. split; [exists []; rewrite app_nil_r; reflexivity|].
      intros x Hx. left. apply in_rev. exact Hx. }
    destruct (lookup node succs) as [next|] eqn:El; [|exact Base].
    destruct (nmem next visited) eqn:Ev; [exact Base|].
    assert (Hn : ~ In next visited) by (rewrite <- nmem_In; congruence).
    specialize (IH next (next :: visited) (next :: acc)).
    destruct IH as [A [[l B] C]].
    + constructor; [intros H; apply Hn; auto | exact ND].
    + intros x [<- | Hx]; [left; reflexivity | right; auto].
    + split; [exact A|]. split.
      * exists (next :: l). rewrite B. cbn [rev]. rewrite <- app_assoc. reflexivity.
      * intros x Hx. destruct (C x Hx) as [[<- | H] | H]; auto.
        right. exists node. apply lookup_In. exact El.
Qed.

(* ------------------------------------------------------------------ try_path *)
Definition new_edges (t : tour) (broken joined : eset) : eset := eunion (ediff (tedges t) broken) joined.

Theorem try_path_sound t broken joined q :
  try_path t broken joined = Some q ->
  length q = length (tpath t) /\ NoDup q /\ hd_error q = hd_error (tpath t)
  /\ forall x, In x q -> endp (new_edges t broken joined) x.
Proof.
  unfold try_path. fold (new_edges t broken joined). set (E := new_edges t broken joined).
  destruct (length E <? length (tpath t)) eqn:Elen; [discriminate|].
  destruct (tpath t) as [|p0 rest] eqn:Ep; [discriminate|].
  set (succs := walk (length E) E p0 []).
  destruct (length succs =? length (p0 :: rest)) eqn:Esl; cbn [negb]; [|discriminate].
  apply Nat.eqb_eq in Esl.
  set (nt := follow (S (length succs)) succs p0 [p0] [p0]).
  destruct (length nt =? length (p0 :: rest)) eqn:Enl; [|discriminate].
  intros H. inversion H; subst q. apply Nat.eqb_eq in Enl.
  destruct (follow_spec succs (S (length succs)) p0 [p0] [p0]) as [A [[l B] C]].
  { constructor; [intros [] | constructor]. }
  { auto. }
  fold nt in A, B, C.
  split; [exact Enl|]. split; [exact A|]. split; [rewrite B; reflexivity|].
  assert (Hs : forall k v, In (k, v) succs -> endp E k /\ endp E v).
  { apply (walk_endp E (length E) E p0 []); [auto | intros k v []]. }
  intros x Hx. destruct (C x Hx) as [[<- | []] | [k Hk]].
  - apply (walk_first_key E (length E)). fold succs. intros Hnil. rewrite Hnil in Esl. discriminate.
  - apply (Hs k x Hk).
Qed.

Lemma new_edges_good p broken joined :
  good_eset p joined -> good_eset p (new_edges (tour_new p) broken joined).
Proof.
  intros Hj e He. unfold new_edges in He. apply -> eunion_In in He. destruct He as [He | He]; [auto|].
  apply ediff_In in He. apply (tour_edges_good p). exact He.
Qed.

Theorem try_path_permutation p broken joined q :
  good_eset p joined -> try_path (tour_new p) broken joined = Some q ->
  Permutation q p /\ hd_error q = hd_error p.
Proof.
  intros Hj H. apply try_path_sound in H. destruct H as [Hlen [ND [Hhd Hend]]]. split; [|exact Hhd].
  cbn [tour_new tpath] in Hlen.
  apply NoDup_Permutation_bis; [exact ND | lia |].
  intros x Hx. destruct (Hend x Hx) as [e [He Hfs]].
  apply (new_edges_good p broken joined Hj) in He. destruct He as [H1 H2]. destruct Hfs as [<- | <-]; assumption.
Qed.

Lemma list_eqb_refl l : list_eqb l l = true.
Proof. induction l as [|x l IH]; cbn [list_eqb]; [reflexivity|]. rewrite Nat.eqb_refl. exact IH. Qed.

(* ------------------------------------------------------------------ the k-opt search returns only try_path results
   built from joined edges that stay inside the tour *)
Section Search.
  Variable cm : list (list Z).
  Variable nb : list (list nat).
  Variable ho : list entry -> option (list entry).
  (* the hash-map iteration yields entries of the map, in some order (possibly aborting) *)
  Hypothesis ho_sound : forall l l', ho l = Some l' -> forall e, In e l' -> In e l.
  Variable p : list nat.
  Let t := tour_new p.

  Definition okres (r : res) : Prop := forall q, r = Found q -> (Permutation q p /\ hd_error q = hd_error p) /\ q <> p.
  Definition keys_in (m : list entry) : Prop := forall e, In e m -> In (fst e) p.

  Lemma upsert_keys node d g m : In node p -> keys_in m -> keys_in (upsert node d g m).
  Proof.
    intros Hn. induction m as [|[k [d0 g0]] r IH]; intros Hm e He; cbn [upsert] in He.
    - destruct He as [<- | []]. exact Hn.
    - destruct (k =? node) eqn:E.
      + destruct He as [<- | He]; [apply (Hm (k, (d0, g0))); left; reflexivity | apply Hm; right; exact He].
      + destruct He as [<- | He]; [apply (Hm (k, (d0, g0))); left; reflexivity|].
        apply IH; [|exact He]. intros e' He'. apply Hm. right. exact He'.
  Qed.

  Lemma closest_step_keys t2i gain broken joined m node :
    keys_in m -> keys_in (closest_step cm t t2i gain broken joined m node).
  Proof.
    intros Hm. unfold closest_step.
    destruct ((gain - cost cm t2i node <=? 0)%Z || emem (mk_edge t2i node) broken || emem (mk_edge t2i node) (tedges t));
      [exact Hm|].
    assert (Hn : forall s, In s (around t node) -> In node p).
    { intros s Hs. apply around_In in Hs. exact (proj2 Hs). }
    revert Hn. generalize (around t node) as l. intros l. revert m Hm.
    induction l as [|s l IH]; intros m Hm Hn; cbn [fold_left]; [exact Hm|].
    apply IH; [|intros s' Hs'; apply (Hn s'); right; exact Hs'].
    destruct (negb (emem (mk_edge node s) broken) && negb (emem (mk_edge node s) joined)); [|exact Hm].
    apply upsert_keys; [apply (Hn s); left; reflexivity | exact Hm].
  Qed.

  Lemma fold_closest_keys t2i gain broken joined : forall ns m1,
    keys_in m1 -> keys_in (fold_left (closest_step cm t t2i gain broken joined) ns m1).
  Proof.
    induction ns as [|n ns IH]; intros m1 Hm1; cbn [fold_left]; [exact Hm1|].
    apply IH. apply closest_step_keys. exact Hm1.
  Qed.

  Lemma sins_In x s e : In e (sins x s) -> e = x \/ In e s.
  Proof.
    induction s as [|y r IH]; cbn [sins]; [intros [<- | []]; auto|].
    destruct (fst (snd y) >? fst (snd x))%Z; cbn [In]; intros [H | H]; auto. destruct (IH H); auto.
  Qed.

  Lemma sort_desc_In l e : In e (sort_desc l) -> In e l.
  Proof.
    unfold sort_desc. induction l as [|x l IH]; cbn [fold_right]; [auto|].
    intros H. apply sins_In in H. destruct H as [-> | H]; [left; reflexivity | right; auto].
  Qed.

  Lemma find_closest_keys t2i gain broken joined l :
    find_closest cm nb ho t t2i gain broken joined = Some l -> keys_in l.
  Proof.
    unfold find_closest. set (m0 := fold_left _ _ _).
    destruct (ho m0) as [l'|] eqn:E; cbn [option_map]; [|discriminate].
    intros H. inversion H; subst l. intros e He. apply sort_desc_In in He.
    assert (K : keys_in m0).
    { unfold m0. apply fold_closest_keys. intros x []. }
    apply K. eapply ho_sound; eauto.
  Qed.

  Lemma firstn_In' {A} (n : nat) : forall (l : list A) x, In x (firstn n l) -> In x l.
  Proof.
    induction n as [|n IH]; intros [|y l] x H; cbn [firstn] in H; try destruct H; [left; assumption | right; auto].
  Qed.

  Lemma first_found_ok f l : (forall e, In e l -> okres (f e)) -> okres (first_found f l).
  Proof.
    induction l as [|x r IH]; intros H q Hq; cbn [first_found] in Hq; [discriminate|].
    destruct (f x) eqn:E.
    - apply (H x (or_introl eq_refl)). rewrite E. exact Hq.
    - apply IH; [|exact Hq]. intros e He. apply H. right. exact He.
    - discriminate.
    - discriminate.
  Qed.

  Definition rec_ok (rec : nat -> nat -> Z -> eset -> eset -> res) : Prop :=
    forall t1 last g b j, In t1 p -> good_eset p j -> okres (rec t1 last g b j).

  Lemma choose_y_ok rec t1 t2i gain broken joined :
    rec_ok rec -> In t1 p -> In t2i p -> good_eset p joined ->
    okres (choose_y cm nb ho t rec t1 t2i gain broken joined).
  Proof.
    intros Hrec H1 H2 Hj. unfold choose_y.
    destruct (find_closest cm nb ho t t2i gain broken joined) as [closest|] eqn:E; [|intros q Hq; discriminate].
    apply find_closest_keys in E.
    apply first_found_ok. intros e He. apply firstn_In' in He.
    apply Hrec; [exact H1|]. apply good_eins; [exact H2 | apply E; exact He | exact Hj].
  Qed.

  Lemma cx_loop_ok rec t1 last gain broken joined cands :
    rec_ok rec -> In t1 p -> good_eset p joined -> (forall c, In c cands -> In c p) ->
    okres (cx_loop cm nb ho t rec t1 last gain broken joined cands).
  Proof.
    intros Hrec H1 Hj. induction cands as [|t2i rest IH]; intros Hc q Hq; cbn [cx_loop] in Hq; [discriminate|].
    destruct (emem (mk_edge last t2i) joined || emem (mk_edge last t2i) broken); [discriminate|].
    assert (H2 : In t2i p) by (apply Hc; left; reflexivity).
    assert (Hy : okres (choose_y cm nb ho t rec t1 t2i (gain + cost cm last t2i) (eins (mk_edge last t2i) broken) joined))
      by (apply choose_y_ok; assumption).
    destruct (gain + cost cm last t2i - cost cm t2i t1 >? 0)%Z; [|apply Hy; exact Hq].
    destruct (try_path t (eins (mk_edge last t2i) broken) (eins (mk_edge t2i t1) joined)) as [q'|] eqn:Et.
    - destruct (list_eqb q' (tpath t)) eqn:El; [discriminate|]. inversion Hq; subst q'. split.
      + eapply try_path_permutation; [|exact Et]. apply good_eins; assumption.
      + intros ->. cbn [tour_new tpath] in El. rewrite list_eqb_refl in El. discriminate.
    - destruct (2 <? length (eins (mk_edge t2i t1) joined)); [|apply Hy; exact Hq].
      apply IH; [|exact Hq]. intros c Hc'. apply Hc. right. exact Hc'.
  Qed.

  Lemma cx_cands_In last broken c : In c (cx_cands cm t last broken) -> In c p.
  Proof.
    unfold cx_cands. intros H.
    assert (Ha : forall x, In x (around t last) -> In x p) by (intros x Hx; apply around_In in Hx; exact (proj1 Hx)).
    destruct (length broken =? 4); [|auto].
    destruct (around t last) as [|a [|b [|? ?]]]; try destruct H.
    destruct (cost cm a last >? cost cm b last)%Z; destruct H as [<- | []]; apply Ha; cbn; auto.
  Qed.

  Lemma choose_x_ok : forall fuel, rec_ok (choose_x cm nb ho t fuel).
  Proof.
    induction fuel as [|f IH]; intros t1 last g b j H1 Hj q Hq; cbn [choose_x] in Hq; [discriminate|].
    revert q Hq. apply cx_loop_ok; try assumption. intros c Hc. eapply cx_cands_In; eauto.
  Qed.

  Lemma nins_In x s y : In y (nins x s) -> y = x \/ In y s.
  Proof.
    induction s as [|z r IH]; cbn [nins]; [intros [<- | []]; auto|].
    destruct (x =? z); [auto|]. destruct (x <? z); cbn [In]; intros [H | H]; auto. destruct (IH H); auto.
  Qed.

  Lemma nset_of_In l y : In y (nset_of l) -> In y l.
  Proof.
    unfold nset_of. assert (G : forall s, In y (fold_left (fun s x => nins x s) l s) -> In y l \/ In y s).
    { induction l as [|x l IH]; intros s H; cbn [fold_left] in H; [auto|].
      destruct (IH _ H) as [H' | H']; [left; right; exact H'|]. apply nins_In in H'. destruct H' as [-> | H']; cbn; auto. }
    intros H. destruct (G [] H) as [H' | []]. exact H'.
  Qed.

  Lemma t3_loop_ok fuel t1 t2 aset broken : In t1 p -> In t2 p ->
    forall l tries, keys_in l -> okres (t3_loop cm nb ho t fuel t1 t2 aset broken tries l).
  Proof.
    intros H1 H2. induction l as [|e r IH]; intros tries Hk q Hq; cbn [t3_loop] in Hq; [discriminate|].
    assert (Hr : keys_in r) by (intros x Hx; apply Hk; right; exact Hx).
    destruct (nmem (fst e) aset); [eapply IH; eauto|].
    destruct (choose_x cm nb ho t fuel t1 (fst e) (snd (snd e)) broken [mk_edge t2 (fst e)]) eqn:Ex.
    - apply (choose_x_ok fuel t1 (fst e) (snd (snd e)) broken [mk_edge t2 (fst e)]); [exact H1 | | rewrite Ex; exact Hq].
      change [mk_edge t2 (fst e)] with (eins (mk_edge t2 (fst e)) []).
      apply good_eins; [exact H2 | apply Hk; left; reflexivity | apply good_nil].
    - destruct tries as [|[|k]]; try discriminate. eapply IH; eauto.
    - discriminate.
    - discriminate.
  Qed.

  Lemma t2_loop_ok fuel t1 aset : In t1 p -> forall l, (forall x, In x l -> In x p) ->
    okres (t2_loop cm nb ho t fuel t1 aset l).
  Proof.
    intros H1. induction l as [|t2 r IH]; intros Hl q Hq; cbn [t2_loop] in Hq; [discriminate|].
    destruct (find_closest cm nb ho t t2 (cost cm t1 t2) [mk_edge t1 t2] []) as [closest|] eqn:Ec; [|discriminate].
    apply find_closest_keys in Ec.
    destruct (t3_loop cm nb ho t fuel t1 t2 aset [mk_edge t1 t2] 5 closest) eqn:E3.
    - apply (t3_loop_ok fuel t1 t2 aset [mk_edge t1 t2] H1 (Hl t2 (or_introl eq_refl)) closest 5 Ec). rewrite E3. exact Hq.
    - apply IH; [|exact Hq]. intros x Hx. apply Hl. right. exact Hx.
    - discriminate.
    - discriminate.
  Qed.

  Lemma t1_loop_ok fuel : forall l, (forall x, In x l -> In x p) -> okres (t1_loop cm nb ho t fuel l).
  Proof.
    induction l as [|t1 r IH]; intros Hl q Hq; cbn [t1_loop] in Hq; [discriminate|].
    destruct (t2_loop cm nb ho t fuel t1 (nset_of (around t t1)) (nset_of (around t t1))) eqn:E2.
    - apply (t2_loop_ok fuel t1 (nset_of (around t t1)) (Hl t1 (or_introl eq_refl)) (nset_of (around t t1))); [|rewrite E2; exact Hq].
      intros x Hx. apply nset_of_In in Hx. apply around_In in Hx. exact (proj1 Hx).
    - apply IH; [|exact Hq]. intros x Hx. apply Hl. right. exact Hx.
    - discriminate.
    - discriminate.
  Qed.

  Theorem improve_ok q : improve cm nb ho p = Found q -> (Permutation q p /\ hd_error q = hd_error p) /\ q <> p.
  Proof. unfold improve. apply t1_loop_ok. cbn [tour_new tpath]. auto. Qed.
End Search.

Theorem optimize_ok cm nb ho :
  (forall l l', ho l = Some l' -> forall e, In e l' -> In e l) ->
  forall ofuel p q, optimize cm nb ho ofuel p = Found q ->
  Permutation q p /\ hd_error q = hd_error p.
Proof.
  intros Hho. induction ofuel as [|f IH]; intros p q H; cbn [optimize] in H; [discriminate|].
  destruct (improve cm nb ho p) as [p'| | |] eqn:Ei; try discriminate.
  - apply (improve_ok cm nb ho Hho) in Ei. destruct Ei as [[P1 Hd1] _].
    apply IH in H. destruct H as [P2 Hd2]. split; [eapply Permutation_trans; eauto | congruence].
  - inversion H; subst. split; [apply Permutation_refl | reflexivity].
Qed.

Corollary optimize_perm cm nb ho :
  (forall l l', ho l = Some l' -> forall e, In e l' -> In e l) ->
  forall ofuel p q, optimize cm nb ho ofuel p = Found q -> Permutation q p.
Proof. intros Hho ofuel p q H. exact (proj1 (optimize_ok cm nb ho Hho ofuel p q H)). Qed.

Corollary optimize_start cm nb ho :
  (forall l l', ho l = Some l' -> forall e, In e l' -> In e l) ->
  forall ofuel p q, optimize cm nb ho ofuel p = Found q -> hd_error q = hd_error p.
Proof. intros Hho ofuel p q H. exact (proj2 (optimize_ok cm nb ho Hho ofuel p q H)). Qed.

Lemma strict_ho_sound l l' : strict_ho l = Some l' -> forall e, In e l' -> In e l.
Proof. unfold strict_ho. destruct (has_tie l); [discriminate|]. intros H; inversion H; auto. Qed.

Lemma id_ho_sound l l' : id_ho l = Some l' -> forall e, In e l' -> In e l.
Proof. unfold id_ho. intros H; inversion H; auto. Qed.

(* ------------------------------------------------------------------ the executable checker *)
Lemma remove1_perm x : forall l l', remove1 x l = Some l' -> Permutation l (x :: l').
Proof.
  induction l as [|y r IH]; intros l' H; cbn [remove1] in H; [discriminate|].
  destruct (x =? y) eqn:E.
  - apply Nat.eqb_eq in E. inversion H; subst. apply Permutation_refl.
  - destruct (remove1 x r) as [r'|]; [|discriminate]. inversion H; subst.
    eapply Permutation_trans; [apply perm_skip; apply IH; reflexivity | apply perm_swap].
Qed.

Lemma remove1_In x : forall l, In x l -> exists l', remove1 x l = Some l'.
Proof.
  induction l as [|y r IH]; intros H; [destruct H|]. cbn [remove1].
  destruct (x =? y) eqn:E; [eexists; reflexivity|].
  destruct H as [H | H]; [subst; rewrite Nat.eqb_refl in E; discriminate|].
  destruct (IH H) as [r' ->]. eexists. reflexivity.
Qed.

Lemma permb_iff : forall a b, permb a b = true <-> Permutation a b.
Proof.
  induction a as [|x a IH]; intros b; cbn [permb].
  - destruct b; split; intros H; try reflexivity; try discriminate.
    + apply Permutation_nil in H. discriminate.
  - destruct (remove1 x b) as [b'|] eqn:E.
    + apply remove1_perm in E. rewrite IH. split.
      * intros H. eapply Permutation_trans; [apply perm_skip; exact H | apply Permutation_sym; exact E].
      * intros H. apply (Permutation_cons_inv (a := x)). eapply Permutation_trans; eauto.
    + split; [discriminate|]. intros H.
      assert (Hin : In x b) by (eapply Permutation_in; [exact H | left; reflexivity]).
      destruct (remove1_In x b Hin) as [b' E']. congruence.
Qed.

Definition lkh_contract (cm : list (list Z)) (input output : list nat) : Prop :=
  Permutation output input /\ hd_error output = hd_error input /\ (cycle_cost cm output <= cycle_cost cm input)%Z.

Theorem check_lkh_iff cm input output : check_lkh cm input output = [] <-> lkh_contract cm input output.
Proof.
  unfold check_lkh, lkh_contract.
  destruct (permb output input) eqn:E1.
  2:{ split; [discriminate|]. intros [H _]. apply permb_iff in H. congruence. }
  apply permb_iff in E1.
  assert (E2 : (match input, output with [], [] => true | a :: _, b :: _ => a =? b | _, _ => false end) = true
               <-> hd_error output = hd_error input).
  { destruct input as [|a i], output as [|b o]; cbn [hd_error]; split; intros H; try reflexivity; try discriminate.
    - apply Nat.eqb_eq in H. subst. reflexivity.
    - inversion H. apply Nat.eqb_refl. }
  destruct (match input, output with [], [] => true | a :: _, b :: _ => a =? b | _, _ => false end).
  2:{ split; [discriminate|]. intros [_ [H _]]. apply E2 in H. discriminate. }
  destruct (cycle_cost cm output <=? cycle_cost cm input)%Z eqn:E3; cbn [app].
  - split; [|reflexivity]. intros _. split; [exact E1|]. split; [apply E2; reflexivity | apply Z.leb_le; exact E3].
  - split; [discriminate|]. intros [_ [_ H]]. apply Z.leb_le in H. congruence.
Qed.

(* ------------------------------------------------------------------ the inner search always terminates:
   with lkh_fuel the model never reports Fuel (choose_x recursion adds a new tour edge to `broken` at every level) *)
Lemma mk_edge_sym a b : mk_edge a b = mk_edge b a.
Proof.
  unfold mk_edge. destruct (a <? b) eqn:E1, (b <? a) eqn:E2; try reflexivity.
  - apply Nat.ltb_lt in E1. apply Nat.ltb_lt in E2. lia.
  - apply Nat.ltb_ge in E1. apply Nat.ltb_ge in E2. assert (a = b) by lia. subst. reflexivity.
Qed.

Lemma windows2_nth : forall p j, S j < length p -> In (nth j p 0, nth (S j) p 0) (windows2 p).
Proof.
  induction p as [|a [|b r] IH]; intros j Hj; cbn [length] in Hj; try lia.
  destruct j as [|j].
  - left. reflexivity.
  - right. apply (IH j). cbn [length]. lia.
Qed.

Lemma last_nth' : forall (p : list nat) d, p <> [] -> last p d = nth (length p - 1) p d.
Proof.
  induction p as [|a [|b r] IH]; intros d H; [congruence | reflexivity |].
  change (last (a :: b :: r) d) with (last (b :: r) d). rewrite IH by discriminate.
  cbn [length]. replace (S (S (length r)) - 1) with (S (length r)) by lia.
  replace (S (length r) - 1) with (length r) by lia. reflexivity.
Qed.

Lemma index_of_nth x : forall p i, index_of x p = Some i -> nth i p 0 = x.
Proof.
  induction p as [|y r IH]; intros i H; cbn [index_of] in H; [discriminate|].
  destruct (y =? x) eqn:E; [inversion H; subst; apply Nat.eqb_eq in E; exact E|].
  destruct (index_of x r) as [j|]; [|discriminate]. inversion H; subst. cbn [nth]. apply IH. reflexivity.
Qed.

Lemma tour_edge_consecutive p j : S j < length p -> In (mk_edge (nth j p 0) (nth (S j) p 0)) (tedges (tour_new p)).
Proof.
  intros Hj. cbn [tour_new tedges]. apply eset_of_In. apply in_map_iff.
  exists (nth j p 0, nth (S j) p 0). split; [reflexivity|]. apply in_or_app. left. apply windows2_nth. exact Hj.
Qed.

Lemma tour_edge_closing p : p <> [] -> In (mk_edge (nth (length p - 1) p 0) (nth 0 p 0)) (tedges (tour_new p)).
Proof.
  intros Hp. cbn [tour_new tedges]. apply eset_of_In. apply in_map_iff.
  exists (nth (length p - 1) p 0, nth 0 p 0). split; [reflexivity|]. apply in_or_app. right.
  destruct p as [|a r]; [congruence|]. cbn [closing]. left. rewrite (last_nth' (a :: r) a) by discriminate.
  f_equal; try reflexivity. apply nth_indep. cbn [length]. lia.
Qed.

Lemma around_edge p last x : In x (around (tour_new p) last) -> In (mk_edge last x) (tedges (tour_new p)).
Proof.
  unfold around. cbn [tour_new tpath]. destruct (index_of last p) as [i|] eqn:E; [|intros []].
  pose proof (index_of_lt _ _ _ E) as Hlt. pose proof (index_of_nth _ _ _ E) as Hn.
  assert (Hp : p <> []) by (destruct p; [cbn in Hlt; lia | discriminate]).
  intros [<- | [<- | []]].
  - (* predecessor *)
    destruct (i =? 0) eqn:E0.
    + apply Nat.eqb_eq in E0. subst i. rewrite <- Hn, mk_edge_sym. apply tour_edge_closing. exact Hp.
    + apply Nat.eqb_neq in E0. rewrite <- Hn, mk_edge_sym.
      replace i with (S (i - 1)) at 2 by lia. apply tour_edge_consecutive. lia.
  - (* successor *)
    destruct (Nat.eq_dec (S i) (length p)) as [Hl | Hl].
    + replace ((i + 1) mod length p) with 0 by (replace (i + 1) with (length p) by lia; rewrite Nat.mod_same; lia).
      rewrite <- Hn. replace i with (length p - 1) by lia. apply tour_edge_closing. exact Hp.
    + rewrite Nat.mod_small by lia. rewrite <- Hn. replace (i + 1) with (S i) by lia.
      apply tour_edge_consecutive. lia.
Qed.

Lemma eins_new_NoDup e s : ~ In e s -> NoDup s -> NoDup (eins e s) /\ length (eins e s) = S (length s).
Proof.
  induction s as [|x r IH]; intros Hn ND; cbn [eins].
  - split; [constructor; [intros [] | constructor] | reflexivity].
  - destruct (edge_eqb e x) eqn:E1; [apply edge_eqb_eq in E1; subst; exfalso; apply Hn; left; reflexivity|].
    destruct (edge_ltb e x).
    + split; [constructor; assumption | reflexivity].
    + inversion ND; subst. destruct IH as [A B]; [intros H; apply Hn; right; exact H | assumption|].
      split; [|cbn [length]; rewrite B; reflexivity].
      constructor; [|exact A]. intros H. apply -> eins_In in H. destruct H as [H | H]; [|auto].
      subst. apply Hn. left. reflexivity.
Qed.

Lemma eins_length_le e s : length (eins e s) <= S (length s).
Proof.
  induction s as [|x r IH]; cbn [eins]; [cbn; lia|].
  destruct (edge_eqb e x); [cbn; lia|]. destruct (edge_ltb e x); cbn [length]; lia.
Qed.

Lemma tour_edges_count p : length (tedges (tour_new p)) <= length p.
Proof.
  cbn [tour_new tedges]. unfold eset_of.
  assert (G : forall (l : list edge) s, length (fold_left (fun s e => eins e s) l s) <= length l + length s).
  { induction l as [|e l IH]; intros s; cbn [fold_left length]; [lia|].
    specialize (IH (eins e s)). pose proof (eins_length_le e s). lia. }
  eapply Nat.le_trans; [apply G|]. rewrite map_length, app_length. cbn [length].
  assert (W : forall q, length (windows2 q) = length q - 1).
  { induction q as [|a [|b r] IHq]; [reflexivity | reflexivity |].
    change (windows2 (a :: b :: r)) with ((a, b) :: windows2 (b :: r)). cbn [length] in *. rewrite IHq. lia. }
  rewrite W. destruct p as [|a r]; cbn [closing length]; lia.
Qed.

Section NoFuel.
  Variable cm : list (list Z).
  Variable nb : list (list nat).
  Variable ho : list entry -> option (list entry).
  Variable p : list nat.
  Let t := tour_new p.

  Definition sub_tour (b : eset) : Prop := NoDup b /\ incl b (tedges t).

  Lemma first_found_nofuel f l : (forall e, f e <> Fuel) -> first_found f l <> Fuel.
  Proof.
    intros H. induction l as [|x r IH]; cbn [first_found]; [discriminate|].
    destruct (f x) eqn:E; try discriminate; [exact IH | exfalso; exact (H x E)].
  Qed.

  Definition rec_nofuel (rec : nat -> nat -> Z -> eset -> eset -> res) (k : nat) : Prop :=
    forall t1 last g b j, sub_tour b -> k <= length b -> rec t1 last g b j <> Fuel.

  Lemma cx_loop_nofuel rec t1 last gain broken joined :
    sub_tour broken -> rec_nofuel rec (S (length broken)) ->
    forall cands, (forall c, In c cands -> In c (around t last)) ->
    cx_loop cm nb ho t rec t1 last gain broken joined cands <> Fuel.
  Proof.
    intros [ND Hsub] Hrec. induction cands as [|t2i rest IH]; intros Hc; cbn [cx_loop]; [discriminate|].
    destruct (emem (mk_edge last t2i) joined || emem (mk_edge last t2i) broken) eqn:Em; [discriminate|].
    apply orb_false_iff in Em. destruct Em as [_ Em].
    assert (Hnew : ~ In (mk_edge last t2i) broken) by (rewrite <- emem_In; congruence).
    destruct (eins_new_NoDup _ _ Hnew ND) as [ND' Hlen].
    assert (Hsub' : sub_tour (eins (mk_edge last t2i) broken)).
    { split; [exact ND'|]. intros e He. apply -> eins_In in He. destruct He as [-> | He]; [|auto].
      apply around_edge. apply Hc. left. reflexivity. }
    assert (Hy : forall g j, choose_y cm nb ho t rec t1 t2i g (eins (mk_edge last t2i) broken) j <> Fuel).
    { intros g j. unfold choose_y. destruct (find_closest cm nb ho t t2i g _ j); [|discriminate].
      apply first_found_nofuel. intros e. apply Hrec; [exact Hsub' | lia]. }
    destruct (gain + cost cm last t2i - cost cm t2i t1 >? 0)%Z; [|apply Hy].
    destruct (try_path t _ _) as [q|].
    - destruct (list_eqb q (tpath t)); discriminate.
    - destruct (2 <? length (eins (mk_edge t2i t1) joined)); [|apply Hy].
      apply IH. intros c Hc'. apply Hc. right. exact Hc'.
  Qed.

  Lemma cx_cands_around last broken c : In c (cx_cands cm t last broken) -> In c (around t last).
  Proof.
    unfold cx_cands. destruct (length broken =? 4); [|auto].
    destruct (around t last) as [|a [|b [|? ?]]]; intros H; try destruct H.
    destruct (cost cm a last >? cost cm b last)%Z; destruct H as [<- | []]; cbn; auto.
  Qed.

  Lemma choose_x_nofuel : forall fuel t1 last g b j,
    sub_tour b -> length (tedges t) < fuel + length b -> choose_x cm nb ho t fuel t1 last g b j <> Fuel.
  Proof.
    induction fuel as [|f IH]; intros t1 last g b j Hb Hlt.
    - exfalso. destruct Hb as [ND Hsub]. pose proof (NoDup_incl_length ND Hsub). lia.
    - cbn [choose_x]. apply cx_loop_nofuel; [exact Hb | | intros c Hc; eapply cx_cands_around; eauto].
      intros t1' last' g' b' j' Hb' Hlen. apply IH; [exact Hb' | lia].
  Qed.

  Lemma t3_loop_nofuel fuel t1 t2 aset broken :
    sub_tour broken -> length (tedges t) < fuel + length broken ->
    forall l tries, t3_loop cm nb ho t fuel t1 t2 aset broken tries l <> Fuel.
  Proof.
    intros Hb Hlt. induction l as [|e r IH]; intros tries; cbn [t3_loop]; [discriminate|].
    destruct (nmem (fst e) aset); [apply IH|].
    destruct (choose_x cm nb ho t fuel t1 (fst e) (snd (snd e)) broken [mk_edge t2 (fst e)]) eqn:Ex; try discriminate.
    - destruct tries as [|[|k]]; try discriminate. apply IH.
    - exfalso. revert Ex. apply choose_x_nofuel; assumption.
  Qed.

  Lemma t2_loop_nofuel fuel t1 aset : length (tedges t) < fuel + 1 ->
    forall l, (forall x, In x l -> In x (around t t1)) -> t2_loop cm nb ho t fuel t1 aset l <> Fuel.
  Proof.
    intros Hlt. induction l as [|t2 r IH]; intros Hl; cbn [t2_loop]; [discriminate|].
    destruct (find_closest cm nb ho t t2 (cost cm t1 t2) [mk_edge t1 t2] []) as [closest|]; [|discriminate].
    destruct (t3_loop cm nb ho t fuel t1 t2 aset [mk_edge t1 t2] 5 closest) eqn:E3; try discriminate.
    - apply IH. intros x Hx. apply Hl. right. exact Hx.
    - exfalso. revert E3. apply t3_loop_nofuel; [|cbn [length]; lia].
      split; [constructor; [intros [] | constructor]|].
      intros e [<- | []]. apply around_edge. apply Hl. left. reflexivity.
  Qed.

  Lemma t1_loop_nofuel fuel : length (tedges t) < fuel + 1 -> forall l, t1_loop cm nb ho t fuel l <> Fuel.
  Proof.
    intros Hlt. induction l as [|t1 r IH]; cbn [t1_loop]; [discriminate|].
    destruct (t2_loop cm nb ho t fuel t1 (nset_of (around t t1)) (nset_of (around t t1))) eqn:E2; try discriminate.
    - exact IH.
    - exfalso. revert E2. apply t2_loop_nofuel; [exact Hlt|].
      intros x Hx. generalize (around t t1) x Hx. clear. intros l y Hy.
      unfold nset_of in Hy.
      assert (G : forall l s, In y (fold_left (fun s x => nins x s) l s) -> In y l \/ In y s).
      { induction l0 as [|x l0 IH]; intros s H; cbn [fold_left] in H; [auto|].
        destruct (IH _ H) as [H' | H']; [left; right; exact H'|].
        assert (N : forall s, In y (nins x s) -> y = x \/ In y s).
        { induction s0 as [|z r0 IHs]; cbn [nins]; [intros [<- | []]; auto|].
          destruct (x =? z); [auto|]. destruct (x <? z); cbn [In]; intros [A | A]; auto. destruct (IHs A); auto. }
        apply N in H'. destruct H' as [-> | H']; cbn; auto. }
      destruct (G l [] Hy) as [H' | []]. exact H'.
  Qed.

  Theorem improve_nofuel : improve cm nb ho p <> Fuel.
  Proof.
    unfold improve. apply t1_loop_nofuel. pose proof (tour_edges_count p). unfold lkh_fuel. fold t in H. lia.
  Qed.
End NoFuel.
