(* Lemmas about the evolution configuration builder and the run of a built configuration (Model/EvoConfig.v), property C08. *)
From VRP Require Import Base.Tac Model.Population Model.EvoConfig Proofs.PopulationP.

Section B.
Context {ind : Type}.
Notation builder := (builder ind).
Notation setter := (setter ind).
Notation config := (config ind).

Lemma apply_all_app (l1 l2 : list setter) (b : builder) : apply_all (l1 ++ l2) b = apply_all l2 (apply_all l1 b).
Proof. unfold apply_all. apply fold_left_app. Qed.

Lemma apply_all_cons (s : setter) l (b : builder) : apply_all (s :: l) b = apply_all l (apply_setter b s).
Proof. reflexivity. Qed.

(* ---------- what one setter does to the four fields of `initial` and to the context ---------- *)
Lemma inds_setter (b : builder) (s : setter) :
  i_inds (b_initial (apply_setter b s)) = match s with WithInitSolutions Sd _ => Sd | _ => i_inds (b_initial b) end.
Proof. destruct s; reflexivity. Qed.

Lemma max_setter (b : builder) (s : setter) :
  i_max (b_initial (apply_setter b s)) = match sets_max s with Some m => m | None => i_max (b_initial b) end.
Proof. destruct s as [| | | | | | Sd [m|] | | | | | | |]; reflexivity. Qed.

Lemma ops_setter (b : builder) (s : setter) :
  i_ops (b_initial (apply_setter b s)) = match s with WithInitial _ _ o => o | _ => i_ops (b_initial b) end /\
  i_quota (b_initial (apply_setter b s)) = match s with WithInitial _ q _ => q | _ => i_quota (b_initial b) end.
Proof. destruct s; split; reflexivity. Qed.

Lemma context_setter (b : builder) (s : setter) :
  b_context (apply_setter b s) = match s with WithContext c => Some c | _ => b_context b end.
Proof. destruct s; reflexivity. Qed.

(* ---------- a field is determined by the last setter that touches it, whatever comes before and whatever else comes after ---------- *)
Lemma inds_untouched (calls : list setter) : forall b : builder,
  (forall s, In s calls -> is_init_solutions s = false) ->
  i_inds (b_initial (apply_all calls b)) = i_inds (b_initial b).
Proof.
  induction calls as [|s l IH]; intros b H; [reflexivity|].
  rewrite apply_all_cons, IH by (intros; apply H; right; assumption).
  rewrite inds_setter. specialize (H s (or_introl eq_refl)). destruct s; try reflexivity; discriminate.
Qed.

Lemma seeds_last (b : builder) pre Sd m post :
  (forall s, In s post -> is_init_solutions s = false) ->
  i_inds (b_initial (apply_all (pre ++ WithInitSolutions Sd m :: post) b)) = Sd.
Proof.
  intros H. rewrite apply_all_app, apply_all_cons, inds_untouched by assumption. rewrite inds_setter. reflexivity.
Qed.

Lemma seeds_none (calls : list setter) :
  (forall s, In s calls -> is_init_solutions s = false) ->
  i_inds (b_initial (apply_all calls default_builder)) = [].
Proof. intros H. rewrite inds_untouched by assumption. reflexivity. Qed.

Lemma max_untouched (calls : list setter) : forall b : builder,
  (forall s, In s calls -> sets_max s = None) -> i_max (b_initial (apply_all calls b)) = i_max (b_initial b).
Proof.
  induction calls as [|s l IH]; intros b H; [reflexivity|].
  rewrite apply_all_cons, IH by (intros; apply H; right; assumption).
  rewrite max_setter, (H s (or_introl eq_refl)). reflexivity.
Qed.

Lemma max_last (b : builder) pre s m post :
  sets_max s = Some m -> (forall s', In s' post -> sets_max s' = None) ->
  i_max (b_initial (apply_all (pre ++ s :: post) b)) = m.
Proof.
  intros Hs H. rewrite apply_all_app, apply_all_cons, max_untouched by assumption. rewrite max_setter, Hs. reflexivity.
Qed.

Lemma max_default (calls : list setter) :
  (forall s, In s calls -> sets_max s = None) -> i_max (b_initial (apply_all calls default_builder)) = 4%nat.
Proof. intros H. rewrite max_untouched by assumption. reflexivity. Qed.

Lemma ops_untouched (calls : list setter) : forall b : builder,
  (forall s, In s calls -> is_with_initial s = false) ->
  i_ops (b_initial (apply_all calls b)) = i_ops (b_initial b) /\ i_quota (b_initial (apply_all calls b)) = i_quota (b_initial b).
Proof.
  induction calls as [|s l IH]; intros b H; [split; reflexivity|].
  rewrite apply_all_cons. destruct (IH (apply_setter b s)) as [-> ->]; [intros; apply H; right; assumption|].
  destruct (ops_setter b s) as [-> ->]. specialize (H s (or_introl eq_refl)). destruct s; try (split; reflexivity); discriminate.
Qed.

Lemma ops_last (b : builder) pre m q o post :
  (forall s, In s post -> is_with_initial s = false) ->
  i_ops (b_initial (apply_all (pre ++ WithInitial m q o :: post) b)) = o /\
  i_quota (b_initial (apply_all (pre ++ WithInitial m q o :: post) b)) = q.
Proof.
  intros H. rewrite apply_all_app, apply_all_cons. destruct (ops_untouched post (apply_setter (apply_all pre b) (WithInitial m q o)) H) as [-> ->].
  split; reflexivity.
Qed.

Lemma context_untouched (calls : list setter) : forall b : builder,
  (forall s, In s calls -> is_with_context s = false) -> b_context (apply_all calls b) = b_context b.
Proof.
  induction calls as [|s l IH]; intros b H; [reflexivity|].
  rewrite apply_all_cons, IH by (intros; apply H; right; assumption).
  rewrite context_setter. specialize (H s (or_introl eq_refl)). destruct s; try reflexivity; discriminate.
Qed.

Lemma context_last (b : builder) pre c post :
  (forall s, In s post -> is_with_context s = false) ->
  b_context (apply_all (pre ++ WithContext c :: post) b) = Some c.
Proof. intros H. rewrite apply_all_app, apply_all_cons, context_untouched by assumption. apply context_setter. Qed.

(* the context of a builder is one that some with_context call supplied *)
Lemma context_origin (calls : list setter) : forall (b : builder) c,
  b_context (apply_all calls b) = Some c -> b_context b = Some c \/ In (WithContext c) calls.
Proof.
  induction calls as [|s l IH]; intros b c H; [left; exact H|].
  rewrite apply_all_cons in H. destruct (IH _ _ H) as [H1|H1]; [|right; right; exact H1].
  rewrite context_setter in H1. destruct s; try (left; exact H1). injection H1 as <-. right; left; reflexivity.
Qed.

(* ---------- with_init_solutions(S, None) commutes with every other setter: its position in the sequence is immaterial ---------- *)
Lemma seeds_commute (b : builder) (s : setter) Sd :
  is_init_solutions s = false ->
  apply_setter (apply_setter b s) (WithInitSolutions Sd None) = apply_setter (apply_setter b (WithInitSolutions Sd None)) s.
Proof. intros H. destruct s; try reflexivity; discriminate. Qed.

Lemma seeds_move_to_end (post : list setter) : forall (b : builder) Sd,
  (forall s, In s post -> is_init_solutions s = false) ->
  apply_all (WithInitSolutions Sd None :: post) b = apply_all (post ++ [WithInitSolutions Sd None]) b.
Proof.
  induction post as [|s l IH]; intros b Sd H; [reflexivity|].
  cbn [app]. rewrite !apply_all_cons. rewrite <- IH by (intros; apply H; right; assumption).
  rewrite apply_all_cons. rewrite seeds_commute by (apply H; left; reflexivity). reflexivity.
Qed.

Lemma seeds_position_immaterial (b : builder) pre post Sd :
  (forall s, In s post -> is_init_solutions s = false) ->
  apply_all (pre ++ WithInitSolutions Sd None :: post) b = apply_all (pre ++ post ++ [WithInitSolutions Sd None]) b.
Proof. intros H. rewrite (apply_all_app pre), (apply_all_app pre). apply seeds_move_to_end; assumption. Qed.

(* ---------- build ---------- *)
Lemma build_fields (b : builder) (c : config) : build b = inl c ->
  cfg_initial c = b_initial b /\ cfg_processing c = b_processing b /\ b_context b = Some (cfg_context c).
Proof.
  unfold build. destruct (b_context b) as [ctx|]; [|discriminate]. destruct (get_termination b) as [ts|]; [|discriminate].
  destruct (b_strategy b); [intros [= <-]; auto|]. destruct (b_heuristic b); [intros [= <-]; auto|].
  destruct (b_search b); [|discriminate]. destruct (b_diversify b); [|discriminate]. intros [= <-]; auto.
Qed.

Definition interval_known (b : builder) : Prop :=
  match b_min_cv b with Some k => k = 0 \/ k = 1 | None => True end.

Lemma get_termination_some (b : builder) : (exists ts, get_termination b = Some ts) <-> interval_known b.
Proof.
  unfold get_termination, interval_known.
  destruct (b_max_generations b), (b_max_time b), (b_min_cv b) as [k|], (b_target_proximity b); cbn;
    try (split; [intros _; exact I|intros _; eexists; reflexivity]);
    (destruct (k =? 0) eqn:E0; [split; [intros _; left; lia|intros _; eexists; reflexivity]|]);
    (destruct (k =? 1) eqn:E1; [split; [intros _; right; lia|intros _; eexists; reflexivity]|]);
    (split; [intros [ts H]; discriminate|intros [H|H]; lia]).
Qed.

Lemma build_ok_iff (b : builder) :
  (exists c, build b = inl c) <->
  (b_context b <> None /\ interval_known b /\
   (b_strategy b <> None \/ b_heuristic b <> None \/ (b_search b <> None /\ b_diversify b <> None))).
Proof.
  pose proof (get_termination_some b) as GT. unfold build.
  destruct (b_context b) as [ctx|]; [|split; [intros [c H]; discriminate|intros [H _]; congruence]].
  destruct (get_termination b) as [ts|].
  - assert (K : interval_known b) by (apply GT; eexists; reflexivity).
    destruct (b_strategy b); [split; [intros _; repeat split; auto; try congruence; left; congruence|intros _; eexists; reflexivity]|].
    destruct (b_heuristic b); [split; [intros _; repeat split; auto; try congruence; right; left; congruence|intros _; eexists; reflexivity]|].
    destruct (b_search b); [|split; [intros [c H]; discriminate|intros (_ & _ & [H|[H|[H _]]]); congruence]].
    destruct (b_diversify b); [|split; [intros [c H]; discriminate|intros (_ & _ & [H|[H|[_ H]]]); congruence]].
    split; [intros _; repeat split; auto; try congruence; right; right; split; congruence|intros _; eexists; reflexivity].
  - split; [intros [c H]; discriminate|]. intros (_ & K & _). apply GT in K. destruct K; discriminate.
Qed.

Lemma build_no_context (b : builder) : b_context b = None -> build b = inr EMissingContext.
Proof. intros H. unfold build. rewrite H. reflexivity. Qed.

Lemma sim_new_some (c c' : config) : sim_new c = Some c' -> c' = c /\ i_ops (cfg_initial c) <> [].
Proof. unfold sim_new. destruct (i_ops (cfg_initial c)) eqn:E; [discriminate|]. intros [= <-]. split; [reflexivity|discriminate]. Qed.

(* ---------- the initial stage ---------- *)
Lemma seeds_offered_length (c : config) : (length (seeds_offered c) <= i_max (cfg_initial c))%nat.
Proof. unfold seeds_offered. apply firstn_le_length. Qed.

Lemma seeds_offered_all (c : config) :
  (length (i_inds (cfg_initial c)) <= i_max (cfg_initial c))%nat -> seeds_offered c = i_inds (cfg_initial c).
Proof. intros H. unfold seeds_offered. apply firstn_all2. exact H. Qed.

Variable pre : Z -> context ind -> context ind.

Lemma created_slots_length (c : config) clock n : forall i idx, (length (created_slots pre c clock i n idx) <= n)%nat.
Proof.
  induction n as [|n IH]; intros i idx; cbn [created_slots length]; [lia|].
  destruct (has_solution pre c i && stop_at c clock i); cbn [length]; [lia|]. specialize (IH (S i) (S idx)). lia.
Qed.

Lemma created_slots_valid (c : config) clock n : forall i idx k,
  In (Some k) (created_slots pre c clock i n idx) -> (k < length (i_ops (cfg_initial c)))%nat.
Proof.
  induction n as [|n IH]; intros i idx k H; cbn [created_slots] in H; [destruct H|].
  destruct (has_solution pre c i && stop_at c clock i); [destruct H|]. destruct H as [H|H]; [|eapply IH; exact H].
  destruct (idx <? length (i_ops (cfg_initial c)))%nat eqn:E; [|discriminate]. injection H as <-. apply Nat.ltb_lt. exact E.
Qed.

Lemma created_slots_full (c : config) clock n :
  (forall i, stop_at c clock i = false) -> forall i idx, length (created_slots pre c clock i n idx) = n.
Proof.
  intros H. induction n as [|n IH]; intros i idx; cbn [created_slots length]; [reflexivity|].
  rewrite H, andb_false_r. cbn [length]. rewrite IH. reflexivity.
Qed.

(* the initial population never exceeds initial.max_size *)
Lemma init_offered_length (c : config) clock created : (length (init_offered pre c clock created) <= i_max (cfg_initial c))%nat.
Proof.
  unfold init_offered, init_slots. rewrite app_length, firstn_length.
  pose proof (seeds_offered_length c).
  pose proof (created_slots_length c clock (i_max (cfg_initial c) - length (seeds_offered c)) 0 (length (seeds_offered c))). lia.
Qed.

(* only a generation limit > 0 and a non-negative quota: the initial stage fills the population up to max_size *)
Lemma stop_at_maxgen_only (c : config) clock i :
  has_other_criteria (cfg_termination c) = false -> maxgen_terminated0 (cfg_termination c) = false ->
  0 <= i_quota (cfg_initial c) -> stop_at c clock i = false.
Proof.
  intros H1 H2 H3. unfold stop_at, maxgen_estimate0. rewrite H1, H2. cbn. apply Z.ltb_ge. lia.
Qed.

Lemma init_slots_full (c : config) clock :
  has_other_criteria (cfg_termination c) = false -> maxgen_terminated0 (cfg_termination c) = false ->
  0 <= i_quota (cfg_initial c) ->
  length (init_slots pre c clock) = (i_max (cfg_initial c) - length (seeds_offered c))%nat.
Proof. intros H1 H2 H3. unfold init_slots. apply created_slots_full. intros i. apply stop_at_maxgen_only; assumption. Qed.

(* a generation limit of 0 creates nothing when the population already holds a solution (a seed, or it was non-empty before) ... *)
Lemma init_slots_none (c : config) clock :
  maxgen_terminated0 (cfg_termination c) = true -> has_solution pre c 0 = true -> init_slots pre c clock = [].
Proof.
  intros H HS. unfold init_slots. destruct (i_max (cfg_initial c) - length (seeds_offered c))%nat; [reflexivity|].
  cbn [created_slots]. rewrite HS. unfold stop_at. rewrite H. reflexivity.
Qed.

(* ... and exactly one individual when the population is empty (/repo 2c5dd99: "build at least one solution") *)
Lemma has_solution_succ (c : config) i : has_solution pre c (S i) = true.
Proof. unfold has_solution. replace (0 <? length (seeds_offered c) + S i)%nat with true; [apply orb_true_r|]. symmetry. apply Nat.ltb_lt. lia. Qed.

Lemma init_slots_one (c : config) clock :
  maxgen_terminated0 (cfg_termination c) = true -> has_solution pre c 0 = false -> (0 < i_max (cfg_initial c))%nat ->
  length (init_slots pre c clock) = 1%nat.
Proof.
  intros H HS M. unfold init_slots.
  assert (K : length (seeds_offered c) = 0%nat).
  { unfold has_solution in HS. apply orb_false_iff in HS. destruct HS as [_ HS]. apply Nat.ltb_ge in HS. lia. }
  rewrite K. destruct (i_max (cfg_initial c) - 0)%nat as [|n] eqn:E; [lia|].
  cbn [created_slots]. rewrite HS. cbn [andb length]. f_equal.
  destruct n; [reflexivity|]. cbn [created_slots]. rewrite has_solution_succ. unfold stop_at. rewrite H. reflexivity.
Qed.

(* whatever the criteria, the quota and the clock: an empty population gets at least one operator-built individual (max_size > 0) *)
Lemma init_slots_nonempty (c : config) clock :
  has_solution pre c 0 = false -> (0 < i_max (cfg_initial c))%nat -> init_slots pre c clock <> [].
Proof.
  intros HS M. unfold init_slots.
  assert (K : length (seeds_offered c) = 0%nat).
  { unfold has_solution in HS. apply orb_false_iff in HS. destruct HS as [_ HS]. apply Nat.ltb_ge in HS. lia. }
  rewrite K. destruct (i_max (cfg_initial c) - 0)%nat as [|n] eqn:E; [lia|]. cbn [created_slots]. rewrite HS. cbn [andb]. discriminate.
Qed.

(* the population sees the seeds before anything else *)
Lemma evolve_ops_seeds_first (c : config) clock created gens :
  exists rest, evolve_ops pre c clock created gens = map OAdd (seeds_offered c) ++ rest.
Proof.
  unfold evolve_ops, solve_ops, init_offered. rewrite map_app, <- app_assoc. eexists. reflexivity.
Qed.

End B.

(* ================= has_solution ================= *)
Section HasSolution.
Context {ind : Type}.
Variable cmp : ind -> ind -> comparison.
Variable dedup : ind -> ind -> bool.
Hypothesis TP : total_preorder cmp.
Variable pre : Z -> context ind -> context ind.

(* `has_solution` (a count) is what the code tests (`ranked().next().is_some()`): after the seeds and i created individuals were offered
   to the freshly constructed population of the context, the population is non-empty exactly when has_solution c i *)
Lemma offered_map_add (l : list ind) : offered (map OAdd l) = l.
Proof. induction l as [|x l IH]; cbn; [reflexivity|]. rewrite IH. reflexivity. Qed.

Lemma has_solution_faithful (c : config ind) (xs : list ind) (p : pop ind) :
  start_state (snd (pre_process pre c)) ->
  run cmp dedup (map OAdd (seeds_offered c ++ xs)) (snd (pre_process pre c)) = Some p ->
  (has_solution pre c (length xs) = true <-> ranked p <> []).
Proof.
  intros ST R. pose proof (nonempty_iff_offered cmp dedup TP _ ST _ _ R) as N.
  rewrite offered_map_add in N.
  unfold size in N. unfold has_solution. rewrite orb_true_iff, negb_true_iff, Nat.ltb_lt.
  split.
  - intros H E. assert (L : ~ (0 < length (ranked p))%nat) by (rewrite E; cbn; lia). apply L, N.
    destruct H as [H|H].
    + destruct (ranked (snd (pre_process pre c))); [discriminate|]. discriminate.
    + intros E2. apply app_eq_nil in E2. destruct E2 as [_ E2]. apply (f_equal (@length ind)) in E2. rewrite app_length in E2. cbn in E2. lia.
  - intros H. assert (L : (0 < length (ranked p))%nat) by (destruct (ranked p); [congruence|cbn; lia]).
    apply N in L. destruct (ranked (snd (pre_process pre c))) as [|a l]; [right|left; reflexivity].
    cbn [app] in L. destruct (seeds_offered c ++ xs) eqn:E; [congruence|].
    apply (f_equal (@length ind)) in E. rewrite app_length in E. cbn in E. lia.
Qed.

End HasSolution.

(* ================= the run ================= *)
Section Run.
Context {ind : Type}.
Variable cmp : ind -> ind -> comparison.
Variable dedup : ind -> ind -> bool.
Hypothesis TP : total_preorder cmp.
Variable pre : Z -> context ind -> context ind.
Variable post : Z -> ind -> ind.
(* context hooks hand on a context whose population is in a constructor state; solution hooks do not make a solution worse *)
Hypothesis PRE : forall h c, start_state (snd c) -> start_state (snd (pre h c)).
Hypothesis POST : forall h s, cmp (post h s) s <> Gt.

Lemma pre_process_start (c : config ind) : start_state (snd (cfg_context c)) -> start_state (snd (pre_process pre c)).
Proof.
  unfold pre_process. generalize (cfg_context c). induction (fst (cfg_processing c)) as [|h l IH]; intros ctx H; cbn; [exact H|].
  apply IH. apply PRE. exact H.
Qed.

Lemma post_process_le (c : config ind) s : cmp (post_process post c s) s <> Gt.
Proof.
  unfold post_process. assert (G : forall l s0, cmp s0 s <> Gt -> cmp (fold_left (fun s1 h => post h s1) l s0) s <> Gt).
  { induction l as [|h l IH]; intros s0 H; cbn; [exact H|]. apply IH. destruct TP as [_ TR]. eapply TR; [apply POST|exact H]. }
  apply G. destruct TP as [AS _]. specialize (AS s s). destruct (cmp s s); cbn in AS; congruence.
Qed.

(* the run of a configuration: the returned solution is no worse than everything that reached the population *)
Lemma evolve_result_best (c : config ind) clock created gens r :
  start_state (snd (cfg_context c)) ->
  evolve cmp dedup pre post c clock created gens = OResult r ->
  forall x, In x (init_offered pre c clock created) \/ (exists g, In g gens /\ In x (gen_offspring g)) ->
  exists b, hd_error r = Some b /\ cmp b x <> Gt.
Proof.
  intros ST. unfold evolve. destruct (cfg_strategy c); [discriminate|].
  destruct (run cmp dedup (evolve_ops pre c clock created gens) (snd (pre_process pre c))) as [p|] eqn:R; [|discriminate].
  intros [= <-] x Hx.
  assert (SV : solve cmp dedup (snd (pre_process pre c)) (init_offered pre c clock created) gens = Some (hd_error (ranked p))).
  { unfold solve. unfold evolve_ops in R. rewrite R. reflexivity. }
  destruct (solve_result_best cmp dedup TP _ (pre_process_start c ST) _ _ _ SV x) as (b & Hb & Hle).
  { destruct Hx as [Hx|Hx]; [right; left; exact Hx|right; right; exact Hx]. }
  exists (post_process post c b). split.
  - destruct (ranked p) as [|b0 l]; [discriminate|]. cbn in Hb. injection Hb as ->. reflexivity.
  - destruct TP as [_ TR]. eapply TR; [apply post_process_le|exact Hle].
Qed.

Lemma evolve_seeded (c : config ind) clock created gens r :
  start_state (snd (cfg_context c)) ->
  evolve cmp dedup pre post c clock created gens = OResult r ->
  forall x, In x (seeds_offered c) -> exists b, hd_error r = Some b /\ cmp b x <> Gt.
Proof.
  intros ST E x Hx. eapply evolve_result_best; eauto. left. unfold init_offered. apply in_or_app. left. exact Hx.
Qed.

(* builder -> build -> EvolutionSimulator::new -> run, for ALL orders of setter calls *)
Lemma builder_seeded_never_worse (calls pre_calls post_calls : list (setter ind)) Sd m clock created gens r :
  calls = pre_calls ++ WithInitSolutions Sd m :: post_calls ->
  (forall s, In s post_calls -> is_init_solutions s = false) ->
  (forall c, In (WithContext c) calls -> start_state (snd c)) ->
  solve_with cmp dedup pre post calls clock created gens = Some (OResult r) ->
  forall x, In x (firstn (i_max (b_initial (apply_all calls default_builder))) Sd) ->
  exists b, hd_error r = Some b /\ cmp b x <> Gt.
Proof.
  intros -> NO CTX. unfold solve_with.
  destruct (build (apply_all (pre_calls ++ WithInitSolutions Sd m :: post_calls) default_builder)) as [c|e] eqn:B; [|discriminate].
  destruct (sim_new c) as [c'|] eqn:SN; [|discriminate]. apply sim_new_some in SN. destruct SN as [-> _].
  intros [= E] x Hx. destruct (build_fields _ _ B) as (FI & _ & FC).
  eapply evolve_seeded; [|exact E|].
  - apply CTX. destruct (context_origin _ _ _ FC) as [H|H]; [discriminate|exact H].
  - unfold seeds_offered. rewrite FI. rewrite seeds_last by assumption. exact Hx.
Qed.

Lemma builder_all_seeds_never_worse (calls pre_calls post_calls : list (setter ind)) Sd m clock created gens r :
  calls = pre_calls ++ WithInitSolutions Sd m :: post_calls ->
  (forall s, In s post_calls -> is_init_solutions s = false) ->
  (forall c, In (WithContext c) calls -> start_state (snd c)) ->
  (length Sd <= i_max (b_initial (apply_all calls default_builder)))%nat ->
  solve_with cmp dedup pre post calls clock created gens = Some (OResult r) ->
  forall x, In x Sd -> exists b, hd_error r = Some b /\ cmp b x <> Gt.
Proof.
  intros H1 H2 H3 H4 H5 x Hx. eapply builder_seeded_never_worse; eauto. rewrite firstn_all2 by exact H4. exact Hx.
Qed.

(* ... and the population of the configured context is offered exactly these seeds before anything else *)
Lemma builder_seeds_offered_first (calls pre_calls post_calls : list (setter ind)) Sd m c :
  calls = pre_calls ++ WithInitSolutions Sd m :: post_calls ->
  (forall s, In s post_calls -> is_init_solutions s = false) ->
  build (apply_all calls default_builder) = inl c ->
  seeds_offered c = firstn (i_max (b_initial (apply_all calls default_builder))) Sd /\
  forall clock created gens, exists rest, evolve_ops pre c clock created gens = map OAdd (seeds_offered c) ++ rest.
Proof.
  intros -> NO B. destruct (build_fields _ _ B) as (FI & _ & _). split.
  - unfold seeds_offered. rewrite FI, seeds_last by assumption. reflexivity.
  - intros. apply evolve_ops_seeds_first.
Qed.

End Run.

(* ================= no panic ================= *)
Section NoPanic.
Context {ind : Type}.
Variable cmp : ind -> ind -> comparison.
Variable dedup : ind -> ind -> bool.

(* a freshly constructed population whose Rosomaxa configuration (if it is one) has initial_size >= 4 never panics *)
Definition panic_free (p : pop ind) : Prop := forall r, p = PR r -> (4 <= c_initial (r_cfg r))%nat.

Lemma start_state_no_panic (p : pop ind) ops : start_state p -> panic_free p -> run cmp dedup ops p <> None.
Proof.
  intros [(sel & best & ->)|[(mx & sel & H)|(c & H)]] PF.
  - apply non_rosomaxa_no_panic. intros r; discriminate.
  - unfold elitism_new in H. destruct (mx <? 1)%nat; [discriminate|]. injection H as <-. apply non_rosomaxa_no_panic. intros r; discriminate.
  - eapply rosomaxa_no_panic; [|exact H]. unfold rosomaxa_new, r_new in H.
    destruct ((c_elite c <? 1)%nat || (c_sel c <? 2)%nat); [discriminate|]. cbn in H. injection H as <-. apply (PF _ eq_refl).
Qed.

Lemma evolve_no_panic (pre : Z -> context ind -> context ind) (post : Z -> ind -> ind) (c : config ind) clock created gens :
  start_state (snd (pre_process pre c)) -> panic_free (snd (pre_process pre c)) ->
  evolve cmp dedup pre post c clock created gens <> OPanic.
Proof.
  intros ST PF. unfold evolve. destruct (cfg_strategy c); [discriminate|].
  destruct (run cmp dedup (evolve_ops pre c clock created gens) (snd (pre_process pre c))) eqn:R; [discriminate|].
  exfalso. eapply start_state_no_panic; eauto.
Qed.

End NoPanic.

(* ================= get_default_population ================= *)
Section Default.
Context {ind : Type}.

Lemma default_population_none (sel : nat) : @default_population ind sel = None <-> sel = 0%nat.
Proof. destruct sel as [|[|n]]; cbn; split; intros H; try reflexivity; try discriminate. Qed.

Lemma default_population_spec (sel : nat) (p : pop ind) : default_population sel = Some p ->
  start_state p /\ selection_size p = sel /\ (1 <= sel)%nat /\
  (sel = 1%nat -> p = greedy_new 1 None) /\
  (sel <> 1%nat -> exists r, p = PR r /\ r_cfg r = default_rconfig sel /\ r_phase r = PInitial []).
Proof.
  destruct sel as [|[|n]]; [discriminate| |].
  - intros [= <-]. repeat split; auto.
    + left. exists 1%nat, None. reflexivity.
    + intros H; congruence.
  - intros H. assert (H' := H). cbn in H. injection H as <-. repeat split; cbn; auto.
    + right; right. exists (default_rconfig (S (S n))). exact H'.
    + lia.
    + intros; congruence.
    + intros _. eexists. repeat split.
Qed.

(* the default population never panics in Network::new: its initial_size is 16 *)
Lemma default_population_no_panic (cmp : ind -> ind -> comparison) dedup (sel : nat) (p : pop ind) ops :
  default_population sel = Some p -> run cmp dedup ops p <> None.
Proof.
  unfold default_population. destruct (sel =? 1)%nat.
  - intros [= <-]. apply non_rosomaxa_no_panic. intros r; discriminate.
  - intros H. eapply rosomaxa_no_panic; [|exact H]. cbn. lia.
Qed.

End Default.

(* ================= the setter sequences of the VRP front ends ================= *)
Section Cli.
Context {ind : Type}.

Lemma cli_config_initial (h : Z) ctx ch sh ops (solutions : list ind) evo_initial evo_population hyper termination :
  let b := apply_all (cli_config_calls h ctx ch sh ops solutions evo_initial evo_population hyper termination) default_builder in
  i_inds (b_initial b) = solutions /\
  i_max (b_initial b) = match evo_initial with Some (m, _, _) => m | None => 4%nat end /\
  i_ops (b_initial b) = match evo_initial with Some (_, _, o) => o | None => ops end /\
  b_context b = Some (match evo_population with Some c => c | None => ctx end).
Proof.
  destruct evo_initial as [[[m q] o]|], evo_population, hyper, termination as [[[t g] cv]|]; cbn; repeat split; reflexivity.
Qed.

Lemma cli_args_initial (h : Z) ctx ch sh ops (solutions : list ind) init_size g t cv ctx' :
  let b := apply_all (cli_args_calls h ctx ch sh ops solutions init_size g t cv ctx') default_builder in
  i_inds (b_initial b) = solutions /\
  i_max (b_initial b) = match init_size with Some m => m | None => 4%nat end /\
  i_ops (b_initial b) = ops /\ b_context b = Some ctx'.
Proof. destruct init_size; cbn; repeat split; reflexivity. Qed.

End Cli.

(* ================= witnesses ================= *)
(* both orders of the two setters, Elitism: the seed with key 3 is returned although the operators create worse individuals *)
Lemma builder_nonvacuous :
  forall first_seeds : bool,
  let a := ZInitSolutions [ZI 1 3 0 10; ZI 2 9 0 30] None in
  let b := ZInitial 4 50 [(10, 1)] in
  run_builder ([ZHeuristic 20; ZContext 70 (ZPElitism 4 2)] ++ (if first_seeds then [a; b] else [b; a]) ++ [ZMaxGen (Some 2)])
              [] [ZI 11 20 0 50; ZI 12 22 0 70; ZI 13 24 0 90] [[ZI 21 15 0 55]; []; []] =
  (0, 70, [(0, 2)], (1, 20), 4, ([], []), [1; 2], [-1; -1],
   [(0, [1]); (0, [2]); (0, [11]); (0, [12]); (3, []); (1, [21]); (2, []); (3, []); (1, []); (2, []); (3, []); (1, []); (2, []); (4, [])],
   [1], false, (2, 4, [1; 1])).
Proof. intros [|]; vm_compute; reflexivity. Qed.

(* max_size cuts the seeds: with_init_solutions(S, Some 1) offers only the first seed, and the better second one is not protected *)
Lemma builder_max_size_cuts_seeds :
  run_builder [ZHeuristic 20; ZContext 70 (ZPGreedy 1); ZInitial 4 50 [(10, 1)]; ZInitSolutions [ZI 1 9 0 10; ZI 2 3 0 30] (Some 1);
               ZMaxGen (Some 0)] [] [] [] =
  (0, 70, [(0, 0)], (1, 20), 1, ([], []), [1], [], [(0, [1]); (4, [])], [1], false, (2, 1, [1])).
Proof. vm_compute. reflexivity. Qed.
