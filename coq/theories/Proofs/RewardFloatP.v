(* C18 — the reward estimation of DynamicSelective over IEEE-754 binary64 (Model/SelectorF.v: frelv, frel_dist, fdistance_reward,
   fperf_multiplier, f_reward), with the technique of Proofs/SlotFloatP.v (Flocq bridge, monotone rounding between representable
   bounds): for all fitness vectors whose components are finite with magnitude <= 2^1022 and fewer than 2^50 objectives, the
   reward is finite, 0 <= reward <= 3 (2N + 1) before and (fewer than 2^48 objectives) <= 9 (2N + 1) after the performance multiplier - exactly the bounds of
   the exact-arithmetic model, no rounding slack (every bound is a representable number and rounding is monotone).
   Depends on the same standard-library axioms as SlotFloatP.v; declares nothing itself. *)
From Coq Require Import ZArith Reals Floats Lia Lra List Psatz Bool.
From Flocq Require Import Core.Core IEEE754.BinarySingleNaN IEEE754.PrimFloat.
From VRP Require Import Model.SlotF Model.Reward Model.Selector Model.SelectorF Proofs.SlotFloatP.
Import ListNotations.
Local Open Scope R_scope.

(* ---------- helpers ---------- *)
Lemma is_nan_fin x : Ffin x -> PrimFloat.is_nan x = false.
Proof. unfold Ffin. rewrite is_nan_equiv. destruct (Prim2B x); cbn; congruence. Qed.

Lemma fmt_double x : Fmt x -> Fmt (2 * x).
Proof.
  unfold Fmt. change fexp with (FLT_exp (-1074) 53). intros H. apply FLT_format_generic in H; [|reflexivity].
  destruct H as [f Hf1 Hf2 Hf3]. apply generic_format_FLT.
  exists (Float radix2 (Fnum f) (Fexp f + 1)).
  - rewrite Hf1. unfold F2R. cbn [Fnum Fexp]. rewrite bpow_plus. replace (bpow radix2 1) with 2 by (simpl; lra). ring.
  - exact Hf2.
  - cbn [Fexp]. lia.
Qed.

Lemma fmaxr_fin x y : Ffin x -> Ffin y -> Ffin (fmaxr x y) /\ FR (fmaxr x y) = Rmax (FR x) (FR y).
Proof.
  intros Hx Hy. unfold fmaxr. rewrite (is_nan_fin x Hx), (is_nan_fin y Hy).
  destruct (x <? y)%float eqn:E.
  - apply (ltb_real x y Hx Hy) in E. split; [exact Hy|]. rewrite Rmax_right; lra.
  - split; [exact Hx|]. rewrite Rmax_left; [reflexivity|].
    destruct (Rle_lt_dec (FR y) (FR x)) as [H|H]; [exact H|]. apply (ltb_real x y Hx Hy) in H. congruence.
Qed.

Lemma FR_m1 : FR (-1)%float = -1.
Proof. rewrite (FR_SF (-1)%float (S754_finite true 4503599627370496 (-52)) eq_refl). unfold SF2R, F2R; simpl. lra. Qed.
Lemma Ffin_m1 : Ffin (-1)%float. Proof. eapply Ffin_SF; [vm_compute; reflexivity | reflexivity]. Qed.

Lemma fmt_2 : Fmt 2. Proof. rewrite <- FR_2. apply fmt_FR. Qed.
Lemma Big_gt_2 : 2 < Big. Proof. change 2 with (bp2 1). apply bp2_lt_Big. lia. Qed.

Lemma fmt_IZR z : (Z.abs z < 2 ^ 53)%Z -> Fmt (IZR z).
Proof. intros H. replace (IZR z) with (IZR z * bp2 0) by (simpl; lra). apply fmt_int_pow; lia. Qed.
Lemma IZR_lt_Big z : (Z.abs z < 2 ^ 53)%Z -> - Big < IZR z < Big.
Proof.
  intros H. pose proof Big_gt_2p53 as HB.
  assert (- IZR (2 ^ 53) < IZR z < IZR (2 ^ 53)) by (rewrite <- opp_IZR; split; apply IZR_lt; lia). lra.
Qed.

(* the executable bound used in the statements: |x| <= 2^1022 (false for NaN and infinities) *)
Definition fit_ok (x : pfloat) : bool := (abs x <=? 0x1p1022)%float.
Definition fitR (x : pfloat) : Prop := Ffin x /\ Rabs (FR x) <= bp2 1022.
Lemma fit_ok_R x : fit_ok x = true -> fitR x.
Proof.
  unfold fit_ok, fitR. intros H. rewrite <- (FR_pow2 0x1p1022%float 1022 eq_refl).
  apply leb_abs_bound; [apply (Ffin_pow2 0x1p1022%float 1022 eq_refl) | exact H].
Qed.

(* ---------- |a - b| / max(|a|, |b|) ---------- *)
Lemma frelv_range_pos a b : fitR a -> fitR b -> 0 < Rmax (Rabs (FR a)) (Rabs (FR b)) ->
  Ffin (frelv a b) /\ 0 <= FR (frelv a b) <= 2.
Proof.
  intros [Ha Ba] [Hb Bb] Hpos. unfold frelv.
  destruct (fmaxr_fin (abs a) (abs b) (Ffin_abs a Ha) (Ffin_abs b Hb)) as [Hm1 Hm2]. rewrite !FR_abs in Hm2.
  set (m := fmaxr (abs a) (abs b)) in *. set (M := FR m) in *.
  assert (HMa : Rabs (FR a) <= M) by (rewrite Hm2; apply Rmax_l).
  assert (HMb : Rabs (FR b) <= M) by (rewrite Hm2; apply Rmax_r).
  assert (HM1022 : M <= bp2 1022) by (rewrite Hm2; apply Rmax_lub; assumption).
  assert (HMpos : 0 < M) by (rewrite Hm2; exact Hpos).
  assert (F2M : Fmt (2 * M)) by (apply fmt_double; unfold M; apply fmt_FR).
  assert (E1023 : bp2 1023 = 2 * bp2 1022) by (change 1023%Z with (1 + 1022)%Z; rewrite bpow_plus; simpl; lra).
  assert (HB : bp2 1023 < Big) by (apply bp2_lt_Big; lia).
  apply Rabs_le_inv in HMa, HMb.
  destruct (sub_iv a b (- (2 * M)) (2 * M) Ha Hb (fmt_opp _ F2M) F2M) as (Hd1 & _ & Hd3); [lra | lra | lra |].
  set (d := (a - b)%float) in *.
  assert (Hq : 0 <= FR (abs d) / M <= 2).
  { rewrite FR_abs. split.
    - apply Rmult_le_pos; [apply Rabs_pos | apply Rlt_le, Rinv_0_lt_compat, HMpos].
    - apply Rmult_le_reg_r with M; [exact HMpos|]. unfold Rdiv. rewrite Rmult_assoc, Rinv_l by lra. rewrite Rmult_1_r.
      apply Rabs_le. lra. }
  destruct (div_iv (abs d) m 0 2 (Ffin_abs d Hd1)) as (Hq1 & _ & Hq3);
    [fold M; lra | apply fmt_0 | apply fmt_2 | pose proof Big_gt_2; lra | apply Big_gt_2 | exact Hq |].
  split; assumption.
Qed.

Lemma frelv_range a b : fitR a -> fitR b -> FR a <> FR b ->
  Ffin (frelv a b) /\ 0 <= FR (frelv a b) <= 2.
Proof.
  intros Oa Ob Hne. apply frelv_range_pos; try assumption.
  destruct (Rle_lt_dec (Rmax (Rabs (FR a)) (Rabs (FR b))) 0) as [H0|H0]; [|exact H0]. exfalso. apply Hne.
  pose proof (Rabs_pos (FR a)). pose proof (Rabs_pos (FR b)).
  pose proof (Rmax_l (Rabs (FR a)) (Rabs (FR b))). pose proof (Rmax_r (Rabs (FR a)) (Rabs (FR b))).
  assert (Ea : Rabs (FR a) = 0) by lra. assert (Eb : Rabs (FR b) = 0) by lra.
  destruct (Req_dec (FR a) 0) as [Za|Za]; [|apply Rabs_no_R0 in Za; lra].
  destruct (Req_dec (FR b) 0) as [Zb|Zb]; [|apply Rabs_no_R0 in Zb; lra]. lra.
Qed.

(* ---------- first differing position ---------- *)
Lemma ffirst_diff_spec : forall fa fb i k, ffirst_diff fa fb i = Some k ->
  exists j, k = (i + j)%nat /\ (j < length fa)%nat /\ (j < length fb)%nat /\ fneb (nth j fa 0%float) (nth j fb 0%float) = true.
Proof.
  induction fa as [|a fa IH]; intros fb i k H; cbn [ffirst_diff] in H; [discriminate|].
  destruct fb as [|b fb]; [discriminate|].
  destruct (fneb a b) eqn:E.
  - injection H as <-. exists 0%nat. cbn [nth length]. repeat split; try lia. exact E.
  - destruct (IH fb (S i) k H) as (j & Hk & Ha & Hb & Hn). exists (S j). cbn [nth length]. repeat split; try lia. exact Hn.
Qed.

Lemma fneb_real a b : Ffin a -> Ffin b -> fneb a b = true -> FR a <> FR b.
Proof.
  intros Ha Hb H Heq. unfold fneb in H. apply negb_true_iff in H.
  apply (eqb_real a b Ha Hb) in Heq. congruence.
Qed.

Lemma Forall_nth_ok (P : pfloat -> Prop) l j : Forall P l -> (j < length l)%nat -> P (nth j l 0%float).
Proof. intros H Hj. rewrite Forall_forall in H. apply H. apply nth_In. exact Hj. Qed.

(* ---------- get_relative_distance: finite, |distance| <= 2 N ---------- *)
Lemma frel_dist_range ord fa fb : Forall fitR fa -> Forall fitR fb -> (Z.of_nat (length fa) < 2 ^ 50)%Z ->
  Ffin (frel_dist ord fa fb) /\ Rabs (FR (frel_dist ord fa fb)) <= 2 * INR (length fa).
Proof.
  intros Hfa Hfb Hlen. pose proof (pos_INR (length fa)) as HN.
  assert (Hzero : Ffin 0%float /\ Rabs (FR 0%float) <= 2 * INR (length fa)).
  { split; [exact Ffin_0|]. rewrite FR_0, Rabs_R0. lra. }
  assert (Hgen : forall s, Ffin s -> Rabs (FR s) = 1 ->
     match ffirst_diff fa fb 0 with
     | None => Ffin 0%float /\ Rabs (FR 0%float) <= 2 * INR (length fa)
     | Some idx =>
         Ffin (frelv (nth idx fa 0%float) (nth idx fb 0%float) * s * f_of_nat (length fa - idx))%float /\
         Rabs (FR (frelv (nth idx fa 0%float) (nth idx fb 0%float) * s * f_of_nat (length fa - idx))%float) <= 2 * INR (length fa)
     end).
  { intros s Hs Bs. destruct (ffirst_diff fa fb 0) as [idx|] eqn:Ed; [|exact Hzero].
    destruct (ffirst_diff_spec fa fb 0 idx Ed) as (j & -> & Hja & Hjb & Hn). cbn [Nat.add].
    pose proof (Forall_nth_ok fitR fa j Hfa Hja) as Oa. pose proof (Forall_nth_ok fitR fb j Hfb Hjb) as Ob.
    destruct (frelv_range _ _ Oa Ob (fneb_real _ _ (proj1 Oa) (proj1 Ob) Hn)) as [Hv Bv].
    set (v := frelv (nth j fa 0%float) (nth j fb 0%float)) in *.
    pose proof Big_gt_2 as HB2.
    destruct (mul_iv v s (-2) 2 Hv Hs (fmt_opp _ fmt_2) fmt_2) as (Hp1 & _ & Hp3); [lra | lra | |].
    { apply Rabs_le_inv. rewrite Rabs_mult, Bs, Rmult_1_r. rewrite Rabs_pos_eq; lra. }
    destruct (fnat_ok (length fa - j)) as [Hn1 Hn2]; [lia|].
    assert (Hamp : 1 <= INR (length fa - j) <= INR (length fa)).
    { split; [change 1 with (INR 1); apply le_INR; lia | apply le_INR; lia]. }
    set (L := IZR (2 * Z.of_nat (length fa))).
    assert (EL : L = 2 * INR (length fa)) by (unfold L; rewrite mult_IZR, <- INR_IZR_INZ; reflexivity).
    assert (HzL : (Z.abs (2 * Z.of_nat (length fa)) < 2 ^ 53)%Z) by lia.
    assert (HzL' : (Z.abs (- (2 * Z.of_nat (length fa))) < 2 ^ 53)%Z) by lia.
    destruct (mul_iv (v * s)%float (f_of_nat (length fa - j)) (- L) L Hp1 Hn1) as (Hr1 & _ & Hr3).
    - unfold L. rewrite <- opp_IZR. apply fmt_IZR. exact HzL'.
    - apply fmt_IZR. exact HzL.
    - pose proof (IZR_lt_Big _ HzL). fold L in H. lra.
    - pose proof (IZR_lt_Big _ HzL). fold L in H. lra.
    - rewrite Hn2, EL. set (y := INR (length fa - j)) in *. set (x := FR (v * s)%float) in *. nra.
    - split; [exact Hr1|]. apply Rabs_le. lra. }
  unfold frel_dist. destruct ord.
  - exact Hzero.
  - assert (G := Hgen 1%float Ffin_1 ltac:(rewrite FR_1; apply Rabs_R1)). destruct (ffirst_diff fa fb 0); exact G.
  - assert (G := Hgen (-1)%float Ffin_m1 ltac:(rewrite FR_m1; unfold Rabs; destruct (Rcase_abs (-1)); lra)). destruct (ffirst_diff fa fb 0); exact G.
Qed.

(* ---------- estimate_distance_reward ---------- *)
Lemma c005_ok : Ffin c005f /\ 0 < FR c005f <= 1.
Proof.
  assert (Hc : Ffin c005f) by (eapply Ffin_SF; [vm_compute; reflexivity | reflexivity]).
  split; [exact Hc|]. split.
  - rewrite <- FR_0. apply ltb_real; [exact Ffin_0 | exact Hc |]. vm_compute. reflexivity.
  - rewrite <- FR_1. apply leb_real; [exact Hc | exact Ffin_1 |]. vm_compute. reflexivity.
Qed.

Lemma fdistance_reward_range best o1 o2 fnew finit :
  Forall fitR fnew -> Forall fitR finit -> (forall fb, best = Some fb -> Forall fitR fb) -> (Z.of_nat (length fnew) < 2 ^ 50)%Z ->
  Ffin (fdistance_reward best o1 o2 fnew finit) /\
  0 <= FR (fdistance_reward best o1 o2 fnew finit) <= 3 * (2 * INR (length fnew) + 1).
Proof.
  intros Hn Hi Hb Hlen. pose proof (pos_INR (length fnew)) as HN. set (N := INR (length fnew)) in *.
  assert (Hzero : Ffin 0%float /\ 0 <= FR 0%float <= 3 * (2 * N + 1)) by (split; [exact Ffin_0 | rewrite FR_0; lra]).
  unfold fdistance_reward. destruct best as [fbest|]; [|exact Hzero].
  destruct (frel_dist_range o1 fnew finit Hn Hi Hlen) as [Hdi Bdi].
  destruct (frel_dist_range o2 fnew fbest Hn (Hb fbest eq_refl) Hlen) as [Hdb Bdb]. fold N in Bdi, Bdb.
  set (di := frel_dist o1 fnew finit) in *. set (db := frel_dist o2 fnew fbest) in *.
  apply Rabs_le_inv in Bdi, Bdb.
  (* representable bounds *)
  set (zn := Z.of_nat (length fnew)).
  assert (EN : N = IZR zn) by (unfold N, zn; apply INR_IZR_INZ).
  assert (F1 : Fmt (2 * N + 1) /\ 2 * N + 1 < Big).
  { replace (2 * N + 1) with (IZR (2 * zn + 1)) by (rewrite plus_IZR, mult_IZR, EN; reflexivity).
    split; [apply fmt_IZR; unfold zn; lia | apply IZR_lt_Big; unfold zn; lia]. }
  assert (F2 : Fmt (2 * (2 * N + 1)) /\ 2 * (2 * N + 1) < Big).
  { replace (2 * (2 * N + 1)) with (IZR (2 * (2 * zn + 1))) by (rewrite mult_IZR, plus_IZR, mult_IZR, EN; reflexivity).
    split; [apply fmt_IZR; unfold zn; lia | apply IZR_lt_Big; unfold zn; lia]. }
  assert (F3 : Fmt (3 * (2 * N + 1)) /\ 3 * (2 * N + 1) < Big).
  { replace (3 * (2 * N + 1)) with (IZR (3 * (2 * zn + 1))) by (rewrite mult_IZR, plus_IZR, mult_IZR, EN; reflexivity).
    split; [apply fmt_IZR; unfold zn; lia | apply IZR_lt_Big; unfold zn; lia]. }
  pose proof Big_gt_1 as HB1.
  unfold fgt0. destruct (0 <? di)%float eqn:Egi; [|exact Hzero].
  apply (ltb_real _ _ Ffin_0 Hdi) in Egi. rewrite FR_0 in Egi.
  destruct (add_iv di 1 1 (2 * N + 1) Hdi Ffin_1 fmt_1 (proj1 F1)) as (Ha1 & _ & Ha3); [lra | apply F1 | rewrite FR_1; lra |].
  destruct (0 <? db)%float eqn:Egb.
  - apply (ltb_real _ _ Ffin_0 Hdb) in Egb. rewrite FR_0 in Egb.
    destruct (add_iv db 1 1 (2 * N + 1) Hdb Ffin_1 fmt_1 (proj1 F1)) as (Hb1 & _ & Hb3); [lra | apply F1 | rewrite FR_1; lra |].
    destruct (mul_iv (db + 1)%float 2 2 (2 * (2 * N + 1)) Hb1 Ffin_2 fmt_2 (proj1 F2)) as (Hc1 & _ & Hc3);
      [pose proof Big_gt_2; lra | apply F2 | rewrite FR_2; lra |].
    destruct (add_iv (di + 1)%float ((db + 1) * 2)%float 0 (3 * (2 * N + 1)) Ha1 Hc1 fmt_0 (proj1 F3)) as (Hs1 & _ & Hs3);
      [lra | apply F3 | lra |].
    split; assumption.
  - destruct c005_ok as (Hc & Bc).
    destruct (mul_iv (di + 1)%float c005f 0 (2 * N + 1) Ha1 Hc fmt_0 (proj1 F1)) as (Hm1 & _ & Hm3); [lra | apply F1 | nra |].
    split; [exact Hm1 | lra].
Qed.

(* ---------- estimate_reward_perf_multiplier: one of twelve constants, whatever the inputs are ---------- *)
Definition perf_values : list pfloat :=
  [3; 0x1.2p0; 0x1.8p0; 0x1.4p1; 0x1.ep-1; 0x1.4p0; 0x1.8p0; 0x1.2p-1; 0x1.8p-1; 2; 0x1.8p-1; 1]%float.

Lemma fperf_multiplier_values ratio median duration imp : In (fperf_multiplier ratio median duration imp) perf_values.
Proof.
  unfold fperf_multiplier. set (r := fclamp _ _ _).
  destruct (r <? 0.75)%float, (r <? 1)%float, (1.5 <? r)%float, imp, (ratio <? c005f)%float, (c015f <? ratio)%float;
    vm_compute; tauto.
Qed.

Lemma const_range c : PrimFloat.is_finite c = true -> (0x1p-1 <? c)%float = true -> (c <=? 3)%float = true ->
  Ffin c /\ / 2 < FR c <= 3.
Proof.
  intros H1 H2 H3. apply is_finite_Ffin in H1. split; [exact H1|].
  assert (H05 : Ffin 0x1p-1%float) by (eapply Ffin_SF; [vm_compute; reflexivity | reflexivity]).
  assert (H3f : Ffin 3%float) by (eapply Ffin_SF; [vm_compute; reflexivity | reflexivity]).
  assert (E05 : FR 0x1p-1%float = / 2).
  { rewrite (FR_SF 0x1p-1%float (S754_finite false 4503599627370496 (-53)) eq_refl). unfold SF2R, F2R; simpl. lra. }
  assert (E3 : FR 3%float = 3).
  { rewrite (FR_SF 3%float (S754_finite false 6755399441055744 (-51)) eq_refl). unfold SF2R, F2R; simpl. lra. }
  apply (ltb_real _ _ H05 H1) in H2. apply (leb_real _ _ H1 H3f) in H3. lra.
Qed.

Lemma fperf_multiplier_range ratio median duration imp :
  Ffin (fperf_multiplier ratio median duration imp) /\ / 2 < FR (fperf_multiplier ratio median duration imp) <= 3.
Proof.
  pose proof (fperf_multiplier_values ratio median duration imp) as H. unfold perf_values in H.
  repeat (destruct H as [<-|H]; [apply const_range; vm_compute; reflexivity|]). destruct H.
Qed.

(* ---------- SearchAction::take: reward = base * multiplier ---------- *)
Section Take.
  Variable ord : list pfloat -> list pfloat -> comparison.

  Definition env_ok (e : fenv) : Prop := forall fb, fe_best e = Some fb -> Forall fitR fb.
  Definition outcome_ok (N : nat) (o : foutcome) : Prop :=
    Forall fitR (fo_init o) /\ Forall fitR (fo_new o) /\ (length (fo_new o) <= N)%nat.

  Lemma f_reward_range e median o N : env_ok e -> outcome_ok N o -> (Z.of_nat N < 2 ^ 48)%Z ->
    Ffin (f_reward ord e median o) /\ 0 <= FR (f_reward ord e median o) <= 9 * (2 * INR N + 1).
  Proof.
    intros He (Hi & Hn & HlN) HN. unfold f_reward.
    set (o_nb := cmp_to_best ord (fe_best e) (fo_new o)).
    set (inb := match o_nb with Lt => true | _ => false end).
    destruct (fdistance_reward_range (fe_best e) (ord (fo_new o) (fo_init o)) o_nb (fo_new o) (fo_init o) Hn Hi He ltac:(lia)) as [Hb Bb].
    destruct (fperf_multiplier_range (fe_ratio e) median (fo_duration o) inb) as [Hm Bm].
    set (b := fdistance_reward _ _ _ _ _) in *. set (m := fperf_multiplier _ _ _ _) in *.
    assert (HNN : INR (length (fo_new o)) <= INR N) by (apply le_INR; exact HlN).
    pose proof (pos_INR (length (fo_new o))) as H0.
    set (zn := Z.of_nat N). assert (EN : INR N = IZR zn) by (unfold zn; apply INR_IZR_INZ).
    assert (F9 : Fmt (9 * (2 * INR N + 1)) /\ 9 * (2 * INR N + 1) < Big).
    { replace (9 * (2 * INR N + 1)) with (IZR (9 * (2 * zn + 1))) by (rewrite mult_IZR, plus_IZR, mult_IZR, EN; reflexivity).
      split; [apply fmt_IZR; unfold zn; lia | apply IZR_lt_Big; unfold zn; lia]. }
    pose proof Big_gt_1.
    destruct (mul_iv b m 0 (9 * (2 * INR N + 1)) Hb Hm fmt_0 (proj1 F9)) as (Hr1 & _ & Hr3); [lra | apply F9 | nra |].
    split; assumption.
  Qed.

  (* ... hence within the bounds under which the learning state of a slot is proved valid (Proofs/SlotFloatP.v) *)
  Lemma f_reward_fbounded e median o N : env_ok e -> outcome_ok N o -> (Z.of_nat N < 2 ^ 48)%Z ->
    fbounded (f_reward ord e median o) = true.
  Proof.
    intros He Ho HN. destruct (f_reward_range e median o N He Ho HN) as [Hf [B0 B1]].
    unfold fbounded. apply leb_real; [apply Ffin_abs, Hf | apply (Ffin_pow2 0x1p480%float 480 eq_refl) |].
    rewrite FR_abs, (FR_pow2 0x1p480%float 480 eq_refl). rewrite Rabs_pos_eq by exact B0.
    eapply Rle_trans; [exact B1|].
    apply Rle_trans with (bp2 55).
    - rewrite INR_IZR_INZ. change (bp2 55) with (IZR (2 ^ 55)). rewrite <- (mult_IZR 2), <- (plus_IZR _ 1), <- mult_IZR. apply IZR_le. lia.
    - apply bpow_le. lia.
  Qed.
End Take.

(* ---------- the same facts with executable hypotheses and conclusions (the form stated in Properties/C18.v) ---------- *)
Definition fits_ok (l : list pfloat) : bool := forallb fit_ok l.

Lemma fits_ok_R l : fits_ok l = true -> Forall fitR l.
Proof.
  unfold fits_ok. rewrite forallb_forall. intros H. apply Forall_forall. intros x Hx. apply fit_ok_R, H, Hx.
Qed.

Theorem float_relative_value_range a b : fit_ok a = true -> fit_ok b = true -> (a =? b)%float = false ->
  PrimFloat.is_finite (frelv a b) = true /\ (0 <=? frelv a b)%float = true /\ (frelv a b <=? 2)%float = true.
Proof.
  intros Ha Hb Hne. apply fit_ok_R in Ha, Hb.
  assert (Hr : FR a <> FR b).
  { intros Heq. apply (eqb_real a b (proj1 Ha) (proj1 Hb)) in Heq. congruence. }
  destruct (frelv_range a b Ha Hb Hr) as [Hf [B0 B2]].
  split; [apply is_finite_Ffin, Hf|]. split.
  - apply leb_real; [exact Ffin_0 | exact Hf | rewrite FR_0; exact B0].
  - apply leb_real; [exact Hf | exact Ffin_2 | rewrite FR_2; exact B2].
Qed.

Theorem float_rel_dist_range ord fa fb : fits_ok fa = true -> fits_ok fb = true -> (Z.of_nat (length fa) < 2 ^ 50)%Z ->
  PrimFloat.is_finite (frel_dist ord fa fb) = true /\ Rabs (B2R (Prim2B (frel_dist ord fa fb))) <= 2 * INR (length fa).
Proof.
  intros Ha Hb Hlen. destruct (frel_dist_range ord fa fb (fits_ok_R _ Ha) (fits_ok_R _ Hb) Hlen) as [Hf B].
  split; [apply is_finite_Ffin, Hf | exact B].
Qed.

Theorem float_distance_reward_range best o1 o2 fnew finit :
  fits_ok fnew = true -> fits_ok finit = true -> (forall fb, best = Some fb -> fits_ok fb = true) ->
  (Z.of_nat (length fnew) < 2 ^ 50)%Z ->
  let r := fdistance_reward best o1 o2 fnew finit in
  PrimFloat.is_finite r = true /\ (0 <=? r)%float = true /\ B2R (Prim2B r) <= 3 * (2 * INR (length fnew) + 1).
Proof.
  intros Hn Hi Hb Hlen r.
  destruct (fdistance_reward_range best o1 o2 fnew finit (fits_ok_R _ Hn) (fits_ok_R _ Hi) (fun fb E => fits_ok_R _ (Hb fb E)) Hlen) as [Hf [B0 B1]].
  fold r in Hf, B0, B1. split; [apply is_finite_Ffin, Hf|]. split; [|exact B1].
  apply leb_real; [exact Ffin_0 | exact Hf | rewrite FR_0; exact B0].
Qed.

Theorem float_perf_multiplier_range ratio median duration imp :
  let m := fperf_multiplier ratio median duration imp in
  PrimFloat.is_finite m = true /\ (0x1p-1 <? m)%float = true /\ (m <=? 3)%float = true.
Proof.
  cbv zeta. pose proof (fperf_multiplier_values ratio median duration imp) as H. unfold perf_values in H.
  repeat (destruct H as [<-|H]; [repeat split; vm_compute; reflexivity|]). destruct H.
Qed.

Theorem float_reward_range ord e median o N :
  (forall fb, fe_best e = Some fb -> fits_ok fb = true) -> fits_ok (fo_init o) = true -> fits_ok (fo_new o) = true ->
  (length (fo_new o) <= N)%nat -> (Z.of_nat N < 2 ^ 48)%Z ->
  let r := f_reward ord e median o in
  PrimFloat.is_finite r = true /\ (0 <=? r)%float = true /\ B2R (Prim2B r) <= 9 * (2 * INR N + 1) /\ (abs r <=? 0x1p480)%float = true.
Proof.
  intros Hb Hi Hn Hl HN r.
  assert (He : env_ok e) by (intros fb E; apply fits_ok_R, (Hb fb E)).
  assert (Ho : outcome_ok N o) by (split; [apply fits_ok_R, Hi | split; [apply fits_ok_R, Hn | exact Hl]]).
  destruct (f_reward_range ord e median o N He Ho HN) as [Hf [B0 B1]]. fold r in Hf, B0, B1.
  split; [apply is_finite_Ffin, Hf|]. split; [apply leb_real; [exact Ffin_0 | exact Hf | rewrite FR_0; exact B0]|].
  split; [exact B1|]. apply (f_reward_fbounded ord e median o N He Ho HN).
Qed.

(* non-vacuity: the extreme admissible fitness values +-2^1022 (relative value exactly 2, reward 9 for one objective) *)
Example float_reward_hypotheses_satisfiable :
  fit_ok 0x1p1022%float = true /\ fit_ok (-0x1p1022)%float = true /\ fit_ok infinity = false /\ fit_ok nan = false /\
  fit_ok 0x1.0000000000001p1022%float = false /\
  frelv 0x1p1022 (-0x1p1022) = 2%float /\
  fdistance_reward (Some [0x1p1022%float]) Lt Lt [(-0x1p1022)%float] [0x1p1022%float] = 9%float.
Proof. repeat split; vm_compute; reflexivity. Qed.
